(* Proofs/FastlogInside.v — C20_arrays_inside: ByteArray, StringArray and IPArray of ANY
   length, called on any line whose index is inside the buffer, never panic and leave the
   index inside the buffer. *)
From PV Require Import Base.Prelude Model.Fastlog Model.FastlogOps Spec.TextSpec
  Proofs.Fastlog Proofs.FastlogIP6 Proofs.FastlogLine.
Open Scope N_scope.

Definition inside (l : line) : Prop := wf l /\ (index l <= BUFSZ)%nat.

Lemma run_emits c t l :
  emits 0 c t -> wf l -> (index l + List.length t <= BUFSZ)%nat ->
  exists l', c l = Ok l' /\ wf l' /\ index l' = (index l + List.length t)%nat.
Proof.
  intros E W F. destruct (E l W) as (l' & R & (W' & I' & _)); [lia|]. exists l'. auto.
Qed.

(* ---------------------------------------------------------------- StringArray *)

Lemma emits_selem v :
  emits 0 (fun l => (l <- append_byte l 34 ;; l <- copy_in l v ;; l <- append_byte l 34 ;;
                     l <- append_byte l 44 ;; append_byte l 32)%res) (selem v).
Proof.
  unfold selem. change (QUOTE :: v ++ [QUOTE; 44; SP]) with ([34] ++ v ++ [34] ++ [44] ++ [32]).
  apply emits_bind; [apply emits_byte|]. apply emits_bind; [apply emits_copy|].
  apply emits_bind; [apply emits_byte|]. apply emits_bind; apply emits_byte.
Qed.

Lemma sa_loop_assoc v r l :
  (l <- append_byte l 34 ;; l <- copy_in l v ;; l <- append_byte l 34 ;;
   l <- append_byte l 44 ;; l <- append_byte l 32 ;; sa_loop r l)%res
  = (l <- (l <- append_byte l 34 ;; l <- copy_in l v ;; l <- append_byte l 34 ;;
           l <- append_byte l 44 ;; append_byte l 32) ;; sa_loop r l)%res.
Proof.
  destruct (append_byte l 34) as [l1| | |]; cbn [bind]; auto.
  destruct (copy_in l1 v) as [l2| | |]; cbn [bind]; auto.
  destruct (append_byte l2 34) as [l3| | |]; cbn [bind]; auto.
  destruct (append_byte l3 44) as [l4| | |]; cbn [bind]; auto.
Qed.

Lemma sa_loop_inside vs : forall l, inside l ->
  exists l', sa_loop vs l = Ok l' /\ inside l'.
Proof.
  induction vs as [|v r IH]; intros l [W H]; cbn [sa_loop].
  - exists l. split; [reflexivity|split; assumption].
  - destruct (Nat.ltb_spec BUFSZ (index l + List.length v + 4)) as [G|G].
    + exists l. split; [reflexivity|split; assumption].
    + rewrite sa_loop_assoc.
      destruct (run_emits _ _ l (emits_selem v) W) as (l1 & R1 & W1 & I1).
      { unfold selem. cbn [List.length]. rewrite app_length. cbn [List.length]. lia. }
      rewrite R1. cbn [bind]. apply IH. split; [exact W1|].
      rewrite I1. unfold selem. cbn [List.length]. rewrite app_length. cbn [List.length]. lia.
Qed.

Lemma append_byte_inside l b : wf l -> (index l < BUFSZ)%nat ->
  exists l', append_byte l b = Ok l' /\ inside l'.
Proof.
  intros W H. destruct (run_emits _ _ l (emits_byte 0 b) W) as (l' & R & W' & I'); [cbn [List.length]; lia|].
  exists l'. split; [exact R|]. split; [exact W'|]. rewrite I'. cbn [List.length]. lia.
Qed.

Lemma dec_index_lt l : inside l -> wf (dec_index l) /\ (index (dec_index l) < BUFSZ)%nat.
Proof.
  intros [W H]. split; [exact W|]. unfold dec_index. cbn [index]. unfold BUFSZ in *. lia.
Qed.

Lemma emits_open_bracket name :
  emits 0 (fun l => (l <- field_open l name ;; append_byte l 91)%res) ((SP :: name ++ [EQ]) ++ [91]).
Proof. apply emits_bind; [apply emits_field_open|apply emits_byte]. Qed.

Lemma string_array_inside l name vs : inside l ->
  exists l', f_string_array l name vs = Ok l' /\ inside l'.
Proof.
  intros [W H]. unfold f_string_array.
  destruct (Nat.ltb_spec BUFSZ (index l + List.length name + 4)) as [G|G].
  - exists l. split; [reflexivity|split; assumption].
  - destruct (run_emits _ _ l (emits_open_bracket name) W) as (l1 & R1 & W1 & I1).
    { rewrite app_length. cbn [List.length]. rewrite app_length. cbn [List.length]. lia. }
    assert (I1' : index l1 = (index l + List.length name + 3)%nat).
    { rewrite I1. rewrite app_length. cbn [List.length]. rewrite app_length. cbn [List.length]. lia. }
    assert (RA : forall k : line -> res line,
               (l0 <- field_open l name ;; l2 <- append_byte l0 91 ;; k l2)%res = k l1).
    { intros k. destruct (field_open l name) as [l0| | |]; cbn [bind] in *; try discriminate.
      rewrite R1. reflexivity. }
    rewrite RA. destruct vs as [|v r].
    + apply append_byte_inside; [exact W1|lia].
    + destruct (sa_loop_inside (v :: r) l1) as (l2 & R2 & IN2); [split; [exact W1|lia]|].
      rewrite R2. cbn [bind]. destruct (dec_index_lt l2 IN2) as [W3 H3].
      apply append_byte_inside; assumption.
Qed.

(* ---------------------------------------------------------------- lengths of address texts *)

Lemma dec_len_byte b : b < 256 -> (List.length (dec b) <= 3)%nat.
Proof.
  intros H. assert (S : forall n, n < 256 -> Nat.leb (List.length (dec n)) 3 = true).
  { apply sweep256. vm_compute. reflexivity. }
  apply Nat.leb_le. apply S. exact H.
Qed.

Lemma ip4_text_len a b c d : a < 256 -> b < 256 -> c < 256 -> d < 256 ->
  (List.length (ip4_text [a; b; c; d]) <= 15)%nat.
Proof.
  intros. unfold ip4_text. cbn [map join]. rewrite !app_length. cbn [List.length].
  pose proof (dec_len_byte a). pose proof (dec_len_byte b). pose proof (dec_len_byte c). pose proof (dec_len_byte d).
  lia.
Qed.

Fixpoint tok_weight (k : list tok) : nat :=
  match k with
  | [] => O
  | G _ :: r => (4 + tok_weight r)%nat
  | C :: r => S (tok_weight r)
  end.

Lemma flat_len f k : (forall i, (List.length (f i) <= 4)%nat) -> (List.length (flat f k) <= tok_weight k)%nat.
Proof.
  intros Hf. induction k as [|t r IH]; [cbn; lia|].
  change (t :: r) with ([t] ++ r). rewrite flat_app, app_length.
  destruct t as [i|]; cbn [tok_weight app].
  - unfold flat at 1. cbn [map concat]. rewrite app_nil_r. specialize (Hf i). lia.
  - unfold flat at 1. cbn [map concat List.length app]. lia.
Qed.

Lemma sweep_weights :
  forallb (fun mk => Nat.leb (tok_weight (spec_toks mk)) 39) (all_bools 8) = true.
Proof. vm_compute. reflexivity. Qed.

Lemma gtext_len ip i : (List.length (gtext ip i) <= 4)%nat.
Proof.
  unfold gtext, mgt, nlz8, hex2.
  destruct (negb (at_ ip (2 * i) =? 0)); [rewrite app_length|];
    repeat match goal with |- context [if ?c then _ else _] => destruct c end; cbn [List.length].
  all: lia.
Qed.

Lemma ip6_plain_len ip : List.length ip = 16%nat -> bytes_ok ip ->
  (List.length (ip6_plain (groups ip)) <= 39)%nat.
Proof.
  intros H B. unfold ip6_plain. rewrite <- (layout_groups ip H), <- (texts_groups ip H B).
  rewrite <- flat_spec_toks.
  eapply Nat.le_trans; [apply flat_len; apply gtext_len|].
  pose proof sweep_weights as S. rewrite forallb_forall in S.
  apply Nat.leb_le. apply S.
  replace 8%nat with (List.length (map (gz ip) (seq 0 8))) by (rewrite map_length, seq_length; reflexivity).
  apply all_bools_in.
Qed.

Lemma ipslice_text_len ip : bytes_ok ip -> (List.length (ipslice_text (Some ip)) <= 39)%nat.
Proof.
  intros B. unfold ipslice_text.
  destruct (Nat.eqb_spec (List.length ip) 4) as [H4|H4]; cbn [orb].
  - do 4 (destruct ip as [|? ip]; [discriminate|]). destruct ip; [|discriminate].
    unfold bytes_ok in B.
    repeat match goal with H : Forall _ (_ :: _) |- _ => inversion H; clear H; subst end.
    unfold netip_text. cbn [List.length Nat.eqb].
    eapply Nat.le_trans; [apply ip4_text_len; assumption|lia].
  - destruct (Nat.eqb_spec (List.length ip) 16) as [H|H]; [|cbn; lia].
    unfold netip_text. rewrite H. cbn [Nat.eqb].
    destruct (is4in6 ip) eqn:E4.
    + do 16 (destruct ip as [|? ip]; [discriminate|]). destruct ip; [|discriminate].
      unfold bytes_ok in B.
      repeat match goal with H : Forall _ (_ :: _) |- _ => inversion H; clear H; subst end.
      cbn [skipn].
      eapply Nat.le_trans; [apply ip4_text_len; assumption|lia].
    + apply ip6_plain_len; assumption.
Qed.

(* ---------------------------------------------------------------- IPArray *)

Definition ia_elem (v : option bytes) (l : line) : res line :=
  (l <- match v with
        | Some ip => match to4 ip with
                     | Some [a; b; c; d] => put_ip4 l a b c d
                     | _ => append_ip6 l ip
                     end
        | None => Ok l
        end ;;
   l <- append_byte l 44 ;; append_byte l 32)%res.

Lemma emits_ia_elem v : ipv_ok v -> emits 0 (ia_elem v) (iparr_elem v).
Proof.
  intros OK. unfold ia_elem, iparr_elem.
  change [44; SP] with ([44] ++ [32]).
  apply emits_bind; [|apply emits_bind; apply emits_byte].
  destruct v as [ip|]; [|apply emits_ok]. apply (emits_ip_body 0 ip). exact OK.
Qed.

Lemma iparr_elem_len v : ipv_ok v -> (List.length (iparr_elem v) <= IPARR_ROOM)%nat.
Proof.
  intros OK. unfold iparr_elem, IPARR_ROOM. rewrite app_length. cbn [List.length].
  destruct v as [ip|]; [|cbn [List.length]; lia].
  pose proof (ipslice_text_len ip OK). lia.
Qed.

Lemma ia_loop_assoc v r l :
  ia_loop (v :: r) l =
  if Nat.ltb BUFSZ (index l + IPARR_ROOM) then Ok l
  else (l <- ia_elem v l ;; ia_loop r l)%res.
Proof.
  cbn [ia_loop]. destruct (Nat.ltb BUFSZ (index l + IPARR_ROOM)); [reflexivity|].
  unfold ia_elem.
  destruct (match v with
            | Some ip => match to4 ip with
                         | Some [a; b; c; d] => put_ip4 l a b c d
                         | _ => append_ip6 l ip
                         end
            | None => Ok l
            end) as [l1| | |]; cbn [bind]; auto.
  destruct (append_byte l1 44) as [l2| | |]; cbn [bind]; auto.
Qed.

Lemma ia_loop_inside vs : forall l, Forall ipv_ok vs -> inside l ->
  exists l', ia_loop vs l = Ok l' /\ inside l'.
Proof.
  induction vs as [|v r IH]; intros l OKs [W H].
  - exists l. split; [reflexivity|split; assumption].
  - inversion OKs as [|? ? OKv OKr]; subst. rewrite ia_loop_assoc.
    destruct (Nat.ltb_spec BUFSZ (index l + IPARR_ROOM)) as [G|G].
    + exists l. split; [reflexivity|split; assumption].
    + pose proof (iparr_elem_len v OKv) as LE.
      destruct (run_emits _ _ l (emits_ia_elem v OKv) W) as (l1 & R1 & W1 & I1); [lia|].
      rewrite R1. cbn [bind]. apply IH; [exact OKr|]. split; [exact W1|lia].
Qed.

Lemma ip_array_inside l name vs : Forall ipv_ok vs -> inside l ->
  exists l', f_ip_array l name vs = Ok l' /\ inside l'.
Proof.
  intros OKs [W H]. unfold f_ip_array.
  destruct (Nat.ltb_spec BUFSZ (index l + List.length name + 4)) as [G|G].
  - exists l. split; [reflexivity|split; assumption].
  - destruct (run_emits _ _ l (emits_open_bracket name) W) as (l1 & R1 & W1 & I1).
    { rewrite app_length. cbn [List.length]. rewrite app_length. cbn [List.length]. lia. }
    assert (I1' : index l1 = (index l + List.length name + 3)%nat).
    { rewrite I1. rewrite app_length. cbn [List.length]. rewrite app_length. cbn [List.length]. lia. }
    assert (RA : forall k : line -> res line,
               (l0 <- field_open l name ;; l2 <- append_byte l0 91 ;; k l2)%res = k l1).
    { intros k. destruct (field_open l name) as [l0| | |]; cbn [bind] in *; try discriminate.
      rewrite R1. reflexivity. }
    rewrite RA. destruct vs as [|v r].
    + apply append_byte_inside; [exact W1|lia].
    + destruct (ia_loop_inside (v :: r) l1 OKs) as (l2 & R2 & IN2); [split; [exact W1|lia]|].
      rewrite R2. cbn [bind]. destruct (dec_index_lt l2 IN2) as [W3 H3].
      apply append_byte_inside; assumption.
Qed.

(* ---------------------------------------------------------------- ByteArray *)

Lemma belems_len (v : bytes) : List.length (concat (map belem v)) = (3 * List.length v)%nat.
Proof.
  induction v as [|a r IH]; [reflexivity|]. cbn [map concat List.length]. rewrite app_length, IH.
  unfold belem, hex2. cbn [List.length app]. lia.
Qed.

Lemma quot3_le r : (10 <= r)%Z -> (0 <= Z.quot (r - 10) 3 /\ 3 * Z.quot (r - 10) 3 <= r - 10)%Z.
Proof.
  intros H. split; [apply Z.quot_pos; lia|].
  pose proof (Z.quot_rem' (r - 10) 3) as E.
  assert (0 <= Z.rem (r - 10) 3)%Z by (apply Z.rem_nonneg; lia). lia.
Qed.

Lemma emits_fill k : emits 0 (fill_spaces k) (repeat 32 k).
Proof.
  induction k as [|k IH]; cbn [fill_spaces repeat]; [apply emits_ok|].
  change (32 :: repeat 32 k) with ([32] ++ repeat 32 k). apply emits_bind; [apply emits_byte|exact IH].
Qed.

Lemma byte_array_inside l name v : bytes_ok v -> inside l ->
  exists l', f_byte_array l name v = Ok l' /\ inside l'.
Proof.
  intros B [W H].
  destruct (Z.leb_spec (Z.of_nat BUFSZ - Z.of_nat (index l) - 1 - Z.of_nat (List.length name) - 2)
                       (Z.of_nat (List.length v) * 3)) as [T|T].
  - (* the array must be truncated *)
    unfold f_byte_array.
    set (rem := (Z.of_nat BUFSZ - Z.of_nat (index l) - 1 - Z.of_nat (List.length name) - 2)%Z) in *.
    destruct (Z.leb_spec rem (Z.of_nat (List.length v) * 3)) as [_|C]; [|lia].
    cbn [andb]. destruct (Z.leb_spec rem 10) as [R10|R10].
    + exists l. split; [reflexivity|split; assumption].
    + destruct (quot3_le rem ltac:(lia)) as [Q Q3].
      destruct (Z.ltb_spec (Z.quot (rem - 10) 3) 0) as [N|_]; [lia|].
      set (hi := Z.to_nat (Z.quot (rem - 10) 3)).
      set (l0 := mkLine (write_at (buf l) (BUFSZ - 10) TRUNCATED) (index l)).
      assert (W0 : wf l0).
      { unfold wf, l0. cbn [buf]. unfold wf in W. rewrite write_at_length; [exact W|]. rewrite W. unfold TRUNCATED. cbn [List.length]. unfold BUFSZ. lia. }
      assert (B' : bytes_ok (firstn hi v)) by (apply bytes_ok_firstn; exact B).
      assert (L' : (List.length (firstn hi v) <= hi)%nat) by (rewrite firstn_length; lia).
      assert (I0 : index l0 = index l) by reflexivity.
      assert (HB : (index l + List.length name + 3 + 3 * hi + 10 <= BUFSZ)%nat) by (unfold hi, rem in *; lia).
      pose proof (extends_refl l0 W0) as X.
      step X (emits_byte 0 32). step X (emits_copy 0 name). step X (emits_copy 0 [61; 91]).
      destruct (ba_loop_fit (firstn hi v) l0 _ l3 X B') as (l4 & R4 & X4).
      { rewrite belems_len. fit. }
      rewrite R4. cbn [bind].
      pose proof (extends_index _ _ _ X4) as I4. pose proof (extends_wf _ _ _ X4) as W4.
      rewrite !app_length, belems_len in I4. cbn [List.length] in I4.
      assert (I4' : (index l4 <= BUFSZ - 10)%nat).
      { rewrite I4. lia. }
      assert (EB : exists lz, append_byte (match firstn hi v with [] => l4 | _ => dec_index l4 end) 93 = Ok lz /\ wf lz /\ (index lz <= BUFSZ - 9)%nat).
      { destruct (firstn hi v).
        - destruct (run_emits _ _ l4 (emits_byte 0 93) W4) as (lz & Rz & Wz & Jz); [cbn [List.length]; unfold BUFSZ in *; lia|].
          exists lz. split; [exact Rz|]. split; [exact Wz|]. rewrite Jz. cbn [List.length]. unfold BUFSZ in *. lia.
        - destruct (run_emits _ _ (dec_index l4) (emits_byte 0 93) W4) as (lz & Rz & Wz & Jz);
            [unfold dec_index; cbn [index List.length]; unfold BUFSZ in *; lia|].
          exists lz. split; [exact Rz|]. split; [exact Wz|]. rewrite Jz. unfold dec_index. cbn [index List.length]. unfold BUFSZ in *. lia. }
      destruct EB as (lz & Rz & Wz & Iz). rewrite Rz. cbn [bind].
      destruct (run_emits _ _ lz (emits_fill (BUFSZ - 10 - index lz)) Wz) as (lf & Rf & Wf & _).
      { rewrite repeat_length. unfold BUFSZ in *. lia. }
      rewrite Rf. cbn [bind].
      eexists; split; [reflexivity|]. split; [exact Wf|]. cbn [index]. unfold BUFSZ. lia.
  - (* it fits: the rendering theorem applies *)
    assert (F : op_fits (index l) (OByteArr name v) = true).
    { unfold op_fits. cbn [spec_text]. unfold fld, bytearr_text. destruct v as [|a r].
      - apply Nat.leb_le. cbn [map join app List.length]. rewrite app_length. cbn [List.length]. cbn [List.length] in T. lia.
      - apply Nat.leb_le. cbn [List.length]. rewrite app_length. cbn [List.length]. rewrite app_length. cbn [List.length].
        assert (J : S (List.length (join [SP] (map hex2 (a :: r)))) = List.length (concat (map belem (a :: r)))).
        { rewrite join_belem by discriminate. rewrite app_length. cbn [List.length]. lia. }
        rewrite belems_len in J. lia. }
    destruct (byte_array_fit l name v W B F) as (l' & R & (W' & I' & _)).
    exists l'. split; [exact R|]. split; [exact W'|].
    pose proof (op_fits_le _ _ F) as FL. cbn [spec_text] in FL. lia.
Qed.

(* ---------------------------------------------------------------- C20_arrays_inside *)

Theorem arrays_inside l o :
  is_array o = true -> op_ok o -> wf l -> (index l <= BUFSZ)%nat ->
  exists l', run_op l o = Ok l' /\ wf l' /\ (index l' <= BUFSZ)%nat.
Proof.
  intros A OK W H. destruct o; try discriminate; cbn [run_op op_ok] in *.
  - apply string_array_inside. split; assumption.
  - apply ip_array_inside; [exact OK|split; assumption].
  - apply byte_array_inside; [exact OK|split; assumption].
Qed.

(* longer than the whole buffer, from an index near the end: the hypotheses are satisfiable *)
Lemma arrays_inside_nonvacuous :
  let l := mkLine (repeat 46 BUFSZ) 2040 in
  wf l /\ (index l <= BUFSZ)%nat /\
  op_ok (OByteArr [97] (repeat 255 3000)) /\ is_array (OByteArr [97] (repeat 255 3000)) = true /\
  (BUFSZ < List.length (spec_text (OByteArr [97%N] (repeat 255%N 3000))))%nat.
Proof.
  cbv zeta. split; [unfold wf; cbn [buf]; apply repeat_length|]. split; [cbn [index]; unfold BUFSZ; lia|].
  split; [cbn [op_ok]; apply bytes_ok_repeat; lia|]. split; [reflexivity|]. vm_compute. lia.
Qed.
