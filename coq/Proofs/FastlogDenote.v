(* Proofs/FastlogDenote.v — the reference renderings denote their values:
   parse (render x) = x for hex, MAC, IPv4 and IPv6 (RFC 5952) texts. *)
From PV Require Import Base.Prelude Model.Fastlog Model.FastlogOps Spec.TextSpec Spec.TextSpecParse
  Proofs.Fastlog Proofs.FastlogIP6 Proofs.FastlogLine Proofs.FastlogMsg.
Open Scope N_scope.

(* ---------------------------------------------------------------- hex *)

Lemma hexval_hexd d : d < 16 -> hexval (hexd d) = d.
Proof.
  intros H. assert (S : forall n, n < 256 -> (if n <? 16 then hexval (hexd n) =? n else true) = true).
  { apply sweep256. vm_compute. reflexivity. }
  specialize (S d ltac:(lia)). destruct (N.ltb_spec d 16); lia.
Qed.

Lemma hex2_value b : b < 256 -> hex_value (hex2 b) = b.
Proof. intros H. unfold hex_value, hex2. cbn [fold_left]. rewrite !hexval_hexd by lia. lia. Qed.

Lemma hex4_value w : w < 65536 -> hex_value (hex4 w) = w.
Proof. intros H. unfold hex_value, hex4. cbn [fold_left]. rewrite !hexval_hexd by lia. lia. Qed.

Lemma hexnl_value w : w < 65536 -> hex_value (hexnl w) = w.
Proof.
  intros H. unfold hexnl.
  destruct (N.ltb_spec w 16); [unfold hex_value; cbn [fold_left]; rewrite hexval_hexd by lia; lia|].
  destruct (N.ltb_spec w 256); [unfold hex_value; cbn [fold_left]; rewrite !hexval_hexd by lia; lia|].
  destruct (N.ltb_spec w 4096); [unfold hex_value; cbn [fold_left]; rewrite !hexval_hexd by lia; lia|].
  apply hex4_value. exact H.
Qed.

(* ---------------------------------------------------------------- split / join *)

Lemma split_nosep sep t : ~ In sep t -> split_on sep t = [t].
Proof.
  induction t as [|c r IH]; intros H; [reflexivity|]. cbn [split_on].
  destruct (N.eqb_spec c sep) as [E|E]; [exfalso; apply H; left; exact E|].
  rewrite IH by (intros I; apply H; right; exact I). reflexivity.
Qed.

Lemma split_app sep x rest : ~ In sep x -> split_on sep (x ++ sep :: rest) = x :: split_on sep rest.
Proof.
  induction x as [|c r IH]; intros H; cbn [app split_on].
  - rewrite N.eqb_refl. reflexivity.
  - destruct (N.eqb_spec c sep) as [E|E]; [exfalso; apply H; left; exact E|].
    rewrite IH by (intros I; apply H; right; exact I). reflexivity.
Qed.

Lemma split_join sep ts :
  ts <> [] -> Forall (fun t => ~ In sep t) ts -> split_on sep (join [sep] ts) = ts.
Proof.
  induction ts as [|x r IH]; intros NE F; [contradiction|].
  inversion F as [|? ? Fx Fr]; subst. destruct r as [|y r'].
  - cbn [join]. apply split_nosep. exact Fx.
  - change (join [sep] (x :: y :: r')) with (x ++ sep :: join [sep] (y :: r')).
    rewrite split_app by exact Fx. rewrite IH; [reflexivity|discriminate|exact Fr].
Qed.

Lemma join_app {A} (sep : list A) (x y : list (list A)) :
  x <> [] -> y <> [] -> join sep (x ++ y) = join sep x ++ sep ++ join sep y.
Proof.
  induction x as [|a r IH]; intros Hx Hy; [contradiction|].
  destruct r as [|b r'].
  - destruct y as [|c y']; [contradiction|]. reflexivity.
  - change ((a :: b :: r') ++ y) with (a :: ((b :: r') ++ y)).
    change (join sep (a :: (b :: r') ++ y)) with (a ++ sep ++ join sep ((b :: r') ++ y)).
    rewrite IH by (discriminate || exact Hy).
    change (join sep (a :: b :: r')) with (a ++ sep ++ join sep (b :: r')).
    rewrite <- !app_assoc. reflexivity.
Qed.

(* ---------------------------------------------------------------- characters of the renderings *)

Lemma hexd_range d : d < 16 -> (48 <= hexd d <= 57) \/ (97 <= hexd d <= 102).
Proof. intros H. unfold hexd. destruct (N.ltb_spec d 10); lia. Qed.

Lemma hex2_nocolon b : b < 256 -> ~ In COLON (hex2 b).
Proof.
  intros H I. unfold hex2, COLON in I. cbn [In] in I.
  pose proof (hexd_range (b / 16) ltac:(lia)). pose proof (hexd_range (b mod 16) ltac:(lia)).
  destruct I as [I|[I|[]]]; lia.
Qed.

Lemma hexnl_nocolon w : w < 65536 -> ~ In COLON (hexnl w).
Proof.
  intros H I. unfold hexnl, hex4, COLON in I.
  pose proof (hexd_range w). pose proof (hexd_range (w / 16) ). pose proof (hexd_range (w mod 16) ltac:(lia)).
  pose proof (hexd_range (w / 256)). pose proof (hexd_range ((w / 16) mod 16) ltac:(lia)).
  pose proof (hexd_range (w / 4096) ltac:(lia)). pose proof (hexd_range ((w / 256) mod 16) ltac:(lia)).
  destruct (N.ltb_spec w 16); [cbn [In] in I; destruct I as [I|[]]; lia|].
  destruct (N.ltb_spec w 256); [cbn [In] in I; destruct I as [I|[I|[]]]; lia|].
  destruct (N.ltb_spec w 4096); [cbn [In] in I; destruct I as [I|[I|[I|[]]]]; lia|].
  cbn [In] in I. destruct I as [I|[I|[I|[I|[]]]]]; lia.
Qed.

Lemma hexnl_nonempty w : hexnl w <> [].
Proof. unfold hexnl, hex4. repeat match goal with |- context [if ?c then _ else _] => destruct c end; discriminate. Qed.

Lemma dec_fuel_digits f : forall n acc,
  Forall (fun c => 48 <= c <= 57) acc -> Forall (fun c => 48 <= c <= 57) (dec_fuel f n acc).
Proof.
  induction f as [|f IH]; intros n acc H; cbn [dec_fuel]; [exact H|].
  assert (D : Forall (fun c => 48 <= c <= 57) (digit (n mod 10) :: acc)).
  { constructor; [unfold digit; lia|exact H]. }
  destruct (n <? 10); [exact D|apply IH; exact D].
Qed.

Lemma dec_nodot n : ~ In DOT (dec n).
Proof.
  intros I. pose proof (dec_fuel_digits (S (N.to_nat (N.size n))) n [] (Forall_nil _)) as F.
  rewrite Forall_forall in F. specialize (F DOT I). unfold DOT in F. lia.
Qed.

(* ---------------------------------------------------------------- MAC and IPv4 *)

Theorem mac_text_parse m : m <> [] -> bytes_ok m -> parse_mac (mac_text m) = m.
Proof.
  intros NE B. unfold parse_mac, mac_text. rewrite split_join.
  - rewrite map_map. rewrite <- (map_id m) at 2. apply map_ext_in. intros b Hb.
    apply hex2_value. unfold bytes_ok in B. rewrite Forall_forall in B. apply B. exact Hb.
  - destruct m; [contradiction|discriminate].
  - apply Forall_forall. intros t Ht. apply in_map_iff in Ht. destruct Ht as (b & <- & Hb).
    apply hex2_nocolon. unfold bytes_ok in B. rewrite Forall_forall in B. apply B. exact Hb.
Qed.

Theorem ip4_text_parse a : a <> [] -> parse_ip4 (ip4_text a) = a.
Proof.
  intros NE. unfold parse_ip4, ip4_text. rewrite split_join.
  - rewrite map_map. rewrite <- (map_id a) at 2. apply map_ext. intros b. apply dec_value_dec.
  - destruct a; [contradiction|discriminate].
  - apply Forall_forall. intros t Ht. apply in_map_iff in Ht. destruct Ht as (b & <- & _). apply dec_nodot.
Qed.

(* ---------------------------------------------------------------- IPv6 *)

Fixpoint bools_eqb (a b : list bool) : bool :=
  match a, b with
  | [], [] => true
  | x :: r, y :: s => Bool.eqb x y && bools_eqb r s
  | _, _ => false
  end.
Lemma bools_eqb_eq a : forall b, bools_eqb a b = true -> a = b.
Proof.
  induction a as [|x r IH]; intros [|y s]; cbn; try discriminate; auto.
  intros E. apply andb_prop in E. destruct E as [E1 E2]. apply Bool.eqb_prop in E1. subst. f_equal. auto.
Qed.

(* the run chosen by best_run lies inside the eight groups and consists of zero groups *)
Definition run_ok (m : list bool) : bool :=
  let '(s, n) := best_run m O (O, O) in
  if Nat.ltb n 2 then true
  else Nat.leb (s + n) 8 && bools_eqb (firstn s m ++ repeat true n ++ skipn (s + n) m) m.

Lemma sweep_runs : forallb run_ok (all_bools 8) = true.
Proof. vm_compute. reflexivity. Qed.

Lemma best_run_ok m s n : List.length m = 8%nat -> best_run m O (O, O) = (s, n) -> Nat.ltb n 2 = false ->
  (s + n <= 8)%nat /\ firstn s m ++ repeat true n ++ skipn (s + n) m = m.
Proof.
  intros L E N. pose proof sweep_runs as S. rewrite forallb_forall in S.
  specialize (S m). rewrite <- L in S at 1. specialize (S (all_bools_in m)).
  unfold run_ok in S. rewrite E, N in S. apply andb_prop in S. destruct S as [S1 S2].
  split; [apply Nat.leb_le; exact S1|apply bools_eqb_eq; exact S2].
Qed.

Lemma zeros_of_mask (z : list N) : forall k, map (N.eqb 0) z = repeat true k -> z = repeat 0 k.
Proof.
  induction z as [|a r IH]; intros [|k] H; cbn in *; try discriminate; [reflexivity|].
  injection H as H1 H2. f_equal; [destruct (N.eqb_spec 0 a); [lia|discriminate]|apply IH; exact H2].
Qed.

Lemma take_all_nonempty l : Forall (fun t : text => t <> []) l -> take_nonempty l = l /\ drop_nonempty l = [].
Proof.
  induction l as [|x r IH]; intros F; [split; reflexivity|].
  inversion F as [|? ? Fx Fr]; subst. destruct (IH Fr) as [T D]. cbn [take_nonempty drop_nonempty].
  destruct x; [contradiction|]. cbn [is_empty]. rewrite T, D. split; reflexivity.
Qed.

Lemma take_until_empty a r : Forall (fun t : text => t <> []) a ->
  take_nonempty (a ++ [] :: r) = a /\ drop_nonempty (a ++ [] :: r) = [] :: r.
Proof.
  induction a as [|x a' IH]; intros F; [split; reflexivity|].
  inversion F as [|? ? Fx Fr]; subst. destruct (IH Fr) as [T D]. cbn [app take_nonempty drop_nonempty].
  destruct x; [contradiction|]. cbn [is_empty]. rewrite T, D. split; reflexivity.
Qed.

Lemma drop_empty_nonempty b : Forall (fun t : text => t <> []) b -> drop_empty b = b.
Proof. destruct b as [|x r]; intros F; [reflexivity|]. inversion F; subst. cbn. destruct x; [contradiction|reflexivity]. Qed.

(* the fields between the two halves of a compressed address *)
Definition is_nil (l : list text) : bool := match l with [] => true | _ => false end.
Definition gap (a b : list text) : list text :=
  ([] :: (if is_nil a then [[]] else [])) ++ (if is_nil b then [[]] else []).

Lemma join_gap a b :
  join [COLON] a ++ [COLON; COLON] ++ join [COLON] b = join [COLON] (a ++ gap a b ++ b).
Proof.
  unfold gap. destruct a as [|x a']; destruct b as [|y b']; cbn [is_nil].
  - reflexivity.
  - reflexivity.
  - change (([[]] ++ []) ++ [[]]) with ([[]; []] : list text). rewrite app_nil_r.
    rewrite join_app by discriminate. reflexivity.
  - change (([[]] ++ []) ++ []) with ([[]] : list text).
    rewrite join_app by discriminate.
    change ([[]] ++ y :: b') with ([] :: y :: b').
    change (join [COLON] ([] :: y :: b')) with ([] ++ [COLON] ++ join [COLON] (y :: b')).
    reflexivity.
Qed.

Lemma drop_empty_gap a b : Forall (fun t : text => t <> []) b -> drop_empty (gap a b ++ b) = b.
Proof.
  intros F. unfold gap. destruct (is_nil a); destruct b as [|y b']; cbn [is_nil app drop_empty is_empty]; try reflexivity;
    inversion F; subst; destruct y; try contradiction; reflexivity.
Qed.

Lemma in_firstn_l {A} n (l : list A) x : In x (firstn n l) -> In x l.
Proof. intros H. rewrite <- (firstn_skipn n l). apply in_or_app. left. exact H. Qed.
Lemma in_skipn_l {A} n (l : list A) x : In x (skipn n l) -> In x l.
Proof. intros H. rewrite <- (firstn_skipn n l). apply in_or_app. right. exact H. Qed.

Lemma skipn_skipn_add {A} n : forall s (l : list A), skipn n (skipn s l) = skipn (s + n) l.
Proof.
  intros s. induction s as [|s IH]; intros l; [reflexivity|].
  destruct l as [|x r]; [cbn [skipn Nat.add]; apply skipn_nil|]. cbn [skipn Nat.add]. apply IH.
Qed.

Theorem ip6_plain_parse g :
  List.length g = 8%nat -> Forall (fun w => w < 65536) g -> parse_ip6 (ip6_plain g) = g.
Proof.
  intros L R. unfold ip6_plain, render.
  set (m := map (N.eqb 0) g). set (ts := map hexnl g).
  assert (Lm : List.length m = 8%nat) by (unfold m; rewrite map_length; exact L).
  assert (Fc : Forall (fun t => ~ In COLON t) ts).
  { apply Forall_forall. intros t Ht. apply in_map_iff in Ht. destruct Ht as (w & <- & Hw).
    apply hexnl_nocolon. rewrite Forall_forall in R. apply R. exact Hw. }
  assert (Fn : Forall (fun t : text => t <> []) ts).
  { apply Forall_forall. intros t Ht. apply in_map_iff in Ht. destruct Ht as (w & <- & _). apply hexnl_nonempty. }
  assert (Vals : map hex_value ts = g).
  { unfold ts. rewrite map_map. rewrite <- (map_id g) at 2. apply map_ext_in. intros w Hw.
    apply hexnl_value. rewrite Forall_forall in R. apply R. exact Hw. }
  destruct (best_run m 0 (0%nat, 0%nat)) as [s n] eqn:EB.
  destruct (Nat.ltb n 2) eqn:N2.
  - (* no run of two or more zero groups: eight fields *)
    unfold parse_ip6. cbv zeta. rewrite !split_join; [|destruct g; [discriminate|discriminate]|exact Fc].
    destruct (take_all_nonempty ts Fn) as [T D]. rewrite D. exact Vals.
  - destruct (best_run_ok m s n Lm EB N2) as [SN ME].
    match goal with |- context [join _ ?A ++ _ ++ join _ ?B] => remember A as a eqn:Ea; remember B as b eqn:Eb end.
    assert (Fa : Forall (fun t : text => t <> []) a) by (subst a; apply Forall_forall; intros t Ht; rewrite Forall_forall in Fn; apply Fn; eapply in_firstn_l; exact Ht).
    assert (Fb : Forall (fun t : text => t <> []) b) by (subst b; apply Forall_forall; intros t Ht; rewrite Forall_forall in Fn; apply Fn; eapply in_skipn_l; exact Ht).
    rewrite join_gap. unfold parse_ip6. cbv zeta. rewrite !split_join.
    + destruct (take_until_empty a (tl (gap a b) ++ b) Fa) as [T D].
      match type of T with take_nonempty ?X = _ =>
        assert (G : a ++ gap a b ++ b = X) by (unfold gap; reflexivity) end.
      rewrite G, D, T.
      match goal with |- context [drop_empty ?Y] => replace Y with (gap a b ++ b) by (unfold gap; reflexivity) end.
      rewrite drop_empty_gap by exact Fb.
      assert (La : List.length a = s) by (subst a; unfold ts; rewrite firstn_length, map_length; lia).
      assert (Lb : List.length b = (8 - (s + n))%nat) by (subst b; unfold ts; rewrite skipn_length, map_length; lia).
      unfold text, bytes, byte in *. rewrite La, Lb. replace (8 - s - (8 - (s + n)))%nat with n by lia.
      subst a b. rewrite <- firstn_map, <- skipn_map, Vals.
      (* the n groups of the run are zero *)
      assert (Z : firstn n (skipn s g) = repeat 0 n).
      { apply zeros_of_mask. rewrite <- firstn_map, <- skipn_map. fold m.
        rewrite <- ME at 1.
        assert (Ls : List.length (firstn s m) = s) by (rewrite firstn_length; lia).
        rewrite <- Ls at 1. rewrite skipn_app, Ls, Nat.sub_diag. rewrite (skipn_all2 (firstn s m)) by lia.
        cbn [app skipn].
        rewrite <- (repeat_length true n) at 1. rewrite firstn_app, repeat_length, Nat.sub_diag.
        cbn [firstn]. rewrite app_nil_r. apply firstn_all2. rewrite repeat_length. lia. }
      rewrite <- Z. rewrite <- (skipn_skipn_add n s g).
      rewrite (firstn_skipn n (skipn s g)). apply firstn_skipn.
    + destruct a; discriminate.
    + rewrite Forall_forall in Fc.
      apply Forall_app; split; [|apply Forall_app; split].
      * subst a. apply Forall_forall. intros t Ht. apply Fc. eapply in_firstn_l. exact Ht.
      * unfold gap. destruct (is_nil a), (is_nil b); repeat constructor; intros [].
      * subst b. apply Forall_forall. intros t Ht. apply Fc. eapply in_skipn_l. exact Ht.
Qed.

(* ---------------------------------------------------------------- netip's text of a 16-byte address *)

Definition hexchar (c : byte) : Prop := (48 <= c <= 57) \/ (97 <= c <= 102).

Lemma hexnl_chars w : w < 65536 -> Forall hexchar (hexnl w).
Proof.
  intros H. unfold hexnl, hex4, hexchar.
  destruct (N.ltb_spec w 16); [repeat (apply Forall_cons; [apply hexd_range; lia|]); apply Forall_nil|].
  destruct (N.ltb_spec w 256); [repeat (apply Forall_cons; [apply hexd_range; lia|]); apply Forall_nil|].
  destruct (N.ltb_spec w 4096); repeat (apply Forall_cons; [apply hexd_range; lia|]); apply Forall_nil.
Qed.

Lemma in_join {A} (sep : list A) ts x : In x (join sep ts) -> In x sep \/ exists t, In t ts /\ In x t.
Proof.
  induction ts as [|a r IH]; intros H; [destruct H|].
  destruct r as [|b r'].
  - right. exists a. split; [left; reflexivity|exact H].
  - change (join sep (a :: b :: r')) with (a ++ sep ++ join sep (b :: r')) in H.
    apply in_app_or in H. destruct H as [H|H]; [right; exists a; split; [left; reflexivity|exact H]|].
    apply in_app_or in H. destruct H as [H|H]; [left; exact H|].
    destruct (IH H) as [S|(t & Ht & Hx)]; [left; exact S|right; exists t; split; [right; exact Ht|exact Hx]].
Qed.

Lemma ip6_plain_nodot g : Forall (fun w => w < 65536) g -> ~ In DOT (ip6_plain g).
Proof.
  intros R I. unfold ip6_plain, render in I.
  assert (NT : forall ts', (forall t, In t ts' -> In t (map hexnl g)) -> ~ In DOT (join [COLON] ts')).
  { intros ts' Sub J. apply in_join in J. destruct J as [J|(t & Ht & Hx)].
    - unfold DOT, COLON in J. destruct J as [J|[]]. lia.
    - apply Sub in Ht. apply in_map_iff in Ht. destruct Ht as (w & <- & Hw).
      rewrite Forall_forall in R. pose proof (hexnl_chars w (R w Hw)) as C. rewrite Forall_forall in C.
      specialize (C DOT Hx). unfold hexchar, DOT in C. lia. }
  destruct (best_run (map (N.eqb 0) g) 0 (0%nat, 0%nat)) as [s n]. destruct (Nat.ltb n 2).
  - apply (NT (map hexnl g)); auto.
  - apply in_app_or in I. destruct I as [I|I]; [apply (NT _ (fun t => in_firstn_l s _ t) I)|].
    apply in_app_or in I. destruct I as [I|I].
    + unfold DOT, COLON in I. destruct I as [I|[I|[]]]; lia.
    + apply (NT _ (fun t => in_skipn_l (s + n) _ t) I).
Qed.

Lemma groups_len b : List.length b = 16%nat -> List.length (groups b) = 8%nat.
Proof. intros H. do 16 (destruct b as [|? b]; [discriminate|]). destruct b; [reflexivity|discriminate]. Qed.

Lemma groups_ok b : List.length b = 16%nat -> bytes_ok b -> Forall (fun w => w < 65536) (groups b).
Proof.
  intros H B. do 16 (destruct b as [|? b]; [discriminate|]). destruct b; [|discriminate].
  unfold bytes_ok in B. repeat match goal with H : Forall _ (_ :: _) |- _ => inversion H; clear H; subst end.
  cbn [groups]. repeat constructor; lia.
Qed.

Theorem ip6_text_parse b :
  List.length b = 16%nat -> bytes_ok b -> parse_ip6_text (ip6_text b) = groups b.
Proof.
  intros H B. unfold ip6_text. destruct (is4in6 b) eqn:E4.
  - do 16 (destruct b as [|? b]; [discriminate|]). destruct b; [|discriminate].
    unfold is4in6 in E4. cbn [List.length Nat.eqb firstn forallb nth andb] in E4.
    repeat match goal with H : _ && _ = true |- _ => apply andb_prop in H; destruct H end.
    repeat match goal with H : (0 =? _) = true |- _ => apply N.eqb_eq in H; subst end.
    repeat match goal with H : (_ =? 255) = true |- _ => apply N.eqb_eq in H; subst end.
    cbn [skipn]. unfold parse_ip6_text.
    match goal with |- context [ip4_text [?a; ?b; ?c; ?d]] =>
      assert (D : existsb (N.eqb DOT) ([COLON; COLON; 102; 102; 102; 102; COLON] ++ ip4_text [a; b; c; d]) = true) end.
    { apply existsb_exists. exists DOT. split; [|apply N.eqb_refl]. apply in_or_app. right.
      unfold ip4_text. cbn [map join]. apply in_or_app. right. left. reflexivity. }
    rewrite D. cbn [app]. unfold COLON.
    rewrite ip4_text_parse by discriminate. reflexivity.
  - unfold parse_ip6_text.
    assert (D : existsb (N.eqb DOT) (ip6_plain (groups b)) = false).
    { apply Bool.not_true_is_false. intros X. apply existsb_exists in X. destruct X as (x & Hx & Ex).
      apply N.eqb_eq in Ex. subst x. exact (ip6_plain_nodot _ (groups_ok b H B) Hx). }
    rewrite D. apply ip6_plain_parse; [apply groups_len; exact H|apply groups_ok; assumption].
Qed.
