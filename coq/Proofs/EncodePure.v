(* Proofs/EncodePure.v — C03: ENCODERS ARE PURE IN THEIR ARGUMENTS.
   In the model an encoder call is a function of its arguments and of the destination buffer and of nothing
   else: there is no pool, scratch buffer or counter behind it.  Stated explicitly as a theorem about a world of
   several buffers on which calls of several callers are interleaved in an arbitrary schedule: what a caller
   finds in its buffer, and every result it gets, is what its own calls alone produce — independent of any
   other call.  The harness kind [conc] is the tie of this statement to the code: goroutines encoding at the same
   time into buffers of their own must each observe the sequential (= model) result. *)
From PV Require Import Base.Prelude Base.Slice Model.EncodeBase Model.Encode Model.EncodeCompose Model.EncodeDHCP.
Open Scope nat_scope.

(* a call: the buffer it is given (index into the world), its view length there, and the encoder with its
   arguments already applied — slice in, result and storage out.  Every encoder of Model/Encode*.v has this
   shape (see [call_of] below). *)
Record call := { c_buf : nat; c_len : nat; c_fn : slice -> res slice * bytes }.

Definition world := list bytes.
Fixpoint upd (i : nat) (v : bytes) (w : world) : world :=
  match w, i with
  | [], _ => []
  | _ :: r, O => v :: r
  | x :: r, S k => x :: upd k v r
  end.

Definition step (w : world) (c : call) : world * res slice :=
  let '(r, a) := c_fn c (mkSlice (nth (c_buf c) w []) (c_len c)) in (upd (c_buf c) a w, r).

(* a schedule: the calls of all callers in the order in which they happen to run *)
Fixpoint exec (w : world) (cs : list call) : world * list (nat * res slice) :=
  match cs with
  | [] => (w, [])
  | c :: r => let '(w1, x) := step w c in
              let '(w2, xs) := exec w1 r in (w2, (c_buf c, x) :: xs)
  end.

(* one caller alone: its own calls on its own buffer *)
Fixpoint alone (a : bytes) (cs : list call) : bytes * list (res slice) :=
  match cs with
  | [] => (a, [])
  | c :: r => let '(x, a1) := c_fn c (mkSlice a (c_len c)) in
              let '(a2, xs) := alone a1 r in (a2, x :: xs)
  end.

Definition mine (i : nat) (cs : list call) : list call := filter (fun c => Nat.eqb (c_buf c) i) cs.
Definition results_of (i : nat) (l : list (nat * res slice)) : list (res slice) :=
  map snd (filter (fun p => Nat.eqb (fst p) i) l).

Lemma nth_upd_same i v w : i < length w -> nth i (upd i v w) [] = v.
Proof. revert i; induction w as [|x w IH]; intros [|i] H; cbn in *; try lia; auto. apply IH. lia. Qed.
Lemma nth_upd_other i j v w : i <> j -> nth j (upd i v w) [] = nth j w [].
Proof. revert i j; induction w as [|x w IH]; intros [|i] [|j] H; cbn; auto; try lia. Qed.
Lemma upd_length i v w : length (upd i v w) = length w.
Proof. revert i; induction w as [|x w IH]; intros [|i]; cbn; auto. Qed.

Theorem encode_deterministic (cs : list call) : forall (w : world) (i : nat),
  i < length w ->
  let '(w', rs) := exec w cs in
  let '(a', rs') := alone (nth i w []) (mine i cs) in
  nth i w' [] = a' /\ results_of i rs = rs'.
Proof.
  induction cs as [|c cs IH]; intros w i Hi.
  - cbn. auto.
  - cbn [exec mine filter]. unfold step.
    destruct (c_fn c (mkSlice (nth (c_buf c) w []) (c_len c))) as [x a] eqn:E.
    specialize (IH (upd (c_buf c) a w) i ltac:(rewrite upd_length; exact Hi)).
    destruct (exec (upd (c_buf c) a w) cs) as [w2 xs].
    unfold results_of. cbn [filter fst map snd].
    destruct (Nat.eqb_spec (c_buf c) i) as [Eq|Ne].
    + subst i. cbn [alone]. rewrite E. rewrite nth_upd_same in IH by exact Hi.
      fold (mine (c_buf c) cs). destruct (alone a (mine (c_buf c) cs)) as [a2 ys].
      destruct IH as [I1 I2]. split; [exact I1|]. cbn [map snd]. f_equal. exact I2.
    + rewrite nth_upd_other in IH by exact Ne. fold (mine i cs).
      destruct (alone (nth i w []) (mine i cs)) as [a2 ys]. exact IH.
Qed.

(* every encoder of the model is such a call: result and storage afterwards are computed from the slice it is
   given and from its arguments *)
Definition call_of (i l : nat) (f : slice -> res slice) : call :=
  {| c_buf := i; c_len := l; c_fn := fun p => let r := f p in (r, buf_after p r) |}.

Definition dhcp4_call i l opcode mt chaddr ci yi xid bc options order perm : call :=
  call_of i l (fun b => encode_dhcp4 b opcode mt chaddr ci yi xid bc options order perm).
Definition udp4_frame_call i l smac dmac ttl sip dip sp dp data : call :=
  call_of i l (fun b => compose_udp4 b smac dmac ttl sip dip sp dp data).
Definition ip4_append_call i l b proto : call :=
  {| c_buf := i; c_len := l; c_fn := fun p => ip4_append_st p b proto |}.

(* non-vacuity: two callers, two buffers, the DHCP encoder and the frame composition interleaved both ways *)
Example encode_deterministic_ex :
  let d := dhcp4_call 0 0 2 5 None [] [192;168;0;9]%N None false [(1, [255;255;255;0]); (3, [192;168;0;1])]%N [3; 1]%N [53]%N in
  let f := udp4_frame_call 1 0 [2;0;0;0;0;1]%N [2;0;0;0;0;9]%N 64 [10;0;0;1]%N [10;0;0;2]%N 68 67 [1;2;3]%N in
  let w := [repeat 7%N 320; repeat 9%N 64] in
  fst (exec w [d; f; d]) = fst (exec w [f; d; d]) /\ nth 0 (fst (exec w [d; f])) [] <> repeat 7%N 320.
Proof. cbn zeta. split; [vm_compute; reflexivity|]. vm_compute. discriminate. Qed.

(* ================================================================ *)
(* ENCODERS ARE READ-ONLY IN EVERY ARGUMENT EXCEPT THE DESTINATION.
   A call whose slice arguments live in the world too (a payload, an order list, option values, MACs: possibly
   sharing one array, possibly directly behind one another, possibly aliasing each other): the model reads them
   — [a_fn] may look at the whole world — and writes the destination array only. *)
Record acall := { a_dst : nat; a_len : nat; a_fn : world -> slice -> res slice * bytes }.

Definition astep (w : world) (c : acall) : world * res slice :=
  let '(r, a) := a_fn c w (mkSlice (nth (a_dst c) w []) (a_len c)) in (upd (a_dst c) a w, r).

Fixpoint aexec (w : world) (cs : list acall) : world :=
  match cs with
  | [] => w
  | c :: r => aexec (fst (astep w c)) r
  end.

Theorem encode_args_unchanged (cs : list acall) : forall (w : world) (j : nat),
  Forall (fun c => a_dst c <> j) cs -> nth j (aexec w cs) [] = nth j w [].
Proof.
  induction cs as [|c cs IH]; intros w j H; cbn [aexec]; [reflexivity|].
  inversion H as [|? ? Hc Hr]; subst.
  rewrite (IH _ j Hr). unfold astep.
  destruct (a_fn c w (mkSlice (nth (a_dst c) w []) (a_len c))) as [r a]. cbn [fst].
  apply nth_upd_other. exact Hc.
Qed.

(* e.g. EncodeDHCP4 with its order list and one option value taken from arrays of the world *)
Definition dhcp4_acall dst l opcode mt yi (order_at val_at : nat) (code : N) : acall :=
  {| a_dst := dst; a_len := l;
     a_fn := fun w b => let r := encode_dhcp4 b opcode mt None [] yi None false [(code, nth val_at w [])] (nth order_at w []) [] in
                        (r, buf_after b r) |}.

Example encode_args_unchanged_ex :
  let w := [repeat 7%N 320; [1; 3; 6]%N; [9; 8; 7; 6]%N] in
  let c := dhcp4_acall 0 0 2 5 [192;168;0;9]%N 1 2 61 in
  nth 1 (aexec w [c]) [] = [1; 3; 6]%N /\ nth 2 (aexec w [c]) [] = [9; 8; 7; 6]%N /\ nth 0 (aexec w [c]) [] <> nth 0 w [].
Proof. cbn zeta. split; [reflexivity|]. split; [reflexivity|]. vm_compute. discriminate. Qed.

(* EncodeEther with MAC arguments aliasing the destination (as found): a source MAC lying in b[0:6] is read after
   the destination MAC has been written there, so the frame's source equals its destination *)
Example ether_alias_src_in_header :
  let b := mkSlice [1;2;3;4;5;6; 11;12;13;14;15;16; 0;0; 21;22;23;24;25;26]%N 0 in
  exists r, encode_ether_aliased b 2048 0 6 14 6 = Ok r /\
            ether_dst r = Ok [21;22;23;24;25;26]%N /\ ether_src r = Ok [21;22;23;24;25;26]%N.
Proof. cbn zeta. eexists. split; [vm_compute; reflexivity|]. split; vm_compute; reflexivity. Qed.
