(* Proofs/FastlogAsFound.v — the property was violated by fastlog/logging.go as found
   (/repo 040c128): machine-checked witnesses on the as-found functions.  Each witness is
   also the replay recorded in known_findings.txt ("fixed:" lines) and was reproduced on the
   real code by the harness before the repair. *)
From PV Require Import Base.Prelude Model.Fastlog Model.FastlogOps Model.FastlogAsFound Spec.TextSpec.
Open Scope N_scope.

Definition line_at (i : nat) : line := mkLine (repeat 46 BUFSZ) i.
Lemma line_at_ok i : (i <= BUFSZ)%nat -> line_ok (line_at i).
Proof. intros H. split; [|exact H]. unfold wf, line_at. cbn [buf]. apply repeat_length. Qed.

Definition text_or_nil (r : res line) : bytes := match r with Ok l => text_of l | _ => [] end.

(* 1:0:0:2:3:4:5:6 -- a zero run of exactly two groups was not compressed *)
Definition ip_run2 : bytes := [0;1; 0;0; 0;0; 0;2; 0;3; 0;4; 0;5; 0;6].
Lemma asfound_ip6_run2_refuted :
  exists l name ip, line_ok l /\ bytes_ok ip /\ List.length ip = 16%nat /\
    fits l (fld name (netip_text ip)) /\
    is_ok (f_ipslice_af l name (Some ip)) = true /\
    text_or_nil (f_ipslice_af l name (Some ip)) <> text_of l ++ fld name (netip_text ip).
Proof.
  exists (line_at 0), [97], ip_run2.
  split; [apply line_at_ok; unfold BUFSZ; lia|].
  split; [apply bytes_okb_spec; vm_compute; reflexivity|].
  split; [reflexivity|]. split; [unfold fits; vm_compute; lia|].
  split; [vm_compute; reflexivity|]. vm_compute. discriminate.
Qed.

(* fe80::1 ending exactly at byte 2048 panicked (transient ':' after the last group) *)
Definition ip_lla : bytes := [254;128; 0;0; 0;0; 0;0; 0;0; 0;0; 0;0; 0;1].
Lemma asfound_ip6_exact_fit_refuted :
  exists l name ip, line_ok l /\ bytes_ok ip /\ List.length ip = 16%nat /\
    fits l (fld name (netip_text ip)) /\ f_ipslice_af l name (Some ip) = Panic.
Proof.
  exists (line_at 2038), [97], ip_lla.
  split; [apply line_at_ok; unfold BUFSZ; lia|].
  split; [apply bytes_okb_spec; vm_compute; reflexivity|].
  split; [reflexivity|]. split; [unfold fits; vm_compute; lia|]. vm_compute. reflexivity.
Qed.

(* IPArray [1.2.3.4, 5.6.7.8] returned after the first element: " a=[1.2.3.4" *)
Lemma asfound_iparray_ip4_return_refuted :
  exists l name vs, line_ok l /\ op_fits (index l) (OIPArr name vs) = true /\
    text_or_nil (f_ip_array_af l name vs) = text_of l ++ [32; 97; 61; 91; 49; 46; 50; 46; 51; 46; 52] /\
    text_or_nil (f_ip_array_af l name vs) <> text_of l ++ spec_text (OIPArr name vs).
Proof.
  exists (line_at 0), [97], [Some [1; 2; 3; 4]; Some [5; 6; 7; 8]].
  split; [apply line_at_ok; unfold BUFSZ; lia|].
  split; [vm_compute; reflexivity|]. split; [vm_compute; reflexivity|]. vm_compute. discriminate.
Qed.

(* IPArray with one full-length IPv6 address 36 bytes before the end: the 28+2 guard let it in, appendByte panicked *)
Definition ip_full : bytes := [17;17; 34;34; 51;51; 68;68; 85;85; 102;102; 119;119; 136;136].
Lemma asfound_iparray_room_refuted :
  exists l name vs, line_ok l /\ f_ip_array_af l name vs = Panic.
Proof.
  exists (line_at 2012), [97], [Some ip_full].
  split; [apply line_at_ok; unfold BUFSZ; lia|]. vm_compute. reflexivity.
Qed.

(* ByteArray 8 bytes before the end: value[:rem/3] with rem/3 < 0 *)
Lemma asfound_bytearray_negative_bound_refuted :
  exists l name v, line_ok l /\ f_byte_array_af l name v = Panic.
Proof.
  exists (line_at 2040), [97], [1; 2; 3].
  split; [apply line_at_ok; unfold BUFSZ; lia|]. vm_compute. reflexivity.
Qed.

(* IP of an address whose text does not fit: the call returned with the index PAST the buffer, and ToString panicked *)
Lemma asfound_index_past_refuted :
  exists l name t l', line_ok l /\ f_ip_af l name (Some t) = Ok l' /\ (BUFSZ < index l')%nat /\ to_string l' = Panic.
Proof.
  exists (line_at 2040), [97], [49; 48; 46; 48; 46; 48; 46; 49]. eexists.
  split; [apply line_at_ok; unfold BUFSZ; lia|]. split; [vm_compute; reflexivity|]. split; vm_compute; [lia|reflexivity].
Qed.

(* ---- the same witnesses on the repaired code *)

Lemma repaired_ip6_run2 :
  text_or_nil (f_ipslice (line_at 0) [97] (Some ip_run2)) = [32; 97; 61; 49; 58; 58; 50; 58; 51; 58; 52; 58; 53; 58; 54].  (* " a=1::2:3:4:5:6" *)
Proof. vm_compute. reflexivity. Qed.

Lemma repaired_ip6_exact_fit :
  is_ok (f_ipslice (line_at 2038) [97] (Some ip_lla)) = true /\
  List.length (text_or_nil (f_ipslice (line_at 2038) [97] (Some ip_lla))) = BUFSZ.
Proof. split; vm_compute; reflexivity. Qed.

Lemma repaired_iparray_ip4 :
  text_or_nil (f_ip_array (line_at 0) [97] [Some [1; 2; 3; 4]; Some [5; 6; 7; 8]])
  = text_of (line_at 0) ++ spec_text (OIPArr [97] [Some [1; 2; 3; 4]; Some [5; 6; 7; 8]]).
Proof. vm_compute. reflexivity. Qed.

Lemma repaired_iparray_room : is_ok (f_ip_array (line_at 2012) [97] [Some ip_full]) = true.
Proof. vm_compute. reflexivity. Qed.

Lemma repaired_bytearray_bound : f_byte_array (line_at 2040) [97] [1; 2; 3] = Ok (line_at 2040).
Proof. vm_compute. reflexivity. Qed.

Lemma repaired_index_past :
  match f_ip (line_at 2040) [97] (Some [49; 48; 46; 48; 46; 48; 46; 49]) with Ok l => Nat.leb (index l) BUFSZ | _ => false end = true.
Proof. vm_compute. reflexivity. Qed.

