(* Proofs/FastlogGlue.v — the getters and IsValid predicates restated in Model/FastlogViews.v
   (functions of the view BYTES, used by the call-list models of C20) are the getters and IsValid
   of VIEWS' model (Model/Views*.v: functions of a Go SLICE with Go's panic rules, the ones C01/C02
   are proved about): on every well-formed slice v,
     T_IsValid v = Ok (view_valid KT (view v)),
   and on every valid view each getter FastLog reads returns the value the C20 model uses:
     numbers   g v = Ok (VN e)      booleans  g v = Ok (VB e)
     bytes     g v = Ok x with vbytes v x = e   (x a copied array VX, a range VR inside the view, or nil). *)
From PV Require Import Base.Prelude Base.Slice Model.ViewsBase Model.Views Model.Views2 Model.ViewsVar.
From PV Require Import Proofs.Checksum.
From PV Require Import Model.FastlogViews.
Open Scope N_scope.

Notation bview := Slice.view.
Notation swf := Slice.wf.

(* the bytes a returned value denotes *)
Definition vbytes (v : slice) (x : value) : bytes :=
  match x with
  | VR o n => vsub (bview v) o n
  | VX b => b
  | _ => []
  end.
Definition is_bytes (v : slice) (r : res value) (e : bytes) : Prop := exists x, r = Ok x /\ vbytes v x = e.

(* ---------------------------------------------------------------- slices and their bytes *)

Lemma plen_view v : swf v -> plen (bview v) = len v.
Proof. intros W. unfold plen. apply view_length. exact W. Qed.

Lemma lenN_view v : swf v -> lenN v = N.of_nat (plen (bview v)).
Proof. intros W. unfold lenN. rewrite plen_view by exact W. reflexivity. Qed.

Lemma g_idx v i : (i < len v)%nat -> idx v i = Ok (bt (bview v) i).
Proof. intros H. rewrite idx_ok by exact H. unfold bt. rewrite view_nth by exact H. reflexivity. Qed.

Lemma g_be16 v a : swf v -> (a + 2 <= len v)%nat -> be16_at v a = Ok (w16 (bview v) a).
Proof.
  intros W H. unfold swf in W. rewrite be16_at_ok by lia. unfold w16, bt, be16.
  rewrite !view_nth by lia. reflexivity.
Qed.

Lemma g_be32 v a : swf v -> (a + 4 <= len v)%nat -> be32_at v a = Ok (w32 (bview v) a).
Proof.
  intros W H. unfold swf in W. unfold be32_at. destruct (Nat.leb_spec (a + 4) (cap v)); [|lia].
  unfold w32, bt, be32. rewrite !view_nth by lia. reflexivity.
Qed.

Lemma firstn_skipn_view v o n : (o + n <= len v)%nat ->
  firstn n (skipn o (arr v)) = vsub (bview v) o n.
Proof.
  intros H. unfold vsub, bview. revert o n H. generalize (len v) as k. generalize (arr v) as l.
  induction l as [|x xs IH]; intros k o n H.
  - rewrite firstn_nil, !skipn_nil, firstn_nil. reflexivity.
  - destruct k as [|k]; [assert (o = 0%nat) by lia; assert (n = 0%nat) by lia; subst; reflexivity|].
    destruct o as [|o].
    + cbn [skipn]. destruct n as [|n]; [reflexivity|]. cbn [firstn]. f_equal.
      specialize (IH k 0%nat n ltac:(lia)). cbn [skipn] in IH. exact IH.
    + cbn [firstn skipn]. apply IH. lia.
Qed.

Lemma g_rarr v a n : swf v -> (a + n <= len v)%nat -> is_bytes v (rarr v a n) (vsub (bview v) a n).
Proof.
  intros W H. unfold swf in W. unfold rarr. rewrite sl_ok by lia. cbn [bind arr].
  eexists. split; [reflexivity|]. cbn [vbytes]. apply firstn_skipn_view. exact H.
Qed.

Lemma g_rsl v a b : swf v -> (a <= b)%nat -> (b <= len v)%nat -> is_bytes v (rsl v a b) (vsub (bview v) a (b - a)).
Proof.
  intros W H1 H2. unfold swf in W. unfold rsl. rewrite sl_ok by lia. cbn [bind len].
  eexists. split; reflexivity.
Qed.

Lemma skipn_view v a : (a <= len v)%nat -> vsub (bview v) a (len v - a) = skipn a (bview v).
Proof.
  intros H. unfold vsub. apply firstn_all2. rewrite skipn_length. unfold bview. rewrite firstn_length. lia.
Qed.

Lemma g_rfrom v a : swf v -> (a <= len v)%nat -> is_bytes v (rfrom v a) (skipn a (bview v)).
Proof.
  intros W H. unfold rfrom. rewrite slfrom_ok by exact H. cbn [bind len].
  eexists. split; [reflexivity|]. cbn [vbytes]. apply skipn_view. exact H.
Qed.

Lemma shl_mul x k : N.shiftl x k = x * 2 ^ k.
Proof. apply N.shiftl_mul_pow2. Qed.
Lemma shr_div x k : N.shiftr x k = x / 2 ^ k.
Proof. apply N.shiftr_div_pow2. Qed.

(* facts from a validity predicate *)
Ltac vfacts V :=
  unfold view_valid in V; repeat (apply andb_prop in V; let V2 := fresh "V" in destruct V as [V V2]);
  repeat match goal with H : Nat.leb _ _ = true |- _ => apply Nat.leb_le in H end.

(* Go's && / || on outcomes collapse once the operands are known to return *)
Lemma andr_ok a b : andr (Ok a) (Ok b) = Ok (a && b).
Proof. destruct a; reflexivity. Qed.
Lemma orr_ok a b : orr (Ok a) (Ok b) = Ok (a || b).
Proof. destruct a; reflexivity. Qed.

(* N and nat comparisons of lengths *)
Lemma leb_len k v : (N.of_nat k <=? lenN v) = Nat.leb k (len v).
Proof. unfold lenN. destruct (N.leb_spec (N.of_nat k) (N.of_nat (len v))), (Nat.leb_spec k (len v)); try reflexivity; lia. Qed.
Lemma ltb_len k v : (lenN v <? N.of_nat k) = negb (Nat.leb k (len v)).
Proof. unfold lenN. destruct (N.ltb_spec (N.of_nat (len v)) (N.of_nat k)), (Nat.leb_spec k (len v)); try reflexivity; lia. Qed.

(* ---------------------------------------------------------------- IsValid *)

Ltac len_only k :=
  intros v W; unfold view_valid; rewrite plen_view by exact W;
  change k%N with (N.of_nat (N.to_nat k)); rewrite leb_len; reflexivity.

Lemma glue_valid_Ether v : swf v -> Ether_IsValid v = Ok (view_valid KEther (bview v)).
Proof. revert v. unfold Ether_IsValid. len_only 14. Qed.
Lemma glue_valid_UDP v : swf v -> UDP_IsValid v = Ok (view_valid KUDP (bview v)).
Proof. revert v. unfold UDP_IsValid. len_only 8. Qed.
Lemma glue_valid_ICMP v : swf v -> ICMP_IsValid v = Ok (view_valid KICMP (bview v)).
Proof. revert v. unfold ICMP_IsValid. len_only 8. Qed.
Lemma glue_valid_ICMPEcho v : swf v -> ICMPEcho_IsValid v = Ok (view_valid KICMPEcho (bview v)).
Proof. revert v. unfold ICMPEcho_IsValid, ICMP_IsValid. len_only 8. Qed.
Lemma glue_valid_RA v : swf v -> RA_IsValid v = Ok (view_valid KRA (bview v)).
Proof. revert v. unfold RA_IsValid. len_only 16. Qed.
Lemma glue_valid_NA v : swf v -> NA_IsValid v = Ok (view_valid KNA (bview v)).
Proof. revert v. unfold NA_IsValid. len_only 24. Qed.
Lemma glue_valid_NS v : swf v -> NS_IsValid v = Ok (view_valid KNS (bview v)).
Proof. revert v. unfold NS_IsValid. len_only 24. Qed.
Lemma glue_valid_DNS v : swf v -> DNS_IsValid v = Ok (view_valid KDNS (bview v)).
Proof. revert v. unfold DNS_IsValid. len_only 12. Qed.
Lemma glue_valid_IEEE1905 v : swf v -> IEEE1905_IsValid v = Ok (view_valid KIEEE1905 (bview v)).
Proof. revert v. unfold IEEE1905_IsValid. len_only 8. Qed.
Lemma glue_valid_LLC v : swf v -> LLC_IsValid v = Ok (view_valid KLLC (bview v)).
Proof. revert v. unfold LLC_IsValid. len_only 3. Qed.
Lemma glue_valid_SNAP v : swf v -> SNAP_IsValid v = Ok (view_valid KSNAP (bview v)).
Proof. revert v. unfold SNAP_IsValid. len_only 9. Qed.
Lemma glue_valid_RRCP v : swf v -> RRCP_IsValid v = Ok (view_valid KRRCP (bview v)).
Proof. revert v. unfold RRCP_IsValid. len_only 16. Qed.
Lemma glue_valid_LLDP v : swf v -> LLDP_IsValid v = Ok (view_valid KLLDP (bview v)).
Proof. revert v. unfold LLDP_IsValid. len_only 6. Qed.

Lemma glue_valid_RS v : swf v -> RS_IsValid v = Ok (view_valid KRS (bview v)).
Proof.
  intros W. unfold RS_IsValid, view_valid. rewrite plen_view by exact W.
  rewrite (ltb_len 8 v : (lenN v <? 8) = _). destruct (Nat.leb_spec 8 (len v)); cbn [negb andb]; [|reflexivity].
  rewrite g_idx by lia. reflexivity.
Qed.

Lemma glue_valid_Pause v : swf v -> Pause_IsValid v = Ok (view_valid KPause (bview v)).
Proof.
  intros W. unfold Pause_IsValid, view_valid. rewrite plen_view by exact W.
  rewrite (ltb_len 46 v : (lenN v <? 46) = _). destruct (Nat.leb_spec 46 (len v)); cbn [negb andb]; [|reflexivity].
  rewrite g_be16 by (auto; lia). reflexivity.
Qed.

Lemma glue_valid_ARP v : swf v -> ARP_IsValid v = Ok (view_valid KARP (bview v)).
Proof.
  intros W. unfold ARP_IsValid, view_valid. rewrite plen_view by exact W.
  rewrite (ltb_len 28 v : (lenN v <? 28) = _). destruct (Nat.leb_spec 28 (len v)); cbn [negb andb]; [|reflexivity].
  rewrite !g_be16 by (auto; lia). rewrite !g_idx by lia. cbn [bind].
  destruct (w16 (bview v) 0 =? 1); cbn [negb andb bind]; [|reflexivity].
  destruct (w16 (bview v) 2 =? 2048); cbn [negb andb bind]; [|reflexivity].
  destruct (bt (bview v) 4 =? 6); cbn [negb andb bind]; [|reflexivity].
  destruct (bt (bview v) 5 =? 4); reflexivity.
Qed.

Lemma glue_valid_IP6 v : swf v -> IP6_IsValid v = Ok (view_valid KIP6 (bview v)).
Proof.
  intros W. unfold IP6_IsValid, IP6_PayloadLen_n, view_valid. rewrite plen_view by exact W.
  rewrite (leb_len 40 v : (40 <=? lenN v) = _). destruct (Nat.leb_spec 40 (len v)); cbn [andr bind andb]; [|reflexivity].
  rewrite g_be16 by (auto; lia). cbn [bind]. f_equal. unfold lenN.
  destruct (N.leb_spec (w16 (bview v) 4 + 40) (N.of_nat (len v))), (Nat.leb_spec (N.to_nat (w16 (bview v) 4) + 40) (len v));
    try reflexivity; lia.
Qed.

Lemma glue_valid_IP4 v : swf v -> IP4_IsValid v = Ok (view_valid KIP4 (bview v)).
Proof.
  intros W. unfold IP4_IsValid, IP4_IHL_n, IP4_TotalLen_n, view_valid. rewrite plen_view by exact W.
  rewrite (leb_len 20 v : (20 <=? lenN v) = _), (ltb_len 20 v : (lenN v <? 20) = _).
  destruct (Nat.leb_spec 20 (len v)) as [L|L]; cbn [andr orr bind andb negb]; [|reflexivity].
  rewrite !g_idx by lia. rewrite !g_be16 by (auto; lia). cbn [bind].
  rewrite shl_mul. change (2 ^ 2) with 4. set (ihl := N.land (bt (bview v) 0) 15 * 4). set (tl := w16 (bview v) 2).
  unfold lenN.
  assert (E1 : (20 <=? ihl) = Nat.leb 20 (N.to_nat ihl)) by (destruct (N.leb_spec 20 ihl), (Nat.leb_spec 20 (N.to_nat ihl)); try reflexivity; lia).
  assert (E2 : (ihl <=? N.of_nat (len v)) = Nat.leb (N.to_nat ihl) (len v)) by (destruct (N.leb_spec ihl (N.of_nat (len v))), (Nat.leb_spec (N.to_nat ihl) (len v)); try reflexivity; lia).
  assert (E3 : (ihl <=? tl) = Nat.leb (N.to_nat ihl) (N.to_nat tl)) by (destruct (N.leb_spec ihl tl), (Nat.leb_spec (N.to_nat ihl) (N.to_nat tl)); try reflexivity; lia).
  assert (E4 : (tl <=? N.of_nat (len v)) = Nat.leb (N.to_nat tl) (len v)) by (destruct (N.leb_spec tl (N.of_nat (len v))), (Nat.leb_spec (N.to_nat tl) (len v)); try reflexivity; lia).
  rewrite E1, E2, E3, E4.
  destruct (Nat.leb 20 (N.to_nat ihl)); cbn [bind andb]; [|destruct (ihl <? 20); cbn [bind]; [reflexivity|destruct (N.of_nat (len v) <? ihl); reflexivity]].
  destruct (Nat.leb (N.to_nat ihl) (len v)); cbn [bind andb]; [|destruct (ihl <? 20); cbn [bind]; [reflexivity|destruct (N.of_nat (len v) <? ihl); reflexivity]].
  destruct (Nat.leb (N.to_nat ihl) (N.to_nat tl)); cbn [bind andb]; [|destruct (ihl <? 20); cbn [bind]; [reflexivity|destruct (N.of_nat (len v) <? ihl); reflexivity]].
  destruct (Nat.leb (N.to_nat tl) (len v)); cbn [bind andb]; [reflexivity|destruct (ihl <? 20); cbn [bind]; [reflexivity|destruct (N.of_nat (len v) <? ihl); reflexivity]].
Qed.

Lemma glue_valid_Redirect v : swf v -> R4_IsValid v = Ok (view_valid KRedirect (bview v)).
Proof.
  intros W. unfold R4_IsValid, view_valid. rewrite plen_view by exact W.
  rewrite (ltb_len 8 v : (lenN v <? 8) = _).
  destruct (Nat.leb_spec 8 (len v)) as [L|L]; cbn [negb orr bind andb]; [|reflexivity].
  rewrite !g_idx by lia. cbn [bind].
  set (n := bt (bview v) 4). set (a := bt (bview v) 5).
  assert (E : (lenN v <? 8 + n * a * 4) = negb (Nat.leb (8 + N.to_nat n * N.to_nat a * 4) (len v))).
  { unfold lenN. destruct (N.ltb_spec (N.of_nat (len v)) (8 + n * a * 4)), (Nat.leb_spec (8 + N.to_nat n * N.to_nat a * 4) (len v));
      try reflexivity; lia. }
  rewrite E. destruct (Nat.leb (8 + N.to_nat n * N.to_nat a * 4) (len v)); cbn [negb bind andb]; [|reflexivity].
  destruct (bt (bview v) 0 =? 137); cbn [negb bind andb]; [|reflexivity].
  destruct (a =? 4); cbn [negb andb orb]; [reflexivity|]. destruct (a =? 10); reflexivity.
Qed.

(* ---- DHCP4: the option walk *)

Lemma view_slfrom v a : swf v -> (a <= len v)%nat ->
  exists o, slfrom v a = Ok o /\ swf o /\ len o = (len v - a)%nat /\ bview o = skipn a (bview v).
Proof.
  intros W H. rewrite slfrom_ok by exact H. eexists. split; [reflexivity|]. unfold swf, cap, bview in *. cbn [arr len].
  split; [rewrite skipn_length; lia|]. split; [reflexivity|].
  change (firstn (len v - a) (skipn a (arr v)) = skipn a (bview v)).
  rewrite (firstn_skipn_view v a (len v - a)) by lia. apply skipn_view. exact H.
Qed.

Lemma view_cons2 o : swf o -> (2 <= len o)%nat ->
  exists c n r, bview o = c :: n :: r /\ List.length r = (len o - 2)%nat.
Proof.
  intros W H. pose proof (view_length o W) as L.
  destruct (bview o) as [|c [|n r]] eqn:E; cbn [List.length] in L; try lia.
  exists c, n, r. split; [reflexivity|unfold bytes, byte in *; lia].
Qed.

Lemma dhcp_validate_glue f : forall o f', swf o -> (len o < f)%nat -> (len o <= f')%nat ->
  dhcp_validate f o = Ok (dhcp_opts_ok f' (bview o)).
Proof.
  induction f as [|f IH]; intros o f' W Hf Hf'; [lia|]. cbn [dhcp_validate].
  destruct (Nat.ltb_spec (len o) 2) as [S2|S2].
  - pose proof (view_length o W) as L. destruct f' as [|f'']; [reflexivity|]. cbn [dhcp_opts_ok].
    destruct (bview o) as [|c [|n r]]; cbn [List.length] in L; try reflexivity. lia.
  - destruct f' as [|f'']; [lia|].
    destruct (view_cons2 o W S2) as (c & n & r & E & Lr).
    rewrite !g_idx by lia. cbn [bind]. rewrite E. cbn [dhcp_opts_ok bt nth].
    destruct (c =? 255); [reflexivity|]. destruct (c =? 0).
    + destruct (view_slfrom o 1 W ltac:(lia)) as (o' & R & W' & L' & V'). rewrite R. cbn [bind].
      rewrite (IH o' f'' W') by lia. rewrite V', E. reflexivity.
    + rewrite Lr. destruct (Nat.ltb_spec (len o) (2 + N.to_nat n)), (Nat.ltb_spec (len o - 2) (N.to_nat n)); try lia; [reflexivity|].
      destruct (view_slfrom o (2 + N.to_nat n) W ltac:(lia)) as (o' & R & W' & L' & V'). rewrite R. cbn [bind].
      rewrite (IH o' f'' W') by lia. rewrite V', E. reflexivity.
Qed.

Lemma dhcp_options_glue v : swf v -> (240 <= len v)%nat ->
  DHCP4_validateOptions v = Ok (Nat.leb 2 (len v - 240) && dhcp_opts_ok (len v) (skipn 240 (bview v))).
Proof.
  intros W L. unfold DHCP4_validateOptions, DHCP4_Options_l, lfrom.
  destruct (Nat.ltb_spec 240 (len v)) as [G|G].
  - destruct (view_slfrom v 240 W ltac:(lia)) as (o & R & Wo & Lo & Vo). cbn [lsl]. rewrite R. cbn [bind lsl].
    rewrite Lo. destruct (Nat.ltb_spec (len v - 240) 2), (Nat.leb_spec 2 (len v - 240)); try lia; cbn [andb]; [reflexivity|].
    rewrite (dhcp_validate_glue (S (len v - 240)) o (len v)) by (auto; lia). rewrite Vo. reflexivity.
  - cbn [bind]. unfold nil_slice. cbn [len].
    destruct (Nat.leb_spec 2 (len v - 240)); [lia|reflexivity].
Qed.

Lemma glue_valid_DHCP4 v : swf v -> DHCP4_IsValid v = Ok (view_valid KDHCP4 (bview v)).
Proof.
  intros W. unfold DHCP4_IsValid, view_valid. rewrite plen_view by exact W.
  rewrite (ltb_len 240 v : (lenN v <? 240) = _).
  destruct (Nat.leb_spec 240 (len v)) as [L|L]; cbn [negb andb]; [|reflexivity].
  rewrite !g_idx by lia. cbn [bind]. rewrite (dhcp_options_glue v W L).
  destruct (bt (bview v) 0 =? 1); destruct (bt (bview v) 0 =? 2); cbn [negb andb orb]; try reflexivity;
    destruct (bt (bview v) 2 =? 6); reflexivity.
Qed.

(* ---------------------------------------------------------------- getters *)

Ltac gn :=
  autounfold with vg; unfold rbyte, rbe16, rbe32, rbit, IP4_TotalLen_n, IP6_PayloadLen_n, bit;
  rewrite ?g_idx by lia; rewrite ?g_be16 by (auto; lia); rewrite ?g_be32 by (auto; lia);
  cbn [bind]; rewrite ?shr_div, ?shl_mul; try reflexivity.
Ltac gb :=
  autounfold with vg;
  first [ refine (g_rarr _ _ _ _ _) | refine (g_rsl _ _ _ _ _ _) | refine (g_rfrom _ _ _ _) ]; auto; lia.
Ltac vlen V W := vfacts V; rewrite ?plen_view in * by exact W.

Section Getters.
Variable v : slice.
Hypothesis W : swf v.
Let p := bview v.

Theorem glue_Ether : view_valid KEther p = true ->
  Ether_EtherType v = Ok (VN (w16 p 12)) /\ is_bytes v (Ether_Src v) (vsub p 6 6) /\ is_bytes v (Ether_Dst v) (vsub p 0 6).
Proof. intros V. unfold p in *. vlen V W. repeat split; [gn|gb|gb]. Qed.

Theorem glue_IP4 : view_valid KIP4 p = true -> bytes_ok p ->
  IP4_Version v = Ok (VN (bt p 0 / 16)) /\ is_bytes v (IP4_Src v) (vsub p 12 4) /\ is_bytes v (IP4_Dst v) (vsub p 16 4) /\
  IP4_Protocol v = Ok (VN (bt p 9)) /\ IP4_TTL v = Ok (VN (bt p 8)) /\ IP4_TOS v = Ok (VN (bt p 1)) /\
  IP4_Flags v = Ok (VN (N.land (bt p 6) 224)) /\
  IP4_Fragment v = Ok (VN (N.land (bt p 6) 31 * 256 + bt p 7)) /\ IP4_TotalLen v = Ok (VN (w16 p 2)).
Proof.
  intros V B. unfold p in *. vlen V W. repeat split; try gn; try gb.
  do 2 f_equal. rewrite <- shl_mul. apply lor_shl8. unfold bt. apply bytes_ok_nth. exact B.
Qed.

Theorem glue_IP6 : view_valid KIP6 p = true ->
  IP6_Version v = Ok (VN (bt p 0 / 16)) /\ is_bytes v (IP6_Src v) (vsub p 8 16) /\ is_bytes v (IP6_Dst v) (vsub p 24 16) /\
  IP6_NextHeader v = Ok (VN (bt p 6)) /\ IP6_PayloadLen v = Ok (VN (w16 p 4)) /\ IP6_HopLimit v = Ok (VN (bt p 7)) /\
  IP6_TrafficClass v = Ok (VN (N.lor (N.land (bt p 0) 15 * 16) (bt p 1 / 16))).
Proof. intros V. unfold p in *. vlen V W. repeat split; try gn; try gb. Qed.

Theorem glue_UDP : view_valid KUDP p = true ->
  UDP_SrcPort v = Ok (VN (w16 p 0)) /\ UDP_DstPort v = Ok (VN (w16 p 2)) /\ UDP_Len v = Ok (VN (w16 p 4)) /\
  is_bytes v (UDP_Payload v) (skipn 8 p).
Proof. intros V. unfold p in *. vlen V W. repeat split; try gn; try gb. Qed.

Theorem glue_ARP : view_valid KARP p = true ->
  ARP_Operation v = Ok (VN (w16 p 6)) /\ is_bytes v (ARP_SrcMAC v) (vsub p 8 6) /\ is_bytes v (ARP_SrcIP v) (vsub p 14 4) /\
  is_bytes v (ARP_DstMAC v) (vsub p 18 6) /\ is_bytes v (ARP_DstIP v) (vsub p 24 4).
Proof. intros V. unfold p in *. vlen V W. repeat split; try gn; try gb. Qed.

Lemma payload8 (g : getter) :
  (forall q, g q = if Nat.ltb 8 (len q) then rfrom q 8 else Ok VNil) -> is_bytes v (g v) (skipn 8 p).
Proof.
  intros E. rewrite E. destruct (Nat.ltb_spec 8 (len v)); [apply g_rfrom; auto; lia|].
  eexists. split; [reflexivity|]. cbn [vbytes]. symmetry. apply skipn_all2. unfold p. rewrite (view_length v W). lia.
Qed.

Theorem glue_ICMP : view_valid KICMP p = true ->
  ICMP_Type v = Ok (VN (bt p 0)) /\ ICMP_Code v = Ok (VN (bt p 1)) /\ ICMP_Checksum v = Ok (VN (w16 p 2)) /\
  is_bytes v (ICMP_Payload v) (skipn 8 p).
Proof. intros V. unfold p in *. vlen V W. repeat split; [gn|gn|gn|apply (payload8 ICMP_Payload); reflexivity]. Qed.

Theorem glue_ICMPEcho : view_valid KICMPEcho p = true ->
  ICMPEcho_EchoID v = Ok (VN (w16 p 4)) /\ ICMPEcho_EchoSeq v = Ok (VN (w16 p 6)) /\ is_bytes v (ICMPEcho_EchoData v) (skipn 8 p).
Proof. intros V. unfold p in *. vlen V W. repeat split; [gn|gn|apply (payload8 ICMPEcho_EchoData); reflexivity]. Qed.

Theorem glue_RS : view_valid KRS p = true ->
  ICMP_Code v = Ok (VN (bt p 1)) /\ is_bytes v (RS_SourceLLA v) (lla_at p 8 1).
Proof.
  intros V. unfold p in *. vlen V W. split; [gn|].
  unfold RS_SourceLLA, lla_at. rewrite plen_view by exact W. rewrite (leb_len 16 v : (16 <=? lenN v) = _).
  change (8 + 8)%nat with 16%nat. destruct (Nat.leb_spec 16 (len v)); cbn [andr bind andb].
  - rewrite !g_idx by lia. cbn [bind]. change (8 + 1)%nat with 9%nat.
    destruct (bt (bview v) 8 =? 1); cbn [bind andb]; [|eexists; split; reflexivity].
    destruct (bt (bview v) 9 =? 1); cbn [bind]; [|eexists; split; reflexivity].
    change (8 + 2)%nat with 10%nat. refine (g_rsl v 10 16 W _ _); lia.
  - eexists; split; reflexivity.
Qed.

Theorem glue_RA : view_valid KRA p = true ->
  ICMP_Code v = Ok (VN (bt p 1)) /\ RA_CurrentHopLimit v = Ok (VN (bt p 4)) /\ RA_Flags v = Ok (VN (bt p 5)) /\
  RA_ManagedConfiguration v = Ok (VB (bit (bt p 5) 128)) /\ RA_OtherConfiguration v = Ok (VB (bit (bt p 5) 64)) /\
  RA_Preference v = Ok (VN (N.land (bt p 5) 24 / 8)) /\ RA_Lifetime v = Ok (VN (w16 p 6)) /\
  RA_ReachableTime v = Ok (VN (w32 p 8)) /\ RA_RetransmitTimer v = Ok (VN (w32 p 12)).
Proof. intros V. unfold p in *. vlen V W. repeat split; gn. Qed.

Lemma lla24 (g : getter) t :
  (forall q, g q = (c <- orr (Ok (lenN q <? 32)) (orr (b <- idx q 24 ;; Ok (negb (b =? t))) (b <- idx q 25 ;; Ok (negb (b =? 1)))) ;;
                    if c then Ok VNil else rsl q 26 32)%res) ->
  (24 <= len v)%nat -> is_bytes v (g v) (lla_at p 24 t).
Proof.
  intros E L. rewrite E. unfold lla_at, p. rewrite plen_view by exact W. rewrite (ltb_len 32 v : (lenN v <? 32) = _).
  change (24 + 8)%nat with 32%nat. destruct (Nat.leb_spec 32 (len v)); cbn [negb orr bind andb].
  - rewrite !g_idx by lia. cbn [bind]. change (24 + 1)%nat with 25%nat.
    destruct (bt (bview v) 24 =? t); cbn [negb bind andb]; [|eexists; split; reflexivity].
    destruct (bt (bview v) 25 =? 1); cbn [negb bind]; [|eexists; split; reflexivity].
    change (24 + 2)%nat with 26%nat. refine (g_rsl v 26 32 W _ _); lia.
  - eexists; split; reflexivity.
Qed.

Theorem glue_NA : view_valid KNA p = true ->
  ICMP_Code v = Ok (VN (bt p 1)) /\ NA_Override v = Ok (VB (bit (bt p 4) 32)) /\ NA_Solicited v = Ok (VB (bit (bt p 4) 64)) /\
  is_bytes v (NA_TargetAddress v) (vsub p 8 16) /\ is_bytes v (NA_TargetLLA v) (lla_at p 24 2).
Proof.
  intros V. unfold p in *. vlen V W. repeat split; [gn|gn|gn|gb|apply (lla24 NA_TargetLLA); [reflexivity|lia]].
Qed.

Theorem glue_NS : view_valid KNS p = true ->
  ICMP_Code v = Ok (VN (bt p 1)) /\ is_bytes v (NS_TargetAddress v) (vsub p 8 16) /\ is_bytes v (NS_SourceLLA v) (lla_at p 24 1).
Proof.
  intros V. unfold p in *. vlen V W. repeat split; [gn|gb|apply (lla24 NS_SourceLLA); [reflexivity|lia]].
Qed.

Theorem glue_DHCP4 : view_valid KDHCP4 p = true ->
  is_bytes v (DHCP4_XId v) (vsub p 4 4) /\ DHCP4_OpCode v = Ok (VN (bt p 0)) /\ is_bytes v (DHCP4_CHAddr v) (vsub p 28 6) /\
  is_bytes v (DHCP4_CIAddr v) (vsub p 12 4) /\ is_bytes v (DHCP4_YIAddr v) (vsub p 16 4).
Proof. intros V. unfold p in *. vlen V W. repeat split; try gn; try gb. Qed.

Theorem glue_DNS : view_valid KDNS p = true ->
  DNS_TransactionID v = Ok (VN (w16 p 0)) /\ DNS_QR v = Ok (VB (bit (bt p 2) 128)) /\ DNS_TC v = Ok (VB (bit (bt p 2) 2)) /\
  DNS_ResponseCode v = Ok (VN (N.land (bt p 3) 15)) /\ DNS_QDCount v = Ok (VN (w16 p 4)) /\ DNS_ANCount v = Ok (VN (w16 p 6)) /\
  DNS_NSCount v = Ok (VN (w16 p 8)) /\ DNS_ARCount v = Ok (VN (w16 p 10)).
Proof. intros V. unfold p in *. vlen V W. repeat split; gn. Qed.

Theorem glue_Pause : view_valid KPause p = true ->
  Pause_Opcode v = Ok (VN (w16 p 0)) /\ Pause_Duration v = Ok (VN (w16 p 2)).
Proof. intros V. unfold p in *. vlen V W. repeat split; gn. Qed.

Theorem glue_IEEE1905 : view_valid KIEEE1905 p = true ->
  IEEE1905_Version v = Ok (VN (bt p 0)) /\ IEEE1905_Type v = Ok (VN (w16 p 2)) /\ IEEE1905_ID v = Ok (VN (w16 p 4)) /\
  IEEE1905_FragmentID v = Ok (VN (bt p 6)) /\ IEEE1905_Flags v = Ok (VN (bt p 7)) /\ is_bytes v (IEEE1905_TLV v) (skipn 8 p).
Proof. intros V. unfold p in *. vlen V W. repeat split; try gn; try gb. Qed.

Theorem glue_SNAP : view_valid KSNAP p = true ->
  LLC_DSAP v = Ok (VN (bt p 0)) /\ LLC_Control v = Ok (VN (bt p 2)) /\ is_bytes v (SNAP_OrganisationID v) (vsub p 3 3) /\
  SNAP_EtherType v = Ok (VN (w16 p 6)).
Proof. intros V. unfold p in *. vlen V W. repeat split; try gn; try gb. Qed.

End Getters.

From PV Require Import Proofs.Fastlog.

Section Getters2.
Variable v : slice.
Hypothesis W : swf v.
Let p := bview v.

(* LLC.Type: the same four names *)
Theorem glue_LLC : view_valid KLLC p = true ->
  LLC_DSAP v = Ok (VN (bt p 0)) /\ LLC_SSAP v = Ok (VN (bt p 1)) /\ LLC_Control v = Ok (VN (bt p 2)) /\
  exists s, LLC_Type v = Ok (VS s) /\ s2b s = llc_type p.
Proof.
  intros V. unfold p in *. vlen V W. repeat split; try gn.
  unfold LLC_Type, LLC_Type_s, llc_type. rewrite !g_idx by lia. cbn [bind andr].
  destruct (bt (bview v) 2 =? 3); cbn [bind andr andb].
  - destruct (bt (bview v) 0 =? 170); cbn [bind andb].
    + destruct (bt (bview v) 1 =? 170); cbn [bind]; [eexists; split; reflexivity|].
      destruct (N.land (bt (bview v) 2) 3 =? 3); cbn [bind]; [eexists; split; reflexivity|].
      destruct (N.land (bt (bview v) 2) 1 =? 1); eexists; split; reflexivity.
    + destruct (N.land (bt (bview v) 2) 3 =? 3); cbn [bind]; [eexists; split; reflexivity|].
      destruct (N.land (bt (bview v) 2) 1 =? 1); eexists; split; reflexivity.
  - destruct (N.land (bt (bview v) 2) 3 =? 3); cbn [bind]; [eexists; split; reflexivity|].
    destruct (N.land (bt (bview v) 2) 1 =? 1); eexists; split; reflexivity.
Qed.

Lemma bit128 b : b < 256 -> (N.land b 128 =? 128) = bit b 128.
Proof.
  intros H. assert (S : forall n, n < 256 -> Bool.eqb (N.land n 128 =? 128) (bit n 128) = true).
  { apply sweep256. vm_compute. reflexivity. }
  apply Bool.eqb_prop. apply S. exact H.
Qed.

Theorem glue_RRCP : view_valid KRRCP p = true -> bytes_ok p ->
  RRCP_Protocol v = Ok (VN (bt p 0)) /\ RRCP_Reply v = Ok (VB (bit (bt p 1) 128)) /\
  RRCP_OpCode v = Ok (VN (N.land (bt p 1) 127)) /\ is_bytes v (RRCP_SixBytes v) (vsub p 1 6) /\
  is_bytes v (RRCP_Zeros v) (skipn 7 p).
Proof.
  intros V B. unfold p in *. vlen V W. repeat split; try gn; try gb.
  do 2 f_equal. apply bit128. unfold bt. apply bytes_ok_nth. exact B.
Qed.

(* ICMP4Redirect.Addrs: the same ranges *)
Lemma r4_addrs_glue a cnt : forall i,
  ((bt p 5 =? 4) = true \/ (bt p 5 =? 10) = true) -> a = bt p 5 ->
  (8 + (i + cnt) * N.to_nat a * 4 <= len v)%nat ->
  exists xs, r4_addrs v a i cnt = Ok xs /\
             map (fun x => Some (vbytes v x)) xs =
             map (fun j => Some (vsub p (8 + j * N.to_nat a * 4) (if a =? 4 then 4 else 16))) (seq i cnt).
Proof.
  induction cnt as [|c IH]; intros i A E L; cbn [r4_addrs seq map]; [exists []; split; reflexivity|].
  assert (A' : a = 4 \/ a = 10) by (subst a; destruct A as [A|A]; apply N.eqb_eq in A; auto).
  assert (R : exists x, (if a =? 4 then rsl v (8 + i * N.to_nat a * 4) (8 + i * N.to_nat a * 4 + 4)
                         else rsl v (8 + i * N.to_nat a * 4) (8 + i * N.to_nat a * 4 + 16)) = Ok x /\
                        vbytes v x = vsub p (8 + i * N.to_nat a * 4) (if a =? 4 then 4 else 16)).
  { destruct A' as [->| ->]; change (N.to_nat 4) with 4%nat in *; change (N.to_nat 10) with 10%nat in *;
      change (4 =? 4) with true; change (10 =? 4) with false; cbv iota.
    - destruct (g_rsl v (8 + i * 4 * 4) (8 + i * 4 * 4 + 4) W ltac:(lia) ltac:(lia)) as (x & R & X).
      exists x. split; [exact R|]. rewrite X. f_equal. lia.
    - destruct (g_rsl v (8 + i * 10 * 4) (8 + i * 10 * 4 + 16) W ltac:(lia) ltac:(lia)) as (x & R & X).
      exists x. split; [exact R|]. rewrite X. f_equal. lia. }
  destruct R as (x & R & X). rewrite R. cbn [bind].
  destruct (IH (S i) A E ltac:(lia)) as (xs & Rs & Xs). rewrite Rs. cbn [bind].
  exists (x :: xs). split; [reflexivity|]. cbn [map]. rewrite X, Xs. reflexivity.
Qed.

Theorem glue_Redirect : view_valid KRedirect p = true ->
  ICMP_Type v = Ok (VN (bt p 0)) /\ ICMP_Code v = Ok (VN (bt p 1)) /\ ICMP_Checksum v = Ok (VN (w16 p 2)) /\
  R4_NumAddrs v = Ok (VN (bt p 4)) /\ R4_AddrSize v = Ok (VN (bt p 5)) /\ R4_Lifetime v = Ok (VN (w16 p 6)) /\
  exists xs, R4_Addrs v = Ok (VL xs) /\ map (fun x => Some (vbytes v x)) xs = redirect_addrs p.
Proof.
  intros V. unfold p in *. vlen V W. apply orb_prop in V0.
  repeat split; [gn|gn|gn|gn|gn|gn|].
  unfold R4_Addrs, redirect_addrs. rewrite !g_idx by lia. cbn [bind].
  destruct (N.eqb_spec (bt (bview v) 4) 0) as [Z|Z].
  - rewrite Z. exists []. split; reflexivity.
  - destruct (r4_addrs_glue (bt (bview v) 5) (N.to_nat (bt (bview v) 4)) 0%nat V0 eq_refl ltac:(cbn [Nat.add]; lia)) as (xs & R & X).
    rewrite R. cbn [bind]. exists xs. split; [reflexivity|]. exact X.
Qed.

(* LLDP.getTLV: the TLV the C20 walk decodes at a position is the one VIEWS' getTLV returns *)
Definition tlv_of (q : bytes) (n : nat) : tlv :=
  if Nat.leb (plen q) (n + 2) then tlv_error
  else let t := bt q n / 2 in
       let l := N.land (bt q n) 1 * 256 + bt q (n + 1) in
       if (t =? 0) && (l =? 0) then mkTLV t l None false
       else if Nat.leb (n + 2 + N.to_nat l) (plen q) then mkTLV t l (Some ((n + 2)%nat, N.to_nat l)) false
       else tlv_error.

Theorem glue_LLDP_getTLV n : lldp_getTLV v n = Ok (tlv_of p n).
Proof.
  unfold lldp_getTLV, tlv_of, p. rewrite plen_view by exact W.
  destruct (Nat.leb_spec (len v) (n + 2)); [reflexivity|].
  rewrite !g_idx by lia. cbn [bind]. rewrite shr_div, shl_mul. change (2 ^ 1) with 2. change (2 ^ 8) with 256.
  destruct ((bt (bview v) n / 2 =? 0) && (N.land (bt (bview v) n) 1 * 256 + bt (bview v) (n + 1) =? 0)); [reflexivity|].
  destruct (Nat.leb_spec (n + 2 + N.to_nat (N.land (bt (bview v) n) 1 * 256 + bt (bview v) (n + 1))) (len v)); [|reflexivity].
  unfold swf in W. rewrite sl_ok by lia. cbn [bind len].
  match goal with |- context [(?a + ?x - ?a)%nat] => replace (a + x - a)%nat with x by lia end. reflexivity.
Qed.

(* one step of the C20 walk, in terms of that TLV: stops where lldp_walk stops, advances as lldp_walk advances *)
Theorem lldp_ops_step f q pos :
  lldp_ops (S f) q pos =
  let x := tlv_of q pos in
  if tlv_err x then [] else if tlv_t x =? 0 then []
  else let val := vsub q (pos + 2) (N.to_nat (tlv_l x)) in
       ((if (tlv_t x =? 5) || (tlv_t x =? 6) then [OString (lldp_type (tlv_t x)) val]
         else if tlv_t x =? 7 then [OByteArr (s2b "capability") val; OString (s2b "type") (lldp_capability val)]
         else [OByteArr (lldp_type (tlv_t x)) val])
        ++ lldp_ops f q (pos + N.to_nat (tlv_l x) + 2))%list.
Proof.
  cbn [lldp_ops]. unfold tlv_of. destruct (Nat.leb (plen q) (pos + 2)); [reflexivity|]. cbv zeta.
  set (t := bt q pos / 2). set (l := N.land (bt q pos) 1 * 256 + bt q (pos + 1)).
  assert (E : Nat.eqb (N.to_nat l) 0 = (l =? 0)) by (destruct (Nat.eqb_spec (N.to_nat l) 0), (N.eqb_spec l 0); try reflexivity; lia).
  rewrite E. destruct (t =? 0) eqn:T; cbn [andb].
  - destruct (l =? 0); cbn [tlv_err tlv_t]; [rewrite T; reflexivity|].
    destruct (Nat.leb (pos + 2 + N.to_nat l) (plen q)); cbn [tlv_err tlv_t]; [rewrite T; reflexivity|reflexivity].
  - destruct (Nat.leb (pos + 2 + N.to_nat l) (plen q)); cbn [tlv_err tlv_t tlv_l]; [rewrite T; reflexivity|reflexivity].
Qed.

End Getters2.

(* LLDP.Capability: the C20 text is VIEWS' LLDP_Capability_s (Model/ViewsDispatch.v), for every value *)
From PV Require Import Model.ViewsDispatch.

Lemma capability_byte b : b < 256 -> s2b (LLDP_Capability_s [0; b]) = lldp_capability [0; b].
Proof.
  intros H.
  assert (S : forall n, n < 256 -> beq_bytes (s2b (LLDP_Capability_s [0; n])) (lldp_capability [0; n]) = true).
  { apply sweep256. vm_compute. reflexivity. }
  apply beq_bytes_eq. apply S. exact H.
Qed.

Theorem glue_LLDP_Capability v : bytes_ok v -> s2b (LLDP_Capability_s v) = lldp_capability v.
Proof.
  intros B. destruct v as [|a [|b r]]; [reflexivity|reflexivity|].
  assert (Hb : b < 256) by (unfold bytes_ok in B; inversion B as [|? ? _ B2]; inversion B2; assumption).
  exact (capability_byte b Hb).
Qed.
