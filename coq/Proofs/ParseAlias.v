(* Proofs/ParseAlias.v — C16: views are sub-slices of the input at the offsets stored in the Frame, writes go
   through in both directions, no view extends beyond the frame; allocation counter zero in steady state. *)
From PV Require Import Base.Prelude Base.Slice Model.Parse Spec.RFC Model.ParseKnown Model.ParseAlias Model.ParseAlloc
  Proofs.Parse Proofs.ParseAcc.
Open Scope N_scope.
Open Scope res_scope.

(* ---------- list facts ---------- *)
Lemma skipn_set_nth {A} (l : list A) off i v : skipn off (set_nth (off + i) v l) = set_nth i v (skipn off l).
Proof.
  revert l. induction off as [|off IH]; intros l; [reflexivity|].
  destruct l as [|x xs]; [destruct i; reflexivity|]. cbn [Nat.add set_nth skipn]. apply IH.
Qed.

Lemma firstn_set_nth_ge {A} (l : list A) n j v : (n <= j)%nat -> firstn n (set_nth j v l) = firstn n l.
Proof.
  revert n j. induction l as [|x xs IH]; intros n j H; [destruct j; reflexivity|].
  destruct n as [|n]; [reflexivity|]. destruct j as [|j]; [lia|]. cbn [set_nth firstn]. f_equal. apply IH. lia.
Qed.

(* a write through the view at [off] is the write into the buffer at [off + i], nothing else changes *)
Lemma write_view_is_write_buf mem off i v : write_view mem off i v = write_buf mem (off + i) v.
Proof.
  unfold write_view, write_buf.
  rewrite <- (firstn_skipn off (set_nth (off + i) v mem)).
  rewrite skipn_set_nth, firstn_set_nth_ge by lia. reflexivity.
Qed.

(* buffer -> view: after buf[off+i] := v the view (same position, same length) holds v at i and is otherwise unchanged *)
Lemma write_buf_seen_by_view mem off n i v :
  view_at (write_buf mem (off + i) v) off n = mkSlice (set_nth i v (arr (view_at mem off n))) n.
Proof. unfold view_at, write_buf. cbn [arr]. rewrite skipn_set_nth. reflexivity. Qed.

(* view -> buffer: after view[i] := v the buffer holds v at off+i, every other byte is unchanged *)
Lemma write_view_seen_in_buf mem off n i v j :
  (i < n)%nat -> (off + n <= List.length mem)%nat ->
  nth j (write_view mem off i v) 0 = if Nat.eqb j (off + i) then v else nth j mem 0.
Proof.
  intros Hi Hn. rewrite write_view_is_write_buf. unfold write_buf.
  destruct (Nat.eqb_spec j (off + i)) as [->|Hne].
  - apply nth_set_nth_eq. lia.
  - apply nth_set_nth_neq. lia.
Qed.

Lemma read_back_through_view mem off n i v :
  (i < n)%nat -> (off + n <= List.length mem)%nat ->
  idx (view_at (write_buf mem (off + i) v) off n) i = Ok v.
Proof.
  intros Hi Hn. rewrite write_buf_seen_by_view. rewrite idx_ok by (cbn [len]; lia). cbn [arr].
  rewrite nth_set_nth_eq; [reflexivity|]. unfold view_at. cbn [arr]. rewrite skipn_length. lia.
Qed.

(* ---------- every view handed out is the input's storage from its offset ---------- *)
Lemma parse_ok_len c s f : parse c s = Ok f -> (14 <= len s)%nat.
Proof.
  rewrite parse_chain_eq. unfold parse_chain, ether_is_valid. destruct (Nat.leb_spec 14 (len s)); [auto|]. cbn [bind]. discriminate.
Qed.

Definition sub_view (s : slice) (off : nat) (r : res (option slice)) : Prop :=
  r = Ok None \/ exists n, r = Ok (Some (view_at (arr s) off n)) /\ (off + n <= len s)%nat.

Theorem views_are_subslices c s f w :
  wf s -> parse c s = Ok f ->
  sub_view s (view_off f w) (view_get s f w).
Proof.
  intros Hwf Hp. pose proof (parse_ok_len _ _ _ Hp) as Hlen.
  pose proof (parse_offsets c s Hwf) as H. rewrite Hp in H. cbn [post] in H.
  destruct H as (H4 & H6 & HU & HT & HP).
  assert (HA : forall off, (off <= len s)%nat -> sub_view s off (acc_at s off)).
  { intros off Ho. unfold sub_view, acc_at. destruct (Nat.eqb off 0); [left; reflexivity|].
    right. exists (len s - off)%nat. rewrite slfrom_ok by lia. split; [reflexivity|lia]. }
  destruct w; cbn [view_off view_get]; try (apply HA; assumption).
  - right. exists (len s). unfold frame_ether, view_at. cbn [skipn]. split; [destruct s; reflexivity|lia].
  - right. exists 6%nat. unfold view_at. rewrite sl_ok by (unfold wf in Hwf; lia). split; [reflexivity|lia].
  - right. exists 6%nat. unfold view_at. rewrite sl_ok by (unfold wf in Hwf; lia). split; [reflexivity|lia].
Qed.

(* ---------- allocation counter ---------- *)
Theorem steady_state_zero c st s f :
  parse c s = Ok f -> (forall k, f_host f = Some k -> st k = TrackedOnline) ->
  parse_allocs c st s = Ok 0%nat.
Proof.
  intros Hp Hst. unfold parse_allocs. rewrite Hp. destruct (f_host f) as [k|] eqn:E; [|reflexivity].
  rewrite (Hst k eq_refl). reflexivity.
Qed.

(* a newly seen or offline source does allocate in the counter model *)
Lemma not_steady_allocates c st s f k :
  parse c s = Ok f -> f_host f = Some k -> st k <> TrackedOnline ->
  exists n, parse_allocs c st s = Ok (S n).
Proof.
  intros Hp Hk Hst. unfold parse_allocs. rewrite Hp, Hk. destruct (st k); [eexists; reflexivity|eexists; reflexivity|congruence].
Qed.

(* ---------- which sources are handed to the host table at all ("untracked by rule") ---------- *)
Definition host_rule (c : cfg) (f : frame) : Prop :=
  forall m ip, f_host f = Some (m, ip) ->
    is_unicast_mac (a_mac (f_src f)) = true /\
    (gate4 c (a_mac (f_src f)) ip = true \/ gate6 c (a_mac (f_src f)) ip = true).

Ltac blind :=
  repeat match goal with
  | |- post _ (bind ?r _) =>
      lazymatch r with
      | Ok _ => cbn [bind]
      | context [if ?c then _ else _] => destruct c
      | bind ?r' _ => destruct r'; cbn [bind]; try exact I
      | _ => destruct r; cbn [bind]; try exact I
      end
  | |- post _ (if ?c then _ else _) => destruct c
  | |- post _ (match ?x with _ => _ end) => destruct x
  end.

Lemma parse_proto_keeps fx s f proto :
  post (fun f' => f_host f' = f_host f /\ a_mac (f_src f') = a_mac (f_src f)) (parse_proto fx s f proto).
Proof.
  rewrite parse_proto_chain_eq. unfold parse_proto_chain. blind; cbn [post]; cbn; auto.
Qed.

Lemma post_bind {A B} (P : B -> Prop) (r : res A) (k : A -> res B) :
  (forall a, r = Ok a -> post P (k a)) -> post P (bind r k).
Proof. intros H. destruct r; cbn [bind post]; auto. Qed.

Lemma post_weaken {A} (P Q : A -> Prop) r : (forall a, P a -> Q a) -> post P r -> post Q r.
Proof. intros H. destruct r; cbn [post]; auto. Qed.

Theorem parse_host_rule c s : post (host_rule c) (parse c s).
Proof.
  rewrite parse_chain_eq. unfold parse_chain.
  apply post_bind; intros _ _. apply post_bind; intros smac _. apply post_bind; intros dmac _.
  apply post_bind; intros hl _.
  destruct (Nat.ltb (len s) hl); [exact I|].
  destruct (is_unicast_mac smac) eqn:Hu; cbn [negb]; [|cbn [post]; intros m ip; cbn; discriminate].
  apply post_bind; intros et _.
  destruct (et <? 1536); [cbn [post]; intros m ip; cbn; discriminate|].
  destruct (et =? 2048).
  { unfold parse_ip4. apply post_bind; intros p _. apply post_bind; intros _ _. apply post_bind; intros ihl _.
    apply post_bind; intros proto _. apply post_bind; intros sip _. apply post_bind; intros dip _.
    eapply post_weaken; [|apply parse_proto_keeps]. cbn [f_host f_src a_mac set_id].
    intros f' [Hh Hm] m ip E. rewrite Hh in E. rewrite Hm. cbn [a_mac].
    destruct (gate4 c smac sip) eqn:G; [|discriminate]. inversion E; subst. auto. }
  destruct (et =? 34525).
  { unfold parse_ip6. apply post_bind; intros p _. apply post_bind; intros _ _.
    apply post_bind; intros proto _. apply post_bind; intros sip _. apply post_bind; intros dip _.
    eapply post_weaken; [|apply parse_proto_keeps]. cbn [f_host f_src a_mac set_id].
    intros f' [Hh Hm] m ip E. rewrite Hh in E. rewrite Hm. cbn [a_mac].
    destruct (gate6 c smac sip) eqn:G; [|discriminate]. inversion E; subst. auto. }
  destruct (et =? 2054).
  { unfold parse_arp. apply post_bind; intros p _. apply post_bind; intros bad _. destruct bad; [exact I|].
    apply post_bind; intros sip _. cbn [f_src set_id a_mac].
    destruct (gate4 c smac sip) eqn:G; cbn [bind].
    - apply post_bind; intros am Ham. cbn [bind post]. intros m ip E. cbn [f_host] in E. subst am.
      destruct (bytes_at p 8 14); cbn [bind] in Ham; try discriminate. injection Ham as E1 E2. subst. cbn [f_src a_mac]. auto.
    - cbn [post]. intros m ip E. cbn in E. discriminate. }
  repeat match goal with |- context [if ?c then _ else _] => destruct c end;
  try (cbn [post]; intros m ip; cbn; discriminate);
  unfold parse_leaf; apply post_bind; intros hl' _; cbn [post]; intros m ip; cbn; discriminate.
Qed.

Lemma bytes_eqb_refl l : bytes_eqb l l = true.
Proof. induction l as [|a l IH]; cbn; [reflexivity|]. rewrite N.eqb_refl, IH. reflexivity. Qed.

(* frames sent by our own interface, and frames with a group source address, never reach the host table *)
Corollary own_mac_untracked c s f :
  parse c s = Ok f -> a_mac (f_src f) = c_hostmac c -> f_host f = None.
Proof.
  intros Hp Hm. pose proof (parse_host_rule c s) as H. rewrite Hp in H. cbn [post] in H.
  destruct (f_host f) as [[m ip]|] eqn:E; [|reflexivity]. destruct (H m ip E) as [_ [G|G]];
  unfold gate4, gate6 in G; rewrite Hm, bytes_eqb_refl in G; discriminate.
Qed.

Corollary group_source_untracked c s f :
  parse c s = Ok f -> is_unicast_mac (a_mac (f_src f)) = false -> f_host f = None.
Proof.
  intros Hp Hm. pose proof (parse_host_rule c s) as H. rewrite Hp in H. cbn [post] in H.
  destruct (f_host f) as [[m ip]|] eqn:E; [|reflexivity]. destruct (H m ip E) as [Hu _]. congruence.
Qed.

(* an IPv4 / ARP sender outside the home LAN, and a global IPv6 source behind the router MAC, are not tracked *)
Corollary off_lan_untracked c s f m ip :
  parse c s = Ok f -> f_host f = Some (m, ip) ->
  lan_contains c ip = true \/ ip6_is_llu ip = true \/ (ip6_is_gu ip = true /\ bytes_eqb (a_mac (f_src f)) (c_routermac c) = false).
Proof.
  intros Hp E. pose proof (parse_host_rule c s) as H. rewrite Hp in H. cbn [post] in H.
  destruct (H m ip E) as [_ [G|G]]; unfold gate4, gate6 in G.
  - left. destruct (lan_contains c ip); [reflexivity|]. rewrite Bool.andb_false_r in G. discriminate.
  - right. apply Bool.andb_true_iff in G. destruct G as [_ G]. apply Bool.orb_true_iff in G.
    destruct G as [G|G]; [left; exact G|right]. apply Bool.andb_true_iff in G. destruct G as [G1 G2].
    split; [exact G1|]. destruct (bytes_eqb _ _); [discriminate|reflexivity].
Qed.

(* steady state: tracked-online source, or a source untracked by rule: zero *)
Example steady_state_nonvacuous :
  exists f, parse cfg0 (of_bytes ex_arp28) = Ok f /\ f_host f = Some ([2;17;17;17;17;17], [192;168;0;7]) /\
  parse_allocs cfg0 (fun _ => TrackedOnline) (of_bytes ex_arp28) = Ok 0%nat /\
  parse_allocs cfg0 (fun _ => Untracked) (of_bytes ex_arp28) = Ok 3%nat.
Proof. eexists. repeat split; vm_compute; reflexivity. Qed.

(* ---------- which key reaches the host table, per frame class ---------- *)
Definition host_key (c : cfg) (f : frame) : Prop :=
  forall m ip, f_host f = Some (m, ip) ->
    ((0 < f_off4 f)%nat /\ f_off6 f = 0%nat /\ m = a_mac (f_src f) /\ ip = a_ip (f_src f) /\ gate4 c m ip = true)
    \/ ((0 < f_off6 f)%nat /\ f_off4 f = 0%nat /\ m = a_mac (f_src f) /\ ip = a_ip (f_src f) /\ gate6 c m ip = true)
    \/ (f_id f = PayloadARP /\ f_off4 f = 0%nat /\ f_off6 f = 0%nat).

Lemma parse_proto_keeps2 fx s f proto :
  post (fun f' => f_host f' = f_host f /\ a_mac (f_src f') = a_mac (f_src f) /\ a_ip (f_src f') = a_ip (f_src f)
                  /\ f_off4 f' = f_off4 f /\ f_off6 f' = f_off6 f) (parse_proto fx s f proto).
Proof.
  rewrite parse_proto_chain_eq. unfold parse_proto_chain. blind; cbn [post]; cbn; auto 6.
Qed.

Lemma header_len_pos s hl : ether_header_len s = Ok hl -> (14 <= hl)%nat.
Proof.
  unfold ether_header_len. destruct (ether_type s); cbn [bind]; try discriminate. intros E. injection E as <-.
  repeat match goal with |- context [if ?c then _ else _] => destruct c end; lia.
Qed.

Theorem parse_host_key c s : post (host_key c) (parse c s).
Proof.
  rewrite parse_chain_eq. unfold parse_chain.
  apply post_bind; intros _ _. apply post_bind; intros smac _. apply post_bind; intros dmac _.
  apply post_bind; intros hl Hhl. apply header_len_pos in Hhl.
  destruct (Nat.ltb (len s) hl); [exact I|].
  destruct (is_unicast_mac smac) eqn:Hu; cbn [negb]; [|cbn [post]; intros m ip; cbn; discriminate].
  apply post_bind; intros et _.
  destruct (et <? 1536); [cbn [post]; intros m ip; cbn; discriminate|].
  destruct (et =? 2048).
  { unfold parse_ip4. apply post_bind; intros p _. apply post_bind; intros _ _. apply post_bind; intros ihl _.
    apply post_bind; intros proto _. apply post_bind; intros sip _. apply post_bind; intros dip _.
    eapply post_weaken; [|apply parse_proto_keeps2]. cbn [f_host f_src a_mac a_ip f_off4 f_off6 f_offP set_id].
    intros f' (Hh & Hm & Hi & H4 & H6) m ip E. rewrite Hh in E.
    destruct (gate4 c smac sip) eqn:G; [|discriminate]. injection E as E1 E2. subst m ip. left.
    rewrite Hm, Hi, H4, H6. repeat split; auto. lia. }
  destruct (et =? 34525).
  { unfold parse_ip6. apply post_bind; intros p _. apply post_bind; intros _ _.
    apply post_bind; intros proto _. apply post_bind; intros sip _. apply post_bind; intros dip _.
    eapply post_weaken; [|apply parse_proto_keeps2]. cbn [f_host f_src a_mac a_ip f_off4 f_off6 f_offP set_id].
    intros f' (Hh & Hm & Hi & H4 & H6) m ip E. rewrite Hh in E.
    destruct (gate6 c smac sip) eqn:G; [|discriminate]. injection E as E1 E2. subst m ip. right; left.
    rewrite Hm, Hi, H4, H6. repeat split; auto. lia. }
  destruct (et =? 2054).
  { unfold parse_arp. apply post_bind; intros p _. apply post_bind; intros bad _. destruct bad; [exact I|].
    apply post_bind; intros sip _. apply post_bind; intros h _.
    cbn [post]. intros m ip E. right; right. cbn. auto. }
  repeat match goal with |- context [if ?c then _ else _] => destruct c end;
  try (cbn [post]; intros m ip; cbn; discriminate);
  unfold parse_leaf; apply post_bind; intros hl' _; cbn [post]; intros m ip; cbn; discriminate.
Qed.

(* an IPv4 frame whose source address is outside the home LAN is not handed to the host table *)
Corollary ip4_off_lan_untracked c s f :
  parse c s = Ok f -> (0 < f_off4 f)%nat -> lan_contains c (a_ip (f_src f)) = false -> f_host f = None.
Proof.
  intros Hp H4 Hl. pose proof (parse_host_key c s) as H. rewrite Hp in H. cbn [post] in H.
  destruct (f_host f) as [[m ip]|] eqn:E; [|reflexivity].
  destruct (H m ip E) as [(_ & _ & _ & Hi & G)|[(_ & H0 & _)|(_ & H0 & _)]]; try lia.
  subst ip. unfold gate4 in G. rewrite Hl, Bool.andb_false_r in G. discriminate.
Qed.

(* an IPv6 frame whose source is neither link-local nor global unicast (multicast, unspecified, loopback), or is
   global unicast behind the router's MAC (forwarded traffic), is not handed to the host table *)
Corollary ip6_by_rule_untracked c s f :
  parse c s = Ok f -> (0 < f_off6 f)%nat -> ip6_is_llu (a_ip (f_src f)) = false ->
  (ip6_is_gu (a_ip (f_src f)) = false \/ bytes_eqb (a_mac (f_src f)) (c_routermac c) = true) -> f_host f = None.
Proof.
  intros Hp H6 Hl Hg. pose proof (parse_host_key c s) as H. rewrite Hp in H. cbn [post] in H.
  destruct (f_host f) as [[m ip]|] eqn:E; [|reflexivity].
  destruct (H m ip E) as [(_ & H0 & _)|[(_ & _ & Hm & Hi & G)|(_ & _ & H0)]]; try lia.
  subst m ip. unfold gate6 in G. rewrite Hl in G. cbn [orb] in G.
  destruct Hg as [Hg|Hg]; rewrite Hg in G; cbn [negb andb] in G; rewrite ?Bool.andb_false_r in G; discriminate.
Qed.

(* a frame that is neither IP nor ARP never reaches the host table *)
Corollary non_ip_untracked c s f :
  parse c s = Ok f -> f_off4 f = 0%nat -> f_off6 f = 0%nat -> f_id f <> PayloadARP -> f_host f = None.
Proof.
  intros Hp H4 H6 Hid. pose proof (parse_host_key c s) as H. rewrite Hp in H. cbn [post] in H.
  destruct (f_host f) as [[m ip]|] eqn:E; [|reflexivity].
  destruct (H m ip E) as [(H0 & _)|[(H0 & _)|(H0 & _)]]; try lia; contradiction.
Qed.

(* The allocation counter is zero for an error-free frame of ANY PayloadID class in each of these source classes:
   (1) source tracked and online; (2) own MAC; (3) group (multicast / broadcast) source MAC; (4) IPv4 source outside
   the home LAN; (5) IPv6 source that is not link-local and is not global unicast, or global unicast behind the
   router MAC; (6) neither IP nor ARP.  Excluded, because they do allocate (not_steady_allocates): a source that is
   tracked by rule and newly seen or offline; and frames Parse rejects (fmt.Errorf in the failing IsValid).
   ARP senders outside the home LAN are untracked too (off_lan_untracked speaks about the key). *)
Theorem zero_alloc_classes c st s f :
  parse c s = Ok f ->
  (forall k, f_host f = Some k -> st k = TrackedOnline)
  \/ a_mac (f_src f) = c_hostmac c
  \/ is_unicast_mac (a_mac (f_src f)) = false
  \/ ((0 < f_off4 f)%nat /\ lan_contains c (a_ip (f_src f)) = false)
  \/ ((0 < f_off6 f)%nat /\ ip6_is_llu (a_ip (f_src f)) = false /\
      (ip6_is_gu (a_ip (f_src f)) = false \/ bytes_eqb (a_mac (f_src f)) (c_routermac c) = true))
  \/ (f_off4 f = 0%nat /\ f_off6 f = 0%nat /\ f_id f <> PayloadARP) ->
  parse_allocs c st s = Ok 0%nat.
Proof.
  intros Hp H. apply (steady_state_zero c st s f Hp).
  destruct H as [H|[H|[H|[[H4 Hl]|[[H6 [Hl Hg]]|[H4 [H6 Hid]]]]]]]; auto; intros k E;
  [ rewrite (own_mac_untracked c s f Hp H) in E
  | rewrite (group_source_untracked c s f Hp H) in E
  | rewrite (ip4_off_lan_untracked c s f Hp H4 Hl) in E
  | rewrite (ip6_by_rule_untracked c s f Hp H6 Hl Hg) in E
  | rewrite (non_ip_untracked c s f Hp H4 H6 Hid) in E ]; discriminate.
Qed.

(* ---------- every PayloadID Parse can produce indexes Session.Statistics in range ---------- *)
Lemma udp_class_lt sp dp id : udp_class sp dp = Some id -> id < stats_len.
Proof.
  rewrite udp_class_chain_eq. unfold udp_class_chain.
  repeat match goal with |- context [if ?c then _ else _] => destruct c end; intros E; try discriminate;
  injection E as <-; vm_compute; reflexivity.
Qed.

Lemma parse_proto_id fx s f proto : f_id f < stats_len -> post (fun f' => f_id f' < stats_len) (parse_proto fx s f proto).
Proof.
  intros Hf. rewrite parse_proto_chain_eq. unfold parse_proto_chain.
  repeat match goal with |- context [if proto =? ?k then _ else _] => destruct (proto =? k) end; try exact Hf;
  try (cbn [post]; vm_compute; reflexivity).
  - (* UDP *)
    apply post_bind; intros p _. apply post_bind; intros _ _. apply post_bind; intros sp _. apply post_bind; intros dp _.
    destruct (udp_class sp dp) as [id|] eqn:E; cbn [post]; cbn [f_id set_id set_offP set_ports set_offU];
    [apply (udp_class_lt sp dp id E)|vm_compute; reflexivity].
  - (* TCP *) blind; cbn [post]; cbn; vm_compute; reflexivity.
  - (* ICMP4 *) blind; cbn [post]; cbn; vm_compute; reflexivity.
  - (* ICMP6 *) blind; cbn [post]; cbn; vm_compute; reflexivity.
Qed.

Theorem parse_id_in_range c s : post (fun f => 0 < f_id f /\ f_id f < stats_len) (parse c s).
Proof.
  assert (Hpos : post (fun f => 0 < f_id f) (parse c s) -> post (fun f => f_id f < stats_len) (parse c s) ->
                 post (fun f => 0 < f_id f /\ f_id f < stats_len) (parse c s)).
  { destruct (parse c s); cbn [post]; auto. }
  apply Hpos; clear Hpos.
  - (* ids start at 1: every id is one of the constants, none is 0; via the range proof's structure *)
    rewrite parse_chain_eq. unfold parse_chain.
    apply post_bind; intros _ _. apply post_bind; intros smac _. apply post_bind; intros dmac _. apply post_bind; intros hl _.
    destruct (Nat.ltb (len s) hl); [exact I|].
    destruct (negb (is_unicast_mac smac)); [cbn; vm_compute; reflexivity|].
    apply post_bind; intros et _. destruct (et <? 1536); [cbn; vm_compute; reflexivity|].
    assert (HP : forall fx f proto, 0 < f_id f -> post (fun f' => 0 < f_id f') (parse_proto fx s f proto)).
    { intros fx f proto Hf. rewrite parse_proto_chain_eq. unfold parse_proto_chain.
      repeat match goal with |- context [if proto =? ?k then _ else _] => destruct (proto =? k) end; try exact Hf;
      try (cbn [post]; vm_compute; reflexivity).
      - apply post_bind; intros p _. apply post_bind; intros _ _. apply post_bind; intros sp _. apply post_bind; intros dp _.
        destruct (udp_class sp dp) as [id|] eqn:E; cbn [post]; cbn [f_id set_id set_offP set_ports set_offU]; [|vm_compute; reflexivity].
        revert E. rewrite udp_class_chain_eq. unfold udp_class_chain.
        repeat match goal with |- context [if ?c then _ else _] => destruct c end; intros E; try discriminate;
        injection E as <-; vm_compute; reflexivity.
      - blind; cbn [post]; cbn; vm_compute; reflexivity.
      - blind; cbn [post]; cbn; vm_compute; reflexivity.
      - blind; cbn [post]; cbn; vm_compute; reflexivity. }
    destruct (et =? 2048).
    { unfold parse_ip4. apply post_bind; intros p _. apply post_bind; intros _ _. apply post_bind; intros ihl _.
      apply post_bind; intros proto _. apply post_bind; intros sip _. apply post_bind; intros dip _.
      apply HP. cbn. vm_compute. reflexivity. }
    destruct (et =? 34525).
    { unfold parse_ip6. apply post_bind; intros p _. apply post_bind; intros _ _.
      apply post_bind; intros proto _. apply post_bind; intros sip _. apply post_bind; intros dip _.
      apply HP. cbn. vm_compute. reflexivity. }
    destruct (et =? 2054).
    { unfold parse_arp. apply post_bind; intros p _. apply post_bind; intros bad _. destruct bad; [exact I|].
      apply post_bind; intros sip _. apply post_bind; intros h _. cbn. vm_compute. reflexivity. }
    repeat match goal with |- context [if ?c then _ else _] => destruct c end; try (cbn; vm_compute; reflexivity);
    unfold parse_leaf; apply post_bind; intros hl' _; cbn; vm_compute; reflexivity.
  - rewrite parse_chain_eq. unfold parse_chain.
    apply post_bind; intros _ _. apply post_bind; intros smac _. apply post_bind; intros dmac _. apply post_bind; intros hl _.
    destruct (Nat.ltb (len s) hl); [exact I|].
    destruct (negb (is_unicast_mac smac)); [cbn; vm_compute; reflexivity|].
    apply post_bind; intros et _. destruct (et <? 1536); [cbn; vm_compute; reflexivity|].
    destruct (et =? 2048).
    { unfold parse_ip4. apply post_bind; intros p _. apply post_bind; intros _ _. apply post_bind; intros ihl _.
      apply post_bind; intros proto _. apply post_bind; intros sip _. apply post_bind; intros dip _.
      apply parse_proto_id. cbn. vm_compute. reflexivity. }
    destruct (et =? 34525).
    { unfold parse_ip6. apply post_bind; intros p _. apply post_bind; intros _ _.
      apply post_bind; intros proto _. apply post_bind; intros sip _. apply post_bind; intros dip _.
      apply parse_proto_id. cbn. vm_compute. reflexivity. }
    destruct (et =? 2054).
    { unfold parse_arp. apply post_bind; intros p _. apply post_bind; intros bad _. destruct bad; [exact I|].
      apply post_bind; intros sip _. apply post_bind; intros h _. cbn. vm_compute. reflexivity. }
    repeat match goal with |- context [if ?c then _ else _] => destruct c end; try (cbn; vm_compute; reflexivity);
    unfold parse_leaf; apply post_bind; intros hl' _; cbn; vm_compute; reflexivity.
Qed.

(* every id Parse uses as an index on any path (the ids of the three tables and the fixed ones) is below the length *)
Lemma table_ids_in_range :
  forallb (fun r => snd r <? stats_len) ethertype_rows && forallb (fun r => snd r <? stats_len) ipproto_rows
  && forallb (fun r => snd r <? stats_len) udp_port_rows
  && forallb (fun i => i <? stats_len) [PayloadEther; Payload8023; PayloadARP; PayloadIP4; PayloadIP6; PayloadUDP; PayloadTCP;
                                        PayloadICMP4; PayloadICMP6; PayloadIGMP] = true.
Proof. vm_compute. reflexivity. Qed.
