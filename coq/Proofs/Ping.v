(* Proofs/Ping.v — invariants of the waiter-table event system (Model/Ping.v). *)
From PV Require Import Base.Prelude Model.Ping.
Open Scope N_scope.

(* ------------------------------------------------------------------ *)
(* association-list lemmas *)

Lemma tget_tdel t k j : tget (tdel t k) j = if j =? k then None else tget t j.
Proof.
  unfold tdel. induction t as [|[k' v] r IH]; cbn [filter tget fst].
  - destruct (j =? k); reflexivity.
  - destruct (N.eqb_spec k' k) as [E|E]; cbn [negb].
    + rewrite IH. destruct (N.eqb_spec j k) as [E2|E2]; [reflexivity|].
      cbn [tget]. destruct (N.eqb_spec k' j); [lia|reflexivity].
    + cbn [tget]. rewrite IH. destruct (N.eqb_spec k' j) as [E3|E3].
      * destruct (N.eqb_spec j k); [lia|reflexivity].
      * reflexivity.
Qed.

Lemma tget_tset t k v j : tget (tset t k v) j = if j =? k then Some v else tget t j.
Proof.
  unfold tset. cbn [tget]. rewrite tget_tdel.
  destruct (N.eqb_spec k j), (N.eqb_spec j k); try lia; reflexivity.
Qed.

Lemma tdel_comm t a b : tdel (tdel t a) b = tdel (tdel t b) a.
Proof.
  unfold tdel. induction t as [|[k v] r IH]; cbn [filter fst]; [reflexivity|].
  destruct (N.eqb_spec k a), (N.eqb_spec k b); cbn [negb filter fst];
    repeat match goal with |- context [?x =? ?y] => destruct (N.eqb_spec x y); try lia end;
    cbn [negb]; rewrite ?IH; reflexivity.
Qed.

Lemma tdel_length t k : (List.length (tdel t k) <= List.length t)%nat.
Proof. unfold tdel. induction t as [|e r IH]; cbn [filter List.length]; [lia|]. destruct (negb _); cbn [List.length]; lia. Qed.

Lemma tget_tdel_own t k p j : tget (tdel_own t k p) j =
  if (j =? k) && (match tget t k with Some q => Nat.eqb q p | None => false end) then None else tget t j.
Proof.
  unfold tdel_own. destruct (tget t k) as [q|] eqn:E.
  - destruct (Nat.eqb q p).
    + rewrite tget_tdel. destruct (j =? k); reflexivity.
    + rewrite andb_false_r. reflexivity.
  - rewrite andb_false_r. reflexivity.
Qed.

Lemma tdel_absent t k : tget t k = None -> tdel t k = t.
Proof.
  unfold tdel. induction t as [|[k' v] r IH]; cbn [tget filter fst]; [reflexivity|].
  destruct (N.eqb_spec k' k); [discriminate|]. cbn [negb]. intros H. rewrite IH by exact H. reflexivity.
Qed.

Lemma pget_pset l p v q : pget (pset l p v) q = if Nat.eqb q p then Some v else pget l q.
Proof.
  induction l as [|[p' v'] r IH]; cbn [pset pget].
  - destruct (Nat.eqb_spec p q), (Nat.eqb_spec q p); try lia; reflexivity.
  - destruct (Nat.eqb_spec p' p) as [E|E]; cbn [pget].
    + subst p'. destruct (Nat.eqb_spec p q), (Nat.eqb_spec q p); try lia; reflexivity.
    + rewrite IH. destruct (Nat.eqb_spec p' q), (Nat.eqb_spec q p); try lia; reflexivity.
Qed.

Global Arguments tdel : simpl never.
Global Arguments tset : simpl never.
Global Arguments pset : simpl never.

(* keys of the table *)
Definition keys (t : list (id * pid)) : list id := map fst t.

Lemma keys_tdel_in t k j : In j (keys (tdel t k)) <-> In j (keys t) /\ j <> k.
Proof.
  unfold keys, tdel. induction t as [|[k' v] r IH]; cbn [filter map fst In]; [tauto|].
  destruct (N.eqb_spec k' k) as [E|E]; cbn [negb map fst In]; rewrite IH; intuition (subst; auto; lia).
Qed.

Lemma keys_tdel_nodup t k : NoDup (keys t) -> NoDup (keys (tdel t k)).
Proof.
  unfold keys, tdel. induction t as [|[k' v] r IH]; cbn [filter map fst]; intros H; [constructor|].
  inversion H; subst. destruct (N.eqb_spec k' k); cbn [negb map fst]; [auto|].
  constructor; [|auto]. intros Hin. apply (keys_tdel_in r k k') in Hin. tauto.
Qed.

Lemma keys_tset_nodup t k v : NoDup (keys t) -> NoDup (keys (tset t k v)).
Proof.
  intros H. unfold tset. cbn [keys map fst]. constructor.
  - intros Hin. apply keys_tdel_in in Hin. tauto.
  - apply keys_tdel_nodup; exact H.
Qed.

Lemma tget_in_keys t k v : tget t k = Some v -> In k (keys t).
Proof.
  induction t as [|[k' v'] r IH]; cbn [tget keys map fst In]; [discriminate|].
  destruct (N.eqb_spec k' k); [auto|]. intros H. right. apply IH. exact H.
Qed.

Lemma in_keys_tget t k : In k (keys t) -> exists v, tget t k = Some v.
Proof.
  induction t as [|[k' v'] r IH]; cbn [tget keys map fst In]; [tauto|].
  intros [E|H]; destruct (N.eqb_spec k' k); try lia; eauto.
Qed.

(* ------------------------------------------------------------------ *)
(* run *)

Lemma run_app fx s a b : run fx s (a ++ b) = match run fx s a with
                                           | Ok s' => run fx s' b
                                           | Err e => Err e | Panic => Panic | Fuel => Fuel end.
Proof.
  revert s. induction a as [|e r IH]; intros s; cbn [app run]; [reflexivity|].
  destruct (step fx s e); auto.
Qed.

Lemma run_snoc fx s a e s' : run fx s a = Ok s' -> run fx s (a ++ [e]) = step fx s' e.
Proof. intros H. rewrite run_app, H. cbn [run]. destruct (step fx s' e); reflexivity. Qed.

(* induction principle over reachable states *)
Lemma run_ind (fx : bool) (P : state -> Prop) s0 :
  P s0 ->
  (forall s e s', P s -> step fx s e = Ok s' -> P s') ->
  forall tr s, run fx s0 tr = Ok s -> P s.
Proof.
  intros H0 Hs tr. revert s0 H0. induction tr as [|e r IH]; intros s0 H0 s; cbn [run].
  - intros E; inversion E; subst; exact H0.
  - destruct (step fx s0 e) eqn:E; try discriminate. intros H. eapply IH; [|exact H]. eapply Hs; eauto.
Qed.

(* ------------------------------------------------------------------ *)
(* shape of one step: 12 cases
   Begin (table full) | Begin | Sent true | Sent false | BulkFail | Notify (entry) | Notify (none) | Skip | CloseSession | Tick |
   Timeout | End *)

Ltac step_cases H :=
  match type of H with
  | step ?fx ?s ?e = Ok ?s1 =>
      destruct e as [p tmo | p ok | nb | j | | ks | tk | p | p]; cbn [step] in H;
      [ destruct (pget (pings s) p) eqn:Ep; [discriminate|];
        destruct (table_full (tbl s)) eqn:Efull;
        [ inversion H; subst s1; clear H
        | destruct (alloc (tbl s) (next s)) as [ia|] eqn:Eal; [|discriminate];
          cbv zeta in H; inversion H; subst s1; clear H ]
      | destruct (pget (pings s) p) as [pgp|] eqn:Ep; [|discriminate];
        destruct (p_phase pgp) eqn:Eph; try discriminate;
        destruct ok; inversion H; subst s1; clear H
      | destruct (fx && (nb <=? 65536)) eqn:Ebk; [|discriminate]; inversion H; subst s1; clear H
      | destruct (tget (tbl s) j) as [q|] eqn:Eq;
        [ destruct (pget (pings s) q) as [pgq|] eqn:Epq; [|discriminate];
          destruct (p_closed pgq) eqn:Ecl; [discriminate|]; inversion H; subst s1; clear H
        | inversion H; subst s1; clear H ]
      | inversion H; subst s1; clear H
      | inversion H; subst s1; clear H
      | destruct (clock s <=? tk)%Z eqn:Etk; [|discriminate]; inversion H; subst s1; clear H
      | destruct (pget (pings s) p) as [pgp|] eqn:Ep; [|discriminate];
        destruct (p_phase pgp) eqn:Eph; try discriminate;
        destruct (t_armed (p_time pgp) + t_eff (p_time pgp) <=? clock s)%Z eqn:Edl; [|discriminate];
        inversion H; subst s1; clear H
      | destruct (pget (pings s) p) as [pgp|] eqn:Ep; [|discriminate];
        destruct (p_phase pgp) eqn:Eph; try discriminate;
        destruct (p_closed pgp || p_fired pgp) eqn:Erdy; [|discriminate]; inversion H; subst s1; clear H ]
  end.

(* ------------------------------------------------------------------ *)
(* the basic invariant: what a table entry says about the call it points to *)

Record Inv (s : state) : Prop := {
  inv_entry : forall i q, tget (tbl s) i = Some q ->
     exists pg, pget (pings s) q = Some pg /\ p_id pg = i /\ p_closed pg = false /\ p_recv pg = false;
  inv_flags : forall q pg, pget (pings s) q = Some pg -> p_recv pg = p_closed pg;
  inv_nodup : NoDup (keys (tbl s));
  inv_next : next s < 65536;
  inv_ids : forall q pg, pget (pings s) q = Some pg -> p_id pg < 65536
}.

Lemma Inv_init n : n < 65536 -> Inv (init n).
Proof.
  intros H. constructor; cbn [init tbl pings next tget pget keys map]; try discriminate; auto. constructor.
Qed.

Lemma keys_tdel_own_nodup t k p : NoDup (keys t) -> NoDup (keys (tdel_own t k p)).
Proof.
  intros H. unfold tdel_own. destruct (tget t k); [|exact H]. destruct (Nat.eqb _ p); [apply keys_tdel_nodup|]; exact H.
Qed.

(* the allocation loop *)
Lemma first_free_spec t fuel : forall nx i, nx < 65536 -> first_free t nx fuel = Some i ->
  tget t i = None /\ i < 65536.
Proof.
  induction fuel as [|f IH]; intros nx i Hn; cbn [first_free]; [discriminate|].
  destruct (tget t nx) eqn:E.
  - apply IH. apply N.mod_lt. discriminate.
  - intros H; inversion H; subst. auto.
Qed.

Lemma first_free_none t fuel : forall nx, nx < 65536 -> first_free t nx fuel = None ->
  forall d, (d < fuel)%nat -> tget t ((nx + N.of_nat d) mod 65536) <> None.
Proof.
  induction fuel as [|f IH]; intros nx Hn H d Hd; [lia|]. cbn [first_free] in H.
  destruct (tget t nx) eqn:E; [|discriminate].
  destruct d as [|d].
  - cbn [N.of_nat]. rewrite N.add_0_r, N.mod_small by exact Hn. congruence.
  - assert (Hm : (nx + 1) mod 65536 < 65536) by (apply N.mod_lt; discriminate).
    pose proof (IH _ Hm H d ltac:(lia)) as G.
    replace (((nx + 1) mod 65536 + N.of_nat d) mod 65536) with ((nx + N.of_nat (S d)) mod 65536) in G; [exact G|].
    rewrite N.add_mod_idemp_l by discriminate. f_equal. lia.
Qed.

Lemma NoDup_map_inj_in {A B} (f : A -> B) l :
  (forall x y, In x l -> In y l -> f x = f y -> x = y) -> NoDup l -> NoDup (map f l).
Proof.
  induction l as [|a r IH]; intros Hinj H; cbn [map]; [constructor|]. inversion H; subst. constructor.
  - intros Hin. apply in_map_iff in Hin. destruct Hin as (y & Ey & Hy).
    assert (y = a) by (apply Hinj; [right; exact Hy|left; reflexivity|exact Ey]). subst. contradiction.
  - apply IH; [|assumption]. intros x y Hx Hy. apply Hinj; right; assumption.
Qed.

(* with fewer than 65536 entries the loop finds a free identifier within length+1 probes *)
Lemma first_free_total t nx : nx < 65536 -> NoDup (keys t) -> table_full t = false ->
  alloc t nx <> None.
Proof.
  intros Hn Hnd Hfull E. unfold alloc in E. unfold table_full, TABLE_CAP in Hfull.
  pose proof (first_free_none t _ nx Hn E) as Hbusy.
  set (len := List.length t) in *.
  set (l1 := map (fun d => (nx + N.of_nat d) mod 65536) (seq 0 (S len))).
  assert (Hincl : incl l1 (keys t)).
  { intros x Hx. unfold l1 in Hx. apply in_map_iff in Hx. destruct Hx as (d & <- & Hd).
    apply in_seq in Hd. specialize (Hbusy d ltac:(lia)).
    destruct (tget t ((nx + N.of_nat d) mod 65536)) eqn:Eg; [|congruence].
    eapply tget_in_keys; eauto. }
  assert (Hnd1 : NoDup l1).
  { unfold l1. apply NoDup_map_inj_in; [|apply seq_NoDup].
    intros x y Hx Hy Exy. apply in_seq in Hx. apply in_seq in Hy.
    assert (N.of_nat x < 65536 /\ N.of_nat y < 65536) by lia.
    assert (N.of_nat x = N.of_nat y); [|lia].
    revert Exy. generalize (N.of_nat x) (N.of_nat y) H. intros a b [Ha Hb] Eab. lia. }
  pose proof (NoDup_incl_length Hnd1 Hincl) as L.
  unfold l1 in L. rewrite map_length, seq_length in L. unfold keys in L. rewrite map_length in L.
  fold len in L. lia.
Qed.

(* a step changes the record of at most one call, and only its flags/phase *)
Lemma bump_lt t nx : nx < 65536 -> bump t nx < 65536.
Proof.
  intros H. unfold bump. destruct (table_full t); [exact H|].
  destruct (alloc t nx); [apply N.mod_lt; discriminate|exact H].
Qed.

Lemma iter_bump_lt n t nx : nx < 65536 -> N.iter n (bump t) nx < 65536.
Proof. intros H. apply N.iter_invariant; [|exact H]. intros x Hx. apply bump_lt. exact Hx. Qed.

Ltac same_flags Hf Hi Ep p :=
  intros q0 pg0; rewrite pget_pset; destruct (Nat.eqb_spec q0 p);
  [ intros E0; inversion E0; cbn; first [eapply Hf; eauto | eapply Hi; eauto | reflexivity]
  | first [apply Hf | apply Hi] ].

Lemma Inv_step fx s e s' : Inv s -> step fx s e = Ok s' -> Inv s'.
Proof.
  intros [He Hf Hn Hx Hi] H.
  assert (Hfresh : forall p, pget (pings s) p = None -> forall i q, tget (tbl s) i = Some q -> q <> p).
  { intros p0 Ep0 i q Hq E. subst q. destruct (He _ _ Hq) as (pg & Hp & _). congruence. }
  (* entries survive an update of p's record that keeps id, closed and recv *)
  assert (Hkeep : forall p pgp pg', pget (pings s) p = Some pgp ->
            p_id pg' = p_id pgp -> p_closed pg' = p_closed pgp -> p_recv pg' = p_recv pgp ->
            forall i q, tget (tbl s) i = Some q ->
            exists pg, pget (pset (pings s) p pg') q = Some pg /\ p_id pg = i /\ p_closed pg = false /\ p_recv pg = false).
  { intros p0 pgp pg' Ep0 E1 E2 E3 i q Hq. destruct (He _ _ Hq) as (pg & Hp & Hid & Hc & Hr).
    rewrite pget_pset. destruct (Nat.eqb_spec q p0).
    - subst q. rewrite Ep0 in Hp. inversion Hp; subst pg. exists pg'. repeat split; congruence.
    - exists pg. auto. }
  step_cases H.
  - (* Begin, table full *)
    unfold set_pings. constructor; cbn [tbl pings next]; auto.
    + intros i q Hq. destruct (He _ _ Hq) as (pg & Hp & Hrest). exists pg. split; [|exact Hrest].
      rewrite pget_pset. destruct (Nat.eqb_spec q p); [|exact Hp]. exfalso. eapply Hfresh; eauto.
    + intros q pg. rewrite pget_pset. destruct (Nat.eqb_spec q p); [intros E; inversion E; reflexivity|apply Hf].
    + intros q pg. rewrite pget_pset. destruct (Nat.eqb_spec q p); [intros E; inversion E; cbn; exact Hx|apply Hi].
  - (* Begin *)
    destruct (first_free_spec _ _ _ _ Hx Eal) as [Hfree Hlt].
    constructor; cbn [tbl pings next].
    + intros i q Hq. rewrite tget_tset in Hq. destruct (N.eqb_spec i ia) as [E|E].
      * inversion Hq; subst q i. rewrite pget_pset, Nat.eqb_refl. eexists; split; [reflexivity|]. cbn. auto.
      * destruct (He _ _ Hq) as (pg & Hp & Hrest). exists pg. split; [|exact Hrest].
        rewrite pget_pset. destruct (Nat.eqb_spec q p); [|exact Hp]. exfalso. eapply Hfresh; eauto.
    + intros q pg. rewrite pget_pset. destruct (Nat.eqb_spec q p); [intros E; inversion E; reflexivity|apply Hf].
    + apply keys_tset_nodup; auto.
    + unfold u16. apply N.mod_lt. discriminate.
    + intros q pg. rewrite pget_pset. destruct (Nat.eqb_spec q p); [intros E; inversion E; cbn; exact Hlt|apply Hi].
  - (* Sent true *)
    unfold set_pings. constructor; cbn [tbl pings next]; auto.
    + eapply Hkeep; eauto.
    + same_flags Hf Hi Ep p.
    + same_flags Hf Hi Ep p.
  - (* Sent false *)
    constructor; cbn [tbl pings next]; auto.
    + intros i q Hq.
      assert (Hq' : tget (tbl s) i = Some q).
      { destruct fx; [|exact Hq]. rewrite tget_tdel_own in Hq. destruct (_ && _); [discriminate|exact Hq]. }
      eapply Hkeep; eauto.
    + same_flags Hf Hi Ep p.
    + destruct fx; [apply keys_tdel_own_nodup|]; auto.
    + same_flags Hf Hi Ep p.
  - (* BulkFail *)
    constructor; cbn [tbl pings next]; auto. apply iter_bump_lt. exact Hx.
  - (* Notify *)
    destruct (He _ _ Eq) as (pg & Hp & Hid & Hc & Hr). rewrite Hp in Epq. inversion Epq; subst pgq.
    constructor; cbn [tbl pings next].
    + intros i q' Hq'. rewrite tget_tdel in Hq'. destruct (N.eqb_spec i j) as [E|E]; [discriminate|].
      destruct (He _ _ Hq') as (pg' & Hp' & Hid' & Hrest). exists pg'. split; [|auto].
      rewrite pget_pset. destruct (Nat.eqb_spec q' q); [|exact Hp']. subst q'. congruence.
    + intros q' pg'. rewrite pget_pset. destruct (Nat.eqb_spec q' q).
      * intros E; inversion E; reflexivity.
      * apply Hf.
    + apply keys_tdel_nodup; auto.
    + exact Hx.
    + intros q' pg'. rewrite pget_pset. destruct (Nat.eqb_spec q' q).
      * intros E; inversion E; cbn. eapply Hi; eauto.
      * apply Hi.
  - constructor; auto.
  - constructor; auto.
  - constructor; auto.
  - constructor; cbn [tbl pings next]; auto.
  - (* Timeout *)
    unfold set_pings. constructor; cbn [tbl pings next]; auto.
    + eapply Hkeep; eauto.
    + same_flags Hf Hi Ep p.
    + same_flags Hf Hi Ep p.
  - (* End *)
    constructor; cbn [tbl pings next]; auto.
    + intros i q Hq. rewrite tget_tdel_own in Hq.
      assert (Hq' : tget (tbl s) i = Some q) by (destruct (_ && _); [discriminate|exact Hq]).
      destruct (He _ _ Hq') as (pg' & Hp' & Hid' & Hrest). exists pg'. split; [|auto].
      rewrite pget_pset. destruct (Nat.eqb_spec q p); [|exact Hp']. subst q.
      (* q = p would mean the entry of p's own identifier, which was deleted *)
      exfalso. rewrite Ep in Hp'. inversion Hp'; subst pg'. rewrite Hid' in Hq.
      rewrite N.eqb_refl, Hq', Nat.eqb_refl in Hq. discriminate.
    + same_flags Hf Hi Ep p.
    + apply keys_tdel_own_nodup; auto.
    + same_flags Hf Hi Ep p.
Qed.

Lemma Inv_run fx n tr s : n < 65536 -> run fx (init n) tr = Ok s -> Inv s.
Proof. intros Hn. apply run_ind; [apply Inv_init; exact Hn|]. intros; eapply Inv_step; eauto. Qed.

(* ------------------------------------------------------------------ *)
(* no panic: the channel of a call is closed at most once *)

Lemma step_no_panic fx s e : Inv s -> step fx s e <> Panic.
Proof.
  intros [He _ _ _ _]. destruct e as [p tmo | p ok | nb | i | | ks | tk | p | p]; cbn [step]; try discriminate.
  - destruct (pget (pings s) p); [discriminate|]. destruct (table_full (tbl s)); [discriminate|].
    destruct (alloc (tbl s) (next s)); discriminate.
  - destruct (pget (pings s) p) as [pg|]; [|discriminate]. destruct (p_phase pg); try discriminate.
    destruct ok; discriminate.
  - destruct (fx && (nb <=? 65536)); discriminate.
  - destruct (tget (tbl s) i) as [q|] eqn:Eq; [|discriminate].
    destruct (He _ _ Eq) as (pg & Hp & _ & Hc & _). rewrite Hp, Hc. discriminate.
  - destruct (clock s <=? tk)%Z; discriminate.
  - destruct (pget (pings s) p) as [pg|]; [|discriminate]. destruct (p_phase pg); try discriminate.
    destruct (_ <=? clock s)%Z; discriminate.
  - destruct (pget (pings s) p) as [pg|]; [|discriminate]. destruct (p_phase pg); try discriminate.
    destruct (p_closed pg || p_fired pg); discriminate.
Qed.

Lemma run_no_panic fx n tr : n < 65536 -> run fx (init n) tr <> Panic.
Proof.
  intros Hn. assert (G : forall s, Inv s -> run fx s tr <> Panic).
  { induction tr as [|e r IH]; intros s Hs; cbn [run]; [discriminate|].
    destruct (step fx s e) eqn:E; try discriminate.
    - apply IH. eapply Inv_step; eauto.
    - exfalso. eapply step_no_panic; eauto. }
  apply G. apply Inv_init. exact Hn.
Qed.

(* the allocation loop of icmpRegister terminates: no reachable state makes a step run out of fuel *)
Lemma step_no_fuel fx s e : Inv s -> step fx s e <> Fuel.
Proof.
  intros [He _ Hnd Hx _]. destruct e as [p tmo | p ok | nb | i | | ks | tk | p | p]; cbn [step]; try discriminate.
  - destruct (pget (pings s) p); [discriminate|]. destruct (table_full (tbl s)) eqn:Ef; [discriminate|].
    destruct (alloc (tbl s) (next s)) eqn:Ea; [discriminate|].
    exfalso. eapply first_free_total; eauto.
  - destruct (pget (pings s) p) as [pg|]; [|discriminate]. destruct (p_phase pg); try discriminate.
    destruct ok; discriminate.
  - destruct (fx && (nb <=? 65536)); discriminate.
  - destruct (tget (tbl s) i) as [q|]; [|discriminate].
    destruct (pget (pings s) q) as [pg|]; [|discriminate]. destruct (p_closed pg); discriminate.
  - destruct (clock s <=? tk)%Z; discriminate.
  - destruct (pget (pings s) p) as [pg|]; [|discriminate]. destruct (p_phase pg); try discriminate.
    destruct (_ <=? clock s)%Z; discriminate.
  - destruct (pget (pings s) p) as [pg|]; [|discriminate]. destruct (p_phase pg); try discriminate.
    destruct (p_closed pg || p_fired pg); discriminate.
Qed.

Lemma run_no_fuel fx n tr : n < 65536 -> run fx (init n) tr <> Fuel.
Proof.
  intros Hn. assert (G : forall s, Inv s -> run fx s tr <> Fuel).
  { induction tr as [|e r IH]; intros s Hs; cbn [run]; [discriminate|].
    destruct (step fx s e) eqn:E; try discriminate.
    - apply IH. eapply Inv_step; eauto.
    - exfalso. eapply step_no_fuel; eauto. }
  apply G. apply Inv_init. exact Hn.
Qed.

(* ------------------------------------------------------------------ *)
(* no leak: every table entry belongs to a call that has not returned
   (it is inside its send or blocked in its select) *)

Definition owned_by_waiting (s : state) : Prop :=
  forall i q, tget (tbl s) i = Some q -> waiting s q = true.

Definition failed_begin (e : event) : bool :=
  match e with Sent _ false => true | _ => false end.
(* the defect class of DESIGN section 11 #24 (code before 659869d): the history contains a failed send *)
Definition known_C19_sendfail (tr : list event) : bool := existsb failed_begin tr.

Lemma owned_step fx s e s' :
  (fx = true \/ failed_begin e = false) ->
  Inv s -> owned_by_waiting s -> step fx s e = Ok s' -> owned_by_waiting s'.
Proof.
  intros Hfx HI Ho H.
  destruct HI as [He Hf Hn Hx Hi]. unfold owned_by_waiting, waiting in *.
  assert (Hfresh : forall p, pget (pings s) p = None -> forall i q, tget (tbl s) i = Some q -> q <> p).
  { intros p0 Ep0 i q Hq E. subst q. destruct (He _ _ Hq) as (pg & Hp & _). congruence. }
  step_cases H; cbn [tbl pings set_pings]; intros ii qq Hq; rewrite ?pget_pset.
  - destruct (Nat.eqb_spec qq p); [exfalso; eapply Hfresh; eauto|]. eapply Ho; eauto.
  - rewrite tget_tset in Hq. destruct (N.eqb_spec ii ia).
    + inversion Hq; subst qq. rewrite Nat.eqb_refl. reflexivity.
    + destruct (Nat.eqb_spec qq p); [exfalso; eapply Hfresh; eauto|]. eapply Ho; eauto.
  - destruct (Nat.eqb_spec qq p); [reflexivity|]. eapply Ho; eauto.
  - destruct Hfx as [->|Hfb]; [|discriminate].
    rewrite tget_tdel_own in Hq.
    assert (Hq' : tget (tbl s) ii = Some qq) by (destruct (_ && _); [discriminate|exact Hq]).
    destruct (Nat.eqb_spec qq p).
    + subst qq. destruct (He _ _ Hq') as (pg' & Hp' & Hid' & _). rewrite Ep in Hp'. inversion Hp'; subst pg'.
      rewrite Hid' in Hq. rewrite N.eqb_refl, Hq', Nat.eqb_refl in Hq. discriminate.
    + eapply Ho; eauto.
  - eapply Ho; eauto.
  - rewrite tget_tdel in Hq. destruct (N.eqb_spec ii j); [discriminate|].
    destruct (Nat.eqb_spec qq q).
    + subst qq. destruct (He _ _ Hq) as (pg' & Hp' & Hid' & _).
      destruct (He _ _ Eq) as (pg'' & Hp'' & Hid'' & _). congruence.
    + eapply Ho; eauto.
  - eapply Ho; eauto.
  - eapply Ho; eauto.
  - eapply Ho; eauto.
  - eapply Ho; eauto.
  - destruct (Nat.eqb_spec qq p); [reflexivity|]. eapply Ho; eauto.
  - rewrite tget_tdel_own in Hq.
    assert (Hq' : tget (tbl s) ii = Some qq) by (destruct (_ && _); [discriminate|exact Hq]).
    destruct (Nat.eqb_spec qq p).
    + subst qq. destruct (He _ _ Hq') as (pg' & Hp' & Hid' & _). rewrite Ep in Hp'. inversion Hp'; subst pg'.
      rewrite Hid' in Hq. rewrite N.eqb_refl, Hq', Nat.eqb_refl in Hq. discriminate.
    + eapply Ho; eauto.
Qed.

Lemma owned_run fx tr : forall s s',
  (fx = true \/ known_C19_sendfail tr = false) ->
  Inv s -> owned_by_waiting s -> run fx s tr = Ok s' -> owned_by_waiting s'.
Proof.
  induction tr as [|e r IH]; intros s s' Hfx HI Ho; cbn [run].
  - intros E; inversion E; subst; exact Ho.
  - destruct (step fx s e) eqn:E; try discriminate. intros H.
    assert (Hfx1 : fx = true \/ failed_begin e = false).
    { destruct Hfx as [?|Hk]; [auto|]. right. cbn [known_C19_sendfail existsb] in Hk.
      apply orb_false_iff in Hk. tauto. }
    assert (Hfx2 : fx = true \/ known_C19_sendfail r = false).
    { destruct Hfx as [?|Hk]; [auto|]. right. cbn [known_C19_sendfail existsb] in Hk.
      apply orb_false_iff in Hk. tauto. }
    eapply IH; [exact Hfx2| | |exact H].
    + eapply Inv_step; eauto.
    + eapply owned_step; eauto.
Qed.

(* repaired code: for every history *)
Theorem no_leak_fixed n tr s : n < 65536 ->
  run true (init n) tr = Ok s -> owned_by_waiting s.
Proof.
  intros Hn. apply owned_run; [auto|apply Inv_init; exact Hn|]. intros i q; cbn; discriminate.
Qed.

(* code before the repair: for every history without a failed send *)
Theorem no_leak_partial n tr s : n < 65536 -> known_C19_sendfail tr = false ->
  run false (init n) tr = Ok s -> owned_by_waiting s.
Proof.
  intros Hn Hk. apply owned_run; [auto|apply Inv_init; exact Hn|]. intros i q; cbn; discriminate.
Qed.

(* code before the repair: one failed send leaves an entry behind whose owner has returned *)
Theorem no_leak_refuted :
  exists tr s, known_C19_sendfail tr = true /\ run false init_go tr = Ok s /\ ~ owned_by_waiting s.
Proof.
  exists [Begin 0%nat 0%Z; Sent 0%nat false]. eexists. split; [reflexivity|]. split; [vm_compute; reflexivity|].
  intros H. specialize (H 1 0%nat eq_refl). discriminate.
Qed.

(* consequence: when no call is outstanding the table is empty *)
Lemma empty_when_idle s : owned_by_waiting s -> (forall q, waiting s q = false) -> tbl s = [].
Proof.
  intros Ho Hw. destruct (tbl s) as [|[k v] r] eqn:E; [reflexivity|].
  specialize (Ho k v). rewrite E in Ho. cbn [tget] in Ho. rewrite N.eqb_refl in Ho.
  specialize (Ho eq_refl). rewrite Hw in Ho. discriminate.
Qed.

(* non-vacuity: a history with calls, replies and timeouts satisfying the hypotheses *)
Definition ex_trace : list event :=
  [Begin 0%nat 0%Z; Sent 0%nat true; Begin 1%nat (-5)%Z; Notify 2; Sent 1%nat true; Tick (2 * SECOND)%Z;
   Timeout 0%nat; End 1%nat; End 0%nat].
Example no_leak_nonvacuous :
  exists s, known_C19_sendfail ex_trace = false /\ run false init_go ex_trace = Ok s /\
            result_of s 0%nat = Some RTimeout /\ result_of s 1%nat = Some RNil /\ tbl s = [].
Proof. eexists. split; [reflexivity|]. split; [vm_compute; reflexivity|]. repeat split; vm_compute; reflexivity. Qed.
