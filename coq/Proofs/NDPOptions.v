(* Proofs/NDPOptions.v — totality of newParseOptions (with the zero-length guard of the #12
   repair) and of every option unmarshal. *)
From PV Require Import Base.Prelude Base.Slice Model.NDPOptions Proofs.HandlersTac.
Open Scope N_scope.

(* an option sub-slice as newParseOptions hands it over: b[i:i+l], l = 8*b[i+1] >= 8 *)
Definition opt_shape (o : slice) : Prop :=
  wf o /\ (8 <= len o)%nat /\ len o = (N.to_nat (nth 1 (arr o) 0%N) * 8)%nat.

Lemma safe_ign r : safe r -> safe (ign r).
Proof. intros [H1 H2]. destruct r; cbn [ign]; try congruence; apply safe_Ok. Qed.

Lemma lla_safe o : opt_shape o -> safe (lla_unmarshal o).
Proof.
  intros (Hw & H8 & Hl). unfold lla_unmarshal.
  repeat sstep. repeat (sif; try sdone).
Qed.

Lemma mtu_safe o : opt_shape o -> safe (mtu_unmarshal o).
Proof.
  intros (Hw & H8 & Hl). unfold mtu_unmarshal.
  ssolve.
Qed.

Lemma pi_safe o : opt_shape o -> safe (pi_unmarshal o).
Proof.
  intros (Hw & H8 & Hl). unfold pi_unmarshal.
  sstep. sif; [sdone|].
  assert (len o = 32%nat) by lia.
  ssolve.
Qed.

Lemma ri_safe o : opt_shape o -> safe (ri_unmarshal o).
Proof.
  intros (Hw & H8 & Hl). unfold ri_unmarshal.
  repeat sstep. sif; [sdone|].
  repeat sstep. sif; [sdone|].
  set (l := nth 1 (arr o) 0) in *. set (pl := nth 2 (arr o) 0) in *.
  assert (8 + N.to_nat ((pl + 7) / 8) <= len o)%nat.
  { unfold ri_len_ok in *.
    destruct (pl =? 0) eqn:?; [lia|].
    destruct (pl <? 65) eqn:?; [lia|].
    destruct (pl <? 129) eqn:?; [lia|discriminate]. }
  sstep. sdone.
Qed.

Lemma rdnss_servers_safe n : forall i value,
  (6 + 16 * (i + n) <= cap value)%nat -> safe (rdnss_servers n i value).
Proof.
  induction n as [|n IH]; intros i value H; cbn [rdnss_servers]; [sdone|].
  rewrite sl_ok by lia. cbn [bind]. apply IH. lia.
Qed.

Lemma rdnss_safe o : opt_shape o -> safe (rdnss_unmarshal o).
Proof.
  intros (Hw & H8 & Hl). unfold rdnss_unmarshal.
  repeat sstep. sif; [sdone|]. sif; [sdone|].
  apply rdnss_servers_safe.
  set (l1 := nth 1 (arr o) 0) in *.
  assert (1 <= l1) by lia.
  rewrite Z.quot_div_nonneg by lia.
  unfold wf, cap in *; cbn [len arr]; rewrite skipn_length. lia.
Qed.

Section WithOracle.
  Variable lbl_ok : bytes -> bool.

  Lemma dnssl_loop_safe fuel : forall v i have,
    cap v = len v -> (i <= len v)%nat -> (len v - i < fuel)%nat ->
    safe (dnssl_loop lbl_ok fuel v i have).
  Proof.
    induction fuel as [|f IH]; intros v i have Hc Hi Hf; [lia|].
    cbn [dnssl_loop].
    repeat first [ sdone | (apply IH; lia) | (sstep; cbn [len]) | sif ].
  Qed.

  Lemma raw_unmarshal_ok o v : wf o -> raw_unmarshal o = Ok v ->
    cap v = len v /\ len v = (len o - 2)%nat /\ (2 <= len o)%nat.
  Proof.
    intros Hw. unfold raw_unmarshal.
    destruct (Nat.ltb_spec (len o) 2); [discriminate|].
    repeat sstep. cbn [len]. sif; [discriminate|].
    intros E; apply Ok_inj in E; subst v.
    unfold of_bytes, cap; cbn [arr len]. rewrite ?firstn_length, ?skipn_length.
    unfold wf, cap in Hw. lia.
  Qed.

  Lemma raw_unmarshal_safe o : wf o -> safe (raw_unmarshal o).
  Proof.
    intros Hw. unfold raw_unmarshal.
    destruct (Nat.ltb_spec (len o) 2); [sdone|].
    repeat sstep. sif; sdone.
  Qed.

  Lemma dnssl_safe fuel o : opt_shape o -> (len o <= fuel)%nat -> safe (dnssl_unmarshal lbl_ok fuel o).
  Proof.
    intros (Hw & H8 & Hl) Hf. unfold dnssl_unmarshal.
    apply safe_bind; [apply raw_unmarshal_safe; exact Hw|].
    intros v Hv. apply raw_unmarshal_ok in Hv; [|exact Hw]. destruct Hv as (Hc & Hlv & _).
    rewrite sl_ok by lia. cbn [bind].
    apply dnssl_loop_safe; lia.
  Qed.

  Lemma opt_step_safe fuel t o : opt_shape o -> (len o <= fuel)%nat -> safe (opt_step lbl_ok fuel t o).
  Proof.
    intros Ho Hf. unfold opt_step.
    repeat sif;
      first [ apply lla_safe; assumption | apply pi_safe; assumption
            | apply safe_ign; first [apply mtu_safe | apply ri_safe | apply rdnss_safe | apply dnssl_safe]; assumption
            | sdone ].
  Qed.

  (* main lemma: every iteration ends the walk or advances by l >= 8 *)
  Lemma parse_opts_safe n : forall b i fuel,
    wf b -> (i <= len b)%nat -> (len b - i <= n)%nat -> (n < fuel)%nat ->
    safe (parse_opts lbl_ok fuel b i).
  Proof.
    induction n as [|n IH]; intros b i fuel Hw Hi Hn Hf.
    - destruct fuel as [|f]; [lia|]. cbn [parse_opts].
      rewrite slfrom_ok by lia. cbn [bind len]. destruct (Nat.eqb_spec (len b - i) 0); [sdone|lia].
    - destruct fuel as [|f]; [lia|]. cbn [parse_opts].
      rewrite slfrom_ok by lia. cbn [bind len].
      destruct (Nat.eqb_spec (len b - i) 0); [sdone|].
      destruct (Nat.ltb_spec (len b - i) 2); [sdone|].
      rewrite !idx_ok by lia. cbn [bind].
      set (l := (N.to_nat (nth (i + 1) (arr b) 0%N) * 8)%nat) in *.
      destruct (Nat.eqb_spec l 0); [sdone|].
      destruct (Nat.ltb_spec (len b - i) l); [sdone|].
      assert (Hl8 : (8 <= l)%nat) by (unfold l in *; lia).
      rewrite sl_ok by (unfold wf in Hw; lia). cbn [bind].
      replace (i + l - i)%nat with l by lia.
      apply safe_bind.
      + apply opt_step_safe; [|cbn [len]; lia].
        unfold opt_shape, wf, cap. cbn [len arr]. rewrite skipn_length, nth_skipn_add.
        unfold wf, cap in Hw. fold l. lia.
      + intros _ _. apply IH; [assumption|lia|lia|lia].
  Qed.

  (* ---- exported statements ---- *)

  Theorem new_parse_options_total b : wf b ->
    forall fuel, (len b < fuel)%nat -> safe (new_parse_options lbl_ok fuel b).
  Proof.
    intros Hw fuel Hf. unfold new_parse_options.
    apply (parse_opts_safe (len b)); [assumption|lia|lia|assumption].
  Qed.

  (* exported entry points *)
  Theorem ra_options_total p : wf p ->
    forall fuel, (len p < fuel)%nat -> safe (ra_options lbl_ok fuel p).
  Proof.
    intros Hw fuel Hf. unfold ra_options.
    destruct (Nat.leb_spec (len p) 16); [sdone|].
    sstep. apply new_parse_options_total; [slen|cbn [len]; lia].
  Qed.

  Theorem rs_options_total p : wf p ->
    forall fuel, (len p < fuel)%nat -> safe (rs_options lbl_ok fuel p).
  Proof.
    intros Hw fuel Hf. unfold rs_options.
    destruct (Nat.leb_spec (len p) 8); [sdone|].
    sstep. apply new_parse_options_total; [slen|cbn [len]; lia].
  Qed.
End WithOracle.

(* non-vacuity: a router advertisement option block with SLLA, MTU, prefix, RDNSS, DNSSL,
   route information lies outside the known class and is parsed to Ok *)
Definition sample_opts : bytes :=
  [1;1;0;1;2;3;4;5] ++ [5;1;0;0;0;0;5;220] ++
  [3;4;64;192;0;0;14;16;0;0;7;8;0;0;0;0;32;1;13;184;0;0;0;0;0;0;0;0;0;0;0;0] ++
  [25;3;0;0;0;0;1;0;32;1;13;184;0;0;0;0;0;0;0;0;0;0;0;1] ++
  [31;2;0;0;0;0;1;0;3;108;97;110;0;0;0;0] ++
  [24;2;64;0;0;0;1;0;32;1;13;184;0;0;0;1].

Example sample_opts_nonvacuous :
  bytes_ok sample_opts /\ new_parse_options (fun _ => true) 200 (of_bytes sample_opts) = Ok tt.
Proof.
  split; [apply bytes_okb_spec; vm_compute; reflexivity|]. vm_compute; reflexivity.
Qed.

(* the former defect class (#12): a zero-length option is now an error *)
Example zero_length_option_is_error :
  new_parse_options (fun _ => true) 20 (of_bytes [31; 0; 0; 0; 0; 0; 0; 0]) = Err EOther /\
  new_parse_options (fun _ => true) 20 (of_bytes [1; 0; 0; 0; 0; 0; 0; 0]) = Err EOther.
Proof. split; vm_compute; reflexivity. Qed.
