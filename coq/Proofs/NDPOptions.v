(* Proofs/NDPOptions.v — totality of newParseOptions and of every option unmarshal
   outside the zero-length-option class; exact refutations inside it. *)
From PV Require Import Base.Prelude Base.Slice Model.NDPOptions Proofs.HandlersTac.
Open Scope N_scope.

(* an option sub-slice as newParseOptions hands it over: b[i:i+l], l = 8*b[i+1] >= 8 *)
Definition opt_shape (o : slice) : Prop :=
  wf o /\ (8 <= len o)%nat /\ len o = (N.to_nat (nth 1 (arr o) 0%N) * 8)%nat.

Lemma safe_ign r : safe r -> safe (ign r).
Proof. intros [H1 H2]. destruct r; cbn [ign]; try congruence; apply safe_Ok. Qed.

Lemma lla_safe o : opt_shape o -> safe (lla_unmarshal o).
Proof.
  intros (Hw & H8 & Hl). unfold lla_unmarshal.
  repeat sstep. repeat (sif; try sdone).
Qed.

Lemma mtu_safe o : opt_shape o -> safe (mtu_unmarshal o).
Proof.
  intros (Hw & H8 & Hl). unfold mtu_unmarshal.
  ssolve.
Qed.

Lemma pi_safe o : opt_shape o -> safe (pi_unmarshal o).
Proof.
  intros (Hw & H8 & Hl). unfold pi_unmarshal.
  sstep. sif; [sdone|].
  assert (len o = 32%nat) by lia.
  ssolve.
Qed.

Lemma ri_safe o : opt_shape o -> safe (ri_unmarshal o).
Proof.
  intros (Hw & H8 & Hl). unfold ri_unmarshal.
  repeat sstep. sif; [sdone|].
  repeat sstep. sif; [sdone|].
  set (l := nth 1 (arr o) 0) in *. set (pl := nth 2 (arr o) 0) in *.
  assert (8 + N.to_nat ((pl + 7) / 8) <= len o)%nat.
  { unfold ri_len_ok in *.
    destruct (pl =? 0) eqn:?; [lia|].
    destruct (pl <? 65) eqn:?; [lia|].
    destruct (pl <? 129) eqn:?; [lia|discriminate]. }
  sstep. sdone.
Qed.

Lemma rdnss_servers_safe n : forall i value,
  (6 + 16 * (i + n) <= cap value)%nat -> safe (rdnss_servers n i value).
Proof.
  induction n as [|n IH]; intros i value H; cbn [rdnss_servers]; [sdone|].
  rewrite sl_ok by lia. cbn [bind]. apply IH. lia.
Qed.

Lemma rdnss_safe o : opt_shape o -> safe (rdnss_unmarshal o).
Proof.
  intros (Hw & H8 & Hl). unfold rdnss_unmarshal.
  repeat sstep. sif; [sdone|]. sif; [sdone|].
  apply rdnss_servers_safe.
  set (l1 := nth 1 (arr o) 0) in *.
  assert (1 <= l1) by lia.
  rewrite Z.quot_div_nonneg by lia.
  unfold wf, cap in *; cbn [len arr]; rewrite skipn_length. lia.
Qed.

Section WithOracle.
  Variable lbl_ok : bytes -> bool.

  Lemma dnssl_loop_safe fuel : forall v i have,
    cap v = len v -> (i <= len v)%nat -> (len v - i < fuel)%nat ->
    safe (dnssl_loop lbl_ok fuel v i have).
  Proof.
    induction fuel as [|f IH]; intros v i have Hc Hi Hf; [lia|].
    cbn [dnssl_loop].
    repeat first [ sdone | (apply IH; lia) | (sstep; cbn [len]) | sif ].
  Qed.

  Lemma raw_unmarshal_ok o v : wf o -> raw_unmarshal o = Ok v ->
    cap v = len v /\ len v = (len o - 2)%nat /\ (2 <= len o)%nat.
  Proof.
    intros Hw. unfold raw_unmarshal.
    destruct (Nat.ltb_spec (len o) 2); [discriminate|].
    repeat sstep. cbn [len]. sif; [discriminate|].
    intros E; apply Ok_inj in E; subst v.
    unfold of_bytes, cap; cbn [arr len]. rewrite ?firstn_length, ?skipn_length.
    unfold wf, cap in Hw. lia.
  Qed.

  Lemma raw_unmarshal_safe o : wf o -> safe (raw_unmarshal o).
  Proof.
    intros Hw. unfold raw_unmarshal.
    destruct (Nat.ltb_spec (len o) 2); [sdone|].
    repeat sstep. sif; sdone.
  Qed.

  Lemma dnssl_safe fuel o : opt_shape o -> (len o <= fuel)%nat -> safe (dnssl_unmarshal lbl_ok fuel o).
  Proof.
    intros (Hw & H8 & Hl) Hf. unfold dnssl_unmarshal.
    apply safe_bind; [apply raw_unmarshal_safe; exact Hw|].
    intros v Hv. apply raw_unmarshal_ok in Hv; [|exact Hw]. destruct Hv as (Hc & Hlv & _).
    rewrite sl_ok by lia. cbn [bind].
    apply dnssl_loop_safe; lia.
  Qed.

  Lemma opt_step_safe fuel t o : opt_shape o -> (len o <= fuel)%nat -> safe (opt_step lbl_ok fuel t o).
  Proof.
    intros Ho Hf. unfold opt_step.
    repeat sif;
      first [ apply lla_safe; assumption | apply pi_safe; assumption
            | apply safe_ign; first [apply mtu_safe | apply ri_safe | apply rdnss_safe | apply dnssl_safe]; assumption
            | sdone ].
  Qed.

  (* the zero-length option *)
  Lemma zero_slice b i : wf b -> (i <= len b)%nat ->
    sl b i (i + 0) = Ok (mkSlice (skipn i (arr b)) 0).
  Proof. intros Hw Hi. rewrite sl_ok by slen. f_equal. f_equal. lia. Qed.

  Lemma opt_step_zero_panic fuel t a : panics_type t = true ->
    opt_step lbl_ok fuel t (mkSlice a 0) = Panic.
  Proof.
    intros Ht. unfold opt_step, panics_type in *.
    destruct (t =? 1) eqn:E1; [reflexivity|]. destruct (t =? 2) eqn:E2; [reflexivity|]. cbn [orb].
    destruct (t =? 5) eqn:E5; [reflexivity|].
    destruct (t =? 3) eqn:E3; [reflexivity|].
    destruct (t =? 24) eqn:E24; [reflexivity|].
    destruct (t =? 25) eqn:E25; [reflexivity|].
    cbn in Ht. discriminate.
  Qed.

  Lemma opt_step_zero_loop fuel t a : panics_type t = false ->
    opt_step lbl_ok fuel t (mkSlice a 0) = Ok tt.
  Proof.
    intros Ht. unfold opt_step, panics_type in *.
    destruct (t =? 1) eqn:E1; [discriminate|]. destruct (t =? 2) eqn:E2; [discriminate|]. cbn [orb].
    destruct (t =? 5) eqn:E5; [cbn in Ht; rewrite ?orb_true_r in Ht; discriminate|].
    destruct (t =? 3) eqn:E3; [discriminate|].
    destruct (t =? 24) eqn:E24; [cbn in Ht; rewrite ?orb_true_r in Ht; discriminate|].
    destruct (t =? 25) eqn:E25; [cbn in Ht; rewrite ?orb_true_r in Ht; discriminate|].
    destruct (t =? 31); reflexivity.
  Qed.

  (* fixed point of the loop body: a zero-length option of type 31 / unknown type *)
  Lemma parse_opts_spin b i : wf b -> (i + 2 <= len b)%nat ->
    nth (i + 1) (arr b) 0 = 0 -> panics_type (nth i (arr b) 0) = false ->
    forall fuel, parse_opts lbl_ok fuel b i = Fuel.
  Proof.
    intros Hw Hi Hz Ht fuel. induction fuel as [|f IH]; [reflexivity|].
    cbn [parse_opts]. repeat sstep. cbn [len].
    destruct (Nat.eqb_spec (len b - i) 0); [lia|].
    destruct (Nat.ltb_spec (len b - i) 2); [lia|].
    rewrite Hz. change (N.to_nat 0 * 8)%nat with 0%nat.
    destruct (Nat.ltb_spec (len b - i) 0); [lia|].
    replace (i + 0 - i)%nat with 0%nat by lia.
    rewrite opt_step_zero_loop by exact Ht. cbn [bind].
    rewrite Nat.add_0_r. exact IH.
  Qed.

  Lemma parse_opts_zero_panic b i : wf b -> (i + 2 <= len b)%nat ->
    nth (i + 1) (arr b) 0 = 0 -> panics_type (nth i (arr b) 0) = true ->
    forall fuel, (0 < fuel)%nat -> parse_opts lbl_ok fuel b i = Panic.
  Proof.
    intros Hw Hi Hz Ht fuel Hf. destruct fuel as [|f]; [lia|].
    cbn [parse_opts]. repeat sstep. cbn [len].
    destruct (Nat.eqb_spec (len b - i) 0); [lia|].
    destruct (Nat.ltb_spec (len b - i) 2); [lia|].
    rewrite Hz. change (N.to_nat 0 * 8)%nat with 0%nat.
    destruct (Nat.ltb_spec (len b - i) 0); [lia|].
    replace (i + 0 - i)%nat with 0%nat by lia.
    rewrite opt_step_zero_panic by exact Ht. reflexivity.
  Qed.

  (* main lemma: the outcome class is decided by the zero-length-option walk *)
  Lemma parse_opts_classified n : forall b i fuel,
    wf b -> (i <= len b)%nat -> (len b - i <= n)%nat -> (n < fuel)%nat ->
    match zero_opt n b i with
    | ZNone => safe (parse_opts lbl_ok fuel b i)
    | ZPanic => parse_opts lbl_ok fuel b i <> Fuel
    | ZLoop => parse_opts lbl_ok fuel b i <> Panic
    end.
  Proof.
    induction n as [|n IH]; intros b i fuel Hw Hi Hn Hf.
    - cbn [zero_opt]. destruct fuel as [|f]; [lia|]. cbn [parse_opts].
      sstep. cbn [len]. destruct (Nat.eqb_spec (len b - i) 0); [sdone|lia].
    - cbn [zero_opt].
      destruct (Nat.ltb_spec (len b - i) 2) as [H2|H2].
      + destruct fuel as [|f]; [lia|]. cbn [parse_opts]. sstep. cbn [len].
        destruct (Nat.eqb_spec (len b - i) 0); [sdone|].
        destruct (Nat.ltb_spec (len b - i) 2); [sdone|lia].
      + destruct (nth (i + 1) (arr b) 0 =? 0) eqn:Hz.
        * apply N.eqb_eq in Hz.
          destruct (panics_type (nth i (arr b) 0)) eqn:Ht.
          -- rewrite parse_opts_zero_panic by (assumption || lia). discriminate.
          -- rewrite parse_opts_spin by (assumption || lia). discriminate.
        * destruct fuel as [|f]; [lia|].
          destruct (Nat.ltb_spec (len b - i) (N.to_nat (nth (i + 1) (arr b) 0) * 8)) as [Hl|Hl].
          -- cbn [parse_opts]. repeat sstep. cbn [len].
             destruct (Nat.eqb_spec (len b - i) 0); [sdone|].
             destruct (Nat.ltb_spec (len b - i) 2); [sdone|].
             destruct (Nat.ltb_spec (len b - i) (N.to_nat (nth (i + 1) (arr b) 0) * 8)); [sdone|lia].
          -- set (l := (N.to_nat (nth (i + 1) (arr b) 0%N) * 8)%nat) in *.
             assert (Hl8 : (8 <= l)%nat) by (unfold l; lia).
             assert (Hrun : parse_opts lbl_ok (S f) b i =
                            bind (opt_step lbl_ok (len b) (nth i (arr b) 0) (mkSlice (skipn i (arr b)) l))
                                 (fun _ => parse_opts lbl_ok f b (i + l))).
             { cbn [parse_opts]. repeat sstep. cbn [len].
               destruct (Nat.eqb_spec (len b - i) 0); [lia|].
               destruct (Nat.ltb_spec (len b - i) 2); [lia|].
               fold l.
               destruct (Nat.ltb_spec (len b - i) l); [lia|].
               replace (i + l - i)%nat with l by lia. reflexivity. }
             rewrite Hrun.
             assert (Hstep : safe (opt_step lbl_ok (len b) (nth i (arr b) 0) (mkSlice (skipn i (arr b)) l))).
             { apply opt_step_safe; [|cbn [len]; lia].
               unfold opt_shape, wf, cap. cbn [len arr]. rewrite skipn_length, nth_skipn_add.
               unfold wf, cap in Hw. fold l. lia. }
             specialize (IH b (i + l)%nat f Hw ltac:(lia) ltac:(lia) ltac:(lia)).
             destruct (opt_step lbl_ok (len b) (nth i (arr b) 0) (mkSlice (skipn i (arr b)) l)) eqn:Eo;
               cbn [bind].
             ++ exact IH.
             ++ destruct (zero_opt n b (i + l)); first [sdone | discriminate].
             ++ exfalso. exact (not_safe_Panic Hstep).
             ++ exfalso. exact (not_safe_Fuel Hstep).
  Qed.

  (* ---- exported statements ---- *)

  Theorem new_parse_options_partial b : wf b ->
    known_C08_ndp_zero b = ZNone ->
    forall fuel, (len b < fuel)%nat -> safe (new_parse_options lbl_ok fuel b).
  Proof.
    intros Hw Hk fuel Hf. unfold new_parse_options, known_C08_ndp_zero in *.
    pose proof (parse_opts_classified (len b) b 0%nat fuel Hw ltac:(lia) ltac:(lia) Hf) as H.
    rewrite Hk in H. exact H.
  Qed.

  Theorem new_parse_options_panic_only_known b : wf b ->
    forall fuel, (len b < fuel)%nat ->
    (new_parse_options lbl_ok fuel b = Panic -> known_C08_ndp_zero_panic b = true) /\
    (new_parse_options lbl_ok fuel b = Fuel -> known_C08_ndp_zero_loop b = true).
  Proof.
    intros Hw fuel Hf. unfold new_parse_options, known_C08_ndp_zero_panic, known_C08_ndp_zero_loop, known_C08_ndp_zero.
    pose proof (parse_opts_classified (len b) b 0%nat fuel Hw ltac:(lia) ltac:(lia) Hf) as H.
    destruct (zero_opt (len b) b 0); split; intros E; rewrite E in H;
      first [ reflexivity | exfalso; first [exact (not_safe_Panic H) | exact (not_safe_Fuel H) | congruence] ].
  Qed.

  (* the loop class really never terminates: every zero-length option of type 31 or of an
     unknown type, at any position the walk reaches directly (here: position 0) *)
  Theorem new_parse_options_loop_refuted : forall t rest,
    panics_type t = false ->
    forall fuel, new_parse_options lbl_ok fuel (of_bytes (t :: 0 :: rest)) = Fuel.
  Proof.
    intros t rest Ht fuel. unfold new_parse_options.
    apply parse_opts_spin; cbn; try lia; try reflexivity; try exact Ht.
    unfold wf, cap; cbn; lia.
  Qed.

  Theorem new_parse_options_panic_refuted : forall t rest,
    panics_type t = true ->
    forall fuel, (0 < fuel)%nat -> new_parse_options lbl_ok fuel (of_bytes (t :: 0 :: rest)) = Panic.
  Proof.
    intros t rest Ht fuel Hf. unfold new_parse_options.
    apply parse_opts_zero_panic; cbn; try lia; try reflexivity; try exact Ht.
    unfold wf, cap; cbn; lia.
  Qed.

  (* exported entry points *)
  Theorem ra_options_partial p : wf p ->
    known_C08_ndp_zero (mkSlice (skipn 16 (arr p)) (len p - 16)) = ZNone ->
    forall fuel, (len p < fuel)%nat -> safe (ra_options lbl_ok fuel p).
  Proof.
    intros Hw Hk fuel Hf. unfold ra_options.
    destruct (Nat.leb_spec (len p) 16); [sdone|].
    sstep. apply new_parse_options_partial; [slen|exact Hk|cbn [len]; lia].
  Qed.

  Theorem rs_options_partial p : wf p ->
    known_C08_ndp_zero (mkSlice (skipn 24 (arr p)) (len p - 24)) = ZNone ->
    forall fuel, (len p < fuel)%nat -> safe (rs_options lbl_ok fuel p).
  Proof.
    intros Hw Hk fuel Hf. unfold rs_options.
    destruct (Nat.leb_spec (len p) 24); [sdone|].
    sstep. apply new_parse_options_partial; [slen|exact Hk|cbn [len]; lia].
  Qed.
End WithOracle.

(* non-vacuity: a router advertisement option block with SLLA, MTU, prefix, RDNSS, DNSSL,
   route information lies outside the known class and is parsed to Ok *)
Definition sample_opts : bytes :=
  [1;1;0;1;2;3;4;5] ++ [5;1;0;0;0;0;5;220] ++
  [3;4;64;192;0;0;14;16;0;0;7;8;0;0;0;0;32;1;13;184;0;0;0;0;0;0;0;0;0;0;0;0] ++
  [25;3;0;0;0;0;1;0;32;1;13;184;0;0;0;0;0;0;0;0;0;0;0;1] ++
  [31;2;0;0;0;0;1;0;3;108;97;110;0;0;0;0] ++
  [24;2;64;0;0;0;1;0;32;1;13;184;0;0;0;1].

Example sample_opts_nonvacuous :
  bytes_ok sample_opts /\ known_C08_ndp_zero (of_bytes sample_opts) = ZNone /\
  new_parse_options (fun _ => true) 200 (of_bytes sample_opts) = Ok tt.
Proof.
  split; [apply bytes_okb_spec; vm_compute; reflexivity|]. split; vm_compute; reflexivity.
Qed.
