(* Proofs/PingGlue.v — the frame classifier of the PING cluster (Model/PingFrame.v: which
   identifier, if any, Session.Parse hands to echoNotify) IS the echo side output [f_echo] of the
   PARSE cluster's model of Session.Parse (Model/Parse.v), for every session configuration, every
   slice and every capacity.  So C19_frame_agree is about the same Parse that C01/C02/C16 are about. *)
From PV Require Import Base.Prelude Base.Slice Model.Parse Model.PingFrame Proofs.PingFrame.
Open Scope N_scope.

Definition echo_of (r : res frame) : option N := match r with Ok f => f_echo f | _ => None end.

Lemma echo_of_bind {A} (r : res A) (k : A -> res frame) :
  echo_of (bind r k) = match r with Ok a => echo_of (k a) | _ => None end.
Proof. destruct r; reflexivity. Qed.

(* ---------------------------------------------------------------- *)
(* PARSE side: the branches that never set f_echo *)

Lemma echo_udp s f : f_echo f = None -> echo_of (parse_udp s f) = None.
Proof.
  intros H. unfold parse_udp. rewrite !echo_of_bind.
  destruct (payload_view s _) as [p| | |]; try reflexivity. rewrite echo_of_bind.
  destruct (udp_is_valid p); try reflexivity. rewrite echo_of_bind.
  destruct (src_port p); try reflexivity. rewrite echo_of_bind.
  destruct (dst_port p); try reflexivity.
  destruct (udp_class _ _); cbn; exact H.
Qed.

Lemma echo_tcp fx s f : f_echo f = None -> echo_of (parse_tcp fx s f) = None.
Proof.
  intros H. unfold parse_tcp. rewrite !echo_of_bind.
  destruct (payload_view s _) as [p| | |]; try reflexivity. rewrite echo_of_bind.
  destruct (tcp_is_valid fx p); try reflexivity. rewrite echo_of_bind.
  destruct (src_port p); try reflexivity. rewrite echo_of_bind.
  destruct (dst_port p); try reflexivity. cbn. exact H.
Qed.

Lemma echo_arp c s f : echo_of (parse_arp c s f) = None.
Proof.
  unfold parse_arp. rewrite echo_of_bind.
  destruct (payload_view s _) as [p| | |]; try reflexivity. rewrite echo_of_bind.
  match goal with |- match ?r with _ => _ end = _ => destruct r as [bad| | |] end; try reflexivity.
  destruct bad; [reflexivity|]. rewrite echo_of_bind.
  destruct (bytes_at p 14 18); try reflexivity. rewrite echo_of_bind.
  match goal with |- match ?r with _ => _ end = _ => destruct r end; reflexivity.
Qed.

Lemma echo_leaf s f id : f_echo f = None -> echo_of (parse_leaf s f id) = None.
Proof.
  intros H. unfold parse_leaf. rewrite echo_of_bind. destruct (ether_header_len s); try reflexivity. cbn. exact H.
Qed.

(* ---------------------------------------------------------------- *)
(* PARSE side: the ICMP cases *)

Lemma payload_view_at s f : (0 < f_offP f)%nat -> (f_offP f <= len s)%nat ->
  payload_view s f = Ok (mkSlice (skipn (f_offP f) (arr s)) (len s - f_offP f)).
Proof.
  intros H0 H1. unfold payload_view, frame_payload, acc_at.
  destruct (Nat.eqb_spec (f_offP f) 0); [lia|]. rewrite slfrom_ok by exact H1. reflexivity.
Qed.

Lemma echo_icmp s f reply id : wf s -> f_echo f = None -> (0 < f_offP f)%nat -> (f_offP f <= len s)%nat ->
  echo_of (parse_icmp s f reply id) =
    if Nat.ltb (len s - f_offP f) 8 then None
    else if (nth (f_offP f) (arr s) 0 =? reply) && echo_gate s f id
         then Some (be16 (nth (f_offP f + 4) (arr s) 0) (nth (f_offP f + 5) (arr s) 0))
         else None.
Proof.
  intros Hwf He H0 H1. unfold parse_icmp. rewrite (payload_view_at s f H0 H1). cbn [bind].
  unfold icmp_is_valid. cbn [len].
  destruct (Nat.ltb_spec (len s - f_offP f) 8) as [L|L].
  - destruct (Nat.leb_spec 8 (len s - f_offP f)); [lia|]. reflexivity.
  - destruct (Nat.leb_spec 8 (len s - f_offP f)); [|lia]. cbn [bind].
    unfold icmp_type. rewrite idx_ok by (cbn [len]; lia). cbn [bind arr].
    rewrite nth_skipn. rewrite Nat.add_0_r.
    destruct ((nth (f_offP f) (arr s) 0 =? reply) && echo_gate s f id).
    + cbn [bind]. unfold echo_id. unfold wf, cap in Hwf.
      rewrite be16_at_ok by (unfold cap; cbn [arr]; rewrite skipn_length; lia). cbn [bind arr].
      rewrite !nth_skipn. cbn [echo_of set_id set_echo f_echo].
      replace (f_offP f + (4 + 1))%nat with (f_offP f + 5)%nat by lia. reflexivity.
    + cbn [bind echo_of set_id f_echo]. exact He.
Qed.

Lemma echo_proto fx s f proto : wf s -> f_echo f = None -> (0 < f_offP f)%nat -> (f_offP f <= len s)%nat ->
  echo_of (parse_proto fx s f proto) =
    if proto =? 1 then echo_of (parse_icmp s f 0 PayloadICMP4)
    else if proto =? 58 then echo_of (parse_icmp s f 129 PayloadICMP6)
    else None.
Proof.
  intros Hwf He H0 H1. unfold parse_proto, ipproto_rows. cbn [lookup_row].
  destruct (proto =? 17) eqn:E17.
  { apply N.eqb_eq in E17. subst. cbn. apply echo_udp. exact He. }
  destruct (proto =? 6) eqn:E6.
  { apply N.eqb_eq in E6. subst. cbn. apply echo_tcp. exact He. }
  destruct (proto =? 1) eqn:E1; [reflexivity|].
  destruct (proto =? 58) eqn:E58; [reflexivity|].
  destruct (proto =? 2); cbn; [exact He|exact He].
Qed.

(* ---------------------------------------------------------------- *)
(* the two models, side by side *)

Lemma nth0_firstn_skipn (l : bytes) k n : (0 < n)%nat -> nth 0 (firstn n (skipn k l)) 0 = nth k l 0.
Proof. intros H. rewrite nth_firstn by exact H. rewrite nth_skipn, Nat.add_0_r. reflexivity. Qed.

Lemma glue_ip4 c s f : wf s -> fx_ip4 (c_fx c) = true -> (14 <= len s)%nat ->
  f_offP f = 14%nat -> f_echo f = None ->
  (ip4 <- slfrom s 14;;
   (if (len ip4 <? 20)%nat
    then Ok None
    else
     b0 <- idx ip4 0;;
     tl <- be16_at ip4 2;;
     (if
       (N.to_nat (N.shiftl (N.land b0 15) 2) <? 20)%nat
       || (len ip4 <? N.to_nat (N.shiftl (N.land b0 15) 2))%nat
       || (N.to_nat tl <? N.to_nat (N.shiftl (N.land b0 15) 2))%nat
       || (len ip4 <? N.to_nat tl)%nat
      then Ok None
      else
       proto <- idx ip4 9;;
       icmp <- slfrom s (14 + N.to_nat (N.shiftl (N.land b0 15) 2));;
       icmp_notify proto true
         ((8 <=? N.to_nat tl - N.to_nat (N.shiftl (N.land b0 15) 2))%nat &&
          (N.shiftr b0 4 =? 4)) icmp)))%res
  = Ok (echo_of (parse_ip4 c s f)).
Proof.
  intros Hwf F4 L14 HP He. pose proof Hwf as Hcap. unfold wf in Hcap.
  rewrite slfrom_ok by lia. cbn [bind len].
  unfold parse_ip4.
  rewrite payload_view_at by (cbn [f_offP set_id]; lia). cbn [f_offP set_id]. rewrite HP. cbn [bind].
  unfold ip4_is_valid, ip4_ihl, ip4_totallen. rewrite F4. cbn [len].
  destruct (Nat.ltb_spec (len s - 14) 20) as [L20|L20].
  { destruct (Nat.leb_spec 20 (len s - 14)); [lia|]. reflexivity. }
  destruct (Nat.leb_spec 20 (len s - 14)); [|lia].
  rewrite !idx_ok by (cbn [len]; lia). cbn [bind arr].
  rewrite !be16_at_ok by (unfold cap; cbn [arr]; rewrite skipn_length; unfold cap in Hcap; lia). cbn [bind arr].
  rewrite !nth_skipn.
  change (14 + 0)%nat with 14%nat. change (14 + 2)%nat with 16%nat. change (14 + (2 + 1))%nat with 17%nat.
  change (14 + 9)%nat with 23%nat.
  set (b0 := nth 14 (arr s) 0). set (tl := be16 (nth 16 (arr s) 0) (nth 17 (arr s) 0)).
  set (ihl := N.to_nat (N.shiftl (N.land b0 15) 2)).
  destruct (Nat.ltb_spec ihl 20) as [A|A]; cbn [orb].
  { destruct (Nat.leb_spec 20 ihl); [lia|]. reflexivity. }
  destruct (Nat.leb_spec 20 ihl); [|lia]. cbn [andb].
  destruct (Nat.ltb_spec (len s - 14) ihl) as [B|B]; cbn [orb].
  { destruct (Nat.leb_spec ihl (len s - 14)); [lia|]. reflexivity. }
  destruct (Nat.leb_spec ihl (len s - 14)); [|lia]. cbn [bind].
  destruct (Nat.ltb_spec (N.to_nat tl) ihl) as [C|C]; cbn [orb].
  { destruct (Nat.leb_spec ihl (N.to_nat tl)); [lia|]. reflexivity. }
  destruct (Nat.leb_spec ihl (N.to_nat tl)); [|lia]. cbn [andb].
  destruct (Nat.ltb_spec (len s - 14) (N.to_nat tl)) as [D|D].
  { destruct (Nat.leb_spec (N.to_nat tl) (len s - 14)); [lia|]. reflexivity. }
  destruct (Nat.leb_spec (N.to_nat tl) (len s - 14)); [|lia]. cbn [bind].
  unfold ip4_protocol, ip4_src, ip4_dst, bytes_at.
  rewrite idx_ok by (cbn [len]; lia). cbn [bind arr]. rewrite nth_skipn. change (14 + 9)%nat with 23%nat.
  rewrite !sl_ok by (unfold cap; cbn [arr]; rewrite ?skipn_length; unfold cap in Hcap; lia). cbn [bind].
  rewrite slfrom_ok by lia. cbn [bind].
  match goal with |- _ = Ok (echo_of (parse_proto _ _ ?fr _)) => set (f1 := fr) end.
  assert (Q1 : f_echo f1 = None) by reflexivity.
  assert (Q2 : f_offP f1 = (14 + ihl)%nat) by (unfold f1; cbn [f_offP set_id]; rewrite ?HP; reflexivity).
  assert (Q3 : f_off4 f1 = 14%nat) by (unfold f1; cbn [f_off4 f_offP set_id]; rewrite ?HP; reflexivity).
  assert (Q4 : f_off6 f1 = 0%nat) by reflexivity.
  rewrite echo_proto by (auto; rewrite Q2; lia).
  rewrite !echo_icmp by (auto; rewrite Q2; lia). rewrite Q2.
  unfold icmp_notify, IPPROTO_ICMP, IPPROTO_ICMPV6, ICMP4TypeEchoReply, ICMP6TypeEchoReply. cbn [len arr].
  unfold echo_gate. rewrite Q3, Q4. fold b0.
  change (PayloadICMP4 =? PayloadICMP4) with true. change (PayloadICMP6 =? PayloadICMP4) with false. cbv iota.
  change (14 + 2)%nat with 16%nat. change (14 + 3)%nat with 17%nat. fold tl. fold ihl.
  change (Nat.eqb 14 0) with false. change (Nat.eqb 0 0) with true. cbn [negb andb].
  rewrite shr4.
  destruct (nth 23 (arr s) 0 =? 1) eqn:P1.
  - cbn [orb Bool.eqb]. destruct (Nat.ltb_spec (len s - (14 + ihl)) 8); [reflexivity|].
    rewrite idx_ok by (cbn [len]; lia). cbn [bind arr]. rewrite nth_skipn, Nat.add_0_r. rewrite andb_true_r.
    destruct ((nth (14 + ihl) (arr s) 0 =? 0) && ((8 <=? N.to_nat tl - ihl)%nat && (b0 / 16 =? 4))); [|reflexivity].
    rewrite be16_at_ok by (unfold cap; cbn [arr]; rewrite skipn_length; unfold cap in Hcap; lia). cbn [bind arr].
    rewrite !nth_skipn. replace (14 + ihl + (4 + 1))%nat with (14 + ihl + 5)%nat by lia. reflexivity.
  - cbn [orb]. destruct (nth 23 (arr s) 0 =? 58) eqn:P58; [|reflexivity].
    rewrite andb_false_r.
    destruct (Nat.ltb_spec (len s - (14 + ihl)) 8); [reflexivity|].
    rewrite idx_ok by (cbn [len]; lia). cbn [bind arr Bool.eqb]. rewrite andb_false_r. reflexivity.
Qed.

Lemma glue_ip6 c s f : wf s -> fx_ip6 (c_fx c) = true -> (14 <= len s)%nat ->
  f_offP f = 14%nat -> f_echo f = None ->
  (ip6 <- slfrom s 14;;
   (if (len ip6 <? 40)%nat
    then Ok None
    else
     b0 <- idx ip6 0;;
     pl <- be16_at ip6 4;;
     (if (len ip6 <? N.to_nat pl + 40)%nat
      then Ok None
      else
       proto <- idx ip6 6;;
       icmp <- slfrom s 54;;
       icmp_notify proto false ((8 <=? N.to_nat pl)%nat && (N.shiftr b0 4 =? 6)) icmp)))%res
  = Ok (echo_of (parse_ip6 c s f)).
Proof.
  intros Hwf F6 L14 HP He. pose proof Hwf as Hcap. unfold wf in Hcap.
  rewrite slfrom_ok by lia. cbn [bind len].
  unfold parse_ip6.
  rewrite payload_view_at by (cbn [f_offP set_id]; lia). cbn [f_offP set_id]. rewrite HP. cbn [bind].
  unfold ip6_is_valid. rewrite F6. cbn [len].
  destruct (Nat.ltb_spec (len s - 14) 40) as [L40|L40].
  { destruct (Nat.leb_spec 40 (len s - 14)); [lia|]. reflexivity. }
  destruct (Nat.leb_spec 40 (len s - 14)); [|lia].
  rewrite !idx_ok by (cbn [len]; lia). cbn [bind arr].
  rewrite !be16_at_ok by (unfold cap; cbn [arr]; rewrite skipn_length; unfold cap in Hcap; lia). cbn [bind arr].
  rewrite !nth_skipn.
  change (14 + 0)%nat with 14%nat. change (14 + 4)%nat with 18%nat. change (14 + (4 + 1))%nat with 19%nat.
  set (b0 := nth 14 (arr s) 0). set (pl := be16 (nth 18 (arr s) 0) (nth 19 (arr s) 0)).
  destruct (Nat.ltb_spec (len s - 14) (N.to_nat pl + 40)) as [A|A].
  { destruct (Nat.leb_spec (N.to_nat pl + 40) (len s - 14)); [lia|]. reflexivity. }
  destruct (Nat.leb_spec (N.to_nat pl + 40) (len s - 14)); [|lia]. cbn [bind].
  unfold ip6_next_header, ip6_src, ip6_dst, bytes_at.
  rewrite idx_ok by (cbn [len]; lia). cbn [bind arr]. rewrite nth_skipn. change (14 + 6)%nat with 20%nat.
  rewrite !sl_ok by (unfold cap; cbn [arr]; rewrite ?skipn_length; unfold cap in Hcap; lia). cbn [bind].
  rewrite slfrom_ok by lia. cbn [bind].
  match goal with |- _ = Ok (echo_of (parse_proto _ _ ?fr _)) => set (f1 := fr) end.
  assert (Q1 : f_echo f1 = None) by reflexivity.
  assert (Q2 : f_offP f1 = 54%nat) by (unfold f1; cbn [f_offP set_id]; rewrite ?HP; reflexivity).
  assert (Q3 : f_off6 f1 = 14%nat) by (unfold f1; cbn [f_off6 f_offP set_id]; rewrite ?HP; reflexivity).
  assert (Q4 : f_off4 f1 = 0%nat) by reflexivity.
  rewrite echo_proto by (auto; rewrite Q2; lia).
  rewrite !echo_icmp by (auto; rewrite Q2; lia). rewrite Q2.
  unfold icmp_notify, IPPROTO_ICMP, IPPROTO_ICMPV6, ICMP4TypeEchoReply, ICMP6TypeEchoReply. cbn [len arr].
  unfold echo_gate. rewrite Q3, Q4. fold b0.
  change (PayloadICMP4 =? PayloadICMP4) with true. change (PayloadICMP6 =? PayloadICMP4) with false. cbv iota.
  change (14 + 4)%nat with 18%nat. change (14 + 5)%nat with 19%nat. fold pl.
  change (Nat.eqb 14 0) with false. change (Nat.eqb 0 0) with true. cbn [negb andb].
  rewrite shr4.
  destruct (nth 20 (arr s) 0 =? 1) eqn:P1.
  - cbn [orb Bool.eqb]. destruct (Nat.ltb_spec (len s - 54) 8); [reflexivity|].
    rewrite idx_ok by (cbn [len]; lia). cbn [bind arr]. rewrite !andb_false_r. reflexivity.
  - cbn [orb]. destruct (nth 20 (arr s) 0 =? 58) eqn:P58; [|reflexivity].
    cbn [Bool.eqb].
    destruct (Nat.ltb_spec (len s - 54) 8); [reflexivity|].
    rewrite idx_ok by (cbn [len]; lia). cbn [bind arr]. rewrite nth_skipn, Nat.add_0_r. rewrite ?andb_true_r.
    destruct ((nth 54 (arr s) 0 =? 129) && ((8 <=? N.to_nat pl)%nat && (b0 / 16 =? 6))); [|reflexivity].
    rewrite be16_at_ok by (unfold cap; cbn [arr]; rewrite skipn_length; unfold cap in Hcap; lia). cbn [bind arr].
    rewrite !nth_skipn. reflexivity.
Qed.

Theorem glue c s : wf s -> fx_ip4 (c_fx c) = true -> fx_ip6 (c_fx c) = true ->
  parse_notify_s s = Ok (echo_of (parse c s)).
Proof.
  intros Hwf F4 F6. pose proof Hwf as Hcap. unfold wf in Hcap.
  unfold parse_notify_s, parse.
  destruct (Nat.ltb_spec (len s) 14) as [L14|L14].
  { unfold ether_is_valid. destruct (Nat.leb_spec 14 (len s)); [lia|]. reflexivity. }
  unfold ether_is_valid. destruct (Nat.leb_spec 14 (len s)); [|lia]. cbn [bind].
  unfold ether_src, ether_dst, bytes_at. rewrite !sl_ok by lia. cbn [bind].
  unfold ether_header_len, ether_type. rewrite !be16_at_ok by lia. cbn [bind].
  rewrite idx_ok by lia. cbn [bind].
  unfold is_unicast_mac, view. cbn [arr len]. rewrite nth0_firstn_skipn by lia.
  change (12 + 1)%nat with 13%nat.
  set (et := be16 (nth 12 (arr s) 0) (nth 13 (arr s) 0)).
  unfold ETH_P_IP, ETH_P_IPV6.
  destruct (N.land (nth 6 (arr s) 0) 1 =? 0) eqn:Euni; cbn [negb].
  2:{ (* source MAC not unicast *)
      destruct (Nat.ltb (len s) _); reflexivity. }
  destruct (et <? 1536) eqn:E1536.
  { destruct (Nat.ltb (len s) _); reflexivity. }
  destruct (et =? 2048) eqn:E4.
  - (* IPv4 *)
    cbn [orb]. destruct (Nat.ltb_spec (len s) 14); [lia|].
    unfold ethertype_rows. cbn [lookup_row]. rewrite E4. cbn [N.eqb]. change (PayloadIP4 =? PayloadIP4) with true. cbv iota.
    apply glue_ip4; auto.
  - destruct (et =? 34525) eqn:E6.
    + (* IPv6 *)
      cbn [orb]. destruct (Nat.ltb_spec (len s) 14); [lia|].
      unfold ethertype_rows. cbn [lookup_row]. rewrite E4, E6.
      change (PayloadIP6 =? PayloadIP4) with false. change (PayloadIP6 =? PayloadIP6) with true. cbv iota.
      apply glue_ip6; auto.
    + (* every other EtherType: no echo on either side *)
      f_equal. symmetry.
      destruct (Nat.ltb (len s) _); [reflexivity|].
      unfold ethertype_rows. cbn [lookup_row]. rewrite E4, E6.
      repeat match goal with
             | |- context [if et =? ?k then _ else _] => destruct (et =? k)
             end;
        cbn; first [apply echo_arp | apply echo_leaf; reflexivity | reflexivity].
Qed.

(* for the validators /repo has now (Model/ParseFixes.v), on plain byte strings, and against the RFC reading *)
From PV Require Import Model.ParseFixes Spec.PingRFC.

Corollary glue_bytes c f : fx_ip4 (c_fx c) = true -> fx_ip6 (c_fx c) = true ->
  parse_notify f = Ok (echo_of (parse c (of_bytes f))).
Proof. intros F4 F6. unfold parse_notify. apply glue; auto. unfold wf, cap, of_bytes. cbn. lia. Qed.

Corollary parse_echo_is_rfc c f : fx_ip4 (c_fx c) = true -> fx_ip6 (c_fx c) = true ->
  echo_of (parse c (of_bytes f)) = rfc_reply_id f.
Proof.
  intros F4 F6. pose proof (glue_bytes c f F4 F6) as G. rewrite (frame_agree f) in G. inversion G. reflexivity.
Qed.

Definition ex_cfg : cfg := mkCfg [0; 85; 85; 85; 85; 85] [0; 102; 102; 102; 102; 102] [192; 168; 0; 0] 24 current_fixes.

Example glue_nonvacuous :
  wf (of_bytes_cap w_reply6 [170; 170; 170]) /\
  echo_of (parse ex_cfg (of_bytes_cap w_reply6 [170; 170; 170])) = Some 7 /\
  parse_notify_s (of_bytes_cap w_reply6 [170; 170; 170]) = Ok (Some 7) /\
  echo_of (parse ex_cfg (of_bytes w_request4)) = None /\
  echo_of (parse ex_cfg (of_bytes w_family)) = None.
Proof. split; [unfold wf, cap; cbn; lia|]. vm_compute. repeat split. Qed.
