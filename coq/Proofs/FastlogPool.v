(* Proofs/FastlogPool.v — C20_line_exclusive: in every history of Msg / appender / Write / ToString calls
   (failing writes included) no buffer is owned by two live lines nor both free and live, and therefore every
   live line holds exactly its own message followed by its own fields. *)
From Coq Require Import Permutation.
From PV Require Import Base.Prelude Model.Fastlog Model.FastlogOps Model.FastlogPool Spec.TextSpec
  Proofs.Fastlog Proofs.FastlogLine Proofs.FastlogNoFit.
Open Scope N_scope.

Definition ids (l : list lv) : list nat := map lv_id l.
Definition keys (l : list lv) : list nat := map lv_k l.

(* exclusive ownership *)
Definition pinv (s : pst) : Prop :=
  NoDup (free s ++ ids (live s)) /\ NoDup (keys (live s)) /\ Forall (fun i => (i < fresh s)%nat) (free s ++ ids (live s)).

Lemma find_split k l e : find_lv k l = Some e ->
  exists l1 l2, l = l1 ++ e :: l2 /\ remove_lv k l = l1 ++ l2 /\ lv_k e = k.
Proof.
  induction l as [|x r IH]; cbn [find_lv remove_lv]; [discriminate|].
  destruct (Nat.eqb_spec (lv_k x) k) as [E|E].
  - intros H. injection H as <-. exists [], r. auto.
  - intros H. destruct (IH H) as (l1 & l2 & -> & R & K). exists (x :: l1), l2. cbn [app]. rewrite R. auto.
Qed.

Lemma find_none_keys k l : find_lv k l = None -> ~ In k (keys l).
Proof.
  induction l as [|x r IH]; cbn [find_lv keys map]; [auto|].
  destruct (Nat.eqb_spec (lv_k x) k) as [E|E]; [discriminate|]. intros H [I|I]; [contradiction|]. exact (IH H I).
Qed.

Lemma perm_mid {A} (a : list A) x b : Permutation (a ++ x :: b) (x :: a ++ b).
Proof. symmetry. apply Permutation_middle. Qed.

Theorem pstep_inv s h : pinv s -> hop_ok s h = true -> pinv (pstep s h).
Proof.
  intros (N1 & N2 & F) OK. destruct h as [k m sg|k o|k f|k]; cbn [pstep hop_ok] in *.
  - destruct (find_lv k (live s)) eqn:FK; [discriminate|]. apply find_none_keys in FK.
    destruct (free s) as [|i r] eqn:FR; unfold pinv; simpl live; simpl free; simpl fresh; cbn [ids keys map app lv_id lv_k] in *.
    + repeat split.
      * constructor; [|exact N1]. intros I. rewrite Forall_forall in F. specialize (F _ I). cbn [lv_id] in F. lia.
      * constructor; assumption.
      * constructor; [lia|]. eapply Forall_impl; [|exact F]. cbn beta. intros; lia.
    + repeat split.
      * eapply Permutation_NoDup; [|exact N1]. apply Permutation_middle.
      * constructor; assumption.
      * eapply Permutation_Forall; [|exact F]. apply Permutation_middle.
  - destruct (find_lv k (live s)) as [e|] eqn:FK; [|discriminate].
    destruct (find_split _ _ _ FK) as (l1 & l2 & EL & ER & EK). unfold pinv; simpl live; simpl free; simpl fresh. rewrite ER.
    unfold ids, keys in *. rewrite EL in N1, N2, F. rewrite !map_app in *. cbn [map lv_id lv_k] in *. rewrite ?map_app. rewrite EK in *.
    repeat split.
    + eapply Permutation_NoDup; [|exact N1]. apply Permutation_app_head. apply perm_mid.
    + eapply Permutation_NoDup; [|exact N2]. apply perm_mid.
    + eapply Permutation_Forall; [|exact F]. apply Permutation_app_head. apply perm_mid.
  - destruct (find_lv k (live s)) as [e|] eqn:FK; [|discriminate].
    destruct (find_split _ _ _ FK) as (l1 & l2 & EL & ER & EK). unfold pinv; simpl live; simpl free; simpl fresh. rewrite ER.
    unfold ids, keys in *. rewrite EL in N1, N2, F. rewrite !map_app in *. cbn [map app] in *. rewrite ?map_app.
    repeat split.
    + eapply Permutation_NoDup; [|exact N1]. rewrite app_assoc. etransitivity; [apply perm_mid|]. rewrite <- app_assoc. reflexivity.
    + eapply NoDup_remove_1. exact N2.
    + eapply Permutation_Forall; [|exact F]. rewrite app_assoc. etransitivity; [apply perm_mid|]. rewrite <- app_assoc. reflexivity.
  - destruct (find_lv k (live s)) as [e|] eqn:FK; [|discriminate].
    destruct (find_split _ _ _ FK) as (l1 & l2 & EL & ER & EK). unfold pinv; simpl live; simpl free; simpl fresh. rewrite ER.
    unfold ids, keys in *. rewrite EL in N1, N2, F. rewrite !map_app in *. cbn [map app] in *. rewrite ?map_app.
    repeat split.
    + eapply Permutation_NoDup; [|exact N1]. rewrite app_assoc. etransitivity; [apply perm_mid|]. rewrite <- app_assoc. reflexivity.
    + eapply NoDup_remove_1. exact N2.
    + eapply Permutation_Forall; [|exact F]. rewrite app_assoc. etransitivity; [apply perm_mid|]. rewrite <- app_assoc. reflexivity.
Qed.

Lemma pinit_inv : pinv pinit.
Proof. repeat split; cbn; constructor. Qed.

Theorem run_inv hs : forall s, pinv s -> hist_ok s hs = true -> pinv (fold_left pstep hs s).
Proof.
  induction hs as [|h r IH]; intros s I OK; cbn [fold_left hist_ok] in *; [exact I|].
  apply andb_prop in OK. destruct OK as [O1 O2]. apply IH; [apply pstep_inv; assumption|exact O2].
Qed.

Lemma nodup_app_r {A} (a b : list A) : NoDup (a ++ b) -> NoDup b /\ (forall x, In x a -> ~ In x b).
Proof.
  induction a as [|y r IH]; cbn [app]; intros H; [split; [exact H|intros x []]|].
  inversion H as [|? ? NI ND]; subst. destruct (IH ND) as [Nb D]. split; [exact Nb|].
  intros x [->|I] Ib; [apply NI; apply in_or_app; right; exact Ib|exact (D x I Ib)].
Qed.

(* no buffer is owned by two live lines, and no live line's buffer is in the pool *)
Theorem line_exclusive hs : hist_ok pinit hs = true ->
  let s := prun hs in
  NoDup (ids (live s)) /\ (forall e, In e (live s) -> ~ In (lv_id e) (free s)).
Proof.
  intros OK s. destruct (run_inv hs pinit pinit_inv OK) as (N1 & _ & _). fold (prun hs) in N1. fold s in N1.
  destruct (nodup_app_r _ _ N1) as [Nb D]. split; [exact Nb|].
  intros e He I. apply (D _ I). unfold ids. apply in_map. exact He.
Qed.

(* ---------------------------------------------------------------- every live line holds its own fields *)

Definition own_ok (s : pst) : Prop :=
  (forall e, In e (live s) -> exists b0, List.length b0 = BUFSZ /\
      heap s (lv_id e) = (l0 <- msg_line b0 (lv_m e) (lv_s e) ;; run_ops l0 (lv_ops e))%res) /\
  (forall i l, heap s i = Ok l -> ins l).

Lemma bind_ok_r (r : res line) : (l <- r ;; Ok l)%res = r.
Proof. destruct r; reflexivity. Qed.
Lemma bind_assoc (r : res line) (f g : line -> res line) :
  (y <- (x <- r ;; f x) ;; g y)%res = (x <- r ;; y <- f x ;; g y)%res.
Proof. destruct r; reflexivity. Qed.
Lemma run_ops_snoc os : forall l o, run_ops l (os ++ [o]) = (l' <- run_ops l os ;; run_op l' o)%res.
Proof.
  induction os as [|x r IH]; intros l o; cbn [run_ops app bind]; [apply bind_ok_r|].
  destruct (run_op l x); cbn [bind]; auto.
Qed.

Lemma msg_line_ins b0 m sg l : List.length b0 = BUFSZ -> msg_line b0 m sg = Ok l -> ins l.
Proof.
  intros Hb E. unfold msg_line in E.
  assert (I0 : ins (mkLine (write_at b0 0 (module7 m)) 7)).
  { split; [|cbn [index]; unfold BUFSZ; lia]. unfold wf. cbn [buf]. rewrite write_at_length; [exact Hb|].
    rewrite Hb. unfold module7. rewrite !app_length, repeat_length, firstn_length. cbn [List.length]. unfold BUFSZ. lia. }
  destruct sg as [|y r]; [injection E as <-; exact I0|].
  assert (K : keeps (fun l => (l <- append_byte l 32 ;; l <- append_byte l 34 ;; l <- copy_in l (y :: r) ;; append_byte l 34)%res)).
  { repeat first [apply keeps_bind | apply keeps_byte | apply keeps_copy]. }
  exact (K _ _ I0 E).
Qed.

Lemma poison_ins p l : ins l -> (List.length p <= BUFSZ)%nat -> ins (poison p l).
Proof.
  intros [W H] Hp. split; [|cbn [poison index]; exact Hp]. unfold wf, poison in *. cbn [buf].
  rewrite write_at_length; [exact W|]. rewrite W. lia.
Qed.

Lemma upd_same h i v : upd h i v i = v.
Proof. unfold upd. rewrite Nat.eqb_refl. reflexivity. Qed.
Lemma upd_other h i v j : j <> i -> upd h i v j = h j.
Proof. intros H. unfold upd. destruct (Nat.eqb_spec j i); [contradiction|reflexivity]. Qed.

Lemma in_remove_lv k l e : In e (remove_lv k l) -> In e l.
Proof.
  induction l as [|x r IH]; cbn [remove_lv]; [auto|]. destruct (Nat.eqb (lv_k x) k); [intros; right; assumption|].
  intros [->|H]; [left; reflexivity|right; apply IH; exact H].
Qed.

(* a line other than the one found has another buffer *)
Lemma other_id s k e e' : pinv s -> find_lv k (live s) = Some e -> In e' (remove_lv k (live s)) -> lv_id e' <> lv_id e.
Proof.
  intros (N1 & _ & _) FK He'. destruct (find_split _ _ _ FK) as (l1 & l2 & EL & ER & EK).
  rewrite ER in He'. rewrite EL in N1. unfold ids in N1. rewrite map_app in N1. cbn [map] in N1.
  destruct (nodup_app_r _ _ N1) as [Nb _]. apply NoDup_remove_2 in Nb.
  intros E. apply Nb. rewrite <- E. rewrite <- map_app. apply in_map. exact He'.
Qed.

Theorem pstep_own s h : pinv s -> own_ok s -> hop_ok s h = true -> own_ok (pstep s h).
Proof.
  intros PI [OW HP] OK. pose proof PI as (N1 & N2 & F).
  destruct h as [k m sg|k o|k f|k]; cbn [pstep hop_ok] in *.
  - destruct (find_lv k (live s)) eqn:FK; [discriminate|].
    set (id := match free s with [] => fresh s | i :: _ => i end).
    assert (NI : forall e, In e (live s) -> lv_id e <> id).
    { intros e He E. unfold id in E. destruct (free s) as [|i r] eqn:FR.
      - rewrite Forall_forall in F. specialize (F (lv_id e)). cbn [app] in F.
        assert (In (lv_id e) (ids (live s))) by (unfold ids; apply in_map; exact He). specialize (F H). lia.
      - cbn [app] in N1. apply NoDup_cons_iff in N1. destruct N1 as [NIn _]. apply NIn. apply in_or_app. right. rewrite <- E. unfold ids. apply in_map. exact He. }
    set (b0 := match heap s id with Ok l => buf l | _ => repeat 0 BUFSZ end).
    assert (Lb : List.length b0 = BUFSZ).
    { unfold b0. destruct (heap s id) as [l| | |] eqn:Eh; try apply repeat_length. destruct (HP _ _ Eh) as [W _]. exact W. }
    assert (ST : pstep s (HMsg k m sg) = mkP (upd (heap s) id (msg_line b0 m sg)) (tl (free s)) (mkLv k id m sg [] :: live s)
                                             (match free s with [] => S (fresh s) | _ => fresh s end) (outs s)).
    { cbn [pstep]. unfold b0, id. destruct (free s); reflexivity. }
    cbn [pstep] in ST. rewrite ST. split; cbn [live heap].
    + intros e [<-|He]; cbn [lv_id lv_m lv_s lv_ops].
      * exists b0. split; [exact Lb|]. rewrite upd_same. cbn [run_ops]. symmetry. apply bind_ok_r.
      * rewrite upd_other by (apply NI; exact He). apply OW. exact He.
    + intros i l. destruct (Nat.eq_dec i id) as [->|D]; [rewrite upd_same; apply msg_line_ins; exact Lb|rewrite upd_other by exact D; apply HP].
  - destruct (find_lv k (live s)) as [e|] eqn:FK; [|discriminate]. split; cbn [live heap].
    + intros e' [<-|He']; cbn [lv_id lv_m lv_s lv_ops].
      * destruct (find_split _ _ _ FK) as (l1 & l2 & EL & _ & _).
        destruct (OW e) as (b0 & Lb & Eh); [rewrite EL; apply in_or_app; right; left; reflexivity|].
        exists b0. split; [exact Lb|]. rewrite upd_same, Eh, bind_assoc.
        destruct (msg_line b0 (lv_m e) (lv_s e)); cbn [bind]; try reflexivity. symmetry. apply run_ops_snoc.
      * rewrite upd_other by (eapply other_id; eassumption). apply OW. eapply in_remove_lv. exact He'.
    + intros i l. destruct (Nat.eq_dec i (lv_id e)) as [->|D]; [|rewrite upd_other by exact D; apply HP].
      rewrite upd_same. destruct (heap s (lv_id e)) as [l0| | |] eqn:Eh; cbn [bind]; try discriminate.
      intros E. eapply (run_op_keeps o); [eapply HP; exact Eh|exact E].
  - destruct (find_lv k (live s)) as [e|] eqn:FK; [|discriminate]. split; cbn [live heap].
    + intros e' He'. rewrite upd_other by (eapply other_id; eassumption). apply OW. eapply in_remove_lv. exact He'.
    + intros i l. destruct (Nat.eq_dec i (lv_id e)) as [->|D]; [|rewrite upd_other by exact D; apply HP].
      rewrite upd_same. destruct (heap s (lv_id e)) as [l0| | |] eqn:Eh; cbn [bind]; try discriminate.
      intros E. injection E as <-. apply poison_ins; [eapply HP; exact Eh|unfold POISON_W, BUFSZ; cbn [List.length]; lia].
  - destruct (find_lv k (live s)) as [e|] eqn:FK; [|discriminate]. split; cbn [live heap].
    + intros e' He'. rewrite upd_other by (eapply other_id; eassumption). apply OW. eapply in_remove_lv. exact He'.
    + intros i l. destruct (Nat.eq_dec i (lv_id e)) as [->|D]; [|rewrite upd_other by exact D; apply HP].
      rewrite upd_same. destruct (heap s (lv_id e)) as [l0| | |] eqn:Eh; cbn [bind]; try discriminate.
      intros E. injection E as <-. apply poison_ins; [eapply HP; exact Eh|unfold POISON_T, BUFSZ; cbn [List.length]; lia].
Qed.

Lemma pinit_own : own_ok pinit.
Proof.
  split; [intros e []|]. intros i l E. cbn in E. injection E as <-. split; [apply repeat_length|cbn; unfold BUFSZ; lia].
Qed.

Theorem run_own hs : forall s, pinv s -> own_ok s -> hist_ok s hs = true -> own_ok (fold_left pstep hs s).
Proof.
  induction hs as [|h r IH]; intros s I O OK; cbn [fold_left hist_ok] in *; [exact O|].
  apply andb_prop in OK. destruct OK as [O1 O2].
  apply IH; [apply pstep_inv; assumption|apply pstep_own; assumption|exact O2].
Qed.

(* in every history, whatever the other lines and the writers did, a live line is its own message followed by its
   own fields: the faithful clause of single lines (C20_msg, C20_line) applies to each of them *)
Theorem line_own hs : hist_ok pinit hs = true ->
  forall e, In e (live (prun hs)) ->
  exists b0, List.length b0 = BUFSZ /\
    heap (prun hs) (lv_id e) = (l0 <- msg_line b0 (lv_m e) (lv_s e) ;; run_ops l0 (lv_ops e))%res.
Proof. intros OK. exact (proj1 (run_own hs pinit pinit_inv pinit_own OK)). Qed.

(* three lines side by side, a failing write, then a new line that reuses the freed buffer *)
Definition ex_hist : list hop :=
  [HMsg 0 [97] [104]; HMsg 1 [98] []; HApp 0 (OUint [120] 7); HMsg 2 [99] []; HWrite 1 true; HApp 2 (OBool [121] true);
   HToString 0; HMsg 3 [100] [105]; HWrite 2 false; HApp 3 (OUint [122] 9); HMsg 4 [101] []].
Lemma line_exclusive_nonvacuous :
  hist_ok pinit ex_hist = true /\ List.length (live (prun ex_hist)) = 2%nat /\ List.length (free (prun ex_hist)) = 1%nat.
Proof. repeat split; vm_compute; reflexivity. Qed.
