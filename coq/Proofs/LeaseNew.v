(* Proofs/LeaseNew.v — Config.New: case analysis, totality, stability of the constructed subnets (C18). *)
From PV Require Import Base.Prelude Model.LeaseBase Model.Lease Model.LeaseKnown Proofs.Lease.
Open Scope N_scope.

(* ---------------------------------------------------------------- *)
(* netip facts *)

Lemma pow2_pos k : 0 < 2 ^ k.
Proof. apply N.neq_0_lt_0. apply N.pow_nonzero. discriminate. Qed.

Lemma maskw_div w b n : maskw w b n / 2 ^ (w - b) = n / 2 ^ (w - b).
Proof. unfold maskw. apply N.div_mul. apply N.pow_nonzero. discriminate. Qed.

Lemma maskw_idem w b n : maskw w b (maskw w b n) = maskw w b n.
Proof. unfold maskw at 1. rewrite maskw_div. reflexivity. Qed.

Lemma mask4_idem b n : mask4 b (mask4 b n) = mask4 b n.
Proof. apply maskw_idem. Qed.

Lemma contains_masked4 n b x : contains (P (A4 (mask4 b n)) b) x = contains (P (A4 n) b) x.
Proof. unfold contains, mask4; simpl. destruct x; auto. rewrite maskw_div. reflexivity. Qed.

Lemma contains4_is4 n b x : contains (P (A4 n) b) x = true -> exists m, x = A4 m.
Proof. unfold contains; simpl. destruct x; rewrite ?andb_false_r; try discriminate. eauto. Qed.

(* a prefix that contains something is valid *)
Lemma contains_pvalid p x : contains p x = true -> pvalid p = true.
Proof. unfold contains. intros H. apply andb_true_iff in H. tauto. Qed.

(* a coarser prefix with the same address contains whatever the finer one contains *)
Lemma contains_coarser n b1 b m :
  b <= b1 -> b1 <= 32 ->
  contains (P (A4 n) b1) (A4 m) = true -> contains (P (A4 n) b) (A4 m) = true.
Proof.
  unfold contains; simpl. intros Hb Hb1 H.
  apply andb_true_iff in H. destruct H as [_ H]. apply N.eqb_eq in H.
  apply andb_true_iff. split; [lia|]. apply N.eqb_eq.
  replace (32 - b) with ((32 - b1) + (b1 - b)) by lia.
  rewrite N.pow_add_r, <- !N.div_div by (apply N.pow_nonzero; discriminate).
  rewrite H. reflexivity.
Qed.

(* ---------------------------------------------------------------- *)
(* newSubnet *)

Lemma newSubnet_total c : newSubnet c <> Panic /\ newSubnet c <> Fuel.
Proof.
  unfold newSubnet. destruct (negb (pvalid (s_lan c)) || negb (is4 (paddr (s_lan c)))); [split; discriminate|].
  destruct (s_lan c) as [|[|n|v z] b]; try (split; discriminate).
  repeat match goal with |- context [if ?x then _ else _] => destruct x end; split; discriminate.
Qed.

(* what a successful newSubnet returns *)
Lemma newSubnet_ok c s : newSubnet c = Ok s ->
  exists n b, s_lan c = P (A4 n) b /\ b <= 32 /\
    s_lan (n_cfg s) = P (A4 (mask4 b n)) b /\
    s_gw (n_cfg s) = s_gw c /\ s_dhcp (n_cfg s) = s_dhcp c /\ s_dns (n_cfg s) = s_dns c /\ s_stage (n_cfg s) = s_stage c /\
    n_bcast s = A4 (mask4 b n + 2 ^ (32 - b) - 1) /\
    s_first (n_cfg s) = (if negb (is4 (s_first c)) || is_unspec (s_first c) || negb (contains (P (A4 (mask4 b n)) b) (s_first c))
                         then anext (A4 (mask4 b n)) else s_first c) /\
    s_dur (n_cfg s) = (if (s_dur c =? 0)%Z then four_hours else s_dur c) /\
    ((s_stage c =? 1) || (s_stage c =? 3)) = true /\
    contains (s_lan c) (s_gw c) = true /\
    contains (s_lan c) (s_first (n_cfg s)) = true /\
    is_unspec (s_dns c) = false.
Proof.
  unfold newSubnet. destruct (pvalid (s_lan c)) eqn:Ev; simpl; [|discriminate].
  destruct (s_lan c) as [|[|n|v z] b] eqn:El; simpl; try discriminate.
  simpl in Ev.
  destruct ((s_stage c =? 1) || (s_stage c =? 3)) eqn:Est; simpl; [|discriminate].
  destruct (contains (P (A4 n) b) (s_gw c)) eqn:Egw; simpl; [|discriminate].
  match goal with |- context [contains (P (A4 n) b) ?f] => set (first := f) end.
  destruct (contains (P (A4 n) b) first) eqn:Ef; simpl; [|discriminate].
  destruct (is_unspec (s_dns c)) eqn:Edns; simpl; [discriminate|].
  intros H. inversion H; subst; clear H. simpl.
  exists n, b. repeat split; auto. lia.
Qed.

Lemma newSubnet_lan c s : newSubnet c = Ok s -> s_lan (n_cfg s) = pmasked (s_lan c) /\ is4 (paddr (s_lan c)) = true.
Proof.
  intros H. destruct (newSubnet_ok _ _ H) as (n & b & El & _ & Elan & _). rewrite El, Elan. simpl. auto.
Qed.

(* newSubnet is idempotent: re-validating a validated configuration changes nothing *)
Lemma newSubnet_idem c s : newSubnet c = Ok s -> newSubnet (n_cfg s) = Ok s.
Proof.
  intros H. destruct (newSubnet_ok _ _ H) as (n & b & El & Hb & Elan & Egw & Edh & Edns & Est & Ebc & Efi & Edu & Cst & Cgw & Cfi & Cdns).
  destruct s as [[lan gw dh dns fi du st] bc]. simpl in *. subst lan gw dh dns st bc.
  rewrite El in Cgw, Cfi.
  unfold newSubnet; simpl.
  assert (Hb' : (b <=? 32) = true) by lia. rewrite Hb'. simpl.
  rewrite !mask4_idem.
  rewrite Cst. simpl.
  rewrite contains_masked4, Cgw. simpl.
  (* first ip is kept *)
  assert (Hfi_keep : (negb (is4 fi) || is_unspec fi || negb (contains (P (A4 (mask4 b n)) b) fi)) = false).
  { rewrite contains_masked4, Cfi. destruct (contains4_is4 _ _ _ Cfi) as [m Em]. rewrite Em. simpl.
    rewrite orb_false_r.
    destruct (negb (is4 (s_first c)) || is_unspec (s_first c) || negb (contains (P (A4 (mask4 b n)) b) (s_first c))) eqn:Ec.
    - rewrite Em in Efi. simpl in Efi. destruct (mask4 b n + 1 <? 2 ^ 32); [|discriminate]. inversion Efi. lia.
    - apply orb_false_iff in Ec. destruct Ec as [Ec _]. apply orb_false_iff in Ec. destruct Ec as [_ Ec].
      rewrite <- Efi, Em in Ec. exact Ec. }
  rewrite Hfi_keep. rewrite contains_masked4, Cfi. simpl. rewrite Cdns.
  assert (Hdu : (if (du =? 0)%Z then four_hours else du) = du).
  { rewrite Edu. destruct (s_dur c =? 0)%Z eqn:E0.
    - reflexivity.
    - rewrite E0. reflexivity. }
  rewrite Hdu. reflexivity.
Qed.

(* ---------------------------------------------------------------- *)
(* loadByteArray neither panics nor loops *)

Lemma opt_subnet_total o : opt_subnet o <> Panic /\ opt_subnet o <> Fuel.
Proof.
  destruct o as [c|]; simpl; [|split; discriminate].
  destruct (newSubnet_total c). destruct (newSubnet c); simpl; split; congruence.
Qed.

Lemma load_total cap d : load cap d <> Panic /\ load cap d <> Fuel.
Proof.
  unfold load.
  destruct (opt_subnet_total (d_net1 d)). destruct (opt_subnet_total (d_net2 d)).
  destruct (opt_subnet (d_net1 d)) as [o1|e1| |]; simpl; try congruence; try (split; discriminate).
  destruct (opt_subnet (d_net2 d)) as [o2|e2| |]; simpl; try congruence; try (split; discriminate).
  destruct o1, o2; split; discriminate.
Qed.

Lemma loadConfig_total cap i : loadConfig cap i <> Panic /\ loadConfig cap i <> Fuel.
Proof.
  destruct i as [| |st d]; simpl; try (split; discriminate).
  destruct (load_total cap d). destruct st; try (split; discriminate);
    destruct (load cap d) as [[[a b] t]| | |]; simpl; split; congruence.
Qed.

(* ---------------------------------------------------------------- *)
(* Config.New: the four ways it ends *)

Definition cfg_ok (c : cfg) : bool :=
  pvalid (c_netfilter c) && (contains (c_home c) (paddr (c_netfilter c)) && negb (pbits (c_netfilter c) <? pbits (c_home c))).

Lemma new_cases c cap i :
  (cfg_ok c = false /\ new c cap i = Err EInvalidIP)
  \/ (cfg_ok c = true /\ loadConfig cap i = Panic /\ new c cap i = Panic)
  \/ (cfg_ok c = true /\ loadConfig cap i <> Panic /\ new c cap i = reset c)
  \/ (cfg_ok c = true /\ exists n1 n2 t,
        loadConfig cap i = Ok (Some n1, Some n2, Some t)
        /\ configChanged (homeSubnet c) (n_cfg n1) = false
        /\ configChanged (netfilterSubnet c) (n_cfg n2) = false
        /\ new c cap i = Ok {| d_n1 := n1; d_n2 := n2; d_table := t |}).
Proof.
  unfold new, cfg_ok.
  destruct (pvalid (c_netfilter c)); simpl; [|left; auto].
  destruct (contains (c_home c) (paddr (c_netfilter c))); simpl; [|left; auto].
  destruct (pbits (c_netfilter c) <? pbits (c_home c)); simpl; [left; auto|].
  right.
  assert (Hnf : loadConfig cap i <> Fuel) by apply loadConfig_total.
  destruct (loadConfig cap i) as [[[o1 o2] ot]|e| |] eqn:E; try congruence.
  - destruct o1 as [n1|]; [|right; left; repeat split; auto; discriminate].
    destruct o2 as [n2|]; [|right; left; repeat split; auto; discriminate].
    destruct ot as [t|]; [|right; left; repeat split; auto; discriminate].
    destruct (configChanged (homeSubnet c) (n_cfg n1)) eqn:C1; simpl;
      [right; left; repeat split; auto; discriminate|].
    destruct (configChanged (netfilterSubnet c) (n_cfg n2)) eqn:C2; simpl;
      [right; left; repeat split; auto; discriminate|].
    right; right. split; auto. exists n1, n2, t. auto.
  - right; left. repeat split; auto; discriminate.
  - left. auto.
Qed.

(* the reset path neither panics nor loops *)
Lemma reset_total c : reset c <> Panic /\ reset c <> Fuel.
Proof.
  unfold reset.
  destruct (newSubnet_total (homeSubnet c)). destruct (newSubnet_total (netfilterSubnet c)).
  destruct (newSubnet (homeSubnet c)); simpl; try congruence; try (split; discriminate).
  destruct (newSubnet (netfilterSubnet c)); simpl; try congruence; split; discriminate.
Qed.

(* C18_new_total: the constructor neither panics nor loops, whatever the file *)
Lemma new_total c cap i : new c cap i <> Panic /\ new c cap i <> Fuel.
Proof.
  destruct (new_cases c cap i) as [[_ ->]|[(Hok & HP & _)|[(Hok & _ & ->)|(Hok & n1 & n2 & t & _ & _ & _ & ->)]]].
  - split; discriminate.
  - exfalso. destruct (loadConfig_total cap i). contradiction.
  - apply reset_total.
  - split; discriminate.
Qed.

(* witnesses *)
Definition ex_cfg : cfg :=
  {| c_home := P (A4 3232235520) 24; c_host := A4 3232235649; c_router := A4 3232235531;
     c_netfilter := P (A4 3232235649) 25; c_dns := A4 134744072 |}.
Definition ex_doc_nonet1 : doc := {| d_net1 := None; d_net2 := Some ex_net2; d_leases := [ex_rec] |}.
Definition ex_doc_v6 : doc :=
  {| d_net1 := Some {| s_lan := P (A6 (338288524927261089654018896841347694592) []) 64; s_gw := s_gw ex_net1; s_dhcp := s_dhcp ex_net1;
                       s_dns := s_dns ex_net1; s_first := s_first ex_net1; s_dur := s_dur ex_net1; s_stage := 1 |};
     d_net2 := Some ex_net2; d_leases := [ex_rec] |}.

(* the inputs that made the unrepaired constructor panic now reset to an empty table *)
Lemma new_former_panics_reset :
  (exists s, new ex_cfg (fun _ => true) (Doc SumOk ex_doc_nonet1) = Ok s /\ d_table s = [])
  /\ (exists s, new ex_cfg (fun _ => true) (Doc SumAbsent ex_doc_v6) = Ok s /\ d_table s = []).
Proof. split; eexists; split; vm_compute; reflexivity. Qed.

Example new_total_nonvacuous :
  exists s, new ex_cfg (fun _ => false) (Doc SumOk ex_doc) = Ok s /\ d_table s <> [].
Proof. vm_compute. eexists. split; [reflexivity|discriminate]. Qed.
