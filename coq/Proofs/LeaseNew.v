(* Proofs/LeaseNew.v — Config.New: case analysis, totality, stability of the constructed subnets (C18). *)
From PV Require Import Base.Prelude Model.LeaseBase Model.Lease Model.LeaseKnown Proofs.Lease.
Open Scope N_scope.

(* ---------------------------------------------------------------- *)
(* netip facts *)

Lemma pow2_pos k : 0 < 2 ^ k.
Proof. apply N.neq_0_lt_0. apply N.pow_nonzero. discriminate. Qed.

Lemma maskw_div w b n : maskw w b n / 2 ^ (w - b) = n / 2 ^ (w - b).
Proof. unfold maskw. apply N.div_mul. apply N.pow_nonzero. discriminate. Qed.

Lemma maskw_idem w b n : maskw w b (maskw w b n) = maskw w b n.
Proof. unfold maskw at 1. rewrite maskw_div. reflexivity. Qed.

Lemma mask4_idem b n : mask4 b (mask4 b n) = mask4 b n.
Proof. apply maskw_idem. Qed.

Lemma contains_masked4 n b x : contains (P (A4 (mask4 b n)) b) x = contains (P (A4 n) b) x.
Proof. unfold contains, mask4; simpl. destruct x; auto. rewrite maskw_div. reflexivity. Qed.

Lemma contains4_is4 n b x : contains (P (A4 n) b) x = true -> exists m, x = A4 m.
Proof. unfold contains; simpl. destruct x; rewrite ?andb_false_r; try discriminate. eauto. Qed.

(* a prefix that contains something is valid *)
Lemma contains_pvalid p x : contains p x = true -> pvalid p = true.
Proof. unfold contains. intros H. apply andb_true_iff in H. tauto. Qed.

(* a coarser prefix with the same address contains whatever the finer one contains *)
Lemma contains_coarser n b1 b m :
  b <= b1 -> b1 <= 32 ->
  contains (P (A4 n) b1) (A4 m) = true -> contains (P (A4 n) b) (A4 m) = true.
Proof.
  unfold contains; simpl. intros Hb Hb1 H.
  apply andb_true_iff in H. destruct H as [_ H]. apply N.eqb_eq in H.
  apply andb_true_iff. split; [lia|]. apply N.eqb_eq.
  replace (32 - b) with ((32 - b1) + (b1 - b)) by lia.
  rewrite N.pow_add_r, <- !N.div_div by (apply N.pow_nonzero; discriminate).
  rewrite H. reflexivity.
Qed.

(* ---------------------------------------------------------------- *)
(* newSubnet *)

Lemma newSubnet_no_fuel c : newSubnet c <> Fuel.
Proof.
  unfold newSubnet. destruct (negb (pvalid (s_lan c))); [discriminate|].
  destruct (s_lan c) as [|[|n|v z] b]; try discriminate.
  repeat match goal with |- context [if ?x then _ else _] => destruct x end; discriminate.
Qed.

Lemma newSubnet_panic_iff c : newSubnet c = Panic <-> lan_v6 (Some c) = true.
Proof.
  unfold newSubnet, lan_v6.
  destruct (pvalid (s_lan c)) eqn:Ev; simpl; [|split; discriminate].
  destruct (s_lan c) as [|[|n|v z] b]; simpl in *; try discriminate; try tauto.
  split; [|discriminate].
  repeat match goal with |- context [if ?x then _ else _] => destruct x end; discriminate.
Qed.

(* what a successful newSubnet returns *)
Lemma newSubnet_ok c s : newSubnet c = Ok s ->
  exists n b, s_lan c = P (A4 n) b /\ b <= 32 /\
    s_lan (n_cfg s) = P (A4 (mask4 b n)) b /\
    s_gw (n_cfg s) = s_gw c /\ s_dhcp (n_cfg s) = s_dhcp c /\ s_dns (n_cfg s) = s_dns c /\ s_stage (n_cfg s) = s_stage c /\
    n_bcast s = A4 (mask4 b n + 2 ^ (32 - b) - 1) /\
    s_first (n_cfg s) = (if negb (is4 (s_first c)) || is_unspec (s_first c) || negb (contains (P (A4 (mask4 b n)) b) (s_first c))
                         then anext (A4 (mask4 b n)) else s_first c) /\
    s_dur (n_cfg s) = (if (s_dur c =? 0)%Z then four_hours else s_dur c) /\
    ((s_stage c =? 1) || (s_stage c =? 3)) = true /\
    contains (s_lan c) (s_gw c) = true /\
    contains (s_lan c) (s_first (n_cfg s)) = true /\
    is_unspec (s_dns c) = false.
Proof.
  unfold newSubnet. destruct (pvalid (s_lan c)) eqn:Ev; simpl; [|discriminate].
  destruct (s_lan c) as [|[|n|v z] b] eqn:El; try discriminate.
  simpl in Ev.
  destruct ((s_stage c =? 1) || (s_stage c =? 3)) eqn:Est; simpl; [|discriminate].
  destruct (contains (P (A4 n) b) (s_gw c)) eqn:Egw; simpl; [|discriminate].
  match goal with |- context [contains (P (A4 n) b) ?f] => set (first := f) end.
  destruct (contains (P (A4 n) b) first) eqn:Ef; simpl; [|discriminate].
  destruct (is_unspec (s_dns c)) eqn:Edns; simpl; [discriminate|].
  intros H. inversion H; subst; clear H. simpl.
  exists n, b. repeat split; auto. lia.
Qed.

Lemma newSubnet_lan c s : newSubnet c = Ok s -> s_lan (n_cfg s) = pmasked (s_lan c) /\ is4 (paddr (s_lan c)) = true.
Proof.
  intros H. destruct (newSubnet_ok _ _ H) as (n & b & El & _ & Elan & _). rewrite El, Elan. simpl. auto.
Qed.

(* newSubnet is idempotent: re-validating a validated configuration changes nothing *)
Lemma newSubnet_idem c s : newSubnet c = Ok s -> newSubnet (n_cfg s) = Ok s.
Proof.
  intros H. destruct (newSubnet_ok _ _ H) as (n & b & El & Hb & Elan & Egw & Edh & Edns & Est & Ebc & Efi & Edu & Cst & Cgw & Cfi & Cdns).
  destruct s as [[lan gw dh dns fi du st] bc]. simpl in *. subst lan gw dh dns st bc.
  rewrite El in Cgw, Cfi.
  unfold newSubnet; simpl.
  assert (Hb' : (b <=? 32) = true) by lia. rewrite Hb'. simpl.
  rewrite !mask4_idem.
  rewrite Cst. simpl.
  rewrite contains_masked4, Cgw. simpl.
  (* first ip is kept *)
  assert (Hfi_keep : (negb (is4 fi) || is_unspec fi || negb (contains (P (A4 (mask4 b n)) b) fi)) = false).
  { rewrite contains_masked4, Cfi. destruct (contains4_is4 _ _ _ Cfi) as [m Em]. rewrite Em. simpl.
    rewrite orb_false_r.
    destruct (negb (is4 (s_first c)) || is_unspec (s_first c) || negb (contains (P (A4 (mask4 b n)) b) (s_first c))) eqn:Ec.
    - rewrite Em in Efi. simpl in Efi. destruct (mask4 b n + 1 <? 2 ^ 32); [|discriminate]. inversion Efi. lia.
    - apply orb_false_iff in Ec. destruct Ec as [Ec _]. apply orb_false_iff in Ec. destruct Ec as [_ Ec].
      rewrite <- Efi, Em in Ec. exact Ec. }
  rewrite Hfi_keep. rewrite contains_masked4, Cfi. simpl. rewrite Cdns.
  assert (Hdu : (if (du =? 0)%Z then four_hours else du) = du).
  { rewrite Edu. destruct (s_dur c =? 0)%Z eqn:E0.
    - reflexivity.
    - rewrite E0. reflexivity. }
  rewrite Hdu. reflexivity.
Qed.

(* ---------------------------------------------------------------- *)
(* the validation loop never fails with an error and panics only in the recorded classes *)

Lemma load_loop_shape cap n1 n2 rs : forall tt,
  (exists t, load_loop cap n1 n2 rs tt = Ok t) \/ load_loop cap n1 n2 rs tt = Panic.
Proof.
  induction rs as [|v rest IH]; intros tt; simpl; [left; eauto|].
  repeat match goal with
         | |- context [if ?x then _ else _] => destruct x
         | |- context [match ?x with _ => _ end] => destruct x
         end; auto.
Qed.

Definition olan (o : option subnet) : option prefix := option_map (fun s => s_lan (n_cfg s)) o.

Lemma load_loop_no_panic cap n1 n2 rs : forall tt,
  nil_deref cap (olan n1) (olan n2) rs = 0 -> load_loop cap n1 n2 rs tt <> Panic.
Proof.
  induction rs as [|v rest IH]; intros tt; simpl; [discriminate|].
  destruct (r_state v =? 2)%Z; simpl; [|apply IH].
  destruct (avalid (r_ip v)); simpl; [|apply IH].
  destruct n1 as [s1|]; simpl; [|discriminate].
  destruct (contains (s_lan (n_cfg s1)) (r_ip v)); simpl; [|apply IH].
  destruct (r_cid v); [apply IH|].
  destruct (cap (r_mac v)); [|apply IH].
  destruct n2 as [s2|]; simpl; [apply IH|discriminate].
Qed.

Lemma load_loop_panic cap n1 n2 rs : forall tt,
  nil_deref cap (olan n1) (olan n2) rs <> 0 -> load_loop cap n1 n2 rs tt = Panic.
Proof.
  induction rs as [|v rest IH]; intros tt; simpl; [congruence|].
  destruct (r_state v =? 2)%Z; simpl; [|apply IH].
  destruct (avalid (r_ip v)); simpl; [|apply IH].
  destruct n1 as [s1|]; simpl; [|reflexivity].
  destruct (contains (s_lan (n_cfg s1)) (r_ip v)); simpl; [|apply IH].
  destruct (r_cid v); [apply IH|].
  destruct (cap (r_mac v)); [|apply IH].
  destruct n2 as [s2|]; simpl; [apply IH|reflexivity].
Qed.

Lemma opt_subnet_olan o o' : opt_subnet o = Ok o' -> olan o' = lan_of o.
Proof.
  destruct o as [c|]; simpl.
  - destruct (newSubnet c) as [s| | |] eqn:E; simpl; try discriminate.
    intros H. inversion H; subst. simpl. destruct (newSubnet_lan _ _ E) as [-> _]. reflexivity.
  - intros H. inversion H. reflexivity.
Qed.

Lemma opt_subnet_no_fuel o : opt_subnet o <> Fuel.
Proof.
  destruct o as [c|]; simpl; [|discriminate].
  pose proof (newSubnet_no_fuel c). destruct (newSubnet c); simpl; congruence.
Qed.

(* load panics exactly in the three recorded classes *)
Lemma load_panic_iff cap d : load cap d = Panic <-> panic_class cap d <> 0.
Proof.
  unfold load, panic_class.
  destruct (opt_subnet (d_net1 d)) as [o1|e1| |] eqn:E1; simpl.
  2:{ split; [discriminate|congruence]. }
  2:{ split; [discriminate|reflexivity]. }
  2:{ exfalso. eapply opt_subnet_no_fuel; eauto. }
  destruct (opt_subnet (d_net2 d)) as [o2|e2| |] eqn:E2; simpl.
  2:{ split; [discriminate|congruence]. }
  2:{ split; [discriminate|reflexivity]. }
  2:{ exfalso. eapply opt_subnet_no_fuel; eauto. }
  rewrite <- (opt_subnet_olan _ _ E1), <- (opt_subnet_olan _ _ E2).
  destruct (N.eq_dec (nil_deref cap (olan o1) (olan o2) (d_leases d)) 0) as [Hz|Hz].
  - pose proof (load_loop_no_panic cap o1 o2 (d_leases d) [] Hz) as Hnp.
    destruct (load_loop_shape cap o1 o2 (d_leases d) []) as [[t Ht]|Hp]; [|contradiction].
    rewrite Ht. simpl. split; [discriminate|congruence].
  - rewrite (load_loop_panic cap o1 o2 (d_leases d) [] Hz). simpl. tauto.
Qed.

Lemma load_no_fuel cap d : load cap d <> Fuel.
Proof.
  unfold load.
  destruct (opt_subnet (d_net1 d)) as [o1|e1| |] eqn:E1; simpl; try discriminate.
  2:{ exfalso. eapply opt_subnet_no_fuel; eauto. }
  destruct (opt_subnet (d_net2 d)) as [o2|e2| |] eqn:E2; simpl; try discriminate.
  2:{ exfalso. eapply opt_subnet_no_fuel; eauto. }
  destruct (load_loop_shape cap o1 o2 (d_leases d) []) as [[t Ht]|Hp]; [rewrite Ht|rewrite Hp]; simpl; discriminate.
Qed.

(* ---------------------------------------------------------------- *)
(* Config.New: the four ways it ends *)

Definition cfg_ok (c : cfg) : bool :=
  pvalid (c_netfilter c) && contains (c_home c) (paddr (c_netfilter c)).

Lemma new_cases c cap i :
  (cfg_ok c = false /\ new c cap i = Err EInvalidIP)
  \/ (cfg_ok c = true /\ loadConfig cap i = Panic /\ new c cap i = Panic)
  \/ (cfg_ok c = true /\ loadConfig cap i <> Panic /\ new c cap i = reset c)
  \/ (cfg_ok c = true /\ exists n1 n2 t,
        loadConfig cap i = Ok (Some n1, Some n2, Some t)
        /\ configChanged (homeSubnet c) (n_cfg n1) = false
        /\ configChanged (netfilterSubnet c) (n_cfg n2) = false
        /\ new c cap i = Ok {| d_n1 := n1; d_n2 := n2; d_table := t |}).
Proof.
  unfold new, cfg_ok.
  destruct (pvalid (c_netfilter c)); simpl; [|left; auto].
  destruct (contains (c_home c) (paddr (c_netfilter c))); simpl; [|left; auto].
  right.
  assert (Hnf : loadConfig cap i <> Fuel).
  { destruct i; simpl; try discriminate.
    pose proof (load_no_fuel cap d). destruct (load cap d) as [[[a b] t]| | |]; simpl; congruence. }
  destruct (loadConfig cap i) as [[[o1 o2] ot]|e| |] eqn:E; try congruence.
  - destruct o1 as [n1|]; [|right; left; repeat split; auto; discriminate].
    destruct o2 as [n2|]; [|right; left; repeat split; auto; discriminate].
    destruct ot as [t|]; [|right; left; repeat split; auto; discriminate].
    destruct (configChanged (homeSubnet c) (n_cfg n1)) eqn:C1; simpl;
      [right; left; repeat split; auto; discriminate|].
    destruct (configChanged (netfilterSubnet c) (n_cfg n2)) eqn:C2; simpl;
      [right; left; repeat split; auto; discriminate|].
    right; right. split; auto. exists n1, n2, t. auto.
  - right; left. repeat split; auto; discriminate.
  - left. auto.
Qed.

(* the reset path does not panic when the NIC's home LAN is an IPv4 prefix *)
Lemma reset_no_panic c : is4 (paddr (c_home c)) = true -> cfg_ok c = true ->
  reset c <> Panic /\ reset c <> Fuel.
Proof.
  intros H4 Hok. unfold cfg_ok in Hok. apply andb_true_iff in Hok. destruct Hok as [Hv Hc].
  unfold reset.
  assert (P1 : newSubnet (homeSubnet c) <> Panic).
  { intros HP. apply newSubnet_panic_iff in HP. unfold lan_v6 in HP. simpl in HP. rewrite H4 in HP.
    rewrite andb_false_r in HP. discriminate. }
  assert (P2 : newSubnet (netfilterSubnet c) <> Panic).
  { intros HP. apply newSubnet_panic_iff in HP. unfold lan_v6 in HP. simpl in HP.
    destruct (c_home c) as [|[|n|v z] b]; simpl in H4; try discriminate.
    destruct (contains4_is4 _ _ _ Hc) as [m Em].
    destruct (c_netfilter c) as [|a b']; simpl in *; try discriminate. subst a. simpl in HP.
    rewrite andb_false_r in HP. discriminate. }
  pose proof (newSubnet_no_fuel (homeSubnet c)).
  pose proof (newSubnet_no_fuel (netfilterSubnet c)).
  destruct (newSubnet (homeSubnet c)); simpl; try congruence; try (split; discriminate).
  destruct (newSubnet (netfilterSubnet c)); simpl; try congruence; split; discriminate.
Qed.

(* C18_new_total, on the complement of the recorded panic classes *)
Lemma new_total_partial c cap i :
  is4 (paddr (c_home c)) = true ->
  known_C18_panic cap i = 0 ->
  new c cap i <> Panic /\ new c cap i <> Fuel.
Proof.
  intros H4 Hk.
  destruct (new_cases c cap i) as [[_ ->]|[(Hok & HP & _)|[(Hok & _ & ->)|(Hok & n1 & n2 & t & _ & _ & _ & ->)]]].
  - split; discriminate.
  - exfalso. destruct i as [| |d]; simpl in HP; try discriminate.
    simpl in Hk.
    destruct (load cap d) as [[[a b] t]| | |] eqn:E; simpl in HP; try discriminate.
    apply load_panic_iff in E. contradiction.
  - apply reset_no_panic; auto.
  - split; discriminate.
Qed.

(* conversely every recorded class does panic (the predicate is exact) *)
Lemma new_panics_in_class c cap i :
  cfg_ok c = true -> known_C18_panic cap i <> 0 -> new c cap i = Panic.
Proof.
  intros Hok Hk. destruct i as [| |d]; simpl in Hk; try congruence.
  apply load_panic_iff in Hk.
  unfold new. unfold cfg_ok in Hok. apply andb_true_iff in Hok. destruct Hok as [-> ->]. simpl.
  rewrite Hk. reflexivity.
Qed.

(* witnesses *)
Definition ex_cfg : cfg :=
  {| c_home := P (A4 3232235520) 24; c_host := A4 3232235649; c_router := A4 3232235531;
     c_netfilter := P (A4 3232235649) 25; c_dns := A4 134744072 |}.
Definition ex_doc_nonet1 : doc := {| d_net1 := None; d_net2 := Some ex_net2; d_leases := [ex_rec] |}.
Definition ex_doc_nonet2 : doc := {| d_net1 := Some ex_net1; d_net2 := None; d_leases := [ex_rec] |}.
Definition ex_doc_v6 : doc :=
  {| d_net1 := Some {| s_lan := P (A6 (338288524927261089654018896841347694592) []) 64; s_gw := s_gw ex_net1; s_dhcp := s_dhcp ex_net1;
                       s_dns := s_dns ex_net1; s_first := s_first ex_net1; s_dur := s_dur ex_net1; s_stage := 1 |};
     d_net2 := Some ex_net2; d_leases := [] |}.

Lemma new_total_refuted_net1 : new ex_cfg (fun _ => false) (Doc ex_doc_nonet1) = Panic
  /\ known_C18_panic (fun _ => false) (Doc ex_doc_nonet1) = 2.
Proof. vm_compute. auto. Qed.
Lemma new_total_refuted_net2 : new ex_cfg (fun _ => true) (Doc ex_doc_nonet2) = Panic
  /\ known_C18_panic (fun _ => true) (Doc ex_doc_nonet2) = 3.
Proof. vm_compute. auto. Qed.
Lemma new_total_refuted_v6 : new ex_cfg (fun _ => false) (Doc ex_doc_v6) = Panic
  /\ known_C18_panic (fun _ => false) (Doc ex_doc_v6) = 1.
Proof. vm_compute. auto. Qed.

Example new_total_nonvacuous :
  is4 (paddr (c_home ex_cfg)) = true /\ known_C18_panic (fun _ => false) (Doc ex_doc) = 0
  /\ exists s, new ex_cfg (fun _ => false) (Doc ex_doc) = Ok s /\ d_table s <> [].
Proof. vm_compute. repeat split. eexists. split; [reflexivity|discriminate]. Qed.
