(* Proofs/DHCPRestart.v — what a restart restores: every lease acknowledged in the final state of a run
   is in the lease file exactly as it is in memory (in particular with the expiry of its last ACK),
   and restart_state restores it with that expiry. *)
From PV Require Import Base.Prelude Base.Text Model.DHCP Model.DHCPShow Spec.DHCP Spec.DHCPCheck
  Proofs.DHCP Proofs.DHCPInv Proofs.DHCPReply.
Open Scope list_scope.
Open Scope N_scope.

(* every acknowledged lease of t1 is, as a whole record, in t0 *)
Definition alloc_sub (t1 t0 : list lease) : Prop :=
  forall l, In l t1 -> l_state l = SAllocated -> In l t0.

Lemma alloc_sub_refl t : alloc_sub t t.
Proof. intros l H _. exact H. Qed.
Lemma alloc_sub_trans a b c : alloc_sub a b -> alloc_sub b c -> alloc_sub a c.
Proof. intros H1 H2 l Hl S. apply H2; auto. Qed.
Lemma alloc_sub_tset l' t : l_state l' <> SAllocated -> alloc_sub (tset l' t) t.
Proof. intros Hn l Hl S. apply in_tset in Hl as [Hl|[Hl _]]; [subst; contradiction|exact Hl]. Qed.
Lemma alloc_sub_tdel k t : alloc_sub (tdel k t) t.
Proof. intros l Hl _. apply in_tdel in Hl. tauto. Qed.

Lemma foc_alloc_sub c s k mc s1 l :
  findOrCreate c s k mc = (s1, l) -> alloc_sub (tbl s1) (tbl s).
Proof.
  intros H. apply foc_spec in H as [_ [_ [_ [_ [_ [_ [[E _]|[E1 E2]]]]]]]].
  - subst. apply alloc_sub_refl.
  - subst s1. unfold put, set_tbl. cbn [tbl]. apply alloc_sub_tset. subst l. discriminate.
Qed.

Lemma alloc_tbl c ch s l req : tbl (snd (allocIPOffer c ch s l req)) = tbl s.
Proof.
  unfold allocIPOffer. destruct (phase1 c ch s l req); simpl; auto.
  destruct (scan _ _ _ _); simpl; [apply set_next_same|].
  destruct (scan _ _ _ _); simpl; apply set_next_same.
Qed.

Lemma parse_alloc_sub c s m : alloc_sub (tbl (parse_effect c s m)) (tbl s).
Proof. rewrite parse_tbl. apply alloc_sub_refl. Qed.

(* DISCOVER that answers: no lease enters state Allocated, none changes *)
Lemma discover_alloc_sub c ch now s0 m s' r :
  handleDiscover c ch now s0 m = (s', Some r) -> alloc_sub (tbl s') (tbl s0).
Proof.
  unfold handleDiscover.
  destruct (findOrCreate c s0 (getcid m) (m_chaddr m)) as [s1 l] eqn:F.
  pose proof (foc_alloc_sub _ _ _ _ _ _ F) as A1.
  apply foc_spec in F as [_ [_ [_ [Hk _]]]].
  destruct (reset_props now l m) as [Rk _].
  set (l0 := discover_reset now l m) in *.
  set (l1 := match l_offer l0 with Some x => if taken s1 l0 x then set_offer l0 None else l0 | None => l0 end).
  assert (Pk : l_cid l1 = l_cid l).
  { unfold l1. destruct (l_offer l0) as [x|]; [destruct (taken s1 l0 x)|]; simpl; congruence. }
  assert (G : forall s2 x, tbl s2 = tbl (put s1 l1) ->
          alloc_sub (tbl (put s2 (set_xid (set_state (set_offer l1 (Some x)) SDiscover) (Some (m_xid m))))) (tbl s0)).
  { intros s2 x T v Hv S. apply A1; auto.
    unfold put, set_tbl in Hv. cbn [tbl] in Hv. apply in_tset in Hv as [Hv|[Hv Nk]]; [subst v; discriminate|].
    rewrite T in Hv. unfold put, set_tbl in Hv. cbn [tbl] in Hv. simpl in Nk.
    apply in_tset in Hv as [Hv|[Hv _]]; [subst v; contradiction|exact Hv]. }
  destruct (l_offer l1) as [x|].
  - intros H. apply pair_equal_spec in H as [H _]. subst s'. apply G. reflexivity.
  - pose proof (alloc_tbl c ch (put s1 l1) l1 (m_req m)) as T.
    destruct (allocIPOffer c ch (put s1 l1) l1 (m_req m)) as [[x|] s2]; simpl in T.
    + intros H. apply pair_equal_spec in H as [H _]. subst s'. apply G. exact T.
    + intros H. apply pair_equal_spec in H as [_ H]. discriminate.
Qed.

Lemma do_ack_is_ack c now m s l s' rp : do_ack c now m s l = (s', rp) -> exists r, rp = Some r /\ r_type r = RAck.
Proof.
  unfold do_ack. intros H. apply pair_equal_spec in H as [_ H]. subst rp. eexists. split; reflexivity.
Qed.

(* REQUEST that is not ACKed and does not free the lease in the select-for-another-server branch *)
Lemma request_alloc_sub c now s0 m s' rp :
  handleRequest c now s0 m = (s', rp) ->
  match rp with Some r => match r_type r with RAck => false | _ => true end | None => true end = true ->
  (let sid := match m_sid m with Some r => r | None => 0 end in
   let '(oper, req) := classify m in
   (req =? 0) || negb (match oper with
                       | Selecting =>
                           let '(_, l) := findOrCreate c s0 (getcid m) (m_chaddr m) in
                           negb (sid =? n_server c (sess_captured (ss s0) (m_chaddr m))) && negb (lstate_eqb (l_state l) SDiscover)
                       | _ => false
                       end) = true) ->
  alloc_sub (tbl s') (tbl s0).
Proof.
  unfold handleRequest. cbv zeta.
  destruct (classify m) as [oper req].
  destruct (req =? 0) eqn:R0.
  { intros H _ _. apply pair_equal_spec in H as [H _]. subst. apply alloc_sub_refl. }
  destruct (findOrCreate c s0 (getcid m) (m_chaddr m)) as [s1 l] eqn:F.
  pose proof (foc_alloc_sub _ _ _ _ _ _ F) as A1.
  intros H Hna Hsel. cbn [orb] in Hsel.
  assert (ACK : forall s2 s'' rp', do_ack c now m s2 l = (s'', rp') -> rp' = rp -> False).
  { intros s2 s'' rp' Hd E. apply do_ack_is_ack in Hd as [r [Hr Ht]]. subst rp'. rewrite <- E in Hna. rewrite Ht in Hna. discriminate. }
  assert (K : forall s2 (x : option reply), tbl s2 = tbl s1 -> (s2, x) = (s', rp) -> alloc_sub (tbl s') (tbl s0)).
  { intros s2 x T E. apply pair_equal_spec in E as [E _]. subst s'. rewrite T. exact A1. }
  destruct oper.
  - revert H Hsel.
    destruct (negb (match m_sid m return ip with Some r => r | None => 0 end =? n_server c (sess_captured (ss s0) (m_chaddr m)))) eqn:SV;
      intros H Hsel.
    + apply negb_true_iff in Hsel. simpl in Hsel. apply negb_false_iff in Hsel. rewrite Hsel in H.
      assert (T : tbl (put s1 l) = tset l (tbl s1)) by reflexivity.
      assert (A2 : alloc_sub (tbl (put s1 l)) (tbl s0)).
      { rewrite T. eapply alloc_sub_trans; [|exact A1]. apply alloc_sub_tset.
        apply lstate_eqb_eq in Hsel. congruence. }
      destruct (attack_mode c (sess_captured (ss s0) (m_chaddr m))); apply pair_equal_spec in H as [H _]; subst s'; exact A2.
    + repeat match type of H with
             | (if ?b then _ else _) = _ => destruct b
             end; try (eapply K; [|exact H]; reflexivity).
      exfalso. eapply ACK; [exact H|reflexivity].
  - repeat match type of H with
           | (if ?b then _ else _) = _ => destruct b
           end; try (eapply K; [|exact H]; reflexivity).
    exfalso. eapply ACK; [exact H|reflexivity].
  - repeat match type of H with
           | (if ?b then _ else _) = _ => destruct b
           end; try (eapply K; [|exact H]; reflexivity).
    exfalso. eapply ACK; [exact H|reflexivity].
  - repeat match type of H with
           | (if ?b then _ else _) = _ => destruct b
           end; try (eapply K; [|exact H]; reflexivity).
    exfalso. eapply ACK; [exact H|reflexivity].
Qed.

Lemma decline_alloc_sub c s0 m :
  (let '(_, l) := findOrCreate c s0 (getcid m) (m_chaddr m) in
   oeqb (Some (n_server c (l_net2 l))) (m_sid m) && oeqb (l_ip l) (m_req m) && (l_mac l =? m_chaddr m)) = false ->
  alloc_sub (tbl (fst (handleDecline c s0 m))) (tbl s0).
Proof.
  unfold handleDecline.
  destruct (findOrCreate c s0 (getcid m) (m_chaddr m)) as [s1 l] eqn:F.
  pose proof (foc_alloc_sub _ _ _ _ _ _ F) as A1. intros Hn.
  destruct (oeqb (Some (n_server c (l_net2 l))) (m_sid m)); simpl in *; auto.
  destruct (oeqb (l_ip l) (m_req m)); simpl in *; auto.
  rewrite Hn. simpl. exact A1.
Qed.

Lemma release_alloc_sub c s0 m : alloc_sub (tbl (fst (handleRelease c s0 m))) (tbl s0).
Proof.
  unfold handleRelease. destruct (findOrCreate c s0 (getcid m) (m_chaddr m)) as [s1 l] eqn:F.
  simpl. apply (foc_alloc_sub _ _ _ _ _ _ F).
Qed.

Lemma free_alloc_sub now t : alloc_sub (freeLeases now t) t.
Proof.
  intros l Hl S. apply in_freeLeases in Hl as [l0 [H0 [E|E]]]; subst; auto. discriminate.
Qed.

Definition is_hook (o : op) : bool := match o with OSetExp _ _ => true | _ => false end.

(* a step that does not rewrite the lease file leaves every acknowledged lease as it was *)
Lemma nosave_alloc_sub c ch s o s1 rp :
  step c ch s o = (s1, rp) -> step_saves c s o rp = false -> is_hook o = false ->
  alloc_sub (tbl s1) (tbl s).
Proof.
  destruct o as [now m|now m|m|m|x|x|now|k tt]; simpl; intros H Hs Hh; try discriminate.
  - apply orb_false_iff in Hs as [_ Hs]. destruct rp as [r|]; [|discriminate].
    eapply alloc_sub_trans; [apply (discover_alloc_sub _ _ _ _ _ _ _ H)|apply parse_alloc_sub].
  - eapply alloc_sub_trans; [|apply parse_alloc_sub].
    apply (request_alloc_sub c now _ m s1 rp H).
    + destruct (classify m) as [oper req] eqn:CL. destruct (req =? 0) eqn:R0.
      * unfold handleRequest in H. rewrite CL in H. cbv zeta in H. rewrite R0 in H.
        apply pair_equal_spec in H as [_ H]. subst rp. reflexivity.
      * apply orb_false_iff in Hs as [Hs _]. apply orb_false_iff in Hs as [_ Hs].
        destruct rp as [r|]; auto. destruct (r_type r); auto; discriminate.
    + cbv zeta. destruct (classify m) as [oper req] eqn:CL. destruct (req =? 0) eqn:R0; [reflexivity|].
      apply orb_false_iff in Hs as [_ Hs]. cbn [orb]. rewrite Hs. reflexivity.
  - eapply alloc_sub_trans; [|apply parse_alloc_sub].
    replace s1 with (fst (handleDecline c (parse_effect c s m) m)) by (rewrite H; reflexivity).
    apply decline_alloc_sub.
    destruct (findOrCreate c (parse_effect c s m) (getcid m) (m_chaddr m)) as [s2 l].
    apply orb_false_iff in Hs as [_ Hs]. exact Hs.
  - eapply alloc_sub_trans; [|apply parse_alloc_sub].
    replace s1 with (fst (handleRelease c (parse_effect c s m) m)) by (rewrite H; reflexivity).
    apply release_alloc_sub.
  - apply pair_equal_spec in H as [H _]. subst s1. apply alloc_sub_refl.
  - apply pair_equal_spec in H as [H _]. subst s1. apply alloc_sub_refl.
  - apply pair_equal_spec in H as [H _]. subst s1. simpl. apply free_alloc_sub.
Qed.

(* the lease file always holds every acknowledged lease exactly as it is in memory *)
Definition in_file (s : dstate) (saved : list lease) : Prop :=
  forall l, In l (tbl s) -> l_state l = SAllocated -> In l saved.

Lemma run_saving_in_file c h : forall s saved s' saved',
  forallb (fun p => negb (is_hook (snd p))) h = true ->
  in_file s saved -> run_saving c s saved h = (s', saved') -> in_file s' saved'.
Proof.
  induction h as [|[ch o] r IH]; intros s saved s' saved' Hh J H.
  - simpl in H. inversion H; subst. exact J.
  - simpl in H, Hh. apply andb_true_iff in Hh as [Ho Hh]. apply negb_true_iff in Ho.
    destruct (step c ch s o) as [s1 rp] eqn:E.
    apply (IH s1 (if step_saves c s o rp then tbl s1 else saved) s' saved' Hh); auto.
    destruct (step_saves c s o rp) eqn:S.
    + intros l Hl _. exact Hl.
    + intros l Hl Sl. apply J; auto. apply (nosave_alloc_sub c ch s o s1 rp E S Ho); auto.
Qed.

Lemma lease_file_invariant c h s saved :
  forallb (fun p => negb (is_hook (snd p))) h = true ->
  run_saving c (init c) [] h = (s, saved) -> in_file s saved.
Proof.
  intros Hh Hr. apply (run_saving_in_file c h (init c) [] s saved Hh); auto. intros v Hv. destruct Hv.
Qed.

(* restore keeps every acknowledged lease that passes loadByteArray's filter, with its address and expiry *)
Lemma restore_keeps cL se saved l x :
  In l saved -> l_state l = SAllocated -> l_ip l = Some x -> n_contains cL false x = true -> l_cid l <> 1 ->
  exists l', In l' (restore cL se saved) /\ l_cid l' = l_cid l /\ l_state l' = SAllocated /\
             l_ip l' = Some x /\ l_mac l' = l_mac l /\ l_exp l' = l_exp l.
Proof.
  intros Hin S I Cn Nk. unfold restore.
  exists (mkLease (l_cid l) SAllocated (l_mac l) (l_ip l) (l_offer l) (l_xid l)
            (sess_captured se (l_mac l) && match l_ip l with Some y => n_contains cL true y && negb (y =? n_lan cL true) && negb (y =? n_bcast cL true) | None => false end) (l_exp l)).
  split; [|simpl; auto].
  apply in_map_iff. exists l. split; auto. apply filter_In. split; auto.
  rewrite S, I, Cn. simpl. apply negb_true_iff. apply N.eqb_neq. exact Nk.
Qed.

(* Restart: run 1 (configuration cA, any history without the test hook) leaves its file; a handler of
   configuration cB whose subnets the file's equal starts on it.  Every lease acknowledged in run 1's
   final state that passes the load filter is acknowledged in run 2's initial state, for the same
   address, with the SAME expiry — the one its last ACK wrote: a lease unexpired at the end of run 1 is
   unexpired at the start of run 2. *)
Theorem restart_expiry : forall cA cB pre h sA saved l x,
  forallb (fun p => negb (is_hook (snd p))) h = true ->
  run_saving cA (init cA) [] h = (sA, saved) ->
  sub_changed (wanted cB) (c_sub cA) = false ->
  In l (tbl sA) -> l_state l = SAllocated -> l_ip l = Some x ->
  n_contains (loaded_cfg (c_sub cA) cB) false x = true -> l_cid l <> 1 ->
  exists l', In l' (tbl (restart_state (c_sub cA) cB pre saved)) /\ l_cid l' = l_cid l /\
             l_state l' = SAllocated /\ l_ip l' = Some x /\ l_mac l' = l_mac l /\ l_exp l' = l_exp l.
Proof.
  intros cA cB pre h sA saved l x Hh Hr Hc Hin S I Cn Nk.
  assert (J : in_file sA saved).
  { apply (run_saving_in_file cA h (init cA) [] sA saved Hh); auto. intros v Hv. destruct Hv. }
  unfold restart_state. rewrite Hc. cbn [tbl].
  apply restore_keeps; auto.
Qed.

(* non-vacuity: client c1 acquires 192.168.0.2 and renews it; the restarted handler holds the lease
   with the expiry of the renewal *)
Definition wcfgR : cfg :=
  fresh_cfg 2 3232235529 366503875925 3232235521 439804651110 3232235520 28 3232235529 29 134743044.
Definition wren : list op :=
  [ODiscover 0 (mkMsg 2199023255553 1 0 None None None false 0 []);
   ORequest 0 (mkMsg 2199023255553 1 0 None (Some 3232235522) (Some 3232235529) false 0 []);
   ORequest 1000 (mkMsg 2199023255553 1 3232235522 None None None false 0 [])].
Lemma restart_expiry_example :
  let '(sA, saved) := run_saving wcfgR (init wcfgR) [] (with_ch0 wren) in
  map (fun l => (l_state l, l_ip l, l_exp l)) (tbl (restart_state (c_sub wcfgR) wcfgR [] saved))
  = [(SAllocated, Some 3232235522, 15400%Z)].
Proof. vm_compute. reflexivity. Qed.
