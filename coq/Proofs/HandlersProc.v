(* Proofs/HandlersProc.v — the processors' byte-access skeletons never panic and terminate;
   ICMPv4 logger outside / inside the embedded-header class, ICMPv6 total (NDP options repaired). *)
From PV Require Import Base.Prelude Base.Slice Model.NDPOptions Model.MiscDecoders Model.HandlersProc.
From PV Require Import Proofs.HandlersTac Proofs.NDPOptions Proofs.MiscDecoders.
Open Scope N_scope.

Lemma be32_at_ok s a : (a + 4 <= cap s)%nat ->
  be32_at s a = Ok (be32 (nth a (arr s) 0) (nth (a + 1) (arr s) 0) (nth (a + 2) (arr s) 0) (nth (a + 3) (arr s) 0)).
Proof. intros H. unfold be32_at. destruct (Nat.leb_spec (a + 4) (cap s)); [reflexivity|lia]. Qed.

Theorem arp_process_total p : wf p -> safe (arp_process p).
Proof.
  intros Hw. unfold arp_process. destruct (Nat.ltb_spec (len p) 28); [sdone|].
  unfold wf in Hw.
  rewrite be16_at_ok by lia. cbn [bind]. sif; [sdone|].
  rewrite be16_at_ok by lia. cbn [bind]. sif; [sdone|].
  rewrite idx_ok by lia. cbn [bind]. sif; [sdone|].
  rewrite idx_ok by lia. cbn [bind]. sif; [sdone|].
  repeat (first [rewrite sl_ok by lia | rewrite be16_at_ok by lia]; cbn [bind]). sdone.
Qed.

Theorem dhcp4_process_total p : wf p -> forall fuel, (len p < fuel)%nat -> safe (dhcp4_process fuel p).
Proof.
  intros Hw fuel Hf. unfold dhcp4_process. apply safe_bind.
  - apply dhcp_is_valid_total; assumption.
  - intros _ _. apply dhcp_parse_options_total; assumption.
Qed.

(* ---------------------------------------------------------------- ICMPv4 logger *)
Theorem icmp4_process_classified p : wf p ->
  if known_C08_icmp4_inner p then icmp4_process p = Panic else safe (icmp4_process p).
Proof.
  intros Hw. unfold known_C08_icmp4_inner, icmp4_process.
  destruct (Nat.ltb_spec (len p) 8) as [H8|H8].
  { destruct (Nat.leb_spec 28 (len p)); [lia|]. cbn [andb]. sdone. }
  rewrite idx_ok by lia. cbn [bind].
  destruct (nth 0 (arr p) 0 =? 3) eqn:Et; [|rewrite andb_false_r; cbn [andb]; sdone].
  rewrite idx_ok by lia. cbn [bind].
  destruct (Nat.ltb_spec (len p) 28) as [H28|H28].
  { destruct (Nat.leb_spec 28 (len p)); [lia|]. cbn [andb]. sdone. }
  destruct (Nat.leb_spec 28 (len p)); [|lia]. cbn [andb].
  rewrite slfrom_ok by lia. cbn [bind].
  set (ip := mkSlice (skipn 8 (arr p)) (len p - 8)).
  assert (Hwi : wf ip) by (unfold ip; slen).
  assert (Hli : len ip = (len p - 8)%nat) by reflexivity.
  assert (Hci : (len ip <= cap ip)%nat) by exact Hwi.
  assert (Hn : forall k, nth k (arr ip) 0 = nth (8 + k) (arr p) 0).
  { intros k. unfold ip; cbn [arr]. apply nth_skipn_add. }
  unfold ip4_is_valid, ip4_payload, ip4_ihl, ip4_totallen.
  destruct (Nat.ltb_spec (len ip) 20); [lia|].
  rewrite !idx_ok by lia. cbn [bind].
  rewrite !be16_at_ok by lia. cbn [bind].
  rewrite !Hn. cbn [Nat.add].
  set (ihl := (N.to_nat (N.land (nth 8 (arr p) 0%N) 15%N) * 4)%nat).
  set (tl := N.to_nat (be16 (nth 10 (arr p) 0) (nth 11 (arr p) 0))).
  rewrite Hli in *.
  destruct (Nat.ltb_spec (len p - 8) ihl) as [Hi|Hi].
  { cbn [bind negb]. destruct (Nat.leb_spec ihl (len p - 8)); [lia|]. cbn [andb]. sdone. }
  destruct (Nat.leb_spec ihl (len p - 8)); [|lia]. cbn [bind andb].
  destruct (Nat.ltb_spec (len p - 8) tl) as [Ht|Ht].
  { cbn [negb]. destruct (Nat.leb_spec tl (len p - 8)); [lia|]. cbn [andb]. sdone. }
  destruct (Nat.leb_spec tl (len p - 8)); [|lia]. cbn [negb andb].
  destruct (Nat.ltb_spec tl ihl) as [Hlt|Hge]; cbn [andb].
  - (* TotalLen < IHL *)
    destruct (nth 17 (arr p) 0 =? 17) eqn:E17; cbn [orb].
    + rewrite sl_panic by lia. reflexivity.
    + destruct (nth 17 (arr p) 0 =? 6) eqn:E6.
      * rewrite sl_panic by lia. reflexivity.
      * sdone.
  - destruct (nth 17 (arr p) 0 =? 17).
    + rewrite sl_ok by lia. cbn [bind len].
      destruct (Nat.ltb_spec (tl - ihl) 8); [sdone|].
      rewrite be16_at_ok by (unfold cap in *; cbn [arr]; rewrite skipn_length; lia). cbn [bind]. sdone.
    + destruct (nth 17 (arr p) 0 =? 6); [|sdone].
      rewrite sl_ok by lia. cbn [bind len].
      destruct (Nat.ltb_spec (tl - ihl) 20); [sdone|].
      rewrite be16_at_ok by (unfold cap in *; cbn [arr]; rewrite skipn_length; lia). cbn [bind]. sdone.
Qed.

(* destination unreachable with an embedded header IHL=5, TotalLen=0, protocol UDP *)
Definition icmp4_w : bytes := [3; 3; 0; 0; 0; 0; 0; 0; 69; 0; 0; 0; 0; 0; 0; 0; 64; 17; 0; 0; 192; 168; 0; 129; 8; 8; 8; 8].
Definition icmp4_good : bytes :=
  [3; 3; 0; 0; 0; 0; 0; 0; 69; 0; 0; 28; 0; 0; 0; 0; 64; 17; 0; 0; 192; 168; 0; 129; 8; 8; 8; 8; 19; 136; 0; 53; 0; 8; 0; 0].
Lemma icmp4_refuted :
  bytes_ok icmp4_w /\ known_C08_icmp4_inner (of_bytes icmp4_w) = true /\ icmp4_process (of_bytes icmp4_w) = Panic.
Proof. split; [apply bytes_okb_spec; reflexivity|]. split; vm_compute; reflexivity. Qed.
Lemma icmp4_nonvacuous :
  known_C08_icmp4_inner (of_bytes icmp4_good) = false /\ icmp4_process (of_bytes icmp4_good) = Ok tt.
Proof. split; vm_compute; reflexivity. Qed.

(* ---------------------------------------------------------------- ICMPv6 *)
Theorem icmp6_process_total lbl_ok p ra_processed : wf p ->
  forall fuel, (len p < fuel)%nat -> safe (icmp6_process lbl_ok fuel ra_processed p).
Proof.
  intros Hw fuel Hf. unfold icmp6_process.
  destruct (Nat.ltb_spec (len p) 8); [sdone|].
  rewrite idx_ok by lia. cbn [bind]. unfold wf in Hw.
  destruct (nth 0 (arr p) 0 =? 136).
  { destruct (Nat.ltb_spec (len p) 24); [sdone|].
    rewrite idx_ok by lia. cbn [bind]. sif; [|sdone].
    destruct (Nat.ltb_spec (len p) 32); [sdone|].
    rewrite !idx_ok by lia. cbn [bind]. sif; [sdone|].
    rewrite sl_ok by lia. cbn [bind]. sdone. }
  destruct (nth 0 (arr p) 0 =? 135).
  { destruct (Nat.ltb_spec (len p) 24); [sdone|]. rewrite sl_ok by lia. cbn [bind]. sdone. }
  destruct (nth 0 (arr p) 0 =? 134) eqn:E134.
  { destruct (Nat.ltb_spec (len p) 16); [sdone|].
    destruct ra_processed; cbn [negb]; [|sdone].
    apply safe_bind; [apply ra_options_total; [exact Hw|exact Hf]|].
    intros _ _.
    rewrite !idx_ok by lia. cbn [bind]. rewrite be16_at_ok by lia. cbn [bind].
    rewrite !be32_at_ok by lia. cbn [bind]. sdone. }
  repeat (sif; try sdone).
Qed.
