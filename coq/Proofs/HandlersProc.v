(* Proofs/HandlersProc.v — the processors' byte-access skeletons never panic and terminate;
   ICMPv4 logger outside / inside the embedded-header class, ICMPv6 total (NDP options repaired). *)
From PV Require Import Base.Prelude Base.Slice Model.NDPOptions Model.MiscDecoders Model.HandlersProc.
From PV Require Import Proofs.HandlersTac Proofs.NDPOptions Proofs.MiscDecoders.
Open Scope N_scope.

Lemma be32_at_ok s a : (a + 4 <= cap s)%nat ->
  be32_at s a = Ok (be32 (nth a (arr s) 0) (nth (a + 1) (arr s) 0) (nth (a + 2) (arr s) 0) (nth (a + 3) (arr s) 0)).
Proof. intros H. unfold be32_at. destruct (Nat.leb_spec (a + 4) (cap s)); [reflexivity|lia]. Qed.

Lemma when_safe b r : safe r -> safe (when b r).
Proof. intros H. destruct b; [exact H|sdone]. Qed.

Ltac acc28 Hw :=
  repeat (first [ rewrite sl_ok by (unfold wf in Hw; lia) | rewrite be16_at_ok by (unfold wf in Hw; lia)
                | rewrite idx_ok by lia ]; cbn [bind]).

Lemma arp_fastlog_safe p : wf p -> (28 <= len p)%nat -> safe (arp_fastlog p).
Proof. intros Hw H. unfold arp_fastlog. acc28 Hw. sdone. Qed.

Theorem arp_process_total e router lan p : wf p -> safe (arp_process e router lan p).
Proof.
  intros Hw. unfold arp_process. destruct (Nat.ltb_spec (len p) 28); [sdone|].
  pose proof (arp_fastlog_safe p Hw H) as Hlog.
  unfold ip4_at. acc28 Hw. sif; [sdone|]. acc28 Hw. sif; [sdone|]. acc28 Hw. sif; [sdone|].
  acc28 Hw. sif; [sdone|]. sif; [sdone|].
  acc28 Hw.
  sif; [apply when_safe; exact Hlog|].
  sif; [apply when_safe; exact Hlog|].
  sif; [|exact Hlog].
  sif; [apply when_safe; exact Hlog|].
  sif.
  - apply safe_bind; [apply when_safe; exact Hlog|]. intros _ _. acc28 Hw. sif; acc28 Hw; sdone.
  - apply safe_bind; [apply when_safe; exact Hlog|]. intros _ _. acc28 Hw. sif; acc28 Hw; sdone.
Qed.

(* ---------------------------------------------------------------- DHCPv4 *)
Lemma dhcp_is_valid_len fuel p : dhcp_is_valid fuel p = Ok tt -> (240 <= len p)%nat.
Proof.
  unfold dhcp_is_valid. destruct (Nat.ltb_spec (len p) 240); [discriminate|]. intros _. assumption.
Qed.

Lemma encode_dhcp4_into_safe p pos : safe (encode_dhcp4_into p pos).
Proof.
  unfold encode_dhcp4_into.
  destruct (Nat.ltb_spec (cap p) 300); [sdone|].
  destruct (Nat.leb_spec (cap p) (240 + pos)); [sdone|].
  rewrite idx_ok by (cbn [len]; lia). cbn [bind]. sdone.
Qed.

Theorem dhcp4_process_total e p : wf p ->
  forall fuel, (len p < fuel)%nat -> safe (dhcp4_process fuel e p).
Proof.
  intros Hw fuel Hf. unfold dhcp4_process.
  destruct (dhcp_is_valid fuel p) as [[]|er| |] eqn:Ev; cbn [bind];
    try sdone; try (pose proof (dhcp_is_valid_total p Hw fuel Hf) as [H1 H2]; congruence).
  pose proof (dhcp_is_valid_len _ _ Ev) as Hl.
  destruct (de_client_port e); cbn [bind].
  - apply safe_bind; [apply dhcp_parse_options_total; assumption|]. intros _ _.
    destruct (dhcp_opt p 53) as [[|mt [|x r]]|]; try sdone.
    unfold client_id. destruct (dhcp_opt p 61); cbn [bind]; acc28 Hw;
      (destruct (dhcp_opt p 54); [|sdone]; sif; [sdone|]; acc28 Hw; sdone).
  - apply safe_bind; [apply dhcp_parse_options_total; assumption|]. intros _ _.
    destruct (dhcp_opt p 53) as [[|mt [|x r]]|]; try sdone.
    sif; [sdone|].
    unfold client_id. destruct (dhcp_opt p 61) as [cid|]; cbn [bind]; acc28 Hw;
      (sif; [|sdone]; destruct (de_reply e); [sdone| |]; apply encode_dhcp4_into_safe).
Qed.

(* the former witness (REQUEST with a 60-byte client identifier in a buffer of exactly its
   length, NAK needs 312 bytes of 311): EncodeDHCP4 now returns nil *)
Definition dhcp_nak_w : bytes :=
  [1; 1; 6; 0] ++ repeat 0 232 ++ [99; 130; 83; 99] ++ [53; 1; 3] ++ [50; 4; 192; 168; 0; 77] ++ (61 :: 60 :: repeat 7 60).
Lemma dhcp4_nonvacuous :
  bytes_ok dhcp_nak_w /\
  dhcp4_process 400 (mkDhcpEnv false RNak false) (of_bytes dhcp_nak_w) = Ok tt /\
  dhcp4_process 400 (mkDhcpEnv false (ROther 33) true) (of_bytes (dhcp_sample ++ repeat 0 60)) = Ok tt.
Proof. split; [apply bytes_okb_spec; vm_compute; reflexivity|]. split; vm_compute; reflexivity. Qed.

(* ---------------------------------------------------------------- ICMPv4 logger *)
Lemma echo_fastlog_safe p : wf p -> (8 <= len p)%nat -> safe (echo_fastlog p).
Proof.
  intros Hw H. unfold echo_fastlog.
  repeat (first [rewrite be16_at_ok by (unfold wf in Hw; lia) | rewrite slfrom_ok by lia]; cbn [bind]). sdone.
Qed.

Theorem icmp4_process_total info p : wf p -> safe (icmp4_process info p).
Proof.
  intros Hw. unfold icmp4_process.
  destruct (Nat.ltb_spec (len p) 8) as [H8|H8]; [sdone|].
  rewrite idx_ok by lia. cbn [bind].
  destruct ((nth 0 (arr p) 0 =? 0) || (nth 0 (arr p) 0 =? 8)).
  { apply when_safe, echo_fastlog_safe; assumption. }
  destruct (nth 0 (arr p) 0 =? 3); [|sdone].
  rewrite idx_ok by lia. cbn [bind].
  destruct (Nat.ltb_spec (len p) 28) as [H28|H28]; [sdone|].
  rewrite slfrom_ok by lia. cbn [bind].
  set (ip := mkSlice (skipn 8 (arr p)) (len p - 8)).
  assert (Hwi : wf ip) by (unfold ip; slen).
  assert (Hli : len ip = (len p - 8)%nat) by reflexivity.
  assert (Hci : (len ip <= cap ip)%nat) by exact Hwi.
  unfold ip4_is_valid, ip4_payload, ip4_ihl, ip4_totallen.
  destruct (Nat.ltb_spec (len ip) 20); [lia|].
  rewrite !idx_ok by lia. cbn [bind].
  rewrite !be16_at_ok by lia. cbn [bind].
  set (ihl := (N.to_nat (N.land (nth 0 (arr ip) 0%N) 15%N) * 4)%nat).
  set (tl := N.to_nat (be16 (nth 2 (arr ip) 0) (nth (2 + 1) (arr ip) 0))).
  destruct (Nat.ltb_spec ihl 20); [cbn [bind negb]; sdone|].
  destruct (Nat.ltb_spec (len ip) ihl); [cbn [bind negb]; sdone|]. cbn [bind].
  destruct (Nat.ltb_spec tl ihl); [cbn [bind negb]; sdone|].
  destruct (Nat.ltb_spec (len ip) tl); cbn [bind negb]; [sdone|].
  apply safe_bind.
  - destruct (nth 9 (arr ip) 0 =? 17).
    + rewrite sl_ok by lia. cbn [bind len]. unfold udp_is_valid. cbn [bind len].
      destruct (Nat.ltb_spec (tl - ihl) 8); cbn [negb]; [sdone|].
      rewrite be16_at_ok by (unfold cap in *; cbn [arr]; rewrite skipn_length; lia). cbn [bind]. sdone.
    + destruct (nth 9 (arr ip) 0 =? 6); [|sdone].
      rewrite sl_ok by lia. cbn [bind len]. unfold tcp_is_valid. cbn [len].
      destruct (Nat.ltb_spec (tl - ihl) 20); [cbn [bind negb]; sdone|].
      rewrite !idx_ok by (cbn [len]; lia). cbn [bind]. sif; [cbn [bind negb]; sdone|]. cbn [bind].
      sif; cbn [negb]; [sdone|].
      rewrite be16_at_ok by (unfold cap in *; cbn [arr]; rewrite skipn_length; lia). cbn [bind]. sdone.
  - intros _ _. apply when_safe. rewrite sl_ok by lia. cbn [bind]. sdone.
Qed.

(* the former #3 witness (embedded header IHL=5, TotalLen=0, UDP) is now an error *)
Definition icmp4_w : bytes := [3; 3; 0; 0; 0; 0; 0; 0; 69; 0; 0; 0; 0; 0; 0; 0; 64; 17; 0; 0; 192; 168; 0; 129; 8; 8; 8; 8].
Definition icmp4_good : bytes :=
  [3; 3; 0; 0; 0; 0; 0; 0; 69; 0; 0; 28; 0; 0; 0; 0; 64; 17; 0; 0; 192; 168; 0; 129; 8; 8; 8; 8; 19; 136; 0; 53; 0; 8; 0; 0].
Lemma icmp4_nonvacuous :
  bytes_ok icmp4_w /\ icmp4_process true (of_bytes icmp4_w) = Err EParseFrame /\
  icmp4_process true (of_bytes icmp4_good) = Ok tt.
Proof. split; [apply bytes_okb_spec; reflexivity|]. split; vm_compute; reflexivity. Qed.

(* ---------------------------------------------------------------- ICMPv6 *)
Lemma lla_option_at_safe p off ty : wf p -> safe (lla_option_at p off ty).
Proof.
  intros Hw. unfold lla_option_at. destruct (Nat.ltb_spec (len p) (off + 8)); [sdone|].
  rewrite !idx_ok by lia. cbn [bind]. sif; [sdone|].
  rewrite sl_ok by (unfold wf in Hw; lia). cbn [bind]. sdone.
Qed.

Theorem icmp6_process_total lbl_ok p e ip6 : wf p -> wf (ip6_view ip6) ->
  forall fuel, (len p < fuel)%nat -> safe (icmp6_process lbl_ok fuel e ip6 p).
Proof.
  intros Hw Hw6 fuel Hf. unfold icmp6_process.
  set (v := ip6_view ip6) in *. unfold ip6_is_valid.
  destruct (Nat.ltb_spec (len v) 40) as [H40|H40]; [cbn [bind negb]; sdone|].
  unfold wf in Hw6. rewrite be16_at_ok by lia. cbn [bind]. sif; [sdone|].
  assert (Hsrc : safe (ip6_src v)) by (unfold ip6_src; rewrite sl_ok by lia; cbn [bind]; sdone).
  assert (Hdst : safe (ip6_dst v)) by (unfold ip6_dst; rewrite sl_ok by lia; cbn [bind]; sdone).
  assert (Hlog : safe (ip6_log v)).
  { unfold ip6_log. apply safe_bind; [exact Hsrc|]. intros _ _. apply safe_bind; [exact Hdst|]. intros; sdone. }
  assert (Hsb : forall (k : bytes -> res unit), (forall x, safe (k x)) -> safe (bind (ip6_src v) k))
    by (intros k Hk; apply safe_bind; [exact Hsrc|intros; apply Hk]).
  assert (Hdb : forall (k : bytes -> res unit), (forall x, safe (k x)) -> safe (bind (ip6_dst v) k))
    by (intros k Hk; apply safe_bind; [exact Hdst|intros; apply Hk]).
  assert (Hlb : forall (k : unit -> res unit), (forall x, safe (k x)) -> safe (bind (ip6_log v) k))
    by (intros k Hk; apply safe_bind; [exact Hlog|intros; apply Hk]).
  destruct (Nat.ltb_spec (len p) 8); [sdone|].
  rewrite idx_ok by lia. cbn [bind].
  apply safe_bind; [apply when_safe; exact Hlog|]. intros _ _.
  pose proof (fun off ty => lla_option_at_safe p off ty Hw) as Hlla.
  destruct (nth 0 (arr p) 0 =? 136).
  { destruct (Nat.ltb_spec (len p) 24); [sdone|].
    apply safe_bind.
    { apply when_safe. apply Hsb. intros _. acc28 Hw. apply Hlla. }
    intros _ _. acc28 Hw. sif; [|sdone].
    apply safe_bind; [apply when_safe; apply Hlb; intros _; acc28 Hw; apply Hlla|]. intros _ _.
    destruct (Nat.ltb_spec (len p) 32); [sdone|]. acc28 Hw. sif; [sdone|]. acc28 Hw. sdone. }
  destruct (nth 0 (arr p) 0 =? 135).
  { destruct (Nat.ltb_spec (len p) 24); [sdone|].
    apply safe_bind; [apply when_safe; apply Hsb; intros _; acc28 Hw; apply Hlla|]. intros _ _.
    apply Hsb. intros src.
    sif; [apply when_safe; acc28 Hw; exact Hlog|]. acc28 Hw. sif; [|sdone]. apply Hdb. intros _. acc28 Hw. sdone. }
  destruct (nth 0 (arr p) 0 =? 134).
  { destruct (Nat.ltb_spec (len p) 16); [sdone|].
    sif; [sdone|].
    apply safe_bind; [apply ra_options_total; [exact Hw|exact Hf]|].
    intros _ _. apply Hsb. intros _. apply safe_bind; [apply when_safe; exact Hlog|]. intros _ _.
    acc28 Hw. rewrite !be32_at_ok by (unfold wf in Hw; lia). cbn [bind]. sdone. }
  destruct (nth 0 (arr p) 0 =? 133).
  { apply when_safe. apply Hsb. intros _. acc28 Hw. apply Hlla. }
  destruct (nth 0 (arr p) 0 =? 129); [apply when_safe; apply Hsb; intros _; apply echo_fastlog_safe; assumption|].
  destruct (nth 0 (arr p) 0 =? 128); [apply when_safe; apply Hlb; intros _; apply echo_fastlog_safe; assumption|].
  destruct (nth 0 (arr p) 0 =? 137).
  { destruct (Nat.ltb_spec (len p) 40); [sdone|]. apply when_safe. apply Hsb. intros _. acc28 Hw.
    apply safe_bind; [apply Hlla|]. intros _ _. acc28 Hw. sdone. }
  sif; [apply when_safe; apply Hsb; intros; sdone|].
  sif; [apply when_safe; exact Hlog|]. apply Hsb. intros; sdone.
Qed.

(* ICMPv6 carried by IPv4 (protocol 58): Parse classifies the frame PayloadICMP6 with no IPv6
   header; the processor (as repaired by d9f9e28) returns an error *)
Example icmp6_without_ip6_header :
  icmp6_process (fun _ => true) 100 (mkIcmp6Env true true true) None
                (of_bytes [135; 0; 0; 0; 0; 0; 0; 0; 254; 128; 0; 0; 0; 0; 0; 0; 0; 0; 0; 0; 0; 0; 0; 1]) = Err EFrameLen.
Proof. vm_compute. reflexivity. Qed.
