(* Proofs/ParseGlue.v — one reference, not two: the reference decoder of the Parse unit (Spec/RFC.v) against the RFC
   position specs of the view getters (Spec/Views.v, Spec/Views2.v, VIEWS cluster, imported read-only).  On every
   field both define - Ethernet source / destination / EtherType / header length, IPv4 and IPv6 source / destination /
   protocol / IHL / TotalLen / PayloadLen, UDP and TCP ports, TCP header length - ref_decode reports the value the
   view spec table gives at the offset ref_decode reports.  Spec-to-spec: no model is involved. *)
From PV Require Import Base.Prelude Spec.RFC Spec.Views Spec.Views2.
From Coq Require Import String.
Open Scope N_scope.

(* ---------- the position vocabulary of Spec/RFC.v in terms of the one of Spec/Views.v ---------- *)
Lemma sub_one (l : bytes) i : (i < List.length l)%nat -> sub l i 1 = [nth i l 0].
Proof.
  revert i. induction l as [|x xs IH]; intros i H; [cbn in H; lia|].
  destruct i as [|i]; [reflexivity|]. unfold sub in *. cbn [skipn nth]. apply IH. cbn in H. lia.
Qed.
Lemma sub_two (l : bytes) i : (i + 2 <= List.length l)%nat -> sub l i 2 = [nth i l 0; nth (i + 1) l 0].
Proof.
  revert i. induction l as [|x xs IH]; intros i H; [cbn in H; lia|].
  destruct i as [|i].
  - destruct xs as [|y ys]; [cbn in H; lia|]. reflexivity.
  - unfold sub in *. cbn [skipn nth Nat.add]. apply IH. cbn in H. lia.
Qed.

Ltac nat_eval :=
  repeat match goal with
  | |- context [Nat.div ?a ?b] => let v := eval vm_compute in (Nat.div a b) in change (Nat.div a b) with v
  | |- context [Nat.sub ?a ?b] => let v := eval vm_compute in (Nat.sub a b) in change (Nat.sub a b) with v
  | |- context [Nat.add ?a ?b] => let v := eval vm_compute in (Nat.add a b) in change (Nat.add a b) with v
  | |- context [Nat.mul ?a ?b] => let v := eval vm_compute in (Nat.mul a b) in change (Nat.mul a b) with v
  end.

Lemma bits_word_at l i (Hb : bytes_ok l) : (i + 2 <= List.length l)%nat -> field_be l i 2 mod 65536 = word_at l i.
Proof.
  intros H. unfold field_be, word_at, be16. rewrite sub_two by lia. cbn [be_val fold_left].
  pose proof (bytes_ok_nth l i Hb). pose proof (bytes_ok_nth l (i + 1) Hb). lia.
Qed.
Lemma bits_byte_at l i (Hb : bytes_ok l) : (i < List.length l)%nat -> field_be l i 1 = byte_at l i.
Proof.
  intros H. unfold field_be, byte_at. rewrite sub_one by lia. cbn [be_val fold_left]. lia.
Qed.

Ltac bits_norm := unfold bits; cbv zeta; nat_eval; cbn [N.of_nat];
  repeat match goal with |- context [2 ^ ?k] => let v := eval vm_compute in (2 ^ k) in change (2 ^ k) with v end;
  rewrite ?N.div_1_r.

Lemma ip4_ihl_glue l : bytes_ok l -> (1 <= List.length l)%nat -> Views.ip4_ihl l = 4 * (byte_at l 0 mod 16).
Proof.
  intros Hb H. unfold Views.ip4_ihl. bits_norm.
  rewrite bits_byte_at by (auto; lia). reflexivity.
Qed.
Lemma ip4_totallen_glue l : bytes_ok l -> (4 <= List.length l)%nat -> Views.ip4_totallen l = word_at l 2.
Proof.
  intros Hb H. unfold Views.ip4_totallen. bits_norm.
  apply bits_word_at; auto.
Qed.
Lemma byte_field_glue l i : bytes_ok l -> (i < List.length l)%nat -> field_be l i 1 mod 256 = byte_at l i.
Proof.
  intros Hb H. rewrite bits_byte_at by auto. pose proof (bytes_ok_nth l i Hb). unfold byte_at. rewrite N.mod_small; lia.
Qed.
Lemma ip4_protocol_glue l : bytes_ok l -> (10 <= List.length l)%nat -> bits l 72 8 = byte_at l 9.
Proof. intros Hb H. bits_norm. apply byte_field_glue; auto; lia. Qed.
Lemma ip6_next_header_glue l : bytes_ok l -> (7 <= List.length l)%nat -> bits l 48 8 = byte_at l 6.
Proof. intros Hb H. bits_norm. apply byte_field_glue; auto; lia. Qed.
Lemma ip6_payloadlen_glue l : bytes_ok l -> (6 <= List.length l)%nat -> bits l 32 16 = word_at l 4.
Proof. intros Hb H. bits_norm. apply bits_word_at; auto. Qed.
Lemma port_src_glue l : bytes_ok l -> (2 <= List.length l)%nat -> bits l 0 16 = word_at l 0.
Proof. intros Hb H. bits_norm. apply bits_word_at; auto. Qed.
Lemma port_dst_glue l : bytes_ok l -> (4 <= List.length l)%nat -> bits l 16 16 = word_at l 2.
Proof. intros Hb H. bits_norm. apply bits_word_at; auto. Qed.
Lemma tcp_hlen_glue l : bytes_ok l -> (13 <= List.length l)%nat -> Views.tcp_hlen l = 4 * (byte_at l 12 / 16).
Proof.
  intros Hb H. unfold Views.tcp_hlen. bits_norm. change (2 ^ 4) with 16.
  rewrite bits_byte_at by (auto; lia). pose proof (bytes_ok_nth l 12 Hb). unfold byte_at.
  rewrite N.mod_small; [reflexivity|]. apply N.div_lt_upper_bound; lia.
Qed.

Lemma ether_type_glue l : bytes_ok l -> (14 <= List.length l)%nat -> Views.ether_type l = word_at l 12.
Proof. intros Hb H. unfold Views.ether_type. bits_norm. apply bits_word_at; auto. Qed.

(* ---------- what a successful ref_decode says about its fields, in RFC.v's own vocabulary ---------- *)
Lemma skipn_skipn_add' {A} (l : list A) a k : skipn k (skipn a l) = skipn (a + k) l.
Proof.
  revert l. induction a as [|a IH]; intros l; [reflexivity|].
  destruct l as [|x xs]; [rewrite !skipn_nil; reflexivity|]. cbn [skipn Nat.add]. apply IH.
Qed.

Definition l4_fields (b : bytes) (r : ref_frame) : Prop :=
  (forall o, r_udp r = Some o -> (8 <= List.length (skipn o b))%nat /\
             r_sport r = word_at (skipn o b) 0 /\ r_dport r = word_at (skipn o b) 2) /\
  (forall o, r_tcp r = Some o -> (20 <= List.length (skipn o b))%nat /\
             r_sport r = word_at (skipn o b) 0 /\ r_dport r = word_at (skipn o b) 2).

Ltac fin :=
  repeat split; auto;
  try match goal with H : None = Some _ |- _ => discriminate H end;
  try (match goal with H : Some _ = Some _ |- _ => injection H as <- end; auto).

Lemma ref_l4_fields b base proto off r :
  r_udp base = None -> r_tcp base = None ->
  ref_l4 base proto (skipn off b) off = ROk r ->
  r_smac r = r_smac base /\ r_dmac r = r_dmac base /\ r_sip r = r_sip base /\ r_dip r = r_dip base /\
  r_ip4 r = r_ip4 base /\ r_ip6 r = r_ip6 base /\ l4_fields b r.
Proof.
  intros HU HT. unfold ref_l4, l4_fields.
  destruct (RFC.lookup proto ipproto_table) as [[| |id|id]|].
  - destruct (Nat.ltb_spec (List.length (skipn off b)) 8); [discriminate|].
    destruct (first_rule _ _ udp_rules); intros E; injection E as <-; cbn; fin.
  - destruct (Nat.ltb_spec (List.length (skipn off b)) 20); [discriminate|].
    destruct (_ || _); [discriminate|]. intros E; injection E as <-; cbn; fin.
  - destruct (Nat.ltb (List.length (skipn off b)) 8); [discriminate|].
    intros E; injection E as <-; cbn; rewrite ?HU, ?HT; fin.
  - intros E; injection E as <-; cbn; rewrite ?HU, ?HT; fin.
  - intros E; injection E as <-; cbn; rewrite ?HU, ?HT; fin.
Qed.

Definition fields (b : bytes) (r : ref_frame) : Prop :=
  r_smac r = sub b 6 6 /\ r_dmac r = sub b 0 6 /\ (14 <= List.length b)%nat /\
  (forall o, r_ip4 r = Some o -> (20 <= List.length (skipn o b))%nat /\
             r_sip r = sub (skipn o b) 12 4 /\ r_dip r = sub (skipn o b) 16 4) /\
  (forall o, r_ip6 r = Some o -> (40 <= List.length (skipn o b))%nat /\
             r_sip r = sub (skipn o b) 8 16 /\ r_dip r = sub (skipn o b) 24 16) /\
  l4_fields b r.

Theorem ref_decode_fields b r : ref_decode b = ROk r -> fields b r.
Proof.
  unfold ref_decode, fields.
  destruct (Nat.ltb_spec (List.length b) 14) as [|H14]; [discriminate|].
  destruct (Nat.ltb (List.length b) _); [discriminate|].
  assert (Hleaf : forall id pay, ROk (mkRef id (sub b 6 6) (sub b 0 6) [] [] 0 0 None None None None pay) = ROk r ->
    r_smac r = sub b 6 6 /\ r_dmac r = sub b 0 6 /\ (14 <= List.length b)%nat /\
    (forall o, r_ip4 r = Some o -> (20 <= List.length (skipn o b))%nat /\ r_sip r = sub (skipn o b) 12 4 /\ r_dip r = sub (skipn o b) 16 4) /\
    (forall o, r_ip6 r = Some o -> (40 <= List.length (skipn o b))%nat /\ r_sip r = sub (skipn o b) 8 16 /\ r_dip r = sub (skipn o b) 24 16) /\
    l4_fields b r).
  { intros id pay E. injection E as <-. cbn. unfold l4_fields. cbn. fin. }
  destruct (is_group_mac _); [apply Hleaf|].
  destruct (word_at b 12 <? 1536); [apply Hleaf|].
  destruct (RFC.lookup (word_at b 12) ethertype_table) as [[| | |id]|]; try apply Hleaf.
  - (* IPv4 *)
    unfold ref_ip4. destruct (Nat.ltb_spec (List.length (skipn 14 b)) 20) as [|H20]; [discriminate|].
    destruct (_ || _); [discriminate|].
    rewrite skipn_skipn_add'. intros E. apply ref_l4_fields in E; [|reflexivity|reflexivity].
    cbn [r_smac r_dmac r_sip r_dip r_ip4 r_ip6] in E. destruct E as (E1 & E2 & E3 & E4 & E5 & E6 & E7).
    rewrite E1, E2, E3, E4, E5, E6.
    split; [reflexivity|]. split; [reflexivity|]. split; [assumption|].
    split; [intros o E; injection E as <-; auto|]. split; [intros o E; discriminate|]. exact E7.
  - (* IPv6 *)
    unfold ref_ip6. destruct (Nat.ltb_spec (List.length (skipn 14 b)) 40) as [|H40]; [discriminate|].
    destruct (Nat.ltb _ _); [discriminate|].
    rewrite skipn_skipn_add'. intros E. apply ref_l4_fields in E; [|reflexivity|reflexivity].
    cbn [r_smac r_dmac r_sip r_dip r_ip4 r_ip6] in E. destruct E as (E1 & E2 & E3 & E4 & E5 & E6 & E7).
    rewrite E1, E2, E3, E4, E5, E6.
    split; [reflexivity|]. split; [reflexivity|]. split; [assumption|].
    split; [intros o E; discriminate|]. split; [intros o E; injection E as <-; auto|]. exact E7.
  - (* ARP *)
    unfold ref_arp. destruct (Nat.ltb _ 28); [discriminate|]. destruct (negb _); [discriminate|]. apply Hleaf.
Qed.

(* ---------- the glue: ref_decode's fields are the VIEWS position specs of the same fields ---------- *)
Open Scope string_scope.
Fixpoint spec_of (st : stable) (name : string) : spec :=
  match st with
  | [] => fun _ => VE
  | (n, Some s) :: r => if String.eqb n name then s else spec_of r name
  | (n, None) :: r => if String.eqb n name then (fun _ => VE) else spec_of r name
  end.

Theorem ref_decode_views_glue b r :
  bytes_ok b -> ref_decode b = ROk r ->
  (* Ethernet II (Ether_specs): Src / Dst are the ranges [6,12) / [0,6) whose bytes are r_smac / r_dmac; EtherType *)
  spec_of Ether_specs "Src" b = VR 6 6 /\ r_smac r = sub b 6 6 /\
  spec_of Ether_specs "Dst" b = VR 0 6 /\ r_dmac r = sub b 0 6 /\
  spec_of Ether_specs "EtherType" b = VN (word_at b 12) /\
  (* IPv4 (IP4_specs) at the offset ref_decode reports *)
  (forall o, r_ip4 r = Some o ->
     let p := skipn o b in
     spec_of IP4_specs "Src" p = VX (r_sip r) /\ spec_of IP4_specs "Dst" p = VX (r_dip r) /\
     spec_of IP4_specs "Protocol" p = VN (byte_at p 9) /\
     spec_of IP4_specs "IHL" p = VN (4 * (byte_at p 0 mod 16)) /\ spec_of IP4_specs "TotalLen" p = VN (word_at p 2)) /\
  (* IPv6 (IP6_specs) *)
  (forall o, r_ip6 r = Some o ->
     let p := skipn o b in
     spec_of IP6_specs "Src" p = VX (r_sip r) /\ spec_of IP6_specs "Dst" p = VX (r_dip r) /\
     spec_of IP6_specs "NextHeader" p = VN (byte_at p 6) /\ spec_of IP6_specs "PayloadLen" p = VN (word_at p 4)) /\
  (* UDP / TCP ports (UDP_specs, TCP_specs), TCP header length *)
  (forall o, r_udp r = Some o ->
     spec_of UDP_specs "SrcPort" (skipn o b) = VN (r_sport r) /\ spec_of UDP_specs "DstPort" (skipn o b) = VN (r_dport r)) /\
  (forall o, r_tcp r = Some o ->
     spec_of TCP_specs "SrcPort" (skipn o b) = VN (r_sport r) /\ spec_of TCP_specs "DstPort" (skipn o b) = VN (r_dport r) /\
     spec_of TCP_specs "HeaderLen" (skipn o b) = VN (4 * (byte_at (skipn o b) 12 / 16))).
Proof.
  intros Hb Hd. destruct (ref_decode_fields b r Hd) as (Hs & Hdm & H14 & H4 & H6 & HU & HT).
  split; [reflexivity|]. split; [exact Hs|]. split; [reflexivity|]. split; [exact Hdm|].
  split. { cbn [spec_of Ether_specs sp String.eqb Ascii.eqb Bool.eqb]. cbn. rewrite ether_type_glue by auto. reflexivity. }
  split.
  { intros o E p. destruct (H4 o E) as (L & S & D). pose proof (bytes_ok_skipn o b Hb) as Hp. fold p in L, S, D, Hp.
    split; [cbn; unfold scopy; rewrite S; reflexivity|]. split; [cbn; unfold scopy; rewrite D; reflexivity|].
    split; [cbn; unfold sfield; rewrite ip4_protocol_glue by (auto; lia); reflexivity|].
    split; [cbn; rewrite ip4_ihl_glue by (auto; lia); reflexivity|].
    cbn. rewrite ip4_totallen_glue by (auto; lia). reflexivity. }
  split.
  { intros o E p. destruct (H6 o E) as (L & S & D). pose proof (bytes_ok_skipn o b Hb) as Hp. fold p in L, S, D, Hp.
    split; [cbn; unfold scopy; rewrite S; reflexivity|]. split; [cbn; unfold scopy; rewrite D; reflexivity|].
    split; [cbn; unfold sfield; rewrite ip6_next_header_glue by (auto; lia); reflexivity|].
    cbn. unfold sfield. rewrite ip6_payloadlen_glue by (auto; lia). reflexivity. }
  split.
  { intros o E. destruct (HU o E) as (L & S & D). pose proof (bytes_ok_skipn o b Hb) as Hp.
    split; cbn; unfold sfield; [rewrite port_src_glue by (auto; lia)|rewrite port_dst_glue by (auto; lia)]; congruence. }
  intros o E. destruct (HT o E) as (L & S & D). pose proof (bytes_ok_skipn o b Hb) as Hp.
  split; [cbn; unfold sfield; rewrite port_src_glue by (auto; lia); congruence|].
  split; [cbn; unfold sfield; rewrite port_dst_glue by (auto; lia); congruence|].
  cbn. rewrite tcp_hlen_glue by (auto; lia). reflexivity.
Qed.

(* header length of the Ethernet frame: the tag table of RFC.v and ether_hlen of the views *)
Lemma ether_hlen_glue b : bytes_ok b -> (14 <= List.length b)%nat ->
  Views.ether_hlen b = (14 + match RFC.lookup (word_at b 12) tag_table with Some n => n | None => 0 end)%nat.
Proof.
  intros Hb H. unfold Views.ether_hlen. rewrite ether_type_glue by auto. unfold tag_table, RFC.lookup.
  destruct (N.eqb (word_at b 12) 33024); [reflexivity|]. destruct (N.eqb (word_at b 12) 34984); reflexivity.
Qed.

Example glue_nonvacuous :
  let b := ([0;102;102;102;102;102; 2;17;17;17;17;17; 8;0] ++
            [69;0;0;32; 0;0;0;0; 64;17;0;0; 192;168;0;7; 8;8;8;8] ++ [200;0; 0;53; 0;12; 0;0] ++ [1;2;3;4])%list in
  bytes_ok b /\ exists r, ref_decode b = ROk r /\ r_ip4 r = Some 14%nat /\ r_udp r = Some 34%nat /\
  spec_of UDP_specs "DstPort" (skipn 34 b) = VN 53 /\ spec_of IP4_specs "Src" (skipn 14 b) = VX [192;168;0;7].
Proof.
  cbv zeta. split; [apply bytes_okb_spec; vm_compute; reflexivity|]. eexists. split; [vm_compute; reflexivity|].
  repeat split; vm_compute; reflexivity.
Qed.
