(* Proofs/Locks.v — general facts about the interleaving semantics of
   Model/Locks.v, proved once for ANY operation table:
   * [inv_reachable]     the lock-order invariant is preserved by every step;
   * [no_deadlock_set]   no reachable state contains a set of threads that wait
                         for each other (least-held-lock argument, with the
                         RWMutex writer-preference rule);
   * [progress]          hence some thread can always step while work remains;
   * [tmpl_ordered]      a template accepted by the class-level checker
                         [tmpl_ok] is lock-ordered on EVERY instantiation. *)
From PV Require Import Base.Prelude Model.Locks.
From Coq Require Import Bool Arith Lia.
Open Scope nat_scope.

(* ---------- equality tests ---------- *)

Lemma lockc_eqb_eq : forall a b, lockc_eqb a b = true <-> a = b.
Proof.
  intros a b; split.
  - destruct a, b; cbv; intro H; try reflexivity; discriminate H.
  - intros ->; destruct b; reflexivity.
Qed.

Lemma lock_eqb_eq : forall a b : lock, lock_eqb a b = true <-> a = b.
Proof.
  intros [c i] [d j]; unfold lock_eqb; cbn [fst snd].
  rewrite andb_true_iff, lockc_eqb_eq, Nat.eqb_eq.
  split; [intros [-> ->]; reflexivity | intros H; inversion H; auto].
Qed.

Lemma lock_eqb_refl : forall a : lock, lock_eqb a a = true.
Proof. intros; apply lock_eqb_eq; reflexivity. Qed.

Section Gen.
Variable op : Type.
Variable template : op -> tmpl op.
Variable rk : lock -> nat.
Notation body := (body op template).
Notation thread := (thread op).
Notation state := (state op).
Notation step := (step op template).
Notation reachable := (reachable op template).
Notation ordered := (ordered op rk).

(* every operation of the table, on every row instance, respects the order [rk] *)
Hypothesis Hord : forall o rows, ordered [] (body o rows).

Definition hlocks (t : thread) : list lock := map fst (held op t).
Definition thread_ok (t : thread) : Prop := ordered (hlocks t) (rest op t).
Definition inv (s : state) : Prop := Forall thread_ok (threads op s).

(* ---------- list plumbing ---------- *)

Lemma Forall_set_thread : forall (P : thread -> Prop) l i t,
  Forall P l -> P t -> Forall P (set_thread op i t l).
Proof.
  intros P l; induction l as [|x l IH]; intros i t Hl Ht; cbn.
  - destruct i; constructor.
  - inversion Hl; subst. destruct i; constructor; auto.
Qed.

Lemma Forall_nth_error : forall (P : thread -> Prop) l i t,
  Forall P l -> nth_error l i = Some t -> P t.
Proof.
  intros P l i t Hl Hn. apply nth_error_In in Hn. rewrite Forall_forall in Hl. auto.
Qed.

Lemma hlocks_remove : forall l h, map fst (remove_lock l h) = remove1 l (map fst h).
Proof.
  intros l h; induction h as [|x h IH]; cbn; [reflexivity|].
  destruct (lock_eqb (fst x) l); cbn; [reflexivity | now rewrite IH].
Qed.

(* ---------- the invariant ---------- *)

Lemma inv_init : forall l, inv (init op template l).
Proof.
  intros l; unfold inv, init; cbn. rewrite Forall_forall; intros t Ht.
  apply in_map_iff in Ht as [[o rows] [<- _]]. unfold thread_ok, hlocks, start; cbn. apply Hord.
Qed.

Lemma inv_step : forall s i s', inv s -> step s i = Some s' -> inv s'.
Proof.
  intros s i s' Hinv Hstep. unfold Locks.step in Hstep.
  destruct (panicked op s); [discriminate|].
  destruct (nth_error (threads op s) i) as [t|] eqn:Hn; [|discriminate].
  pose proof (Forall_nth_error _ _ _ _ Hinv Hn) as Hok. unfold thread_ok in Hok.
  destruct (rest op t) as [|a r] eqn:Hr; [discriminate|].
  destruct a; cbn in Hok.
  - (* Acq *) destruct (can_acquire op (threads op s) i t l m); [|discriminate].
    inversion Hstep; subst; clear Hstep. unfold inv, upd; cbn.
    apply Forall_set_thread; auto. unfold thread_ok, hlocks; cbn. apply Hok.
  - (* Rel *) inversion Hstep; subst; clear Hstep. unfold inv, upd; cbn.
    apply Forall_set_thread; auto. unfold thread_ok, hlocks; cbn. rewrite hlocks_remove. apply Hok.
  - inversion Hstep; subst. unfold inv, upd; cbn. apply Forall_set_thread; auto.
  - inversion Hstep; subst. unfold inv, upd; cbn. apply Forall_set_thread; auto.
  - inversion Hstep; subst. unfold inv, upd; cbn. apply Forall_set_thread; auto.
  - inversion Hstep; subst. unfold inv, upd; cbn. apply Forall_set_thread; auto.
  - (* Send *) destruct (chan_closed op s c); inversion Hstep; subst; unfold inv; cbn; auto.
    apply Forall_set_thread; auto.
  - inversion Hstep; subst. unfold inv, upd; cbn. apply Forall_set_thread; auto.
  - (* CloseCh *) destruct (chan_closed op s c); inversion Hstep; subst; unfold inv; cbn; auto.
    apply Forall_set_thread; auto.
  - (* Spawn *) inversion Hstep; subst. unfold inv; cbn. apply Forall_app; split.
    + apply Forall_set_thread; auto.
    + constructor; [|constructor]. unfold thread_ok, hlocks, start; cbn. apply Hord.
  - (* ExitIfClosed *) destruct Hok as [Hh Hok].
    destruct (chan_closed op s c); inversion Hstep; subst; unfold inv, upd; cbn;
      apply Forall_set_thread; auto; unfold thread_ok; cbn; auto.
  - (* ExitIfFlag *) destruct Hok as [Hh Hok].
    destruct (flag_set op s x); inversion Hstep; subst; unfold inv, upd; cbn;
      apply Forall_set_thread; auto; unfold thread_ok; cbn; auto.
  - (* SetFlag *) inversion Hstep; subst. unfold inv; cbn. apply Forall_set_thread; auto.
  - (* Again *) inversion Hstep; subst. unfold inv, upd; cbn. apply Forall_set_thread; auto.
    unfold thread_ok, hlocks; cbn. fold (hlocks t). rewrite Hok. apply Hord.
  - (* Once *) destruct (flag_set op s x); inversion Hstep; subst; unfold inv, upd; cbn;
      apply Forall_set_thread; auto; unfold thread_ok, hlocks; cbn; auto.
  - (* Wake *) inversion Hstep; subst. unfold inv, upd; cbn. apply Forall_set_thread; auto.
  - (* SendIfOpen *) destruct (flag_set op s x); [|destruct (chan_closed op s c)];
      inversion Hstep; subst; unfold inv, upd; cbn; auto; apply Forall_set_thread; auto.
  - (* Recv *) inversion Hstep; subst. unfold inv, upd; cbn. apply Forall_set_thread; auto.
Qed.

Lemma inv_reachable : forall s0 s, inv s0 -> reachable s0 s -> inv s.
Proof. intros s0 s H0 Hr; induction Hr; eauto using inv_step. Qed.

(* ---------- waiting, blocking ---------- *)

Definition next_acq (t : thread) : option (lock * mode) :=
  match rest op t with Acq _ l m :: _ => Some (l, m) | _ => None end.

(* thread i is at an acquire *)
Definition waiting (s : state) (i : nat) : Prop :=
  exists t l m, nth_error (threads op s) i = Some t /\ next_acq t = Some (l, m).

(* thread j is a reason why thread i's acquire of l is not granted: j holds l
   (in ANY mode: more blockers than Go has, hence a stronger theorem), or i
   wants to read and j is a writer waiting for l (writer preference) *)
Definition blocks (s : state) (j i : nat) : Prop :=
  exists ti tj l m,
    nth_error (threads op s) i = Some ti /\ nth_error (threads op s) j = Some tj /\
    next_acq ti = Some (l, m) /\
    (holds op tj l = true \/ (m = MR /\ waitsW op tj l = true)).

Definition weight (s : state) (i : nat) : nat :=
  match nth_error (threads op s) i with
  | Some t => match next_acq t with
              | Some (l, m) => 2 * rk l + (if is_W m then 1 else 0)
              | None => 0
              end
  | None => 0
  end.

Lemma max_in : forall (f : nat -> nat) (D : list nat), D <> [] ->
  exists i, In i D /\ forall j, In j D -> f j <= f i.
Proof.
  intros f D; induction D as [|a D IH]; intros HD; [congruence|].
  destruct D as [|b D].
  - exists a; split; [left; auto|]. intros j [<-|[]]; lia.
  - destruct IH as [i [Hi Hmax]]; [congruence|].
    destruct (le_lt_dec (f a) (f i)).
    + exists i; split; [right; auto|]. intros j [<-|Hj]; auto.
    + exists a; split; [left; auto|]. intros j [<-|Hj]; [lia|]. specialize (Hmax j Hj); lia.
Qed.

Lemma holds_In : forall (t : thread) l, holds op t l = true -> In l (hlocks t).
Proof.
  intros t l H. unfold holds in H. apply existsb_exists in H as [h [Hin Heq]].
  apply lock_eqb_eq in Heq. subst l. unfold hlocks. apply in_map; auto.
Qed.

(* THE GENERAL LEMMA.  In every reachable state, every non-empty set D of
   threads standing at an acquire contains a thread that no member of D blocks:
   there is no lock-wait cycle (nor knot) in any interleaving of any multiset
   of lock-ordered operations. *)
Theorem no_deadlock_set : forall s0 s, inv s0 -> reachable s0 s ->
  forall D, D <> [] -> (forall i, In i D -> waiting s i) ->
  exists i, In i D /\ forall j, In j D -> ~ blocks s j i.
Proof.
  intros s0 s H0 Hr D HD Hw.
  pose proof (inv_reachable _ _ H0 Hr) as Hinv.
  destruct (max_in (weight s) D HD) as [i [Hi Hmax]].
  exists i; split; auto. intros j Hj Hb.
  specialize (Hmax j Hj).
  destruct Hb as [ti [tj [l [m [Hni [Hnj [Hai Hc]]]]]]].
  destruct (Hw j Hj) as [tj' [lj [mj [Hnj' Haj]]]].
  rewrite Hnj in Hnj'; inversion Hnj'; subst tj'; clear Hnj'.
  unfold weight in Hmax. rewrite Hni, Hnj, Hai, Haj in Hmax.
  pose proof (Forall_nth_error _ _ _ _ Hinv Hnj) as Hok. unfold thread_ok in Hok.
  unfold next_acq in Haj. destruct (rest op tj) as [|a r] eqn:Hrj; [discriminate|].
  destruct a; try discriminate. inversion Haj; subst; clear Haj. cbn in Hok.
  destruct Hok as [Hlt _].
  destruct Hc as [Hh | [Hm Hww]].
  - apply holds_In in Hh. specialize (Hlt _ Hh). destruct (is_W m), (is_W mj); lia.
  - subst m. unfold waitsW in Hww. rewrite Hrj in Hww. destruct mj; [discriminate|].
    apply lock_eqb_eq in Hww. subst. cbn in Hmax. lia.
Qed.

(* ---------- progress ---------- *)

Definition stuckb (s : state) (i : nat) : bool :=
  match nth_error (threads op s) i with
  | Some t => match rest op t with
              | Acq _ l m :: _ => negb (can_acquire op (threads op s) i t l m)
              | _ => false
              end
  | None => false
  end.

Lemma others_In : forall (l : list thread) i t, In t (others i l) -> exists j, nth_error l j = Some t.
Proof.
  intros l; induction l as [|x l IH]; intros i t H; cbn in H.
  - destruct i; contradiction.
  - destruct i.
    + apply In_nth_error in H as [j Hj]. exists (S j); auto.
    + destruct H as [<-|H]; [exists 0; auto|]. destruct (IH _ _ H) as [j Hj]. exists (S j); auto.
Qed.

Lemma holdsW_holds : forall (t : thread) l, holdsW op t l = true -> holds op t l = true.
Proof.
  intros t l H. unfold holdsW in H. apply existsb_exists in H as [h [Hin Heq]].
  apply andb_true_iff in Heq as [Heq _]. unfold holds. apply existsb_exists. eauto.
Qed.

Lemma stuck_blocked : forall s i, stuckb s i = true -> exists j, blocks s j i.
Proof.
  intros s i H. unfold stuckb in H.
  destruct (nth_error (threads op s) i) as [t|] eqn:Hn; [|discriminate].
  destruct (rest op t) as [|a r] eqn:Hr; [discriminate|]. destruct a; try discriminate.
  apply negb_true_iff in H. unfold can_acquire in H.
  assert (Hna : next_acq t = Some (l, m)) by (unfold next_acq; rewrite Hr; reflexivity).
  destruct m.
  - apply andb_false_iff in H as [H|H].
    + apply negb_false_iff in H. exists i, t, t, l, MR. repeat split; auto. left. apply holdsW_holds; auto.
    + assert (exists t', In t' (others i (threads op s)) /\
                (holdsW op t' l = true \/ waitsW op t' l = true)) as [t' [Hin Hc]].
      { clear -H. induction (others i (threads op s)) as [|x xs IH]; cbn in H; [discriminate|].
        apply andb_false_iff in H as [H|H].
        - exists x; split; [left; auto|]. apply andb_false_iff in H as [H|H]; apply negb_false_iff in H; auto.
        - destruct (IH H) as [t' [? ?]]. exists t'; split; [right|]; auto. }
      destruct (others_In _ _ _ Hin) as [j Hj]. exists j, t, t', l, MR. repeat split; auto.
      destruct Hc as [Hc|Hc]; [left; apply holdsW_holds; auto | right; auto].
  - apply andb_false_iff in H as [H|H].
    + apply negb_false_iff in H. exists i, t, t, l, MW. repeat split; auto.
    + assert (exists t', In t' (others i (threads op s)) /\ holds op t' l = true) as [t' [Hin Hc]].
      { clear -H. induction (others i (threads op s)) as [|x xs IH]; cbn in H; [discriminate|].
        apply andb_false_iff in H as [H|H].
        - exists x; split; [left; auto|]. apply negb_false_iff in H; auto.
        - destruct (IH H) as [t' [? ?]]. exists t'; split; [right|]; auto. }
      destruct (others_In _ _ _ Hin) as [j Hj]. exists j, t, t', l, MW. repeat split; auto.
Qed.

Definition enabled (s : state) (i : nat) : Prop := exists s', step s i = Some s'.

Lemma not_stuck_enabled : forall s i t,
  panicked op s = false -> nth_error (threads op s) i = Some t -> rest op t <> [] ->
  stuckb s i = false -> enabled s i.
Proof.
  intros s i t Hp Hn Hr Hs. unfold enabled, Locks.step. rewrite Hp, Hn.
  unfold stuckb in Hs. rewrite Hn in Hs.
  destruct (rest op t) as [|a r]; [congruence|].
  destruct a; eauto.
  - apply negb_false_iff in Hs. rewrite Hs. eauto.
  - destruct (chan_closed op s c); eauto.
  - destruct (chan_closed op s c); eauto.
  - destruct (chan_closed op s c); eauto.
  - destruct (flag_set op s x); eauto.
  - destruct (flag_set op s x); eauto.
  - destruct (flag_set op s x); [|destruct (chan_closed op s c)]; eauto.
Qed.

(* While some thread has work left and the program has not panicked, some
   thread can step: no interleaving of lock-ordered operations gets stuck. *)
Theorem progress : forall s0 s, inv s0 -> reachable s0 s -> panicked op s = false ->
  (exists i t, nth_error (threads op s) i = Some t /\ rest op t <> []) ->
  exists i, enabled s i.
Proof.
  intros s0 s H0 Hr Hp [i0 [t0 [Hn0 Hr0]]].
  pose proof (inv_reachable _ _ H0 Hr) as Hinv.
  set (D := filter (stuckb s) (seq 0 (length (threads op s)))).
  destruct (stuckb s i0) eqn:Hs0; [|exists i0; eapply not_stuck_enabled; eauto].
  assert (HD : D <> []).
  { assert (In i0 D); [|intro E; rewrite E in H; contradiction].
    apply filter_In; split; auto. apply in_seq. split; [lia|]. cbn.
    apply nth_error_Some. congruence. }
  assert (Hw : forall i, In i D -> waiting s i).
  { intros i Hi. apply filter_In in Hi as [_ Hs]. unfold stuckb in Hs.
    destruct (nth_error (threads op s) i) as [t|] eqn:Hn; [|discriminate].
    destruct (rest op t) as [|a r] eqn:Hrr; [discriminate|]. destruct a; try discriminate.
    exists t, l, m. split; auto. unfold next_acq. rewrite Hrr. reflexivity. }
  destruct (no_deadlock_set _ _ H0 Hr D HD Hw) as [i [Hi Hnb]].
  apply filter_In in Hi as [_ Hsi].
  destruct (stuck_blocked _ _ Hsi) as [j Hb].
  assert (HjD : ~ In j D) by (intro Hj; exact (Hnb j Hj Hb)).
  destruct Hb as [ti [tj [l [m [Hni [Hnj [Hai Hc]]]]]]].
  assert (Hsj : stuckb s j = false).
  { destruct (stuckb s j) eqn:E; auto. exfalso. apply HjD. apply filter_In; split; auto.
    apply in_seq. split; [lia|]. cbn. apply nth_error_Some. congruence. }
  exists j. eapply not_stuck_enabled; eauto.
  intro Hrj. pose proof (Forall_nth_error _ _ _ _ Hinv Hnj) as Hok. unfold thread_ok in Hok.
  rewrite Hrj in Hok. cbn in Hok.
  destruct Hc as [Hh | [_ Hww]].
  - apply holds_In in Hh. rewrite Hok in Hh. contradiction.
  - unfold waitsW in Hww. rewrite Hrj in Hww. discriminate.
Qed.

End Gen.

(* ---------- templates: the class-level check covers every instantiation ---------- *)

Section Tmpl.
Variable op : Type.
Notation tord := (tord op).
Notation ordered := (ordered op rank).

Definition hl (r : nat) (h : list (lockc * mode)) : list lock := map (fun x => ilock r (fst x)) h.

Lemma rank_ilock : forall r c, rank (ilock r c) = crank c.
Proof. reflexivity. Qed.

Lemma lock_eqb_ilock : forall r a b, lock_eqb (ilock r a) (ilock r b) = lockc_eqb a b.
Proof.
  intros r a b. unfold lock_eqb, ilock; cbn [fst snd].
  destruct (lockc_eqb a b) eqn:E; [|reflexivity].
  apply lockc_eqb_eq in E; subst. rewrite Nat.eqb_refl. reflexivity.
Qed.

Lemma hl_cremove : forall r c h, remove1 (ilock r c) (hl r h) = hl r (cremove c h).
Proof.
  intros r c h; unfold hl; induction h as [|x h IH]; cbn; [reflexivity|].
  rewrite lock_eqb_ilock. destruct (lockc_eqb (fst x) c); cbn; [reflexivity | now rewrite IH].
Qed.

Lemma cheld_In : forall r c h, cheld c h = true -> In (ilock r c) (hl r h).
Proof.
  intros r c h H. unfold cheld in H. apply existsb_exists in H as [x [Hin Heq]].
  apply lockc_eqb_eq in Heq. subst c. unfold hl. apply in_map_iff. eauto.
Qed.

Lemma tord_ordered : forall acts h h' r k,
  tord h acts = Some h' -> ordered (hl r h') k -> ordered (hl r h) (inst op r acts ++ k).
Proof.
  induction acts as [|a acts IH]; intros h h' r k Ht Hk.
  - cbn in Ht. inversion Ht; subst. exact Hk.
  - destruct a; cbn [Locks.tord] in Ht; cbn [inst map inst1 app Locks.ordered]; try (eapply IH; eauto; fail).
    + (* TAcq *)
      destruct (forallb (fun x => crank (fst x) <? crank c) h) eqn:Hf; [|discriminate].
      split.
      * intros x Hx. unfold hl in Hx. apply in_map_iff in Hx as [y [<- Hy]].
        rewrite !rank_ilock. rewrite forallb_forall in Hf. specialize (Hf y Hy).
        apply Nat.ltb_lt in Hf. exact Hf.
      * change (ilock r c :: hl r h) with (hl r ((c, m) :: h)). eapply IH; eauto.
    + (* TRel *)
      destruct (cheld c h) eqn:Hc; [|discriminate]. split.
      * apply cheld_In; auto.
      * rewrite hl_cremove. eapply IH; eauto.
    + (* TExitIfClosed *) destruct h; [|discriminate]. split; [reflexivity|]. eapply IH; eauto.
    + (* TExitIfFlag *) destruct h; [|discriminate]. split; [reflexivity|]. eapply IH; eauto.
    + (* TAgain *) destruct h; [reflexivity|discriminate].
Qed.

Lemma hl_singletons : forall r r' h,
  forallb (fun x => negb (per_row_lock (fst x))) h = true -> hl r h = hl r' h.
Proof.
  intros r r' h H. unfold hl. apply map_ext_in. intros x Hx.
  rewrite forallb_forall in H. specialize (H x Hx). unfold ilock.
  destruct (per_row_lock (fst x)); [discriminate|reflexivity].
Qed.

Lemma mode_eqb_eq : forall a b, mode_eqb a b = true -> a = b.
Proof. destruct a, b; cbn; congruence. Qed.

Lemma held_eqb_hl : forall r a b, held_eqb a b = true -> hl r a = hl r b.
Proof.
  intros r a; induction a as [|x a IH]; intros b H; destruct b as [|y b]; cbn in H; try discriminate; auto.
  unfold held_eqb in H. cbn in H. apply andb_true_iff in H as [Hlen H].
  apply andb_true_iff in H as [Hxy H]. apply andb_true_iff in Hxy as [Hc _].
  apply lockc_eqb_eq in Hc. cbn. rewrite Hc. f_equal. apply IH.
  unfold held_eqb. rewrite Hlen, H. reflexivity.
Qed.

Theorem tmpl_ordered : forall (t : tmpl op), tmpl_ok op t = true ->
  forall rows, ordered [] (body_of op t rows).
Proof.
  intros t Hok rows. unfold tmpl_ok in Hok.
  destruct (tord [] (t_pre op t)) as [h1|] eqn:Hpre; [|discriminate].
  apply andb_true_iff in Hok as [Hsing Hok].
  destruct (tord h1 (t_each op t)) as [h2|] eqn:Heach; [|discriminate].
  apply andb_true_iff in Hok as [Heq Hpost].
  destruct (tord h1 (t_post op t)) as [[|]|] eqn:Hp; try discriminate.
  unfold body_of. generalize (hd 0 rows). intros r0.
  change (@nil lock) with (hl r0 []).
  eapply tord_ordered; eauto.
  induction rows as [|r rows IH]; cbn [flat_map app].
  - rewrite <- (app_nil_r (inst op r0 (t_post op t))).
    eapply tord_ordered; eauto. reflexivity.
  - rewrite <- app_assoc. rewrite (hl_singletons r0 r h1 Hsing).
    eapply tord_ordered; eauto.
    rewrite <- (held_eqb_hl r _ _ Heq). rewrite (hl_singletons r r0 h1 Hsing). exact IH.
Qed.

End Tmpl.
