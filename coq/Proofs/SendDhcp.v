(* Proofs/SendDhcp.v — EncodeDHCP4 (layer_dhcp4.go:349) for the client messages the library sends
   (DISCOVER, DECLINE, RELEASE): normal form of the encoder over an arbitrary previous buffer content,
   decode-back under the reference DHCP decoder, and the send paths built on it. *)
From PV Require Import Proofs.SendBase Model.Send Model.SendUdp Spec.SendRefUdp Proofs.Send Proofs.SendUdp.
Open Scope N_scope.

(* ---------------------------------------------------------------- *)
(* list lemmas (over list N: byte is an alias of N) *)
Lemma firstn_len_app' {A} (a b : list A) : firstn (length a) (a ++ b) = a.
Proof. induction a; simpl; auto. f_equal; auto. Qed.
Lemma blit0_app (src l : list N) : (length src <= length l)%nat -> blit 0 src l = src ++ skipn (length src) l.
Proof.
  revert l. induction src as [|s src IH]; intros l H.
  - destruct l; reflexivity.
  - destruct l as [|x l]; [simpl in H; lia|]. simpl. f_equal. apply IH. simpl in H. lia.
Qed.
Lemma blit0_nil (l : list N) : blit 0 [] l = l.
Proof. destruct l; reflexivity. Qed.
Lemma set_nth_len_app {A} (a : list A) v x r : set_nth (length a) v (a ++ x :: r) = a ++ v :: r.
Proof. induction a; simpl; auto. f_equal; auto. Qed.
Lemma set_nth_app_r {A} (a b : list A) k v : set_nth (length a + k) v (a ++ b) = a ++ set_nth k v b.
Proof. induction a; simpl; auto. f_equal; auto. Qed.
Lemma blit_app_r (a src b : list N) k : blit (length a + k) src (a ++ b) = a ++ blit k src b.
Proof. induction a; simpl; auto. f_equal; auto. Qed.
Lemma firstn_app_r {A} (a b : list A) k : firstn (length a + k) (a ++ b) = a ++ firstn k b.
Proof. induction a; simpl; auto. f_equal; auto. Qed.
Lemma blit_S_len (a src r : list N) x : blit (S (length a)) src (a ++ x :: r) = a ++ x :: blit 0 src r.
Proof. induction a; simpl; auto. f_equal; auto. Qed.
Lemma firstn_S_len_app {A} (a : list A) x r : firstn (S (length a)) (a ++ x :: r) = a ++ [x].
Proof. induction a; simpl; auto. f_equal; auto. Qed.
Lemma firstn_blit0_src (src r : list N) : (length src <= length r)%nat -> firstn (length src) (blit 0 src r) = src.
Proof. intros H. rewrite blit0_app by exact H. apply firstn_len_app'. Qed.

(* ---------------------------------------------------------------- *)
(* EncodeDHCP4 = header writes, then option tail *)
Definition dhcp_hdr (p : bytes) (opcode : N) (chaddr : option bytes) (ciaddr yiaddr : bytes)
                    (xid : option bytes) (broadcast : bool) : bytes :=
  let p := zero 34 202 p in
  let p := set_nth 0 (u8 opcode) p in
  let p := set_nth 1 1 p in
  let p := set_nth 2 6 p in
  let p := set_nth 3 0 p in
  let p := match xid with Some x => cpy 4 4 x p | None => p end in
  let p := put16 8 0 p in
  let p := put16 10 0 p in
  let p := cpy 236 4 [99; 130; 83; 99] p in
  let p := if is4 ciaddr then cpy 12 4 ciaddr p else p in
  let p := if is4 yiaddr then cpy 16 4 yiaddr p else p in
  let p := cpy 20 4 ipv4zero p in
  let p := cpy 24 4 ipv4zero p in
  let p := match chaddr with
           | Some a => set_nth 2 (u8 (N.of_nat (List.length a))) (cpy 28 16 a p)
           | None => p end in
  if broadcast then set_nth 10 128 p else p.

Definition dhcp_tail (p ob : list N) : list N :=
  let p := cpy 240 (List.length p - 240) ob p in
  let n := (240 + List.length ob)%nat in
  let p := set_nth n 255 p in
  let n := S n in
  let p := if Nat.ltb n 300 then zero n (300 - n) p else p in
  firstn (Nat.max n 300) p.

Lemma enc_dhcp4_split p opcode ch ci yi xid bc opts :
  enc_dhcp4 p opcode ch ci yi xid bc opts =
  if Nat.ltb (List.length p) 300 then None else Some (dhcp_tail (dhcp_hdr p opcode ch ci yi xid bc) (append_options opts)).
Proof. reflexivity. Qed.

(* the option tail on a buffer H ++ rest with |H| = 240: options, End, padding up to 300 bytes *)
Lemma dhcp_tail_nf (H rest ob : list N) :
  length H = 240%nat -> (60 <= length rest)%nat -> (length ob + 1 <= length rest)%nat ->
  dhcp_tail (H ++ rest) ob = H ++ ob ++ 255 :: repeat 0 (59 - length ob).
Proof.
  intros HH Hr Hob. unfold dhcp_tail, cpy, zero.
  rewrite app_length, HH. replace (240 + length rest - 240)%nat with (length rest) by lia.
  rewrite (firstn_all2 ob) by lia.
  assert (E1 : blit 240 ob (H ++ rest) = H ++ blit 0 ob rest)
    by (replace 240%nat with (length H + 0)%nat by lia; apply blit_app_r).
  rewrite E1, blit0_app by lia.
  destruct (skipn (length ob) rest) as [|x r'] eqn:Er.
  { exfalso. apply (f_equal (@length _)) in Er. rewrite skipn_length in Er. simpl in Er. lia. }
  assert (Hr' : length r' = (length rest - length ob - 1)%nat).
  { apply (f_equal (@length _)) in Er. rewrite skipn_length in Er. simpl in Er. lia. }
  replace (240 + length ob)%nat with (length H + length ob)%nat by lia. rewrite set_nth_app_r, set_nth_len_app.
  destruct (Nat.ltb_spec (S (length H + length ob)) 300) as [Hlt|Hge].
  - rewrite Nat.max_r by lia.
    replace (S (length H + length ob)) with (length H + S (length ob))%nat by lia.
    rewrite blit_app_r, blit_S_len.
    replace 300%nat with (length H + 60)%nat by lia. rewrite firstn_app_r. f_equal.
    rewrite firstn_app, (firstn_all2 ob) by lia. f_equal.
    replace (60 - length ob)%nat with (S (59 - length ob)) by lia. cbn [firstn]. f_equal.
    replace (length H + 60 - (length H + S (length ob)))%nat with (59 - length ob)%nat by lia.
    rewrite <- (repeat_length 0 (59 - length ob)) at 1. apply firstn_blit0_src. rewrite repeat_length. lia.
  - rewrite Nat.max_l by lia.
    replace (S (length H + length ob)) with (length H + S (length ob))%nat by lia.
    rewrite firstn_app_r, firstn_S_len_app.
    replace (59 - length ob)%nat with 0%nat by lia. reflexivity.
Qed.

(* the header writes of a client message over H ++ rest, |H| = 240: every byte of H is overwritten *)
Definition dhcp_client_hdr (ch ci xid : bytes) : bytes :=
  [1; 1; 6; 0] ++ xid ++ [0; 0; 0; 0] ++ ci ++ repeat 0 12 ++ ch ++ repeat 0 10 ++ repeat 0 192 ++ [99; 130; 83; 99].

Lemma dhcp_hdr_client (h rest : bytes) ch ci xid :
  length h = 240%nat -> mac_ok ch -> ip4_ok ci -> length xid = 4%nat ->
  dhcp_hdr (h ++ rest) 1 (Some ch) ci ipv4zero (Some xid) false = dhcp_client_hdr ch ci xid ++ rest.
Proof.
  intros Hh [Hch _] [Hci _] Hx. unfold dhcp_hdr, is4. rewrite Hci. cbn [Nat.eqb length ipv4zero].
  explode ch Hch. explode ci Hci. explode xid Hx. explode h Hh.
  cbn. unfold bytes, byte. rewrite blit0_nil. reflexivity.
Qed.

Definition dhcp_client_nf (ch ci xid ob : bytes) : bytes :=
  dhcp_client_hdr ch ci xid ++ ob ++ 255 :: repeat 0 (59 - length ob).

(* EncodeDHCP4 of a client message into any buffer of at least 300 bytes that has room for the options *)
Lemma enc_dhcp4_client p ch ci xid opts :
  mac_ok ch -> ip4_ok ci -> length xid = 4%nat ->
  (300 <= length p)%nat -> (241 + length (append_options opts) <= length p)%nat ->
  enc_dhcp4 p 1 (Some ch) ci ipv4zero (Some xid) false opts = Some (dhcp_client_nf ch ci xid (append_options opts)).
Proof.
  intros Hch Hci Hx Hp Hob. rewrite enc_dhcp4_split.
  destruct (Nat.ltb_spec (length p) 300) as [Hlt|_]; [lia|]. f_equal.
  assert (Hp' : (240 <= length p)%nat) by lia.
  destruct (split_at 240 p Hp') as (h & rest & -> & Hh).
  rewrite app_length, Hh in Hp, Hob.
  rewrite dhcp_hdr_client by assumption.
  unfold dhcp_client_nf. apply dhcp_tail_nf.
  - unfold dhcp_client_hdr. rewrite !app_length, !repeat_length, (proj1 Hch), (proj1 Hci), Hx. reflexivity.
  - unfold bytes, byte in *. lia.
  - unfold bytes, byte in *. lia.
Qed.

(* ---------------------------------------------------------------- *)
(* the reference option walker inverts the option encoding *)
Definition opt_ok (o : N * bytes) : Prop := 0 < fst o < 255 /\ (length (snd o) <= 255)%nat.

Lemma skipn_len_app' {A} (a b : list A) : skipn (length a) (a ++ b) = b.
Proof. induction a; simpl; auto. Qed.

Lemma natN_of_nat' n : natN (N.of_nat n) = n.
Proof.
  unfold natN. induction n as [|n IH]; [reflexivity|].
  rewrite Nat2N.inj_succ, N.iter_succ, IH. reflexivity.
Qed.

Lemma dhcp_opts_decode (l : list (N * bytes)) k : Forall opt_ok l -> forall fuel, (length l < fuel)%nat ->
  dhcp_opts fuel (concat (map enc_opt l) ++ 255 :: repeat 0 k) = Some l.
Proof.
  induction 1 as [|[c v] l [[Hc0 Hc] Hv] _ IH]; intros fuel Hf.
  - destruct fuel; [simpl in Hf; lia|]. cbn [map concat app dhcp_opts]. cbn.
    replace (forallb (fun x : N => x =? 0) (repeat 0 k)) with true; [reflexivity|].
    symmetry. apply forallb_forall. intros x Hx. apply repeat_spec in Hx. subst. reflexivity.
  - destruct fuel as [|f]; [simpl in Hf; lia|]. cbn [fst snd] in *.
    cbn [map concat]. unfold enc_opt at 1. cbn [fst snd]. rewrite <- !app_assoc. cbn [app dhcp_opts].
    unfold u8. rewrite !N.mod_small by (unfold bytes, byte in *; lia).
    destruct (N.eqb_spec c 255) as [E|_]; [lia|]. destruct (N.eqb_spec c 0) as [E|_]; [lia|].
    rewrite natN_of_nat'.
    match goal with |- context [Nat.ltb ?a ?b] =>
      destruct (Nat.ltb_spec a b) as [Hx|_]; [exfalso; rewrite app_length in Hx; unfold bytes, byte in *; lia|] end.
    rewrite skipn_len_app', firstn_len_app'. rewrite IH by (simpl in Hf; lia). reflexivity.
Qed.

Lemma opt_in_refl o l : opt_in o (o :: l) = true.
Proof. destruct o as [c v]. cbn [opt_in fst snd]. rewrite N.eqb_refl, beq_refl. reflexivity. Qed.
Lemma opt_in_cons o x l : opt_in o l = true -> opt_in o (x :: l) = true.
Proof. destruct x as [c v]. cbn [opt_in]. intros ->. apply orb_true_r. Qed.
Lemma opt_in_self l : forall o, In o l -> opt_in o l = true.
Proof.
  induction l as [|x l IH]; intros o Ho; [destruct Ho|].
  destruct Ho as [<-|Ho]; [apply opt_in_refl|]. apply opt_in_cons. apply IH. exact Ho.
Qed.
Lemma same_opts_refl l : same_opts l l = true.
Proof.
  unfold same_opts. rewrite Nat.eqb_refl. cbn [andb]. apply forallb_forall. apply opt_in_self.
Qed.

Definition plain_opts (l : list (N * bytes)) : Prop :=
  Forall (fun o => fst o <> 1 /\ fst o <> 33 /\ fst o <> 3) l.

Lemma find_opt_none c l : Forall (fun o : N * bytes => fst o <> c) l -> find_opt c l = None.
Proof.
  induction 1 as [|[c' v] l Hc _ IH]; [reflexivity|]. cbn [find_opt fst] in *.
  destruct (N.eqb_spec c' c); [contradiction|exact IH].
Qed.

Lemma append_options_plain l : plain_opts l -> append_options l = concat (map enc_opt l).
Proof.
  intros H. unfold append_options. cbn [ordered_opts].
  rewrite !find_opt_none; [reflexivity| | |]; eapply Forall_impl; try exact H; cbn beta; intros o (A & B & C); assumption.
Qed.

Lemma concat_enc_len (l : list (N * bytes)) : (length l <= length (concat (map enc_opt l)))%nat.
Proof.
  induction l as [|o l IH]; [simpl; lia|]. cbn [map concat length]. unfold enc_opt at 1.
  rewrite !app_length. cbn [length]. lia.
Qed.

Lemma dhcp_client_nf_wf ch ci xid opts :
  mac_ok ch -> ip4_ok ci -> length xid = 4%nat -> Forall opt_ok opts -> plain_opts opts ->
  wf_dhcp_client ch ci (Some xid) opts (dhcp_client_nf ch ci xid (append_options opts)) = true.
Proof.
  intros [Hch _] [Hci _] Hx Hok Hpl. rewrite append_options_plain by exact Hpl.
  set (ob := concat (map enc_opt opts)).
  unfold wf_dhcp_client, dec_dhcp, dhcp_client_nf, dhcp_client_hdr.
  explode ch Hch. explode ci Hci. explode xid Hx.
  cbn [app repeat].
  match goal with |- context [Nat.ltb (length ?m) 240] =>
    destruct (Nat.ltb_spec (length m) 240) as [Hl|_]; [exfalso; cbn [length] in Hl; lia|] end.
  cbn -[dhcp_opts same_opts Nat.leb length ob Nat.sub].
  subst ob. rewrite dhcp_opts_decode; [|exact Hok|].
  - cbn -[same_opts Nat.leb length Nat.sub]. rewrite !N.eqb_refl, same_opts_refl. cbn [andb].
    apply Nat.leb_le. cbn [length]. rewrite app_length. cbn [length]. rewrite repeat_length. lia.
  - pose proof (concat_enc_len opts) as HL. cbn [length]. rewrite app_length. lia.
Qed.

(* ---------------------------------------------------------------- *)
Definition opts_bytes_ok (l : list (N * bytes)) : Prop := Forall (fun o => bytes_ok (snd o)) l.

Lemma append_options_ok l : plain_opts l -> opts_bytes_ok l -> bytes_ok (append_options l).
Proof.
  intros Hp Hb. rewrite append_options_plain by exact Hp.
  induction Hb as [|o l Ho _ IH]; [constructor|].
  inversion Hp; subst. cbn [map concat]. apply bytes_ok_app. split; [|apply IH; assumption].
  unfold enc_opt. apply bytes_ok_app. split; [oks|exact Ho].
Qed.

Lemma dhcp_client_nf_ok ch ci xid ob :
  mac_ok ch -> ip4_ok ci -> length xid = 4%nat -> bytes_ok xid -> bytes_ok ob -> bytes_ok (dhcp_client_nf ch ci xid ob).
Proof.
  intros [_ Hch] [_ Hci] _ Hx Hob. unfold dhcp_client_nf, dhcp_client_hdr.
  repeat (apply bytes_ok_app; split); try assumption; try (apply bytes_ok_repeat; lia); try (unfold bytes_ok; repeat (apply Forall_cons; [lia|]); apply Forall_nil).
  apply Forall_cons; [lia|apply bytes_ok_repeat; lia].
Qed.

Lemma dhcp_client_nf_len ch ci xid ob :
  mac_ok ch -> ip4_ok ci -> length xid = 4%nat ->
  length (dhcp_client_nf ch ci xid ob) = (241 + length ob + (59 - length ob))%nat.
Proof.
  intros [Hch _] [Hci _] Hx. unfold dhcp_client_nf, dhcp_client_hdr.
  rewrite !app_length. cbn [length]. rewrite !repeat_length, Hch, Hci, Hx. lia.
Qed.

(* client.go:103 sendDeclineReleasePacket, full: the DECLINE / RELEASE leaves host:68 -> router:67 and decodes
   as the requested client message (chaddr, ciaddr, xid, exactly the options, BOOTP minimum length) whatever
   the two pooled buffers held before *)
Lemma decline_release_wf c ch ci xid opts junk1 junk2 :
  mac_ok (host_mac c) -> ip4_ok (host_ip4 c) -> mac_ok (router_mac c) -> ip4_ok (router_ip4 c) ->
  mac_ok ch -> ip4_ok ci -> length xid = 4%nat -> bytes_ok xid ->
  Forall opt_ok opts -> plain_opts opts -> opts_bytes_ok opts -> (length (append_options opts) <= 1000)%nat ->
  length junk1 = EthMaxSize -> length junk2 = EthMaxSize ->
  exists fr, send_decline_release c (Some ch) ci xid opts junk1 junk2 = Ok [fr] /\
    wf_udp4 (host_mac c) (router_mac c) (host_ip4 c) (router_ip4 c) 68 67
      (wf_dhcp_client ch ci (Some xid) opts) false fr = true.
Proof.
  intros H1 H2 H3 H4 Hch Hci Hx Hxb Hok Hpl Hvb Hlen HJ1 HJ2.
  pose proof (dhcp_client_nf_len ch ci xid (append_options opts) Hch Hci Hx) as HL.
  destruct (decline_release_carried c (Some ch) ci xid opts junk1 junk2 (dhcp_client_nf ch ci xid (append_options opts)))
    as (fr & E & W); auto.
  - apply enc_dhcp4_client; auto; rewrite HJ1; unfold EthMaxSize; lia.
  - apply dhcp_client_nf_ok; auto. apply append_options_ok; assumption.
  - lia.
  - exists fr. split; [exact E|].
    apply (wf_udp4_weaken _ _ _ _ _ _ (dhcp_client_nf ch ci xid (append_options opts))); auto.
    apply dhcp_client_nf_wf; assumption.
Qed.

(* ---------------------------------------------------------------- *)
(* SendDiscoverPacket builds the message in place behind the headers: the frame is the one udp4_send
   produces for the same message *)
Lemma put16_length o v (b : bytes) : length (put16 o v b) = length b.
Proof. unfold put16. rewrite !set_nth_length. reflexivity. Qed.
Lemma cpy_length o n src (b : bytes) : length (cpy o n src b) = length b.
Proof. unfold cpy. apply blit_length. Qed.
Lemma enc_hdrs_length junk hm rm ttl sip dip sp dp :
  length (enc_udp 34 (enc_ip4 14 (enc_ether junk 2048 hm rm) ttl sip dip) sp dp) = length junk.
Proof.
  unfold enc_udp, enc_ip4, enc_ether.
  repeat (rewrite ?put16_length, ?cpy_length, ?set_nth_length). reflexivity.
Qed.

Lemma blit_mid (b src : list N) o : (o + length src <= length b)%nat ->
  blit o src b = firstn o b ++ src ++ skipn (o + length src) b.
Proof.
  revert b. induction o as [|o IH]; intros b H.
  - cbn [firstn app Nat.add]. apply blit0_app. simpl in H. lia.
  - destruct b as [|x b]; [simpl in H; lia|]. cbn [blit firstn app Nat.add skipn]. f_equal. apply IH. simpl in H. lia.
Qed.

Lemma send_discover_as_udp4 c ch ci xid opts junk :
  mac_ok ch -> ip4_ok ci -> length xid = 4%nat -> length junk = EthMaxSize ->
  (length (append_options opts) <= 1000)%nat ->
  send_discover c (Some ch) ci xid opts junk =
  udp4_send (host_mac c) (router_mac c) 50 (host_ip4 c) (router_ip4 c) 68 67
    (dhcp_client_nf ch ci xid (append_options opts)) junk.
Proof.
  intros Hch Hci Hx HJ Hlen. unfold send_discover, udp4_send.
  rewrite (proj1 Hch). cbn [Nat.eqb negb].
  unfold is4 at 1. rewrite (proj1 Hci). cbn [Nat.eqb]. cbv beta iota zeta.
  set (b := enc_udp 34 (enc_ip4 14 (enc_ether junk 2048 (host_mac c) (router_mac c)) 50 (host_ip4 c) (router_ip4 c)) 68 67).
  assert (Hb : length b = EthMaxSize) by (unfold b; rewrite enc_hdrs_length; exact HJ).
  pose proof (dhcp_client_nf_len ch ci xid (append_options opts) Hch Hci Hx) as HL.
  set (d := dhcp_client_nf ch ci xid (append_options opts)) in *.
  assert (E0 : enc_dhcp4 (skipn 42 b) 1 (Some ch) ci ipv4zero (Some xid) false opts = Some d).
  { apply enc_dhcp4_client; auto; rewrite skipn_length, Hb; unfold EthMaxSize; lia. }
  match goal with |- context [enc_dhcp4 ?a1 ?a2 ?a3 ?a4 ?a5 ?a6 ?a7 ?a8] =>
    destruct (enc_dhcp4 a1 a2 a3 a4 a5 a6 a7 a8) as [d0|] eqn:E0' end.
  2: { exfalso. assert (X : @None bytes = Some d) by (rewrite <- E0'; exact E0). discriminate. }
  assert (X : Some d0 = Some d) by (rewrite <- E0'; exact E0). injection X as ->. clear E0 E0'.
  fold d. unfold udp_append_payload.
  destruct (Nat.ltb_spec (EthMaxSize - 34 - 8) (length d)) as [Hx1|_]; [unfold EthMaxSize in Hx1; lia|].
  unfold cpy. rewrite (firstn_all d). unfold udp_set_payload.
  assert (E : blit (34 + 8) d b = firstn 42 b ++ d ++ skipn (42 + length d) b).
  { apply (blit_mid b d 42). unfold EthMaxSize, bytes, byte in *. lia. }
  rewrite E. reflexivity.
Qed.

(* SendDiscoverPacket, full (since fix 766f89c ciaddr is 0.0.0.0 unless the caller gives an IPv4 address) *)
Lemma send_discover_wf c ch ci xid opts junk :
  mac_ok (host_mac c) -> ip4_ok (host_ip4 c) -> mac_ok (router_mac c) -> ip4_ok (router_ip4 c) ->
  mac_ok ch -> (ip4_ok ci \/ is4 ci = false) -> length xid = 4%nat -> bytes_ok xid ->
  Forall opt_ok opts -> plain_opts opts -> opts_bytes_ok opts -> (length (append_options opts) <= 1000)%nat ->
  length junk = EthMaxSize ->
  exists fr, send_discover c (Some ch) ci xid opts junk = Ok [fr] /\
    wf_udp4 (host_mac c) (router_mac c) (host_ip4 c) (router_ip4 c) 68 67
      (wf_dhcp_client ch (if is4 ci then ci else [0;0;0;0]) (Some xid) opts) false fr = true.
Proof.
  intros H1 H2 H3 H4 Hch Hci Hx Hxb Hok Hpl Hvb Hlen HJ.
  assert (G : forall ci', ip4_ok ci' ->
    send_discover c (Some ch) ci xid opts junk = send_discover c (Some ch) ci' xid opts junk ->
    exists fr, send_discover c (Some ch) ci xid opts junk = Ok [fr] /\
      wf_udp4 (host_mac c) (router_mac c) (host_ip4 c) (router_ip4 c) 68 67
        (wf_dhcp_client ch ci' (Some xid) opts) false fr = true).
  { intros ci' Hci' Eq. rewrite Eq, send_discover_as_udp4 by assumption.
    pose proof (dhcp_client_nf_len ch ci' xid (append_options opts) Hch Hci' Hx) as HL.
    destruct (udp4_wf (host_mac c) (router_mac c) 50 (host_ip4 c) (router_ip4 c) 68 67
                (dhcp_client_nf ch ci' xid (append_options opts)) junk) as (fr & E & W); auto; try lia.
    - apply dhcp_client_nf_ok; auto. apply append_options_ok; assumption.
    - exists fr. split; [exact E|].
      apply (wf_udp4_weaken _ _ _ _ _ _ (dhcp_client_nf ch ci' xid (append_options opts))); auto.
      apply dhcp_client_nf_wf; assumption. }
  destruct Hci as [Hci|Hci].
  - unfold is4 at 1. rewrite (proj1 Hci). cbn [Nat.eqb]. apply G; auto.
  - rewrite Hci. apply G; [split; [reflexivity|oks]|].
    unfold send_discover. rewrite Hci. reflexivity.
Qed.

(* a chaddr that is not 6 bytes (nil included) is refused (since fix bc82719) *)
Lemma send_discover_refuses c ch ci xid opts junk :
  match ch with Some a => Nat.eqb (length a) 6 | None => false end = false ->
  send_discover c ch ci xid opts junk = Ok [].
Proof.
  unfold send_discover. intros H. destruct ch as [a|]; [rewrite H|]; reflexivity.
Qed.

(* non-vacuity: the option sets the library sends satisfy the hypotheses *)
Example client_opts_inhabited :
  let discover := [(12, [104; 111; 115; 116]); (55, str_discover_prl); (53, [1])] in
  let decline := [(61, [1;2;0;0;0;0;7]); (54, [192;168;0;11]); (56, [110;101;116]); (50, [192;168;0;60]); (53, [4])] in
  Forall opt_ok discover /\ plain_opts discover /\ opts_bytes_ok discover /\
  Forall opt_ok decline /\ plain_opts decline /\ opts_bytes_ok decline.
Proof.
  cbv zeta. unfold opt_ok, plain_opts, opts_bytes_ok, str_discover_prl.
  repeat split; repeat (apply Forall_cons || apply Forall_nil); cbn [fst snd length]; try lia; try (repeat split; discriminate); try oks.
Qed.
