(* Proofs/DHCPRestored.v — the central clause of C11 from ANY well-formed state, in particular from the
   table a restarted handler restores (whose addresses the new session does not track): uniqueness of
   acknowledged addresses needs no fact about the session, only the table check of taken(). *)
From PV Require Import Base.Prelude Base.Text Model.DHCP Model.DHCPShow Spec.DHCP Spec.DHCPCheck
  Proofs.DHCP Proofs.DHCPInv Proofs.DHCPReply Proofs.DHCPRestart.
Open Scope list_scope.
Open Scope N_scope.

Definition UW (s : dstate) : Prop := wf s /\ Uniq (tbl s).

Lemma uniq_tset l' t :
  Uniq t ->
  (l_state l' = SAllocated -> forall x, l_ip l' = Some x -> acked_to_other t (l_cid l') x = false) ->
  Uniq (tset l' t).
Proof.
  intros U Hacked l1 l2 x H1 H2 S1 S2 I1 I2.
  apply in_tset in H1. apply in_tset in H2.
  destruct H1 as [H1|[H1 N1]], H2 as [H2|[H2 N2]].
  - subst. reflexivity.
  - subst l1. exfalso. specialize (Hacked S1 x I1).
    assert (A : acked_to_other t (l_cid l') x = true) by (apply acked_to_other_spec; exists l2; auto). congruence.
  - subst l2. exfalso. specialize (Hacked S2 x I2).
    assert (A : acked_to_other t (l_cid l') x = true) by (apply acked_to_other_spec; exists l1; auto). congruence.
  - apply (U l1 l2 x); auto.
Qed.

Lemma uw_put s l' :
  UW s -> (l_state l' = SAllocated -> forall x, l_ip l' = Some x -> acked_to_other (tbl s) (l_cid l') x = false) ->
  UW (put s l').
Proof. intros [W U] H. split; [apply wf_put; auto|]. unfold put, set_tbl. cbn [tbl]. apply uniq_tset; auto. Qed.

Lemma uw_put_nonalloc s l' : UW s -> l_state l' <> SAllocated -> UW (put s l').
Proof. intros H N. apply uw_put; auto. intros S. contradiction. Qed.

Lemma uw_same_tbl s s2 : UW s -> tbl s2 = tbl s -> UW s2.
Proof. intros [W U] E. unfold UW, wf. rewrite E. auto. Qed.

Lemma uw_tdel s k : UW s -> UW (set_tbl s (tdel k (tbl s))).
Proof.
  intros [W U]. split; [apply wf_set_tbl_tdel; auto|]. cbn [tbl set_tbl].
  intros l1 l2 x H1 H2. apply in_tdel in H1 as [H1 _]. apply in_tdel in H2 as [H2 _]. apply U; auto.
Qed.

Lemma uw_foc c s k mc s1 l : UW s -> findOrCreate c s k mc = (s1, l) -> UW s1 /\ In l (tbl s1) /\ l_cid l = k.
Proof.
  intros H F. apply foc_spec in F as [_ [_ [_ [Hk [_ [_ [[E1 E2]|[E1 E2]]]]]]]].
  - subst. split; auto. apply tget_in in E2. tauto.
  - subst s1. split; [apply uw_put_nonalloc; auto; subst l; discriminate|].
    split; auto. cbn [tbl put set_tbl]. left. reflexivity.
Qed.

Lemma uw_discover c ch now s0 m : UW s0 -> UW (fst (handleDiscover c ch now s0 m)).
Proof.
  intros H. unfold handleDiscover.
  destruct (findOrCreate c s0 (getcid m) (m_chaddr m)) as [s1 l] eqn:F.
  destruct (uw_foc _ _ _ _ _ _ H F) as [H1 [Hin Hk]].
  destruct (reset_props now l m) as [Rk [_ [_ [Ri [Rs _]]]]].
  set (l0 := discover_reset now l m) in *.
  set (l1 := match l_offer l0 with Some x => if taken s1 l0 x then set_offer l0 None else l0 | None => l0 end).
  assert (P : l_cid l1 = l_cid l /\ l_ip l1 = l_ip l /\ l_state l1 = l_state l).
  { unfold l1. destruct (l_offer l0) as [x|]; [destruct (taken s1 l0 x)|]; simpl; repeat split; congruence. }
  destruct P as [Pk [Pi Ps]].
  assert (Hp : UW (put s1 l1)).
  { apply uw_put; auto. intros S x I. rewrite Pk. rewrite Ps in S. rewrite Pi in I.
    destruct H1 as [W U]. destruct (acked_to_other (tbl s1) (l_cid l) x) eqn:A; auto.
    apply acked_to_other_spec in A as [v [Hv [Sv [Iv Nq]]]]. exfalso. apply Nq. apply (U v l x); auto. }
  assert (G : forall s2 x, tbl s2 = tbl (put s1 l1) ->
              UW (put s2 (set_xid (set_state (set_offer l1 (Some x)) SDiscover) (Some (m_xid m))))).
  { intros s2 x T. apply uw_put_nonalloc; [apply (uw_same_tbl (put s1 l1)); auto|simpl; discriminate]. }
  destruct (l_offer l1) as [x|].
  - cbn [fst]. apply (G (put s1 l1) x eq_refl).
  - pose proof (alloc_tbl c ch (put s1 l1) l1 (m_req m)) as T.
    destruct (allocIPOffer c ch (put s1 l1) l1 (m_req m)) as [[x|] s2]; cbn [snd] in T; cbn [fst].
    + apply (G s2 x T).
    + apply uw_tdel. apply (uw_same_tbl (put s1 l1)); auto.
Qed.

Lemma uw_do_ack c now m s l x :
  UW s -> In l (tbl s) -> acked_to_other (tbl s) (l_cid l) x = false ->
  (l_state l = SDiscover /\ l_offer l = Some x) \/ (l_state l = SAllocated /\ l_ip l = Some x) ->
  UW (fst (do_ack c now m s l)).
Proof.
  intros H Hin Ha Hst. unfold do_ack. cbn [fst].
  set (l2 := match l_state l with SDiscover => set_offer (set_ip l (l_offer l)) None | _ => l end).
  set (l3 := set_exp (set_state l2 SAllocated) (now + lease_secs)%Z).
  apply (uw_same_tbl (put s l3)); [|reflexivity].
  apply uw_put; auto.
  assert (Q : l_cid l3 = l_cid l /\ l_ip l3 = Some x).
  { unfold l3, l2. destruct Hst as [[S O]|[S I]]; rewrite S; simpl; auto. }
  destruct Q as [Qk Qi]. intros _ y Hy. rewrite Qi in Hy. inversion Hy; subst y. rewrite Qk. exact Ha.
Qed.

Lemma uw_request c now s0 m : UW s0 -> UW (fst (handleRequest c now s0 m)).
Proof.
  intros H. unfold handleRequest.
  destruct (classify m) as [oper req].
  destruct (req =? 0); [exact H|].
  destruct (findOrCreate c s0 (getcid m) (m_chaddr m)) as [s1 l] eqn:F.
  destruct (uw_foc _ _ _ _ _ _ H F) as [H1 [Hin Hk]].
  assert (ACK : forall s2, tbl s2 = tbl s1 -> taken s1 l req = false ->
            (l_state l = SDiscover /\ l_offer l = Some req) \/ (l_state l = SAllocated /\ l_ip l = Some req) ->
            UW (fst (do_ack c now m s2 l))).
  { intros s2 T Tk Hst. apply taken_false in Tk as [Ta _].
    apply (uw_do_ack c now m s2 l req); [apply (uw_same_tbl s1); auto|rewrite T; auto|rewrite T; auto|auto]. }
  destruct oper.
  - destruct (negb _) eqn:SV.
    + set (l' := if lstate_eqb (l_state l) SDiscover then l else set_ip (set_state l SFree) None).
      assert (Hp : UW (put s1 l')).
      { apply uw_put_nonalloc; auto. unfold l'. destruct (lstate_eqb (l_state l) SDiscover) eqn:E.
        - apply lstate_eqb_eq in E. congruence.
        - simpl. discriminate. }
      destruct (attack_mode c _); cbn [fst]; [exact Hp|apply (uw_same_tbl (put s1 l')); auto].
    + destruct (lstate_eqb (l_state l) SFree || taken s1 l req
                || lstate_eqb (l_state l) SAllocated && (l_exp l <? now)%Z || negb (l_mac l =? m_chaddr m)
                || lstate_eqb (l_state l) SDiscover && (negb (oeqb (l_xid l) (Some (m_xid m))) || negb (oeqb (l_offer l) (Some req)))
                || lstate_eqb (l_state l) SAllocated && negb (oeqb (l_ip l) (Some req))) eqn:C; [exact H1|].
      apply orb_false_iff in C as [C C5]. apply orb_false_iff in C as [C C4].
      apply orb_false_iff in C as [C C3]. apply orb_false_iff in C as [C CE]. apply orb_false_iff in C as [C1 C2].
      apply ACK; auto.
      destruct (l_state l) eqn:S; simpl in *; try discriminate.
      * left. apply orb_false_iff in C4 as [_ B]. apply negb_false_iff, oeqb_eq in B. auto.
      * right. apply negb_false_iff, oeqb_eq in C5. auto.
  - destruct (negb (lstate_eqb (l_state l) SAllocated) || taken s1 l req || negb (oeqb (l_ip l) (Some req))
              || negb (l_mac l =? m_chaddr m) || (l_exp l <? now)%Z) eqn:C; [exact H1|].
    apply orb_false_iff in C as [C _]. apply orb_false_iff in C as [C _].
    apply orb_false_iff in C as [C C3]. apply orb_false_iff in C as [C1 C2].
    apply ACK; auto. right. apply negb_false_iff in C1, C3. apply lstate_eqb_eq in C1. apply oeqb_eq in C3. auto.
  - destruct (lstate_eqb (l_state l) SFree && attack_mode c _); [apply (uw_same_tbl s1); auto|].
    destruct (negb (lstate_eqb (l_state l) SAllocated) || taken s1 l req
              || lstate_eqb (l_state l) SAllocated && (l_exp l <? now)%Z || negb (oeqb (l_ip l) (Some req))
              || negb (l_mac l =? m_chaddr m)
              || negb match l_ip l with Some x => n_contains c _ x | None => false end) eqn:C; [apply (uw_same_tbl s1); auto|].
    apply orb_false_iff in C as [C _]. apply orb_false_iff in C as [C _].
    apply orb_false_iff in C as [C C3]. apply orb_false_iff in C as [C _]. apply orb_false_iff in C as [C1 C2].
    apply ACK; auto. right. apply negb_false_iff in C1, C3. apply lstate_eqb_eq in C1. apply oeqb_eq in C3. auto.
  - destruct (lstate_eqb (l_state l) SFree && attack_mode c _); [apply (uw_same_tbl s1); auto|].
    destruct (negb (lstate_eqb (l_state l) SAllocated) || taken s1 l req
              || lstate_eqb (l_state l) SAllocated && (l_exp l <? now)%Z || negb (oeqb (l_ip l) (Some req))
              || negb (l_mac l =? m_chaddr m)
              || negb match l_ip l with Some x => n_contains c _ x | None => false end) eqn:C; [apply (uw_same_tbl s1); auto|].
    apply orb_false_iff in C as [C _]. apply orb_false_iff in C as [C _].
    apply orb_false_iff in C as [C C3]. apply orb_false_iff in C as [C _]. apply orb_false_iff in C as [C1 C2].
    apply ACK; auto. right. apply negb_false_iff in C1, C3. apply lstate_eqb_eq in C1. apply oeqb_eq in C3. auto.
Qed.

Lemma uw_decline c s0 m : UW s0 -> UW (fst (handleDecline c s0 m)).
Proof.
  intros H. unfold handleDecline.
  destruct (findOrCreate c s0 (getcid m) (m_chaddr m)) as [s1 l] eqn:F.
  destruct (uw_foc _ _ _ _ _ _ H F) as [H1 _].
  destruct (negb _); cbn [fst]; auto. destruct (_ || _); cbn [fst]; auto.
  apply uw_put_nonalloc; auto. simpl. discriminate.
Qed.

Lemma uw_release c s0 m : UW s0 -> UW (fst (handleRelease c s0 m)).
Proof.
  intros H. unfold handleRelease.
  destruct (findOrCreate c s0 (getcid m) (m_chaddr m)) as [s1 l] eqn:F.
  destruct (uw_foc _ _ _ _ _ _ H F) as [H1 _]. exact H1.
Qed.

Lemma uw_step c ch s o : UW s -> UW (fst (step c ch s o)).
Proof.
  intros H. assert (Hp : forall m, UW (parse_effect c s m)) by (intros m; apply (uw_same_tbl s); auto; apply parse_tbl).
  destruct o as [now m|now m|m|m|x|x|now|k te]; simpl.
  - apply uw_discover, Hp.
  - apply uw_request, Hp.
  - apply uw_decline, Hp.
  - apply uw_release, Hp.
  - apply (uw_same_tbl s); auto.
  - apply (uw_same_tbl s); auto.
  - destruct H as [W U]. split.
    + unfold wf. simpl. rewrite keys_freeLeases. exact W.
    + simpl. intros l1 l2 x H1 H2 S1 S2 I1 I2.
      apply in_freeLeases in H1 as [a [Ha [E1|E1]]]; [|subst; discriminate].
      apply in_freeLeases in H2 as [b [Hb [E2|E2]]]; [|subst; discriminate].
      subst. apply (U a b x); auto.
  - destruct (tget k (tbl s)) as [l|] eqn:T; auto. apply tget_in in T as [Hin Hk].
    apply uw_put; auto. simpl. intros S x I. destruct H as [W U].
    destruct (acked_to_other (tbl s) (l_cid l) x) eqn:A; auto.
    apply acked_to_other_spec in A as [v [Hv [Sv [Iv Nq]]]]. exfalso. apply Nq. apply (U v l x); auto.
Qed.

Lemma uw_run c h : forall s, UW s -> UW (fst (run c s h)).
Proof.
  induction h as [|[ch o] r IH]; intros s H; [exact H|].
  rewrite run_cons. simpl. apply IH. apply uw_step. exact H.
Qed.

(* the lease file holds a well-formed table with unique acknowledged addresses *)
Definition UWl (t : list lease) : Prop := NoDup (keys t) /\ Uniq t.

Lemma run_saving_uw c h : forall s saved s' saved',
  UW s -> UWl saved -> run_saving c s saved h = (s', saved') -> UW s' /\ UWl saved'.
Proof.
  induction h as [|[ch o] r IH]; intros s saved s' saved' H Hs E.
  - simpl in E. inversion E; subst. auto.
  - simpl in E. destruct (step c ch s o) as [s1 rp] eqn:St.
    assert (H1 : UW s1) by (replace s1 with (fst (step c ch s o)) by (rewrite St; reflexivity); apply uw_step; auto).
    apply (IH s1 (if step_saves c s o rp then tbl s1 else saved) s' saved' H1); auto.
    destruct (step_saves c s o rp); auto.
Qed.

Lemma nodup_keys_filter p t : NoDup (keys t) -> NoDup (keys (filter p t)).
Proof.
  unfold keys. induction t as [|l r IH]; simpl; intros H; [constructor|].
  inversion H; subst. destruct (p l); simpl; auto. constructor; auto.
  rewrite in_map_iff in *. intros [x [E Hx]]. apply filter_In in Hx. apply H2. exists x. tauto.
Qed.

(* what loadByteArray guarantees: distinct entries per client id, unique acknowledged addresses, whatever
   the capture state of the session at load time *)
Lemma restore_uw cL se saved : UWl saved -> UWl (restore cL se saved).
Proof.
  intros [W U]. unfold restore. split.
  - unfold keys. rewrite map_map. simpl. apply (nodup_keys_filter _ saved W).
  - intros l1 l2 x H1 H2 _ _ I1 I2.
    apply in_map_iff in H1 as [a [E1 Ha]]. apply in_map_iff in H2 as [b [E2 Hb]].
    apply filter_In in Ha as [Ha Fa]. apply filter_In in Hb as [Hb Fb].
    subst l1 l2. simpl in *.
    apply andb_true_iff in Fa as [Fa _]. apply andb_true_iff in Fa as [Sa _]. apply lstate_eqb_eq in Sa.
    apply andb_true_iff in Fb as [Fb _]. apply andb_true_iff in Fb as [Sb _]. apply lstate_eqb_eq in Sb.
    apply (U a b x); auto.
Qed.

Lemma restart_state_uw file cB pre saved : UWl saved -> UW (restart_state file cB pre saved).
Proof.
  intros H. unfold restart_state. destruct (sub_changed (wanted cB) file).
  - split; [constructor|]. intros l1 l2 x H1. destruct H1.
  - destruct (restore_uw (loaded_cfg file cB) (sess_pre (loaded_cfg file cB) pre) saved H) as [W U]. split; auto.
Qed.

(* THE CENTRAL CLAUSE FROM A RESTORED TABLE.  Run 1 (configuration cA, any history) leaves its lease file; a
   handler of configuration cB is constructed on it in a session with any set of captured MACs; along every
   history of run 2 no address is acknowledged to two client identifiers. *)
Theorem uniq_after_restart : forall cA cB pre hA sA saved h,
  run_saving cA (init cA) [] hA = (sA, saved) ->
  Uniq (tbl (fst (run (loaded_cfg (c_sub cA) cB) (restart_state (c_sub cA) cB pre saved) h))).
Proof.
  intros cA cB pre hA sA saved h E.
  assert (H0 : UW (init cA)) by (split; [constructor|intros l1 l2 x H1; destruct H1]).
  assert (Hs : UWl []) by (split; [constructor|intros l1 l2 x H1; destruct H1]).
  destruct (run_saving_uw cA hA (init cA) [] sA saved H0 Hs E) as [_ Hsaved].
  apply (uw_run _ h _ (restart_state_uw (c_sub cA) cB pre saved Hsaved)).
Qed.

(* from ANY state with unique keys and unique acknowledged addresses *)
Theorem uniq_from_any_state : forall c s h,
  NoDup (map l_cid (tbl s)) -> Uniq (tbl s) -> Uniq (tbl (fst (run c s h))).
Proof. intros c s h W U. apply (uw_run c h s (conj W U)). Qed.

(* ---------------------------------------------------------------- *)
(* the configuration value domain *)

Lemma sub_changed_refl f : sub_changed f f = false.
Proof. unfold sub_changed. rewrite !N.eqb_refl. reflexivity. Qed.

(* RESTART WITH THE SAME CONFIGURATION KEEPS THE TABLE: for every raw configuration (Config + NIC data, every
   form of DNSServer — zero value, plain, IPv4-mapped, IPv6 —, any Mode) that (Config).New accepts, a handler
   constructed again from the same raw configuration on the file the first one left compares equal to the
   file (configChanged sees the NORMALISED values on both sides) and restores the saved bindings. *)
Theorem restart_same_config_keeps_table : forall r c pre saved,
  new_cfg r = Some c ->
  c_sub c = wanted c /\
  sub_changed (wanted c) (c_sub c) = false /\
  loaded_cfg (c_sub c) c = c /\
  tbl (restart_state (c_sub c) c pre saved) = restore c (sess_pre c pre) saved.
Proof.
  intros r c pre saved H. unfold new_cfg in H. destruct (_ && _) in H; [|discriminate]. inversion H; subst c. clear H.
  set (c := fresh_cfg _ _ _ _ _ _ _ _ _ _).
  assert (E : c_sub c = wanted c) by reflexivity.
  assert (S : sub_changed (wanted c) (c_sub c) = false) by (rewrite E; apply sub_changed_refl).
  assert (L : loaded_cfg (c_sub c) c = c) by (unfold loaded_cfg; rewrite S; reflexivity).
  repeat split; auto. unfold restart_state. rewrite S, L. reflexivity.
Qed.

(* the DNS server of non-captured clients, from the RAW configuration as the property words it: the configured
   server, the router when none (no IPv4 server) is configured *)
Theorem dns_defaults_to_router : forall r c, new_cfg r = Some c ->
  c_dns c = spec_dns r /\ want_dns c false = spec_dns r /\ c_routerip c = r_routerip r /\
  c_mode c = norm_mode (r_mode r) /\ sub_ok c.
Proof.
  intros r c H. unfold new_cfg in H. destruct (_ && _) in H; [|discriminate]. inversion H; subst c.
  repeat split; try (unfold spec_dns, norm_dns; destruct (r_dns r); reflexivity).
Qed.

(* the loader never puts the network or broadcast address of the netfilter subnet into the table: a restored
   lease that points at net2 holds an address strictly inside net2 (whatever the file held) *)
Theorem restore_net2_in_pool : forall cL se saved l x,
  In l (restore cL se saved) -> l_net2 l = true -> l_ip l = Some x -> in_pool cL true x.
Proof.
  intros cL se saved l x Hin Hn Hi. unfold restore in Hin. apply in_map_iff in Hin as [l0 [E _]]. subst l. cbn [l_net2 l_ip] in *.
  rewrite Hi in Hn. apply andb_true_iff in Hn as [_ Hn]. apply andb_true_iff in Hn as [Hn C3]. apply andb_true_iff in Hn as [C1 C2].
  apply n_contains_range in C1. apply negb_true_iff in C2, C3. apply N.eqb_neq in C2, C3. unfold in_pool. lia.
Qed.
