(* Proofs/SendRa.v — ICMP6SendRouterAdvertisement: the option block the marshalling functions of
   layer_icmp6_options.go produce is the RFC 4861 4.6 encoding of the requested option list, which the
   reference option walker decodes back; with the frame-level lemma of SendIcmp6.v this gives the full
   well-formedness of every Router Advertisement sent. *)
From PV Require Import Proofs.SendBase Model.Send Model.SendNdp Spec.SendRefUdp Proofs.Send Proofs.SendNdp Proofs.SendIcmp6.
Open Scope N_scope.

Lemma natN_to_nat n : natN n = N.to_nat n.
Proof.
  unfold natN. induction n using N.peano_ind; [reflexivity|].
  rewrite N.iter_succ, IHn, N2Nat.inj_succ. reflexivity.
Qed.

Definition triple := (N * N * bytes)%type.
Definition enc1 (o : triple) : bytes := let '(t, l, v) := o in [t; l] ++ v.
Definition valid1 (o : triple) : Prop := let '(t, l, v) := o in 0 < l < 256 /\ length v = (N.to_nat l * 8 - 2)%nat.
Definition tv (o : triple) : N * bytes := (fst (fst o), snd o).

Lemma skipn_len_app {A} (a b : list A) : skipn (length a) (a ++ b) = b.
Proof. induction a; simpl; auto. Qed.
Lemma firstn_len_app {A} (a b : list A) : firstn (length a) (a ++ b) = a.
Proof. induction a; simpl; auto. f_equal; auto. Qed.

Lemma dec_ndp_encode (opts : list triple) : Forall valid1 opts -> forall fuel, (length opts < fuel)%nat ->
  dec_ndp_opts fuel (concat (map enc1 opts)) = Some (map tv opts).
Proof.
  induction opts as [|[[t l] v] opts IH]; intros HV fuel Hf.
  - destruct fuel; reflexivity.
  - inversion HV as [|? ? Hv1 HV']; subst. unfold valid1 in Hv1. destruct Hv1 as [Hl Hv].
    destruct fuel as [|f]; [simpl in Hf; lia|].
    cbn [map concat enc1]. set (r := concat (map enc1 opts)).
    change (([t; l] ++ v) ++ r) with (t :: l :: (v ++ r)).
    cbn [dec_ndp_opts nth]. rewrite natN_to_nat.
    assert (Hn : (N.to_nat l * 8)%nat = (2 + length v)%nat) by lia.
    rewrite Hn.
    replace (Nat.eqb (2 + length v) 0) with false by reflexivity.
    repeat match goal with |- context [Nat.ltb ?a ?b] =>
      destruct (Nat.ltb_spec a b) as [Hx|Hx];
      [exfalso; cbn [length] in Hx; rewrite ?app_length in Hx; unfold bytes, byte in *; lia|clear Hx] end.
    cbn [orb]. change (skipn (2 + length v) (t :: l :: v ++ r)) with (skipn (length v) (v ++ r)).
    rewrite skipn_len_app. unfold r. rewrite IH; [|exact HV'|simpl in Hf; lia].
    unfold sub. change (skipn 2 (t :: l :: v ++ concat (map enc1 opts))) with (v ++ concat (map enc1 opts)).
    replace (2 + length v - 2)%nat with (length v) by lia. rewrite firstn_len_app. reflexivity.
Qed.

Lemma concat_len_ge (opts : list triple) : (length opts <= length (concat (map enc1 opts)))%nat.
Proof.
  induction opts as [|[[t l] v] opts IH]; [simpl; lia|].
  cbn [map concat enc1 length]. rewrite !app_length. cbn [length]. lia.
Qed.

Lemma ndp_opts_encode (opts : list triple) : Forall valid1 opts ->
  ndp_opts (concat (map enc1 opts)) = Some (map tv opts).
Proof. intros H. unfold ndp_opts. apply dec_ndp_encode; auto. pose proof (concat_len_ge opts). lia. Qed.

(* ---------------------------------------------------------------- *)
Lemma mod_mul_div a b c : b <> 0 -> c <> 0 -> (a mod (b * c)) / b = (a / b) mod c.
Proof.
  intros Hb Hc. rewrite N.mod_mul_r by assumption.
  rewrite (N.mul_comm b), N.div_add by assumption.
  rewrite (N.div_small (a mod b)); [reflexivity|]. apply N.mod_lt. assumption.
Qed.
Lemma mod_mul_mod a b c : b <> 0 -> c <> 0 -> (a mod (b * c)) mod b = a mod b.
Proof.
  intros Hb Hc. rewrite N.mod_mul_r by assumption.
  rewrite (N.mul_comm b), N.mod_add by assumption. apply N.mod_mod. assumption.
Qed.
Lemma b32_n32 v : b32 (u32 v) = n32 v.
Proof.
  unfold b32, n32, u32. f_equal; [|f_equal; [|f_equal; [|f_equal]]].
  - change 4294967296 with (16777216 * 256). rewrite mod_mul_div by discriminate. apply N.mod_mod. discriminate.
  - change 4294967296 with (65536 * 65536). rewrite mod_mul_div by discriminate.
    change 65536 with (256 * 256) at 2. apply mod_mul_mod; discriminate.
  - change 4294967296 with (256 * 16777216). rewrite mod_mul_div by discriminate.
    change 16777216 with (256 * 65536). apply mod_mul_mod; discriminate.
  - change 4294967296 with (256 * 16777216). apply mod_mul_mod; discriminate.
Qed.
Lemma u32_idem v : u32 (u32 v) = u32 v.
Proof. unfold u32. apply N.mod_mod. discriminate. Qed.

Definition pad16 (s : bytes) : bytes := firstn 16 (s ++ repeat 0 16).
Lemma pad16_id s : length s = 16%nat -> pad16 s = s.
Proof. intros H. unfold pad16. rewrite <- H at 1. apply firstn_len_app. Qed.

Definition ra_triples (hm : bytes) (mtu : N) (pf : list (N * bytes)) (rd : option (N * list bytes)) : list triple :=
  (match rd with Some (lt, srv) => [(25, 1 + 2 * N.of_nat (length srv), [0;0] ++ n32 lt ++ concat srv)] | None => [] end)
  ++ map (fun p => (3, 4, [fst p; 192] ++ n32 7200 ++ n32 1800 ++ [0;0;0;0] ++ snd p)) pf
  ++ [(31, 2, [0;0] ++ n32 1200 ++ [3;108;97;110;0] ++ [0;0;0]); (5, 1, [0;0] ++ n32 mtu); (1, 1, hm)].

Lemma ra_triples_tv hm mtu pf rd : map tv (ra_triples hm mtu pf rd) = ra_want_opts hm mtu pf rd.
Proof.
  unfold ra_triples, ra_want_opts. rewrite !map_app, map_map. destruct rd as [[lt srv]|]; reflexivity.
Qed.

Lemma cat_opts_app a b ob : cat_opts (a ++ b) = Some ob ->
  exists x y, cat_opts a = Some x /\ cat_opts b = Some y /\ ob = x ++ y.
Proof.
  revert ob. induction a as [|[o|] a IH]; intros ob H; cbn [app cat_opts] in *.
  - exists [], ob. auto.
  - destruct (cat_opts (a ++ b)) as [y|] eqn:E; [|discriminate]. injection H as <-.
    destruct (IH y eq_refl) as (x & y' & -> & Hb & ->). exists (o ++ x), y'. rewrite app_assoc. auto.
  - discriminate.
Qed.

Definition pf_ok (pf : list (N * bytes)) : Prop := Forall (fun p => fst p < 256 /\ ip6_ok (snd p)) pf.
Definition srv_ok (srv : list bytes) : Prop := Forall ip6_ok srv.

Lemma prefixes_marshal pf x : pf_ok pf ->
  cat_opts (map (fun p => prefix_option (u8 (fst p)) true true 7200 1800 (snd p)) pf) = Some x ->
  x = concat (map enc1 (map (fun p => (3, 4, [fst p; 192] ++ n32 7200 ++ n32 1800 ++ [0;0;0;0] ++ snd p)) pf)).
Proof.
  revert x. induction pf as [|[pl p] pf IH]; intros x Hok H; cbn [map cat_opts] in *.
  - injection H as <-. reflexivity.
  - inversion Hok as [|? ? [Hpl [Hlen Hb]] Hok']; subst. cbn [fst snd] in *.
    destruct (prefix_option (u8 pl) true true 7200 1800 p) as [o|] eqn:E; [|discriminate].
    destruct (cat_opts _) as [y|] eqn:Ey; [|discriminate]. injection H as <-.
    rewrite (IH y Hok' eq_refl). cbn [concat map enc1]. f_equal.
    unfold prefix_option in E. destruct (_ || _ || _); [discriminate|].
    pose proof Hlen as Hl2. explode p Hl2.
    cbn in E. injection E as <-. cbn. unfold u8. rewrite !N.mod_small by lia. reflexivity.
Qed.

Lemma Some_inj {A} (a b : A) : Some a = Some b -> a = b.
Proof. congruence. Qed.

Lemma length_concat_pad srv :
  length (concat (map (fun s : bytes => firstn 16 (s ++ repeat 0 16)) srv)) = (16 * length srv)%nat.
Proof.
  induction srv as [|s srv IH]; [reflexivity|]. cbn [map concat length]. rewrite app_length, IH.
  rewrite firstn_length, app_length, repeat_length. lia.
Qed.
Lemma concat_pad_id srv : srv_ok srv -> concat (map (fun s : bytes => firstn 16 (s ++ repeat 0 16)) srv) = concat srv.
Proof.
  induction 1 as [|s srv [Hl _] _ IH]; [reflexivity|]. cbn [map concat]. rewrite IH. f_equal.
  change (firstn 16 (s ++ repeat 0 16)) with (pad16 s). apply pad16_id. exact Hl.
Qed.

Lemma length_concat_srv srv : srv_ok srv -> length (concat srv) = (16 * length srv)%nat.
Proof.
  induction 1 as [|s srv [Hl _] _ IH]; [reflexivity|]. cbn [concat length]. rewrite app_length, IH, Hl. lia.
Qed.

Lemma rdnss_marshal lt srv x : srv_ok srv -> rdnss_option lt srv = Some x ->
  x = enc1 (25, 1 + 2 * N.of_nat (length srv), [0;0] ++ n32 lt ++ concat srv) /\
  valid1 (25, 1 + 2 * N.of_nat (length srv), [0;0] ++ n32 lt ++ concat srv).
Proof.
  intros Hs H. unfold rdnss_option in H. destruct srv as [|s0 srv']; [discriminate|].
  set (srv := s0 :: srv') in *. unfold raw_option in H.
  destruct (Nat.eqb _ _) eqn:E; [|discriminate]. apply Some_inj in H. subst x.
  apply Nat.eqb_eq in E. rewrite !app_length, length_concat_pad in E. cbn [length b32] in E.
  unfold bytes, byte in *.
  assert (Hn : (length srv <= 127)%nat).
  { unfold u8 in E.
    pose proof (N.mod_upper_bound (1 + (N.of_nat (length srv) * 2) mod 256) 256 ltac:(discriminate)). lia. }
  assert (Hl : u8 (1 + u8 (N.of_nat (length srv) * 2)) = 1 + 2 * N.of_nat (length srv)).
  { unfold u8. rewrite (N.mod_small (N.of_nat (length srv) * 2)) by lia. rewrite N.mod_small by lia. lia. }
  rewrite Hl. rewrite concat_pad_id by exact Hs. rewrite b32_n32. split.
  - unfold enc1. f_equal. unfold u8. f_equal. rewrite N.mod_small by lia. reflexivity.
  - unfold valid1. split; [lia|]. rewrite !app_length. cbn [length n32].
    pose proof (length_concat_srv srv Hs) as HL. unfold bytes, byte in *. lia.
Qed.

Lemma tail_marshal hm m x : mac_ok hm ->
  cat_opts [dnssl_lan_option 1200; mtu_option (u32 m); lla_option 1 hm] = Some x ->
  x = concat (map enc1 [(31, 2, [0;0] ++ n32 1200 ++ [3;108;97;110;0] ++ [0;0;0]); (5, 1, [0;0] ++ n32 m); (1, 1, hm)]).
Proof.
  intros Hm H. pose proof Hm as Hm'. explode_ok hm Hm'.
  unfold mtu_option in H. rewrite u32_idem, b32_n32 in H.
  cbn in H. injection H as <-. reflexivity.
Qed.

(* ---------------------------------------------------------------- *)
Lemma beq_opts_refl l : beq_opts l l = true.
Proof. induction l as [|[c v] l IH]; simpl; auto. rewrite N.eqb_refl, beq_refl. exact IH. Qed.

Lemma n32_ok v : bytes_ok (n32 v).
Proof. unfold n32. oks. Qed.

Lemma bytes_ok_concat (l : list bytes) : Forall bytes_ok l -> bytes_ok (concat l).
Proof. induction 1; simpl; [constructor|]. apply bytes_ok_app. auto. Qed.

Definition rd_ok (rd : option (N * list bytes)) : Prop :=
  match rd with Some (_, srv) => srv_ok srv | None => True end.

Lemma ra_triples_valid hm mtu pf rd :
  mac_ok hm -> pf_ok pf ->
  (match rd with Some (lt, srv) => valid1 (25, 1 + 2 * N.of_nat (length srv), [0;0] ++ n32 lt ++ concat srv) | None => True end) ->
  Forall valid1 (ra_triples hm mtu pf rd).
Proof.
  intros Hm Hp Hr. unfold ra_triples. apply Forall_app. split.
  - destruct rd as [[lt srv]|]; [constructor; [exact Hr|constructor]|constructor].
  - apply Forall_app. split.
    + induction Hp as [|[pl p] pf [Hpl [Hl _]] _ IH]; cbn [map]; constructor; [|exact IH].
      unfold valid1. split; [lia|]. rewrite !app_length. cbn [length n32 fst snd] in *. unfold bytes, byte in *. lia.
    + destruct Hm as [Hm _]. repeat constructor; try lia. all: try (unfold bytes, byte in *; cbn; lia).
Qed.

Lemma ra_triples_bytes_ok hm mtu pf rd :
  mac_ok hm -> pf_ok pf -> rd_ok rd -> (match rd with Some (_, srv) => (length srv <= 127)%nat | None => True end) ->
  bytes_ok (concat (map enc1 (ra_triples hm mtu pf rd))).
Proof.
  intros Hm Hp Hr Hn. apply bytes_ok_concat. unfold ra_triples. rewrite !map_app. apply Forall_app. split.
  - destruct rd as [[lt srv]|]; [|constructor]. constructor; [|constructor].
    unfold enc1. apply bytes_ok_app. split; [oks|]. apply bytes_ok_app. split; [oks|].
    apply bytes_ok_app. split; [apply n32_ok|]. apply bytes_ok_concat.
    induction Hr as [|s srv [_ Hs] _ IH]; constructor; auto. apply IH. simpl in Hn. lia.
  - apply Forall_app. split.
    + induction Hp as [|[pl p] pf [Hpl [_ Hb]] _ IH]; cbn [map]; constructor; [|exact IH].
      unfold enc1. cbn [fst snd] in *. apply bytes_ok_app. split; [oks|].
      apply bytes_ok_app. split; [oks|]. apply bytes_ok_app. split; [apply n32_ok|].
      apply bytes_ok_app. split; [apply n32_ok|]. apply bytes_ok_app. split; [oks|exact Hb].
    + cbn [map enc1]. constructor; [|constructor; [|constructor; [|constructor]]].
      * apply bytes_ok_app. split; [oks|]. apply bytes_ok_app. split; [oks|].
        apply bytes_ok_app. split; [apply n32_ok|oks].
      * apply bytes_ok_app. split; [oks|]. apply bytes_ok_app. split; [oks|apply n32_ok].
      * apply bytes_ok_app. split; [oks|exact (proj2 Hm)].
Qed.

(* ---------------------------------------------------------------- *)
(* what the marshalling produced is the encoding of the requested option list *)
Lemma ra_marshal_spec c pf rd ob :
  mac_ok (host_mac c) -> pf_ok pf -> rd_ok rd ->
  cat_opts ((match rd with Some (lt, srv) => [rdnss_option lt srv] | None => [] end)
            ++ map (fun p => prefix_option (u8 (fst p)) true true 7200 1800 (snd p)) pf
            ++ [dnssl_lan_option 1200; mtu_option (u32 (mtu c)); lla_option 1 (host_mac c)]) = Some ob ->
  ob = concat (map enc1 (ra_triples (host_mac c) (mtu c) pf rd)) /\
  Forall valid1 (ra_triples (host_mac c) (mtu c) pf rd) /\ bytes_ok ob.
Proof.
  intros Hm Hp Hr E.
  apply cat_opts_app in E. destruct E as (x1 & y & E1 & E & ->).
  apply cat_opts_app in E. destruct E as (x2 & x3 & E2 & E3 & ->).
  apply prefixes_marshal in E2; [|exact Hp]. apply tail_marshal in E3; [|exact Hm].
  assert (R : x1 = concat (map enc1 (match rd with Some (lt, srv) => [(25, 1 + 2 * N.of_nat (length srv), [0;0] ++ n32 lt ++ concat srv)] | None => [] end))
              /\ (match rd with Some (lt, srv) => valid1 (25, 1 + 2 * N.of_nat (length srv), [0;0] ++ n32 lt ++ concat srv) | None => True end)).
  { destruct rd as [[lt srv]|]; cbn [cat_opts] in E1.
    - destruct (rdnss_option lt srv) as [o|] eqn:Eo; [|discriminate]. apply Some_inj in E1. subst x1.
      destruct (rdnss_marshal lt srv o Hr Eo) as [-> V]. split; [|exact V]. cbn [map concat]. rewrite app_nil_r. reflexivity.
    - apply Some_inj in E1. subst x1. split; [reflexivity|exact I]. }
  destruct R as [-> V].
  assert (EQ : concat (map enc1 (match rd with Some (lt, srv) => [(25, 1 + 2 * N.of_nat (length srv), [0;0] ++ n32 lt ++ concat srv)] | None => [] end))
               ++ x2 ++ x3 = concat (map enc1 (ra_triples (host_mac c) (mtu c) pf rd))).
  { unfold ra_triples. rewrite !map_app, !concat_app. rewrite E2, E3. reflexivity. }
  rewrite EQ. split; [reflexivity|]. split.
  - apply ra_triples_valid; assumption.
  - apply ra_triples_bytes_ok; try assumption.
    destruct rd as [[lt srv]|]; [|exact I]. destruct V as [Hl _]. unfold bytes, byte in *. lia.
Qed.

(* ICMP6SendRouterAdvertisement: whenever a frame is sent, it is the requested Router Advertisement *)
Lemma ra_wf c pf rd dm di junk fr :
  mac_ok (host_mac c) -> ip6_ok (host_lla c) -> mac_ok dm -> ip6_ok di -> pf_ok pf -> rd_ok rd ->
  length junk = EthMaxSize ->
  send_ra c pf rd (dm, di) junk = Ok [fr] ->
  wf_ra (host_mac c) (host_lla c) (mtu c) pf rd dm di fr = true.
Proof.
  intros H1 H2 H3 H4 Hp Hr HJ H.
  unfold send_ra in H. destruct pf as [|p0 ps] eqn:Epf; [discriminate|]. rewrite <- Epf in *.
  destruct (cat_opts _) as [ob|] eqn:E; [|discriminate].
  destruct (ra_marshal_spec c pf rd ob H1 Hp Hr E) as (Eob & V & Bok).
  destruct (le_lt_dec (length ob) 1452) as [Hle|Hgt].
  - destruct (ra_partial c pf rd dm di junk ob) as (fr' & Es & W); auto.
    { rewrite Epf. discriminate. }
    unfold send_ra in Es. rewrite Epf in Es. rewrite <- Epf in Es. rewrite E in Es.
    rewrite Es in H. injection H as <-.
    unfold wf_icmp6 in W. unfold wf_ra.
    destruct (ref_decode fr') as [[d s et l3]|]; [|discriminate].
    destruct l3 as [| |tc nh hop a b l4]; try discriminate.
    destruct l4 as [t cd rest| |]; try discriminate.
    repeat (apply andb_true_iff in W; destruct W as [W ?]).
    match goal with X : beq (ra_fixed ++ ob) rest = true |- _ => apply beq_eq in X; subst rest end.
    match goal with X : (t =? 134) = true |- _ => pose proof X as Ht; apply N.eqb_eq in Ht; subst t end.
    change (icmp6_hop_ok 134 b hop) with (nd_hop_ok hop) in *.
    rewrite W. repeat match goal with X : _ = true |- _ => rewrite X end.
    cbn [andb]. change (skipn 12 (ra_fixed ++ ob)) with ob.
    rewrite Eob, ndp_opts_encode by exact V. rewrite ra_triples_tv, beq_opts_refl.
    rewrite app_length. reflexivity.
  - exfalso. unfold icmp6_send_packet, ip6_append_payload in H.
    replace (Nat.ltb (EthMaxSize - 14 - 40) (length (ra_body ob))) with true in H; [discriminate|].
    symmetry. apply Nat.ltb_lt. unfold ra_body, EthMaxSize. rewrite !app_length. cbn [length b32]. unfold bytes, byte in *. lia.
Qed.

(* non-vacuity: a concrete RA with an RDNSS server and one /64 prefix is sent *)
Example ra_wf_inhabited :
  exists c pf rd dm di junk fr,
    mac_ok (host_mac c) /\ ip6_ok (host_lla c) /\ mac_ok dm /\ ip6_ok di /\ pf_ok pf /\ rd_ok rd /\
    length junk = EthMaxSize /\ send_ra c pf rd (dm, di) junk = Ok [fr].
Proof.
  exists cfg0, [(64, [32;1;13;184;0;0;0;0;0;0;0;0;0;0;0;0])],
    (Some (1800, [[32;1;72;96;72;96;0;0;0;0;0;0;0;0;136;136]])),
    [51;51;0;0;0;1], [255;2;0;0;0;0;0;0;0;0;0;0;0;0;0;1], (repeat 0 EthMaxSize).
  eexists.
  split; [split; [reflexivity|oks]|]. split; [split; [reflexivity|oks]|].
  split; [split; [reflexivity|oks]|]. split; [split; [reflexivity|oks]|].
  split; [repeat constructor; try (cbn; lia); oks|].
  split; [repeat constructor; oks|].
  split; [reflexivity|]. vm_compute. reflexivity.
Qed.

(* ---------------------------------------------------------------- *)
(* hosts without an IPv6 link-local address (NICInfo.HostLLA unset): RS and RA leave with the unspecified
   source address ::, everything else as above *)
Definition with_zero_lla (c : cfg) : cfg :=
  mkCfg (host_mac c) (host_ip4 c) (repeat 0 16) (router_mac c) (router_ip4 c) (mtu c).

Lemma rs_wf_no_lla c junk :
  mac_ok (host_mac c) -> host_lla c = [] -> length junk = EthMaxSize ->
  exists fr, send_rs c junk = Ok [fr] /\ wf_rs (host_mac c) (repeat 0 16) fr = true.
Proof.
  intros H1 H2 HJ.
  assert (E : send_rs c junk = send_rs (with_zero_lla c) junk).
  { destruct c as [hm hip hlla rm rip m]. cbn [host_lla] in H2. subst hlla. reflexivity. }
  rewrite E. apply (rs_wf (with_zero_lla c) junk); auto. split; [reflexivity|oks].
Qed.

Lemma ra_wf_no_lla c pf rd dm di junk fr :
  mac_ok (host_mac c) -> host_lla c = [] -> mac_ok dm -> ip6_ok di -> pf_ok pf -> rd_ok rd ->
  length junk = EthMaxSize ->
  send_ra c pf rd (dm, di) junk = Ok [fr] ->
  wf_ra (host_mac c) (repeat 0 16) (mtu c) pf rd dm di fr = true.
Proof.
  intros H1 H2 H3 H4 Hp Hr HJ Hs.
  assert (E : send_ra c pf rd (dm, di) junk = send_ra (with_zero_lla c) pf rd (dm, di) junk).
  { destruct c as [hm hip hlla rm rip m]. cbn [host_lla] in H2. subst hlla. reflexivity. }
  rewrite E in Hs. apply (ra_wf (with_zero_lla c) pf rd dm di junk fr); auto. split; [reflexivity|oks].
Qed.
