(* Proofs/TablesGlueNum.v — the address predicates of Model/Parse.v (on byte strings) and of Model/Tables.v
   (on numbers) are the same predicates: both restate net/netip; here they are proved equal on every address
   Parse can read (6-byte MACs, 4-byte and 16-byte addresses made of bytes). *)
From PV Require Import Base.Prelude Base.Slice Model.Parse Model.ParseFixes Model.Tables Model.TablesGlue Proofs.TablesPred.
Open Scope N_scope.

Lemma bytes_ok_cons b l : bytes_ok (b :: l) -> b < 256 /\ bytes_ok l.
Proof. intros H. inversion H; subst. auto. Qed.

Ltac boks H := repeat match type of H with bytes_ok (_ :: _) => apply bytes_ok_cons in H; let B := fresh "B" in destruct H as [B H] end.
Ltac unmod := repeat match goal with |- context [?b mod 256] => rewrite (N.mod_small b 256) by lia end.

(* ---------- general facts about [nob] ---------- *)
Lemma nob_acc_spec l : forall acc, nob_acc l acc = acc * 256 ^ N.of_nat (List.length l) + nob l /\ nob l < 256 ^ N.of_nat (List.length l).
Proof.
  unfold nob. induction l as [|b r IH]; intros acc.
  - simpl. split; [rewrite N.mul_1_r, N.add_0_r; reflexivity|]. change (256 ^ N.of_nat 0) with 1. lia.
  - cbn [nob_acc List.length]. rewrite Nat2N.inj_succ, N.pow_succ_r'.
    destruct (IH (acc * 256 + b mod 256)) as [E1 _]. destruct (IH (0 * 256 + b mod 256)) as [E2 B2].
    destruct (IH 0) as [_ B0]. rewrite E1, E2. set (P := 256 ^ N.of_nat (List.length r)) in *.
    assert (b mod 256 < 256) by (apply N.mod_lt; lia). split; nia.
Qed.

Lemma nob_acc_app l acc : nob_acc l acc = acc * 256 ^ N.of_nat (List.length l) + nob l.
Proof. apply nob_acc_spec. Qed.

Lemma nob_bound l : nob l < 256 ^ N.of_nat (List.length l).
Proof. apply (nob_acc_spec l 0). Qed.

Lemma nob_app a b : nob (a ++ b) = nob a * 256 ^ N.of_nat (List.length b) + nob b.
Proof.
  unfold nob. revert b. induction a as [|x r IH]; intros b.
  - simpl. lia.
  - cbn [app nob_acc]. rewrite (nob_acc_app (r ++ b)), (nob_acc_app r). fold (nob (r ++ b)). fold (nob r).
    unfold nob in IH. rewrite app_length, Nat2N.inj_add, N.pow_add_r.
    specialize (IH b). unfold nob. rewrite IH. lia.
Qed.

Lemma nob_zero l : bytes_ok l -> forallb (fun b => b =? 0) l = (nob l =? 0).
Proof.
  induction l as [|b r IH]; intros B; [reflexivity|].
  apply bytes_ok_cons in B. destruct B as [Bb Br]. cbn [forallb].
  change (b :: r) with ([b] ++ r). rewrite nob_app. rewrite (IH Br).
  assert (E : nob [b] = b) by (unfold nob; simpl; rewrite N.mod_small by lia; lia). rewrite E.
  pose proof (nob_bound r) as Hr. set (P := 256 ^ N.of_nat (List.length r)) in *.
  destruct (b =? 0) eqn:E0; destruct (nob r =? 0) eqn:E1; simpl; symmetry; apply N.eqb_eq || apply N.eqb_neq; nia.
Qed.

(* ---------- MACs ---------- *)
Ltac explode6 l H :=
  destruct l as [|b0 [|b1 [|b2 [|b3 [|b4 [|b5 [|? ?]]]]]]]; try discriminate H.
Ltac explode4 l H :=
  destruct l as [|c0 [|c1 [|c2 [|c3 [|? ?]]]]]; try discriminate H.

Lemma unicast_glue smac : List.length smac = 6%nat -> bytes_ok smac -> mac_unicast (nob smac) = is_unicast_mac smac.
Proof.
  intros L B. explode6 smac L. boks B. unfold mac_unicast, is_unicast_mac, nob. cbn [nob_acc nth]. unmod.
  replace (N.land b0 1) with (b0 mod 2) by (symmetry; apply (N.land_ones b0 1)). lia.
Qed.

Lemma bytes_eqb_eq a b : bytes_eqb a b = true <-> a = b.
Proof.
  revert b. induction a as [|x r IH]; intros [|y s]; simpl; try (split; congruence).
  rewrite andb_true_iff, N.eqb_eq, IH. split; [intros [-> ->]; reflexivity|intros E; inversion E; auto].
Qed.

Lemma mac_eq_glue smac m : List.length smac = 6%nat -> bytes_ok smac -> m < 2 ^ 48 ->
  bytes_eqb smac (bon 6 m) = (nob smac =? m).
Proof.
  intros L B M. explode6 smac L. boks B. unfold bon, nob. cbn [bon_acc nob_acc bytes_eqb]. unmod.
  change (2 ^ 48) with 281474976710656 in M.
  destruct ((0 * 256 + b0) * 256 + b1) eqn:E; lia.
Qed.

(* ---------- IPv4 ---------- *)
Lemma ip_be32_nob sip : List.length sip = 4%nat -> bytes_ok sip -> ip_be32 sip = nob sip.
Proof.
  intros L B. explode4 sip L. boks B. unfold ip_be32, be32, nob. cbn [nob_acc nth]. unmod. lia.
Qed.

Lemma ip_be32_bon base : base < 2 ^ 32 -> ip_be32 (bon 4 base) = base.
Proof.
  intros H. change (2 ^ 32) with 4294967296 in H. unfold ip_be32, be32, bon. cbn [bon_acc nth]. lia.
Qed.

Lemma lan_glue (c : Tables.cfg) sip :
  lan_bits c <= 32 -> lan_base c < 2 ^ 32 -> List.length sip = 4%nat -> bytes_ok sip ->
  Parse.lan_contains (pcfg_of c) sip = Tables.lan_contains (lan_base c) (lan_bits c) (IP4 (nob sip)).
Proof.
  intros HB HL L B. unfold Parse.lan_contains, Tables.lan_contains, pcfg_of. cbn [c_bits c_lan].
  rewrite (ip_be32_nob sip L B), (ip_be32_bon _ HL).
  assert (E1 : (lan_bits c <=? 32) = true) by (apply N.leb_le; exact HB). rewrite E1.
  change (Nat.eqb (List.length (bon 4 (lan_base c))) 4) with true. cbn [andb].
  symmetry. apply lxor_shift_eq.
Qed.
