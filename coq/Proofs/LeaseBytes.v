(* Proofs/LeaseBytes.v — C18 on bytes and on the file system (round 7): totality of the constructor on ARBITRARY
   file contents, the crash points of saveConfig, truncation at every byte offset of a saved file. *)
From PV Require Import Base.Prelude Model.LeaseBase Model.Lease Model.LeaseKnown Model.LeaseBytes
  Proofs.Lease Proofs.LeaseNew Proofs.LeaseRestart.
Open Scope N_scope.

(* ---------------------------------------------------------------- *)
(* list facts *)

Lemma has_prefix_app p r : has_prefix p (p ++ r) = true.
Proof. induction p as [|x p IH]; simpl; auto. rewrite N.eqb_refl. exact IH. Qed.

Lemma has_prefix_short p b : (List.length b < List.length p)%nat -> has_prefix p b = false.
Proof.
  revert b; induction p as [|x p IH]; intros b H; simpl in *; [lia|].
  destruct b as [|y b]; auto. simpl in H. rewrite IH by lia. apply andb_false_r.
Qed.

Lemma split_nl_none b : ~ In 10 b -> split_nl b = None.
Proof.
  induction b as [|x b IH]; simpl; intros H; auto.
  destruct (x =? 10) eqn:E; [apply N.eqb_eq in E; exfalso; apply H; left; auto|].
  rewrite IH; auto.
Qed.

Lemma split_nl_app l r : ~ In 10 l -> split_nl (l ++ 10 :: r) = Some (l, r).
Proof.
  induction l as [|x l IH]; simpl; intros H; auto.
  destruct (x =? 10) eqn:E; [apply N.eqb_eq in E; exfalso; apply H; left; auto|].
  rewrite IH; auto.
Qed.

Lemma not_in_firstn {A} (x : A) n l : ~ In x l -> ~ In x (firstn n l).
Proof.
  revert n; induction l as [|y l IH]; intros n H Hin; destruct n; simpl in *; auto.
  destruct Hin as [E|Hin]; [apply H; left; exact E|]. apply (IH n); auto.
Qed.

Section Bytes.
  Variable sha256hex : bytes -> bytes.
  Variable marshal : doc -> bytes.
  Variable unmarshal : bytes -> option doc.

  Notation sum_verdict := (sum_verdict sha256hex).
  Notation read_bytes := (read_bytes sha256hex unmarshal).
  Notation write_bytes := (write_bytes sha256hex marshal).
  Notation new_bytes := (new_bytes sha256hex unmarshal).

  (* ------------------------------------------------------------ *)
  (* ARBITRARY bytes.  Assumed of the libraries: nothing but that sha256hex and unmarshal are total functions
     (crypto/sha256 and yaml.Unmarshal return — value or error — on every input; the harness runs the real
     constructor on random, mutated and YAML-shaped byte strings under recover + watchdog). *)

  (* the constructor neither panics nor loops, whatever the file contains (or if it does not exist) *)
  Lemma new_bytes_total c cap f : new_bytes c cap f <> Panic /\ new_bytes c cap f <> Fuel.
  Proof. unfold LeaseBytes.new_bytes. apply new_total. Qed.

  (* ... and whatever the bytes: every restored lease is Allocated, has a client id, lies in the home subnet, and is
     a lease of the document yaml.Unmarshal made of those very bytes, which passed the integrity check *)
  Lemma new_bytes_table c cap b s :
    new_bytes c cap (Some b) = Ok s ->
    forall l, In l (d_table s) ->
      allocated l = true /\ r_cid (l_rec l) <> [] /\ contains (c_home c) (r_ip (l_rec l)) = true
      /\ sum_verdict b <> SumBad
      /\ exists d, unmarshal b = Some d /\ In (l_rec l) (d_leases d).
  Proof.
    unfold LeaseBytes.new_bytes. intros H l Hin.
    destruct (new_table_filters _ _ _ _ H l Hin) as (Ha & Hc & (st & d & Ei & Hst & Hd) & Hh).
    repeat split; auto; unfold LeaseBytes.read_bytes in Ei.
    - destruct (sum_verdict b) eqn:Ev; try discriminate.
      inversion Ei; subst. contradiction.
    - destruct (sum_verdict b) eqn:Ev.
      + destruct (unmarshal b) as [d'|]; [|discriminate]. inversion Ei; subst. eauto.
      + destruct (unmarshal b) as [d'|]; [|discriminate]. inversion Ei; subst. eauto.
      + inversion Ei; subst. contradiction.
  Qed.

  (* ------------------------------------------------------------ *)
  (* the crash points of saveConfig: at every one of them the lease file holds the old content or the new one *)
  Lemma overwrite_nil w : overwrite w [] = w.
  Proof. unfold overwrite. destruct (List.length w); simpl; apply app_nil_r. Qed.

  (* THE DIRECTORY IS PART OF THE INITIAL STATE: whatever the temporary file holds before the save (absent, shorter,
     equal, LONGER than the new content, arbitrary bytes, a complete older save), after a completed save the lease
     file's bytes are exactly the new serialisation and the temporary file is gone.  This needs the open to truncate. *)
  Lemma save_ignores_stale_tmp content fs :
    f_lease (save_fs content fs) = Some content /\ f_tmp (save_fs content fs) = None.
  Proof.
    unfold save_fs, save_fs_flags, fs_rename, fs_write_tmp, fs_open_tmp, tmp_content. simpl.
    rewrite firstn_all, overwrite_nil. auto.
  Qed.

  (* without O_TRUNC the tail of a longer stale temporary file survives the write and is renamed over the lease file *)
  Lemma save_without_trunc content fs :
    f_lease (save_fs_flags false content fs) = Some (content ++ skipn (List.length content) (tmp_content fs)).
  Proof.
    unfold save_fs_flags, fs_rename, fs_write_tmp, fs_open_tmp. simpl. rewrite firstn_all. reflexivity.
  Qed.

  Lemma restart_after_save_any_directory c cap content fs :
    new_bytes c cap (f_lease (save_fs content fs)) = new_bytes c cap (Some content).
  Proof. rewrite (proj1 (save_ignores_stale_tmp content fs)). reflexivity. Qed.

  Lemma save_without_trunc_refuted :
    exists content fs, f_lease (save_fs_flags false content fs) <> Some content.
  Proof.
    exists [1; 2], {| f_lease := Some [7]; f_tmp := Some [9; 9; 9; 9] |}. vm_compute. discriminate.
  Qed.

  Lemma crash_lease_old_or_new content fs fs' :
    In fs' (crash_states content fs) -> f_lease fs' = f_lease fs \/ f_lease fs' = Some content.
  Proof.
    unfold crash_states. intros [<-|[<-|H]]; auto.
    apply in_app_or in H. destruct H as [H|[<-|[]]].
    - apply in_map_iff in H. destruct H as (n & <- & _). left. reflexivity.
    - right. apply save_ignores_stale_tmp.
  Qed.

  (* at every crash point the temporary file holds a prefix of the new content — never bytes of an older file *)
  Lemma crash_tmp_prefix content fs fs' :
    In fs' (crash_states content fs) ->
    fs' = fs \/ f_tmp fs' = None \/ exists n, f_tmp fs' = Some (firstn n content).
  Proof.
    unfold crash_states. intros [<-|[<-|H]]; auto.
    - right. right. exists 0%nat. reflexivity.
    - apply in_app_or in H. destruct H as [H|[<-|[]]].
      + apply in_map_iff in H. destruct H as (n & <- & _). right. right. exists n.
        unfold fs_write_tmp, fs_open_tmp, tmp_content. simpl. rewrite overwrite_nil. reflexivity.
      + right. left. apply save_ignores_stale_tmp.
  Qed.

  (* hence a restart after a crash at any point of a save (any prefix of the written bytes included) constructs
     exactly what the old file gives or exactly what the completely written new file gives: never a mixture, and
     (new_bytes_total) never a panic *)
  Lemma crash_restart_old_or_new c cap content fs fs' :
    In fs' (crash_states content fs) ->
    new_bytes c cap (f_lease fs') = new_bytes c cap (f_lease fs)
    \/ new_bytes c cap (f_lease fs') = new_bytes c cap (Some content).
  Proof. intros H. destruct (crash_lease_old_or_new _ _ _ H) as [-> | ->]; auto. Qed.

  (* ------------------------------------------------------------ *)
  (* a saved file *)

  (* assumed of fmt %x: no newline among the hex digits *)
  Definition hex_no_nl : Prop := forall b, ~ In 10 (sha256hex b).

  Lemma sum_key_no_nl : ~ In 10 sum_key.
  Proof. unfold sum_key. simpl. intuition discriminate. Qed.

  Lemma verdict_saved d : hex_no_nl -> sum_verdict (write_bytes d) = SumOk.
  Proof.
    intros Hh. unfold LeaseBytes.sum_verdict, LeaseBytes.write_bytes.
    rewrite has_prefix_app. rewrite app_assoc.
    change ([10] ++ marshal d) with (10 :: marshal d).
    rewrite split_nl_app.
    - replace (skipn 10 (sum_key ++ sha256hex (marshal d))) with (sha256hex (marshal d)) by reflexivity.
      rewrite bytes_eqb_refl. reflexivity.
    - intros Hin. apply in_app_or in Hin. destruct Hin as [Hin|Hin]; [apply sum_key_no_nl; exact Hin|apply (Hh _ Hin)].
  Qed.

  (* yaml_roundtrip of the earlier rounds, now derived: it needs only the behaviour of yaml on saved files *)
  Lemma read_saved d : hex_no_nl -> unmarshal (write_bytes d) = Some d -> read_bytes (write_bytes d) = Doc SumOk d.
  Proof. intros Hh Hu. unfold LeaseBytes.read_bytes. rewrite (verdict_saved d Hh), Hu. reflexivity. Qed.

  (* ------------------------------------------------------------ *)
  (* truncation of a saved file at EVERY byte offset *)

  (* assumed of SHA-256: a proper prefix of the marshalled body does not hash to the hash of the whole body *)
  Definition sha256_prefix_free : Prop :=
    forall body n, (n < List.length body)%nat -> sha256hex (firstn n body) <> sha256hex body.

  (* at least the key survived and something is missing: the integrity check fails *)
  Lemma verdict_truncated d n :
    hex_no_nl -> sha256_prefix_free ->
    (10 <= n < List.length (write_bytes d))%nat ->
    sum_verdict (firstn n (write_bytes d)) = SumBad.
  Proof.
    intros Hh Hp Hn. unfold LeaseBytes.write_bytes in *.
    set (hx := sha256hex (marshal d)) in *. set (body := marshal d) in *.
    assert (Lk : List.length sum_key = 10%nat) by reflexivity.
    rewrite !app_length in Hn. simpl in Hn.
    unfold LeaseBytes.sum_verdict.
    assert (Hpre : has_prefix sum_key (firstn n (sum_key ++ hx ++ [10] ++ body)) = true).
    { rewrite firstn_app. rewrite firstn_all2 by lia. apply has_prefix_app. }
    rewrite Hpre.
    destruct (Nat.le_gt_cases n (10 + List.length hx)) as [Hshort|Hlong].
    - (* cut inside the first line: no newline left *)
      rewrite split_nl_none; auto.
      rewrite app_assoc. rewrite firstn_app. rewrite app_length, Lk.
      replace (n - (10 + List.length hx))%nat with 0%nat by lia. rewrite firstn_O, app_nil_r.
      apply not_in_firstn. intros Hin. apply in_app_or in Hin.
      destruct Hin as [Hin|Hin]; [apply sum_key_no_nl; exact Hin|apply (Hh _ Hin)].
    - (* cut inside the body *)
      rewrite app_assoc. rewrite firstn_app. rewrite app_length, Lk.
      rewrite firstn_all2 by (rewrite app_length, Lk; lia).
      set (k := (n - (10 + List.length hx))%nat).
      assert (Hk : (1 <= k <= List.length body)%nat).
      { unfold k. unfold byte in *. lia. }
      assert (Hline : ~ In 10 (sum_key ++ hx)).
      { intros Hin. apply in_app_or in Hin.
        destruct Hin as [Hin|Hin]; [apply sum_key_no_nl; exact Hin|apply (Hh _ Hin)]. }
      destruct k as [|k'] eqn:Ek; [lia|].
      change (firstn (S k') ([10] ++ body)) with (10 :: firstn k' body).
      rewrite (split_nl_app _ _ Hline).
      change (skipn 10 (sum_key ++ hx)) with hx.
      destruct (bytes_eqb hx (sha256hex (firstn k' body))) eqn:E; auto.
      apply bytes_eqb_eq in E. exfalso. apply (Hp body k'); [unfold byte in *; lia|]. symmetry. exact E.
  Qed.

  (* assumed of yaml.Unmarshal on the nine proper prefixes of "checksum: " and on the empty file (ten byte strings,
     each tested on every run: kind yamlshort): an error or a document without leases *)
  Definition yaml_short : Prop :=
    forall n, (n < 10)%nat ->
      unmarshal (firstn n sum_key) = None \/ exists d, unmarshal (firstn n sum_key) = Some d /\ d_leases d = [].

  (* C18, crash-point clause on bytes: a saved file cut at ANY byte offset constructs either exactly what the whole
     file constructs (nothing cut) or an empty table; never a panic (new_bytes_total) *)
  Lemma truncated_intact_or_empty c cap d n s :
    hex_no_nl -> sha256_prefix_free -> yaml_short ->
    new_bytes c cap (Some (firstn n (write_bytes d))) = Ok s ->
    firstn n (write_bytes d) = write_bytes d \/ d_table s = [].
  Proof.
    intros Hh Hp Hy H.
    destruct (Nat.le_gt_cases (List.length (write_bytes d)) n) as [Hall|Hcut].
    - left. apply firstn_all2. exact Hall.
    - right. unfold LeaseBytes.new_bytes in H.
      destruct (Nat.le_gt_cases 10 n) as [H10|H10].
      + (* checksum mismatch *)
        unfold LeaseBytes.read_bytes in H. rewrite (verdict_truncated d n Hh Hp (conj H10 Hcut)) in H.
        eapply new_no_load_empty; [|exact H]. intros n1 n2 t. simpl. discriminate.
      + (* less than the key is left *)
        assert (Ecut : firstn n (write_bytes d) = firstn n sum_key).
        { unfold LeaseBytes.write_bytes. rewrite firstn_app.
          replace (n - List.length sum_key)%nat with 0%nat by (simpl; lia). simpl. apply app_nil_r. }
        rewrite Ecut in H. unfold LeaseBytes.read_bytes, LeaseBytes.sum_verdict in H.
        rewrite has_prefix_short in H by (rewrite firstn_length; simpl; lia).
        destruct (Hy n H10) as [E|[d' [E Hl]]]; rewrite E in H.
        * eapply new_no_load_empty; [|exact H]. intros n1 n2 t. simpl. discriminate.
        * eapply new_noleases_empty; eauto.
  Qed.
End Bytes.
