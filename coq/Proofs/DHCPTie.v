(* Proofs/DHCPTie.v — the spec column of the dispatch modules D11/D12 (the lists c11_fails /
   c12_fails evaluated on the model's trace) is, by theorem, empty along every history: a "viol"
   answer of the extracted model is impossible (for C12 under cfg_ok). *)
From PV Require Import Base.Prelude Base.Text Model.DHCP Model.DHCPShow Spec.DHCP Spec.DHCPCheck
  Proofs.DHCP Proofs.DHCPInv Proofs.DHCPReply.
Open Scope list_scope.
Open Scope N_scope.

Theorem c11_fails_nil : forall c h t, sub_ok c -> In t (trace c (init c) h) -> c11_fails c t = [].
Proof.
  intros c h t Hok Hin. unfold c11_fails.
  destruct (trace_step c h (init c) t (inv_init c) Hin) as [HI E].
  destruct (step_ok c _ _ _ _ _ HI E) as [HI' _].
  assert (U : uniqb (tbl (t_post t)) = true) by (apply uniqb_spec; apply (inv_uniq c); exact HI').
  rewrite U, (record_covers_any_state c (init c) h t Hin). cbn [negb]. rewrite andb_false_r. rewrite !app_nil_r.
  destruct (op_msg (t_op t)) as [m|] eqn:Hm; auto.
  destruct (t_reply t) as [r|] eqn:Hr; auto.
  destruct (is_lease_reply r) eqn:L; auto.
  pose proof (not_acked_elsewhere_all c h t m r Hin Hm Hr) as A.
  pose proof (not_reserved_all c h t m r Hok Hin Hm Hr) as R.
  unfold c11_not_acked_elsewhere in A. unfold c11_not_reserved, reserved in R. rewrite L in A, R. simpl in A, R.
  apply negb_true_iff in A, R.
  apply orb_false_iff in R as [R R6]. apply orb_false_iff in R as [R R5]. apply orb_false_iff in R as [R R4].
  apply orb_false_iff in R as [R R3]. apply orb_false_iff in R as [R1 R2].
  rewrite A, R1, R2, R3, R4, R5, R6. reflexivity.
Qed.

Theorem c12_fails_nil : forall c h t,
  cfg_ok c -> In t (trace c (init c) h) -> c12_fails c t = [].
Proof.
  intros c h t Hc Hin. unfold c12_fails.
  destruct (op_msg (t_op t)) as [m|] eqn:Hm; auto.
  pose proof (no_ack_when_all c h t m (proj1 Hc) Hin Hm) as NA. rewrite NA. rewrite andb_false_r.
  destruct (t_reply t) as [r|] eqn:Hr; auto. rewrite app_nil_r.
  destruct (is_lease_reply r) eqn:L; auto.
  pose proof (subnet_all c h t m r Hc Hin Hm Hr) as S.
  pose proof (mask_first_all c h t m r Hin Hm Hr) as M.
  pose proof (ack_matches_all c h t m r Hin Hm Hr) as K.
  unfold c12_subnet in S. rewrite L in S. simpl in S.
  apply andb_true_iff in S as [S S8]. apply andb_true_iff in S as [S S7]. apply andb_true_iff in S as [S S6].
  apply andb_true_iff in S as [S S5]. apply andb_true_iff in S as [S S4]. apply andb_true_iff in S as [S S3].
  apply andb_true_iff in S as [S1 S2].
  rewrite S1, S2, S3, S4, S5, S6, S7, S8, M, K. reflexivity.
Qed.
