(* Proofs/LeaseGlueServe.v — C18 "keeps serving", stated with the DHCP cluster's [step] (Model/DHCP.v, read-only).
   Both statements quantify over ALL states, not only over the state right after a restart, so they hold at every
   point of every continuation history at which their local premises still hold.  (DHCP's own invariant [Inv]
   cannot be used from a restored state: it demands that the session tracks every lease address, which is false
   right after a restart, when the host table is empty.) *)
From PV Require Import Base.Prelude Model.DHCP Spec.DHCP Spec.DHCPCheck Proofs.DHCP Proofs.DHCPInv Proofs.LeaseGlueStep.
Open Scope list_scope.
Open Scope N_scope.

(* ---------------------------------------------------------------- *)
(* renewal *)

(* a RENEWING REQUEST: no server id, no requested address, unicast, ciaddr = x *)
Definition renewing_msg (m : dmsg) (x : ip) : Prop :=
  m_sid m = None /\ m_req m = None /\ m_src m <> ip_bcast /\ m_ciaddr m = x /\ x <> 0.

Lemma renew_acked c ch now s m l x :
  renewing_msg m x ->
  let s0 := parse_effect c s m in
  tget (getcid m) (tbl s) = Some l ->
  l_state l = SAllocated -> l_ip l = Some x -> l_mac l = m_chaddr m ->
  l_net2 l = sess_captured (ss s0) (m_chaddr m) ->       (* the client is still on the subnet of its lease *)
  (now <= l_exp l)%Z ->                                   (* unexpired *)
  taken s0 l x = false ->                                 (* nobody else holds the address *)
  exists r, snd (step c ch s (ORequest now m)) = Some r /\ r_type r = RAck /\ r_yi r = x.
Proof.
  intros [Hsid [Hreq [Hsrc [Hci Hx]]]] s0 Hget Hst Hip Hmac Hnet Hexp Htk.
  assert (E1 : (m_src m =? ip_bcast) = false) by (apply N.eqb_neq; exact Hsrc).
  assert (E2 : (x =? 0) = false) by (apply N.eqb_neq; exact Hx).
  assert (Hcl : classify m = (Renewing, x)).
  { unfold classify. rewrite Hsid, Hreq. simpl. rewrite E1. simpl. rewrite Hci. reflexivity. }
  unfold step. fold s0. unfold handleRequest. rewrite Hcl, E2.
  unfold findOrCreate. unfold s0 at 1. rewrite parse_tbl, Hget. fold s0.
  rewrite Hnet, Bool.eqb_reflx, Hmac, N.eqb_refl. simpl.
  assert (E3 : (l_exp l <? now)%Z = false) by lia.
  rewrite Hst, Htk, Hip, E3. simpl. rewrite N.eqb_refl, Hmac, N.eqb_refl. simpl.
  unfold do_ack. simpl. rewrite Hst. simpl. rewrite Hip.
  eexists. split; [reflexivity|]. split; reflexivity.
Qed.

(* ---------------------------------------------------------------- *)
(* no re-offer *)

(* [x] is held in the table, and only by Allocated leases of client ids other than [k]
   (every address of a restored table is so held, for every client id that is not one of its holders) *)
Definition held_by_others (t : list lease) (k : cid) (x : ip) : Prop :=
  (exists v, In v t /\ l_ip v = Some x)
  /\ forall w, In w t -> l_ip w = Some x -> l_state w = SAllocated /\ l_cid w <> k.

Lemma held_tset t k x l' :
  held_by_others t k x -> l_cid l' = k -> (l_ip l' = Some x -> False) -> held_by_others (tset l' t) k x.
Proof.
  intros [[v [Hv Ev]] Hall] Hc Hn. split.
  - exists v. split; auto. apply in_tset. right. split; auto. rewrite Hc. apply (Hall v Hv Ev).
  - intros w Hw Ew. apply in_tset in Hw. destruct Hw as [->|[Hw _]]; [contradiction|auto].
Qed.

Lemma findByIP_held ch t k x :
  held_by_others t k x -> exists w, findByIP ch t x = Some w /\ l_state w = SAllocated /\ l_cid w <> k.
Proof.
  intros [[v [Hv Ev]] Hall]. unfold findByIP.
  set (ms := filter (fun l => oeqb (l_ip l) (Some x)) t).
  assert (Hne : ms <> []).
  { intros E. assert (Hin : In v ms) by (apply filter_In; split; auto; rewrite Ev; simpl; apply N.eqb_refl).
    rewrite E in Hin. destruct Hin. }
  assert (Hlt : (Nat.modulo ch (List.length ms) < List.length ms)%nat).
  { apply Nat.mod_upper_bound. destruct ms; [congruence|simpl; lia]. }
  destruct (nth_error ms (Nat.modulo ch (List.length ms))) as [w|] eqn:E.
  - exists w. split; auto. apply nth_error_In in E. apply filter_In in E. destruct E as [Hw Ew].
    apply Hall; auto. destruct (l_ip w) as [y|]; simpl in Ew; [|discriminate]. apply N.eqb_eq in Ew. congruence.
  - apply nth_error_None in E. lia.
Qed.

Lemma avail_held ch s k x : held_by_others (tbl s) k x -> avail ch s x = false.
Proof.
  intros H. destruct (findByIP_held (ch x) _ _ _ H) as [w [E [S _]]].
  unfold avail. rewrite E. simpl. rewrite S. reflexivity.
Qed.

Lemma avail_req_held ch s k x : held_by_others (tbl s) k x -> avail_req ch s k x = false.
Proof.
  intros H. destruct (findByIP_held (ch x) _ _ _ H) as [w [E [S C]]].
  unfold avail_req. rewrite E. rewrite S. simpl. apply N.eqb_neq in C. rewrite C. reflexivity.
Qed.

Lemma alloc_not_held c ch s l req x s2 :
  held_by_others (tbl s) (l_cid l) x -> allocIPOffer c ch s l req = (Some x, s2) -> False.
Proof.
  intros Hh. unfold allocIPOffer.
  destruct (phase1 c ch s l req) as [r|] eqn:P1.
  - intros H. inversion H; subst r s2. unfold phase1 in P1. destruct req as [r'|]; [|discriminate].
    destruct (_ && _) eqn:C in P1; [|discriminate]. inversion P1; subst r'.
    apply andb_true_iff in C as [_ C]. rewrite (avail_req_held ch s _ x Hh) in C. discriminate.
  - destruct (scan ch s (get_next s (l_net2 l)) (n_bcast c (l_net2 l))) as [y|] eqn:S1.
    + intros H. inversion H; subst y. apply scan_spec in S1 as [A _]. rewrite (avail_held ch s _ x Hh) in A. discriminate.
    + destruct (scan ch s (n_first c (l_net2 l)) (n_bcast c (l_net2 l))) as [y|] eqn:S2.
      * intros H. inversion H; subst y. apply scan_spec in S2 as [A _]. rewrite (avail_held ch s _ x Hh) in A. discriminate.
      * intros H. inversion H.
Qed.

Lemma taken_held s l x : held_by_others (tbl s) (l_cid l) x -> taken s l x = true.
Proof.
  intros [[v [Hv Ev]] Hall]. destruct (Hall v Hv Ev) as [S C].
  unfold taken. apply orb_true_iff. left. apply existsb_exists. exists v. split; auto.
  rewrite S, Ev. simpl. rewrite N.eqb_refl. apply N.eqb_neq in C. rewrite C. reflexivity.
Qed.

(* whatever the map order, capture state, host table, cursors and requested address: a DISCOVER of client id k is
   never answered with an address that the table holds only in Allocated leases of other client ids *)
Lemma discover_not_held c ch now s m s' r :
  step c ch s (ODiscover now m) = (s', Some r) ->
  held_by_others (tbl s) (getcid m) (r_yi r) -> False.
Proof.
  unfold step. set (s0 := parse_effect c s m). intros H Hh.
  assert (Hh0 : held_by_others (tbl s0) (getcid m) (r_yi r)) by (unfold s0; rewrite parse_tbl; exact Hh).
  clearbody s0. clear Hh. unfold handleDiscover in H. set (k := getcid m) in *.
  destruct (findOrCreate c s0 k (m_chaddr m)) as [s1 l] eqn:Ef.
  apply foc_spec in Ef as [_ [_ [_ [Hk [_ [_ Hcase]]]]]].
  (* the address stays held in s1; the client's own lease does not hold it *)
  assert (Hown : l_ip l = Some (r_yi r) -> False).
  { destruct Hcase as [[_ Eg]|[El _]].
    - intros E. apply tget_in in Eg as [Hin _]. destruct Hh0 as [_ Hall]. destruct (Hall l Hin E) as [_ C]. congruence.
    - subst l. discriminate. }
  assert (Hh1 : held_by_others (tbl s1) k (r_yi r)).
  { destruct Hcase as [[-> _]|[_ ->]]; [exact Hh0|]. simpl. apply held_tset; auto. }
  set (l0 := discover_reset now l m) in *.
  destruct (discover_reset_same now l m) as [R1 [Rc [_ [Rip _]]]]. fold l0 in R1, Rc, Rip.
  set (l1 := match l_offer l0 with Some x => if taken s1 l0 x then set_offer l0 None else l0 | None => l0 end) in *.
  assert (L1 : l_cid l1 = k /\ l_ip l1 = l_ip l).
  { unfold l1. destruct (l_offer l0) as [x|]; [destruct (taken s1 l0 x)|]; simpl; split; congruence. }
  destruct L1 as [C1 I1].
  assert (Hh2 : held_by_others (tbl (put s1 l1)) k (r_yi r)).
  { simpl. apply held_tset; auto. rewrite I1. exact Hown. }
  (* a retained offer that is held by others is dropped by [taken] *)
  assert (Hoff : l_offer l1 = Some (r_yi r) -> False).
  { unfold l1. destruct (l_offer l0) as [x|] eqn:Eo; [|rewrite Eo; discriminate].
    destruct (taken s1 l0 x) eqn:Et; [simpl; discriminate|]. rewrite Eo. intros E. inversion E; subst x.
    rewrite taken_held in Et; [discriminate|]. rewrite <- Rc, Hk. exact Hh1. }
  destruct (l_offer l1) as [x|] eqn:Eo.
  - inversion H; subst s' r. simpl in Hoff. apply Hoff. reflexivity.
  - destruct (allocIPOffer c ch (put s1 l1) l1 (m_req m)) as [off s2] eqn:Ea.
    destruct off as [x|]; [|discriminate].
    inversion H; subst s' r. simpl in *.
    eapply alloc_not_held; [|exact Ea]. rewrite C1. exact Hh2.
Qed.
