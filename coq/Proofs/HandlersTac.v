(* Proofs/HandlersTac.v — small shared lemmas and tactics of the C08 proofs:
   [safe] through bind, slice side conditions. *)
From PV Require Import Base.Prelude Base.Slice.
Open Scope N_scope.

Lemma safe_bind {A B} (r : res A) (f : A -> res B) :
  safe r -> (forall a, r = Ok a -> safe (f a)) -> safe (bind r f).
Proof.
  intros [H1 H2] H. destruct r; cbn [bind]; try congruence.
  - apply H; reflexivity.
  - apply safe_Err.
Qed.

Lemma Ok_inj {A} (a b : A) : Ok a = Ok b -> a = b.
Proof. congruence. Qed.

Lemma safe_Ok_tt : safe (Ok tt).
Proof. apply safe_Ok. Qed.

Lemma not_safe_Panic {A} : ~ safe (@Panic A).
Proof. intros [H _]; congruence. Qed.
Lemma not_safe_Fuel {A} : ~ safe (@Fuel A).
Proof. intros [_ H]; congruence. Qed.

Lemma nth_skipn_add {A} (l : list A) i k d : nth k (skipn i l) d = nth (i + k) l d.
Proof.
  revert l; induction i as [|i IH]; intros l; cbn [skipn Nat.add]; [reflexivity|].
  destruct l as [|x xs]; [destruct k; reflexivity|]. cbn [nth]. apply IH.
Qed.

Lemma cap_mk a n : cap (mkSlice a n) = length a.
Proof. reflexivity. Qed.
Lemma len_mk a n : len (mkSlice a n) = n.
Proof. reflexivity. Qed.
Lemma arr_mk a n : arr (mkSlice a n) = a.
Proof. reflexivity. Qed.

(* idx out of range *)
Lemma idx_panic s i : (len s <= i)%nat -> idx s i = Panic.
Proof. intros H. unfold idx. destruct (Nat.ltb_spec i (len s)); [lia|reflexivity]. Qed.
Lemma slfrom_panic s a : (len s < a)%nat -> slfrom s a = Panic.
Proof. intros H. unfold slfrom. destruct (Nat.leb_spec a (len s)); [lia|reflexivity]. Qed.
Lemma sl_panic s a b : (b < a \/ cap s < b)%nat -> sl s a b = Panic.
Proof.
  intros H. unfold sl. destruct (Nat.leb_spec a b); cbn [andb]; [|reflexivity].
  destruct (Nat.leb_spec b (cap s)); [lia|reflexivity].
Qed.

(* side conditions: everything about len/cap of sub-slices reduces to linear arithmetic *)
Ltac slen :=
  unfold wf, cap in *; cbn [len arr] in *;
  rewrite ?skipn_length, ?firstn_length in *; lia.

Ltac sstep :=
  first [ rewrite idx_ok by slen
        | rewrite sl_ok by slen
        | rewrite slfrom_ok by slen ]; cbn [bind].

Ltac sif :=
  match goal with
  | |- context [if ?c then _ else _] =>
      lazymatch c with
      | context [if _ then _ else _] => fail
      | _ => destruct c eqn:?
      end
  end.

Ltac sdone := first [ apply safe_Ok | apply safe_Err | apply safe_Ok_tt ].

Ltac ssolve := repeat first [ sdone | sstep | sif ].
