(* Proofs/Views6.v -- RS/RA Options(): the decoders (Model/ViewsVar.v ndp_value) equal the positional option
   spec (Spec/ViewsNDP.v ndp_spec) on every byte string. *)
From PV Require Import Proofs.ViewsBase Proofs.Views3.
Open Scope N_scope.

(* ---- prefix masks: land with 256 - 2^(8-k)  =  keep the k leading bits by division ---- *)
Lemma land_mask_k : forall k, (1 <= k <= 7)%nat -> forall b, b < 256 ->
  N.land b (256 - 2 ^ N.of_nat (8 - k)) = (b / 2 ^ N.of_nat (8 - k)) * 2 ^ N.of_nat (8 - k).
Proof.
  intros k Hk. assert (k = 1 \/ k = 2 \/ k = 3 \/ k = 4 \/ k = 5 \/ k = 6 \/ k = 7)%nat as C by lia.
  destruct C as [->|[->|[->|[->|[->|[->| ->]]]]]]; sweep.
Qed.

Lemma mask_byte_keep pl i b : b < 256 -> mask_byte pl i b = keep_bits pl i b.
Proof.
  intros Hb. unfold mask_byte, keep_bits.
  destruct (Nat.leb_spec (8 * (i + 1)) pl).
  - replace (Nat.min 8 (pl - 8 * i)) with 8%nat by lia. change (2 ^ N.of_nat (8 - 8)) with 1. lia.
  - destruct (Nat.leb_spec pl (8 * i)).
    + replace (Nat.min 8 (pl - 8 * i)) with 0%nat by lia. change (2 ^ N.of_nat (8 - 0)) with 256. lia.
    + replace (Nat.min 8 (pl - 8 * i)) with (pl - 8 * i)%nat by lia. apply land_mask_k; [lia|exact Hb].
Qed.

Lemma mask_from_prefix pl : forall l i, bytes_ok l -> mask_from pl i l = prefix_from pl i l.
Proof.
  induction l as [|b r IH]; intros i B; [reflexivity|]. inversion B; subst. cbn [mask_from prefix_from].
  rewrite mask_byte_keep by assumption. f_equal. apply IH. assumption.
Qed.

Lemma mask16_prefix pl l : bytes_ok l -> mask16 pl l = prefix_of pl l.
Proof. apply mask_from_prefix. Qed.

Lemma bytes_ok_sub l a n : bytes_ok l -> bytes_ok (sub l a n).
Proof. intros B. unfold sub. apply bytes_ok_firstn, bytes_ok_skipn. exact B. Qed.

Lemma bytes_ok_pad16 l : bytes_ok l -> bytes_ok (pad16 l).
Proof.
  intros B. unfold pad16. apply bytes_ok_firstn. apply bytes_ok_app. split; [exact B|]. apply bytes_ok_repeat. lia.
Qed.

(* ---- one option: decoder = positional spec ---- *)
Lemma flag128 : forall b, b < 256 -> negb (N.land b 128 =? 0) = ((b / 128) mod 2 =? 1).
Proof. sweep. Qed.
Lemma flag64 : forall b, b < 256 -> negb (N.land b 64 =? 0) = ((b / 64) mod 2 =? 1).
Proof. sweep. Qed.
Lemma prf_bits : forall b, b < 256 -> N.shiftr (N.land b 24) 3 = (b / 8) mod 4.
Proof. sweep. Qed.

Ltac bool_cases := repeat match goal with |- context [if ?c then _ else _] => destruct c eqn:? end; try reflexivity; try lia.

Lemma ndp_apply_spec x st : bytes_ok x -> (8 <= List.length x)%nat -> List.length x = (N.to_nat (ob x 1) * 8)%nat ->
  ndp_apply x st = ndp_opt_spec x st.
Proof.
  intros B L8 LX. unfold ob in LX.
  pose proof (bytes_ok_nth x 0 B) as B0. pose proof (bytes_ok_nth x 1 B) as B1. pose proof (bytes_ok_nth x 2 B) as B2.
  pose proof (bytes_ok_nth x 3 B) as B3. pose proof (bytes_ok_nth x 4 B) as B4. pose proof (bytes_ok_nth x 5 B) as B5.
  pose proof (bytes_ok_nth x 6 B) as B6. pose proof (bytes_ok_nth x 7 B) as B7.
  assert (T0 : bits x 0 8 = nth 0 x 0) by (norm_bits; rewrite field_be_1 by lia; lia).
  assert (T1 : bits x 8 8 = nth 1 x 0) by (norm_bits; rewrite field_be_1 by lia; lia).
  assert (T2 : bits x 16 8 = nth 2 x 0) by (norm_bits; rewrite field_be_1 by lia; lia).
  assert (F24 : (bits x 24 1 =? 1) = negb (N.land (nth 3 x 0) 128 =? 0))
    by (norm_bits; rewrite field_be_1 by lia; rewrite (flag128 _ B3); reflexivity).
  assert (F25 : (bits x 25 1 =? 1) = negb (N.land (nth 3 x 0) 64 =? 0))
    by (norm_bits; rewrite field_be_1 by lia; rewrite (flag64 _ B3); reflexivity).
  assert (P27 : bits x 27 2 = N.shiftr (N.land (nth 3 x 0) 24) 3)
    by (norm_bits; rewrite field_be_1 by lia; rewrite (prf_bits _ B3); reflexivity).
  assert (W32 : bits x 32 32 = ob32 x 4).
  { norm_bits. rewrite field_be_4 by lia. unfold ob32, ob, be32. simpl Nat.add. pow_lits. lia. }
  unfold ndp_apply, ndp_opt_spec. rewrite T0, T1, T2, F24, F25, P27, W32. unfold ob.
  unfold set_slla, set_tlla, set_mtu, add_prefix, add_rdnss, set_dnssl, set_route.
  set (t := nth 0 x 0) in *. set (l8 := nth 1 x 0) in *.
  destruct ((t =? 1) || (t =? 2))%bool eqn:ELLA.
  { destruct (l8 =? 1); reflexivity. }
  destruct (t =? 5) eqn:E5.
  { destruct (l8 =? 1); reflexivity. }
  destruct (t =? 3) eqn:E3.
  { destruct (l8 =? 4) eqn:E4; [|reflexivity]. cbn [negb].
    unfold ob. destruct (128 <? nth 2 x 0); [reflexivity|].
    assert (W64 : bits x 64 32 = ob32 x 8).
    { norm_bits. rewrite field_be_4 by lia. unfold ob32, ob, be32. simpl Nat.add. pow_lits.
      pose proof (bytes_ok_nth x 8 B). pose proof (bytes_ok_nth x 9 B). pose proof (bytes_ok_nth x 10 B). pose proof (bytes_ok_nth x 11 B). lia. }
    rewrite W64. rewrite mask16_prefix by (apply bytes_ok_sub; exact B). reflexivity. }
  destruct (t =? 24) eqn:E24.
  { unfold ob. set (pl := nth 2 x 0) in *.
    match goal with |- (if negb ?a then _ else _) = (if negb ?b then _ else _) => assert (EQ : a = b) end.
    { bool_cases. }
    rewrite EQ. match goal with |- context [if negb ?c then _ else _] => destruct c end; [|reflexivity]. cbn [negb].
    destruct (N.shiftr (N.land (nth 3 x 0) 24) 3 =? 2); [reflexivity|].
    rewrite mask16_prefix by (apply bytes_ok_pad16, bytes_ok_sub; exact B). reflexivity. }
  destruct (t =? 25) eqn:E25.
  { assert (l8 < 256) by exact B1. assert (1 <= l8) by (unfold l8; lia).
    destruct (negb ((l8 - 1) * 8 mod 16 =? 0)) eqn:D1.
    - assert ((l8 mod 2 =? 1) && (3 <=? l8) = false)%bool as -> by lia. reflexivity.
    - destruct (Nat.eqb (N.to_nat ((l8 - 1) * 8 / 16)) 0) eqn:D2.
      + assert ((l8 mod 2 =? 1) && (3 <=? l8) = false)%bool as -> by lia. reflexivity.
      + assert ((l8 mod 2 =? 1) && (3 <=? l8) = true)%bool as -> by lia.
        replace (N.to_nat ((l8 - 1) * 8 / 16)) with (N.to_nat ((l8 - 1) / 2)) by lia. reflexivity. }
  destruct (t =? 31) eqn:E31.
  { unfold blen. rewrite skipn_length.
    destruct (dnssl_walk (S (List.length x - 2)) (skipn 2 x) 6 [] []) as [[|d ds]|]; reflexivity. }
  reflexivity.
Qed.

(* ---- the block: sequential decoding = split into options, then fold ---- *)
Lemma ndp_decode_split fuel : forall b st, bytes_ok b -> (List.length b < fuel)%nat ->
  ndp_decode fuel b st = match ndp_split fuel b with None => None | Some xs => ndp_fold xs st end.
Proof.
  induction fuel as [|f IH]; intros b st B Hf; [lia|].
  cbn [ndp_decode ndp_split]. destruct b as [|a [|l8 r]]; [reflexivity| |].
  - cbn. reflexivity.
  - set (b := a :: l8 :: r) in *.
    assert (BL : bits b 8 8 = l8).
    { norm_bits. rewrite field_be_1 by (unfold b; simpl; lia). unfold b. cbn [nth].
      assert (l8 < 256) by (apply (bytes_ok_nth b 1 B)). lia. }
    rewrite BL. replace (8 * N.to_nat l8)%nat with (N.to_nat l8 * 8)%nat by lia.
    set (l := (N.to_nat l8 * 8)%nat). unfold blen.
    assert (Nat.ltb (List.length b) 2 = false) as -> by (apply Nat.ltb_ge; unfold b; simpl; lia). cbn [orb].
    destruct (Nat.eqb_spec l 0); [reflexivity|].
    destruct (Nat.ltb_spec (List.length b) l); [reflexivity|].
    assert (LXl : List.length (firstn l b) = l) by (apply firstn_length_le; lia).
    assert (O1 : ob (firstn l b) 1 = l8) by (unfold ob; rewrite nth_firstn by lia; reflexivity).
    rewrite (ndp_apply_spec (firstn l b) st) by (try (apply bytes_ok_firstn; exact B); rewrite ?LXl, ?O1; unfold l in *; lia).
    cbn [orb]. destruct (ndp_split f (skipn l b)) as [xs|] eqn:ES; cbn [ndp_fold];
      destruct (ndp_opt_spec (firstn l b) st) as [st'|]; try reflexivity;
      rewrite (IH (skipn l b)) by (try (apply bytes_ok_skipn; exact B); rewrite ?skipn_length; lia);
      rewrite ES; reflexivity.
Qed.

Theorem ndp_value_spec b : bytes_ok b -> ndp_value b = ndp_spec b.
Proof.
  intros B. unfold ndp_value, ndp_spec, blen. rewrite ndp_decode_split by (try exact B; lia).
  destruct (ndp_split _ b) as [xs|]; reflexivity.
Qed.

(* ---- the getters ---- *)
Lemma ndp_options_at_spec k v : wf v -> bytes_ok (arr v) -> ndp_options_at k v = Ok (ndp_options_spec k (view v)).
Proof.
  intros W B. pose proof (view_length v W) as L. unfold ndp_options_at, ndp_options_spec, blen. rewrite L.
  unfold wf in W. destruct (Nat.leb_spec (len v) k); [reflexivity|].
  rewrite slfrom_ok by lia. cbn [bind len arr].
  assert (R : is_ret (ndp_options (S (len v - k)) {| arr := skipn k (arr v); len := len v - k |} 0)).
  { apply ndp_options_ret; [|cbn [len]; lia|cbn [len]; lia]. unfold wf, cap. cbn [arr len]. rewrite skipn_length. unfold cap in W. lia. }
  destruct R as [R|R]; rewrite R; cbn [bind]; f_equal.
  all: rewrite firstn_skipn_comm; replace (k + (len v - k))%nat with (len v) by lia; fold (view v);
       apply ndp_value_spec; apply bytes_ok_skipn; unfold view; apply bytes_ok_firstn; exact B.
Qed.

Ltac valid_len H := unfold lenN in H; injection H as H.
Ltac std_spec2 W B L := unfold wf in W; pose proof (view_length _ W) as L; unfold getters_spec; each_spec;
  try (c02_fixed B L; fail); try (c02_fixed B L; by_sweep); try (c02_gen B L; fail).

Lemma RA_spec v : wf v -> bytes_ok (arr v) -> RA_IsValid v = Ok true -> getters_spec [] RA_getters RA_specs v.
Proof.
  intros W B H. unfold RA_IsValid in H. valid_len H. unfold RA_getters, RA_specs. pose proof W as W'. std_spec2 W B L.
  intros _. apply ndp_options_at_spec; assumption.
Qed.

Lemma RS_valid_len' v : RS_IsValid v = Ok true -> (8 <= len v)%nat.
Proof. unfold RS_IsValid, lenN. destruct (N.of_nat (len v) <? 8) eqn:E; [discriminate|]. intros _. lia. Qed.
Lemma RS_spec v : wf v -> bytes_ok (arr v) -> RS_IsValid v = Ok true -> getters_spec [] RS_getters RS_specs v.
Proof.
  intros W B H. apply RS_valid_len' in H. unfold RS_getters, RS_specs. pose proof W as W'. std_spec2 W B L.
  intros _. apply ndp_options_at_spec; assumption.
Qed.
