(* Proofs/PingTime.v — the timeout argument: Ping/Ping6 normalise it BEFORE they build the waiter and
   arm the timer, nothing reads msg.expire, and the timer cannot fire before the EFFECTIVE timeout
   has elapsed since the call entered its select. *)
From PV Require Import Base.Prelude Model.Ping Model.PingTrace Proofs.Ping Proofs.PingIff.
Open Scope N_scope.

(* the normalisation *)
Lemma eff_timeout_spec t :
  (eff_timeout t = if ((0 <? t) && (t <=? 10 * SECOND))%Z then t else (2 * SECOND)%Z).
Proof. unfold eff_timeout, SECOND. destruct (Z.leb_spec t 0), (Z.ltb_spec (10 * 1000000000) t), (Z.ltb_spec 0 t), (Z.leb_spec t (10 * 1000000000)); cbn; lia. Qed.

Lemma eff_timeout_range t : (0 < eff_timeout t <= 10 * SECOND)%Z.
Proof. rewrite eff_timeout_spec. unfold SECOND. destruct (Z.ltb_spec 0 t), (Z.leb_spec t (10 * 1000000000)); cbn; lia. Qed.

Record TOk (s : state) (pg : ping) : Prop := {
  tok_eff : t_eff (p_time pg) = eff_timeout (t_raw (p_time pg));
  tok_sending : p_phase pg = Sending -> p_fired pg = false;
  tok_fired : p_fired pg = true -> (t_armed (p_time pg) + t_eff (p_time pg) <= clock s)%Z;
  tok_timeout : p_phase pg = Returned RTimeout -> p_fired pg = true
}.
Definition TInv (s : state) : Prop := forall p pg, pget (pings s) p = Some pg -> TOk s pg.

Lemma TInv_step fx s e s' : Inv s -> TInv s -> step fx s e = Ok s' -> TInv s'.
Proof.
  intros HI HT H. pose proof (inv_flags _ HI) as Hfl. unfold TInv in *.
  step_cases H; cbn [pings set_pings]; intros p0 pg0; rewrite ?pget_pset.
  - destruct (Nat.eqb_spec p0 p).
    + intros E; inversion E; subst. constructor; cbn; auto; discriminate.
    + intros E. destruct (HT _ _ E). constructor; auto.
  - destruct (Nat.eqb_spec p0 p).
    + intros E; inversion E; subst. constructor; cbn; auto; discriminate.
    + intros E. destruct (HT _ _ E). constructor; auto.
  - destruct (Nat.eqb_spec p0 p).
    + intros E; inversion E; subst. destruct (HT _ _ Ep) as [A B C D]. constructor; cbn; auto; try discriminate.
      intros F. rewrite (B Eph) in F. discriminate.
    + intros E. destruct (HT _ _ E). constructor; auto.
  - destruct (Nat.eqb_spec p0 p).
    + intros E; inversion E; subst. destruct (HT _ _ Ep) as [A B C D]. constructor; cbn; auto; discriminate.
    + intros E. destruct (HT _ _ E). constructor; auto.
  - intros E. destruct (HT _ _ E). constructor; auto.
  - destruct (Nat.eqb_spec p0 q).
    + intros E; inversion E; subst. destruct (HT _ _ Epq) as [A B C D]. constructor; cbn; auto.
    + intros E. destruct (HT _ _ E). constructor; auto.
  - intros E. destruct (HT _ _ E). constructor; auto.
  - intros E. destruct (HT _ _ E). constructor; auto.
  - intros E. destruct (HT _ _ E). constructor; auto.
  - intros E. destruct (HT _ _ E) as [A B C D]. constructor; auto. cbn [clock]. intros F. specialize (C F). lia.
  - destruct (Nat.eqb_spec p0 p).
    + intros E; inversion E; subst. destruct (HT _ _ Ep) as [A B C D]. constructor; cbn; auto; try discriminate. lia.
    + intros E. destruct (HT _ _ E). constructor; auto.
  - destruct (Nat.eqb_spec p0 p).
    + intros E; inversion E; subst. destruct (HT _ _ Ep) as [A B C D]. constructor; cbn; auto; try discriminate.
      intros F. destruct (p_recv pgp) eqn:Er; [discriminate|].
      rewrite (Hfl _ _ Ep) in Er. rewrite Er in Erdy. exact Erdy.
    + intros E. destruct (HT _ _ E). constructor; auto.
Qed.

Lemma TInv_run fx n tr s : n < 65536 -> run fx (init n) tr = Ok s -> TInv s.
Proof.
  intros Hn. assert (G : forall tr s0 s, Inv s0 -> TInv s0 -> run fx s0 tr = Ok s -> TInv s).
  { clear tr s. induction tr as [|e r IH]; intros s0 s HI HT; cbn [run].
    - intros E; inversion E; subst; exact HT.
    - destruct (step fx s0 e) eqn:E; try discriminate. intros H.
      eapply IH; [eapply Inv_step; eauto|eapply TInv_step; eauto|exact H]. }
  apply G; [apply Inv_init; exact Hn|]. intros p pg; cbn; discriminate.
Qed.

(* the timeout argument of a call is recorded at its Begin and never changes *)
Lemma raw_step fx s e s' : step fx s e = Ok s' ->
  forall q0 pg, pget (pings s) q0 = Some pg ->
    exists pg', pget (pings s') q0 = Some pg' /\ t_raw (p_time pg') = t_raw (p_time pg).
Proof.
  intros H q0 pg Hq.
  assert (Hupd : forall p pgp pg', pget (pings s) p = Some pgp -> t_raw (p_time pg') = t_raw (p_time pgp) ->
            exists pg'', pget (pset (pings s) p pg') q0 = Some pg'' /\ t_raw (p_time pg'') = t_raw (p_time pg)).
  { intros p0 pgp pg' Ep0 E1. rewrite pget_pset. destruct (Nat.eqb_spec q0 p0).
    - subst. rewrite Ep0 in Hq. inversion Hq; subst. eauto.
    - eauto. }
  step_cases H; cbn [pings set_pings]; eauto.
  - rewrite pget_pset. destruct (Nat.eqb_spec q0 p); [congruence|]. eauto.
  - rewrite pget_pset. destruct (Nat.eqb_spec q0 p); [congruence|]. eauto.
Qed.

Lemma raw_run fx tr : forall s s' p pg, pget (pings s) p = Some pg -> run fx s tr = Ok s' ->
  exists pg', pget (pings s') p = Some pg' /\ t_raw (p_time pg') = t_raw (p_time pg).
Proof.
  induction tr as [|e r IH]; intros s s' p pg Hp; cbn [run].
  - intros E; inversion E; subst. eauto.
  - destruct (step fx s e) eqn:E; try discriminate. intros H.
    destruct (raw_step _ _ _ _ E _ _ Hp) as (pg1 & Hp1 & Hr1).
    destruct (IH _ _ _ _ Hp1 H) as (pg' & A & B). exists pg'. split; [exact A|congruence].
Qed.

(* a call started with timeout argument tmo that returns ErrTimeout entered its select at some
   instant [armed] and the clock has reached armed + eff_timeout tmo: never earlier, whatever tmo is
   (0, negative, 1 ns, 10 s, above 10 s) *)
Theorem timeout_effective fx n pre p tmo rest s : n < 65536 ->
  run fx (init n) (pre ++ Begin p tmo :: rest) = Ok s ->
  result_of s p = Some RTimeout ->
  exists pg, pget (pings s) p = Some pg /\ t_raw (p_time pg) = tmo /\
             t_eff (p_time pg) = eff_timeout tmo /\
             (t_armed (p_time pg) + eff_timeout tmo <= clock s)%Z.
Proof.
  intros Hn Hrun Hres.
  pose proof (TInv_run _ _ _ _ Hn Hrun) as HT.
  destruct (run_app_inv _ _ _ _ _ Hrun) as (s0 & _ & Hrun1).
  cbn [run] in Hrun1. destruct (step fx s0 (Begin p tmo)) as [s1| | |] eqn:E1; try discriminate.
  assert (Hp1 : exists pg1, pget (pings s1) p = Some pg1 /\ t_raw (p_time pg1) = tmo).
  { cbn [step] in E1. destruct (pget (pings s0) p); [discriminate|].
    destruct (table_full (tbl s0)).
    - inversion E1; subst s1. cbn [pings set_pings]. rewrite pget_pset, Nat.eqb_refl. eexists; split; reflexivity.
    - destruct (alloc (tbl s0) (next s0)); [|discriminate]. cbv zeta in E1. inversion E1; subst s1.
      cbn [pings]. rewrite pget_pset, Nat.eqb_refl. eexists; split; reflexivity. }
  destruct Hp1 as (pg1 & Hp1 & Hraw1).
  destruct (raw_run _ _ _ _ _ _ Hp1 Hrun1) as (pg & Hp & Hraw).
  unfold result_of in Hres. rewrite Hp in Hres. destruct (p_phase pg) as [| |r] eqn:Eph; try discriminate.
  inversion Hres; subst r. destruct (HT _ _ Hp) as [A B C D].
  exists pg. split; [exact Hp|]. split; [congruence|]. rewrite A. split; [congruence|].
  specialize (C (D Eph)). rewrite A in C. rewrite Hraw, Hraw1 in C. exact C.
Qed.

(* nothing reads msg.expire: two states that differ only in the expire fields take the same steps.
   Stated for the one consumer the seeded defect introduced: a notification completes a waiter
   whatever its expire is and whatever the clock shows. *)
Theorem notify_ignores_time fx s i q pg : Inv s ->
  tget (tbl s) i = Some q -> pget (pings s) q = Some pg ->
  exists s', step fx s (Notify i) = Ok s' /\ tget (tbl s') i = None /\
             exists pg', pget (pings s') q = Some pg' /\ p_recv pg' = true /\ p_closed pg' = true.
Proof.
  intros HI Ht Hp. destruct (inv_entry _ HI _ _ Ht) as (pg0 & Hp0 & _ & Hc & _).
  rewrite Hp in Hp0. inversion Hp0; subst pg0. cbn [step]. rewrite Ht, Hp, Hc.
  eexists. split; [reflexivity|]. cbn [tbl pings]. rewrite tget_tdel, N.eqb_refl, pget_pset, Nat.eqb_refl.
  split; [reflexivity|]. eexists. split; [reflexivity|]. auto.
Qed.

(* Ping(addr, 0), a negative timeout, 1 ns and 11 s, each answered while still inside its send:
   every call returns nil; an unanswered 1 ns call times out once 1 ns has passed, an unanswered
   call with timeout 0 only after the 2 s default *)
Definition ex_timeouts : list event :=
  [Begin 0%nat 0%Z; Notify 1; Sent 0%nat true; End 0%nat;
   Begin 1%nat (-7)%Z; Notify 2; Sent 1%nat true; End 1%nat;
   Begin 2%nat 1%Z; Notify 3; Sent 2%nat true; End 2%nat;
   Begin 3%nat (11 * SECOND)%Z; Notify 4; Sent 3%nat true; End 3%nat;
   Begin 4%nat 1%Z; Sent 4%nat true; Tick 1%Z; Timeout 4%nat; End 4%nat;
   Begin 5%nat 0%Z; Sent 5%nat true; Tick (2 * SECOND + 1)%Z; Timeout 5%nat; End 5%nat].
Example timeouts_example :
  exists s, run FIX24 init_go ex_timeouts = Ok s /\
    map (result_of s) [0; 1; 2; 3; 4; 5]%nat =
      [Some RNil; Some RNil; Some RNil; Some RNil; Some RTimeout; Some RTimeout] /\ tbl s = [].
Proof. eexists. split; [vm_compute; reflexivity|]. split; vm_compute; reflexivity. Qed.

(* the default really is awaited: with timeout 0 the timer is not enabled before 2 s *)
Example timeout_zero_not_early :
  run FIX24 init_go [Begin 0%nat 0%Z; Sent 0%nat true; Tick (2 * SECOND - 1)%Z; Timeout 0%nat] = Err EOther.
Proof. vm_compute. reflexivity. Qed.
