(* Proofs/ArpSpoofOffer.v — what the session does to the offer the probe-reject decision reads (round 10).
   "Holds a different outstanding DHCP offer" is judged by the HISTORY of DHCP events: the last DHCP event of the
   MAC decides.  A confirmation DHCPv4Update(m, y) is such an event, and in TABLES' step model of the session
   (Model/Tables.v, imported read-only; facts of Proofs/TablesNotifHist.v) it leaves IP4Offer(m) = y in EVERY
   state — client unknown, offline or online alike.  (/repo's session.go does so by the unconditional
   "host.MACEntry.IP4Offer = host.Addr.IP"; a session that assigns it only for an offline host keeps a stale offer
   x for an online client and has its ACD probe for y rejected: seeded C13-10.) *)
From PV Require Import Base.Prelude Model.ArpSpoof Proofs.ArpSpoofGlue.
From PV Require Model.Tables Proofs.TablesRefine Proofs.TablesOffers Proofs.TablesNotifHist.
Import ListNotations.
Open Scope N_scope.

Lemma tables_offer_eoffer t m :
  tables_offer t m = match Proofs.TablesOffers.eoffer t m with Model.Tables.IP4 a => Some a | _ => None end.
Proof. unfold tables_offer, Proofs.TablesOffers.eoffer. destruct (Model.Tables.find_mac m (Model.Tables.macs t)); reflexivity. Qed.

Theorem update_clears_offer c s m y name now :
  Proofs.TablesRefine.InvR s -> y <> 0 ->
  tables_offer (fst (Model.Tables.step c s (Model.Tables.DHCPv4Update m (Model.Tables.IP4 y) name now))) m = Some y.
Proof.
  intros I Y.
  assert (V : Model.Tables.is_valid (Model.Tables.IP4 y) && negb (Model.Tables.is_unspecified (Model.Tables.IP4 y)) = true).
  { cbn. destruct (y =? 0) eqn:E; [lia | reflexivity]. }
  pose proof (Proofs.TablesNotifHist.update_step_facts c s m _ name now I V) as H. cbn zeta in H.
  destruct H as (_ & _ & _ & _ & _ & H). rewrite tables_offer_eoffer, (H m), N.eqb_refl. reflexivity.
Qed.

Lemma tables_run_app c ops1 : forall s ops2,
  Model.Tables.run c s (ops1 ++ ops2) = Model.Tables.run c (Model.Tables.run c s ops1) ops2.
Proof. induction ops1 as [|o r IH]; intros s ops2; simpl; auto. Qed.

(* ... in every state the session can reach: after any history of operations on a new session *)
Theorem update_clears_offer_reachable c now0 s0 ops m y name now :
  Model.Tables.own_mac c <> Model.Tables.rt_mac c -> Model.Tables.new_session c now0 = Ok s0 -> y <> 0 ->
  tables_offer (Model.Tables.run c s0 (ops ++ [Model.Tables.DHCPv4Update m (Model.Tables.IP4 y) name now])) m = Some y.
Proof.
  intros NE NS Y. rewrite tables_run_app. cbn [Model.Tables.run].
  apply update_clears_offer; auto. apply Proofs.TablesRefine.run_InvR. eapply Proofs.TablesRefine.new_session_InvR; eauto.
Qed.
