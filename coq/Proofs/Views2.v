(* Proofs/Views2.v -- C01 / C02 for IP6, ICMP, ICMPEcho, DNS, SNAP, RRCP, IEEE1905, EthernetPause, Unknown880a and the
   ICMP6 neighbor advertisement / solicitation / redirect views: all full (no defect found). *)
From PV Require Import Proofs.ViewsBase Proofs.Checksum.
Open Scope N_scope.

(* validity facts: every IsValid of this file is a plain length test *)
Ltac len_fact H := unfold lenN in H; injection H as H.

Ltac std_safe W H := unfold wf in W; unfold getters_ok; each_getter; try c01_fixed.
Ltac std_spec W B H L := unfold wf in W; pose proof (view_length _ W) as L; unfold getters_spec; each_spec;
  try (c02_fixed B L; fail); try (c02_fixed B L; by_sweep).

(* ---------------- IP6 ---------------- *)
Lemma land15 : forall b, b < 256 -> N.land b 15 = b mod 16.
Proof. sweep. Qed.
Lemma flow_label b1 b2 b3 : b1 < 256 -> b2 < 256 -> b3 < 256 ->
  N.lor (N.lor (N.shiftl (N.land b1 15) 16) (N.shiftl b2 8)) b3 = ((b1 * 256 + b2) * 256 + b3) mod 1048576.
Proof.
  intros H1 H2 H3. replace 16 with (8 + 8) by reflexivity. rewrite <- N.shiftl_shiftl, <- N.shiftl_lor.
  rewrite (lor_shl8 _ b2 H2), (lor_shl8 _ b3 H3). rewrite (land15 b1 H1).
  lia.
Qed.
Lemma traffic_class : forall a b, a < 256 -> b < 256 ->
  N.lor (N.shiftl (N.land a 15) 4) (N.shiftr b 4) = ((a * 256 + b) / 16) mod 256.
Proof. sweep. Qed.
Lemma IP6_valid_len v : wf v -> IP6_IsValid v = Ok true -> (40 <= len v)%nat.
Proof.
  intros W. unfold IP6_IsValid, andr, lenN. destruct (40 <=? N.of_nat (len v)) eqn:E; cbn [bind]; [|discriminate].
  intros _. lia.
Qed.
Lemma IP6_valid_payload v : wf v -> IP6_IsValid v = Ok true ->
  be16 (nth 4 (arr v) 0) (nth 5 (arr v) 0) + 40 <= N.of_nat (len v).
Proof.
  intros W. unfold wf in W. unfold IP6_IsValid, andr, lenN, IP6_PayloadLen_n.
  destruct (40 <=? N.of_nat (len v)) eqn:E; cbn [bind]; [|discriminate].
  rewrite be16_at_ok by lia. cbn [bind]. simpl Nat.add.
  destruct (be16 (nth 4 (arr v) 0) (nth 5 (arr v) 0) + 40 <=? N.of_nat (len v)) eqn:E2; [|discriminate]. intros _. lia.
Qed.
Lemma IP6_safe v : wf v -> bytes_ok (arr v) -> IP6_IsValid v = Ok true -> getters_ok [] IP6_getters v.
Proof.
  intros W B H. pose proof (IP6_valid_payload v W H) as HP. apply IP6_valid_len in H; [|exact W]. unfold IP6_getters. std_safe W H.
  (* Payload: p[40:40+PayloadLen] *)
  intros _. unfold getter_ok. unfold_getter. slices. unfold rsl. change (4 + 1)%nat with 5%nat in *. unfold be16 in *.
  rewrite sl_ok by lia. cbn [bind len]. split; [apply safe_Ok | inside_tac].
Qed.
Lemma IP6_spec v : wf v -> bytes_ok (arr v) -> IP6_IsValid v = Ok true -> getters_spec [] IP6_getters IP6_specs v.
Proof.
  intros W B H. pose proof (IP6_valid_payload v W H) as HP. apply IP6_valid_len in H; [|exact W]. unfold IP6_getters, IP6_specs. std_spec W B H L.
  - c02_fixed B L. simpl Nat.add. rewrite flow_label by assumption. rewrite N.div_1_r. reflexivity.
  - (* Payload *) intros _. unfold_getter. slices. unfold rsl. change (4 + 1)%nat with 5%nat in *. unfold be16 in *.
    rewrite sl_ok by lia. cbn [bind len].
    norm_bits. view_fields L. pow_lits. byte_bounds B. change (4 + 1)%nat with 5%nat in *. strip; lia.
  - c02_fixed B L. simpl Nat.add. rewrite traffic_class by assumption. reflexivity.
Qed.


(* ---------------- plain length-validated types ---------------- *)
Ltac valid_len H := unfold lenN in H; injection H as H.

Ltac std_safe2 W := unfold wf in W; unfold getters_ok; each_getter; try c01_fixed; try c01_gen.
Ltac std_spec2 W B L := unfold wf in W; pose proof (view_length _ W) as L; unfold getters_spec; each_spec;
  try (c02_fixed B L; fail); try (c02_fixed B L; by_sweep); try (c02_gen B L; fail).

Lemma ICMP_safe v : wf v -> bytes_ok (arr v) -> ICMP_IsValid v = Ok true -> getters_ok [] ICMP_getters v.
Proof. intros W B H. unfold ICMP_IsValid in H. valid_len H. unfold ICMP_getters. std_safe2 W. Qed.
Lemma ICMP_spec v : wf v -> bytes_ok (arr v) -> ICMP_IsValid v = Ok true -> getters_spec [] ICMP_getters ICMP_specs v.
Proof. intros W B H. unfold ICMP_IsValid in H. valid_len H. unfold ICMP_getters, ICMP_specs. std_spec2 W B L. Qed.

Lemma ICMPEcho_safe v : wf v -> bytes_ok (arr v) -> ICMPEcho_IsValid v = Ok true -> getters_ok [] ICMPEcho_getters v.
Proof. intros W B H. unfold ICMPEcho_IsValid, ICMP_IsValid in H. valid_len H. unfold ICMPEcho_getters. std_safe2 W. Qed.
Lemma ICMPEcho_spec v : wf v -> bytes_ok (arr v) -> ICMPEcho_IsValid v = Ok true -> getters_spec [] ICMPEcho_getters ICMPEcho_specs v.
Proof. intros W B H. unfold ICMPEcho_IsValid, ICMP_IsValid in H. valid_len H. unfold ICMPEcho_getters, ICMPEcho_specs. std_spec2 W B L. Qed.

Lemma DNS_safe v : wf v -> bytes_ok (arr v) -> DNS_IsValid v = Ok true -> getters_ok [] DNS_getters v.
Proof. intros W B H. unfold DNS_IsValid in H. valid_len H. unfold DNS_getters. std_safe2 W. Qed.
Lemma DNS_spec v : wf v -> bytes_ok (arr v) -> DNS_IsValid v = Ok true -> getters_spec [] DNS_getters DNS_specs v.
Proof. intros W B H. unfold DNS_IsValid in H. valid_len H. unfold DNS_getters, DNS_specs. std_spec2 W B L. Qed.

Lemma SNAP_safe v : wf v -> bytes_ok (arr v) -> SNAP_IsValid v = Ok true -> getters_ok [] SNAP_getters v.
Proof. intros W B H. unfold SNAP_IsValid in H. valid_len H. unfold SNAP_getters. std_safe2 W. Qed.
Lemma SNAP_spec v : wf v -> bytes_ok (arr v) -> SNAP_IsValid v = Ok true -> getters_spec [] SNAP_getters SNAP_specs v.
Proof. intros W B H. unfold SNAP_IsValid in H. valid_len H. unfold SNAP_getters, SNAP_specs. std_spec2 W B L. Qed.

Lemma RRCP_safe v : wf v -> bytes_ok (arr v) -> RRCP_IsValid v = Ok true -> getters_ok [] RRCP_getters v.
Proof. intros W B H. unfold RRCP_IsValid in H. valid_len H. unfold RRCP_getters. std_safe2 W. Qed.
Lemma RRCP_spec v : wf v -> bytes_ok (arr v) -> RRCP_IsValid v = Ok true -> getters_spec [] RRCP_getters RRCP_specs v.
Proof. intros W B H. unfold RRCP_IsValid in H. valid_len H. unfold RRCP_getters, RRCP_specs. std_spec2 W B L. Qed.

Lemma IEEE1905_safe v : wf v -> bytes_ok (arr v) -> IEEE1905_IsValid v = Ok true -> getters_ok [] IEEE1905_getters v.
Proof. intros W B H. unfold IEEE1905_IsValid in H. valid_len H. unfold IEEE1905_getters. std_safe2 W. Qed.
Lemma IEEE1905_spec v : wf v -> bytes_ok (arr v) -> IEEE1905_IsValid v = Ok true -> getters_spec [] IEEE1905_getters IEEE1905_specs v.
Proof. intros W B H. unfold IEEE1905_IsValid in H. valid_len H. unfold IEEE1905_getters, IEEE1905_specs. std_spec2 W B L. Qed.

Lemma NA_safe v : wf v -> bytes_ok (arr v) -> NA_IsValid v = Ok true -> getters_ok [] NA_getters v.
Proof. intros W B H. unfold NA_IsValid in H. valid_len H. unfold NA_getters. std_safe2 W. Qed.
Lemma NA_spec v : wf v -> bytes_ok (arr v) -> NA_IsValid v = Ok true -> getters_spec [] NA_getters NA_specs v.
Proof. intros W B H. unfold NA_IsValid in H. valid_len H. unfold NA_getters, NA_specs. std_spec2 W B L. Qed.

Lemma NS_safe v : wf v -> bytes_ok (arr v) -> NS_IsValid v = Ok true -> getters_ok [] NS_getters v.
Proof. intros W B H. unfold NS_IsValid in H. valid_len H. unfold NS_getters. std_safe2 W. Qed.
Lemma NS_spec v : wf v -> bytes_ok (arr v) -> NS_IsValid v = Ok true -> getters_spec [] NS_getters NS_specs v.
Proof. intros W B H. unfold NS_IsValid in H. valid_len H. unfold NS_getters, NS_specs. std_spec2 W B L. Qed.

Lemma Redirect6_safe v : wf v -> bytes_ok (arr v) -> Redirect6_IsValid v = Ok true -> getters_ok [] Redirect6_getters v.
Proof. intros W B H. unfold Redirect6_IsValid in H. valid_len H. unfold Redirect6_getters. std_safe2 W. Qed.
Lemma Redirect6_spec v : wf v -> bytes_ok (arr v) -> Redirect6_IsValid v = Ok true -> getters_spec [] Redirect6_getters Redirect6_specs v.
Proof. intros W B H. unfold Redirect6_IsValid in H. valid_len H. unfold Redirect6_getters, Redirect6_specs. std_spec2 W B L. Qed.

Lemma Pause_valid_len v : Pause_IsValid v = Ok true -> (46 <= len v)%nat.
Proof. unfold Pause_IsValid, lenN. destruct (N.of_nat (len v) <? 46) eqn:E; [discriminate|]. intros _. lia. Qed.
Lemma Pause_safe v : wf v -> bytes_ok (arr v) -> Pause_IsValid v = Ok true -> getters_ok [] Pause_getters v.
Proof. intros W B H. apply Pause_valid_len in H. unfold Pause_getters. std_safe2 W. Qed.
Lemma Pause_spec v : wf v -> bytes_ok (arr v) -> Pause_IsValid v = Ok true -> getters_spec [] Pause_getters Pause_specs v.
Proof. intros W B H. apply Pause_valid_len in H. unfold Pause_getters, Pause_specs. std_spec2 W B L. Qed.

Lemma U880a_safe v : wf v -> bytes_ok (arr v) -> U880a_IsValid v = Ok true -> getters_ok [] U880a_getters v.
Proof. intros. constructor. Qed.
Lemma U880a_spec v : wf v -> bytes_ok (arr v) -> U880a_IsValid v = Ok true -> getters_spec [] U880a_getters U880a_specs v.
Proof. intros. constructor. Qed.
