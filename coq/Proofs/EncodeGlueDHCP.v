(* Proofs/EncodeGlueDHCP.v — C03/C12 glue: the DHCP server model (Model/DHCP.v, owned by DHCP)
   describes a reply as a record with an ordered option list (append_options: requested order
   first, the map-ordered tail canonically sorted by code).  The C03 model of EncodeDHCP4 applied to
   the same option map / requested order, with that tail order, produces bytes whose RFC 2131/2132
   reference decoding gives back exactly this record: options in this order, yiaddr, and the xid /
   chaddr the request buffer held. *)
From PV Require Import Base.Prelude Base.Slice Model.EncodeBase Model.EncodeDHCP Spec.EncodeRef Spec.EncodeRefDHCP
     Proofs.EncodeLemmas Proofs.EncodeDHCP.
From PV Require Model.DHCP.
Open Scope N_scope.

(* ---- the two models use the same association-list operations ---- *)
Lemma alookup_eq k (l : opts) : DHCP.alookup k l = lookup_opt k l.
Proof. induction l as [|[k' v] r IH]; cbn; [reflexivity|]. rewrite IH. reflexivity. Qed.
Lemma aremove_eq k (l : opts) : DHCP.aremove k l = remove_opt k l.
Proof. induction l as [|[k' v] r IH]; cbn; [reflexivity|]. rewrite IH. reflexivity. Qed.
Lemma take_ordered_eq order (l : opts) : DHCP.take_ordered order l = pick order l.
Proof.
  revert l. induction order as [|c r IH]; intros l; cbn [DHCP.take_ordered pick]; [reflexivity|].
  rewrite alookup_eq. destruct (lookup_opt c l); [|apply IH]. rewrite aremove_eq, IH. reflexivity.
Qed.
Lemma insert_mask_eq order : DHCP.insert_mask order = insert_mask order.
Proof. induction order as [|x r IH]; cbn; [reflexivity|]. rewrite IH. reflexivity. Qed.
Lemma insert_eq x (l : opts) : DHCP.insert_opt x l = insert_opt x l.
Proof. induction l as [|y r IH]; cbn; [reflexivity|]. rewrite IH. reflexivity. Qed.
Lemma sort_eq (l : opts) : DHCP.sort_opts l = sort_opts l.
Proof. unfold DHCP.sort_opts, sort_opts. induction l as [|x r IH]; cbn; [reflexivity|]. rewrite IH. apply insert_eq. Qed.

(* ---- insertion sort by code keeps the map and its distinct keys ---- *)
Lemma lookup_insert k x (l : opts) :
  lookup_opt k (insert_opt x l) = if fst x =? k then Some (snd x) else lookup_opt k l.
Proof.
  destruct x as [kx vx]. cbn [fst snd]. induction l as [|[ky vy] r IH]; cbn [insert_opt lookup_opt fst].
  - reflexivity.
  - destruct (N.leb_spec kx ky) as [Hle|Hlt]; cbn [lookup_opt]; [reflexivity|].
    rewrite IH. destruct (N.eqb_spec ky k) as [E1|E1]; [|reflexivity].
    destruct (N.eqb_spec kx k); [lia|reflexivity].
Qed.
Lemma keys_insert k x (l : opts) : In k (keys (insert_opt x l)) <-> k = fst x \/ In k (keys l).
Proof.
  induction l as [|y r IH]; cbn [insert_opt keys map In].
  - intuition.
  - destruct (fst x <=? fst y); cbn [keys map In]; [intuition|]. fold (keys (insert_opt x r)). rewrite IH. fold (keys r). intuition.
Qed.
Lemma nodup_insert x (l : opts) : nodup l -> ~ In (fst x) (keys l) -> nodup (insert_opt x l).
Proof.
  unfold nodup. induction l as [|y r IH]; intros Hn Hx; cbn [insert_opt keys map].
  - constructor; [intros []|constructor].
  - destruct (fst x <=? fst y); cbn [keys map].
    + constructor; assumption.
    + inversion Hn as [|? ? Hy Hr]; subst. constructor.
      * fold (keys (insert_opt x r)). rewrite keys_insert. intros [E|Hin]; [apply Hx; left; congruence|apply Hy; exact Hin].
      * apply IH; [assumption|]. intros Hin. apply Hx. right. exact Hin.
Qed.
Lemma sort_spec (l : opts) : nodup l ->
  nodup (sort_opts l) /\ (forall k, lookup_opt k (sort_opts l) = lookup_opt k l) /\
  (forall k, In k (keys (sort_opts l)) <-> In k (keys l)).
Proof.
  unfold nodup. induction l as [|[kx vx] r IH]; intros Hn.
  - cbn. repeat split; auto; constructor.
  - inversion Hn as [|? ? Hx Hr]; subst. destruct (IH Hr) as (I1 & I2 & I3).
    change (sort_opts ((kx, vx) :: r)) with (insert_opt (kx, vx) (sort_opts r)).
    repeat split.
    + apply nodup_insert; [exact I1|]. cbn [fst]. rewrite I3. exact Hx.
    + intros k. rewrite lookup_insert. cbn [fst snd lookup_opt]. rewrite I2. reflexivity.
    + rewrite keys_insert, I3. cbn [keys map fst In]. intuition.
    + rewrite keys_insert, I3. cbn [keys map fst In]. intuition.
Qed.

(* iterating the rest in the order of a rearrangement p of it yields p *)
Lemma tail_order_rearranged (p l : opts) :
  nodup p -> (forall k, lookup_opt k p = lookup_opt k l) -> tail_order (keys p) l = p.
Proof.
  revert l. induction p as [|[k v] p IH]; intros l Hn Hl; cbn [keys map tail_order fst].
  - destruct l as [|[k v] l]; [reflexivity|]. specialize (Hl k). cbn [lookup_opt] in Hl. rewrite N.eqb_refl in Hl. discriminate.
  - pose proof (Hl k) as Hk. cbn [lookup_opt] in Hk. rewrite N.eqb_refl in Hk. rewrite <- Hk.
    unfold nodup in Hn. cbn [keys map fst] in Hn. inversion Hn as [|? ? Hni Hnr]; subst.
    f_equal. apply IH; [exact Hnr|].
    intros k'. rewrite lookup_remove. destruct (N.eqb_spec k k') as [E|E].
    + subst k'. apply lookup_none_notin. exact Hni.
    + specialize (Hl k'). cbn [lookup_opt] in Hl. destruct (N.eqb_spec k k'); [congruence|]. exact Hl.
Qed.

(* DHCP's ordered option list is the C03 emission list with the tail iterated in code order *)
Definition sorted_perm (o : opts) (order : list N) : list N :=
  keys (sort_opts (snd (pick (effective_order order) o))).

Theorem append_options_is_emission (o : opts) order : nodup o ->
  DHCP.append_options o order = emission o order (sorted_perm o order).
Proof.
  intros Hn. unfold DHCP.append_options, emission, sorted_perm.
  rewrite insert_mask_eq. change (insert_mask order ++ [1; 33; 3]) with (effective_order order).
  rewrite take_ordered_eq.
  pose proof (pick_spec (effective_order order) o Hn) as P.
  destruct (pick (effective_order order) o) as [out rest]. cbn [snd]. destruct P as (P1 & _).
  assert (Hnr : nodup rest).
  { unfold nodup, keys in *. rewrite map_app in P1. apply NoDup_app_remove_l in P1. assumption. }
  rewrite sort_eq. destruct (sort_spec rest Hnr) as (S1 & S2 & _).
  rewrite tail_order_rearranged by assumption. reflexivity.
Qed.

(* ---------------------------------------------------------------- *)
(* the reply on the wire *)
Theorem dhcp_reply_bytes b (options : opts) order tcode yi :
  (300 <= cap b)%nat ->
  let o' := set_opt 53 [tcode] options in
  nodup options -> opts_ok o' -> (241 + osize o' <= cap b)%nat ->
  let ropts := DHCP.append_options o' order in        (* the option list of DHCP's reply record *)
  exists p rec,
    (* handleDiscover / handleRequest: EncodeDHCP4(p, BootReply, type, nil, netip.Addr{}, yiaddr, nil, false, opts, PRL) *)
    encode_dhcp4 b 2 tcode None [] (DHCP.ipb yi) None false options order (sorted_perm o' order) = Ok p /\
    (300 <= len p)%nat /\
    ref_dhcp (view p) = Some rec /\
    rd_options rec = ropts /\ mask_before_router ropts = true /\
    rd_op rec = 2 /\ rd_htype rec = 1 /\ rd_hlen rec = 6 /\ rd_flags rec = 0 /\
    rd_yiaddr rec = DHCP.ipb yi /\
    rd_xid rec = sub (arr b) 4 4 /\                       (* the xid of the request, kept *)
    rd_chaddr rec = sub (arr b) 28 6 ++ repeat 0 10 /\     (* the chaddr of the request, kept *)
    rd_ciaddr rec = sub (arr b) 12 4 /\ rd_siaddr rec = [0;0;0;0] /\ rd_giaddr rec = [0;0;0;0] /\
    (forall k, lookup_opt k (dhcp_parse_options p) = lookup_opt k o').
Proof.
  intros Hc o' Hn Hok Hfit ropts.
  assert (Hn' : nodup o') by (apply nodup_set; exact Hn).
  assert (Hy4 : is4 (DHCP.ipb yi) = true) by reflexivity.
  destruct (dhcp4_fixed_rt b 2 tcode None [] (DHCP.ipb yi) None false options order (sorted_perm o' order)
              Hc I I Hn Hok Hfit) as (p & E & Href & _).
  destruct (dhcp4_rt b 2 tcode None [] (DHCP.ipb yi) None false options order (sorted_perm o' order)
              Hc I I Hn Hok Hfit) as (p' & E' & L300 & _ & _ & _ & _ & _ & _ & _ & Hlib & _ & _ & Hmask).
  rewrite E in E'. injection E' as <-.
  fold o' in Href, Hlib, Hmask.
  eexists p, _. split. { exact E. } split. { exact L300. } split. { exact Href. }
  cbn [rd_options rd_op rd_htype rd_hlen rd_flags rd_yiaddr rd_xid rd_chaddr rd_ciaddr rd_siaddr rd_giaddr].
  unfold ropts. rewrite append_options_is_emission by exact Hn'.
  unfold dhcp_c4, dhcp_x4, dhcp_ch6. rewrite Hy4. cbn [is4 length Nat.eqb].
  repeat split; try reflexivity; assumption.
Qed.

(* ---------------------------------------------------------------- *)
(* DHCP's append_options depends only on the option MAP (not on the association list that
   represents it): mk_reply passes  n_options ++ [lease time; (53, type)]  where EncodeDHCP4 does
   options[53] = type on the caller's map. *)
Fixpoint ssorted (l : opts) : Prop :=
  match l with
  | [] => True
  | x :: r => (forall y, In y r -> fst x < fst y) /\ ssorted r
  end.

Lemma in_insert y x (l : opts) : In y (insert_opt x l) <-> y = x \/ In y l.
Proof.
  induction l as [|z r IH]; cbn [insert_opt In]; [intuition|].
  destruct (fst x <=? fst z); cbn [In]; [intuition|]. rewrite IH. intuition.
Qed.

Lemma insert_sorted x (l : opts) : ssorted l -> ~ In (fst x) (keys l) -> ssorted (insert_opt x l).
Proof.
  induction l as [|z r IH]; intros Hs Hx; cbn [insert_opt].
  - cbn. split; [intros y []|exact I].
  - destruct Hs as [Hz Hr]. destruct (N.leb_spec (fst x) (fst z)) as [Hle|Hlt].
    + cbn [ssorted]. split; [|split; assumption].
      intros y [<-|Hy].
      * assert (fst x <> fst z) by (intros E; apply Hx; left; congruence). lia.
      * specialize (Hz y Hy). lia.
    + cbn [ssorted]. split.
      * intros y Hy. apply in_insert in Hy. destruct Hy as [->|Hy]; [exact Hlt|apply Hz; exact Hy].
      * apply IH; [exact Hr|]. intros Hin. apply Hx. right. exact Hin.
Qed.

Lemma sort_sorted (l : opts) : nodup l -> ssorted (sort_opts l).
Proof.
  unfold nodup. induction l as [|x r IH]; intros Hn; [exact I|].
  inversion Hn as [|? ? Hx Hr]; subst.
  change (sort_opts (x :: r)) with (insert_opt x (sort_opts r)).
  apply insert_sorted; [apply IH; exact Hr|].
  destruct (sort_spec r Hr) as (_ & _ & S3). rewrite S3. exact Hx.
Qed.

Lemma sorted_head_notin k v (r : opts) : ssorted ((k, v) :: r) -> lookup_opt k r = None.
Proof.
  intros [Hlt _]. apply lookup_none_notin. intros Hin. unfold keys in Hin. apply in_map_iff in Hin.
  destruct Hin as ([k' v'] & E & Hin). cbn in E. subst k'. specialize (Hlt _ Hin). cbn in Hlt. lia.
Qed.

Lemma sorted_ext (l1 l2 : opts) : ssorted l1 -> ssorted l2 ->
  (forall k, lookup_opt k l1 = lookup_opt k l2) -> l1 = l2.
Proof.
  revert l2. induction l1 as [|[k1 v1] r1 IH]; intros l2 S1 S2 Hl.
  - destruct l2 as [|[k v] r]; [reflexivity|]. specialize (Hl k). cbn in Hl. rewrite N.eqb_refl in Hl. discriminate.
  - destruct l2 as [|[k2 v2] r2].
    + specialize (Hl k1). cbn in Hl. rewrite N.eqb_refl in Hl. discriminate.
    + assert (Hk : k1 = k2).
      { pose proof (Hl k1) as A. pose proof (Hl k2) as B. cbn [lookup_opt] in A, B.
        rewrite N.eqb_refl in A, B.
        destruct (N.eqb_spec k2 k1) as [E|E]; [congruence|].
        destruct (N.eqb_spec k1 k2) as [E'|E']; [congruence|].
        symmetry in A. apply lookup_in in A. apply lookup_in in B.
        destruct S1 as [H1 _]. destruct S2 as [H2 _]. specialize (H1 _ B). specialize (H2 _ A). cbn in H1, H2. lia. }
      subst k2.
      assert (Hv : v1 = v2).
      { specialize (Hl k1). cbn [lookup_opt] in Hl. rewrite N.eqb_refl in Hl. congruence. }
      subst v2. f_equal. apply IH; [apply S1|apply S2|].
      intros k. destruct (N.eq_dec k1 k) as [E|E].
      * subst k. rewrite (sorted_head_notin _ _ _ S1), (sorted_head_notin _ _ _ S2). reflexivity.
      * specialize (Hl k). cbn [lookup_opt] in Hl. destruct (N.eqb_spec k1 k); [congruence|]. exact Hl.
Qed.

Lemma pick_ext order : forall l1 l2 : opts, nodup l1 -> nodup l2 ->
  (forall k, lookup_opt k l1 = lookup_opt k l2) ->
  fst (pick order l1) = fst (pick order l2) /\
  nodup (snd (pick order l1)) /\ nodup (snd (pick order l2)) /\
  (forall k, lookup_opt k (snd (pick order l1)) = lookup_opt k (snd (pick order l2))).
Proof.
  induction order as [|c r IH]; intros l1 l2 N1 N2 Hl; cbn [pick].
  - cbn [fst snd]. auto.
  - rewrite <- (Hl c). destruct (lookup_opt c l1) as [v|]; [|apply IH; assumption].
    specialize (IH (remove_opt c l1) (remove_opt c l2) (nodup_remove c l1 N1) (nodup_remove c l2 N2)).
    destruct IH as (I1 & I2 & I3 & I4).
    { intros k. rewrite !lookup_remove, Hl. reflexivity. }
    destruct (pick r (remove_opt c l1)) as [o1 r1]. destruct (pick r (remove_opt c l2)) as [o2 r2].
    cbn [fst snd] in *. subst o2. auto.
Qed.

Theorem append_options_ext (l1 l2 : opts) order : nodup l1 -> nodup l2 ->
  (forall k, lookup_opt k l1 = lookup_opt k l2) ->
  DHCP.append_options l1 order = DHCP.append_options l2 order.
Proof.
  intros N1 N2 Hl. unfold DHCP.append_options. rewrite !take_ordered_eq.
  destruct (pick_ext (DHCP.insert_mask order ++ [1; 33; 3]) l1 l2 N1 N2 Hl) as (P1 & P2 & P3 & P4).
  destruct (pick (DHCP.insert_mask order ++ [1; 33; 3]) l1) as [o1 r1].
  destruct (pick (DHCP.insert_mask order ++ [1; 33; 3]) l2) as [o2 r2]. cbn [fst snd] in *. subst o2.
  f_equal. rewrite !sort_eq.
  destruct (sort_spec r1 P2) as (_ & A2 & _). destruct (sort_spec r2 P3) as (_ & B2 & _).
  apply sorted_ext; [apply sort_sorted; exact P2|apply sort_sorted; exact P3|].
  intros k. rewrite A2, B2. apply P4.
Qed.

(* the association list mk_reply passes (type appended last) and the map after options[53] = type *)
Corollary append_options_type_last (M : opts) v order : nodup M -> ~ In 53 (keys M) ->
  DHCP.append_options (M ++ [(53, v)]) order = DHCP.append_options (set_opt 53 v M) order.
Proof.
  intros HM H53.
  assert (Hrm : remove_opt 53 M = M).
  { clear HM. induction M as [|[k w] r IH]; cbn [remove_opt]; [reflexivity|].
    cbn [keys map fst In] in H53. destruct (N.eqb_spec k 53); [exfalso; apply H53; left; assumption|].
    f_equal. apply IH. intros Hin. apply H53. right. exact Hin. }
  apply append_options_ext.
  - unfold nodup, keys in *. rewrite map_app. cbn [map fst].
    apply NoDup_app_swap_tail with (b := [53]); [|constructor; [intros []|constructor]|tauto].
    clear Hrm. induction M as [|[k w] r IH]; cbn [map app fst]; [constructor; [intros []|constructor]|].
    inversion HM as [|? ? Hk Hr]; subst. cbn [map fst In] in H53. constructor.
    + intros Hin. apply in_app_or in Hin. destruct Hin as [Hin|[E|[]]]; [apply Hk; exact Hin|apply H53; left; congruence].
    + apply IH; [exact Hr|]. intros Hin. apply H53. right. exact Hin.
  - apply nodup_set. exact HM.
  - intros k. unfold set_opt. rewrite Hrm. cbn [lookup_opt].
    induction M as [|[k' w] r IH]; cbn [app lookup_opt].
    + reflexivity.
    + cbn [keys map fst In] in H53. destruct (N.eqb_spec k' k) as [E|E].
      * subst k'. destruct (N.eqb_spec 53 k); [exfalso; apply H53; left; congruence|reflexivity].
      * unfold nodup in HM. cbn [keys map fst] in HM. inversion HM; subst.
        cbn [remove_opt] in Hrm. destruct (N.eqb_spec k' 53); [exfalso; apply H53; left; assumption|].
        injection Hrm as Hrm. apply IH; [assumption|intros Hin; apply H53; right; exact Hin|exact Hrm].
Qed.

(* ---------------------------------------------------------------- *)
(* DHCP's OFFER / ACK records: their option list is what the bytes carry *)
Definition reply_map (c : DHCP.cfg) (net2 : bool) : opts := DHCP.n_options c net2 ++ [DHCP.lease_time_opt].

Lemma reply_map_nodup c net2 : nodup (reply_map c net2) /\ ~ In 53 (keys (reply_map c net2)).
Proof.
  unfold reply_map, DHCP.n_options, DHCP.lease_time_opt, nodup. destruct net2; cbn [app keys map fst].
  - split; [repeat constructor; cbn [In]; intuition discriminate|cbn [In]; intuition discriminate].
  - split; [repeat constructor; cbn [In]; intuition discriminate|cbn [In]; intuition discriminate].
Qed.

Theorem mk_reply_opts_are_emitted c (t : DHCP.rtype) m yi net2 :
  t <> DHCP.RNak ->
  let tcode := match t with DHCP.ROffer => 2 | DHCP.RAck => 5 | DHCP.RNak => 6 end in
  DHCP.r_opts (DHCP.mk_reply c t m yi net2) =
  DHCP.append_options (set_opt 53 [tcode] (reply_map c net2)) (DHCP.m_prl m).
Proof.
  intros Ht tcode. destruct (reply_map_nodup c net2) as [Hn H53].
  unfold DHCP.mk_reply. cbn [DHCP.r_opts].
  destruct t; try congruence; cbn [tcode];
    (change (DHCP.n_options c net2 ++ [DHCP.lease_time_opt; (53, [?[x]])])
       with (reply_map c net2 ++ [(53, [?x])]) || idtac).
  - replace (DHCP.n_options c net2 ++ [DHCP.lease_time_opt; (53, [2])]) with (reply_map c net2 ++ [(53, [2])])
      by (unfold reply_map; rewrite <- app_assoc; reflexivity).
    apply append_options_type_last; assumption.
  - replace (DHCP.n_options c net2 ++ [DHCP.lease_time_opt; (53, [5])]) with (reply_map c net2 ++ [(53, [5])])
      by (unfold reply_map; rewrite <- app_assoc; reflexivity).
    apply append_options_type_last; assumption.
Qed.

Lemma ipb_ok x : bytes_ok (DHCP.ipb x).
Proof. unfold DHCP.ipb. repeat (apply bytes_ok_cons; split; [lia|]). apply bytes_ok_nil. Qed.

Lemma reply_map_ok c net2 tcode : tcode < 256 -> opts_ok (set_opt 53 [tcode] (reply_map c net2)).
Proof.
  intros Ht.
  assert (Hrm : remove_opt 53 (reply_map c net2) = reply_map c net2).
  { unfold reply_map, DHCP.n_options, DHCP.lease_time_opt. destruct net2; reflexivity. }
  unfold set_opt. rewrite Hrm. unfold opts_ok, reply_map, DHCP.n_options, DHCP.lease_time_opt.
  assert (B1 : bytes_ok [tcode]) by (apply bytes_ok_cons; split; [exact Ht|apply bytes_ok_nil]).
  assert (B0 : bytes_ok [0]) by (apply bytes_ok_cons; split; [lia|apply bytes_ok_nil]).
  destruct net2; cbn [app]; repeat constructor; cbn [fst snd]; try discriminate; try lia;
    try (cbn [length DHCP.ipb app]; lia); try apply ipb_ok; try assumption;
    try (apply bytes_ok_app; split; apply ipb_ok);
    try (apply bytes_ok_cons; split; [lia|apply ipb_ok]).
Qed.

(* DHCP's OFFER / ACK reply record and the bytes EncodeDHCP4 writes into the request buffer *)
Theorem dhcp_offer_ack_bytes b c (t : DHCP.rtype) m yi net2 :
  t <> DHCP.RNak ->
  let tcode := match t with DHCP.ROffer => 2 | DHCP.RAck => 5 | DHCP.RNak => 6 end in
  let r := DHCP.mk_reply c t m yi net2 in
  let o' := set_opt 53 [tcode] (reply_map c net2) in
  (300 <= cap b)%nat -> (241 + osize o' <= cap b)%nat ->
  exists p rec,
    encode_dhcp4 b 2 tcode None [] (DHCP.ipb (DHCP.r_yi r)) None false (reply_map c net2) (DHCP.m_prl m)
                 (sorted_perm o' (DHCP.m_prl m)) = Ok p /\
    (300 <= len p)%nat /\
    ref_dhcp (view p) = Some rec /\
    rd_options rec = DHCP.r_opts r /\ mask_before_router (DHCP.r_opts r) = true /\
    rd_op rec = 2 /\ rd_yiaddr rec = DHCP.ipb (DHCP.r_yi r) /\
    rd_xid rec = sub (arr b) 4 4 /\ rd_chaddr rec = sub (arr b) 28 6 ++ repeat 0 10.
Proof.
  intros Ht tcode r o' Hc Hfit.
  destruct (reply_map_nodup c net2) as [Hn _].
  assert (Htc : tcode < 256) by (unfold tcode; destruct t; lia).
  destruct (dhcp_reply_bytes b (reply_map c net2) (DHCP.m_prl m) tcode (DHCP.r_yi r) Hc Hn (reply_map_ok c net2 tcode Htc) Hfit)
    as (p & rec & E & L & Href & Ho & Hm & Hop & _ & _ & _ & Hyi & Hx & Hch & _).
  exists p, rec. pose proof (mk_reply_opts_are_emitted c t m yi net2 Ht) as Hr. cbn zeta in Hr. fold tcode in Hr.
  unfold r. rewrite Hr.
  repeat split; assumption.
Qed.
