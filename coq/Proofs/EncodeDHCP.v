(* Proofs/EncodeDHCP.v — C03: DHCPv4 options round trip for every option map (distinct keys),
   every requested-parameter order and every iteration order of the remaining options. *)
From PV Require Import Base.Prelude Base.Slice Model.EncodeBase Model.EncodeDHCP Spec.EncodeRef Spec.EncodeRefDHCP
     Proofs.EncodeLemmas.
Open Scope N_scope.

(* [bytes] is [list N]: make the two spellings of [length] one atom for blia *)
Ltac blia := unfold bytes, byte in *; lia.

(* wire form of a list of options *)
Definition enc1 (kv : N * bytes) : bytes := [fst kv; u8 (N.of_nat (length (snd kv)))] ++ snd kv.
Fixpoint enc (l : opts) : bytes := match l with [] => [] | kv :: r => enc1 kv ++ enc r end.
Fixpoint osize (l : opts) : nat := match l with [] => 0%nat | kv :: r => (2 + length (snd kv) + osize r)%nat end.

Lemma enc_length l : length (enc l) = osize l.
Proof. induction l as [|[k v] r IH]; cbn [enc osize]; auto. unfold enc1. cbn [fst snd]. rewrite !app_length, IH. cbn [length]. blia. Qed.
Lemma enc_app a b : enc (a ++ b) = enc a ++ enc b.
Proof. induction a as [|x a IH]; cbn [enc app]; auto. rewrite IH, app_assoc. reflexivity. Qed.
Lemma osize_app a b : osize (a ++ b) = (osize a + osize b)%nat.
Proof. rewrite <- !enc_length, enc_app, app_length. reflexivity. Qed.

(* ---- the scratch buffer holds every option (it is sized from the map) ---- *)
Lemma emit_fits acc k v : emit acc k v = Ok (acc ++ enc1 (k, v)).
Proof. reflexivity. Qed.

Lemma emit_all_fits l acc : emit_all l acc = Ok (acc ++ enc l).
Proof.
  revert acc. induction l as [|[k v] r IH]; intros acc; cbn [emit_all enc].
  - rewrite app_nil_r. reflexivity.
  - rewrite emit_fits. cbn [bind]. rewrite IH. rewrite <- app_assoc. reflexivity.
Qed.

(* ---- the order of emission as a pure function of the map ---- *)
Fixpoint pick (order : list N) (o : opts) : opts * opts :=
  match order with
  | [] => ([], o)
  | c :: r =>
      match lookup_opt c o with
      | Some v => let '(out, rest) := pick r (remove_opt c o) in ((c, v) :: out, rest)
      | None => pick r o
      end
  end.

Lemma tail_order_pick perm o : tail_order perm o = fst (pick perm o) ++ snd (pick perm o).
Proof.
  revert o. induction perm as [|k r IH]; intros o; cbn [tail_order pick]; auto.
  destruct (lookup_opt k o) as [v|]; [|apply IH].
  rewrite IH. destruct (pick r (remove_opt k o)) as [out rest]. reflexivity.
Qed.

(* emission list of AppendOptions *)
Definition emission (o : opts) (order perm : list N) : opts :=
  let '(out, rest) := pick (effective_order order) o in out ++ tail_order perm rest.

(* facts about association lists with distinct keys *)
Definition nodup (o : opts) : Prop := NoDup (keys o).

Lemma NoDup_app_remove_l {A} (l l' : list A) : NoDup (l ++ l') -> NoDup l'.
Proof. induction l as [|x l IH]; cbn [app]; auto. intros H. inversion H; subst. auto. Qed.

Lemma NoDup_app_swap_tail {A} (a b b' : list A) :
  NoDup (a ++ b) -> NoDup b' -> (forall x, In x b' <-> In x b) -> NoDup (a ++ b').
Proof.
  intros H1 H2 H3. induction a as [|x a IH]; cbn [app] in *; [assumption|].
  inversion H1 as [|? ? Hx Hr]; subst. constructor; [|apply IH; assumption].
  intros Hin. apply Hx. apply in_app_or in Hin. apply in_or_app. destruct Hin as [H|H]; [left; assumption|right].
  apply H3. exact H.
Qed.

Lemma lookup_remove k c o : lookup_opt k (remove_opt c o) = if c =? k then None else lookup_opt k o.
Proof.
  induction o as [|[k' v] r IH]; cbn [remove_opt lookup_opt].
  - destruct (c =? k); reflexivity.
  - destruct (N.eqb_spec k' c) as [E|E].
    + subst k'. rewrite IH. destruct (N.eqb_spec c k); reflexivity.
    + cbn [lookup_opt]. rewrite IH. destruct (N.eqb_spec k' k) as [E2|E2]; [|reflexivity].
      subst k'. destruct (N.eqb_spec c k); [congruence|reflexivity].
Qed.

Lemma remove_keys_incl c o k : In k (keys (remove_opt c o)) -> In k (keys o) /\ k <> c.
Proof.
  induction o as [|[k' v] r IH]; cbn [remove_opt keys map]; [tauto|].
  destruct (N.eqb_spec k' c) as [E|E]; cbn [keys map fst In].
  - intros H. destruct (IH H). split; [right|]; assumption.
  - intros [H|H]; [subst; split; [left; reflexivity|assumption]|]. destruct (IH H). split; [right|]; assumption.
Qed.

Lemma remove_keys_in c o k : In k (keys o) -> k <> c -> In k (keys (remove_opt c o)).
Proof.
  induction o as [|[k' v] r IH]; cbn [remove_opt keys map fst In]; [tauto|].
  intros [H|H] Hne.
  - subst k'. destruct (N.eqb_spec k c); [congruence|]. cbn [keys map fst In]. left. reflexivity.
  - destruct (N.eqb_spec k' c); [apply IH; assumption|]. cbn [keys map fst In]. right. apply IH; assumption.
Qed.

Lemma nodup_remove c o : nodup o -> nodup (remove_opt c o).
Proof.
  unfold nodup. induction o as [|[k v] r IH]; cbn [remove_opt keys map]; intros H; [constructor|].
  inversion H as [|? ? Hn Hr]; subst.
  destruct (N.eqb_spec k c); [apply IH; assumption|].
  cbn [keys map fst]. constructor; [|apply IH; assumption].
  intros Hin. apply remove_keys_incl in Hin. destruct Hin. apply Hn. assumption.
Qed.

Lemma lookup_none_notin k o : lookup_opt k o = None <-> ~ In k (keys o).
Proof.
  induction o as [|[k' v] r IH]; cbn [lookup_opt keys map fst In]; [tauto|].
  destruct (N.eqb_spec k' k) as [E|E].
  - split; [discriminate|]. intros H. exfalso. apply H. left. assumption.
  - rewrite IH. split; [intros H [H1|H1]; [congruence|tauto]|tauto].
Qed.

Lemma osize_remove c v o : nodup o -> lookup_opt c o = Some v ->
  (osize (remove_opt c o) + (2 + length v) = osize o)%nat.
Proof.
  unfold nodup. induction o as [|[k' v'] r IH]; cbn [lookup_opt remove_opt keys map fst]; intros Hn Hl; [discriminate|].
  inversion Hn as [|? ? Hni Hnr]; subst.
  destruct (N.eqb_spec k' c) as [E|E].
  - injection Hl as <-. subst k'.
    assert (Hrm : remove_opt c r = r).
    { clear -Hni. induction r as [|[k2 v2] r IH]; cbn [remove_opt]; [reflexivity|].
      cbn [keys map fst In] in Hni. destruct (N.eqb_spec k2 c); [exfalso; apply Hni; left; assumption|].
      f_equal. apply IH. intros H. apply Hni. right. assumption. }
    rewrite Hrm. cbn [osize snd]. blia.
  - cbn [osize snd]. specialize (IH Hnr Hl). blia.
Qed.

Lemma pick_spec order o : nodup o ->
  let '(out, rest) := pick order o in
  nodup (out ++ rest) /\ (osize out + osize rest = osize o)%nat /\
  (forall k, lookup_opt k (out ++ rest) = lookup_opt k o) /\
  (forall k, In k (keys (out ++ rest)) <-> In k (keys o)).
Proof.
  revert o. induction order as [|c r IH]; intros o Hn; cbn [pick].
  - cbn [app]. repeat split; auto; tauto.
  - destruct (lookup_opt c o) as [v|] eqn:El; [|apply IH; assumption].
    specialize (IH (remove_opt c o) (nodup_remove c o Hn)).
    destruct (pick r (remove_opt c o)) as [out rest]. destruct IH as (I1 & I2 & I3 & I4).
    assert (Hkeys : forall k, In k (keys (((c, v) :: out) ++ rest)) <-> In k (keys o)).
    { intros k. cbn [app keys map fst In]. fold (keys (out ++ rest)). rewrite I4. split.
      - intros [<-|H]; [|apply remove_keys_incl in H; tauto].
        destruct (lookup_none_notin c o) as [_ H2]. destruct (in_dec N.eq_dec c (keys o)); [assumption|].
        rewrite H2 in El by assumption. discriminate.
      - intros H. destruct (N.eq_dec c k) as [E|E]; [left; assumption|right].
        apply remove_keys_in; [assumption|congruence]. }
    repeat split.
    + unfold nodup in *. cbn [app keys map fst]. fold (keys (out ++ rest)). constructor; [|assumption].
      rewrite I4. intros H. apply remove_keys_incl in H. destruct H. congruence.
    + cbn [osize snd]. pose proof (osize_remove c v o Hn El). blia.
    + intros k. cbn [app lookup_opt]. rewrite I3, lookup_remove.
      destruct (N.eqb_spec c k) as [E|E]; [subst; symmetry; assumption|reflexivity].
    + apply Hkeys.
    + apply Hkeys.
Qed.

Lemma emission_spec o order perm : nodup o ->
  nodup (emission o order perm) /\ osize (emission o order perm) = osize o /\
  (forall k, lookup_opt k (emission o order perm) = lookup_opt k o).
Proof.
  intros Hn. unfold emission.
  pose proof (pick_spec (effective_order order) o Hn) as P.
  destruct (pick (effective_order order) o) as [out rest]. destruct P as (P1 & P2 & P3 & P4).
  assert (Hnr : nodup rest).
  { unfold nodup, keys in *. rewrite map_app in P1. apply NoDup_app_remove_l in P1. assumption. }
  rewrite tail_order_pick.
  pose proof (pick_spec perm rest Hnr) as Q.
  destruct (pick perm rest) as [o2 r2]. cbn [fst snd]. destruct Q as (Q1 & Q2 & Q3 & Q4).
  assert (Hlk : forall k, lookup_opt k (out ++ o2 ++ r2) = lookup_opt k o).
  { intros k. rewrite <- P3. clear -Q3. induction out as [|[k' v'] out IH]; cbn [app lookup_opt]; [apply Q3|].
    destruct (k' =? k); [reflexivity|apply IH]. }
  repeat split.
  - unfold nodup, keys in *. rewrite map_app. rewrite map_app in P1.
    apply (NoDup_app_swap_tail _ (map fst rest)); assumption.
  - rewrite osize_app, osize_app. rewrite Q2. assumption.
  - exact Hlk.
Qed.

(* the bytes AppendOptions assembles *)
Lemma emit_ordered_fits order o acc :
  emit_ordered order o acc = Ok (snd (pick order o), acc ++ enc (fst (pick order o))).
Proof.
  revert o acc. induction order as [|c r IH]; intros o acc; cbn [emit_ordered pick].
  - cbn [fst snd enc]. rewrite app_nil_r. reflexivity.
  - destruct (lookup_opt c o) as [v|] eqn:El; [|apply IH].
    rewrite emit_fits. cbn [bind]. rewrite IH.
    destruct (pick r (remove_opt c o)) as [out rest]. cbn [fst snd enc]. rewrite <- app_assoc. reflexivity.
Qed.

Theorem append_options_bytes_fits o order perm :
  append_options_bytes o order perm = Ok (enc (emission o order perm)).
Proof.
  unfold append_options_bytes, emission.
  rewrite emit_ordered_fits. cbn [bind].
  destruct (pick (effective_order order) o) as [out rest]. cbn [fst snd].
  rewrite emit_all_fits. cbn [app]. rewrite enc_app. reflexivity.
Qed.

(* ---------------------------------------------------------------- *)
(* decoding the option area  enc l ++ End :: padding *)
Definition opt_ok (kv : N * bytes) : Prop :=
  fst kv <> 0 /\ fst kv <> 255 /\ fst kv < 256 /\ (length (snd kv) <= 255)%nat /\ bytes_ok (snd kv).
Definition opts_ok (l : opts) : Prop := Forall opt_ok l.

Lemma u8_len (v : bytes) : (length v <= 255)%nat -> N.to_nat (u8 (N.of_nat (length v))) = length v.
Proof. intros H. unfold u8. rewrite N.mod_small by blia. blia. Qed.

Definition set_kv (a : opts) (kv : N * bytes) : opts := set_opt (fst kv) (snd kv) a.

Lemma parse_options_enc l z acc fuel :
  opts_ok l -> (length l < fuel)%nat ->
  parse_options fuel (enc l ++ 255 :: z) acc = fold_left set_kv l acc.
Proof.
  revert acc fuel. induction l as [|[k v] r IH]; intros acc fuel Hok Hf.
  - destruct fuel as [|f]; [cbn in Hf; blia|]. cbn [enc app parse_options fold_left].
    destruct z; reflexivity.
  - destruct fuel as [|f]; [cbn in Hf; blia|].
    inversion Hok as [|? ? H1 H2]; subst. destruct H1 as (Hk0 & Hk255 & _ & Hlen & _). cbn [fst snd] in *.
    cbn [enc]. unfold enc1. cbn [fst snd app parse_options fold_left].
    destruct (N.eqb_spec k 255); [congruence|]. destruct (N.eqb_spec k 0); [congruence|].
    rewrite u8_len by assumption. rewrite <- app_assoc.
    destruct (Nat.ltb_spec (length (v ++ enc r ++ 255 :: z)) (length v)) as [C|C]; [rewrite app_length in C; blia|].
    rewrite skipn_app_exact, firstn_app_exact. unfold set_kv at 2. cbn [fst snd].
    apply IH; [assumption|cbn [length] in Hf; blia].
Qed.

Lemma ref_dhcp_opts_enc l z fuel :
  opts_ok l -> (length l < fuel)%nat -> ref_dhcp_opts fuel (enc l ++ 255 :: z) = Some l.
Proof.
  revert fuel. induction l as [|[k v] r IH]; intros fuel Hok Hf.
  - destruct fuel as [|f]; [cbn in Hf; blia|]. reflexivity.
  - destruct fuel as [|f]; [cbn in Hf; blia|].
    inversion Hok as [|? ? H1 H2]; subst. destruct H1 as (Hk0 & Hk255 & _ & Hlen & _). cbn [fst snd] in *.
    cbn [enc]. unfold enc1. cbn [fst snd app ref_dhcp_opts].
    destruct (N.eqb_spec k 255); [congruence|]. destruct (N.eqb_spec k 0); [congruence|].
    rewrite u8_len by assumption. rewrite <- app_assoc. unfold take, drop.
    destruct (Nat.ltb_spec (length (v ++ enc r ++ 255 :: z)) (length v)) as [C|C]; [rewrite app_length in C; blia|].
    rewrite skipn_app_exact, firstn_app_exact. rewrite IH; [reflexivity|assumption|cbn [length] in Hf; blia].
Qed.

Lemma after_end_enc l z fuel :
  opts_ok l -> (length l < fuel)%nat -> after_end fuel (enc l ++ 255 :: z) = Some z.
Proof.
  revert fuel. induction l as [|[k v] r IH]; intros fuel Hok Hf.
  - destruct fuel as [|f]; [cbn in Hf; blia|]. reflexivity.
  - destruct fuel as [|f]; [cbn in Hf; blia|].
    inversion Hok as [|? ? H1 H2]; subst. destruct H1 as (Hk0 & Hk255 & _ & Hlen & _). cbn [fst snd] in *.
    cbn [enc]. unfold enc1. cbn [fst snd app after_end].
    destruct (N.eqb_spec k 255); [congruence|]. destruct (N.eqb_spec k 0); [congruence|].
    rewrite u8_len by assumption. rewrite <- app_assoc. unfold drop.
    rewrite skipn_app_exact. apply IH; [assumption|cbn [length] in Hf; blia].
Qed.

Lemma lookup_set k k' v a : lookup_opt k (set_opt k' v a) = if k' =? k then Some v else lookup_opt k a.
Proof.
  unfold set_opt. cbn [lookup_opt]. destruct (N.eqb_spec k' k) as [E|E]; [reflexivity|].
  rewrite lookup_remove. destruct (N.eqb_spec k' k); [congruence|reflexivity].
Qed.

Lemma lookup_fold_set l : nodup l -> forall acc k,
  lookup_opt k (fold_left set_kv l acc) = match lookup_opt k l with Some v => Some v | None => lookup_opt k acc end.
Proof.
  induction l as [|[k' v'] r IH]; intros Hn acc k; cbn [fold_left lookup_opt]; [reflexivity|].
  unfold nodup in Hn. cbn [keys map fst] in Hn. inversion Hn as [|? ? Hni Hnr]; subst.
  rewrite IH by assumption. unfold set_kv. cbn [fst snd]. rewrite lookup_set.
  destruct (N.eqb_spec k' k) as [E|E]; [|reflexivity].
  subst k'. destruct (lookup_opt k r) eqn:El; [|reflexivity].
  exfalso. apply Hni. destruct (lookup_none_notin k r) as [_ H].
  destruct (in_dec N.eq_dec k (keys r)); [assumption|]. rewrite H in El by assumption. discriminate.
Qed.

Lemma in_lookup l k v : nodup l -> In (k, v) l -> lookup_opt k l = Some v.
Proof.
  induction l as [|[k' v'] r IH]; intros Hn Hin; [contradiction|].
  unfold nodup in Hn. cbn [keys map fst] in Hn. inversion Hn as [|? ? Hni Hnr]; subst.
  cbn [lookup_opt]. destruct Hin as [E|Hin].
  - injection E as -> ->. rewrite N.eqb_refl. reflexivity.
  - destruct (N.eqb_spec k' k) as [E|E]; [|apply IH; assumption].
    subst k'. exfalso. apply Hni. unfold keys. apply (in_map fst) in Hin. exact Hin.
Qed.

Lemma lookup_in l k v : lookup_opt k l = Some v -> In (k, v) l.
Proof.
  induction l as [|[k' v'] r IH]; cbn [lookup_opt]; [discriminate|].
  destruct (N.eqb_spec k' k) as [E|E]; [intros H; injection H as <-; subst; left; reflexivity|].
  intros H. right. apply IH. assumption.
Qed.

(* the options of the encoded message, for every map / requested order / map iteration order *)
Theorem dhcp_options_rt o order perm z :
  nodup o -> opts_ok o ->
  let em := emission o order perm in
  let area := enc em ++ 255 :: z in
  append_options_bytes o order perm = Ok (enc em) /\
  nodup em /\ osize em = osize o /\ (forall k, lookup_opt k em = lookup_opt k o) /\
  (* library: ParseOptions yields the map supplied *)
  (forall k, lookup_opt k (parse_options (S (length area)) area []) = lookup_opt k o) /\
  (* reference decoder: exactly these options in this order, End present, then the padding *)
  ref_dhcp_opts (S (length area)) area = Some em /\ after_end (S (length area)) area = Some z.
Proof.
  intros Hn Hok em area.
  destruct (emission_spec o order perm Hn) as (E1 & E2 & E3). fold em in E1, E2, E3.
  assert (Hokem : opts_ok em).
  { unfold opts_ok in *. rewrite Forall_forall in *. intros [k v] Hin.
    apply Hok. apply lookup_in. rewrite <- E3. apply in_lookup; assumption. }
  assert (Hfuel : (length em < S (length area))%nat).
  { unfold area. rewrite app_length, enc_length. cbn [length].
    assert (length em <= osize em)%nat by (clear; induction em as [|x r IH]; cbn [length osize]; blia). blia. }
  split. { apply append_options_bytes_fits. }
  split. { exact E1. } split. { exact E2. } split. { exact E3. }
  split. { intros k. unfold area. rewrite parse_options_enc by assumption.
           rewrite lookup_fold_set by assumption. cbn [lookup_opt]. rewrite E3. destruct (lookup_opt k o); reflexivity. }
  split. { apply ref_dhcp_opts_enc; assumption. }
  apply after_end_enc; assumption.
Qed.

Example dhcp_options_rt_ex :
  let o := set_opt 53 [5] [(1, [255;255;255;0]); (3, [192;168;0;1]); (6, [8;8;8;8]); (12, [104;105])] in
  nodup o /\ opts_ok o /\
  append_options_bytes o [6; 3; 1] [12; 53] = Ok (enc (emission o [6; 3; 1] [12; 53])).
Proof.
  cbn zeta. split.
  { unfold nodup. vm_compute. repeat constructor; cbn; intuition discriminate. }
  split. { unfold opts_ok. vm_compute. repeat constructor; try discriminate; try (cbn; blia). }
  vm_compute. reflexivity.
Qed.

(* ---------------------------------------------------------------- *)
(* the whole message *)
Definition COOKIE : bytes := [99; 130; 83; 99].

(* the 240 fixed bytes EncodeDHCP4 leaves, as a function of the arguments and of the bytes it keeps *)
Definition dhcp_hdr (old : bytes) (opcode : N) (chaddr : option bytes) (ciaddr yiaddr : bytes)
           (xid : option bytes) (broadcast : bool) : bytes :=
  [opcode; 1; match chaddr with Some m => u8 (N.of_nat (length m)) | None => 6 end; 0] ++
  match xid with Some x => x | None => sub old 4 4 end ++
  [0; 0; if broadcast then 128 else 0; 0] ++
  (if is4 ciaddr then ciaddr else sub old 12 4) ++
  (if is4 yiaddr then yiaddr else sub old 16 4) ++
  [0; 0; 0; 0; 0; 0; 0; 0] ++
  match chaddr with Some m => m | None => sub old 28 6 end ++
  repeat 0 202 ++ COOKIE.

Lemma blit_app_len (a : bytes) n src l : length a = n -> blit n src (a ++ l) = a ++ blit 0 src l.
Proof. intros <-. apply blit_app_r0. Qed.

Lemma dhcp_tail a' : (206 <= length a')%nat ->
  blit 202 COOKIE (blit 0 (repeat 0 202) a') = repeat 0 202 ++ COOKIE ++ skipn 206 a'.
Proof.
  intros H. rewrite blit0 by (rewrite repeat_length; blia). rewrite repeat_length.
  rewrite blit_app_len by apply repeat_length.
  rewrite blit0 by (rewrite skipn_length; cbn [COOKIE length]; blia).
  rewrite skipn_skipn'. reflexivity.
Qed.

Ltac evd := cbn -[Nat.ltb Nat.leb N.to_nat N.of_nat repeat COOKIE]; rewrite ?blit_nil.

Lemma dhcp_fixed_bytes a opcode chaddr ci yi xid bc :
  (240 <= length a)%nat ->
  match chaddr with Some m => length m = 6%nat | None => True end ->
  match xid with Some x => length x = 4%nat | None => True end ->
  dhcp_fixed a opcode chaddr ci yi xid bc = dhcp_hdr a opcode chaddr ci yi xid bc ++ skipn 240 a.
Proof.
  intros Ha Hch Hx.
  do 34 (destr_list a Ha).
  assert (Ha' : (206 <= length a)%nat) by (cbn [length] in Ha; blia).
  unfold dhcp_fixed, dhcp_hdr. change [99; 130; 83; 99] with COOKIE.
  destruct xid as [xb|]; [do 4 (destr_list xb Hx); destruct xb; [|discriminate]|];
  (destruct chaddr as [m|]; [do 6 (destr_list m Hch); destruct m; [|discriminate]|]);
  (destruct (is4 ci) eqn:Eci; [unfold is4 in Eci; apply Nat.eqb_eq in Eci; do 4 (destr_list ci Eci); destruct ci; [|discriminate]|]);
  (destruct (is4 yi) eqn:Eyi; [unfold is4 in Eyi; apply Nat.eqb_eq in Eyi; do 4 (destr_list yi Eyi); destruct yi; [|discriminate]|]);
  destruct bc; evd; rewrite dhcp_tail by assumption; reflexivity.
Qed.

Lemma set_nth_app_len {A} (a : list A) n v l : length a = n -> set_nth n v (a ++ l) = a ++ set_nth 0 v l.
Proof. intros <-. induction a as [|x a IH]; cbn; auto. f_equal. apply IH. Qed.
Lemma set_nth0 {A} (v : A) l : (0 < length l)%nat -> set_nth 0 v l = v :: skipn 1 l.
Proof. destruct l; cbn; [lia|reflexivity]. Qed.

Lemma dhcp_hdr_length old opcode chaddr ci yi xid bc :
  (240 <= length old)%nat ->
  match chaddr with Some m => length m = 6%nat | None => True end ->
  match xid with Some x => length x = 4%nat | None => True end ->
  length (dhcp_hdr old opcode chaddr ci yi xid bc) = 240%nat.
Proof.
  intros Ho Hch Hx. unfold dhcp_hdr. rewrite !app_length, repeat_length. cbn [length COOKIE].
  assert (S4 : forall off, (off + 4 <= 240)%nat -> length (sub old off 4) = 4%nat) by (intros; apply sub_length; blia).
  assert (S6 : length (sub old 28 6) = 6%nat) by (apply sub_length; blia).
  destruct xid as [x|]; destruct chaddr as [m|];
  destruct (is4 ci) eqn:Eci; destruct (is4 yi) eqn:Eyi;
  try (unfold is4 in Eci; apply Nat.eqb_eq in Eci); try (unfold is4 in Eyi; apply Nat.eqb_eq in Eyi);
  rewrite ?S4, ?S6 by blia; blia.
Qed.

Definition dhcp_frame_bytes (old : bytes) opcode chaddr ci yi xid bc (em : opts) : bytes :=
  dhcp_hdr old opcode chaddr ci yi xid bc ++ enc em ++ 255 :: repeat 0 (300 - (241 + osize em)).

Theorem encode_dhcp4_bytes b opcode mt chaddr ci yi xid bc options order perm :
  (300 <= cap b)%nat ->
  match chaddr with Some m => length m = 6%nat | None => True end ->
  match xid with Some x => length x = 4%nat | None => True end ->
  let o' := set_opt 53 [mt] options in
  nodup o' -> (241 + osize o' <= cap b)%nat ->
  let em := emission o' order perm in
  let L := Nat.max (241 + osize o') 300 in
  encode_dhcp4 b opcode mt chaddr ci yi xid bc options order perm =
  Ok (mkSlice (dhcp_frame_bytes (arr b) opcode chaddr ci yi xid bc em ++ skipn L (arr b)) L).
Proof.
  intros Hc Hch Hx o' Hn Hfit em L.
  destruct (emission_spec o' order perm Hn) as (E1 & E2 & E3). fold em in E1, E2, E3.
  unfold encode_dhcp4. destruct (Nat.ltb_spec (cap b) 300) as [C|_]; [blia|].
  fold o'. rewrite append_options_bytes_fits. cbn [bind].
  change (emission (set_opt 53 [mt] options) order perm) with em.
  unfold cap in *.
  rewrite dhcp_fixed_bytes by (try assumption; blia).
  set (H := dhcp_hdr (arr b) opcode chaddr ci yi xid bc).
  assert (HH : length H = 240%nat) by (apply dhcp_hdr_length; try assumption; blia).
  set (R := skipn 240 (arr b)).
  assert (HR : length R = (length (arr b) - 240)%nat) by (unfold R; apply skipn_length).
  assert (Hob : length (enc em) = osize o') by (rewrite enc_length; exact E2).
  rewrite Hob.
  destruct (Nat.leb_spec (length (arr b)) (240 + osize o')) as [C|_]; [blia|].
  rewrite firstn_all2 by blia.
  rewrite (blit_app_len H 240) by exact HH.
  rewrite blit0 by blia. rewrite Hob.
  set (R1 := skipn (osize o') R).
  assert (HR1 : length R1 = (length (arr b) - 240 - osize o')%nat) by (unfold R1; rewrite skipn_length; blia).
  rewrite (app_assoc H). rewrite (set_nth_app_len (H ++ enc em)) by (rewrite app_length; blia).
  rewrite set_nth0 by blia.
  replace (S (240 + osize o')) with (length ((H ++ enc em) ++ [255%N]))%nat by (rewrite !app_length; cbn [length]; blia).
  change (255 :: skipn 1 R1) with ([255%N] ++ skipn 1 R1). rewrite (app_assoc (H ++ enc em)).
  rewrite blit_app_r0.
  rewrite blit0 by (rewrite repeat_length, skipn_length; rewrite !app_length; cbn [length]; blia).
  rewrite repeat_length. rewrite !app_length. cbn [length].
  f_equal. f_equal; [|unfold L; blia].
  unfold dhcp_frame_bytes. fold H. rewrite E2. rewrite <- !app_assoc. cbn [app].
  rewrite HH, Hob.
  replace (300 - (240 + osize o' + 1))%nat with (300 - (241 + osize o'))%nat by blia.
  do 4 f_equal.
  unfold R1, R. rewrite !skipn_skipn'. f_equal. unfold L. blia.
Qed.

(* ---------------------------------------------------------------- *)
(* RFC 2132 3.3: the subnet mask precedes the router option *)
Lemma opt_index_shift k (l : opts) i : opt_index k l (S i) = option_map S (opt_index k l i).
Proof.
  revert i. induction l as [|[k' v] r IH]; intros i; cbn [opt_index]; [reflexivity|].
  destruct (k' =? k); [reflexivity|apply IH].
Qed.

Lemma opt_index_none k (l : opts) i : ~ In k (keys l) -> opt_index k l i = None.
Proof.
  revert i. induction l as [|[k' v] r IH]; intros i H; cbn [opt_index]; [reflexivity|].
  cbn [keys map fst In] in H. destruct (N.eqb_spec k' k); [exfalso; apply H; left; assumption|].
  apply IH. intros Hin. apply H. right. exact Hin.
Qed.

Definition first_before (c1 c2 : N) (l : opts) : Prop :=
  match opt_index c1 l 0, opt_index c2 l 0 with
  | Some i, Some j => (i < j)%nat
  | Some _, None => True
  | None, _ => False
  end.

Lemma first_before_cons c1 c2 kv l : fst kv <> c1 -> fst kv <> c2 -> first_before c1 c2 l -> first_before c1 c2 (kv :: l).
Proof.
  intros H1 H2. unfold first_before. destruct kv as [k v]. cbn [fst] in *. cbn [opt_index].
  destruct (N.eqb_spec k c1); [congruence|]. destruct (N.eqb_spec k c2); [congruence|].
  rewrite !opt_index_shift. destruct (opt_index c1 l 0); [|tauto]. destruct (opt_index c2 l 0); cbn [option_map]; [blia|tauto].
Qed.

Lemma first_before_head c1 c2 v l : c1 <> c2 -> first_before c1 c2 ((c1, v) :: l).
Proof.
  intros H. unfold first_before. cbn [opt_index]. rewrite N.eqb_refl.
  destruct (N.eqb_spec c1 c2); [congruence|]. rewrite opt_index_shift.
  destruct (opt_index c2 l 0); cbn [option_map]; [blia|exact I].
Qed.

Lemma pick_first c1 c2 p s X : c1 <> c2 -> ~ In c2 p -> forall o, nodup o -> In c1 (keys o) ->
  first_before c1 c2 (fst (pick (p ++ c1 :: s) o) ++ X).
Proof.
  intros Hne. induction p as [|c p IH]; intros Hp o Hn Hin.
  - cbn [app pick]. destruct (lookup_opt c1 o) as [v|] eqn:El.
    + destruct (pick s (remove_opt c1 o)) as [out rest]. cbn [fst app]. apply first_before_head. assumption.
    + exfalso. apply lookup_none_notin in El. contradiction.
  - cbn [app pick]. assert (Hc2 : c <> c2) by (intros E; apply Hp; left; assumption).
    assert (Hp' : ~ In c2 p) by (intros E; apply Hp; right; assumption).
    destruct (lookup_opt c o) as [v|] eqn:El; [|apply IH; assumption].
    destruct (N.eq_dec c c1) as [E|E].
    + subst c. destruct (pick (p ++ c1 :: s) (remove_opt c1 o)) as [out rest]. cbn [fst app].
      apply first_before_head. assumption.
    + specialize (IH Hp' (remove_opt c o) (nodup_remove c o Hn) (remove_keys_in c o c1 Hin ltac:(congruence))).
      destruct (pick (p ++ c1 :: s) (remove_opt c o)) as [out rest]. cbn [fst app] in *.
      apply first_before_cons; cbn [fst]; assumption.
Qed.

Lemma effective_order_split order : exists p s, effective_order order = p ++ 1 :: s /\ ~ In 3 p.
Proof.
  unfold effective_order. induction order as [|c r IH].
  - exists [], [33; 3]. split; [reflexivity|intros []].
  - cbn [insert_mask]. destruct (N.eqb_spec c 3) as [E|E].
    + exists [], (c :: r ++ reply_params). split; [reflexivity|intros []].
    + destruct IH as (p & s & Heq & Hp). exists (c :: p), s. split.
      * cbn [app]. rewrite Heq. reflexivity.
      * intros [H|H]; [congruence|contradiction].
Qed.

Theorem emission_mask_before_router o order perm : nodup o ->
  mask_before_router (emission o order perm) = true.
Proof.
  intros Hn. unfold mask_before_router.
  destruct (in_dec N.eq_dec 1 (keys o)) as [H1|H1].
  - destruct (effective_order_split order) as (p & s & Heq & Hp).
    unfold emission. rewrite Heq.
    pose proof (pick_first 1 3 p s) as PF.
    destruct (pick (p ++ 1 :: s) o) as [out rest] eqn:Ep.
    specialize (PF (tail_order perm rest) ltac:(discriminate) Hp o Hn H1). rewrite Ep in PF. cbn [fst] in PF.
    unfold first_before in PF.
    destruct (opt_index 1 (out ++ tail_order perm rest) 0); [|contradiction].
    destruct (opt_index 3 (out ++ tail_order perm rest) 0); [|reflexivity].
    apply Nat.ltb_lt. exact PF.
  - destruct (emission_spec o order perm Hn) as (_ & _ & E3).
    rewrite opt_index_none; [reflexivity|].
    intros Hin. apply H1. apply lookup_none_notin in H1.
    destruct (lookup_none_notin 1 (emission o order perm)) as [Hx _].
    rewrite E3 in Hx. specialize (Hx H1). contradiction.
Qed.

(* the order the client asked for is otherwise respected: an order that names 3 before 1 *)
Example emission_mask_ex :
  map fst (emission (set_opt 53 [5] [(3, [192;168;0;1]); (1, [255;255;255;0]); (6, [8;8;8;8])]) [6; 3; 1] [53])
  = [6; 1; 3; 53].
Proof. vm_compute. reflexivity. Qed.

Lemma nodup_set k v o : nodup o -> nodup (set_opt k v o).
Proof.
  intros Hn. unfold nodup, set_opt. cbn [keys map fst]. constructor.
  - intros Hin. apply remove_keys_incl in Hin. destruct Hin. congruence.
  - apply nodup_remove. assumption.
Qed.

(* ---------------------------------------------------------------- *)
(* EncodeDHCP4: for every buffer of capacity >= 300 that holds the options, every opcode, message
   type, option map (distinct keys, values <= 255 bytes, codes other than Pad/End), requested order
   and iteration order of the remaining options. *)
Theorem dhcp4_rt b opcode mt chaddr ci yi xid bc options order perm :
  (300 <= cap b)%nat ->
  match chaddr with Some m => length m = 6%nat | None => True end ->
  match xid with Some x => length x = 4%nat | None => True end ->
  let o' := set_opt 53 [mt] options in
  nodup options -> opts_ok o' -> (241 + osize o' <= cap b)%nat ->
  let em := emission o' order perm in
  let L := Nat.max (241 + osize o') 300 in
  let pad := repeat 0 (300 - (241 + osize em)) in
  exists p,
    encode_dhcp4 b opcode mt chaddr ci yi xid bc options order perm = Ok p /\
    (300 <= len p)%nat /\ len p = L /\ cap p = cap b /\ skipn L (arr p) = skipn L (arr b) /\
    (* fixed part and option area *)
    view p = dhcp_hdr (arr b) opcode chaddr ci yi xid bc ++ enc em ++ 255 :: pad /\
    dhcp_options p = enc em ++ 255 :: pad /\
    (* the options are the supplied map plus the message type, each exactly once *)
    nodup em /\ (forall k, lookup_opt k em = lookup_opt k o') /\
    (* library view *)
    (forall k, lookup_opt k (dhcp_parse_options p) = lookup_opt k o') /\
    (* reference decoder: these options in this order, End present, zero padding, >= 300 bytes *)
    ref_dhcp_opts (S (length (dhcp_options p))) (dhcp_options p) = Some em /\
    after_end (S (length (dhcp_options p))) (dhcp_options p) = Some pad /\
    (* RFC 2132 3.3 *)
    mask_before_router em = true.
Proof.
  intros Hc Hch Hx o' Hn0 Hok Hfit em L pad.
  assert (Hn : nodup o') by (apply nodup_set; assumption).
  pose proof (encode_dhcp4_bytes b opcode mt chaddr ci yi xid bc options order perm Hc Hch Hx Hn Hfit) as HB.
  cbn zeta in HB. fold o' em L in HB.
  destruct (dhcp_options_rt o' order perm pad Hn Hok) as (D1 & D2 & D3 & D4 & D5 & D6 & D7).
  fold em in D1, D2, D3, D4, D5, D6, D7.
  eexists. split. { exact HB. }
  set (H := dhcp_hdr (arr b) opcode chaddr ci yi xid bc).
  assert (HH : length H = 240%nat) by (apply dhcp_hdr_length; try assumption; unfold cap in Hc; blia).
  assert (Hfb : length (dhcp_frame_bytes (arr b) opcode chaddr ci yi xid bc em) = L).
  { unfold dhcp_frame_bytes. fold H. rewrite !app_length, HH, enc_length, D3. cbn [length]. rewrite repeat_length. unfold L. blia. }
  assert (Hv : view (mkSlice (dhcp_frame_bytes (arr b) opcode chaddr ci yi xid bc em ++ skipn L (arr b)) L)
               = H ++ enc em ++ 255 :: pad).
  { unfold view. cbn [arr len]. rewrite firstn_app_len by exact Hfb. reflexivity. }
  assert (Hopt : dhcp_options (mkSlice (dhcp_frame_bytes (arr b) opcode chaddr ci yi xid bc em ++ skipn L (arr b)) L)
                 = enc em ++ 255 :: pad).
  { unfold dhcp_options. rewrite Hv. apply skipn_app_len. exact HH. }
  split. { cbn [len]. unfold L. blia. }
  split. { reflexivity. }
  split. { unfold cap in *. cbn [arr]. rewrite app_length, skipn_length, Hfb. unfold L. blia. }
  split. { cbn [arr]. apply skipn_app_len. exact Hfb. }
  split. { exact Hv. }
  split. { exact Hopt. }
  split. { exact D2. }
  split. { exact D4. }
  split. { intros k. unfold dhcp_parse_options. rewrite Hopt. apply D5. }
  split. { rewrite Hopt. exact D6. }
  split. { rewrite Hopt. exact D7. }
  apply emission_mask_before_router. assumption.
Qed.

(* non-vacuity: a reply with mask, router, DNS, host name; the client asks for 6, 3, 1 *)
Example dhcp4_rt_ex :
  let b := mkSlice (repeat 7 400) 0 in
  let options := [(1, [255;255;255;0]); (3, [192;168;0;1]); (6, [8;8;8;8]); (12, [104;105])] in
  exists p, encode_dhcp4 b 2 5 None [] [192;168;0;9] None false options [6; 3; 1] [12; 53] = Ok p /\
            len p = 300%nat /\
            map fst (emission (set_opt 53 [5] options) [6; 3; 1] [12; 53]) = [6; 1; 3; 12; 53].
Proof. cbn zeta. eexists. split; [vm_compute; reflexivity|]. split; vm_compute; reflexivity. Qed.

(* ---------------------------------------------------------------- *)
(* fixed fields: the reference decoder's record and the library getters *)
Definition dhcp_fixed_of (op hl : N) (x4 : bytes) (fl : N) (c4 y4 ch6 : bytes) : bytes :=
  [op; 1; hl; 0] ++ x4 ++ [0; 0; fl; 0] ++ c4 ++ y4 ++ [0; 0; 0; 0; 0; 0; 0; 0] ++ ch6 ++ repeat 0 202 ++ COOKIE.

Lemma ref_dhcp_of_pieces op hl x4 fl c4 y4 ch6 area em pad :
  length x4 = 4%nat -> length c4 = 4%nat -> length y4 = 4%nat -> length ch6 = 6%nat ->
  ref_dhcp_opts (S (length area)) area = Some em -> after_end (S (length area)) area = Some pad ->
  ref_dhcp (dhcp_fixed_of op hl x4 fl c4 y4 ch6 ++ area) =
  Some {| rd_op := op; rd_htype := 1; rd_hlen := hl; rd_hops := 0; rd_xid := x4; rd_secs := 0;
          rd_flags := 256 * fl; rd_ciaddr := c4; rd_yiaddr := y4; rd_siaddr := [0;0;0;0]; rd_giaddr := [0;0;0;0];
          rd_chaddr := ch6 ++ repeat 0 10; rd_sname := repeat 0 64; rd_file := repeat 0 128;
          rd_options := em; rd_pad := pad |}.
Proof.
  intros Hx Hc Hy Hch Ho Ha.
  do 4 (destr_list x4 Hx). destruct x4; [|discriminate].
  do 4 (destr_list c4 Hc). destruct c4; [|discriminate].
  do 4 (destr_list y4 Hy). destruct y4; [|discriminate].
  do 6 (destr_list ch6 Hch). destruct ch6; [|discriminate].
  unfold dhcp_fixed_of, COOKIE. cbn [repeat app].
  unfold ref_dhcp, take, drop, w16. cbn [firstn skipn length Nat.ltb Nat.leb Nat.add].
  rewrite Ho, Ha. 
  replace (256 * 0 + 0) with 0 by reflexivity. replace (256 * fl + 0) with (256 * fl) by lia.
  reflexivity.
Qed.

Ltac ev_hook ::= rewrite ?be16_hi_lo by (first [assumption | reflexivity]).

Lemma dhcp_getters_of_pieces op hl x4 fl c4 y4 ch6 rest L :
  length x4 = 4%nat -> length c4 = 4%nat -> length y4 = 4%nat -> length ch6 = 6%nat -> (240 <= L)%nat ->
  let p := mkSlice (dhcp_fixed_of op hl x4 fl c4 y4 ch6 ++ rest) L in
  dhcp_opcode p = Ok op /\ dhcp_htype p = Ok 1 /\ dhcp_hlen p = Ok hl /\ dhcp_hops p = Ok 0 /\
  dhcp_xid p = Ok x4 /\ dhcp_secs p = Ok 0 /\ dhcp_flags p = Ok (256 * fl) /\
  dhcp_ciaddr p = Ok c4 /\ dhcp_yiaddr p = Ok y4 /\ dhcp_siaddr p = Ok [0;0;0;0] /\ dhcp_giaddr p = Ok [0;0;0;0] /\
  dhcp_chaddr p = Ok ch6 /\ dhcp_cookie p = Ok COOKIE.
Proof.
  intros Hx Hc Hy Hch HL p. subst p.
  do 4 (destr_list x4 Hx). destruct x4; [|discriminate].
  do 4 (destr_list c4 Hc). destruct c4; [|discriminate].
  do 4 (destr_list y4 Hy). destruct y4; [|discriminate].
  do 6 (destr_list ch6 Hch). destruct ch6; [|discriminate].
  unfold dhcp_fixed_of, COOKIE. cbn [repeat app].
  unfold dhcp_opcode, dhcp_htype, dhcp_hlen, dhcp_hops, dhcp_xid, dhcp_secs, dhcp_flags, dhcp_ciaddr, dhcp_yiaddr,
    dhcp_siaddr, dhcp_giaddr, dhcp_chaddr, dhcp_cookie, idx, be16_at, sl, cap.
  repeat split; run; try reflexivity.
  unfold be16. f_equal. lia.
Qed.

Definition dhcp_x4 (old : bytes) (xid : option bytes) : bytes := match xid with Some x => x | None => sub old 4 4 end.
Definition dhcp_c4 (old ci : bytes) (off : nat) : bytes := if is4 ci then ci else sub old off 4.
Definition dhcp_ch6 (old : bytes) (chaddr : option bytes) : bytes := match chaddr with Some m => m | None => sub old 28 6 end.
Definition dhcp_hl (chaddr : option bytes) : N := match chaddr with Some m => u8 (N.of_nat (length m)) | None => 6 end.

Lemma dhcp_hdr_pieces old opcode chaddr ci yi xid bc :
  dhcp_hdr old opcode chaddr ci yi xid bc =
  dhcp_fixed_of opcode (dhcp_hl chaddr) (dhcp_x4 old xid) (if bc then 128 else 0) (dhcp_c4 old ci 12) (dhcp_c4 old yi 16)
                (dhcp_ch6 old chaddr).
Proof. reflexivity. Qed.

(* EncodeDHCP4: the fixed fields as the RFC 2131 reference decoder and the library getters see them.
   xid / chaddr = nil and a non-IPv4 ciaddr / yiaddr keep what the buffer held (documented). *)
Theorem dhcp4_fixed_rt b opcode mt chaddr ci yi xid bc options order perm :
  (300 <= cap b)%nat ->
  match chaddr with Some m => length m = 6%nat | None => True end ->
  match xid with Some x => length x = 4%nat | None => True end ->
  let o' := set_opt 53 [mt] options in
  nodup options -> opts_ok o' -> (241 + osize o' <= cap b)%nat ->
  let em := emission o' order perm in
  let old := arr b in
  exists p,
    encode_dhcp4 b opcode mt chaddr ci yi xid bc options order perm = Ok p /\
    ref_dhcp (view p) =
      Some {| rd_op := opcode; rd_htype := 1; rd_hlen := 6; rd_hops := 0; rd_xid := dhcp_x4 old xid; rd_secs := 0;
              rd_flags := if bc then 32768 else 0;
              rd_ciaddr := dhcp_c4 old ci 12; rd_yiaddr := dhcp_c4 old yi 16;
              rd_siaddr := [0;0;0;0]; rd_giaddr := [0;0;0;0];
              rd_chaddr := dhcp_ch6 old chaddr ++ repeat 0 10; rd_sname := repeat 0 64; rd_file := repeat 0 128;
              rd_options := em; rd_pad := repeat 0 (300 - (241 + osize em)) |} /\
    dhcp_opcode p = Ok opcode /\ dhcp_htype p = Ok 1 /\ dhcp_hlen p = Ok 6 /\ dhcp_hops p = Ok 0 /\
    dhcp_xid p = Ok (dhcp_x4 old xid) /\ dhcp_secs p = Ok 0 /\ dhcp_flags p = Ok (if bc then 32768 else 0) /\
    dhcp_ciaddr p = Ok (dhcp_c4 old ci 12) /\ dhcp_yiaddr p = Ok (dhcp_c4 old yi 16) /\
    dhcp_siaddr p = Ok [0;0;0;0] /\ dhcp_giaddr p = Ok [0;0;0;0] /\
    dhcp_chaddr p = Ok (dhcp_ch6 old chaddr) /\ dhcp_cookie p = Ok COOKIE.
Proof.
  intros Hc Hch Hx o' Hn Hok Hfit em old.
  destruct (dhcp4_rt b opcode mt chaddr ci yi xid bc options order perm Hc Hch Hx Hn Hok Hfit)
    as (p & E & L300 & HL & Hcap & Hskip & Hview & Hopt & _ & _ & _ & Hro & Hae & _).
  fold o' em in Hview, Hopt, Hro, Hae.
  exists p. split. { exact E. }
  assert (Hold : (240 <= length old)%nat) by (unfold old, cap in *; blia).
  assert (Lx : length (dhcp_x4 old xid) = 4%nat).
  { unfold dhcp_x4. destruct xid; [assumption|apply sub_length; blia]. }
  assert (Lc : forall a off, (off + 4 <= 240)%nat -> length (dhcp_c4 old a off) = 4%nat).
  { intros a off Ho. unfold dhcp_c4. destruct (is4 a) eqn:E4; [apply Nat.eqb_eq; exact E4|apply sub_length; blia]. }
  assert (Lch : length (dhcp_ch6 old chaddr) = 6%nat).
  { unfold dhcp_ch6. destruct chaddr; [assumption|apply sub_length; blia]. }
  assert (Hhl : dhcp_hl chaddr = 6).
  { unfold dhcp_hl. destruct chaddr as [m|]; [rewrite Hch; reflexivity|reflexivity]. }
  assert (Hfl : 256 * (if bc then 128 else 0) = if bc then 32768 else 0) by (destruct bc; reflexivity).
  rewrite dhcp_hdr_pieces in Hview. fold old in Hview. rewrite Hhl in Hview.
  rewrite Hopt in Hro, Hae.
  split.
  { rewrite Hview.
    rewrite (ref_dhcp_of_pieces opcode 6 _ _ _ _ _ _ em _ Lx (Lc ci 12%nat ltac:(lia)) (Lc yi 16%nat ltac:(lia)) Lch Hro Hae).
    rewrite Hfl. reflexivity. }
  (* the slice itself: its storage starts with the same fixed part *)
  assert (Harr : exists rest, arr p = dhcp_fixed_of opcode 6 (dhcp_x4 old xid) (if bc then 128 else 0)
                                       (dhcp_c4 old ci 12) (dhcp_c4 old yi 16) (dhcp_ch6 old chaddr) ++ rest).
  { exists (skipn 240 (arr p)).
    assert (Hf : firstn 240 (arr p) = dhcp_fixed_of opcode 6 (dhcp_x4 old xid) (if bc then 128 else 0)
                                       (dhcp_c4 old ci 12) (dhcp_c4 old yi 16) (dhcp_ch6 old chaddr)).
    { assert (Hfl240 : length (dhcp_fixed_of opcode 6 (dhcp_x4 old xid) (if bc then 128 else 0)
                                       (dhcp_c4 old ci 12) (dhcp_c4 old yi 16) (dhcp_ch6 old chaddr)) = 240%nat).
      { unfold dhcp_fixed_of. rewrite !app_length, repeat_length, Lx, Lch, !Lc by lia. reflexivity. }
      unfold view in Hview.
      assert (E240 : firstn 240 (firstn (len p) (arr p)) = firstn 240 (arr p)).
      { rewrite firstn_firstn. f_equal. blia. }
      rewrite <- E240, Hview. apply firstn_app_len. exact Hfl240. }
    rewrite <- Hf. symmetry. apply firstn_skipn. }
  destruct Harr as (rest & Harr).
  pose proof (dhcp_getters_of_pieces opcode 6 (dhcp_x4 old xid) (if bc then 128 else 0) (dhcp_c4 old ci 12)
                (dhcp_c4 old yi 16) (dhcp_ch6 old chaddr) rest (len p) Lx (Lc ci 12%nat ltac:(lia))
                (Lc yi 16%nat ltac:(lia)) Lch ltac:(blia)) as G.
  cbn zeta in G. rewrite <- Harr in G. rewrite Hfl in G.
  destruct p as [pa pl]. cbn [arr len] in *. exact G.
Qed.
