(* Proofs/DHCPInv.v — the invariant of the DHCP lease-table model and its preservation. *)
From PV Require Import Base.Prelude Base.Text Model.DHCP Model.DHCPShow Spec.DHCP Spec.DHCPCheck Proofs.DHCP.
Open Scope list_scope.
Open Scope N_scope.

(* ---------------------------------------------------------------- *)
(* table lemmas *)

Lemma in_tset x l t : In x (tset l t) <-> x = l \/ (In x t /\ l_cid x <> l_cid l).
Proof.
  unfold tset. simpl. rewrite in_tdel. split.
  - intros [H|H]; [left; auto|right; auto].
  - intros [H|H]; [left; auto|right; auto].
Qed.

Lemma tget_in k t l : tget k t = Some l -> In l t /\ l_cid l = k.
Proof.
  induction t as [|a r IH]; simpl; [discriminate|].
  destruct (l_cid a =? k) eqn:E.
  - intros H. inversion H; subst. split; [left; reflexivity|apply N.eqb_eq; exact E].
  - intros H. destruct (IH H). split; [right|]; auto.
Qed.

Lemma tget_none k t : tget k t = None -> forall l, In l t -> l_cid l <> k.
Proof.
  induction t as [|a r IH]; simpl; intros H l Hl; [contradiction|].
  destruct (l_cid a =? k) eqn:E; [discriminate|].
  destruct Hl as [Hl|Hl]; [subst; apply N.eqb_neq; exact E|auto].
Qed.

Lemma tget_of_in t l : NoDup (keys t) -> In l t -> tget (l_cid l) t = Some l.
Proof.
  induction t as [|a r IH]; simpl; intros Hn Hl; [contradiction|].
  inversion Hn; subst. destruct Hl as [Hl|Hl].
  - subst. rewrite N.eqb_refl. reflexivity.
  - destruct (l_cid a =? l_cid l) eqn:E.
    + apply N.eqb_eq in E. exfalso. apply H1. unfold keys. rewrite E. apply in_map. exact Hl.
    + auto.
Qed.

(* ---------------------------------------------------------------- *)
(* association lists and the session: tracked addresses only grow *)

Lemma alookup_aremove_neq {A} k k' (l : list (N * A)) : k <> k' -> alookup k (aremove k' l) = alookup k l.
Proof.
  intros Hn. induction l as [|[a v] r IH]; simpl; auto.
  destruct (a =? k') eqn:E1.
  - apply N.eqb_eq in E1. subst. destruct (k' =? k) eqn:E2; [apply N.eqb_eq in E2; congruence|auto].
  - simpl. destruct (a =? k); auto.
Qed.

Definition tracked (se : sess) (x : ip) : Prop := sess_find se x <> None.

Lemma tracked_delete_host se y x : x <> y -> tracked se x -> tracked (delete_host se y) x.
Proof.
  unfold tracked, sess_find, delete_host. intros Hn H.
  destruct (alookup y (hosts se)); simpl; auto.
  rewrite alookup_aremove_neq by auto. exact H.
Qed.

Lemma tracked_add_host se m y x : tracked se x \/ x = y -> tracked (add_host se m y) x.
Proof.
  unfold tracked, sess_find, add_host. simpl. intros H.
  destruct (y =? x) eqn:E; [discriminate|]. apply N.eqb_neq in E. destruct H; [auto|congruence].
Qed.

Lemma tracked_touch se m y x : tracked se x \/ x = y -> tracked (sess_touch se m y) x.
Proof.
  intros H. unfold sess_touch. destruct (alookup y (hosts se)) as [m'|] eqn:E.
  - destruct (m' =? m).
    + destruct H as [H|H]; auto. subst. unfold tracked, sess_find. rewrite E. discriminate.
    + apply tracked_add_host. destruct (N.eq_dec x y); [right; auto|left].
      destruct H as [H|H]; [|contradiction]. apply tracked_delete_host; auto.
  - apply tracked_add_host. exact H.
Qed.

Lemma tracked_dhcp_update se m o x : tracked se x -> tracked (dhcp_update se m o) x.
Proof.
  intros H. unfold dhcp_update. destruct o as [v|]; auto. destruct (v =? 0); auto.
  apply tracked_touch. left. exact H.
Qed.

Lemma tracked_dhcp_update_new se m v : v <> 0 -> tracked (dhcp_update se m (Some v)) v.
Proof.
  intros H. unfold dhcp_update. apply N.eqb_neq in H. rewrite H. apply tracked_touch. right. reflexivity.
Qed.

Lemma hosts_capture se m : hosts (sess_capture se m) = hosts se.
Proof. unfold sess_capture. destruct (mac_flags se m) as [cap rt]. destruct cap, rt; reflexivity. Qed.
Lemma hosts_uncapture se m : hosts (sess_uncapture se m) = hosts se.
Proof. unfold sess_uncapture. destruct (alookup m (macs se)) as [[? ?]|]; reflexivity. Qed.

(* what the handler needs to know about sess_touch: the host entry afterwards *)
Lemma find_touch_same se m y : sess_find (sess_touch se m y) y = Some m.
Proof.
  unfold sess_touch, sess_find. destruct (alookup y (hosts se)) as [m'|] eqn:E.
  - destruct (m' =? m) eqn:E2.
    + apply N.eqb_eq in E2. subst. exact E.
    + unfold add_host. simpl. rewrite N.eqb_refl. reflexivity.
  - unfold add_host. simpl. rewrite N.eqb_refl. reflexivity.
Qed.

(* ---------------------------------------------------------------- *)
(* the invariant *)

(* strictly between the network and the broadcast address of subnet b *)
Definition in_pool (c : cfg) (b : bool) (x : ip) : Prop := n_lan c b < x /\ x < n_bcast c b.
Definition addr_ok (c : cfg) (b : bool) (x : ip) : Prop :=
  in_pool c b x /\ x <> c_hostip c /\ x <> c_routerip c.
Definition lease_ok (c : cfg) (se : sess) (l : lease) : Prop :=
  (forall x, l_offer l = Some x -> addr_ok c (l_net2 l) x) /\
  (forall x, l_ip l = Some x -> addr_ok c (l_net2 l) x /\ tracked se x).

Record Inv (c : cfg) (s : dstate) : Prop := mkInv {
  inv_wf : wf s;
  inv_own : tracked (ss s) (c_hostip c) /\ tracked (ss s) (c_routerip c);
  inv_leases : forall l, In l (tbl s) -> lease_ok c (ss s) l;
  inv_uniq : Uniq (tbl s);
  inv_next : n_first c false <= next1 s /\ n_first c true <= next2 s
}.

Definition sess_le (a b : sess) : Prop := forall x, tracked a x -> tracked b x.

Lemma lease_ok_mono c a b l : sess_le a b -> lease_ok c a l -> lease_ok c b l.
Proof.
  intros Hle [H1 H2]. split; auto. intros x Hx. destruct (H2 x Hx). split; auto.
Qed.

Lemma inv_set_ss c s se : Inv c s -> sess_le (ss s) se -> Inv c (set_ss s se).
Proof.
  intros [W [O1 O2] L U X] Hle. constructor; simpl; auto.
  intros l Hl. apply (lease_ok_mono c (ss s)); auto.
Qed.

Lemma inv_set_next c s b v : Inv c s -> n_first c b <= v -> Inv c (set_next s b v).
Proof. intros [W O L U [X1 X2]] Hv. unfold set_next. destruct b; constructor; simpl; auto. Qed.

Lemma inv_put c s l' :
  Inv c s -> lease_ok c (ss s) l' ->
  (l_state l' = SAllocated -> forall x, l_ip l' = Some x -> acked_to_other (tbl s) (l_cid l') x = false) ->
  Inv c (put s l').
Proof.
  intros [W O L U X] Hok Hacked. constructor; simpl; auto.
  - apply wf_put. exact W.
  - intros l Hl. apply in_tset in Hl as [Hl|[Hl _]]; [subst; auto|auto].
  - intros l1 l2 x H1 H2 S1 S2 I1 I2.
    apply in_tset in H1. apply in_tset in H2.
    destruct H1 as [H1|[H1 N1]], H2 as [H2|[H2 N2]].
    + subst. reflexivity.
    + subst l1. exfalso. specialize (Hacked S1 x I1).
      assert (A : acked_to_other (tbl s) (l_cid l') x = true).
      { apply acked_to_other_spec. exists l2. auto. }
      congruence.
    + subst l2. exfalso. specialize (Hacked S2 x I2).
      assert (A : acked_to_other (tbl s) (l_cid l') x = true).
      { apply acked_to_other_spec. exists l1. auto. }
      congruence.
    + apply (U l1 l2 x); auto.
Qed.

Lemma inv_tdel c s k : Inv c s -> Inv c (set_tbl s (tdel k (tbl s))).
Proof.
  intros [W O L U X]. constructor; simpl; auto.
  - apply wf_set_tbl_tdel. exact W.
  - intros l Hl. apply in_tdel in Hl as [Hl _]. auto.
  - intros l1 l2 x H1 H2. apply in_tdel in H1 as [H1 _]. apply in_tdel in H2 as [H2 _]. apply U; auto.
Qed.

Lemma in_freeLeases now t l :
  In l (freeLeases now t) -> exists l0, In l0 t /\ (l = l0 \/ (l = set_state l0 SFree)).
Proof.
  unfold freeLeases. rewrite in_map_iff. intros [l0 [E H]]. exists l0. split; auto.
  destruct (_ && _); auto.
Qed.

Lemma inv_free c s now : Inv c s -> Inv c (set_tbl s (freeLeases now (tbl s))).
Proof.
  intros [W O L U X]. constructor; simpl; auto.
  - unfold wf. simpl. rewrite keys_freeLeases. exact W.
  - intros l Hl. apply in_freeLeases in Hl as [l0 [H0 [E|E]]]; subst; auto.
    destruct (L l0 H0) as [A B]. split; auto.
  - intros l1 l2 x H1 H2 S1 S2 I1 I2.
    apply in_freeLeases in H1 as [a [Ha [E1|E1]]]; [|subst; discriminate].
    apply in_freeLeases in H2 as [b [Hb [E2|E2]]]; [|subst; discriminate].
    subst. apply (U a b x); auto.
Qed.

(* ---------------------------------------------------------------- *)
(* findOrCreate *)

Definition fresh_lease (k : cid) (mc : mac) (b : bool) : lease := mkLease k SFree mc None None None b zero_time.

Lemma foc_spec c s k mc s1 l :
  findOrCreate c s k mc = (s1, l) ->
  ss s1 = ss s /\ next1 s1 = next1 s /\ next2 s1 = next2 s /\
  l_cid l = k /\ l_mac l = mc /\ l_net2 l = sess_captured (ss s) mc /\
  ((s1 = s /\ tget k (tbl s) = Some l) \/
   (l = fresh_lease k mc (sess_captured (ss s) mc) /\ s1 = put s l)).
Proof.
  unfold findOrCreate. fold (fresh_lease k mc (sess_captured (ss s) mc)).
  destruct (tget k (tbl s)) as [l0|] eqn:E.
  - destruct (Bool.eqb (l_net2 l0) (sess_captured (ss s) mc) && (l_mac l0 =? mc)) eqn:C.
    + intros H. inversion H; subst. apply andb_true_iff in C as [C1 C2].
      apply Bool.eqb_prop in C1. apply N.eqb_eq in C2. apply tget_in in E as [_ E].
      repeat split; auto.
    + intros H. inversion H; subst. repeat split; auto.
  - intros H. inversion H; subst. repeat split; auto.
Qed.

Lemma lease_ok_fresh c se k mc b : lease_ok c se (fresh_lease k mc b).
Proof. split; intros x H; discriminate. Qed.

Lemma inv_foc c s k mc s1 l : Inv c s -> findOrCreate c s k mc = (s1, l) -> Inv c s1 /\ In l (tbl s1).
Proof.
  intros HI H. apply foc_spec in H as [_ [_ [_ [_ [_ [_ [[E1 E2]|[E1 E2]]]]]]]].
  - subst. split; auto. apply tget_in in E2. tauto.
  - subst s1. split.
    + apply inv_put; auto.
      * subst l. apply lease_ok_fresh.
      * subst l. discriminate.
    + simpl. left. reflexivity.
Qed.

(* ---------------------------------------------------------------- *)
(* prefixes *)

Lemma psize_pos bits : 0 < psize bits.
Proof. unfold psize. apply N.neq_0_lt_0. apply N.pow_nonzero. discriminate. Qed.

Lemma pcontains_range a bits x :
  pcontains (pnet a bits) bits x = true -> pnet a bits <= x /\ x <= pnet a bits + psize bits - 1.
Proof.
  unfold pcontains, pnet. pose proof (psize_pos bits) as Hp. set (sz := psize bits) in *.
  rewrite N.div_mul by lia. intros H. apply N.eqb_eq in H.
  pose proof (N.div_mod x sz ltac:(lia)) as D. pose proof (N.mod_lt x sz ltac:(lia)) as M.
  rewrite H in D. rewrite (N.mul_comm (a / sz) sz). lia.
Qed.

Lemma range_pcontains a bits x :
  pnet a bits <= x -> x <= pnet a bits + psize bits - 1 -> pcontains (pnet a bits) bits x = true.
Proof.
  unfold pcontains, pnet. pose proof (psize_pos bits) as Hp. set (sz := psize bits) in *.
  rewrite N.div_mul by lia. intros H1 H2. apply N.eqb_eq.
  symmetry. apply (N.div_unique x sz (a / sz) (x - sz * (a / sz))); lia.
Qed.

Lemma n_contains_range c b x : n_contains c b x = true -> n_lan c b <= x /\ x <= n_bcast c b.
Proof.
  unfold n_contains, n_lan, n_bcast, n_bits. destruct b; intros H; apply pcontains_range in H; simpl; lia.
Qed.

Lemma in_pool_contains c b x : in_pool c b x -> n_contains c b x = true.
Proof.
  unfold in_pool, n_contains, n_lan, n_bcast, n_bits. destruct b; intros [H1 H2]; apply range_pcontains; simpl in *; lia.
Qed.

(* under sub_ok the handler's subnets are the configuration's *)
Lemma ok_lan c b : sub_ok c -> n_lan c b = want_lan c b.
Proof. intros [H1 [H2 [_ [_ [_ [H6 [H7 _]]]]]]]. unfold n_lan, want_lan. destruct b; congruence. Qed.
Lemma ok_bits c b : sub_ok c -> n_bits c b = want_bits c b.
Proof. intros [H1 [H2 [_ [_ [_ [H6 [H7 _]]]]]]]. unfold n_bits, want_bits. destruct b; congruence. Qed.
Lemma ok_bcast c b : sub_ok c -> n_bcast c b = want_bcast c b.
Proof. intros H. unfold n_bcast, want_bcast. rewrite (ok_lan c b H), (ok_bits c b H). reflexivity. Qed.
Lemma ok_contains c b x : sub_ok c -> n_contains c b x = want_contains c b x.
Proof. intros H. unfold n_contains, want_contains. rewrite (ok_lan c b H), (ok_bits c b H). reflexivity. Qed.
Lemma ok_server c b : sub_ok c -> n_server c b = c_hostip c.
Proof. intros [_ [_ [_ [_ [H5 [_ [_ [_ [_ H10]]]]]]]]]. unfold n_server. destruct b; congruence. Qed.
Lemma ok_dns c b : sub_ok c -> n_dns c b = want_dns c b.
Proof. intros [_ [_ [_ [H4 [_ [_ [_ [_ [H9 _]]]]]]]]]. unfold n_dns, want_dns. destruct b; congruence. Qed.
Lemma ok_gw c b : sub_ok c -> n_gw c b = if b then c_nfip c else c_routerip c.
Proof. intros [_ [_ [H3 [_ [_ [_ [_ [H8 _]]]]]]]]. unfold n_gw. destruct b; congruence. Qed.

(* ---------------------------------------------------------------- *)
(* allocIPOffer *)

Lemma scan_spec ch s from bc x :
  scan ch s from bc = Some x -> avail ch s x = true /\ from <= x /\ x < bc.
Proof.
  unfold scan. intros H. apply find_some in H as [Hin Ha]. split; auto.
  apply in_map_iff in Hin as [k [E Hk]]. apply in_seq in Hk. lia.
Qed.

Lemma avail_untracked ch s x : avail ch s x = true -> sess_find (ss s) x = None.
Proof.
  unfold avail. intros H. apply andb_true_iff in H as [_ H].
  destruct (sess_find (ss s) x); [discriminate|reflexivity].
Qed.

Lemma phase1_spec c ch s l req r :
  phase1 c ch s l req = Some r -> sess_find (ss s) r = None /\ in_pool c (l_net2 l) r.
Proof.
  unfold phase1. destruct req as [r'|]; [|discriminate].
  destruct (_ && _) eqn:C; [|discriminate]. intros H. inversion H; subst.
  apply andb_true_iff in C as [C C4]. apply andb_true_iff in C as [C C3]. apply andb_true_iff in C as [C1 C2].
  split.
  - unfold avail_req in C4. apply andb_true_iff in C4 as [_ C4].
    destruct (sess_find (ss s) r); [discriminate|reflexivity].
  - apply n_contains_range in C1. apply negb_true_iff in C2, C3. apply N.eqb_neq in C2, C3.
    unfold in_pool. lia.
Qed.

Lemma set_next_same s b t : tbl (set_next s b t) = tbl s /\ ss (set_next s b t) = ss s.
Proof. unfold set_next. destruct b; auto. Qed.

Lemma alloc_spec c ch s l req o s2 :
  Inv c s -> allocIPOffer c ch s l req = (o, s2) ->
  Inv c s2 /\ tbl s2 = tbl s /\ ss s2 = ss s /\
  forall x, o = Some x -> sess_find (ss s) x = None /\ in_pool c (l_net2 l) x.
Proof.
  intros HI. unfold allocIPOffer.
  destruct (phase1 c ch s l req) as [r|] eqn:P1.
  - intros H. inversion H; subst. split; [auto|split; [auto|split; [auto|]]].
    intros x Hx. inversion Hx; subst. apply (phase1_spec c ch s2 l req); auto.
  - pose proof (inv_next c s HI) as [X1 X2].
    assert (Xb : n_first c (l_net2 l) <= get_next s (l_net2 l)) by (unfold get_next; destruct (l_net2 l); auto).
    destruct (scan ch s (get_next s (l_net2 l)) (n_bcast c (l_net2 l))) as [x|] eqn:S1.
    + intros H. inversion H; subst. apply scan_spec in S1 as [A [B C]].
      destruct (set_next_same s (l_net2 l) (x + 1)) as [T1 T2].
      split; [|split; [auto|split; [auto|]]].
      * apply inv_set_next; auto. unfold n_first in *. lia.
      * intros y Hy. inversion Hy; subst. split; [apply (avail_untracked ch); auto|].
        unfold in_pool, n_first in *. lia.
    + destruct (scan ch s (n_first c (l_net2 l)) (n_bcast c (l_net2 l))) as [x|] eqn:S2.
      * intros H. inversion H; subst. apply scan_spec in S2 as [A [B C]].
        destruct (set_next_same s (l_net2 l) (x + 1)) as [T1 T2].
        split; [|split; [auto|split; [auto|]]].
        -- apply inv_set_next; auto. lia.
        -- intros y Hy. inversion Hy; subst. split; [apply (avail_untracked ch); auto|].
           unfold in_pool, n_first in *. lia.
      * intros H. inversion H; subst.
        destruct (set_next_same s (l_net2 l) (N.max (n_first c (l_net2 l)) (n_bcast c (l_net2 l)))) as [T1 T2].
        split; [|split; [auto|split; [auto|]]].
        -- apply inv_set_next; auto. lia.
        -- intros y Hy. discriminate.
Qed.

(* ---------------------------------------------------------------- *)
(* taken, acked_to_other *)

Lemma taken_false s l x :
  taken s l x = false ->
  acked_to_other (tbl s) (l_cid l) x = false /\
  (sess_find (ss s) x = None \/ sess_find (ss s) x = Some (l_mac l)).
Proof.
  unfold taken. intros H. apply orb_false_iff in H as [H1 H2]. split.
  - destruct (acked_to_other (tbl s) (l_cid l) x) eqn:A; auto.
    apply acked_to_other_spec in A as [v [Hv [S [I Nq]]]].
    assert (E : existsb (fun v => negb (l_cid v =? l_cid l) && lstate_eqb (l_state v) SAllocated && oeqb (l_ip v) (Some x)) (tbl s) = true).
    { apply existsb_exists. exists v. split; auto. rewrite S, I. simpl. rewrite N.eqb_refl.
      apply N.eqb_neq in Nq. rewrite Nq. reflexivity. }
    congruence.
  - destruct (sess_find (ss s) x) as [m'|]; auto. apply negb_false_iff in H2. apply N.eqb_eq in H2. subst. auto.
Qed.

Lemma acked_tset l' t k x : l_cid l' = k -> acked_to_other (tset l' t) k x = acked_to_other t k x.
Proof.
  intros Hk. destruct (acked_to_other t k x) eqn:A.
  - apply acked_to_other_spec in A as [v [Hv [S [I Nq]]]]. apply acked_to_other_spec.
    exists v. repeat split; auto. apply in_tset. right. split; auto. congruence.
  - destruct (acked_to_other (tset l' t) k x) eqn:B; auto.
    apply acked_to_other_spec in B as [v [Hv [S [I Nq]]]]. apply in_tset in Hv as [Hv|[Hv _]].
    + subst. contradiction.
    + assert (acked_to_other t k x = true) by (apply acked_to_other_spec; exists v; auto). congruence.
Qed.

Lemma uniq_not_acked c s l x :
  Inv c s -> In l (tbl s) -> l_state l = SAllocated -> l_ip l = Some x ->
  acked_to_other (tbl s) (l_cid l) x = false.
Proof.
  intros HI Hl S I. destruct (acked_to_other (tbl s) (l_cid l) x) eqn:A; auto.
  apply acked_to_other_spec in A as [v [Hv [Sv [Iv Nq]]]].
  exfalso. apply Nq. apply (inv_uniq c s HI v l x); auto.
Qed.

(* an address the session does not track is acknowledged to nobody *)
Lemma untracked_not_acked c s k x :
  Inv c s -> sess_find (ss s) x = None -> acked_to_other (tbl s) k x = false.
Proof.
  intros HI Hn. destruct (acked_to_other (tbl s) k x) eqn:A; auto.
  apply acked_to_other_spec in A as [v [Hv [Sv [Iv Nq]]]].
  destruct (inv_leases c s HI v Hv) as [_ H2]. destruct (H2 x Iv) as [_ T]. contradiction.
Qed.

Lemma untracked_not_own c s x :
  Inv c s -> sess_find (ss s) x = None -> x <> c_hostip c /\ x <> c_routerip c.
Proof.
  intros HI Hn. destruct (inv_own c s HI) as [O1 O2]. unfold tracked in *.
  split; intro E; subst; contradiction.
Qed.

(* ---------------------------------------------------------------- *)
(* handleDiscover *)

Lemma reset_props now l m :
  let l0 := discover_reset now l m in
  l_cid l0 = l_cid l /\ l_mac l0 = l_mac l /\ l_net2 l0 = l_net2 l /\ l_ip l0 = l_ip l /\
  l_state l0 = l_state l /\ (forall x, l_offer l0 = Some x -> l_offer l = Some x \/ l_ip l = Some x).
Proof.
  unfold discover_reset. destruct (l_state l) eqn:S; simpl.
  - repeat split; auto.
  - destruct (oeqb (l_xid l) (Some (m_xid m))); simpl; repeat split; auto. intros x H. discriminate.
  - destruct (l_exp l <? now)%Z; simpl; repeat split; auto. intros x H. discriminate.
Qed.

(* what the theorems need to know about the address of an OFFER / ACK *)
Definition addr_good (c : cfg) (s0 : dstate) (mc : mac) (k : cid) (x : ip) (s' : dstate) : Prop :=
  addr_ok c (sess_captured (ss s0) mc) x /\
  (sess_find (ss s0) x = None \/ sess_find (ss s0) x = Some mc) /\
  acked_to_other (tbl s') k x = false.

Lemma discover_ok c ch now s0 m s' rp :
  Inv c s0 -> handleDiscover c ch now s0 m = (s', rp) ->
  Inv c s' /\
  forall r, rp = Some r ->
    exists x, r = mk_reply c ROffer m x (sess_captured (ss s0) (m_chaddr m)) /\
              addr_good c s0 (m_chaddr m) (getcid m) x s'.
Proof.
  intros HI. unfold handleDiscover.
  destruct (findOrCreate c s0 (getcid m) (m_chaddr m)) as [s1 l] eqn:F.
  destruct (inv_foc c s0 _ _ s1 l HI F) as [HI1 Hin].
  apply foc_spec in F as [Hss [_ [_ [Hk [Hm [Hn _]]]]]].
  destruct (reset_props now l m) as [Rk [Rm [Rn [Ri [Rs Ro]]]]].
  set (l0 := discover_reset now l m) in *.
  destruct (inv_leases c s1 HI1 l Hin) as [Lo Li].
  set (l1 := match l_offer l0 with Some x => if taken s1 l0 x then set_offer l0 None else l0 | None => l0 end).
  assert (P1 : l_cid l1 = getcid m /\ l_mac l1 = m_chaddr m /\ l_net2 l1 = sess_captured (ss s0) (m_chaddr m)
               /\ l_ip l1 = l_ip l /\ l_state l1 = l_state l).
  { unfold l1. destruct (l_offer l0) as [x|]; [destruct (taken s1 l0 x)|]; simpl; repeat split; congruence. }
  destruct P1 as [Pk [Pm [Pn [Pi Ps]]]].
  assert (Po : forall x, l_offer l1 = Some x -> l_offer l0 = Some x /\ taken s1 l0 x = false).
  { unfold l1. intros x. destruct (l_offer l0) as [y|] eqn:E.
    - destruct (taken s1 l0 y) eqn:T; simpl; intros H; [discriminate|]. rewrite E in H. inversion H; subst. auto.
    - rewrite E. discriminate. }
  assert (Hok1 : lease_ok c (ss s1) l1).
  { split.
    - intros x Hx. destruct (Po x Hx) as [Hx0 _]. rewrite Pn, <- Hn.
      destruct (Ro x Hx0) as [A|A]; [apply Lo; auto|apply Li; auto].
    - intros x Hx. rewrite Pi in Hx. rewrite Pn, <- Hn. apply Li; auto. }
  assert (HIp : Inv c (put s1 l1)).
  { apply inv_put; auto. intros S x Hx. rewrite Pk, <- Hk. rewrite Ps in S. rewrite Pi in Hx.
    apply (uniq_not_acked c s1 l x); auto. }
  destruct (l_offer l1) as [x|] eqn:O1.
  - (* retained offer, re-validated *)
    intros H. inversion H; subst s' rp. clear H.
    destruct (Po x eq_refl) as [Hx0 Tk]. apply taken_false in Tk as [Ta Ts]. rewrite Rk, Hk in Ta. rewrite Rm, Hm, Hss in Ts.
    assert (Hax : addr_ok c (sess_captured (ss s0) (m_chaddr m)) x).
    { rewrite <- Pn. destruct Hok1 as [A _]. apply A. exact O1. }
    split.
    + apply inv_put; auto.
      * destruct Hok1 as [A B]. split; simpl.
        -- intros y Hy. inversion Hy; subst. rewrite Pn. exact Hax.
        -- intros y Hy. apply B. exact Hy.
      * simpl. discriminate.
    + intros r Hr. inversion Hr; subst r. exists x. simpl. rewrite Pn. split; auto.
      split; auto. split; auto. unfold put, set_tbl. cbn [tbl].
      rewrite acked_tset by (simpl; auto). rewrite acked_tset by auto. exact Ta.
  - (* allocation *)
    destruct (allocIPOffer c ch (put s1 l1) l1 (m_req m)) as [o s2] eqn:A.
    destruct (alloc_spec c ch _ _ _ _ _ HIp A) as [HI2 [T2 [S2 Hx]]].
    destruct o as [x|].
    + intros H. inversion H; subst s' rp. clear H.
      destruct (Hx x eq_refl) as [Hnone Hpool]. simpl in Hnone. rewrite Hss in Hnone.
      assert (Hno : x <> c_hostip c /\ x <> c_routerip c).
      { apply (untracked_not_own c (put s1 l1)); auto. simpl. rewrite Hss. exact Hnone. }
      assert (Hax : addr_ok c (sess_captured (ss s0) (m_chaddr m)) x).
      { rewrite <- Pn. split; auto. }
      split.
      * apply inv_put; auto.
        -- destruct Hok1 as [_ B]. split; simpl.
           ++ intros y Hy. inversion Hy; subst. rewrite Pn. exact Hax.
           ++ intros y Hy. rewrite S2. simpl. apply B. exact Hy.
        -- simpl. discriminate.
      * intros r Hr. inversion Hr; subst r. exists x. simpl. rewrite Pn. split; auto.
        split; auto. split; auto. unfold put at 1, set_tbl. cbn [tbl].
        rewrite acked_tset by (simpl; auto).
        apply (untracked_not_acked c s2); auto. rewrite S2. simpl. rewrite Hss. exact Hnone.
    + intros H. inversion H; subst s' rp. split; [|intros r Hr; discriminate].
      apply inv_tdel. exact HI2.
Qed.

(* ---------------------------------------------------------------- *)
(* handleRequest *)

Lemma addr_ok_nonzero c b x : addr_ok c b x -> x <> 0.
Proof. intros [[H _] _]. lia. Qed.

Lemma do_ack_ok c now m s l x s' rp :
  Inv c s -> In l (tbl s) -> acked_to_other (tbl s) (l_cid l) x = false ->
  (l_state l = SDiscover /\ l_offer l = Some x) \/ (l_state l = SAllocated /\ l_ip l = Some x) ->
  do_ack c now m s l = (s', rp) ->
  Inv c s' /\ rp = Some (mk_reply c RAck m x (l_net2 l)) /\ acked_to_other (tbl s') (l_cid l) x = false.
Proof.
  intros HI Hin Hna Hst. unfold do_ack.
  set (l2 := match l_state l with SDiscover => set_offer (set_ip l (l_offer l)) None | _ => l end).
  destruct (inv_leases c s HI l Hin) as [Lo Li].
  assert (P : l_ip l2 = Some x /\ l_cid l2 = l_cid l /\ l_mac l2 = l_mac l /\ l_net2 l2 = l_net2 l
              /\ addr_ok c (l_net2 l) x /\ (forall y, l_offer l2 = Some y -> addr_ok c (l_net2 l) y)).
  { unfold l2. destruct Hst as [[S O]|[S I]]; rewrite S; simpl.
    - split; [exact O|]. do 3 (split; [reflexivity|]). split; [apply Lo; exact O|]. intros y Hy; discriminate.
    - split; [exact I|]. do 3 (split; [reflexivity|]). split; [apply Li; exact I|]. exact Lo. }
  destruct P as [Pi [Pk [Pm [Pn [Pa Po]]]]].
  set (l3 := set_exp (set_state l2 SAllocated) (now + lease_secs)%Z).
  assert (Q : l_ip l3 = Some x /\ l_cid l3 = l_cid l /\ l_mac l3 = l_mac l /\ l_net2 l3 = l_net2 l
              /\ l_offer l3 = l_offer l2) by (unfold l3; simpl; auto).
  destruct Q as [Qi [Qk [Qm [Qn Qo]]]].
  rewrite Qi, Qn. intros H. apply pair_equal_spec in H. destruct H as [Hs Hr]. subst s' rp.
  change (set_ss (put s l3) (dhcp_update (ss (put s l3)) (l_mac l3) (Some x)))
    with (put (set_ss s (dhcp_update (ss s) (l_mac l3) (Some x))) l3).
  split; [|split; auto].
  - apply inv_put.
    + apply inv_set_ss; auto. intros y Hy. apply tracked_dhcp_update. exact Hy.
    + split.
      * intros y Hy. rewrite Qo in Hy. rewrite Qn. apply Po. exact Hy.
      * intros y Hy. rewrite Qi in Hy. inversion Hy; subst y. rewrite Qn. split; auto.
        simpl. apply tracked_dhcp_update_new. apply (addr_ok_nonzero c (l_net2 l)). exact Pa.
    + intros _ y Hy. rewrite Qi in Hy. inversion Hy; subst y. rewrite Qk. exact Hna.
  - unfold put, set_tbl. cbn [tbl set_ss]. rewrite acked_tset by auto. exact Hna.
Qed.

Definition ack_facts (c : cfg) (now : Z) (s0 : dstate) (m : dmsg) (x : ip) : Prop :=
  (exists l0, tget (getcid m) (tbl s0) = Some l0 /\ l_mac l0 = m_chaddr m /\
     ((l_state l0 = SDiscover /\ l_xid l0 = Some (m_xid m) /\ l_offer l0 = Some x) \/
      (l_state l0 = SAllocated /\ l_ip l0 = Some x /\ (l_exp l0 <? now)%Z = false))) /\
  asked m = x /\
  match m_sid m with   (* no server identifier, or ours *)
  | Some v => v = 0 \/ v = n_server c (sess_captured (ss s0) (m_chaddr m))
  | None => True
  end.

Definition nak_or_good_ack (c : cfg) (now : Z) (s0 : dstate) (m : dmsg) (s' : dstate) (r : reply) : Prop :=
  r = mk_reply c RNak m 0 (sess_captured (ss s0) (m_chaddr m)) \/
  exists x, r = mk_reply c RAck m x (sess_captured (ss s0) (m_chaddr m)) /\
            addr_good c s0 (m_chaddr m) (getcid m) x s' /\ ack_facts c now s0 m x.

Lemma inv_update c s m o : Inv c s -> Inv c (set_ss s (dhcp_update (ss s) m o)).
Proof. intros H. apply inv_set_ss; auto. intros y Hy. apply tracked_dhcp_update. exact Hy. Qed.

Ltac pinv H := apply pair_equal_spec in H; let a := fresh in let b := fresh in destruct H as [a b]; subst.

Lemma request_ok c now s0 m s' rp :
  Inv c s0 -> handleRequest c now s0 m = (s', rp) ->
  Inv c s' /\ forall r, rp = Some r -> nak_or_good_ack c now s0 m s' r.
Proof.
  intros HI. unfold handleRequest, classify.
  set (req0 := match m_req m with Some r => r | None => 0 end).
  set (sid := match m_sid m with Some r => r | None => 0 end).
  set (cap := sess_captured (ss s0) (m_chaddr m)).
  destruct (if negb (sid =? 0) then (Selecting, req0)
            else if (req0 =? 0) && negb (m_src m =? ip_bcast) then (Renewing, m_ciaddr m)
            else if req0 =? 0 then (Rebinding, m_ciaddr m) else (Rebooting, req0)) as [oper req] eqn:OP.
  destruct (req =? 0) eqn:R0.
  { intros H. pinv H. split; auto. intros r Hr. discriminate. }
  apply N.eqb_neq in R0.
  destruct (findOrCreate c s0 (getcid m) (m_chaddr m)) as [s1 l] eqn:F.
  destruct (inv_foc c s0 _ _ s1 l HI F) as [HI1 Hin].
  apply foc_spec in F as [Hss [_ [_ [Hk [Hm [Hn Hfoc]]]]]]. fold cap in Hn.
  destruct (inv_leases c s1 HI1 l Hin) as [Lo Li].
  (* the asked address and the server identifier, per kind of request *)
  assert (Hasked : asked m = req /\ (oper = Selecting -> sid <> 0) /\ (oper <> Selecting -> sid = 0)).
  { unfold asked. fold req0.
    destruct (negb (sid =? 0)) eqn:S0.
    - inversion OP; subst oper req. apply negb_true_iff, N.eqb_neq in S0.
      split; [|split; [auto|congruence]].
      unfold req0 in *. destruct (m_req m) as [v|]; [|congruence].
      destruct (v =? 0) eqn:V0; auto. apply N.eqb_eq in V0. congruence.
    - apply negb_false_iff, N.eqb_eq in S0.
      destruct (req0 =? 0) eqn:Q0.
      + apply N.eqb_eq in Q0.
        assert (Hc : asked m = m_ciaddr m).
        { unfold asked. unfold req0 in Q0. destruct (m_req m) as [v|]; auto. subst v. reflexivity. }
        unfold asked in Hc. fold req0 in Hc.
        destruct (negb (m_src m =? ip_bcast)); simpl in OP; inversion OP; subst oper req;
          (split; [exact Hc|split; [discriminate|auto]]).
      + simpl in OP. inversion OP; subst oper req. apply N.eqb_neq in Q0.
        split; [|split; [discriminate|auto]].
        unfold req0 in *. destruct (m_req m) as [v|]; [|congruence].
        destruct (v =? 0) eqn:V0; auto. apply N.eqb_eq in V0. congruence. }
  destruct Hasked as [Hask [Hsel Hnsel]].
  (* common conclusion of every ACK branch *)
  assert (ACK : forall s2 s'' rp',
            tbl s2 = tbl s1 -> Inv c s2 ->
            taken s1 l req = false ->
            l_mac l = m_chaddr m ->
            ((l_state l = SDiscover /\ l_xid l = Some (m_xid m) /\ l_offer l = Some req) \/
             (l_state l = SAllocated /\ l_ip l = Some req /\ (l_exp l <? now)%Z = false)) ->
            match m_sid m with Some v => v = 0 \/ v = n_server c cap | None => True end ->
            do_ack c now m s2 l = (s'', rp') ->
            Inv c s'' /\ forall r, rp' = Some r -> nak_or_good_ack c now s0 m s'' r).
  { intros s2 s'' rp' Ht HI2 Tk Hmac Hst Hos Hd. unfold cap in *.
    apply taken_false in Tk as [Ta Ts]. rewrite Hk in Ta. rewrite Hm, Hss in Ts.
    assert (Hst' : (l_state l = SDiscover /\ l_offer l = Some req) \/ (l_state l = SAllocated /\ l_ip l = Some req))
      by (destruct Hst as [[A [_ B]]|[A [B _]]]; auto).
    assert (Hin2 : In l (tbl s2)) by (rewrite Ht; exact Hin).
    assert (Ta2 : acked_to_other (tbl s2) (l_cid l) req = false) by (rewrite Ht, Hk; exact Ta).
    destruct (do_ack_ok c now m s2 l req s'' rp' HI2 Hin2 Ta2 Hst' Hd) as [HI' [Hr Ha]].
    split; auto. intros r Hr'. rewrite Hr in Hr'. inversion Hr'; subst r. right. exists req.
    rewrite Hn. split; auto. split.
    - split; [|split; auto].
      + rewrite <- Hn. destruct Hst as [[_ [_ B]]|[_ [B _]]]; [apply Lo; auto|apply Li; auto].
      + rewrite <- Hk. exact Ha.
    - split; [|split; auto].
      destruct Hfoc as [[E1 E2]|[E1 E2]].
      + subst s1. exists l. split; auto.
      + exfalso. rewrite E1 in Hst. destruct Hst as [[A _]|[A _]]; discriminate. }
  assert (NAK : forall s2, Inv c s2 -> Inv c s2 /\ forall r, Some (mk_reply c RNak m 0 cap) = Some r -> nak_or_good_ack c now s0 m s2 r).
  { intros s2 H2. split; auto. intros r Hr. inversion Hr; subst r. left. reflexivity. }
  destruct oper.
  - (* Selecting *)
    destruct (negb (sid =? n_server c cap)) eqn:SV.
    + set (l' := if lstate_eqb (l_state l) SDiscover then l else set_ip (set_state l SFree) None).
      assert (HIp : Inv c (put s1 l')).
      { apply inv_put; auto.
        - unfold l'. destruct (lstate_eqb (l_state l) SDiscover); [split; auto|].
          split; simpl; auto. intros y Hy. discriminate.
        - unfold l'. destruct (lstate_eqb (l_state l) SDiscover) eqn:E.
          + apply lstate_eqb_eq in E. intros S. congruence.
          + simpl. discriminate. }
      destruct (attack_mode c cap).
      * intros H. pinv H. apply NAK. exact HIp.
      * intros H. pinv H. split; [|intros r Hr; discriminate].
        apply inv_update. exact HIp.
    + apply negb_false_iff, N.eqb_eq in SV.
      destruct (lstate_eqb (l_state l) SFree || taken s1 l req
                || lstate_eqb (l_state l) SAllocated && (l_exp l <? now)%Z || negb (l_mac l =? m_chaddr m)
                || lstate_eqb (l_state l) SDiscover && (negb (oeqb (l_xid l) (Some (m_xid m))) || negb (oeqb (l_offer l) (Some req)))
                || lstate_eqb (l_state l) SAllocated && negb (oeqb (l_ip l) (Some req))) eqn:C.
      * intros H. pinv H. apply NAK. exact HI1.
      * apply orb_false_iff in C as [C C5]. apply orb_false_iff in C as [C C4].
        apply orb_false_iff in C as [C C3]. apply orb_false_iff in C as [C CE]. apply orb_false_iff in C as [C1 C2].
        intros H. apply (ACK s1 s' rp); auto.
        -- destruct (l_state l) eqn:S; simpl in *; try discriminate.
           ++ left. apply orb_false_iff in C4 as [A B]. apply negb_false_iff in A, B.
              apply oeqb_eq in A, B. auto.
           ++ right. apply negb_false_iff, oeqb_eq in C5. auto.
        -- unfold sid in SV. destruct (m_sid m) as [v|]; auto.
  - (* Renewing *)
    destruct (negb (lstate_eqb (l_state l) SAllocated) || taken s1 l req || negb (oeqb (l_ip l) (Some req))
              || negb (l_mac l =? m_chaddr m) || (l_exp l <? now)%Z) eqn:C.
    + intros H. pinv H. apply NAK. exact HI1.
    + apply orb_false_iff in C as [C C5]. apply orb_false_iff in C as [C C4].
      apply orb_false_iff in C as [C C3]. apply orb_false_iff in C as [C1 C2].
      intros H. apply (ACK s1 s' rp); auto.
      * right. apply negb_false_iff in C1, C3. apply lstate_eqb_eq in C1. apply oeqb_eq in C3. auto.
      * assert (Z0 : sid = 0) by (apply Hnsel; discriminate).
        unfold sid in Z0. destruct (m_sid m) as [v|]; auto.
  - (* Rebinding *)
    destruct (lstate_eqb (l_state l) SFree && attack_mode c cap).
    + intros H. pinv H. apply NAK. apply inv_update. exact HI1.
    + destruct (negb (lstate_eqb (l_state l) SAllocated) || taken s1 l req
                || lstate_eqb (l_state l) SAllocated && (l_exp l <? now)%Z || negb (oeqb (l_ip l) (Some req))
                || negb (l_mac l =? m_chaddr m)
                || negb match l_ip l with Some x => n_contains c cap x | None => false end) eqn:C.
      * intros H. pinv H. apply NAK. apply inv_update. exact HI1.
      * apply orb_false_iff in C as [C C5]. apply orb_false_iff in C as [C C4].
        apply orb_false_iff in C as [C C3]. apply orb_false_iff in C as [C CE]. apply orb_false_iff in C as [C1 C2].
        intros H. apply (ACK (set_ss s1 (dhcp_update (ss s1) (m_chaddr m) (Some req))) s' rp); auto.
        -- apply inv_update. exact HI1.
        -- right. apply negb_false_iff in C1, C3. apply lstate_eqb_eq in C1. apply oeqb_eq in C3.
           rewrite C1 in CE. simpl in CE. auto.
        -- assert (Z0 : sid = 0) by (apply Hnsel; discriminate).
           unfold sid in Z0. destruct (m_sid m) as [v|]; auto.
  - (* Rebooting *)
    destruct (lstate_eqb (l_state l) SFree && attack_mode c cap).
    + intros H. pinv H. apply NAK. apply inv_update. exact HI1.
    + destruct (negb (lstate_eqb (l_state l) SAllocated) || taken s1 l req
                || lstate_eqb (l_state l) SAllocated && (l_exp l <? now)%Z || negb (oeqb (l_ip l) (Some req))
                || negb (l_mac l =? m_chaddr m)
                || negb match l_ip l with Some x => n_contains c cap x | None => false end) eqn:C.
      * intros H. pinv H. apply NAK. apply inv_update. exact HI1.
      * apply orb_false_iff in C as [C C5]. apply orb_false_iff in C as [C C4].
        apply orb_false_iff in C as [C C3]. apply orb_false_iff in C as [C CE]. apply orb_false_iff in C as [C1 C2].
        intros H. apply (ACK (set_ss s1 (dhcp_update (ss s1) (m_chaddr m) (Some req))) s' rp); auto.
        -- apply inv_update. exact HI1.
        -- right. apply negb_false_iff in C1, C3. apply lstate_eqb_eq in C1. apply oeqb_eq in C3.
           rewrite C1 in CE. simpl in CE. auto.
        -- assert (Z0 : sid = 0) by (apply Hnsel; discriminate).
           unfold sid in Z0. destruct (m_sid m) as [v|]; auto.
Qed.

(* ---------------------------------------------------------------- *)
(* the other ops, steps, histories *)

Lemma decline_ok c s0 m : Inv c s0 -> Inv c (fst (handleDecline c s0 m)) /\ snd (handleDecline c s0 m) = None.
Proof.
  intros HI. unfold handleDecline.
  destruct (findOrCreate c s0 (getcid m) (m_chaddr m)) as [s1 l] eqn:F.
  destruct (inv_foc c s0 _ _ s1 l HI F) as [HI1 Hin].
  destruct (negb (oeqb (Some (n_server c (l_net2 l))) (m_sid m))); simpl; auto.
  destruct (negb (oeqb (l_ip l) (m_req m)) || negb (l_mac l =? m_chaddr m)); simpl; auto.
  split; auto. apply inv_put; auto.
  - split; simpl; intros x Hx; discriminate.
  - simpl. discriminate.
Qed.

Lemma release_ok c s0 m : Inv c s0 -> Inv c (fst (handleRelease c s0 m)) /\ snd (handleRelease c s0 m) = None.
Proof.
  intros HI. unfold handleRelease.
  destruct (findOrCreate c s0 (getcid m) (m_chaddr m)) as [s1 l] eqn:F.
  destruct (inv_foc c s0 _ _ s1 l HI F) as [HI1 Hin]. simpl. auto.
Qed.

Lemma inv_parse c s m : Inv c s -> Inv c (parse_effect c s m).
Proof.
  intros HI. unfold parse_effect. destruct (_ && _); auto.
  apply inv_set_ss; auto. intros y Hy. apply tracked_touch. left. exact Hy.
Qed.

Lemma parse_tbl c s m : tbl (parse_effect c s m) = tbl s.
Proof. unfold parse_effect. destruct (_ && _); reflexivity. Qed.

(* the reply of a step, in terms of the state after Session.Parse *)
Definition reply_good (c : cfg) (s : dstate) (o : op) (s' : dstate) (r : reply) : Prop :=
  exists m, op_msg o = Some m /\
    let s0 := parse_effect c s m in
    ((exists x, r = mk_reply c ROffer m x (sess_captured (ss s0) (m_chaddr m)) /\
                addr_good c s0 (m_chaddr m) (getcid m) x s')
     \/ (is_request o = true /\ nak_or_good_ack c (op_now o) s0 m s' r)).

Lemma step_ok c ch s o s' rp :
  Inv c s -> step c ch s o = (s', rp) ->
  Inv c s' /\ forall r, rp = Some r -> reply_good c s o s' r.
Proof.
  intros HI. destruct o as [now m|now m|m|m|x|x|now|k tt]; simpl.
  - intros H. destruct (discover_ok c ch now _ m s' rp (inv_parse c s m HI) H) as [A B].
    split; auto. intros r Hr. exists m. split; [reflexivity|]. left. apply B. exact Hr.
  - intros H. destruct (request_ok c now _ m s' rp (inv_parse c s m HI) H) as [A B].
    split; auto. intros r Hr. exists m. split; [reflexivity|]. right. split; [reflexivity|]. apply B. exact Hr.
  - intros H. destruct (decline_ok c _ m (inv_parse c s m HI)) as [A B].
    rewrite H in A, B. simpl in A, B. split; auto. intros r Hr. congruence.
  - intros H. destruct (release_ok c _ m (inv_parse c s m HI)) as [A B].
    rewrite H in A, B. simpl in A, B. split; auto. intros r Hr. congruence.
  - intros H. pinv H. split; [|intros r Hr; discriminate].
    apply inv_set_ss; auto. intros y. unfold tracked, sess_find. rewrite hosts_capture. auto.
  - intros H. pinv H. split; [|intros r Hr; discriminate].
    apply inv_set_ss; auto. intros y. unfold tracked, sess_find. rewrite hosts_uncapture. auto.
  - intros H. pinv H. split; [|intros r Hr; discriminate]. apply inv_free. exact HI.
  - intros H. pinv H. split; [|intros r Hr; discriminate].
    destruct (tget k (tbl s)) as [l|] eqn:T; auto. apply tget_in in T as [Hin Hk].
    destruct (inv_leases c s HI l Hin) as [Lo Li].
    apply inv_put; auto.
    + split; simpl; auto.
    + simpl. intros S x Hx. apply (uniq_not_acked c s l x); auto.
Qed.

Lemma inv_init c : Inv c (init c).
Proof.
  constructor.
  - constructor.
  - unfold init, sess_init. cbn [ss]. unfold tracked, sess_find. cbn [hosts].
    set (s1 := sess_touch (mkSess [] []) (c_hostmac c) (c_hostip c)).
    assert (T1 : tracked s1 (c_hostip c)) by (apply tracked_touch; right; reflexivity).
    split.
    + apply (tracked_touch s1 (c_routermac c) (c_routerip c)). left. exact T1.
    + apply (tracked_touch s1 (c_routermac c) (c_routerip c)). right. reflexivity.
  - intros l Hl. destruct Hl.
  - intros l1 l2 x H. destruct H.
  - simpl. split; apply N.le_refl.
Qed.

Lemma run_inv c h : forall s, Inv c s -> Inv c (fst (run c s h)).
Proof.
  induction h as [|[ch o] r IH]; intros s HI; [exact HI|].
  rewrite run_cons. simpl. apply IH.
  destruct (step c ch s o) as [s1 rp] eqn:E. simpl. apply (step_ok c ch s o s1 rp HI E).
Qed.

Lemma trace_step c h : forall s t, Inv c s -> In t (trace c s h) ->
  Inv c (t_pre t) /\ step c (t_ch t) (t_pre t) (t_op t) = (t_post t, t_reply t).
Proof.
  induction h as [|[ch o] r IH]; intros s t HI Hin; [destruct Hin|].
  simpl in Hin. destruct (step c ch s o) as [s1 rp] eqn:E. destruct Hin as [Hin|Hin].
  - subst t. simpl. auto.
  - apply (IH s1); auto. apply (step_ok c ch s o s1 rp HI E).
Qed.

(* every reply along every history *)
Lemma trace_reply c h t r :
  In t (trace c (init c) h) -> t_reply t = Some r ->
  Inv c (t_pre t) /\ Inv c (t_post t) /\ reply_good c (t_pre t) (t_op t) (t_post t) r.
Proof.
  intros Hin Hr. destruct (trace_step c h (init c) t (inv_init c) Hin) as [HI E].
  destruct (step_ok c _ _ _ _ _ HI E) as [HI' G]. auto.
Qed.

(* ---------------------------------------------------------------- *)
(* C11 *)

Theorem uniq_all : forall c h, Uniq (tbl (fst (run c (init c) h))).
Proof. intros c h. apply (inv_uniq c). apply run_inv. apply inv_init. Qed.

Lemma good_type c s o s' r :
  reply_good c s o s' r -> is_lease_reply r = true ->
  exists m x, op_msg o = Some m /\ r_yi r = x /\
    addr_good c (parse_effect c s m) (m_chaddr m) (getcid m) x s' /\
    r_xid r = m_xid m /\ r_chaddr r = m_chaddr m.
Proof.
  intros [m [Hm G]] Hl. exists m. destruct G as [[x [E A]]|[_ [E|[x [E [A _]]]]]].
  - exists x. subst r. simpl. auto.
  - subst r. discriminate.
  - exists x. subst r. simpl. auto.
Qed.

Theorem not_acked_elsewhere_all : forall c h t m r,
  In t (trace c (init c) h) -> op_msg (t_op t) = Some m -> t_reply t = Some r ->
  c11_not_acked_elsewhere (t_post t) m r = true.
Proof.
  intros c h t m r Hin Hm Hr. destruct (trace_reply c h t r Hin Hr) as [_ [_ G]].
  unfold c11_not_acked_elsewhere. destruct (is_lease_reply r) eqn:L; auto. simpl.
  destruct (good_type _ _ _ _ _ G L) as [m' [x [Hm' [Hx [[_ [_ A]] _]]]]].
  rewrite Hm in Hm'. inversion Hm'; subst m'. rewrite Hx, A. reflexivity.
Qed.

Theorem not_reserved_all : forall c h t m r,
  sub_ok c -> In t (trace c (init c) h) -> op_msg (t_op t) = Some m -> t_reply t = Some r ->
  c11_not_reserved c (t_pre t) m r = true.
Proof.
  intros c h t m r Hok Hin Hm Hr. destruct (trace_reply c h t r Hin Hr) as [_ [_ G]].
  unfold c11_not_reserved. destruct (is_lease_reply r) eqn:L; auto. simpl.
  destruct (good_type _ _ _ _ _ G L) as [m' [x [Hm' [Hx [[[[P1 P2] [O1 O2]] [T _]] _]]]]].
  rewrite Hm in Hm'. inversion Hm'; subst m'. rewrite Hx.
  unfold reserved, client_net, sess_at.
  set (b := sess_captured (ss (parse_effect c (t_pre t) m)) (m_chaddr m)) in *.
  unfold res_own, res_router, res_network, res_broadcast, res_outside, res_tracked_other.
  rewrite <- (ok_lan c b Hok), <- (ok_bcast c b Hok), <- (ok_contains c b x Hok).
  rewrite (in_pool_contains c b x) by (split; auto).
  apply N.eqb_neq in O1, O2. rewrite O1, O2.
  assert (E1 : (x =? n_lan c b) = false) by (apply N.eqb_neq; lia).
  assert (E2 : (x =? n_bcast c b) = false) by (apply N.eqb_neq; lia).
  rewrite E1, E2. simpl.
  destruct T as [T|T]; rewrite T; [reflexivity|]. rewrite N.eqb_refl. reflexivity.
Qed.

(* "Still acknowledged" read with the clock (Allocated AND expiry not before now) is weaker than the
   state reading used above: the invariant also covers expired, not yet freed leases. *)
Definition Uniq_at (now : Z) (t : list lease) : Prop :=
  forall l1 l2 x, In l1 t -> In l2 t ->
    l_state l1 = SAllocated -> l_state l2 = SAllocated ->
    (l_exp l1 <? now)%Z = false -> (l_exp l2 <? now)%Z = false ->
    l_ip l1 = Some x -> l_ip l2 = Some x -> l_cid l1 = l_cid l2.
Theorem uniq_at_all : forall c h now, Uniq_at now (tbl (fst (run c (init c) h))).
Proof. intros c h now l1 l2 x H1 H2 S1 S2 _ _ I1 I2. apply (uniq_all c h l1 l2 x); auto. Qed.
