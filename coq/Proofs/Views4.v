(* Proofs/Views4.v -- C01 / C02 for the views repaired in /repo by this cluster: ICMP6 router solicitation,
   ICMP4Redirect (address list), LLC, LLDP (TLV access). All full. *)
From PV Require Import Proofs.ViewsBase Proofs.Views3.
Open Scope N_scope.
Ltac valid_len H := unfold lenN in H; injection H as H.
Ltac std_safe2 W := unfold wf in W; unfold getters_ok; each_getter; try c01_fixed; try c01_gen.
Ltac std_spec2 W B L := unfold wf in W; pose proof (view_length _ W) as L; unfold getters_spec; each_spec;
  try (c02_fixed B L; fail); try (c02_fixed B L; by_sweep); try (c02_gen B L; fail).

(* ---------------- ICMP6RouterSolicitation ---------------- *)
Lemma RS_valid_len v : RS_IsValid v = Ok true -> (8 <= len v)%nat.
Proof. unfold RS_IsValid, lenN. destruct (N.of_nat (len v) <? 8) eqn:E; [discriminate|]. intros _. lia. Qed.
Lemma RS_safe v : wf v -> bytes_ok (arr v) -> RS_IsValid v = Ok true -> getters_ok [] RS_getters v.
Proof.
  intros W B H. apply RS_valid_len in H. unfold RS_getters. pose proof W as W'. std_safe2 W.
  intros _. apply ndp_options_at_ok. exact W'.
Qed.

(* ---------------- ICMP4Redirect ---------------- *)
Lemma R4_valid_facts v : R4_IsValid v = Ok true ->
  (8 <= len v)%nat /\ 8 + nth 4 (arr v) 0 * nth 5 (arr v) 0 * 4 <= N.of_nat (len v) /\
  (nth 5 (arr v) 0 = 4 \/ nth 5 (arr v) 0 = 10).
Proof.
  unfold R4_IsValid, orr, lenN. destruct (N.of_nat (len v) <? 8) eqn:E; cbn [bind]; [discriminate|].
  repeat (rewrite idx_ok by lia; cbn [bind]).
  destruct (N.of_nat (len v) <? 8 + nth 4 (arr v) 0 * nth 5 (arr v) 0 * 4) eqn:E2; [discriminate|].
  destruct (negb (nth 0 (arr v) 0 =? 137)); [discriminate|].
  destruct (negb (nth 5 (arr v) 0 =? 4) && negb (nth 5 (arr v) 0 =? 10)) eqn:E3; [discriminate|].
  intros _. lia.
Qed.

Definition r4_entry_m (a : N) (i : nat) : value :=
  VR (8 + i * N.to_nat a * 4) (if a =? 4 then 4 else 16).

Lemma r4_addrs_ok v a : wf v -> (a = 4 \/ a = 10) -> forall cnt i,
  (8 + (i + cnt) * N.to_nat a * 4 <= len v)%nat ->
  r4_addrs v a i cnt = Ok (map (r4_entry_m a) (seq i cnt)).
Proof.
  intros W Ha. unfold wf in W. induction cnt as [|c IH]; intros i Hb; [reflexivity|].
  cbn [r4_addrs seq map]. unfold rsl.
  destruct Ha; subst.
  - change (4 =? 4) with true. cbv iota. rewrite sl_ok by lia. cbn [bind len].
    rewrite IH by lia. cbn [bind]. unfold r4_entry_m at 2. change (4 =? 4) with true. cbv iota.
    repeat f_equal. lia.
  - change (10 =? 4) with false. cbv iota. rewrite sl_ok by lia. cbn [bind len].
    rewrite IH by lia. cbn [bind]. unfold r4_entry_m at 2. change (10 =? 4) with false. cbv iota.
    repeat f_equal. lia.
Qed.

Lemma r4_entries_inside v a i cnt : (a = 4 \/ a = 10) -> (8 + (i + cnt) * N.to_nat a * 4 <= len v)%nat ->
  Forall (range_in v) (ranges (VL (map (r4_entry_m a) (seq i cnt)))).
Proof.
  intros Ha. revert i. induction cnt as [|c IH]; intros i Hb; [constructor|].
  cbn [seq map ranges app]. constructor.
  - unfold range_in. cbn [fst snd]. right. destruct Ha; subst; [change (4 =? 4) with true|change (10 =? 4) with false]; cbv iota; lia.
  - apply IH. lia.
Qed.

Lemma R4_addrs_eq v : wf v -> R4_IsValid v = Ok true ->
  R4_Addrs v = Ok (VL (map (r4_entry_m (nth 5 (arr v) 0)) (seq 0 (N.to_nat (nth 4 (arr v) 0))))).
Proof.
  intros W H. destruct (R4_valid_facts v H) as (H8 & HL & Ha). unfold R4_Addrs.
  rewrite idx_ok by lia. cbn [bind]. destruct (nth 4 (arr v) 0 =? 0) eqn:E.
  - assert (nth 4 (arr v) 0 = 0) as -> by lia. reflexivity.
  - rewrite idx_ok by lia. cbn [bind]. rewrite (r4_addrs_ok v _ W Ha); [reflexivity|]. lia.
Qed.

Lemma R4_safe v : wf v -> bytes_ok (arr v) -> R4_IsValid v = Ok true -> getters_ok [] R4_getters v.
Proof.
  intros W B H. pose proof (R4_addrs_eq v W H) as EA. destruct (R4_valid_facts v H) as (H8 & HL & Ha).
  assert (IN : Forall (range_in v) (ranges (VL (map (r4_entry_m (nth 5 (arr v) 0)) (seq 0 (N.to_nat (nth 4 (arr v) 0))))))).
  { apply r4_entries_inside; [exact Ha|lia]. }
  unfold R4_getters. unfold wf in W. unfold getters_ok. each_getter; try c01_fixed.
  - intros _. unfold getter_ok. rewrite EA. split; [apply safe_Ok | exact IN].
  - (* String *) intros _. unfold getter_ok, R4_String. cbn [calls]. rewrite EA.
    unfold_getter. slices. split; [apply safe_Ok | inside_tac].
Qed.

Lemma R4_spec v : wf v -> bytes_ok (arr v) -> R4_IsValid v = Ok true -> getters_spec [] R4_getters R4_specs v.
Proof.
  intros W B H. pose proof (R4_addrs_eq v W H) as EA. destruct (R4_valid_facts v H) as (H8 & HL & Ha).
  unfold R4_getters, R4_specs. std_spec2 W B L.
  - (* Addrs *) intros _. rewrite EA. cbn beta. norm_bits. view_fields L. pow_lits.
    pose proof (bytes_ok_nth (arr v) 4 B). pose proof (bytes_ok_nth (arr v) 5 B).
    repeat rewrite N.div_1_r. rewrite !N.mod_small by assumption.
    do 2 f_equal. apply map_ext. intros i. unfold r4_entry, r4_entry_m. norm_bits. view_fields L. pow_lits.
    repeat rewrite N.div_1_r. rewrite !N.mod_small by assumption. reflexivity.
  - (* String *) intros _. unfold R4_String. cbn [calls]. rewrite EA. unfold_getter. slices. reflexivity.
Qed.

(* ---------------- LLC ---------------- *)
Lemma land3 : forall b, b < 256 -> N.land b 3 = b mod 4.
Proof. sweep. Qed.
Lemma land1 : forall b, b < 256 -> N.land b 1 = b mod 2.
Proof. sweep. Qed.

Lemma LLC_type_eq v : wf v -> bytes_ok (arr v) -> (3 <= len v)%nat -> LLC_Type_s v = Ok (llc_type (view v)).
Proof.
  intros W B H. unfold wf in W. pose proof (view_length v W) as L.
  unfold LLC_Type_s, andr, llc_type, llc_is_snap, llc_is_u, llc_control. norm_bits. view_fields L. pow_lits.
  slices. pose proof (bytes_ok_nth (arr v) 0 B) as B0. pose proof (bytes_ok_nth (arr v) 1 B) as B1.
  pose proof (bytes_ok_nth (arr v) 2 B) as B2. repeat rewrite N.div_1_r.
  rewrite !N.mod_small by assumption.
  destruct (nth 2 (arr v) 0 =? 3) eqn:E2; cbn [bind andb].
  - slices. destruct (nth 0 (arr v) 0 =? 170) eqn:E0; cbn [bind andb].
    + slices. destruct (nth 1 (arr v) 0 =? 170) eqn:E1; cbn [bind andb]; [reflexivity|].
      slices. rewrite (land3 _ B2). assert (nth 2 (arr v) 0 mod 4 =? 3 = true) as -> by lia. reflexivity.
    + slices. rewrite (land3 _ B2). assert (nth 2 (arr v) 0 mod 4 =? 3 = true) as -> by lia. reflexivity.
  - slices. rewrite (land3 _ B2). destruct (nth 2 (arr v) 0 mod 4 =? 3) eqn:E3; [reflexivity|]. slices.
    rewrite (land1 _ B2). destruct (nth 2 (arr v) 0 mod 2 =? 1); reflexivity.
Qed.

Lemma llc_type_cases l : llc_type l = "snap"%string \/ llc_type l = "u"%string \/ llc_type l = "s"%string \/ llc_type l = "i"%string.
Proof. unfold llc_type. destruct (llc_is_snap l); [auto|]. destruct (llc_is_u l); [auto|]. destruct (_ =? 1); auto. Qed.

Lemma llc_u_or_snap v : wf v -> bytes_ok (arr v) -> (3 <= len v)%nat ->
  (String.eqb (llc_type (view v)) "u" || String.eqb (llc_type (view v)) "snap")%bool = llc_is_u (view v).
Proof.
  intros W B H. unfold wf in W. pose proof (view_length v W) as L.
  unfold llc_type, llc_is_snap, llc_is_u, llc_control. norm_bits. view_fields L. pow_lits. byte_bounds B.
  repeat rewrite N.div_1_r. rewrite !N.mod_small by assumption.
  destruct ((nth 2 (arr v) 0 =? 3) && (nth 0 (arr v) 0 =? 170) && (nth 1 (arr v) 0 =? 170)) eqn:S.
  - cbn. symmetry. lia.
  - destruct (nth 2 (arr v) 0 mod 4 =? 3) eqn:U; [reflexivity|].
    destruct (_ =? 1); reflexivity.
Qed.

Lemma LLC_safe v : wf v -> bytes_ok (arr v) -> LLC_IsValid v = Ok true -> getters_ok [] LLC_getters v.
Proof.
  intros W B H. unfold LLC_IsValid in H. valid_len H. assert (H3 : (3 <= len v)%nat) by lia.
  pose proof (LLC_type_eq v W B H3) as ET. unfold LLC_getters. unfold wf in W. unfold getters_ok. each_getter; try c01_fixed.
  - (* Payload *) intros _. unfold getter_ok, LLC_Payload. rewrite ET. cbn [bind]. unfold rfrom, lenN.
    destruct (_ || _)%bool; [slices; split; [apply safe_Ok | inside_tac]|].
    destruct (N.of_nat (len v) <? 4) eqn:E4; [split; [apply safe_Ok | inside_tac]|].
    slices. split; [apply safe_Ok | inside_tac].
  - (* String *) intros _. unfold getter_ok, LLC_String. cbn [calls]. unfold LLC_Type. rewrite ET.
    unfold_getter. slices. split; [apply safe_Ok | inside_tac].
  - (* Type *) intros _. unfold getter_ok, LLC_Type. rewrite ET. cbn [bind]. split; [apply safe_Ok | inside_tac].
Qed.

Lemma LLC_spec v : wf v -> bytes_ok (arr v) -> LLC_IsValid v = Ok true -> getters_spec [] LLC_getters LLC_specs v.
Proof.
  intros W B H. unfold LLC_IsValid in H. valid_len H. assert (H3 : (3 <= len v)%nat) by lia.
  pose proof (LLC_type_eq v W B H3) as ET. pose proof (llc_u_or_snap v W B H3) as EU.
  unfold LLC_getters, LLC_specs. std_spec2 W B L.
  - (* Payload *) intros _. unfold LLC_Payload. rewrite ET. cbn [bind]. rewrite EU. cbn beta. unfold rfrom, lenN, blen. rewrite L.
    destruct (llc_is_u (view v)); [slices; cbn [len]; reflexivity|].
    destruct (N.of_nat (len v) <? 4) eqn:E4; destruct (Nat.ltb_spec (len v) 4); try lia; [reflexivity|].
    slices. cbn [len]. reflexivity.
  - (* String *) intros _. unfold LLC_String. cbn [calls]. unfold LLC_Type. rewrite ET. unfold_getter. slices. reflexivity.
  - (* Type *) intros _. unfold LLC_Type. rewrite ET. reflexivity.
Qed.

(* ---------------- LLDP ---------------- *)
Lemma bits_type l n : bits l (8 * n) 7 = (field_be l n 1 / 2) mod 128.
Proof.
  unfold bits; cbv zeta.
  replace (8 * n / 8)%nat with n by lia.
  replace ((8 * n + 7 - 1) / 8)%nat with n by lia.
  replace (n - n + 1)%nat with 1%nat by lia.
  replace (8 * 1 - (8 * n - 8 * n) - 7)%nat with 1%nat by lia. reflexivity.
Qed.
Lemma bits_len9 l n : bits l (8 * n + 7) 9 = (field_be l n 2 / 1) mod 512.
Proof.
  unfold bits; cbv zeta.
  replace ((8 * n + 7) / 8)%nat with n by lia.
  replace ((8 * n + 7 + 9 - 1) / 8)%nat with (n + 1)%nat by lia.
  replace (n + 1 - n + 1)%nat with 2%nat by lia.
  replace (8 * 2 - (8 * n + 7 - 8 * n) - 9)%nat with 0%nat by lia. reflexivity.
Qed.

Lemma shr1 : forall b, b < 256 -> N.shiftr b 1 = b / 2.
Proof. sweep. Qed.

Definition vlen_of (x : value) : nat := match x with VR _ k => k | _ => 0%nat end.

Lemma lldp_getTLV_spec v n : wf v -> bytes_ok (arr v) ->
  exists x, lldp_getTLV v n = Ok x /\ tlv_value x = lldp_value (view v) n /\
            tlv_vlen x = vlen_of (lldp_value (view v) n) /\
            (tlv_err x = false -> (n + 2 < len v)%nat) /\
            Forall (range_in v) (ranges (tlv_value x)).
Proof.
  intros W B. unfold wf in W. pose proof (view_length v W) as L.
  unfold lldp_getTLV, lldp_value, lldp_tlv_type, lldp_tlv_len, blen. rewrite L.
  rewrite bits_type, bits_len9.
  destruct (Nat.leb_spec (len v) (n + 2)) as [Hs|Hs].
  - (* no room for a TLV with a value *)
    exists tlv_error. split; [reflexivity|]. unfold tlv_value, tlv_vlen, tlv_error. cbn [tlv_v tlv_err].
    destruct (Nat.ltb_spec (len v) (n + 2)); [repeat split; try constructor; discriminate|].
    assert (len v = n + 2)%nat by lia.
    rewrite field_be_1 by (rewrite L; lia). rewrite field_be_2 by (rewrite L; lia). rewrite !nth_view by lia.
    destruct (_ && _)%bool; [repeat split; try constructor; discriminate|].
    match goal with |- context [Nat.leb ?a ?b] => destruct (Nat.leb_spec a b) end;
      [|repeat split; try constructor; discriminate].
    match goal with H : (n + 2 + ?k <= len v)%nat |- _ => assert (k = 0%nat) as -> by lia end.
    unfold vr. cbn. repeat split; try constructor; discriminate.
  - rewrite field_be_1 by (rewrite L; lia). rewrite field_be_2 by (rewrite L; lia). rewrite !nth_view by lia.
    destruct (Nat.ltb_spec (len v) (n + 2)); [lia|].
    repeat (rewrite idx_ok by lia; cbn [bind]).
    pose proof (bytes_ok_nth (arr v) n B) as B0. pose proof (bytes_ok_nth (arr v) (n + 1) B) as B1.
    rewrite (shr1 _ B0), (land1 _ B0), N.shiftl_mul_pow2. change (2 ^ 8) with 256.
    replace ((nth n (arr v) 0 / 2) mod 128) with (nth n (arr v) 0 / 2) by lia.
    replace (((nth n (arr v) 0 * 256 + nth (n + 1) (arr v) 0) / 1) mod 512)
      with (nth n (arr v) 0 mod 2 * 256 + nth (n + 1) (arr v) 0) by lia.
    set (t := nth n (arr v) 0 / 2). set (l := nth n (arr v) 0 mod 2 * 256 + nth (n + 1) (arr v) 0).
    destruct ((t =? 0) && (l =? 0))%bool eqn:E.
    + replace (Nat.eqb (N.to_nat l) 0) with true by lia. assert (t =? 0 = true) as -> by lia. cbn [andb].
      eexists. split; [reflexivity|]. unfold tlv_value, tlv_vlen. cbn [tlv_v tlv_err].
      repeat split; try constructor; try lia.
    + assert (((t =? 0) && Nat.eqb (N.to_nat l) 0)%bool = false) as -> by lia.
      destruct (Nat.leb_spec (n + 2 + N.to_nat l) (len v)).
      * rewrite sl_ok by lia. cbn [bind len].
        eexists. split; [reflexivity|]. unfold tlv_value, tlv_vlen. cbn [tlv_v tlv_err].
        replace (n + 2 + N.to_nat l - (n + 2))%nat with (N.to_nat l) by lia.
        split; [reflexivity|]. split.
        -- unfold vr. destruct (Nat.eqb_spec (N.to_nat l) 0) as [Z|Z]; [rewrite Z|]; reflexivity.
        -- split; [intros _; lia|]. unfold vr. destruct (Nat.eqb (N.to_nat l) 0); [constructor|].
           cbn [ranges]. constructor; [|constructor]. unfold range_in. cbn [fst snd]. lia.
      * exists tlv_error. split; [reflexivity|]. unfold tlv_value, tlv_vlen, tlv_error. cbn [tlv_v tlv_err].
        repeat split; try constructor; discriminate.
Qed.

Lemma lldp_walk_ok v : wf v -> bytes_ok (arr v) -> forall fuel pos, (len v - pos < fuel)%nat -> (0 < fuel)%nat ->
  lldp_walk fuel v pos = Ok VU.
Proof.
  intros W B. induction fuel as [|f IH]; intros pos Hf H0; [lia|].
  cbn [lldp_walk]. destruct (lldp_getTLV_spec v pos W B) as (x & E & _ & _ & Herr & _). rewrite E. cbn [bind].
  destruct (tlv_err x) eqn:Ee; [reflexivity|]. destruct (tlv_t x =? 0); [reflexivity|].
  specialize (Herr eq_refl). apply IH; lia.
Qed.

Lemma LLDP_chassis v : wf v -> bytes_ok (arr v) ->
  LLDP_ChassisID v = Ok (lldp_value (view v) 0) /\ Forall (range_in v) (ranges (lldp_value (view v) 0)).
Proof.
  intros W B. unfold LLDP_ChassisID. destruct (lldp_getTLV_spec v 0 W B) as (x & E & Ev & _ & _ & Hin).
  rewrite E. cbn [bind]. rewrite <- Ev. split; [reflexivity|exact Hin].
Qed.

Lemma lldp_next_0 l : lldp_next l 0 = (vlen_of (lldp_value l 0) + 2)%nat.
Proof. unfold lldp_next, vlen_of. destruct (lldp_value l 0); lia. Qed.

Lemma LLDP_port v : wf v -> bytes_ok (arr v) ->
  LLDP_PortID v = Ok (lldp_value (view v) (lldp_next (view v) 0)) /\
  Forall (range_in v) (ranges (lldp_value (view v) (lldp_next (view v) 0))).
Proof.
  intros W B. unfold LLDP_PortID. destruct (lldp_getTLV_spec v 0 W B) as (c & E & _ & Ec & _ & _).
  rewrite E. cbn [bind]. rewrite lldp_next_0, <- Ec.
  destruct (lldp_getTLV_spec v (tlv_vlen c + 2) W B) as (x & E2 & Ev & _ & _ & Hin).
  rewrite E2. cbn [bind]. rewrite <- Ev. split; [reflexivity|exact Hin].
Qed.

Lemma LLDP_safe v : wf v -> bytes_ok (arr v) -> LLDP_IsValid v = Ok true -> getters_ok [] LLDP_getters v.
Proof.
  intros W B _. unfold LLDP_getters, getters_ok. each_getter; intros _; unfold getter_ok.
  - destruct (LLDP_chassis v W B) as [E I]. rewrite E. split; [apply safe_Ok|exact I].
  - destruct (LLDP_port v W B) as [E I]. rewrite E. split; [apply safe_Ok|exact I].
  - unfold LLDP_String. rewrite (lldp_walk_ok v W B) by lia. split; [apply safe_Ok|constructor].
Qed.

Lemma LLDP_spec v : wf v -> bytes_ok (arr v) -> LLDP_IsValid v = Ok true -> getters_spec [] LLDP_getters LLDP_specs v.
Proof.
  intros W B _. unfold LLDP_getters, LLDP_specs, getters_spec. each_spec; intros _.
  - apply (LLDP_chassis v W B).
  - apply (LLDP_port v W B).
  - unfold LLDP_String. rewrite (lldp_walk_ok v W B) by lia. reflexivity.
Qed.

(* non-vacuity of the repaired views *)
Definition ex_lldp : slice := of_bytes [2;7;4;0;1;2;3;4;5; 4;3;5;49;50; 6;2;0;120; 0;0].
Example LLDP_valid_ex : wf ex_lldp /\ bytes_ok (arr ex_lldp) /\ LLDP_IsValid ex_lldp = Ok true /\
  LLDP_ChassisID ex_lldp = Ok (VR 2 7) /\ LLDP_PortID ex_lldp = Ok (VR 11 3).
Proof. repeat split; first [ apply bytes_okb_spec; vm_compute; reflexivity | vm_compute; reflexivity | vm_compute; lia ]. Qed.
Definition ex_rs : slice := of_bytes [133;0;0;0; 0;0;0;0; 1;1;2;0;0;0;0;1].
Example RS_valid_ex : wf ex_rs /\ bytes_ok (arr ex_rs) /\ RS_IsValid ex_rs = Ok true /\
  RS_SourceLLA ex_rs = Ok (VR 10 6) /\
  RS_Options ex_rs = Ok (ndp_show (mkSt 0 [] 0 [] [2;0;0;0;0;1] [] 0 [] (0, 0, 0, []))).
Proof. repeat split; first [ apply bytes_okb_spec; vm_compute; reflexivity | vm_compute; reflexivity | vm_compute; lia ]. Qed.
Definition ex_llc : slice := of_bytes [66;66;0].
Example LLC_valid_ex : wf ex_llc /\ bytes_ok (arr ex_llc) /\ LLC_IsValid ex_llc = Ok true /\ LLC_Payload ex_llc = Ok VNil.
Proof. repeat split; first [ apply bytes_okb_spec; vm_compute; reflexivity | vm_compute; reflexivity | vm_compute; lia ]. Qed.
Definition ex_r4 : slice := of_bytes [137;0;0;0; 2;4;0;30; 10;0;0;1; 0;0;0;1; 1;1;1;1; 2;2;2;2; 10;0;0;2; 0;0;0;2; 3;3;3;3; 4;4;4;4].
Example R4_valid_ex : wf ex_r4 /\ bytes_ok (arr ex_r4) /\ R4_IsValid ex_r4 = Ok true /\
  R4_Addrs ex_r4 = Ok (VL [VR 8 4; VR 24 4]).
Proof. repeat split; first [ apply bytes_okb_spec; vm_compute; reflexivity | vm_compute; reflexivity | vm_compute; lia ]. Qed.

(* ---- round 7: LLDP.GetPDU(t), the TLV accessor with an argument: safe and inside for every requested type ---- *)
Lemma lldp_get_pdu_ok v ty : wf v -> bytes_ok (arr v) -> forall fuel pos, (len v - pos < fuel)%nat -> (0 < fuel)%nat ->
  exists x, lldp_get_pdu fuel v ty pos = Ok x /\ Forall (range_in v) (ranges x).
Proof.
  intros W B. induction fuel as [|f IH]; intros pos Hf H0; [lia|].
  cbn [lldp_get_pdu]. destruct (lldp_getTLV_spec v pos W B) as (x & E & _ & _ & Herr & Hin). rewrite E. cbn [bind].
  destruct (tlv_err x) eqn:Ee; [exists VNil; split; [reflexivity|constructor]|].
  destruct ((tlv_t x =? ty) || (tlv_t x =? 0))%bool; [exists (tlv_value x); split; [reflexivity|exact Hin]|].
  specialize (Herr eq_refl). apply IH; lia.
Qed.

Lemma LLDP_GetPDU_safe ty v : wf v -> bytes_ok (arr v) -> getter_ok v (LLDP_GetPDU ty).
Proof.
  intros W B. unfold getter_ok, LLDP_GetPDU. destruct (lldp_get_pdu_ok v ty W B (S (len v)) 0) as (x & E & I); try lia.
  rewrite E. split; [apply safe_Ok|exact I].
Qed.

(* GetPDU of the type of the first TLV is ChassisID's value *)
Lemma LLDP_GetPDU_first v : wf v -> bytes_ok (arr v) -> (2 < len v)%nat ->
  forall x, lldp_getTLV v 0 = Ok x -> tlv_err x = false -> LLDP_GetPDU (tlv_t x) v = LLDP_ChassisID v.
Proof.
  intros W B H x E Ee. unfold LLDP_GetPDU, LLDP_ChassisID. cbn [lldp_get_pdu]. rewrite E. cbn [bind]. rewrite Ee.
  rewrite N.eqb_refl. reflexivity.
Qed.

Example LLDP_GetPDU_ex : LLDP_GetPDU 3 ex_lldp = Ok (VR 16 2) /\ LLDP_GetPDU 9 ex_lldp = Ok VNil /\ LLDP_GetPDU 2 ex_lldp = Ok (VR 11 3).
Proof. repeat split; vm_compute; reflexivity. Qed.

(* ---- round 7: the API census lists (Model/ViewsDispatch.vt_api) are consistent with the getter tables:
   the zero-argument entries are IsValid and exactly the getter names, in the same order ---- *)
From PV Require Import Model.ViewsDispatch.
Definition zero_arity (s : string) : option string :=
  let n := String.length s in
  if String.eqb (substring (n - 2) 2 s) "/0" then Some (substring 0 (n - 2) s) else None.
Fixpoint zero_names (l : list string) : list string :=
  match l with
  | [] => []
  | s :: r => match zero_arity s with
              | Some n => if String.eqb n "IsValid" then zero_names r else n :: zero_names r
              | None => zero_names r
              end
  end.
Fixpoint list_eqb (a b : list string) : bool :=
  match a, b with [], [] => true | x :: a', y :: b' => String.eqb x y && list_eqb a' b' | _, _ => false end.
Definition api_ok (t : vtype) : bool :=
  list_eqb (zero_names (vt_api t)) (map fst (vt_getters t)) && existsb (String.eqb "IsValid/0") (vt_api t) &&
  list_eqb (map fst (vt_getters t)) (map fst (vt_specs t)).
Example api_consistent : forallb api_ok vtypes = true.
Proof. vm_compute. reflexivity. Qed.

(* ---- round 7b ---- *)
(* decoders are read-only and idempotent: a call leaves the store as it was, and calling again gives the same *)
Lemma getters_read_only (g : getter) (s : slice) :
  snd (getter_step g s) = s /\ getter_step g (snd (getter_step g s)) = getter_step g s.
Proof. split; reflexivity. Qed.
Lemma valid_read_only (iv : slice -> res bool) (s : slice) :
  snd (valid_step iv s) = s /\ valid_step iv (snd (valid_step iv s)) = valid_step iv s.
Proof. split; reflexivity. Qed.

(* LLDP.Type(t) = the 802.1AB TLV type table, any other type as its number *)
Fixpoint lookupN (k : N) (t : list (N * string)) : option string :=
  match t with [] => None | (k', v) :: r => if N.eqb k k' then Some v else lookupN k r end.
Lemma LLDP_Type_spec t : LLDP_Type_name t = match lookupN t lldp_type_table with Some s => s | None => dec_of_N t end.
Proof.
  unfold LLDP_Type_name, lldp_type_table. cbn [lookupN].
  repeat match goal with |- context [N.eqb t ?k] => destruct (N.eqb t k) end; reflexivity.
Qed.

(* LLDP.Capability (repaired bf5afdb) = 802.1AB table 8-4 for every value *)
Lemma sweep256s (f g : N -> string) :
  forallb (fun b => String.eqb (f b) (g b)) bytes256 = true -> forall b, b < 256 -> f b = g b.
Proof.
  intros H b Hb. rewrite forallb_forall in H. specialize (H b (in_bytes256 b Hb)). apply String.eqb_eq. exact H.
Qed.
Lemma LLDP_Capability_long a r : forall b, b < 256 ->
  LLDP_Capability_s (a :: b :: r) = lldp_capability_spec (a :: b :: r).
Proof. apply (sweep256s (fun b => LLDP_Capability_s (a :: b :: r)) (fun b => lldp_capability_spec (a :: b :: r))). vm_compute. reflexivity. Qed.
Lemma LLDP_Capability_spec v : bytes_ok v -> LLDP_Capability_s v = lldp_capability_spec v.
Proof.
  intros B. destruct v as [|a [|b r]]; try reflexivity. apply LLDP_Capability_long. apply (bytes_ok_nth (a :: b :: r) 1 B).
Qed.
Example LLDP_Capability_ex :
  LLDP_Capability_s [0; 16] = "router"%string /\ LLDP_Capability_s [0; 20] = "bridge,router"%string /\ LLDP_Capability_s [7] = ""%string.
Proof. repeat split; vm_compute; reflexivity. Qed.
