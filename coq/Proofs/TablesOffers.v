(* Proofs/TablesOffers.v — C06: the DHCP offer recorded on a MAC entry lives exactly as long as the MAC owns a host.
   [eoffer s m]: the offer the DHCP path of Notify would read for m; [hadb s m]: m owns an indexed host. *)
From PV Require Import Base.Prelude Model.Tables Spec.HostTrackingInv Spec.HostTracking Spec.HostTrackingNotif
  Proofs.Tables Proofs.TablesRefine.
Open Scope N_scope.

Definition eoffer (s : state) (m : mac) : ip :=
  match find_mac m (macs s) with Some e => m_offer e | None => IPnone end.

Definition hadb (s : state) (m : mac) : bool := existsb (fun e => h_mac (snd e) =? m) (hosts s).

Lemma eoffer_ext s s' : macs s' = macs s -> forall m, eoffer s' m = eoffer s m.
Proof. intros E m. unfold eoffer. rewrite E. reflexivity. Qed.

Lemma hadb_ext s s' : hosts s' = hosts s -> forall m, hadb s' m = hadb s m.
Proof. intros E m. unfold hadb. rewrite E. reflexivity. Qed.

Lemma hadb_true s m : hadb s m = true <-> exists k h, In (k, h) (hosts s) /\ h_mac h = m.
Proof.
  unfold hadb. rewrite existsb_exists. split.
  - intros ([k h] & I & E). simpl in E. apply N.eqb_eq in E. eauto.
  - intros (k & h & I & E). exists (k, h). split; auto. simpl. apply N.eqb_eq. exact E.
Qed.

Lemma existsb_exists_map' {A B} (g : A -> B) (P : B -> bool) (l : list A) :
  existsb P (map g l) = existsb (fun a => P (g a)) l.
Proof. induction l as [|a r IH]; simpl; auto. rewrite IH. reflexivity. Qed.

(* ---- flag-only updates ---- *)
Lemma eoffer_upd_mac m f s m' : (forall e, m_mac (f e) = m_mac e) -> (forall e, m_offer (f e) = m_offer e) ->
  eoffer (upd_mac m f s) m' = eoffer s m'.
Proof.
  intros K1 K2. unfold eoffer, upd_mac. cbn [macs set_macs]. rewrite find_mac_mupd by exact K1.
  destruct (m =? m'); auto. destruct (find_mac m' (macs s)); simpl; auto.
Qed.

Lemma hadb_upd_host k f s m : keeps f -> hadb (upd_host k f s) m = hadb s m.
Proof.
  intros K. unfold hadb, upd_host, hupd. cbn [hosts set_hosts]. rewrite existsb_exists_map'.
  induction (hosts s) as [|[k0 h0] r IH]; simpl; auto. rewrite IH.
  destruct (ip_eqb k0 k); simpl; auto. destruct (K h0) as [_ E]. rewrite E. reflexivity.
Qed.

(* ---- "nothing about offers or ownership changes" ---- *)
Definition Same (s s' : state) : Prop := (forall m, eoffer s' m = eoffer s m) /\ (forall m, hadb s' m = hadb s m).

Lemma Same_refl s : Same s s.
Proof. split; reflexivity. Qed.
Lemma Same_trans s1 s2 s3 : Same s1 s2 -> Same s2 s3 -> Same s1 s3.
Proof. intros [A B] [C D]. split; intros m; [rewrite C, A|rewrite D, B]; reflexivity. Qed.
Lemma Same_ext s s' : hosts s' = hosts s -> macs s' = macs s -> Same s s'.
Proof. intros H M. split; intros m; [apply eoffer_ext|apply hadb_ext]; auto. Qed.
Lemma Same_upd_host k f s : keeps f -> Same s (upd_host k f s).
Proof. intros K. split; intros m; [apply eoffer_ext; reflexivity|apply hadb_upd_host; exact K]. Qed.
Lemma Same_upd_mac m f s : (forall e, m_mac (f e) = m_mac e) -> (forall e, m_offer (f e) = m_offer e) -> Same s (upd_mac m f s).
Proof. intros K1 K2. split; intros m'; [apply eoffer_upd_mac; auto|apply hadb_ext; reflexivity]. Qed.
Lemma Same_fold {A} (g : state -> A -> state) l : (forall s a, Same s (g s a)) -> forall s, Same s (fold_left g l s).
Proof.
  intros G. induction l as [|a r IH]; simpl; intros s; [apply Same_refl|].
  eapply Same_trans; [apply G|apply IH].
Qed.

Ltac same_mac := apply Same_upd_mac; reflexivity.
Ltac same_host := apply Same_upd_host; first [intros ?; split; reflexivity | apply supersede_keeps].

Lemma online_transition_Same k s : Same s (online_transition k s).
Proof.
  unfold online_transition. destruct (hlookup k (hosts s)) as [h|]; [|apply Same_refl].
  destruct (h_online h); [apply Same_refl|].
  set (s2 := upd_host k (fun x => set_dirty true (set_online true x)) (upd_mac (h_mac h) (set_monline true) s)).
  assert (H2 : Same s s2) by (apply Same_trans with (upd_mac (h_mac h) (set_monline true) s); [same_mac|same_host]).
  destruct (find_mac (h_mac h) (macs s2)) as [e2|]; auto.
  destruct (is4 (h_ip h)).
  - destruct (negb (ip_eqb (h_ip h) (m_ip4 e2))); auto.
    eapply Same_trans; [exact H2|]. apply Same_trans with (upd_mac (h_mac h) (set_mip4 (h_ip h)) s2); [same_mac|].
    apply Same_fold.
    intros st v. destruct (is4 v && negb (ip_eqb v (h_ip h))); [same_host|apply Same_refl].
  - eapply Same_trans; [exact H2|].
    set (s3 := if is_gua (h_ip h) && negb (ip_eqb (h_ip h) (m_gua e2)) then upd_mac (h_mac h) (set_mgua (h_ip h)) s2 else s2).
    assert (H3 : Same s2 s3) by (unfold s3; destruct (is_gua (h_ip h) && negb (ip_eqb (h_ip h) (m_gua e2))); [same_mac|apply Same_refl]).
    eapply Same_trans; [exact H3|].
    destruct (is_llu (h_ip h) && negb (ip_eqb (h_ip h) (m_lla e2))); [same_mac|apply Same_refl].
Qed.

Lemma send_Same n s : Same s (send n s).
Proof. unfold send. destruct (Nat.ltb _ _); [apply Same_ext; reflexivity|apply Same_refl]. Qed.

Lemma make_offline_Same k s : Same s (make_offline k s).
Proof.
  unfold make_offline. destruct (hlookup k (hosts s)) as [h0|]; [|apply Same_refl].
  match goal with |- Same s (if _ then send ?n ?x else ?y) =>
    match x with upd_mac ?mm ?ff ?y => assert (HX : Same s x) by (apply Same_trans with y; [same_host|same_mac]) end end.
  destruct (Nat.ltb _ _); auto. eapply Same_trans; [exact HX|apply send_Same].
Qed.

Lemma notify_host_Same k fl s : Same s (notify_host k fl s).
Proof.
  unfold notify_host. destruct (hlookup k (hosts s)) as [h|]; [|apply Same_refl]. destruct (negb (h_dirty h)); [apply Same_refl|].
  match goal with |- context [fold_left ?g ?l s] => set (s1 := fold_left g l s) end.
  assert (H1 : Same s s1) by (apply Same_fold; intros; apply make_offline_Same).
  destruct (hlookup k (hosts s1)); auto.
  eapply Same_trans; [exact H1|]. apply Same_trans with (upd_host k (set_dirty false) s1); [same_host|apply send_Same].
Qed.

Lemma notify_Same fr s : Same s (notify fr s).
Proof.
  unfold notify. destruct (fr_host fr); [apply notify_host_Same|].
  destruct (negb (fr_dhcp4 fr)); [apply Same_refl|]. destruct (negb (is_valid _)); [apply Same_refl|].
  destruct (hlookup _ (hosts s)); [apply notify_host_Same|apply Same_refl].
Qed.

Lemma update_name_Same kd k name s : Same s (update_name kd k name s).
Proof.
  unfold update_name. destruct (hlookup k (hosts s)); [|apply Same_refl].
  destruct (merge _ _) as [nm [|]]; [|apply Same_refl].
  match goal with |- Same s (upd_mac ?mm ?ff (upd_host ?kk ?gg s)) =>
    apply Same_trans with (upd_host kk gg s); [same_host|same_mac] end.
Qed.

(* ---- structural primitives ---- *)
Lemma mfoc_Same m s : Same s (mac_find_or_create m s).
Proof.
  split; [|intros m'; apply hadb_ext; apply mfoc_hosts].
  intros m'. unfold eoffer, mac_find_or_create. destruct (find_mac m (macs s)) eqn:F; auto.
  cbn [macs set_macs]. rewrite find_mac_app. destruct (find_mac m' (macs s)); auto.
  simpl. destruct (m =? m') eqn:E; reflexivity.
Qed.

Lemma hadb_cons k h l m : existsb (fun e : ip * host => h_mac (snd e) =? m) ((k, h) :: l) = (h_mac h =? m) || existsb (fun e => h_mac (snd e) =? m) l.
Proof. reflexivity. Qed.

Lemma create_host_offers m k now s : hlookup k (hosts s) = None ->
  (forall m', eoffer (create_host m k now s) m' = eoffer s m') /\
  (forall m', hadb (create_host m k now s) m' = (m =? m') || hadb s m').
Proof.
  intros L. unfold create_host. destruct (mfoc_Same m s) as [A B].
  split; intros m'.
  - rewrite eoffer_upd_mac by reflexivity. rewrite <- (A m'). apply eoffer_ext. reflexivity.
  - unfold hadb, upd_mac, hput. cbn [hosts set_macs set_hosts]. rewrite mfoc_hosts, (hdel_absent _ _ L). reflexivity.
Qed.

Lemma existsb_hdel (P : ip * host -> bool) k l :
  (forall h, In (k, h) l -> P (k, h) = false) -> existsb P (hdel k l) = existsb P l.
Proof.
  intros H. induction l as [|[k0 h0] r IH]; simpl; auto.
  destruct (ip_eqb k0 k) eqn:E; simpl.
  - apply ip_eqb_eq in E. subst k0. rewrite (H h0) by (simpl; auto). simpl. apply IH. intros h I. apply H. simpl. auto.
  - rewrite IH; auto. intros h I. apply H. simpl. auto.
Qed.

Lemma existsb_hdel_mono (P : ip * host -> bool) k l : existsb P (hdel k l) = true -> existsb P l = true.
Proof.
  intros H. apply existsb_exists in H. destruct H as (x & I & Px). unfold hdel in I. apply filter_In in I.
  apply existsb_exists. exists x. tauto.
Qed.

(* deleting a host: the MAC entry (and its offer) goes exactly when the MAC owned a host and owns none any more *)
Lemma delete_host_offers k s : InvP s ->
  forall m, eoffer (delete_host k s) m = if hadb s m && negb (hadb (delete_host k s) m) then IPnone else eoffer s m.
Proof.
  intros I m. pose proof (delete_host_InvP k s I) as IF.
  assert (HH : hadb (delete_host k s) m = existsb (fun e => h_mac (snd e) =? m) (hdel k (hosts s))).
  { unfold hadb. rewrite delete_host_hosts. reflexivity. }
  destruct (hlookup k (hosts s)) as [h|] eqn:L.
  2:{ assert (E : delete_host k s = s) by (unfold delete_host; rewrite L; reflexivity). rewrite E.
      destruct (hadb s m); reflexivity. }
  destruct (InvS_host _ _ _ (proj1 I) L) as (Hip & e & F & Ik). pose proof I as [(_ & NK & NM) _].
  (* hosts of other MACs are untouched *)
  assert (OTHER : h_mac h <> m -> hadb (delete_host k s) m = hadb s m).
  { intros N. rewrite HH. unfold hadb. apply existsb_hdel. intros h' I'.
    rewrite (In_hlookup _ _ _ NK I') in L. inversion L; subst. simpl. apply N.eqb_neq. exact N. }
  set (hb := hadb (delete_host k s) m) in *.
  unfold eoffer at 1. unfold delete_host. rewrite L. rewrite (proj2 (clear_lastf_hosts _ _)). rewrite Hip.
  set (f := fun e0 => set_mhosts (remove_first k (m_hosts e0)) e0).
  set (s2 := set_hosts (hdel k (hosts (upd_mac (h_mac h) f s))) (upd_mac (h_mac h) f s)).
  assert (E2 : forall m', match find_mac m' (macs s2) with Some e0 => m_offer e0 | None => IPnone end = eoffer s m').
  { intros m'. unfold s2. cbn [macs set_hosts]. apply (eoffer_upd_mac (h_mac h) f s m'); reflexivity. }
  assert (NM2 : NoDup (map m_mac (macs s2))) by (unfold s2; cbn [macs set_hosts upd_mac set_macs]; rewrite mupd_macs by reflexivity; exact NM).
  assert (FIN : delete_host k s = clear_lastf k (match mac_hosts (h_mac h) s2 with [] => set_macs (mdel (h_mac h) (macs s2)) s2 | _ => s2 end)).
  { unfold delete_host. rewrite L, Hip. reflexivity. }
  destruct (mac_hosts (h_mac h) s2) as [|x r] eqn:MH.
  - (* the entry is removed *)
    cbn [macs set_macs]. rewrite (find_mac_mdel _ _ _ NM2).
    destruct (h_mac h =? m) eqn:EM.
    + ipeq. subst m.
      assert (H1 : hadb s (h_mac h) = true) by (apply hadb_true; exists k, h; split; [apply hlookup_In; exact L|reflexivity]).
      assert (H2 : hb = false).
      { unfold hb. destruct (hadb (delete_host k s) (h_mac h)) eqn:HB; auto. exfalso. apply hadb_true in HB.
        destruct HB as (x & hx & Ix & Mx). pose proof IF as [(_ & NKF & _) _].
        pose proof (In_hlookup _ _ _ NKF Ix) as Lx. destruct (InvS_host _ _ _ (proj1 IF) Lx) as (_ & ex & Fx & _).
        rewrite Mx in Fx. rewrite FIN in Fx. rewrite (proj2 (clear_lastf_hosts _ _)) in Fx. cbn [macs set_macs] in Fx.
        rewrite (find_mac_mdel _ _ _ NM2), N.eqb_refl in Fx. discriminate. }
      rewrite H1, H2. reflexivity.
    + ipeq. rewrite (OTHER EM). rewrite andb_negb_r. apply E2.
  - (* the entry stays: the MAC still owns a host *)
    rewrite E2. destruct (h_mac h =? m) eqn:EM.
    + ipeq. subst m.
      assert (H2 : hb = true).
      { unfold hb. apply hadb_true. assert (FS : delete_host k s = clear_lastf k s2) by (rewrite FIN; reflexivity).
        assert (MHF : mac_hosts (h_mac h) (delete_host k s) = x :: r).
        { unfold mac_hosts. rewrite FS, (proj2 (clear_lastf_hosts _ _)). exact MH. }
        unfold mac_hosts in MHF. destruct (find_mac (h_mac h) (macs (delete_host k s))) as [ef|] eqn:FF; [|discriminate].
        destruct (InvS_listed _ _ _ x (proj1 IF) FF) as (hx & Lx & Mx & _); [rewrite MHF; simpl; auto|].
        exists x, hx. split; [apply hlookup_In; exact Lx|exact Mx]. }
      rewrite H2. rewrite andb_false_r. reflexivity.
    + ipeq. rewrite (OTHER EM). rewrite andb_negb_r. reflexivity.
Qed.

Lemma delete_host_hadb_mono k s m : hadb (delete_host k s) m = true -> hadb s m = true.
Proof. unfold hadb. rewrite delete_host_hosts. apply existsb_hdel_mono. Qed.

(* a sequence of deletions *)
Lemma fold_delete_offers (l : list host) : forall s, InvP s ->
  let s' := fold_left (fun st h => delete_host (h_ip h) st) l s in
  (forall m, eoffer s' m = if hadb s m && negb (hadb s' m) then IPnone else eoffer s m) /\
  (forall m, hadb s' m = true -> hadb s m = true).
Proof.
  induction l as [|h r IH]; cbn zeta; simpl; intros s I.
  - split; auto. intros m. destruct (hadb s m); reflexivity.
  - destruct (IH (delete_host (h_ip h) s) (delete_host_InvP _ _ I)) as (A & B). cbn zeta in A, B.
    set (s1 := delete_host (h_ip h) s) in *. set (s' := fold_left (fun st h0 => delete_host (h_ip h0) st) r s1) in *.
    split.
    + intros m. rewrite A. unfold s1 at 2. rewrite (delete_host_offers (h_ip h) s I m). fold s1.
      destruct (hadb s' m) eqn:H'.
      * pose proof (B m H') as H1. pose proof (delete_host_hadb_mono _ _ _ H1) as H0.
        rewrite H1, H0. reflexivity.
      * cbn [negb]. rewrite !andb_true_r. destruct (hadb s1 m) eqn:H1.
        -- rewrite (delete_host_hadb_mono _ _ _ H1). reflexivity.
        -- destruct (hadb s m); reflexivity.
    + intros m H'. apply (delete_host_hadb_mono (h_ip h)). apply B. exact H'.
Qed.

(* ---- the link with the reference's formulas ---- *)
Lemma has_addr_hadb s a dom m :
  NoDup (map fst (hosts s)) -> (forall x, abs s x = a x) -> (forall x, a x <> None -> In x dom) ->
  has_addr a dom m = hadb s m.
Proof.
  intros NK AB SUP. unfold has_addr.
  destruct (hadb s m) eqn:H.
  - apply hadb_true in H. destruct H as (k & h & I & M). apply existsb_exists. exists k.
    assert (A : a k = Some (aof h)) by (rewrite <- AB; unfold abs; rewrite (In_hlookup _ _ _ NK I); reflexivity).
    split; [apply SUP; congruence|]. unfold owns. rewrite A. simpl. apply N.eqb_eq. exact M.
  - destruct (existsb (owns a m) dom) eqn:E; auto. exfalso. apply existsb_exists in E. destruct E as (x & _ & O).
    unfold owns in O. rewrite <- AB in O. unfold abs in O. destruct (hlookup x (hosts s)) as [h|] eqn:L; [|discriminate].
    simpl in O. apply N.eqb_eq in O.
    assert (T : hadb s m = true) by (apply hadb_true; exists x, h; split; [apply hlookup_In; exact L|exact O]). congruence.
Qed.

Lemma delete_host_hadb_other k s h m : InvP s -> hlookup k (hosts s) = Some h -> h_mac h <> m ->
  hadb (delete_host k s) m = hadb s m.
Proof.
  intros I L N. pose proof I as [(_ & NK & _) _]. unfold hadb. rewrite delete_host_hosts. apply existsb_hdel.
  intros h' I'. rewrite (In_hlookup _ _ _ NK I') in L. inversion L; subst. simpl. apply N.eqb_neq. exact N.
Qed.

(* findOrCreateHostWithLock *)
Lemma foc_offers m k now s s' b : InvP s -> find_or_create m k now s = Ok (s', b) ->
  forall m', eoffer s' m' = if hadb s m' && negb (hadb s' m') then IPnone else eoffer s m'.
Proof.
  intros I F m'. unfold find_or_create in F. destruct (hlookup k (hosts s)) as [h|] eqn:L.
  - destruct (h_mac h =? m) eqn:EM.
    + inversion F; subst. destruct (Same_upd_host k (set_last now) s) as [A B]; [intros ?; split; reflexivity|].
      rewrite A, B. destruct (hadb s m'); reflexivity.
    + destruct (print_table s); simpl in F; try discriminate. inversion F; subst. clear F.
      assert (LD : hlookup k (hosts (delete_host k s)) = None) by (rewrite delete_host_hosts, hlookup_hdel, ip_eqb_refl; reflexivity).
      destruct (create_host_offers m k now (delete_host k s) LD) as [A B]. rewrite A, B.
      rewrite (delete_host_offers k s I m').
      destruct (m =? m') eqn:E; cbn [orb negb]; [|reflexivity].
      ipeq. subst m'. rewrite (delete_host_hadb_other k s h m I L EM). rewrite andb_false_r.
      destruct (hadb s m); reflexivity.
  - inversion F; subst. destruct (create_host_offers m k now s L) as [A B]. rewrite A, B.
    destruct (hadb s m'); [rewrite orb_true_r|]; reflexivity.
Qed.

(* the reference's offer-lifetime rule, once ownership before and after is known *)
Lemma offers_link s s' (a a' : amap) dom off :
  NoDup (map fst (hosts s)) -> NoDup (map fst (hosts s')) ->
  (forall x, abs s x = a x) -> (forall x, abs s' x = a' x) ->
  (forall x, a x <> None -> In x dom) -> (forall x, a' x <> None -> In x dom) ->
  (forall m, eoffer s m = off m) ->
  (forall m, eoffer s' m = if hadb s m && negb (hadb s' m) then IPnone else eoffer s m) ->
  forall m, eoffer s' m = offers_after a a' dom off m.
Proof.
  intros N1 N2 A1 A2 S1 S2 O E m. rewrite E. unfold offers_after.
  rewrite (has_addr_hadb s a dom m N1 A1 S1), (has_addr_hadb s' a' dom m N2 A2 S2), O. reflexivity.
Qed.

Lemma eoffer_set_moffer m k s m' :
  eoffer (upd_mac m (set_moffer k) s) m' =
  if m' =? m then match find_mac m (macs s) with Some _ => k | None => IPnone end else eoffer s m'.
Proof.
  unfold eoffer, upd_mac. cbn [macs set_macs]. rewrite find_mac_mupd by reflexivity. rewrite (N.eqb_sym m' m).
  destruct (m =? m') eqn:E; auto. ipeq. subst m'. destruct (find_mac m (macs s)); reflexivity.
Qed.

Lemma eoffer_upd_mac_gen m f s m' : (forall e, m_mac (f e) = m_mac e) ->
  eoffer (upd_mac m f s) m' =
  if m' =? m then match find_mac m (macs s) with Some e => m_offer (f e) | None => IPnone end else eoffer s m'.
Proof.
  intros K. unfold eoffer, upd_mac. cbn [macs set_macs]. rewrite find_mac_mupd by exact K. rewrite (N.eqb_sym m' m).
  destruct (m =? m') eqn:E; auto. ipeq. subst m'. destruct (find_mac m (macs s)); reflexivity.
Qed.

Lemma sight_support m k now a dom x : (forall y, a y <> None -> In y dom) -> sight m k now a x <> None -> In x (add_ip k dom).
Proof.
  intros S H. unfold add_ip. destruct (ip_eqb x k) eqn:E.
  - ipeq. subst x. destruct (existsb (ip_eqb k) dom) eqn:EX; [|simpl; auto].
    apply existsb_exists in EX. destruct EX as (y & I & Ey). ipeq. subst y. exact I.
  - assert (A : a x <> None).
    { intros Z. apply H. unfold sight. rewrite E, Z. reflexivity. }
    destruct (existsb (ip_eqb k) dom); [apply S; exact A|right; apply S; exact A].
Qed.

Lemma add_ip_incl k dom x : In x dom -> In x (add_ip k dom).
Proof. unfold add_ip. destruct (existsb (ip_eqb k) dom); simpl; auto. Qed.

Lemma age_support c now a x : age c now a x <> None -> a x <> None.
Proof. unfold age. destruct (a x); congruence. Qed.
