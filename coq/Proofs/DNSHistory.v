(* Proofs/DNSHistory.v — whole histories of responses: the DNS table only grows, nothing learned is
   lost, a repeated response changes nothing; per-record-type statements. *)
From PV Require Import Base.Prelude Base.Slice Model.DNS Model.DNSMerge Model.DNSRecords Model.DNSNbns Model.DNSMdns
     Spec.RFC1035 Proofs.RFC1035 Proofs.DNS Proofs.DNSMerge Proofs.DNSRecords Proofs.DNSSpec Proofs.DNSReject Proofs.DNSNbns Proofs.DNSMdns.
Open Scope N_scope.

(* ------------------------------------------------------------------ *)
(* the table over a history *)
Definition table_grows (t t' : dns_table) : Prop :=
  forall name e, tbl_find name t = Some e -> exists e', tbl_find name t' = Some e' /\ entry_grows e e'.

Lemma table_grows_refl t : table_grows t t.
Proof. intros name e H. exists e. split; [exact H|apply entry_grows_refl]. Qed.

Lemma table_grows_trans a b c : table_grows a b -> table_grows b c -> table_grows a c.
Proof.
  intros H1 H2 name e H. destruct (H1 _ _ H) as (e1 & F1 & G1). destruct (H2 _ _ F1) as (e2 & F2 & G2).
  exists e2. split; [exact F2|eapply entry_grows_trans; eauto].
Qed.

Lemma tbl_find_put e t name :
  tbl_find name (tbl_put e t) = if bytes_eqb (de_name e) name then Some e else tbl_find name t.
Proof.
  induction t as [|x r IH]; cbn [tbl_put tbl_find].
  - reflexivity.
  - destruct (bytes_eqb (de_name x) (de_name e)) eqn:E; cbn [tbl_find].
    + apply bytes_eqb_eq in E. rewrite E. destruct (bytes_eqb (de_name e) name); reflexivity.
    + rewrite IH. destruct (bytes_eqb (de_name x) name) eqn:E2; [|reflexivity].
      apply bytes_eqb_eq in E2. subst name.
      destruct (bytes_eqb (de_name e) (de_name x)) eqn:E3; [|reflexivity].
      apply bytes_eqb_eq in E3. rewrite E3, bytes_eqb_refl in E. discriminate.
Qed.

Lemma put_grows t e1 : (forall e, tbl_find (de_name e1) t = Some e -> entry_grows e e1) ->
  table_grows t (tbl_put e1 t).
Proof.
  intros H name e F. rewrite tbl_find_put. destruct (bytes_eqb (de_name e1) name) eqn:E.
  - apply bytes_eqb_eq in E. subst name. exists e1. split; [reflexivity|apply H; exact F].
  - exists e. split; [exact F|apply entry_grows_refl].
Qed.

(* one message, whatever it is (well-formed, malformed, any bytes): every entry stays, with all its records *)
Theorem processDNS_grows t p : table_grows t (snd (processDNS t p)).
Proof.
  unfold processDNS, processDNS_buf. destruct (Nat.ltb _ 12); [apply table_grows_refl|].
  destruct (decodeQuestion p 12 _) as [[q index]|y| |]; cbn [snd]; try apply table_grows_refl.
  destruct (tbl_find (q_name q) t) as [e0|] eqn:F0.
  - pose proof (decodeAnswers_grows p (Z.of_nat index) {| arr := repeat 0 64; len := 0 |} e0) as G.
    destruct (decodeAnswers p _ _ e0) as [r e']. cbn [snd] in G.
    assert (P : table_grows t (tbl_put e' t)).
    { apply put_grows. intros e F. destruct G as (Hn & Grest).
      rewrite Hn, (tbl_find_name _ _ _ F0), F0 in F. inversion F; subst e. exact (conj Hn Grest). }
    destruct r as [[o [|]]|y| |]; cbn [snd]; auto using table_grows_refl.
  - pose proof (decodeAnswers_grows p (Z.of_nat index) {| arr := repeat 0 64; len := 0 |} (new_entry (q_name q))) as G.
    destruct (decodeAnswers p _ _ (new_entry (q_name q))) as [r e']. cbn [snd] in G.
    assert (P : table_grows t (tbl_put e' t)).
    { apply put_grows. intros e F. destruct G as (Hn & _).
      cbn [new_entry de_name] in Hn. rewrite Hn, F0 in F. discriminate. }
    destruct r as [[o [|]]|y| |]; cbn [snd]; auto using table_grows_refl.
Qed.

(* a whole history of payloads, any bytes *)
Definition run_dns (t : dns_table) (msgs : list slice) : dns_table :=
  fold_left (fun t p => snd (processDNS t p)) msgs t.

Theorem history_grows msgs : forall t, table_grows t (run_dns t msgs).
Proof.
  induction msgs as [|p r IH]; intros t; cbn [run_dns fold_left]; [apply table_grows_refl|].
  eapply table_grows_trans; [apply processDNS_grows|apply IH].
Qed.

(* nothing learned is lost: a record that is in an entry stays in it through any history *)
Corollary history_keeps_records msgs t name e : tbl_find name t = Some e ->
  exists e', tbl_find name (run_dns t msgs) = Some e' /\
    (forall r, In r (de_ip4 e) -> In r (de_ip4 e')) /\ (forall r, In r (de_ip6 e) -> In r (de_ip6 e')) /\
    (forall r, In r (de_cname e) -> In r (de_cname e')) /\ (forall r, In r (de_ptr e) -> In r (de_ptr e')).
Proof.
  intros F. destruct (history_grows msgs t name e F) as (e' & F' & _ & [s1 P1] & [s2 P2] & [s3 P3] & [s4 P4]).
  exists e'. split; [exact F'|]. rewrite P1, P2, P3, P4. repeat split; intros r H; apply in_or_app; auto.
Qed.

(* ------------------------------------------------------------------ *)
(* a repeated response changes nothing (reference level, then transferred to ProcessDNS) *)
Definition has_key (l : learned) (c : cache) : bool :=
  match l with
  | LA _ ip _ => existsb (fun x => lab_eqb (fst (fst x)) ip) (c_a c)
  | LAAAA _ ip _ => existsb (fun x => lab_eqb (fst (fst x)) ip) (c_aaaa c)
  | LCNAME owner _ _ => existsb (fun x => lab_eqb (fst (fst x)) owner) (c_cname c)
  | LPTR target _ _ => existsb (fun x => lab_eqb (fst (fst x)) target) (c_ptr c)
  | LSkip | LBad => true
  end.

Definition cache_le (c c' : cache) : Prop :=
  prefix_of (c_a c) (c_a c') /\ prefix_of (c_aaaa c) (c_aaaa c') /\
  prefix_of (c_cname c) (c_cname c') /\ prefix_of (c_ptr c) (c_ptr c').

Lemma lab_eqb_refl a : lab_eqb a a = true.
Proof. apply lab_eqb_eq. reflexivity. Qed.

Lemma add_absent_spec k v t l :
  prefix_of l (fst (add_absent k v t l)) /\
  existsb (fun x => lab_eqb (fst (fst x)) k) (fst (add_absent k v t l)) = true /\
  (existsb (fun x => lab_eqb (fst (fst x)) k) l = true -> add_absent k v t l = (l, false)).
Proof.
  unfold add_absent. destruct (existsb _ l) eqn:E; cbn [fst].
  - split; [apply prefix_refl|]. auto.
  - split; [exists [(k, v, t)]; reflexivity|]. split; [|discriminate].
    rewrite existsb_app. cbn [existsb fst]. rewrite lab_eqb_refl. apply orb_true_iff. right. reflexivity.
Qed.

Lemma learn_into_facts c l : cache_le c (fst (learn_into c l)) /\ has_key l (fst (learn_into c l)) = true.
Proof.
  destruct c as [a b cn pt]. unfold cache_le.
  destruct l as [o ip t|o ip t|o cnm t|tg ip t| |]; cbn [learn_into c_a c_aaaa c_cname c_ptr];
    try (split; [auto using prefix_refl|reflexivity]).
  - destruct (add_absent_spec ip o t a) as (P & E & _). destruct (add_absent ip o t a). cbn [fst has_key c_a c_aaaa c_cname c_ptr] in *. auto using prefix_refl.
  - destruct (add_absent_spec ip o t b) as (P & E & _). destruct (add_absent ip o t b). cbn [fst has_key c_a c_aaaa c_cname c_ptr] in *. auto using prefix_refl.
  - destruct (add_absent_spec o cnm t cn) as (P & E & _). destruct (add_absent o cnm t cn). cbn [fst has_key c_a c_aaaa c_cname c_ptr] in *. auto using prefix_refl.
  - destruct (add_absent_spec tg ip t pt) as (P & E & _). destruct (add_absent tg ip t pt). cbn [fst has_key c_a c_aaaa c_cname c_ptr] in *. auto using prefix_refl.
Qed.

Lemma existsb_prefix {A} (f : A -> bool) l l' : prefix_of l l' -> existsb f l = true -> existsb f l' = true.
Proof. intros [s ->] H. rewrite existsb_app, H. reflexivity. Qed.

Lemma has_key_le l c c' : cache_le c c' -> has_key l c = true -> has_key l c' = true.
Proof.
  intros (A & B & C & D). destruct l; cbn [has_key]; auto; apply existsb_prefix; assumption.
Qed.

Lemma has_key_absorbs l c : has_key l c = true -> learn_into c l = (c, false).
Proof.
  destruct c as [a b cn pt].
  destruct l as [o ip t|o ip t|o cnm t|tg ip t| |]; cbn [has_key learn_into c_a c_aaaa c_cname c_ptr]; intros H; try reflexivity.
  - destruct (add_absent_spec ip o t a) as (_ & _ & Hs). rewrite (Hs H). reflexivity.
  - destruct (add_absent_spec ip o t b) as (_ & _ & Hs). rewrite (Hs H). reflexivity.
  - destruct (add_absent_spec o cnm t cn) as (_ & _ & Hs). rewrite (Hs H). reflexivity.
  - destruct (add_absent_spec tg ip t pt) as (_ & _ & Hs). rewrite (Hs H). reflexivity.
Qed.

Lemma learn_all_keeps ls : forall c u l, has_key l c = true -> has_key l (fst (learn_all c u ls)) = true.
Proof.
  induction ls as [|x r IH]; intros c u l H; cbn [learn_all]; [exact H|].
  destruct (learn_into_facts c x) as [Le _]. destruct (learn_into c x) as [c' u']. cbn [fst] in Le.
  apply IH. eapply has_key_le; eauto.
Qed.

Lemma learn_all_has ls : forall c u l, In l ls -> has_key l (fst (learn_all c u ls)) = true.
Proof.
  induction ls as [|x r IH]; intros c u l Hin; [destruct Hin|]. destruct Hin as [->|Hin]; cbn [learn_all].
  - destruct (learn_into_facts c l) as [_ Hk]. destruct (learn_into c l) as [c' u']. cbn [fst] in Hk.
    apply learn_all_keeps. exact Hk.
  - destruct (learn_into c x) as [c' u']. apply IH. exact Hin.
Qed.

Lemma learn_all_absorbed ls : forall c, (forall l, In l ls -> has_key l c = true) -> learn_all c false ls = (c, false).
Proof.
  induction ls as [|x r IH]; intros c H; cbn [learn_all]; [reflexivity|].
  rewrite (has_key_absorbs x c) by (apply H; left; reflexivity). cbn [orb]. apply IH. intros l Hl. apply H. right. exact Hl.
Qed.

Theorem learn_all_idempotent c u ls : learn_all (fst (learn_all c u ls)) false ls = (fst (learn_all c u ls), false).
Proof. apply learn_all_absorbed. intros l Hl. apply learn_all_has. exact Hl. Qed.

Lemma tfind_tput k c t : tfind k (tput k c t) = Some c.
Proof.
  induction t as [|x r IH]; cbn [tput tfind fst snd]; [rewrite lab_eqb_refl; reflexivity|].
  destruct (lab_eqb (fst x) k) eqn:E; cbn [tfind fst snd]; [rewrite lab_eqb_refl; reflexivity|]. rewrite E. exact IH.
Qed.

(* the reference: processing the same response again hands back nothing and leaves the table as it is *)
Theorem ref_process_idempotent t m : ref_process (snd (ref_process t m)) m = (None, snd (ref_process t m)).
Proof.
  unfold ref_process.
  set (c0 := match tfind (rm_qname m) t with Some c => c | None => cache_empty end).
  pose proof (learn_all_idempotent c0 false (rm_learned m)) as Hi.
  destruct (learn_all c0 false (rm_learned m)) as [c1 u] eqn:E. cbn [fst] in Hi. destruct u; cbn [snd].
  - rewrite tfind_tput, Hi. reflexivity.
  - fold c0. rewrite E. reflexivity.
Qed.

(* ProcessDNS: the same well-formed response a second time returns nothing and the table (as the
   reference sees it) is unchanged *)
Theorem processDNS_idempotent t p lim rm :
  wf p -> bytes_ok (arr p) -> (lim <= 255)%nat ->
  ref_message lim (view p) = Some rm -> msg_within lim (view p) ->
  let t1 := snd (processDNS t p) in
  fst (processDNS t1 p) = Ok None /\ ctable_of (snd (processDNS t1 p)) = ctable_of t1.
Proof.
  intros Hwf Hok Hlim Hm Hw. cbv zeta.
  destruct (processdns_table t p lim rm Hwf Hok Hlim Hm Hw) as (re1 & _ & _ & T1).
  destruct (processdns_table (snd (processDNS t p)) p lim rm Hwf Hok Hlim Hm Hw) as (re2 & R2 & O2 & T2).
  rewrite T1 in O2, T2. rewrite ref_process_idempotent in O2, T2. cbn [fst snd] in O2, T2.
  rewrite R2, T2, T1. split; [|reflexivity]. destruct re2; [discriminate|reflexivity].
Qed.

(* ------------------------------------------------------------------ *)
(* per record type: what one well-formed record of each type does to the entry *)
Section PerType.
Variables (p buffer : slice) (off : nat) (e : dns_entry) (r : ref_rr) (nx : nat) (lim : nat).
Hypothesis Hwf : wf p.
Hypothesis Hok : bytes_ok (arr p).
Hypothesis Hlim : (lim <= 255)%nat.
Hypothesis Hr : ref_rr_at lim (view p) off = Some (r, nx).
Hypothesis Hd : (depth_at (view p) off <= 254)%nat.

Let step := rr_step p buffer off e.

Theorem rr_type_A : rr_type r = 1 -> rr_rdlen r = 4%nat ->
  exists u e', step = (Ok (nx, u, e'), e') /\
    (cache_of_entry e', u) = learn_into (cache_of_entry e) (LA (dotted (rr_owner r)) (sub (view p) (rr_rdoff r) 4) (rr_ttl r)).
Proof.
  intros T L. destruct (rr_step_spec p buffer off e r nx lim Hwf Hok Hlim Hr Hd) as (u & e' & Hs & Hl & _);
    try (rewrite T; intros [X|X]; discriminate); try (rewrite T; discriminate).
  { unfold learn. rewrite T, L. cbn. discriminate. }
  exists u, e'. split; [exact Hs|]. rewrite <- Hl. unfold learn. rewrite T, L. reflexivity.
Qed.

Theorem rr_type_AAAA : rr_type r = 28 -> rr_rdlen r = 16%nat ->
  exists u e', step = (Ok (nx, u, e'), e') /\
    (cache_of_entry e', u) = learn_into (cache_of_entry e) (LAAAA (dotted (rr_owner r)) (sub (view p) (rr_rdoff r) 16) (rr_ttl r)).
Proof.
  intros T L. destruct (rr_step_spec p buffer off e r nx lim Hwf Hok Hlim Hr Hd) as (u & e' & Hs & Hl & _);
    try (rewrite T; intros [X|X]; discriminate); try (rewrite T; discriminate).
  { unfold learn. rewrite T, L. cbn. discriminate. }
  exists u, e'. split; [exact Hs|]. rewrite <- Hl. unfold learn. rewrite T, L. reflexivity.
Qed.

Theorem rr_type_CNAME cls cn : rr_type r = 5 ->
  ref_decode (view p) (rr_rdoff r) = Some (cls, cn) -> name_ok lim cls = true ->
  (depth_at (view p) (rr_rdoff r) <= 254)%nat ->
  exists u e', step = (Ok (nx, u, e'), e') /\
    (cache_of_entry e', u) = learn_into (cache_of_entry e) (LCNAME (dotted (rr_owner r)) (dotted cls) (rr_ttl r)).
Proof.
  intros T Hc Hw Hdc.
  assert (HL : learn lim (view p) r = LCNAME (dotted (rr_owner r)) (dotted cls) (rr_ttl r)).
  { unfold learn. rewrite T, Hc, Hw. reflexivity. }
  destruct (rr_step_spec p buffer off e r nx lim Hwf Hok Hlim Hr Hd) as (u & e' & Hs & Hl & _);
    try (rewrite T; discriminate); auto.
  { rewrite HL. discriminate. }
  exists u, e'. split; [exact Hs|]. rewrite <- Hl, HL. reflexivity.
Qed.

Theorem rr_type_PTR ip pls pn : rr_type r = 12 ->
  reverse_v4 (rr_owner r) = Some ip ->
  ref_decode (view p) (rr_rdoff r) = Some (pls, pn) -> name_ok lim pls = true ->
  (depth_at (view p) (rr_rdoff r) <= 254)%nat ->
  exists u e', step = (Ok (nx, u, e'), e') /\
    (cache_of_entry e', u) = learn_into (cache_of_entry e) (LPTR (dotted pls) ip (rr_ttl r)).
Proof.
  intros T Hrv Hc Hw Hdc.
  assert (HL : learn lim (view p) r = LPTR (dotted pls) ip (rr_ttl r)).
  { unfold learn. rewrite T, Hrv, Hc, Hw. reflexivity. }
  destruct (rr_step_spec p buffer off e r nx lim Hwf Hok Hlim Hr Hd) as (u & e' & Hs & Hl & _); auto.
  { rewrite HL. discriminate. }
  exists u, e'. split; [exact Hs|]. rewrite <- Hl, HL. reflexivity.
Qed.

(* every other type (MX, NS, SOA, TXT, SRV, NSEC, OPT, unknown) and a PTR record whose owner is not an
   IPv4 reverse name: skipped — nothing is added, decoding continues behind RDATA *)
Theorem rr_type_ignored :
  (rr_type r <> 1 /\ rr_type r <> 28 /\ rr_type r <> 5 /\ rr_type r <> 12) \/
  (rr_type r = 12 /\ reverse_v4 (rr_owner r) = None /\ (depth_at (view p) (rr_rdoff r) <= 254)%nat) ->
  exists e', step = (Ok (nx, false, e'), e') /\ cache_of_entry e' = cache_of_entry e /\ de_name e' = de_name e.
Proof.
  intros H.
  assert (HL : learn lim (view p) r = LSkip).
  { unfold learn. destruct H as [(T1 & T28 & T5 & T12)|(T & Hrv & _)].
    - destruct (N.eqb_spec (rr_type r) 1); [contradiction|]. destruct (N.eqb_spec (rr_type r) 28); [contradiction|].
      destruct (N.eqb_spec (rr_type r) 5); [contradiction|]. destruct (N.eqb_spec (rr_type r) 12); [contradiction|]. reflexivity.
    - rewrite T, Hrv. reflexivity. }
  destruct (rr_step_spec p buffer off e r nx lim Hwf Hok Hlim Hr Hd) as (u & e' & Hs & Hl & Hn).
  - intros [T|T]; destruct H as [(_ & _ & T5 & T12)|(_ & _ & Hdd)]; try contradiction; exact Hdd.
  - rewrite HL. discriminate.
  - rewrite HL in Hl. cbn [learn_into] in Hl. inversion Hl. subst u. exists e'. repeat split; auto; congruence.
Qed.

End PerType.

(* ------------------------------------------------------------------ *)
(* ProcessMDNS, per body kind handed over by dnsmessage: A / AAAA add one entry, TXT may set the model
   attribute, PTR / SRV / OPT / NSEC / unknown (MB_other) change nothing *)
Theorem mdns_body_A r ip rest v4 v6 model : mr_body r = MB_A ip ->
  resp_loop (r :: rest) v4 v6 model =
  resp_loop rest (v4 ++ [mkIPN ip (local_host_name (mr_name r)) [] []]) v6 model.
Proof. intros H. cbn [resp_loop]. rewrite H, Proofs.DNSMdns.trim_local. reflexivity. Qed.

Theorem mdns_body_AAAA r ip rest v4 v6 model : mr_body r = MB_AAAA ip ->
  resp_loop (r :: rest) v4 v6 model =
  resp_loop rest v4 (v6 ++ [mkIPN ip (local_host_name (mr_name r)) [] []]) model.
Proof. intros H. cbn [resp_loop]. rewrite H, Proofs.DNSMdns.trim_local. reflexivity. Qed.

Theorem mdns_body_TXT r txt rest v4 v6 model : mr_body r = MB_TXT txt ->
  resp_loop (r :: rest) v4 v6 model =
  resp_loop rest v4 v6 (if nonempty (parseTXT txt) then parseTXT txt else model).
Proof. intros H. cbn [resp_loop]. rewrite H. reflexivity. Qed.

Theorem mdns_body_other r rest v4 v6 model : mr_body r = MB_other ->
  resp_loop (r :: rest) v4 v6 model = resp_loop rest v4 v6 model.
Proof. intros H. cbn [resp_loop]. rewrite H. reflexivity. Qed.

(* ------------------------------------------------------------------ *)
(* NetBIOS first-level encoding: round trip for ALL names of at most 16 octets (shorter ones are
   space-padded by the encoder, the decoder presents them without the padding) *)
Theorem nbns_roundtrip_all n spare : (length n <= 16)%nat -> bytes_ok n ->
  decodeNBNSName (of_bytes_cap (encodeNBNSName n) spare) = Ok (33%nat, present_spaces (nb_pad16 n)).
Proof.
  intros L Hok. rewrite encodeNBNSName_ref by exact L. apply decodeNBNSName_ref. apply nb_decode_encode.
  - unfold nb_pad16. rewrite app_length, repeat_length. lia.
  - unfold nb_pad16. apply bytes_ok_app. split; [exact Hok|]. apply bytes_ok_repeat. lia.
Qed.

(* non-vacuity: the example response twice; and a two-message history *)
Example history_example :
  let p := of_bytes example_response in
  let t1 := snd (processDNS [] p) in
  List.length t1 = 1%nat /\ fst (processDNS t1 p) = Ok None /\
  ctable_of (snd (processDNS t1 p)) = ctable_of t1 /\
  ctable_of (run_dns [] [p; p; p]) = ctable_of t1.
Proof. vm_compute. repeat split; reflexivity. Qed.

(* ------------------------------------------------------------------ *)
(* name spelling across a history: the table key is the exact octet string (Spec: table_key) *)
Lemma tfind_tput_other k k' c t : table_key k <> table_key k' -> tfind k (tput k' c t) = tfind k t.
Proof.
  unfold table_key. intros Hne. induction t as [|x r IH]; cbn [tput tfind fst snd].
  - destruct (lab_eqb k' k) eqn:E; [apply lab_eqb_eq in E; congruence|reflexivity].
  - destruct (lab_eqb (fst x) k') eqn:E1; cbn [tfind fst snd].
    + apply lab_eqb_eq in E1. destruct (lab_eqb k' k) eqn:E2; [apply lab_eqb_eq in E2; congruence|].
      destruct (lab_eqb (fst x) k) eqn:E3; [apply lab_eqb_eq in E3; congruence|reflexivity].
    + destruct (lab_eqb (fst x) k); [reflexivity|exact IH].
Qed.

(* a response about one spelling never touches the entry of another spelling (nor of any other name) *)
Theorem other_spelling_untouched t p name : forall q index,
  decodeQuestion p 12 {| arr := repeat 0 64; len := 0 |} = Ok (q, index) -> q_name q <> name ->
  tbl_find name (snd (processDNS t p)) = tbl_find name t.
Proof.
  intros q index Hq Hne. unfold processDNS, processDNS_buf.
  destruct (Nat.ltb _ 12); [reflexivity|]. rewrite Hq.
  destruct (tbl_find (q_name q) t) as [e0|] eqn:F0.
  - pose proof (decodeAnswers_grows p (Z.of_nat index) {| arr := repeat 0 64; len := 0 |} e0) as (Hn & _).
    destruct (decodeAnswers p _ _ e0) as [r e']. cbn [snd] in Hn.
    assert (P : tbl_find name (tbl_put e' t) = tbl_find name t).
    { rewrite tbl_find_put. destruct (bytes_eqb (de_name e') name) eqn:E; [|reflexivity].
      apply bytes_eqb_eq in E. rewrite Hn, (tbl_find_name _ _ _ F0) in E. contradiction. }
    destruct r as [[o [|]]|y| |]; cbn [snd]; auto.
  - pose proof (decodeAnswers_grows p (Z.of_nat index) {| arr := repeat 0 64; len := 0 |} (new_entry (q_name q))) as (Hn & _).
    destruct (decodeAnswers p _ _ (new_entry (q_name q))) as [r e']. cbn [snd new_entry de_name] in Hn.
    assert (P : tbl_find name (tbl_put e' t) = tbl_find name t).
    { rewrite tbl_find_put. destruct (bytes_eqb (de_name e') name) eqn:E; [|reflexivity].
      apply bytes_eqb_eq in E. rewrite Hn in E. contradiction. }
    destruct r as [[o [|]]|y| |]; cbn [snd]; auto.
Qed.

(* "X" asked twice with different addresses, "x" once in between: two entries; X keeps both addresses *)
Example spelling_history_example :
  let msg (n : N) (ip : N) := of_bytes ([0;1;129;128; 0;1; 0;1; 0;0; 0;0] ++ [1; n; 0; 0;1; 0;1] ++
                                        [192;12; 0;1; 0;1; 0;0;0;60; 0;4; 10;0;0;ip]) in
  let t := run_dns [] [msg 88 1; msg 120 2; msg 88 3] in
  map (fun e => (de_name e, List.length (de_ip4 e))) t = [([88], 2%nat); ([120], 1%nat)].
Proof. vm_compute. reflexivity. Qed.
