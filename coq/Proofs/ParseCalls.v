(* Proofs/ParseCalls.v — what the call table of Parse (Model/ParseCalls.v, re-derived from the source on every run)
   says about allocation, and how it matches the allocation counter of Model/ParseAlloc.v. *)
From PV Require Import Base.Prelude Base.Slice Base.Text Model.Parse Model.ParseCalls Model.ParseAlloc Model.ParseAlias
  Proofs.Parse Proofs.ParseAcc Proofs.ParseAlias.
Open Scope string_scope.

(* the host table is reached from exactly the IPv4, IPv6 and ARP cases; so is the online transition (its log line) *)
Lemma host_calls_only_ip_arp :
  branches_with HostPath = ["et:2048"; "et:2054"; "et:34525"] /\ branches_with LogPath = ["et:2048"; "et:2054"; "et:34525"].
Proof. split; vm_compute; reflexivity. Qed.

(* fmt.Errorf (inside a failing IsValid) is reachable from the Ethernet check, the IPv4 / IPv6 cases and the UDP, TCP,
   ICMP, ICMPv6 cases - and from nowhere else: the ARP case and the leaf cases return sentinels or nil *)
Lemma error_calls :
  branches_with OnError = ["et:2048"; "et:34525"; "proto:1"; "proto:17"; "proto:58"; "proto:6"; "top"].
Proof. vm_compute. reflexivity. Qed.

(* the steady-state helpers as leaf sets: echoNotify (whatever the waiter table holds) reaches nothing that can allocate;
   hostOnline reaches only the calls that build the online-transition log lines (guarded by IsInfo: kind logs);
   findOrCreateHostWithLock reaches the table growth of its slow path *)
Lemma steady_helpers_alloc_free :
  helper_alloc_free "fn:echoNotify" = true /\
  option_map (filter helper_may_alloc) (calls_of "fn:hostOnline" parse_calls) = Some [".IP"; ".Msg"; ".Struct"; ".Write"] /\
  helper_alloc_free "fn:findOrCreateHostWithLock" = false.
Proof. repeat split; vm_compute; reflexivity. Qed.

(* every other callee of every branch is allocation-free by kind: nothing else can allocate on any path *)
Lemma every_callee_classified :
  forallb (fun b => forallb (fun n => match callee_kind n with
                                      | NoAlloc => true
                                      | OnError => String.eqb n ".IsValid"
                                      | HostPath => String.eqb n ".findOrCreateHostWithLock"
                                      | LogPath => String.eqb n ".hostOnline"
                                      end) (snd b)) parse_calls = true.
Proof. vm_compute. reflexivity. Qed.

(* The counter agrees with the table: it is non-zero only (a) on an error, i.e. an OnError callee failed, or
   (b) when the frame reached a HostPath branch with the gate open: f_host <> None - and f_host <> None happens only
   for IPv4 / IPv6 / ARP frames, the three branches that have the HostPath and LogPath callees. *)
Theorem counter_matches_calls c st s f n :
  parse c s = Ok f -> parse_allocs c st s = Ok (S n) ->
  exists k, f_host f = Some k /\ st k <> TrackedOnline /\
            ((0 < f_off4 f)%nat \/ (0 < f_off6 f)%nat \/ f_id f = PayloadARP).
Proof.
  intros Hp Ha. unfold parse_allocs in Ha. rewrite Hp in Ha.
  destruct (f_host f) as [k|] eqn:E; [|discriminate].
  exists k. split; [reflexivity|]. split.
  - intros Hs. rewrite Hs in Ha. discriminate.
  - pose proof (parse_host_key c s) as H. rewrite Hp in H. cbn [post] in H. destruct k as [m ip].
    destruct (H m ip E) as [(H4 & _)|[(H6 & _)|(Hid & _)]]; auto.
Qed.

(* the zero-allocation clause at every log level; at level error even the online transition of an offline host is free *)
Theorem zero_alloc_every_level lvl c st s f :
  parse c s = Ok f ->
  (forall k, f_host f = Some k -> st k = TrackedOnline \/ (lvl = LError /\ st k = TrackedOffline)) ->
  parse_allocs_lvl lvl c st s = Ok 0%nat.
Proof.
  intros Hp H. unfold parse_allocs_lvl. rewrite Hp. destruct (f_host f) as [k|]; [|reflexivity].
  destruct (H k eq_refl) as [E|[-> E]]; rewrite E; [destruct lvl|]; reflexivity.
Qed.

(* the log statements on Parse's path: none is guarded by IsDebug, the two of the online transition by IsInfo *)
Lemma logs_guards : map snd parse_logs = ["always"; "info"; "info"].
Proof. reflexivity. Qed.
