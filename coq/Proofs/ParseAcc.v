(* Proofs/ParseAcc.v — after a nil error every offset stored in the Frame is within the length (for every
   slice, after the repair of the short tagged header), hence every accessor is panic-free and returns the input
   from its offset to its end. *)
From PV Require Import Base.Prelude Base.Slice Model.Parse Spec.RFC Model.ParseKnown Proofs.Parse.
Open Scope N_scope.
Open Scope res_scope.

Definition offs_ok (n : nat) (f : frame) : Prop :=
  (f_off4 f <= n /\ f_off6 f <= n /\ f_offU f <= n /\ f_offT f <= n /\ f_offP f <= n)%nat.

Definition post {A} (P : A -> Prop) (r : res A) : Prop := match r with Ok a => P a | _ => True end.

Ltac leaf := cbn [post]; try exact I; unfold offs_ok in *;
  cbn [f_off4 f_off6 f_offU f_offT f_offP set_id set_offP set_offU set_offT set_ports set_echo] in *; try lia.

Lemma parse_proto_post fx s f proto :
  wf s -> (0 < f_offP f)%nat -> offs_ok (len s) f -> post (offs_ok (len s)) (parse_proto fx s f proto).
Proof.
  intros Hwf H0 Hf. assert (H1 : (f_offP f <= len s)%nat) by (unfold offs_ok in Hf; lia).
  rewrite parse_proto_chain_eq. unfold parse_proto_chain.
  repeat match goal with |- context [if ?c then _ else _] => destruct c end;
  try (leaf; fail);
  (rewrite payload_view_pos by (cbn; lia)); cbn [bind];
  unfold udp_is_valid, tcp_is_valid, icmp_is_valid, src_port, dst_port, icmp_type, echo_id; cbn [len f_offP set_id];
  repeat match goal with |- context [if Nat.leb ?a ?b then _ else _] => destruct (Nat.leb_spec a b) end;
  cbn [bind]; try (leaf; fail); repeat (rd; cbn [bind]);
  repeat match goal with |- context [if ?c then _ else _] => destruct c end; cbn [bind]; repeat (rd; cbn [bind]);
  try (leaf; fail).
  all: destruct (udp_class _ _); leaf.
Qed.

Lemma parse_ip4_post c s f :
  wf s -> f_offP f = 14%nat -> (14 <= len s)%nat -> post (offs_ok (len s)) (parse_ip4 c s f).
Proof.
  intros Hwf H0 H1. unfold parse_ip4.
  rewrite payload_view_pos by (cbn; lia). cbn [bind f_offP set_id]. rewrite H0.
  unfold ip4_is_valid, ip4_ihl, ip4_totallen, ip4_protocol, ip4_src, ip4_dst, bytes_at. cbn [len].
  destruct (Nat.leb_spec 20 (len s - 14)); cbn [bind]; [|leaf].
  repeat (rd; cbn [bind]).
  dcond; cbn [bind]; [|leaf].
  repeat (rd; cbn [bind]).
  dcond; cbn [bind]; [|leaf].
  repeat (rd; cbn [bind]).
  apply parse_proto_post; auto; leaf.
Qed.

Lemma parse_ip6_post c s f :
  wf s -> f_offP f = 14%nat -> (14 <= len s)%nat -> post (offs_ok (len s)) (parse_ip6 c s f).
Proof.
  intros Hwf H0 H1. unfold parse_ip6.
  rewrite payload_view_pos by (cbn; lia). cbn [bind f_offP set_id]. rewrite H0.
  unfold ip6_is_valid, ip6_next_header, ip6_src, ip6_dst, bytes_at. cbn [len].
  destruct (Nat.leb_spec 40 (len s - 14)); cbn [bind]; [|leaf].
  repeat (rd; cbn [bind]).
  match goal with |- context [if ?c then _ else _] => destruct c end; cbn [bind]; [|leaf].
  repeat (rd; cbn [bind]).
  apply parse_proto_post; auto; leaf.
Qed.

Lemma parse_arp_post c s f :
  f_offP f = 14%nat -> (14 <= len s)%nat -> offs_ok (len s) f -> post (offs_ok (len s)) (parse_arp c s f).
Proof.
  intros H0 H1 Hf. unfold parse_arp.
  rewrite payload_view_pos by (cbn; lia). cbn [bind f_offP set_id]. rewrite H0.
  repeat match goal with
  | |- post _ (bind ?r _) => destruct r; cbn [bind]; try exact I
  | |- post _ (if ?c then _ else _) => destruct c
  end. all: leaf.
Qed.

(* HeaderLen is 14, 18 or 22 *)
Lemma parse_leaf_post s f id hl0 : wf s -> (14 <= len s)%nat ->
  ether_header_len s = Ok hl0 -> (hl0 <= len s)%nat ->
  offs_ok (len s) f -> post (offs_ok (len s)) (parse_leaf s f id).
Proof.
  intros Hwf H Hh Hl Hf. unfold parse_leaf. rewrite Hh. cbn [bind]. leaf.
Qed.

Theorem parse_offsets c s : wf s -> post (offs_ok (len s)) (parse c s).
Proof.
  intros Hwf. rewrite parse_chain_eq. unfold parse_chain, ether_is_valid.
  destruct (Nat.leb_spec 14 (len s)) as [Hlen|Hlen]; cbn [bind]; [|leaf].
  unfold ether_src, ether_dst, bytes_at.
  repeat (rd; cbn [bind]).
  destruct (ether_header_len s) as [hl| | |] eqn:Hh; cbn [bind]; try exact I.
  destruct (Nat.ltb_spec (len s) hl) as [Hs|Hhl]; [exact I|].
  assert (Het : ether_type s = Ok (be16 (nth 12 (arr s) 0) (nth 13 (arr s) 0))).
  { unfold ether_type. rd. reflexivity. }
  rewrite Het. cbn [bind].
  set (et := be16 (nth 12 (arr s) 0) (nth 13 (arr s) 0)) in *.
  assert (H14 : et = 2048 \/ et = 34525 \/ et = 2054 -> hl = 14%nat).
  { intros HE. unfold ether_header_len in Hh. rewrite Het in Hh. cbn [bind] in Hh. fold et in Hh.
    destruct HE as [E|[E|E]]; rewrite E in Hh; vm_compute in Hh; congruence. }
  destruct (is_unicast_mac _) eqn:Hu; cbn [negb]; [|leaf].
  destruct (et <? 1536); [leaf|].
  destruct (N.eqb_spec et 2048) as [E1|E1].
  { apply parse_ip4_post; auto; cbn [f_offP]; auto. }
  destruct (N.eqb_spec et 34525) as [E2|E2].
  { apply parse_ip6_post; auto; cbn [f_offP]; auto. }
  destruct (N.eqb_spec et 2054) as [E3|E3].
  { apply parse_arp_post; auto; cbn [f_offP]; auto; leaf. }
  repeat match goal with |- context [if ?c then _ else _] => destruct c end;
    try (leaf; fail); (apply (parse_leaf_post s _ _ hl); auto; leaf).
Qed.

(* every accessor after a nil error: no panic, and the view is the input from [off] to its end *)
Definition acc_inside (s : slice) (r : res (option slice)) : Prop :=
  r = Ok None \/ exists off, (off <= len s)%nat /\ r = Ok (Some (mkSlice (skipn off (arr s)) (len s - off))).

Lemma acc_at_inside s off : (off <= len s)%nat -> acc_inside s (acc_at s off).
Proof.
  intros H. unfold acc_at, acc_inside. destruct (Nat.eqb off 0); [left; reflexivity|].
  right. exists off. split; [exact H|]. rewrite slfrom_ok by lia. reflexivity.
Qed.

Theorem frame_accessors_safe c s f :
  wf s -> parse c s = Ok f ->
  acc_inside s (frame_ether s f) /\ acc_inside s (frame_ip4 s f) /\ acc_inside s (frame_ip6 s f) /\
  acc_inside s (frame_udp s f) /\ acc_inside s (frame_tcp s f) /\ acc_inside s (frame_payload s f).
Proof.
  intros Hwf Hp. pose proof (parse_offsets c s Hwf) as H. rewrite Hp in H. cbn [post] in H.
  destruct H as (H4 & H6 & HU & HT & HP).
  repeat split; try (apply acc_at_inside; assumption).
  right. exists 0%nat. split; [lia|]. unfold frame_ether. rewrite Nat.sub_0_r. destruct s; reflexivity.
Qed.

Example frame_accessors_safe_nonvacuous :
  let s := of_bytes ex_arp28 in
  wf s /\ exists f, parse cfg0 s = Ok f /\
  frame_payload s f = Ok (Some (mkSlice (skipn 14 (arr s)) 28)).
Proof. cbv zeta. split; [vm_compute; lia|]. eexists. split; vm_compute; reflexivity. Qed.

(* Frame.Log evaluates len(frame.Payload()): safe after a nil error *)
Lemma frame_log_safe c s f : wf s -> parse c s = Ok f -> frame_log s f = Ok tt.
Proof.
  intros Hwf Hp. destruct (frame_accessors_safe c s f Hwf Hp) as (_ & _ & _ & _ & _ & HP).
  unfold frame_log. destruct HP as [E|(off & _ & E)]; rewrite E; reflexivity.
Qed.
