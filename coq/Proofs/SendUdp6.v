(* Proofs/SendUdp6.v — UDP over IPv6 (IPv6 branch of dns_naming sendMDNS) with the mandatory checksum. *)
From PV Require Import Proofs.SendBase Model.Send Model.SendUdp Spec.SendRefUdp Proofs.Send Proofs.SendIcmp6 Proofs.SendUdp.
Open Scope N_scope.
Local Arguments N.of_nat : simpl never.

Lemma oc_fold_plus_ffff x : oc_fold x = 65535 -> oc_fold (x + 65535) = 65535.
Proof.
  unfold oc_fold. destruct (x =? 0) eqn:E; [discriminate|]. apply N.eqb_neq in E.
  destruct (x + 65535 =? 0) eqn:E2; [apply N.eqb_eq in E2; lia|]. intros H. lia.
Qed.

(* a Checksum result of 0 is transmitted as 0xffff and still verifies *)
Lemma ffff_verifies a b :
  Nat.even (length a) = true -> bytes_ok a -> bytes_ok b ->
  N.of_nat (length a + length b) + 2 <= 131074 ->
  checksum (a ++ 0 :: 0 :: b) = 0 -> verifies (a ++ 255 :: 255 :: b).
Proof.
  intros He Ha Hb Hl Hc. unfold verifies.
  rewrite be_sum_app_even by exact He.
  change (be_sum (255 :: 255 :: b)) with (be16 255 255 + be_sum b). change (be16 255 255) with 65535.
  rewrite checksum_rfc1071 in Hc.
  - assert (Hr : rfc1071 (a ++ 0 :: 0 :: b) = 0).
    { apply swap16_zero; [unfold rfc1071; lia|exact Hc]. }
    unfold rfc1071 in Hr. rewrite be_sum_app_even in Hr by exact He.
    change (be_sum (0 :: 0 :: b)) with (be16 0 0 + be_sum b) in Hr. change (be16 0 0) with 0 in Hr. rewrite N.add_0_l in Hr.
    pose proof (oc_fold_range (be_sum a + be_sum b)) as Hrg.
    replace (be_sum a + (65535 + be_sum b)) with ((be_sum a + be_sum b) + 65535) by lia.
    apply oc_fold_plus_ffff. lia.
  - apply bytes_ok_app. split; [exact Ha|]. repeat constructor; try lia. exact Hb.
  - rewrite app_length. cbn [length]. lia.
Qed.

Lemma w16_stored cs : cs <= 65535 -> cs <> 0 -> (u8 cs * 256 + u8 (N.shiftr cs 8) =? 0) = false.
Proof. intros H1 H2. apply N.eqb_neq. rewrite shr8. unfold u8. lia. Qed.

(* Ethernet/IPv6/UDP encapsulation with the mandatory checksum: any payload, any previous buffer content *)
Lemma udp6_wf smac dmac sip dip sp dp p junk :
  mac_ok smac -> mac_ok dmac -> ip6_ok sip -> ip6_ok dip -> sp < 65536 -> dp < 65536 ->
  bytes_ok p -> (length p <= 1460)%nat -> length junk = EthMaxSize ->
  exists fr, udp6_send smac dmac sip dip sp dp p junk = Ok [fr] /\
    wf_udp6 smac dmac sip dip sp dp (beq p) fr = true.
Proof.
  intros H1 H2 H3 H4 Hsp Hdp Hp Hlen HJ.
  assert (HJ' : (62 <= length junk)%nat) by (rewrite HJ; unfold EthMaxSize; lia).
  destruct (split_at 62 junk HJ') as (j & rest & -> & Hj).
  assert (Hrest : (length p <= length rest)%nat) by (rewrite app_length in HJ; unfold EthMaxSize in HJ; lia).
  clear HJ HJ'.
  unfold udp6_send, udp_append_payload.
  replace (Nat.ltb (EthMaxSize - 54 - 8) (length p)) with false
    by (symmetry; apply Nat.ltb_ge; unfold EthMaxSize; lia).
  explode_ok smac H1. explode_ok dmac H2. explode_ok sip H3. explode_ok dip H4. explode j Hj.
  cbn. rewrite firstn_blit0 by assumption.
  match goal with |- context [checksum ?X =? 0] => set (cs := checksum X) end.
  assert (Hcs : cs <= 65535) by apply checksum_range.
  destruct (cs =? 0) eqn:Ez; cbn; rewrite firstn_blit0 by assumption;
  (eexists; split; [reflexivity|]); unfold wf_udp6; cbn; len_conds; cbn; eqbs.
  - repeat (apply andb_true_intro; split); try w16_ok; try apply beq_refl.
    apply verifiesb_true. rewrite <- ?shr24, <- ?shr16, <- ?shr8.
    match goal with |- verifies ?L =>
      let A := eval cbn [firstn] in (firstn 46 L) in
      change (verifies (A ++ 255 :: 255 :: p)) end.
    apply ffff_verifies; [reflexivity | oks | exact Hp | cbn [length]; unfold bytes, byte in *; lia |].
    apply N.eqb_eq in Ez. exact Ez.
  - apply N.eqb_neq in Ez.
    repeat (apply andb_true_intro; split); try w16_ok; try apply beq_refl.
    + unfold w16, be16. cbn. rewrite (w16_stored cs Hcs Ez). reflexivity.
    + cbn. apply verifiesb_true. rewrite <- ?shr24, <- ?shr16, <- ?shr8. subst cs.
      match goal with |- verifies ?L =>
        let A := eval cbn [firstn] in (firstn 46 L) in
        change (verifies (A ++ u8 (checksum (A ++ 0 :: 0 :: p)) :: u8 (N.shiftr (checksum (A ++ 0 :: 0 :: p)) 8) :: p)) end.
      apply insert_verifies; [reflexivity | oks | exact Hp | cbn [length]; unfold bytes, byte in *; lia].
Qed.

(* mdns.go sendMDNS, IPv6 branch (SendSleepProxyResponse with an IPv6 source) *)
Lemma mdns6_wf c buf sm si dm di port :
  mac_ok (host_mac c) -> ip6_ok si -> mac_ok dm -> ip6_ok di -> port < 65536 ->
  bytes_ok buf -> (length buf <= 1460)%nat ->
  exists fr, send_mdns c buf (sm, si) (dm, di) port = Ok [fr] /\
    wf_udp6 (host_mac c) dm si di port port (beq buf) fr = true.
Proof.
  intros H1 H2 H3 H4 Hp Hb Hl. unfold send_mdns. cbn [a_mac a_ip fst snd].
  unfold is4. rewrite (proj1 H2). cbn [Nat.eqb].
  apply udp6_wf; auto.
  all: try (unfold zero_buf; apply repeat_length).
Qed.

(* a payload that does not fit the buffer (ErrPayloadTooBig of UDP.AppendPayload): nothing is sent *)
Lemma udp6_too_big smac dmac sip dip sp dp p junk :
  (1460 < length p)%nat -> udp6_send smac dmac sip dip sp dp p junk = Ok [].
Proof.
  intros H. unfold udp6_send, udp_append_payload.
  destruct (Nat.ltb_spec (EthMaxSize - 54 - 8) (length p)) as [_|Hx]; [reflexivity|unfold EthMaxSize in Hx; lia].
Qed.
