(* Proofs/DNSTxt.v — parseTXT against the RFC 6763 reference. *)
From PV Require Import Base.Prelude Model.DNSMerge Model.DNSRecords Model.DNSMdns Spec.RFC1035 Proofs.DNSMerge Proofs.DNSSpec.
Open Scope N_scope.

Lemma txt_split_cut s : forall key, txt_split s key = (rev key ++ fst (cut_eq s), snd (cut_eq s)).
Proof.
  induction s as [|c r IH]; intros key; cbn [txt_split cut_eq].
  - cbn. rewrite app_nil_r. reflexivity.
  - destruct (c =? 61); cbn [fst snd]; [rewrite app_nil_r; reflexivity|].
    rewrite IH. destruct (cut_eq r) as [k v]. cbn [fst snd rev]. rewrite <- app_assoc. reflexivity.
Qed.

Lemma model_key_test k :
  (bytes_eqb (lower k) K_MODEL || bytes_eqb (lower k) K_TY || bytes_eqb (lower k) K_DVTY_L || bytes_eqb (lower k) K_MD) =
  existsb (lab_eqb (map ascii_lower k)) model_keys.
Proof.
  unfold model_keys. cbn [existsb]. rewrite orb_false_r, !orb_assoc. reflexivity.
Qed.

Lemma parseTXT_loop_ref txt :
  parseTXT_loop txt =
  match flat_map (fun s => match txt_model_of s with Some v => [v] | None => [] end) txt with v :: _ => v | [] => [] end.
Proof.
  induction txt as [|s r IH]; [reflexivity|]. cbn [parseTXT_loop flat_map].
  unfold txt_model_of. rewrite txt_split_cut. cbn [rev app]. destruct (cut_eq s) as [k [v|]]; cbn [fst snd].
  - rewrite <- model_key_test. destruct (_ || _); [reflexivity|exact IH].
  - exact IH.
Qed.

(* parseTXT = the RFC 6763 reference extraction, for every list of character strings *)
Theorem parseTXT_ref txt : parseTXT txt = ref_txt_model txt.
Proof. unfold parseTXT, ref_txt_model. destruct (Nat.leb _ 2); [reflexivity|apply parseTXT_loop_ref]. Qed.

Example parseTXT_example :
  (* ["txtvers=1"; "Model=a=b"; "md=x"]: case-insensitive key, value keeps its '=', first key wins *)
  parseTXT [[116;120;116;118;101;114;115;61;49]; [77;111;100;101;108;61;97;61;98]; [109;100;61;120]] = [97;61;98].
Proof. vm_compute. reflexivity. Qed.
