(* Proofs/DNSMdns.v — ProcessMDNS: the names it extracts equal the reference extraction. *)
From PV Require Import Base.Prelude Model.DNSMerge Model.DNSRecords Model.DNSMdns Spec.RFC1035 Proofs.DNSMerge.
Open Scope N_scope.

(* ---- suffix tests: strings.HasSuffix (model) = ends_with (reference) ---- *)
Lemma has_suffix_iff s suf : has_suffix s suf = true <-> exists x, s = x ++ suf.
Proof.
  unfold has_suffix. split.
  - intros H. apply andb_true_iff in H as [H1 H2]. apply Nat.leb_le in H1. apply bytes_eqb_eq in H2.
    exists (firstn (length s - length suf) s). rewrite <- H2 at 2. symmetry. apply firstn_skipn.
  - intros [x ->]. rewrite app_length. apply andb_true_iff. split; [apply Nat.leb_le; lia|].
    replace (length x + length suf - length suf)%nat with (length x) by lia.
    rewrite skipn_app, skipn_all, Nat.sub_diag. cbn [skipn app]. apply bytes_eqb_refl.
Qed.

Lemma ends_with_rev_iff rs rsuf : ends_with_rev rs rsuf = true <-> exists y, rs = rsuf ++ y.
Proof.
  revert rs. induction rsuf as [|x a IH]; intros rs; cbn [ends_with_rev].
  - split; [intros _; exists rs; reflexivity|intros _; destruct rs; reflexivity].
  - destruct rs as [|y b].
    + split; [discriminate|]. intros [z H]. discriminate.
    + split.
      * intros H. apply andb_true_iff in H as [H1 H2]. apply N.eqb_eq in H1. apply IH in H2 as [z ->].
        exists z. subst. reflexivity.
      * intros [z H]. inversion H; subst. apply andb_true_iff. split; [apply N.eqb_refl|]. apply IH. eauto.
Qed.

Lemma ends_with_iff s suf : ends_with s suf = true <-> exists x, s = x ++ suf.
Proof.
  unfold ends_with. rewrite ends_with_rev_iff. split.
  - intros [y H]. exists (rev y). rewrite <- (rev_involutive s), H, rev_app_distr, rev_involutive. reflexivity.
  - intros [x ->]. exists (rev x). apply rev_app_distr.
Qed.

Lemma has_suffix_ends_with s suf : has_suffix s suf = ends_with s suf.
Proof.
  apply Bool.eq_iff_eq_true. rewrite has_suffix_iff, ends_with_iff. reflexivity.
Qed.

Lemma trim_local s : trim_suffix s DOT_LOCAL_DOT = local_host_name s.
Proof.
  unfold local_host_name. rewrite <- has_suffix_ends_with. unfold trim_suffix, has_suffix. reflexivity.
Qed.

(* ---- responses ---- *)
Definition key (e : ipname) : bytes * bytes := (in_ip e, in_name e).

Lemma resp_loop_names rs : forall v4 v6 model,
  map key (fst (fst (resp_loop rs v4 v6 model))) = map key v4 ++ ref_mdns_v4 rs /\
  map key (snd (fst (resp_loop rs v4 v6 model))) = map key v6 ++ ref_mdns_v6 rs.
Proof.
  induction rs as [|r rest IH]; intros v4 v6 model; cbn [resp_loop ref_mdns_v4 ref_mdns_v6 flat_map].
  - rewrite !app_nil_r. auto.
  - destruct (mr_body r); cbn [app].
    + destruct (IH (v4 ++ [mkIPN ip (trim_suffix (mr_name r) DOT_LOCAL_DOT) [] []]) v6 model) as [H1 H2].
      rewrite H1, H2. rewrite map_app. cbn [map key in_ip in_name]. rewrite trim_local, <- app_assoc. auto.
    + destruct (IH v4 (v6 ++ [mkIPN ip (trim_suffix (mr_name r) DOT_LOCAL_DOT) [] []]) model) as [H1 H2].
      rewrite H1, H2. rewrite map_app. cbn [map key in_ip in_name]. rewrite trim_local, <- app_assoc. auto.
    + apply IH.
    + apply IH.
Qed.

Lemma set_model_keys model l : map key (set_model model l) = map key l.
Proof. unfold set_model. destruct (nonempty model); [|reflexivity]. rewrite map_map. reflexivity. Qed.

(* a response that was not answered before: every A / AAAA record yields, in message order, an entry
   (address, owner without ".local."), and nothing else does; the (MAC, id) is remembered *)
Theorem mdns_response_names c mac m : mm_response m = true -> in_cache c mac (mm_id m) = false ->
  map key (fst (fst (processMDNS c mac m))) = ref_mdns_v4 (mm_resources m) /\
  map key (snd (fst (processMDNS c mac m))) = ref_mdns_v6 (mm_resources m) /\
  in_cache (snd (processMDNS c mac m)) mac (mm_id m) = true.
Proof.
  intros Hr Hc. unfold processMDNS. rewrite Hr, Hc. cbn [negb].
  destruct (resp_loop_names (mm_resources m) [] [] []) as [H1 H2].
  destruct (resp_loop (mm_resources m) [] [] []) as [[v4 v6] model]. cbn [fst snd] in *.
  rewrite !set_model_keys. repeat split; auto.
  cbn [in_cache existsb fst snd]. rewrite bytes_eqb_refl, N.eqb_refl. reflexivity.
Qed.

(* the same (MAC, id) again: nothing is extracted, nothing changes *)
Theorem mdns_response_cached c mac m : mm_response m = true -> in_cache c mac (mm_id m) = true ->
  processMDNS c mac m = (([], []), c).
Proof. intros Hr Hc. unfold processMDNS. rewrite Hr, Hc. reflexivity. Qed.

(* every entry of a response carries the same model attribute *)
Theorem mdns_response_model c mac m e : mm_response m = true -> in_cache c mac (mm_id m) = false ->
  let model := snd (resp_loop (mm_resources m) [] [] []) in
  nonempty model = true ->
  In e (fst (fst (processMDNS c mac m)) ++ snd (fst (processMDNS c mac m))) -> in_model e = model.
Proof.
  intros Hr Hc. unfold processMDNS. rewrite Hr, Hc. cbn [negb].
  destruct (resp_loop (mm_resources m) [] [] []) as [[v4 v6] model]. cbn [fst snd].
  intros Hm Hin. unfold set_model in Hin. rewrite Hm in Hin.
  apply in_app_or in Hin as [H|H]; apply in_map_iff in H as (x & <- & _); reflexivity.
Qed.

(* ---- queries ---- *)
Lemma host_question_model q :
  (negb (has_suffix q TCP_LOCAL) && negb (has_suffix q UDP_LOCAL) && has_suffix q DOT_LOCAL_DOT) = is_host_question q.
Proof. unfold is_host_question. rewrite !has_suffix_ends_with. reflexivity. Qed.

Lemma query_loop_name qs : forall name manu,
  fst (query_loop qs name manu) =
  match rev (filter is_host_question qs) with q :: _ => local_host_name q | [] => name end.
Proof.
  induction qs as [|q r IH]; intros name manu; cbn [query_loop filter]; [reflexivity|].
  rewrite host_question_model. rewrite IH. destruct (is_host_question q); [|reflexivity].
  cbn [rev]. rewrite trim_local. destruct (rev (filter is_host_question r)); reflexivity.
Qed.

(* a query: the one entry (no address) names the querier as the reference does *)
Theorem mdns_query_name c mac m : mm_response m = false ->
  snd (processMDNS c mac m) = c /\ snd (fst (processMDNS c mac m)) = [] /\
  match fst (fst (processMDNS c mac m)) with
  | [] => ref_query_name (mm_questions m) = []
  | [e] => in_ip e = [] /\ in_name e = ref_query_name (mm_questions m)
  | _ => False
  end.
Proof.
  intros Hr. unfold processMDNS. rewrite Hr. cbn [negb].
  pose proof (query_loop_name (mm_questions m) [] []) as Hn. unfold ref_query_name.
  destruct (query_loop (mm_questions m) [] []) as [name manu]. cbn [fst] in Hn.
  destruct (nonempty name || nonempty manu) eqn:E; cbn [fst snd].
  - repeat split; auto.
  - repeat split; auto. apply orb_false_iff in E as [E _]. rewrite <- Hn. destruct name; [reflexivity|discriminate].
Qed.

Example mdns_example :
  let m := mkMsg 7 true [] [mkRes [109;121;104;111;115;116;46;108;111;99;97;108;46] (MB_A [192;168;0;7]);
                             mkRes [110;97;115;46;108;97;110;46] (MB_AAAA (repeat 1 16))] in
  map key (fst (fst (processMDNS [] [2;0;0;0;0;1] m))) = [([192;168;0;7], [109;121;104;111;115;116])] /\
  map key (snd (fst (processMDNS [] [2;0;0;0;0;1] m))) = [(repeat 1 16, [110;97;115;46;108;97;110;46])].
Proof. vm_compute. split; reflexivity. Qed.

(* ------------------------------------------------------------------ *)
(* with the cache clock *)
Lemma cache_find_put c mac id x : cache_find (cache_put c mac id x) mac id = Some x.
Proof. unfold cache_put. cbn [cache_find]. unfold key_is. cbn [fst snd]. rewrite bytes_eqb_refl, N.eqb_refl. reflexivity. Qed.

Lemma cache_find_delete c mac id : cache_find (cache_delete c mac id) mac id = None.
Proof.
  induction c as [|k r IH]; [reflexivity|]. cbn [cache_delete filter].
  destruct (key_is mac id k) eqn:E; cbn [negb]; [exact IH|]. cbn [cache_find]. rewrite E. exact IH.
Qed.

Definition cache_fresh (c : mcache_t) (mac : bytes) (id : N) (now : Z) : bool :=
  match cache_find c mac id with Some expiry => (now <? expiry)%Z | None => false end.

(* a response for which no fresh cache entry exists (never seen, or seen at least 5 minutes ago) is
   processed: the reference names, and the entry is renewed to now + 300 s *)
Theorem mdns_at_response_names c mac now m : mm_response m = true -> cache_fresh c mac (mm_id m) now = false ->
  map key (fst (fst (processMDNS_at c mac now m))) = ref_mdns_v4 (mm_resources m) /\
  map key (snd (fst (processMDNS_at c mac now m))) = ref_mdns_v6 (mm_resources m) /\
  cache_find (snd (processMDNS_at c mac now m)) mac (mm_id m) = Some (now + MDNS_CACHE_SECONDS)%Z.
Proof.
  intros Hr Hc. unfold processMDNS_at. rewrite Hr. cbn [negb]. unfold cache_fresh in Hc. rewrite Hc.
  destruct (resp_loop_names (mm_resources m) [] [] []) as [H1 H2].
  destruct (resp_loop (mm_resources m) [] [] []) as [[v4 v6] model]. cbn [fst snd] in *.
  rewrite !set_model_keys. repeat split; auto. apply cache_find_put.
Qed.

(* while the entry is fresh the same (MAC, id) yields nothing and the cache is untouched *)
Theorem mdns_at_response_cached c mac now m : mm_response m = true -> cache_fresh c mac (mm_id m) now = true ->
  processMDNS_at c mac now m = (([], []), c).
Proof. intros Hr Hc. unfold processMDNS_at. rewrite Hr. cbn [negb]. unfold cache_fresh in Hc. rewrite Hc. reflexivity. Qed.

(* the 5 minutes: after a response processed at [now], the same (MAC, id) is suppressed at every
   now' < now + 300 and processed again at every now' >= now + 300 *)
Theorem mdns_at_expiry c mac now m now' : mm_response m = true -> cache_fresh c mac (mm_id m) now = false ->
  let c' := snd (processMDNS_at c mac now m) in
  cache_fresh c' mac (mm_id m) now' = (now' <? now + MDNS_CACHE_SECONDS)%Z.
Proof.
  intros Hr Hc. destruct (mdns_at_response_names c mac now m Hr Hc) as (_ & _ & Hf).
  cbv zeta. unfold cache_fresh. rewrite Hf. reflexivity.
Qed.

(* queries do not touch the cache and do not depend on the clock *)
Theorem mdns_at_query c mac now m : mm_response m = false ->
  processMDNS_at c mac now m = (fst (processMDNS [] mac m), c).
Proof.
  intros Hr. unfold processMDNS_at, processMDNS. rewrite Hr. cbn [negb].
  destruct (query_loop (mm_questions m) [] []) as [name manu]. destruct (nonempty name || nonempty manu); reflexivity.
Qed.

Example mdns_at_example :
  let m := mkMsg 7 true [] [mkRes [97;46;108;111;99;97;108;46] (MB_A [10;0;0;1])] in
  let mac := [2;0;0;0;0;1] in
  let c1 := snd (processMDNS_at [] mac 1000 m) in
  fst (processMDNS_at c1 mac 1299 m) = ([], []) /\
  map key (fst (fst (processMDNS_at c1 mac 1300 m))) = [([10;0;0;1], [97])].
Proof. vm_compute. split; reflexivity. Qed.
