(* Proofs/ArpSpoof.v — proofs about the event-system model of the ARP spoofer (C13):
   hunt list facts, writes, confinement with the public API, the bound on frames already decided. *)
From PV Require Import Base.Prelude Base.Slice Model.ArpSpoof Spec.ArpSpoof.
Open Scope N_scope.

(* ---------------------------------------------------------------- *)
(* small facts about the hunt list *)

Lemma hunt_has_spec m h : hunt_has m h = true <-> exists e, In e h /\ amac e = m.
Proof.
  unfold hunt_has. rewrite existsb_exists. split; intros [e [Hin He]]; exists e; split; auto; lia.
Qed.

Lemma hunt_has_false m h : hunt_has m h = false <-> forall e, In e h -> amac e <> m.
Proof.
  split.
  - intros H e Hin Heq. assert (hunt_has m h = true) by (apply hunt_has_spec; eauto). congruence.
  - intros H. destruct (hunt_has m h) eqn:E; auto. apply hunt_has_spec in E as [e [Hin He]].
    exfalso; eapply H; eauto.
Qed.

Lemma hunt_find_some m h t : hunt_find m h = Some t -> In t h /\ amac t = m.
Proof. unfold hunt_find. intros H. apply find_some in H as [H1 H2]. split; auto. lia. Qed.

Lemma hunt_find_none m h : hunt_find m h = None <-> hunt_has m h = false.
Proof.
  unfold hunt_find. split.
  - intros H. apply hunt_has_false. intros e Hin He.
    apply (find_none _ _ H) in Hin. lia.
  - intros H. destruct (find _ h) as [t|] eqn:F; auto.
    apply find_some in F as [F1 F2]. rewrite hunt_has_false in H. exfalso. apply (H t F1). lia.
Qed.

Lemma hunt_del_in m h e : In e (hunt_del m h) <-> In e h /\ amac e <> m.
Proof.
  unfold hunt_del. rewrite filter_In. split; intros [H1 H2]; split; auto; lia.
Qed.

Lemma hunt_has_del_same m h : hunt_has m (hunt_del m h) = false.
Proof. apply hunt_has_false. intros e Hin. apply hunt_del_in in Hin. tauto. Qed.

Lemma hunt_has_del_other m m' h : m <> m' -> hunt_has m (hunt_del m' h) = hunt_has m h.
Proof.
  intros Hne. destruct (hunt_has m h) eqn:E.
  - apply hunt_has_spec in E as [e [Hin He]]. apply hunt_has_spec. exists e. split; auto.
    apply hunt_del_in. split; auto. congruence.
  - apply hunt_has_false. intros e Hin. apply hunt_del_in in Hin as [Hin _].
    rewrite hunt_has_false in E. auto.
Qed.

Lemma hunt_has_app m h a : hunt_has m (h ++ [a]) = hunt_has m h || (amac a =? m).
Proof. unfold hunt_has. rewrite existsb_app. simpl. rewrite orb_false_r. reflexivity. Qed.

(* ---------------------------------------------------------------- *)
(* frames *)

Lemma restore_not_forged c m : cfg_ok c -> forged c (restore c m) = false.
Proof.
  unfold cfg_ok, forged, restore. simpl. intros [H _].
  destruct (router_mac c =? host_mac c) eqn:E; [exfalso; apply H; lia|]. apply andb_false_r.
Qed.

Lemma announce_forged c m : forged c (announce c m) = true.
Proof. unfold forged, announce, announce_ip. simpl. rewrite !N.eqb_refl. reflexivity. Qed.

Lemma request_to_not_forged c d ip : cfg_ok c -> forged c (request_to c d ip) = false.
Proof.
  unfold cfg_ok, forged, request_to. simpl. intros [_ [H _]].
  destruct (host_ip c =? router_ip c) eqn:E; [exfalso; apply H; lia|]. reflexivity.
Qed.

Lemma probe_frame_not_forged c ip : cfg_ok c -> forged c (probe_frame c ip) = false.
Proof.
  unfold cfg_ok, forged, probe_frame, IP4_ZERO. simpl. intros [_ [_ H]].
  destruct (0 =? router_ip c) eqn:E; [exfalso; apply H; lia|]. reflexivity.
Qed.

(* ---------------------------------------------------------------- *)
(* the write primitive *)

Lemma wr_cases s f : (wr s f = (s, [f], true) /\ failn s = O) \/
                     (exists k, failn s = S k /\ wr s f = (set_failn s k, [], false)).
Proof. unfold wr. destruct (failn s) as [|k] eqn:E; [left; auto | right; exists k; auto]. Qed.

Lemma wr_out s f s' out ok g : wr s f = (s', out, ok) -> In g out -> g = f.
Proof.
  intros H Hin. destruct (wr_cases s f) as [[E _]|[k [_ E]]]; rewrite E in H; inversion H; subst.
  - destruct Hin as [Hin|[]]; auto.
  - contradiction.
Qed.

Lemma wr_state s f s' out ok :
  wr s f = (s', out, ok) ->
  hunt s' = hunt s /\ loops s' = loops s /\ closed s' = closed s /\ offers s' = offers s.
Proof.
  intros H. destruct (wr_cases s f) as [[E _]|[k [_ E]]]; rewrite E in H; inversion H; subst; simpl; auto.
Qed.

Lemma wr2_out s f g : In g (snd (wr2 s f)) -> g = f.
Proof.
  unfold wr2. destruct (wr s f) as [[s1 o] ok] eqn:E. simpl. eapply wr_out; eauto.
Qed.

Lemma wr2_state s f :
  hunt (fst (wr2 s f)) = hunt s /\ loops (fst (wr2 s f)) = loops s /\
  closed (fst (wr2 s f)) = closed s /\ offers (fst (wr2 s f)) = offers s.
Proof. unfold wr2. destruct (wr s f) as [[s1 o] ok] eqn:E. simpl. eapply wr_state; eauto. Qed.

(* Scan and WhoIs only ever send plain requests from our own address, and touch nothing but failn *)
Lemma scan_go_spec c ips : forall s,
  (forall g, In g (snd (scan_go c s ips)) -> exists ip, g = request_to c MAC_BCAST ip) /\
  hunt (fst (scan_go c s ips)) = hunt s /\ loops (fst (scan_go c s ips)) = loops s /\
  closed (fst (scan_go c s ips)) = closed s /\ offers (fst (scan_go c s ips)) = offers s.
Proof.
  induction ips as [|ip r IH]; intros s; simpl; [repeat split; auto; intros g []|].
  destruct ((ip =? router_ip c) || (ip =? host_ip c)); [apply IH|].
  destruct (closed s) eqn:Hc; [simpl; repeat split; auto; intros g []|].
  destruct (wr s (request_to c MAC_BCAST ip)) as [[s1 o] ok] eqn:Hw.
  destruct (wr_state _ _ _ _ _ Hw) as [W1 [W2 [W3 W4]]].
  destruct ok.
  - destruct (scan_go c s1 r) as [s2 o2] eqn:Hs. destruct (IH s1) as [I0 [I1 [I2 [I3 I4]]]].
    rewrite Hs in *. simpl in *. repeat split; try congruence.
    intros g Hin. apply in_app_or in Hin as [Hin|Hin]; [exists ip; eapply wr_out; eauto | auto].
  - simpl. repeat split; auto; try congruence. intros g Hin. exists ip. eapply wr_out; eauto.
Qed.

Lemma whois_go_spec c ip n : forall s,
  (forall g, In g (snd (whois_go c s ip n)) -> g = request_to c MAC_BCAST ip) /\
  hunt (fst (whois_go c s ip n)) = hunt s /\ loops (fst (whois_go c s ip n)) = loops s /\
  closed (fst (whois_go c s ip n)) = closed s /\ offers (fst (whois_go c s ip n)) = offers s.
Proof.
  induction n as [|n IH]; intros s; simpl; [repeat split; auto; intros g []|].
  destruct (wr s (request_to c MAC_BCAST ip)) as [[s1 o] ok] eqn:Hw.
  destruct (wr_state _ _ _ _ _ Hw) as [W1 [W2 [W3 W4]]].
  destruct ok.
  - destruct (whois_go c s1 ip n) as [s2 o2] eqn:Hs. destruct (IH s1) as [I0 [I1 [I2 [I3 I4]]]].
    rewrite Hs in *. simpl in *. repeat split; try congruence.
    intros g Hin. apply in_app_or in Hin as [Hin|Hin]; [eapply wr_out; eauto | auto].
  - simpl. repeat split; auto. intros g Hin. eapply wr_out; eauto.
Qed.

(* ---------------------------------------------------------------- *)
(* list plumbing for the loop table *)

Lemma nth_error_app_l {A} (l : list A) x i y : nth_error l i = Some y -> nth_error (l ++ [x]) i = Some y.
Proof. intros H. rewrite nth_error_app1; auto. apply nth_error_Some. congruence. Qed.

Lemma nth_error_set_nth_neq {A} (l : list A) i j v : i <> j -> nth_error (set_nth i v l) j = nth_error l j.
Proof.
  revert i j. induction l as [|x xs IH]; intros [|i] [|j] H; simpl; auto; try congruence.
Qed.

Lemma nth_error_set_nth_eq {A} (l : list A) i v x : nth_error l i = Some x -> nth_error (set_nth i v l) i = Some v.
Proof.
  revert i. induction l as [|y ys IH]; intros [|i] H; simpl in *; try discriminate; auto.
Qed.

Lemma set_pc_other l i j p : i <> j -> nth_error (set_pc i p l) j = nth_error l j.
Proof.
  intros H. unfold set_pc. destruct (nth_error l i); auto. apply nth_error_set_nth_neq; auto.
Qed.

Lemma set_pc_same l i lp p : nth_error l i = Some lp -> nth_error (set_pc i p l) i = Some (mkLoop (laddr lp) p).
Proof. intros H. unfold set_pc. rewrite H. eapply nth_error_set_nth_eq; eauto. Qed.

Definition count {A} (P : A -> bool) (l : list A) : nat := List.length (filter P l).
Definition b2n (b : bool) : nat := if b then 1%nat else 0%nat.

Lemma count_set_nth {A} (P : A -> bool) l i v x :
  nth_error l i = Some x -> (count P (set_nth i v l) + b2n (P x) = count P l + b2n (P v))%nat.
Proof.
  unfold count. revert i. induction l as [|y ys IH]; intros [|i] H; simpl in *; try discriminate.
  - inversion H; subst. destruct (P x), (P v); simpl; lia.
  - specialize (IH i H). destruct (P y); simpl; lia.
Qed.

Lemma count_app {A} (P : A -> bool) l x : count P (l ++ [x]) = (count P l + b2n (P x))%nat.
Proof. unfold count. rewrite filter_app, app_length. simpl. destruct (P x); reflexivity. Qed.

Lemma count_set_pc (P : loop -> bool) l i lp p :
  nth_error l i = Some lp ->
  (count P (set_pc i p l) + b2n (P lp) = count P l + b2n (P (mkLoop (laddr lp) p)))%nat.
Proof. intros H. unfold set_pc. rewrite H. apply count_set_nth. exact H. Qed.

(* ---------------------------------------------------------------- *)
(* the receive path, decoded packet *)

Lemma rx_arp_cases c s p :
  rx_arp c s p = (s, []) \/
  (closed s = false /\ hunt_has (psmac p) (hunt s) = true /\ ptip p = router_ip c /\
   rx_arp c s p = wr2 s (spoof_reply c p)) \/
  (closed s = false /\ ptip p <> router_ip c /\ rx_arp c s p = wr2 s (probe_reject c p)).
Proof.
  unfold rx_arp. destruct (closed s) eqn:Hc; auto.
  destruct (classify p); auto.
  - destruct (hunt_has (psmac p) (hunt s) && (ptip p =? router_ip c)) eqn:E; auto.
    apply andb_true_iff in E as [E1 E2]. right; left. repeat split; auto. lia.
  - destruct (offer_of _ _); auto.
    destruct (negb (i =? ptip p) && (in_lan c (ptip p) && negb (ptip p =? router_ip c))) eqn:E; auto.
    right; right. apply andb_true_iff in E as [_ E]. apply andb_true_iff in E as [_ E].
    repeat split; auto. apply negb_true_iff in E. lia.
Qed.

Lemma rx_arp_state c s p :
  hunt (fst (rx_arp c s p)) = hunt s /\ loops (fst (rx_arp c s p)) = loops s /\
  closed (fst (rx_arp c s p)) = closed s /\ offers (fst (rx_arp c s p)) = offers s.
Proof.
  destruct (rx_arp_cases c s p) as [E|[[_ [_ [_ E]]]|[_ [_ E]]]]; rewrite E; simpl; auto; apply wr2_state.
Qed.

(* every forged frame the receive path emits goes to a hunted MAC *)
Lemma rx_arp_confined c s p f :
  In f (snd (rx_arp c s p)) -> forged c f = true -> hunted s (fedst f) = true.
Proof.
  intros Hin Hf. destruct (rx_arp_cases c s p) as [E|[[_ [Hh [_ E]]]|[_ [Hne E]]]]; rewrite E in Hin.
  - contradiction.
  - apply wr2_out in Hin. subst f. exact Hh.
  - apply wr2_out in Hin. subst f. unfold forged, probe_reject in Hf. simpl in Hf.
    apply andb_true_iff in Hf as [Hf _]. exfalso. apply Hne. lia.
Qed.


(* ---------------------------------------------------------------- *)
(* raw frames: ProcessPacket is total; a frame is ignored or is exactly its decoded packet *)

Ltac dnegb := match goal with |- context [if negb ?b then _ else _] => destruct b; simpl end.

Lemma arp_is_valid_shape l :
  arp_is_valid (of_bytes l) = Ok tt \/ exists e, arp_is_valid (of_bytes l) = Err e.
Proof.
  unfold arp_is_valid, ARP_LEN.
  destruct (Nat.ltb_spec (len (of_bytes l)) 28) as [Hlt|Hge]; [right; eauto|].
  assert (Hc : cap (of_bytes l) = List.length l) by reflexivity.
  assert (Hl : len (of_bytes l) = List.length l) by reflexivity.
  rewrite be16_at_ok by lia. cbn [bind]. dnegb; [|right; eauto].
  rewrite be16_at_ok by lia. cbn [bind]. dnegb; [|right; eauto].
  rewrite idx_ok by lia. cbn [bind]. dnegb; [|right; eauto].
  rewrite idx_ok by lia. cbn [bind]. dnegb; [left; reflexivity|right; eauto].
Qed.

Lemma arp_is_valid_len l : arp_is_valid (of_bytes l) = Ok tt -> (28 <= List.length l)%nat.
Proof.
  unfold arp_is_valid, ARP_LEN.
  destruct (Nat.ltb_spec (len (of_bytes l)) 28) as [Hlt|Hge]; [discriminate|auto].
Qed.

Definition decoded (m : mac) (l : bytes) : arp_pkt :=
  mkPkt (be16 (nth 6 l 0) (nth 7 l 0)) m
        (N_of_bytes (firstn 6 (skipn 8 l))) (N_of_bytes (firstn 4 (skipn 14 l)))
        (N_of_bytes (firstn 6 (skipn 18 l))) (N_of_bytes (firstn 4 (skipn 24 l))).

Lemma arp_decode_ok m l : (28 <= List.length l)%nat -> arp_decode m (of_bytes l) = Ok (decoded m l).
Proof.
  intros H. unfold arp_decode.
  assert (Hc : cap (of_bytes l) = List.length l) by reflexivity.
  rewrite be16_at_ok by lia. cbn [bind].
  rewrite !sl_ok by lia. cbn [bind]. reflexivity.
Qed.

Theorem process_raw_total : forall c s et b,
  (exists e, process_raw c s et b = Err e) \/ (exists p, process_raw c s et b = Ok (rx_arp c s p)).
Proof.
  intros c s et b. unfold process_raw. destruct (negb (et =? ETH_P_ARP)); [left; eauto|].
  destruct (arp_is_valid_shape b) as [Hv|[e Hv]]; rewrite Hv; simpl; [|left; eauto].
  rewrite (arp_decode_ok 0 b (arp_is_valid_len b Hv)). simpl. right; eauto.
Qed.

Corollary process_raw_no_panic : forall c s et b,
  process_raw c s et b <> Panic /\ process_raw c s et b <> Fuel.
Proof.
  intros c s et b. destruct (process_raw_total c s et b) as [[e H]|[p H]]; rewrite H; split; discriminate.
Qed.

Lemma rx_raw_cases c s et b :
  step c s (RxRaw et b) = (s, []) \/ exists p, step c s (RxRaw et b) = rx_arp c s p.
Proof.
  simpl. destruct (process_raw_total c s et b) as [[e H]|[p H]]; rewrite H; [left; auto|right; eauto].
Qed.

(* ---------------------------------------------------------------- *)
(* what each step does to hunt / closed / loops *)

Lemma lookup_state s i : hunt (fst (lookup s i)) = hunt s /\ closed (fst (lookup s i)) = closed s.
Proof.
  unfold lookup. destruct (nth_error (loops s) i) as [lp|]; auto. destruct (lpc lp); auto.
Qed.
Lemma check_state c s i : hunt (fst (check c s i)) = hunt s /\ closed (fst (check c s i)) = closed s.
Proof.
  unfold check. destruct (nth_error (loops s) i) as [lp|]; auto. destruct (lpc lp); auto.
Qed.
Lemma send_state s i : hunt (fst (send s i)) = hunt s /\ closed (fst (send s i)) = closed s.
Proof.
  unfold send. destruct (nth_error (loops s) i) as [lp|]; auto. destruct (lpc lp); auto.
  destruct (wr s f) as [[s1 o] ok] eqn:E. destruct (wr_state _ _ _ _ _ E) as [H1 [_ [H3 _]]]. simpl. auto.
Qed.

Lemma step_hunt_closed c s e :
  match e with StartHunt _ | StopHunt _ | Close => True
  | _ => hunt (fst (step c s e)) = hunt s /\ closed (fst (step c s e)) = closed s end.
Proof.
  destruct e; simpl; auto.
  - apply lookup_state. - apply check_state. - apply send_state.
  - destruct (rx_arp_state c s p) as [H1 [_ [H3 _]]]; auto.
  - destruct (rx_raw_cases c s ethertype payload) as [E|[p E]]; simpl in E; rewrite E; auto.
    destruct (rx_arp_state c s p) as [H1 [_ [H3 _]]]; auto.
  - destruct (wr2_state s (request_to c MAC_BCAST ip)) as [H1 [_ [H3 _]]]; auto.
  - destruct (wr2_state s (request_to c dst ip)) as [H1 [_ [H3 _]]]; auto.
  - destruct (wr2_state s (probe_frame c ip)) as [H1 [_ [H3 _]]]; auto.
  - destruct (wr2_state s (announce_ip c dst ip)) as [H1 [_ [H3 _]]]; auto.
  - destruct (wr2_state s (request_raw dst sender target)) as [H1 [_ [H3 _]]]; auto.
  - destruct (wr2_state s (reply_raw dst sender target)) as [H1 [_ [H3 _]]]; auto.
  - destruct (scan_go_spec c (scan_ips c) s) as [_ [H1 [_ [H3 _]]]]; auto.
  - destruct (whois_go_spec c ip (Nat.min tries 3) s) as [_ [H1 [_ [H3 _]]]]; auto.
Qed.

Lemma step_closed c s e : is_close e = false -> closed (fst (step c s e)) = closed s.
Proof.
  intros H. pose proof (step_hunt_closed c s e) as G. destruct e; try (apply G); try discriminate; simpl.
  - unfold start_hunt. destruct (hunt_has _ _); auto.
  - reflexivity.
Qed.

Lemma step_closed_mono c s e : closed s = true -> closed (fst (step c s e)) = true.
Proof.
  intros H. destruct (is_close e) eqn:E.
  - destruct e; try discriminate. reflexivity.
  - rewrite step_closed; auto.
Qed.

Lemma step_unhunted c s e m :
  is_start_of m e = false -> hunted s m = false -> hunted (fst (step c s e)) m = false.
Proof.
  unfold hunted. intros H Hh. pose proof (step_hunt_closed c s e) as G.
  destruct e; try (destruct G as [G _]; rewrite G; exact Hh); simpl in *.
  - unfold start_hunt. destruct (hunt_has (amac a) (hunt s)); simpl; auto.
    rewrite hunt_has_app, Hh, H. reflexivity.
  - destruct (N.eq_dec m m0) as [->|Hne].
    + apply hunt_has_del_same.
    + rewrite hunt_has_del_other; auto.
  - exact Hh.
Qed.

(* the loop table: only loop i's own events move loop i; nobody else's events change its address *)
Lemma step_loops_shape c s e :
  (exists i p, is_loop_event i e = true /\ loops (fst (step c s e)) = set_pc i p (loops s)) \/
  (exists a, loops (fst (step c s e)) = loops s ++ [mkLoop a PTop]) \/
  loops (fst (step c s e)) = loops s.
Proof.
  destruct e; simpl; auto.
  - unfold start_hunt. destruct (hunt_has _ _); simpl; eauto.
  - unfold lookup. destruct (nth_error (loops s) i) as [lp|]; auto. destruct (lpc lp); auto; simpl;
      left; eexists i, _; rewrite Nat.eqb_refl; eauto.
  - unfold check. destruct (nth_error (loops s) i) as [lp|]; auto. destruct (lpc lp); auto; simpl.
    left; eexists i, _; rewrite Nat.eqb_refl; eauto.
  - unfold send. destruct (nth_error (loops s) i) as [lp|]; auto. destruct (lpc lp); auto.
    destruct (wr s f) as [[s1 o] ok] eqn:E. destruct (wr_state _ _ _ _ _ E) as [_ [H2 _]]. simpl.
    left; eexists i, _; rewrite Nat.eqb_refl, H2; eauto.
  - destruct (rx_arp_state c s p) as [_ [H2 _]]; auto.
  - destruct (rx_raw_cases c s ethertype payload) as [E|[p E]]; simpl in E; rewrite E; auto.
    destruct (rx_arp_state c s p) as [_ [H2 _]]; auto.
  - destruct (wr2_state s (request_to c MAC_BCAST ip)) as [_ [H2 _]]; auto.
  - destruct (wr2_state s (request_to c dst ip)) as [_ [H2 _]]; auto.
  - destruct (wr2_state s (probe_frame c ip)) as [_ [H2 _]]; auto.
  - destruct (wr2_state s (announce_ip c dst ip)) as [_ [H2 _]]; auto.
  - destruct (wr2_state s (request_raw dst sender target)) as [_ [H2 _]]; auto.
  - destruct (wr2_state s (reply_raw dst sender target)) as [_ [H2 _]]; auto.
  - destruct (scan_go_spec c (scan_ips c) s) as [_ [_ [H2 _]]]; auto.
  - destruct (whois_go_spec c ip (Nat.min tries 3) s) as [_ [_ [H2 _]]]; auto.
Qed.

Lemma is_loop_event_inj i j e : is_loop_event i e = true -> is_loop_event j e = true -> i = j.
Proof.
  destruct e; simpl; try discriminate; intros H1 H2; apply Nat.eqb_eq in H1, H2; congruence.
Qed.

Lemma step_loop_kept c s e i lp :
  is_loop_event i e = false -> nth_error (loops s) i = Some lp ->
  nth_error (loops (fst (step c s e))) i = Some lp.
Proof.
  intros H Hl. destruct (step_loops_shape c s e) as [[j [p [Hj E]]]|[[a E]|E]]; rewrite E; auto.
  - rewrite set_pc_other; auto. intro. subst. congruence.
  - apply nth_error_app_l; auto.
Qed.

(* ---------------------------------------------------------------- *)
(* confinement, one step, any state, the public API included *)

Lemma send_out s i s' out f :
  send s i = (s', out) -> In f out ->
  exists lp cont, nth_error (loops s) i = Some lp /\ lpc lp = PSend f cont.
Proof.
  unfold send. intros H Hin. destruct (nth_error (loops s) i) as [lp|] eqn:Hl; [|inversion H; subst; contradiction].
  destruct (lpc lp) eqn:Hp; try (inversion H; subst; contradiction).
  destruct (wr s f0) as [[s1 o] ok] eqn:E. inversion H; subst.
  pose proof (wr_out _ _ _ _ _ _ E Hin). subst. eauto.
Qed.

Ltac apiout Hs Hin :=
  let E := fresh "E" in
  pose proof (f_equal snd Hs) as E; cbn [snd] in E; rewrite <- E in Hin; apply wr2_out in Hin; subst.

Theorem confined_step : forall c s e s' out f,
  cfg_ok c -> step c s e = (s', out) -> In f out -> forged c f = true ->
  caller_forged c e = true \/
  hunted s (fedst f) = true \/
  (exists i lp, e = Send i /\ nth_error (loops s) i = Some lp /\ armed_pc c (fedst f) (lpc lp) = true).
Proof.
  intros c s e s' out f Hc Hs Hin Hf.
  destruct e; simpl in Hs; simpl caller_forged.
  - unfold start_hunt in Hs. destruct (hunt_has _ _); inversion Hs; subst; contradiction.
  - inversion Hs; subst; contradiction.
  - inversion Hs; subst; contradiction.
  - inversion Hs; subst; contradiction.
  - unfold lookup in Hs. destruct (nth_error _ _) as [lp|]; [destruct (lpc lp)|]; inversion Hs; subst; contradiction.
  - unfold check in Hs. destruct (nth_error _ _) as [lp|]; [destruct (lpc lp)|]; inversion Hs; subst; contradiction.
  - destruct (send_out _ _ _ _ _ Hs Hin) as [lp [cont [Hl Hp]]].
    right; right. exists i, lp. repeat split; auto. rewrite Hp. simpl. rewrite Hf, N.eqb_refl. reflexivity.
  - right; left. apply (rx_arp_confined c s p f); auto. rewrite Hs. exact Hin.
  - destruct (rx_raw_cases c s ethertype payload) as [E|[p E]]; simpl in E; rewrite E in Hs.
    + inversion Hs; subst; contradiction.
    + right; left. apply (rx_arp_confined c s p f); auto. rewrite Hs. exact Hin.
  - inversion Hs; subst; contradiction.
  - inversion Hs; subst; contradiction.
  - apiout Hs Hin.
    rewrite request_to_not_forged in Hf by auto. discriminate.
  - apiout Hs Hin.
    rewrite request_to_not_forged in Hf by auto. discriminate.
  - apiout Hs Hin.
    rewrite probe_frame_not_forged in Hf by auto. discriminate.
  - apiout Hs Hin.
    left. unfold forged, announce_ip in Hf. simpl in Hf. apply andb_true_iff in Hf. tauto.
  - apiout Hs Hin. left. exact Hf.
  - apiout Hs Hin. left. exact Hf.
  - destruct (scan_go_spec c (scan_ips c) s) as [H0 _]. rewrite Hs in H0. destruct (H0 f Hin) as [ip ->].
    rewrite request_to_not_forged in Hf by auto. discriminate.
  - destruct (whois_go_spec c ip (Nat.min tries 3) s) as [H0 _]. rewrite Hs in H0. rewrite (H0 f Hin) in Hf.
    rewrite request_to_not_forged in Hf by auto. discriminate.
Qed.

(* which public calls can forge at all, and exactly when *)
Theorem api_forges_iff : forall c s e f,
  cfg_ok c -> is_api_send e = true -> In f (snd (step c s e)) ->
  (forged c f = true <-> caller_forged c e = true).
Proof.
  intros c s e f Hc Ha Hin. split.
  - intros Hf. destruct (step c s e) as [s' out] eqn:Hs.
    destruct (confined_step c s e s' out f Hc Hs Hin Hf) as [H|[H|[i [lp [H _]]]]]; auto.
    + destruct e; try discriminate; simpl in *.
      * apiout Hs Hin.
        rewrite request_to_not_forged in Hf by auto. discriminate.
      * apiout Hs Hin.
        rewrite request_to_not_forged in Hf by auto. discriminate.
      * apiout Hs Hin.
        rewrite probe_frame_not_forged in Hf by auto. discriminate.
      * apiout Hs Hin.
        unfold forged, announce_ip in Hf. simpl in Hf. apply andb_true_iff in Hf. tauto.
      * apiout Hs Hin. exact Hf.
      * apiout Hs Hin. exact Hf.
      * destruct (scan_go_spec c (scan_ips c) s) as [H0 _]. rewrite Hs in H0. destruct (H0 f Hin) as [ip ->].
        rewrite request_to_not_forged in Hf by auto. discriminate.
      * destruct (whois_go_spec c ip (Nat.min tries 3) s) as [H0 _]. rewrite Hs in H0. rewrite (H0 f Hin) in Hf.
        rewrite request_to_not_forged in Hf by auto. discriminate.
    + subst e. discriminate.
  - intros Hcf. destruct e; try discriminate; simpl in *.
    + apply wr2_out in Hin. subst f. unfold forged, announce_ip. simpl. rewrite Hcf, N.eqb_refl. reflexivity.
    + apply wr2_out in Hin. subst f. exact Hcf.
    + apply wr2_out in Hin. subst f. exact Hcf.
Qed.
