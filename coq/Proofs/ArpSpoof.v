(* Proofs/ArpSpoof.v — proofs about the event-system model of the ARP spoofer (C13). *)
From PV Require Import Base.Prelude Model.ArpSpoof Spec.ArpSpoof.
Open Scope N_scope.

(* ---------------------------------------------------------------- *)
(* small facts about the hunt list *)

Lemma hunt_has_spec m h : hunt_has m h = true <-> exists e, In e h /\ amac e = m.
Proof.
  unfold hunt_has. rewrite existsb_exists. split; intros [e [Hin He]]; exists e; split; auto; lia.
Qed.

Lemma hunt_has_false m h : hunt_has m h = false <-> forall e, In e h -> amac e <> m.
Proof.
  split.
  - intros H e Hin Heq. assert (hunt_has m h = true) by (apply hunt_has_spec; eauto). congruence.
  - intros H. destruct (hunt_has m h) eqn:E; auto. apply hunt_has_spec in E as [e [Hin He]].
    exfalso; eapply H; eauto.
Qed.

Lemma hunt_find_some m h t : hunt_find m h = Some t -> In t h /\ amac t = m.
Proof. unfold hunt_find. intros H. apply find_some in H as [H1 H2]. split; auto. lia. Qed.

Lemma hunt_find_none m h : hunt_find m h = None <-> hunt_has m h = false.
Proof.
  unfold hunt_find. split.
  - intros H. apply hunt_has_false. intros e Hin He.
    apply (find_none _ _ H) in Hin. lia.
  - intros H. destruct (find _ h) as [t|] eqn:F; auto.
    apply find_some in F as [F1 F2]. rewrite hunt_has_false in H. exfalso. apply (H t F1). lia.
Qed.

Lemma hunt_del_in m h e : In e (hunt_del m h) <-> In e h /\ amac e <> m.
Proof.
  unfold hunt_del. rewrite filter_In. split; intros [H1 H2]; split; auto; lia.
Qed.

Lemma hunt_has_del_same m h : hunt_has m (hunt_del m h) = false.
Proof. apply hunt_has_false. intros e Hin. apply hunt_del_in in Hin. tauto. Qed.

Lemma hunt_has_del_other m m' h : m <> m' -> hunt_has m (hunt_del m' h) = hunt_has m h.
Proof.
  intros Hne. destruct (hunt_has m h) eqn:E.
  - apply hunt_has_spec in E as [e [Hin He]]. apply hunt_has_spec. exists e. split; auto.
    apply hunt_del_in. split; auto. congruence.
  - apply hunt_has_false. intros e Hin. apply hunt_del_in in Hin as [Hin _].
    rewrite hunt_has_false in E. auto.
Qed.

Lemma hunt_has_app m h a : hunt_has m (h ++ [a]) = hunt_has m h || (amac a =? m).
Proof. unfold hunt_has. rewrite existsb_app. simpl. rewrite orb_false_r. reflexivity. Qed.

(* ---------------------------------------------------------------- *)
(* frames *)

Lemma restore_not_forged c m : cfg_ok c -> forged c (restore c m) = false.
Proof.
  unfold cfg_ok, forged, restore. simpl. intros H.
  destruct (router_mac c =? host_mac c) eqn:E; [exfalso; apply H; lia|]. apply andb_false_r.
Qed.

Lemma announce_forged c m : forged c (announce c m) = true.
Proof. unfold forged, announce. simpl. rewrite !N.eqb_refl. reflexivity. Qed.

(* ---------------------------------------------------------------- *)
(* C13_confined: one step, any state *)

Lemma wake_out c s i s' out f :
  wake c s i = (s', out) -> In f out ->
  exists lp, nth_error (loops s) i = Some lp /\ alive lp = true /\ closed s = false /\
    ((hunted s (amac (laddr lp)) = true /\ f = announce c (amac (laddr lp)) /\ s' = s)
     \/ (hunted s (amac (laddr lp)) = false /\ f = restore c (amac (laddr lp))
         /\ s' = set_loops s (kill i (loops s)))).
Proof.
  unfold wake. intros H Hin.
  destruct (nth_error (loops s) i) as [lp|] eqn:Hn; [|inversion H; subst; contradiction].
  destruct (alive lp) eqn:Ha; simpl in H; [|inversion H; subst; contradiction].
  exists lp. split; auto. split; auto.
  destruct (hunt_find (amac (laddr lp)) (hunt s)) as [t|] eqn:Hf;
    destruct (closed s) eqn:Hc; inversion H; subst; try contradiction;
    destruct Hin as [Hin|[]]; subst f; (split; [reflexivity|]).
  - left. apply hunt_find_some in Hf as [Hf1 Hf2]. rewrite Hf2. split; auto.
    unfold hunted. apply hunt_has_spec. exists t. auto.
  - right. apply hunt_find_none in Hf. auto.
Qed.

Lemma confined_step c s e s' out f :
  cfg_ok c -> step c s e = (s', out) -> In f out -> forged c f = true ->
  hunted s (fedst f) = true.
Proof.
  intros Hc Hs Hin Hf. destruct e; simpl in Hs.
  - unfold start_hunt in Hs. destruct (hunt_has _ _); inversion Hs; subst; contradiction.
  - inversion Hs; subst; contradiction.
  - unfold stop_hunt in Hs. inversion Hs; subst; contradiction.
  - inversion Hs; subst; contradiction.
  - destruct (wake_out _ _ _ _ _ _ Hs Hin) as [lp [_ [_ [_ [[Ht [Hfe _]]|[_ [Hfe _]]]]]]].
    + subst f. simpl. exact Ht.
    + subst f. rewrite restore_not_forged in Hf by auto. discriminate.
  - unfold rx_arp in Hs.
    destruct (closed s) eqn:Hclo; [inversion Hs; subst; contradiction|].
    destruct (classify p) eqn:Hcl; try (inversion Hs; subst; contradiction).
    + destruct (hunt_has (psmac p) (hunt s) && (ptip p =? router_ip c)) eqn:Hh;
        inversion Hs; subst; try contradiction.
      destruct Hin as [Hin|[]]; subst f. simpl. unfold hunted.
      apply andb_true_iff in Hh. tauto.
    + destruct (offer_of (psmac p) (offers s)) as [o|] eqn:Ho; [|inversion Hs; subst; contradiction].
      destruct (negb (o =? ptip p) && (in_lan c (ptip p) && negb (ptip p =? router_ip c))) eqn:Hd;
        inversion Hs; subst; try contradiction.
      destruct Hin as [Hin|[]]; subst f.
      (* the probe-reject never carries the router's address, so it is not forged *)
      unfold forged, probe_reject in Hf. simpl in Hf. apply andb_true_iff in Hf as [Hf1 _].
      rewrite Hf1 in Hd. simpl in Hd. rewrite !andb_false_r in Hd. discriminate.
  - inversion Hs; subst; contradiction.
Qed.

(* over all event sequences: every position of every run *)
Lemma trace_in c s evs x :
  In x (trace c s evs) -> exists s' , step c (fst (fst x)) (snd (fst x)) = (s', snd x).
Proof.
  revert s. induction evs as [|e r IH]; intros s Hin; simpl in Hin; [contradiction|].
  destruct (step c s e) as [s1 out] eqn:Hs. destruct Hin as [Hin|Hin].
  - subst x. simpl. eauto.
  - eapply IH; eauto.
Qed.

Theorem confined : forall c evs s e out f,
  cfg_ok c ->
  In (s, e, out) (trace c init_state evs) -> In f out -> forged c f = true ->
  hunted s (fedst f) = true.
Proof.
  intros c evs s e out f Hc Hin Hf Hfo.
  apply trace_in in Hin as [s' Hs]. simpl in Hs. eapply confined_step; eauto.
Qed.

Definition wit_cfg : cfg := mkCfg 366503875925 439804651110 3232235531 3232235520 24.
  (* host 00:55:55:55:55:55, router 00:66:66:66:66:66 192.168.0.11, LAN 192.168.0.0/24 *)
Definition wit_m3 : mac := 2199023255555.  (* 02:00:00:00:00:03 *)

(* non-vacuity of confined: a run that does emit forged frames (to hunted hosts), and the history that
   defeated the code before the repair of K1 (probe for the router address with another offer): now silent *)
Definition wit_m1 : mac := 2199023255553.
Definition wit_hunt_run : list event :=
  [StartHunt (mkAddr wit_m1 3232235522); Wake 0;
   RxArp (mkPkt 1 wit_m1 wit_m1 3232235522 0 3232235531)].

Example confined_nonvacuous :
  cfg_ok wit_cfg /\
  outputs wit_cfg init_state wit_hunt_run =
    [[]; [announce wit_cfg wit_m1]; [mkFrame 2 wit_m1 (host_mac wit_cfg) (router_ip wit_cfg) wit_m1 3232235522]] /\
  outputs wit_cfg init_state
    [SetOffer wit_m3 (Some 3232235522); RxArp (mkPkt 1 wit_m3 wit_m3 0 0 3232235531);
     RxArp (mkPkt 1 wit_m3 wit_m3 0 0 3232235523)] =
    [[]; []; [probe_reject wit_cfg (mkPkt 1 wit_m3 wit_m3 0 0 3232235523)]].
Proof. split; [unfold cfg_ok; simpl; lia|]. split; vm_compute; reflexivity. Qed.

(* ---------------------------------------------------------------- *)
(* C13_start_idempotent *)

Theorem start_idempotent : forall c s a,
  hunted s (amac a) = true -> step c s (StartHunt a) = (s, []).
Proof. intros c s a H. simpl. unfold start_hunt. unfold hunted in H. rewrite H. reflexivity. Qed.

(* and a StartHunt of a MAC that is not hunted starts exactly one loop for it *)
Theorem start_fresh : forall c s a,
  hunted s (amac a) = false ->
  exists s', step c s (StartHunt a) = (s', []) /\ hunted s' (amac a) = true /\
             loops s' = loops s ++ [mkLoop a true] /\ closed s' = closed s.
Proof.
  intros c s a H. simpl. unfold start_hunt. unfold hunted in H. rewrite H.
  eexists. split; [reflexivity|]. simpl. split; auto.
  unfold hunted. simpl. rewrite hunt_has_app, N.eqb_refl. apply orb_true_r.
Qed.

(* ---------------------------------------------------------------- *)
(* receive path = spec, for every state and packet *)

Lemma link_local_zero : link_local 0 = false.
Proof. reflexivity. Qed.

Theorem rx_spec : forall c s p,
  step c s (RxArp p) =
  (s, if closed s then []
      else if sp_is_probe p
      then (if sp_reject_cond c (offer_of (psmac p) (offers s)) p then [probe_reject c p] else [])
      else (if sp_asks_router c p && hunted s (psmac p) then [spoof_reply c p] else [])).
Proof.
  intros c s p. simpl. unfold rx_arp. destruct (closed s); [reflexivity|].
  unfold classify, sp_is_probe, sp_reject_cond, sp_is_probe, sp_asks_router, hunted, IP4_ZERO.
  destruct (psip p =? 0) eqn:Es.
  - assert (Hs : psip p = 0) by lia. rewrite Hs in *. rewrite link_local_zero. simpl.
    destruct (link_local (ptip p)) eqn:Elt; simpl.
    + destruct (pop p =? 1), (ptip p =? 0); simpl; try reflexivity;
        rewrite ?andb_false_r; reflexivity.
    + destruct (pop p =? 2) eqn:E2.
      * assert (pop p =? 1 = false) by lia. rewrite H. simpl. reflexivity.
      * destruct (pop p =? 1) eqn:E1; simpl; [|reflexivity].
        destruct (0 =? ptip p) eqn:Et.
        -- assert (ptip p =? 0 = true) by lia. rewrite H. simpl. rewrite ?andb_false_r. reflexivity.
        -- assert (ptip p =? 0 = false) by lia. rewrite H. simpl.
           destruct (offer_of (psmac p) (offers s)); [rewrite <- andb_assoc; destruct (_ && _)|]; reflexivity.
  - rewrite !andb_false_r. simpl.
    destruct (link_local (psip p)) eqn:Els; simpl.
    + rewrite ?andb_false_r. reflexivity.
    + destruct (link_local (ptip p)) eqn:Elt; simpl.
      * rewrite ?andb_false_r. reflexivity.
      * destruct (pop p =? 2) eqn:E2.
        -- assert (pop p =? 1 = false) by lia. rewrite H. reflexivity.
        -- destruct (pop p =? 1) eqn:E1; simpl; [|reflexivity].
           destruct (psip p =? ptip p) eqn:Est; simpl.
           ++ rewrite ?andb_false_r. reflexivity.
           ++ rewrite !andb_true_r. rewrite andb_comm. destruct (_ && _); reflexivity.
Qed.

(* ---------------------------------------------------------------- *)
(* invariants along runs *)

Lemma final_app c s a b : final c s (a ++ b) = final c (final c s a) b.
Proof. revert s. induction a as [|e r IH]; intros s; simpl; auto. Qed.

Lemma final_inv (P : state -> Prop) (ok : event -> bool) c :
  (forall s e, P s -> ok e = true -> P (fst (step c s e))) ->
  forall evs s, P s -> forallb ok evs = true -> P (final c s evs).
Proof.
  intros Hstep evs. induction evs as [|e r IH]; intros s Hs Hok; simpl in *; auto.
  apply andb_true_iff in Hok as [H1 H2]. apply IH; auto.
Qed.

Lemma trace_inv (P : state -> Prop) (ok : event -> bool) c :
  (forall s e, P s -> ok e = true -> P (fst (step c s e))) ->
  forall evs s x, P s -> forallb ok evs = true -> In x (trace c s evs) -> P (fst (fst x)).
Proof.
  intros Hstep evs. induction evs as [|e r IH]; intros s x Hs Hok Hin; simpl in *; [contradiction|].
  apply andb_true_iff in Hok as [H1 H2].
  destruct (step c s e) as [s1 out] eqn:Est. destruct Hin as [Hin|Hin].
  - subst x. exact Hs.
  - apply (IH s1 x); auto. specialize (Hstep s e Hs H1). rewrite Est in Hstep. exact Hstep.
Qed.

(* what each step does to closed / hunt / loops *)

Lemma wake_closed c s i : closed (fst (wake c s i)) = closed s.
Proof.
  unfold wake. destruct (nth_error (loops s) i) as [lp|]; auto.
  destruct (alive lp); simpl; auto.
  destruct (hunt_find _ _); destruct (closed s) eqn:E; simpl; auto.
Qed.

Lemma wake_hunt c s i : hunt (fst (wake c s i)) = hunt s.
Proof.
  unfold wake. destruct (nth_error (loops s) i) as [lp|]; auto.
  destruct (alive lp); simpl; auto.
  destruct (hunt_find _ _); destruct (closed s); simpl; auto.
Qed.

Lemma rx_state c s p : fst (rx_arp c s p) = s.
Proof.
  unfold rx_arp. destruct (closed s); auto. destruct (classify p); auto.
  - destruct (_ && _); auto.
  - destruct (offer_of _ _); auto. destruct (_ && _); auto.
Qed.

Lemma step_closed c s e : is_close e = false -> closed (fst (step c s e)) = closed s.
Proof.
  destruct e; simpl; intros H; try discriminate; auto.
  - unfold start_hunt. destruct (hunt_has _ _); auto.
  - apply wake_closed.
  - rewrite rx_state. auto.
Qed.

Lemma step_closed_mono c s e : closed s = true -> closed (fst (step c s e)) = true.
Proof.
  intros H. destruct (is_close e) eqn:E.
  - destruct e; try discriminate. reflexivity.
  - rewrite step_closed; auto.
Qed.

Lemma step_unhunted c s e m :
  is_start_of m e = false -> hunted s m = false -> hunted (fst (step c s e)) m = false.
Proof.
  unfold hunted. destruct e; simpl; intros H Hh; auto.
  - unfold start_hunt. destruct (hunt_has (amac a) (hunt s)); simpl; auto.
    rewrite hunt_has_app, Hh, H. reflexivity.
  - destruct (N.eq_dec m m0) as [->|Hne].
    + apply hunt_has_del_same.
    + rewrite hunt_has_del_other; auto.
  - rewrite wake_hunt. auto.
  - rewrite rx_state. auto.
Qed.

Lemma nth_error_app_l {A} (l : list A) x i y : nth_error l i = Some y -> nth_error (l ++ [x]) i = Some y.
Proof. intros H. rewrite nth_error_app1; auto. apply nth_error_Some. congruence. Qed.

Lemma nth_error_set_nth_neq {A} (l : list A) i j v : i <> j -> nth_error (set_nth i v l) j = nth_error l j.
Proof.
  revert i j. induction l as [|x xs IH]; intros [|i] [|j] H; simpl; auto; try congruence.
Qed.

Lemma nth_error_set_nth_eq {A} (l : list A) i v x : nth_error l i = Some x -> nth_error (set_nth i v l) i = Some v.
Proof.
  revert i. induction l as [|y ys IH]; intros [|i] H; simpl in *; try discriminate; auto.
Qed.

Lemma kill_other l i j : i <> j -> nth_error (kill i l) j = nth_error l j.
Proof.
  intros H. unfold kill. destruct (nth_error l i); auto. apply nth_error_set_nth_neq; auto.
Qed.

Lemma kill_same l i lp : nth_error l i = Some lp -> nth_error (kill i l) i = Some (mkLoop (laddr lp) false).
Proof. intros H. unfold kill. rewrite H. eapply nth_error_set_nth_eq; eauto. Qed.

Lemma wake_loops_other c s i j :
  i <> j -> nth_error (loops (fst (wake c s i))) j = nth_error (loops s) j.
Proof.
  intros Hne. unfold wake. destruct (nth_error (loops s) i) as [lp|] eqn:E; auto.
  destruct (alive lp); simpl; auto.
  destruct (hunt_find _ _); destruct (closed s); simpl; auto; apply kill_other; auto.
Qed.

Lemma step_loop_kept c s e i lp :
  is_wake_of i e = false -> nth_error (loops s) i = Some lp -> nth_error (loops (fst (step c s e))) i = Some lp.
Proof.
  destruct e; simpl; intros H Hl; auto.
  - unfold start_hunt. destruct (hunt_has _ _); simpl; auto. apply nth_error_app_l; auto.
  - rewrite wake_loops_other; auto. intro. subst. rewrite Nat.eqb_refl in H. discriminate.
  - rewrite rx_state. auto.
Qed.

(* a loop that has returned never comes back and never sends *)
Lemma step_dead_stays c s e i a :
  loop_is s i a false -> loop_is (fst (step c s e)) i a false.
Proof.
  unfold loop_is. intros Hl. destruct (is_wake_of i e) eqn:E.
  - destruct e; try discriminate. simpl in E. apply Nat.eqb_eq in E. subst i0.
    simpl. unfold wake. rewrite Hl. simpl. exact Hl.
  - apply step_loop_kept; auto.
Qed.

Lemma wake_dead_silent c s i a : loop_is s i a false -> step c s (Wake i) = (s, []).
Proof. unfold loop_is. intros Hl. simpl. unfold wake. rewrite Hl. reflexivity. Qed.

(* ---------------------------------------------------------------- *)
(* C13_stop_undone *)

Lemma stop_wake_restores c s i a :
  loop_is s i a true -> closed s = false -> hunted s (amac a) = false ->
  step c s (Wake i) = (set_loops s (kill i (loops s)), [restore c (amac a)]).
Proof.
  unfold loop_is. intros Hl Hc Hh. simpl. unfold wake. rewrite Hl. simpl.
  apply hunt_find_none in Hh. rewrite Hh, Hc. reflexivity.
Qed.

(* while its MAC is hunted (and the handler open) a running loop announces to its own MAC and keeps running *)
Lemma hunted_wake_announces c s i a :
  loop_is s i a true -> closed s = false -> hunted s (amac a) = true ->
  step c s (Wake i) = (s, [announce c (amac a)]).
Proof.
  unfold loop_is, hunted. intros Hl Hc Hh. simpl. unfold wake. rewrite Hl. simpl.
  destruct (hunt_find (amac a) (hunt s)) as [t|] eqn:Hf.
  - apply hunt_find_some in Hf as [_ Hf]. rewrite Hc, Hf. reflexivity.
  - apply hunt_find_none in Hf. congruence.
Qed.

Definition stop_inv (i : nat) (a : addr) (s : state) : Prop :=
  loop_is s i a true /\ closed s = false /\ hunted s (amac a) = false.

Definition stop_ok (i : nat) (m : mac) (e : event) : bool :=
  negb (is_wake_of i e) && negb (is_close e) && negb (is_start_of m e).

Lemma stop_inv_step c i a s e :
  stop_inv i a s -> stop_ok i (amac a) e = true -> stop_inv i a (fst (step c s e)).
Proof.
  unfold stop_inv, stop_ok, loop_is. intros [H1 [H2 H3]] Hok.
  apply andb_true_iff in Hok as [Hok Hs]. apply andb_true_iff in Hok as [Hw Hcl].
  apply negb_true_iff in Hw, Hcl, Hs.
  split; [apply step_loop_kept; auto|]. split; [rewrite step_closed; auto|].
  apply step_unhunted; auto.
Qed.

Lemma none_of_and3 i m evs :
  none_of (is_wake_of i) evs -> none_of is_close evs -> none_of (is_start_of m) evs ->
  forallb (stop_ok i m) evs = true.
Proof.
  unfold none_of, stop_ok. induction evs as [|e r IH]; simpl; auto.
  intros H1 H2 H3. apply andb_true_iff in H1 as [A1 B1]. apply andb_true_iff in H2 as [A2 B2].
  apply andb_true_iff in H3 as [A3 B3]. rewrite A1, A2, A3. simpl. auto.
Qed.

Theorem stop_undone : forall c s0 a i mid post,
  cfg_ok c ->
  loop_is s0 i a true -> closed s0 = false ->
  none_of (is_wake_of i) mid -> none_of is_close mid -> none_of (is_start_of (amac a)) mid ->
  none_of (is_start_of (amac a)) post ->
  let s1 := final c s0 (StopHunt (amac a) :: mid) in
  let s2 := set_loops s1 (kill i (loops s1)) in
  step c s1 (Wake i) = (s2, [restore c (amac a)]) /\
  loop_is s2 i a false /\
  forall s e out f, In (s, e, out) (trace c s2 post) -> In f out -> forged c f = true ->
    fedst f <> amac a.
Proof.
  intros c s0 a i mid post Hc Hl Hcl Hw Hclose Hst Hpost s1 s2.
  assert (Hinv : stop_inv i a s1).
  { unfold s1. simpl. apply (final_inv (stop_inv i a) (stop_ok i (amac a)) c).
    - intros s e. apply stop_inv_step.
    - unfold stop_inv, loop_is, hunted. simpl. split; auto. split; auto. apply hunt_has_del_same.
    - apply none_of_and3; auto. }
  destruct Hinv as [I1 [I2 I3]].
  split; [apply stop_wake_restores; auto|].
  split; [unfold s2, loop_is; simpl; apply (kill_same _ _ _ I1)|].
  intros s e out f Hin Hf Hfo Heq.
  assert (Hun : hunted s (amac a) = false).
  { apply (trace_inv (fun s => hunted s (amac a) = false) (fun e => negb (is_start_of (amac a) e)) c)
      with (evs := post) (s := s2) (x := (s, e, out)).
    - intros s' e' Hs' He'. apply step_unhunted; auto. apply negb_true_iff in He'. exact He'.
    - exact I3.
    - exact Hpost.
    - exact Hin. }
  assert (Hh : hunted s (fedst f) = true).
  { apply trace_in in Hin as [s' Hs']. simpl in Hs'. eapply confined_step; eauto. }
  rewrite Heq in Hh. congruence.
Qed.

Definition wit_m2 : mac := 2199023255554.

(* non-vacuity, on the history that defeated the code before the repair of #27: two hunted MACs with the
   same IPv4 address; the stopped one is restored at its loop's next wake-up, the other keeps being spoofed *)
Example stop_undone_nonvacuous :
  let c := wit_cfg in
  let a := mkAddr wit_m1 3232235522 in
  let s0 := final c init_state [StartHunt a; Wake 0; StartHunt (mkAddr wit_m2 3232235522); Wake 1] in
  let mid := [RxArp (mkPkt 1 wit_m1 wit_m1 3232235522 0 3232235531); Wake 1] in
  loop_is s0 0 a true /\ closed s0 = false /\
  none_of (is_wake_of 0) mid /\ none_of is_close mid /\ none_of (is_start_of (amac a)) mid /\
  outputs c s0 (StopHunt (amac a) :: mid ++ [Wake 0; Wake 0; Wake 1]) =
    [[]; []; [announce c wit_m2]; [restore c wit_m1]; []; [announce c wit_m2]].
Proof. vm_compute. repeat split; reflexivity. Qed.

(* ---------------------------------------------------------------- *)
(* C13_close_stops *)

Theorem close_wake_silent : forall c s i,
  closed s = true ->
  snd (step c s (Wake i)) = [] /\
  forall lp, nth_error (loops (fst (step c s (Wake i)))) i = Some lp -> alive lp = false.
Proof.
  intros c s i Hc. simpl. unfold wake.
  destruct (nth_error (loops s) i) as [lp|] eqn:Hl.
  - destruct (alive lp) eqn:Ha; simpl.
    + destruct (hunt_find _ _); rewrite Hc; simpl; (split; [reflexivity|]);
        intros lp' H; simpl in H; rewrite (kill_same _ _ _ Hl) in H; inversion H; reflexivity.
    + split; auto. intros lp' H. simpl in H. rewrite Hl in H. inversion H; subst. auto.
  - split; auto. intros lp' H. simpl in H. rewrite Hl in H. discriminate.
Qed.

Lemma closed_after_close c s pre : closed (final c s (pre ++ [Close])) = true.
Proof. rewrite final_app. reflexivity. Qed.

Lemma closed_along c s evs x : closed s = true -> In x (trace c s evs) -> closed (fst (fst x)) = true.
Proof.
  intros Hc Hin.
  apply (trace_inv (fun s => closed s = true) (fun _ => true) c) with (evs := evs) (s := s); auto.
  - intros s' e Hs _. apply step_closed_mono; auto.
  - apply forallb_forall. auto.
Qed.

(* every run, every Wake after a Close: silent, and that loop has returned *)
Theorem close_stops_loops : forall c pre post s i out,
  In (s, Wake i, out) (trace c (final c init_state (pre ++ [Close])) post) ->
  out = [] /\
  forall lp, nth_error (loops (fst (step c s (Wake i)))) i = Some lp -> alive lp = false.
Proof.
  intros c pre post s i out Hin.
  assert (Hc : closed s = true).
  { apply (closed_along c (final c init_state (pre ++ [Close])) post (s, Wake i, out)); auto. apply closed_after_close. }
  destruct (close_wake_silent c s i Hc) as [H1 H2].
  apply trace_in in Hin as [s' Hs]. cbn [fst snd] in Hs. split; auto.
  rewrite Hs in H1. exact H1.
Qed.

(* full strength: after Close NOTHING is emitted by any event (any state) *)
Lemma closed_silent c s e : closed s = true -> snd (step c s e) = [].
Proof.
  intros Hc. destruct e; simpl; auto.
  - unfold start_hunt. destruct (hunt_has _ _); auto.
  - apply (close_wake_silent c s i Hc).
  - unfold rx_arp. rewrite Hc. reflexivity.
Qed.

Theorem close_stops : forall c pre post s e out,
  In (s, e, out) (trace c (final c init_state (pre ++ [Close])) post) ->
  out = [] /\
  forall i lp, e = Wake i -> nth_error (loops (fst (step c s e))) i = Some lp -> alive lp = false.
Proof.
  intros c pre post s e out Hin.
  assert (Hc : closed s = true).
  { apply (closed_along c (final c init_state (pre ++ [Close])) post (s, e, out)); auto. apply closed_after_close. }
  split.
  - apply trace_in in Hin as [s' Hs]. cbn [fst snd] in Hs.
    pose proof (closed_silent c s e Hc) as H. rewrite Hs in H. exact H.
  - intros i lp He. subst e. apply (close_wake_silent c s i Hc).
Qed.

Example close_stops_nonvacuous :
  let c := wit_cfg in
  outputs c init_state [StartHunt (mkAddr wit_m1 3232235522); Wake 0; Close; Wake 0; Wake 0;
                        RxArp (mkPkt 1 wit_m1 wit_m1 3232235522 0 3232235531)] =
    [[]; [announce c wit_m1]; []; []; []; []] /\
  loop_is (final c init_state [StartHunt (mkAddr wit_m1 3232235522); Wake 0; Close; Wake 0]) 0
          (mkAddr wit_m1 3232235522) false.
Proof. vm_compute. split; reflexivity. Qed.

(* ---------------------------------------------------------------- *)
(* "periodically while hunted": while the handler is open every hunted MAC has a running loop of its own *)

Definition covered (s : state) : Prop :=
  closed s = false -> forall m, hunted s m = true -> exists i a, loop_is s i a true /\ amac a = m.

Lemma covered_step c s e : covered s -> covered (fst (step c s e)).
Proof.
  intros Hcov Hc' m Hm.
  assert (Hc : closed s = false).
  { destruct (closed s) eqn:E; auto. rewrite (step_closed_mono c s e E) in Hc'. discriminate. }
  specialize (Hcov Hc).
  destruct e; simpl in *.
  - (* StartHunt *)
    unfold start_hunt in *. destruct (hunt_has (amac a) (hunt s)) eqn:Hh; simpl in *; [apply Hcov; exact Hm|].
    unfold hunted in Hm. simpl in Hm. rewrite hunt_has_app in Hm. apply orb_true_iff in Hm as [Hm|Hm].
    + destruct (Hcov m Hm) as [i [a0 [Hl Ha]]]. exists i, a0. split; auto.
      unfold loop_is in *. simpl. apply nth_error_app_l. exact Hl.
    + exists (List.length (loops s)), a. split; [|lia].
      unfold loop_is. simpl. rewrite nth_error_app2 by lia. rewrite Nat.sub_diag. reflexivity.
  - apply Hcov; exact Hm.
  - (* StopHunt *)
    unfold hunted in Hm. simpl in Hm.
    assert (Hm' : hunt_has m (hunt s) = true).
    { destruct (N.eq_dec m m0) as [->|Hne]; [rewrite hunt_has_del_same in Hm; discriminate|].
      rewrite hunt_has_del_other in Hm; auto. }
    destruct (Hcov m Hm') as [i [a0 [Hl Ha]]]. exists i, a0. split; auto.
  - discriminate.
  - (* Wake *)
    unfold hunted in Hm. rewrite wake_hunt in Hm.
    destruct (Hcov m Hm) as [j [a0 [Hl Ha]]]. exists j, a0. split; auto.
    destruct (Nat.eq_dec i j) as [->|Hne].
    + assert (Hst : step c s (Wake j) = (s, [announce c (amac a0)])).
      { apply hunted_wake_announces; auto. rewrite Ha. exact Hm. }
      simpl in Hst. rewrite Hst. exact Hl.
    + unfold loop_is. rewrite wake_loops_other by auto. exact Hl.
  - rewrite rx_state in *. apply Hcov; exact Hm.
  - apply Hcov; exact Hm.
Qed.

Theorem hunted_has_loop : forall c evs m,
  let s := final c init_state evs in
  closed s = false -> hunted s m = true ->
  exists i a, loop_is s i a true /\ amac a = m /\ step c s (Wake i) = (s, [announce c m]).
Proof.
  intros c evs m s Hc Hm.
  assert (Hcov : covered s).
  { unfold s. apply (final_inv covered (fun _ => true) c).
    - intros s' e H _. apply covered_step; auto.
    - intros _ m' H'. discriminate.
    - apply forallb_forall. auto. }
  destruct (Hcov Hc m Hm) as [i [a [Hl Ha]]]. exists i, a. split; auto. split; auto.
  rewrite <- Ha. apply hunted_wake_announces; auto. rewrite Ha. exact Hm.
Qed.
