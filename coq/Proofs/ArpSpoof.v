(* Proofs/ArpSpoof.v — proofs about the event-system model of the ARP spoofer (C13):
   hunt list facts, writes, confinement with the public API, the bound on frames already decided. *)
From PV Require Import Base.Prelude Base.Slice Model.ArpSpoof Spec.ArpSpoof.
Open Scope N_scope.

(* ---------------------------------------------------------------- *)
(* small facts about the hunt list *)

Lemma hunt_has_spec m h : hunt_has m h = true <-> exists e, In e h /\ amac e = m.
Proof.
  unfold hunt_has. rewrite existsb_exists. split; intros [e [Hin He]]; exists e; split; auto; lia.
Qed.

Lemma hunt_has_false m h : hunt_has m h = false <-> forall e, In e h -> amac e <> m.
Proof.
  split.
  - intros H e Hin Heq. assert (hunt_has m h = true) by (apply hunt_has_spec; eauto). congruence.
  - intros H. destruct (hunt_has m h) eqn:E; auto. apply hunt_has_spec in E as [e [Hin He]].
    exfalso; eapply H; eauto.
Qed.

Lemma hunt_find_some m h t : hunt_find m h = Some t -> In t h /\ amac t = m.
Proof. unfold hunt_find. intros H. apply find_some in H as [H1 H2]. split; auto. lia. Qed.

Lemma hunt_find_none m h : hunt_find m h = None <-> hunt_has m h = false.
Proof.
  unfold hunt_find. split.
  - intros H. apply hunt_has_false. intros e Hin He.
    apply (find_none _ _ H) in Hin. lia.
  - intros H. destruct (find _ h) as [t|] eqn:F; auto.
    apply find_some in F as [F1 F2]. rewrite hunt_has_false in H. exfalso. apply (H t F1). lia.
Qed.

Lemma hunt_del_in m h e : In e (hunt_del m h) <-> In e h /\ amac e <> m.
Proof.
  unfold hunt_del. rewrite filter_In. split; intros [H1 H2]; split; auto; lia.
Qed.

Lemma hunt_has_del_same m h : hunt_has m (hunt_del m h) = false.
Proof. apply hunt_has_false. intros e Hin. apply hunt_del_in in Hin. tauto. Qed.

Lemma hunt_has_del_other m m' h : m <> m' -> hunt_has m (hunt_del m' h) = hunt_has m h.
Proof.
  intros Hne. destruct (hunt_has m h) eqn:E.
  - apply hunt_has_spec in E as [e [Hin He]]. apply hunt_has_spec. exists e. split; auto.
    apply hunt_del_in. split; auto. congruence.
  - apply hunt_has_false. intros e Hin. apply hunt_del_in in Hin as [Hin _].
    rewrite hunt_has_false in E. auto.
Qed.

Lemma hunt_has_app m h a : hunt_has m (h ++ [a]) = hunt_has m h || (amac a =? m).
Proof. unfold hunt_has. rewrite existsb_app. simpl. rewrite orb_false_r. reflexivity. Qed.

(* ---------------------------------------------------------------- *)
(* frames *)

Lemma restore_not_forged c m : cfg_ok c -> forged c (restore c m) = false.
Proof.
  unfold cfg_ok, forged, restore. simpl. intros [H _].
  destruct (router_mac c =? host_mac c) eqn:E; [exfalso; apply H; lia|]. apply andb_false_r.
Qed.

Lemma announce_forged c m : forged c (announce c m) = true.
Proof. unfold forged, announce, announce_ip. simpl. rewrite !N.eqb_refl. reflexivity. Qed.

Lemma request_to_not_forged c d ip : cfg_ok c -> forged c (request_to c d ip) = false.
Proof.
  unfold cfg_ok, forged, request_to. simpl. intros [_ [H _]].
  destruct (host_ip c =? router_ip c) eqn:E; [exfalso; apply H; lia|]. reflexivity.
Qed.

Lemma probe_frame_not_forged c ip : cfg_ok c -> forged c (probe_frame c ip) = false.
Proof.
  unfold cfg_ok, forged, probe_frame, IP4_ZERO. simpl. intros [_ [_ H]].
  destruct (0 =? router_ip c) eqn:E; [exfalso; apply H; lia|]. reflexivity.
Qed.

(* ---------------------------------------------------------------- *)
(* the write primitive *)

Lemma wr_cases s f : (wr s f = (s, [f], true) /\ failn s = O) \/
                     (exists k, failn s = S k /\ wr s f = (set_failn s k, [], false)).
Proof. unfold wr. destruct (failn s) as [|k] eqn:E; [left; auto | right; exists k; auto]. Qed.

Lemma wr_out s f s' out ok g : wr s f = (s', out, ok) -> In g out -> g = f.
Proof.
  intros H Hin. destruct (wr_cases s f) as [[E _]|[k [_ E]]]; rewrite E in H; inversion H; subst.
  - destruct Hin as [Hin|[]]; auto.
  - contradiction.
Qed.

Lemma wr_state s f s' out ok :
  wr s f = (s', out, ok) ->
  hunt s' = hunt s /\ loops s' = loops s /\ closed s' = closed s /\ offers s' = offers s.
Proof.
  intros H. destruct (wr_cases s f) as [[E _]|[k [_ E]]]; rewrite E in H; inversion H; subst; simpl; auto.
Qed.

Lemma wr_state2 s f s' out ok : wr s f = (s', out, ok) -> rxq s' = rxq s /\ scans s' = scans s.
Proof.
  intros H. destruct (wr_cases s f) as [[E _]|[k [_ E]]]; rewrite E in H; inversion H; subst; simpl; auto.
Qed.

Lemma wr2_out s f g : In g (snd (wr2 s f)) -> g = f.
Proof.
  unfold wr2. destruct (wr s f) as [[s1 o] ok] eqn:E. simpl. eapply wr_out; eauto.
Qed.

Lemma wr2_state s f :
  hunt (fst (wr2 s f)) = hunt s /\ loops (fst (wr2 s f)) = loops s /\
  closed (fst (wr2 s f)) = closed s /\ offers (fst (wr2 s f)) = offers s.
Proof. unfold wr2. destruct (wr s f) as [[s1 o] ok] eqn:E. simpl. eapply wr_state; eauto. Qed.

(* Scan and WhoIs only ever send plain requests from our own address, and touch nothing but failn / scans *)
Lemma scan_check_spec c s j :
  snd (scan_check c s j) = [] /\
  hunt (fst (scan_check c s j)) = hunt s /\ loops (fst (scan_check c s j)) = loops s /\
  closed (fst (scan_check c s j)) = closed s /\ offers (fst (scan_check c s j)) = offers s /\
  rxq (fst (scan_check c s j)) = rxq s /\ failn (fst (scan_check c s j)) = failn s.
Proof.
  unfold scan_check. destruct (nth_error (scans s) j) as [[ips d]|]; [|simpl; repeat split; reflexivity].
  destruct ips as [|ip r]; [simpl; repeat split; reflexivity|]. destruct d; [simpl; repeat split; reflexivity|].
  destruct ((ip =? router_ip c) || (ip =? host_ip c)); [simpl; repeat split; reflexivity|].
  destruct (closed s) eqn:Hc; simpl; repeat split; auto.
Qed.

Lemma scan_send_spec c s j :
  (forall g, In g (snd (scan_send c s j)) -> exists ip, g = request_to c MAC_BCAST ip) /\
  hunt (fst (scan_send c s j)) = hunt s /\ loops (fst (scan_send c s j)) = loops s /\
  closed (fst (scan_send c s j)) = closed s /\ offers (fst (scan_send c s j)) = offers s /\
  rxq (fst (scan_send c s j)) = rxq s.
Proof.
  unfold scan_send. destruct (nth_error (scans s) j) as [[ips d]|]; [|simpl; repeat split; auto; intros g []].
  destruct d as [ip|]; [|simpl; repeat split; auto; intros g []].
  destruct (wr s (request_to c MAC_BCAST ip)) as [[s1 o] ok] eqn:Hw.
  destruct (wr_state _ _ _ _ _ Hw) as [W1 [W2 [W3 W4]]]. destruct (wr_state2 _ _ _ _ _ Hw) as [W5 W6].
  simpl. repeat split; auto. intros g Hin. exists ip. eapply wr_out; eauto.
Qed.

Lemma whois_go_spec c ip n : forall s,
  (forall g, In g (snd (whois_go c s ip n)) -> g = request_to c MAC_BCAST ip) /\
  hunt (fst (whois_go c s ip n)) = hunt s /\ loops (fst (whois_go c s ip n)) = loops s /\
  closed (fst (whois_go c s ip n)) = closed s /\ offers (fst (whois_go c s ip n)) = offers s.
Proof.
  induction n as [|n IH]; intros s; simpl; [repeat split; auto; intros g []|].
  destruct (wr s (request_to c MAC_BCAST ip)) as [[s1 o] ok] eqn:Hw.
  destruct (wr_state _ _ _ _ _ Hw) as [W1 [W2 [W3 W4]]].
  destruct ok.
  - destruct (whois_go c s1 ip n) as [s2 o2] eqn:Hs. destruct (IH s1) as [I0 [I1 [I2 [I3 I4]]]].
    rewrite Hs in *. simpl in *. repeat split; try congruence.
    intros g Hin. apply in_app_or in Hin as [Hin|Hin]; [eapply wr_out; eauto | auto].
  - simpl. repeat split; auto. intros g Hin. eapply wr_out; eauto.
Qed.

(* ---------------------------------------------------------------- *)
(* list plumbing for the loop table *)

Lemma nth_error_app_l {A} (l : list A) x i y : nth_error l i = Some y -> nth_error (l ++ [x]) i = Some y.
Proof. intros H. rewrite nth_error_app1; auto. apply nth_error_Some. congruence. Qed.

Lemma nth_error_set_nth_neq {A} (l : list A) i j v : i <> j -> nth_error (set_nth i v l) j = nth_error l j.
Proof.
  revert i j. induction l as [|x xs IH]; intros [|i] [|j] H; simpl; auto; try congruence.
Qed.

Lemma nth_error_set_nth_eq {A} (l : list A) i v x : nth_error l i = Some x -> nth_error (set_nth i v l) i = Some v.
Proof.
  revert i. induction l as [|y ys IH]; intros [|i] H; simpl in *; try discriminate; auto.
Qed.

Lemma set_pc_other l i j p : i <> j -> nth_error (set_pc i p l) j = nth_error l j.
Proof.
  intros H. unfold set_pc. destruct (nth_error l i); auto. apply nth_error_set_nth_neq; auto.
Qed.

Lemma set_pc_same l i lp p : nth_error l i = Some lp -> nth_error (set_pc i p l) i = Some (mkLoop (laddr lp) p).
Proof. intros H. unfold set_pc. rewrite H. eapply nth_error_set_nth_eq; eauto. Qed.

Definition count {A} (P : A -> bool) (l : list A) : nat := List.length (filter P l).
Definition b2n (b : bool) : nat := if b then 1%nat else 0%nat.

Lemma count_set_nth {A} (P : A -> bool) l i v x :
  nth_error l i = Some x -> (count P (set_nth i v l) + b2n (P x) = count P l + b2n (P v))%nat.
Proof.
  unfold count. revert i. induction l as [|y ys IH]; intros [|i] H; simpl in *; try discriminate.
  - inversion H; subst. destruct (P x), (P v); simpl; lia.
  - specialize (IH i H). destruct (P y); simpl; lia.
Qed.

Lemma count_app {A} (P : A -> bool) l x : count P (l ++ [x]) = (count P l + b2n (P x))%nat.
Proof. unfold count. rewrite filter_app, app_length. simpl. destruct (P x); reflexivity. Qed.

Lemma count_set_pc (P : loop -> bool) l i lp p :
  nth_error l i = Some lp ->
  (count P (set_pc i p l) + b2n (P lp) = count P l + b2n (P (mkLoop (laddr lp) p)))%nat.
Proof. intros H. unfold set_pc. rewrite H. apply count_set_nth. exact H. Qed.

(* ---------------------------------------------------------------- *)
(* the receive path, decoded packet *)

Lemma rx_arp_cases c s p :
  rx_arp c s p = (s, []) \/
  (closed s = false /\ hunt_has (psmac p) (hunt s) = true /\ ptip p = router_ip c /\
   rx_arp c s p = (set_rxq s (rxq s ++ [spoof_reply c p]), [])) \/
  (closed s = false /\ ptip p <> router_ip c /\ rx_arp c s p = (set_rxq s (rxq s ++ [probe_reject c p]), [])).
Proof.
  unfold rx_arp. destruct (closed s) eqn:Hc; auto.
  destruct (classify p); auto.
  - destruct (hunt_has (psmac p) (hunt s) && (ptip p =? router_ip c)) eqn:E; auto.
    apply andb_true_iff in E as [E1 E2]. right; left. repeat split; auto. lia.
  - destruct (offer_of _ _); auto.
    destruct (negb (i =? ptip p) && (in_lan c (ptip p) && negb (ptip p =? router_ip c))) eqn:E; auto.
    right; right. apply andb_true_iff in E as [_ E]. apply andb_true_iff in E as [_ E].
    repeat split; auto. apply negb_true_iff in E. lia.
Qed.

Lemma rx_arp_state c s p :
  hunt (fst (rx_arp c s p)) = hunt s /\ loops (fst (rx_arp c s p)) = loops s /\
  closed (fst (rx_arp c s p)) = closed s /\ offers (fst (rx_arp c s p)) = offers s.
Proof.
  destruct (rx_arp_cases c s p) as [E|[[_ [_ [_ E]]]|[_ [_ E]]]]; rewrite E; simpl; auto.
Qed.

(* ProcessPacket itself writes nothing: replies are only decided here *)
Lemma rx_arp_silent c s p : snd (rx_arp c s p) = [].
Proof. destruct (rx_arp_cases c s p) as [E|[[_ [_ [_ E]]]|[_ [_ E]]]]; rewrite E; reflexivity. Qed.

Lemma rx_arp_confined c s p f :
  In f (snd (rx_arp c s p)) -> forged c f = true -> hunted s (fedst f) = true.
Proof. rewrite rx_arp_silent. intros []. Qed.

(* a reply is queued only for a hunted MAC (the spoof reply), or it is not forged (the probe-reject never carries
   the router's address) *)
Lemma rx_arp_queue c s p :
  rxq (fst (rx_arp c s p)) = rxq s \/
  (hunted s (psmac p) = true /\ rxq (fst (rx_arp c s p)) = rxq s ++ [spoof_reply c p])%list \/
  (forged c (probe_reject c p) = false /\ rxq (fst (rx_arp c s p)) = rxq s ++ [probe_reject c p])%list.
Proof.
  destruct (rx_arp_cases c s p) as [E|[[_ [Hh [_ E]]]|[_ [Hne E]]]]; rewrite E; simpl; auto.
  right; right. split; auto. unfold forged, probe_reject. simpl.
  destruct (ptip p =? router_ip c) eqn:Q; [exfalso; apply Hne; lia|reflexivity].
Qed.

Lemma rx_arp_failn c s p : failn (fst (rx_arp c s p)) = failn s.
Proof. destruct (rx_arp_cases c s p) as [E|[[_ [_ [_ E]]]|[_ [_ E]]]]; rewrite E; reflexivity. Qed.

Lemma rx_reply_spec s k :
  (forall g, In g (snd (rx_reply s k)) -> nth_error (rxq s) k = Some g) /\
  hunt (fst (rx_reply s k)) = hunt s /\ loops (fst (rx_reply s k)) = loops s /\
  closed (fst (rx_reply s k)) = closed s /\ offers (fst (rx_reply s k)) = offers s /\
  rxq (fst (rx_reply s k)) = (match nth_error (rxq s) k with Some _ => remove_nth k (rxq s) | None => rxq s end).
Proof.
  unfold rx_reply. destruct (nth_error (rxq s) k) as [f|] eqn:Hk; [|simpl; repeat split; auto; intros g []].
  destruct (wr s f) as [[s1 o] ok] eqn:Hw.
  destruct (wr_state _ _ _ _ _ Hw) as [W1 [W2 [W3 W4]]]. destruct (wr_state2 _ _ _ _ _ Hw) as [W5 W6].
  simpl. rewrite W5. repeat split; auto. intros g Hin. f_equal. symmetry. eapply wr_out; eauto.
Qed.

(* ---------------------------------------------------------------- *)
(* raw frames: ProcessPacket is total; a frame is ignored or is exactly its decoded packet *)

Ltac dnegb := match goal with |- context [if negb ?b then _ else _] => destruct b; simpl end.

Lemma arp_is_valid_shape l :
  arp_is_valid (of_bytes l) = Ok tt \/ exists e, arp_is_valid (of_bytes l) = Err e.
Proof.
  unfold arp_is_valid, ARP_LEN.
  destruct (Nat.ltb_spec (len (of_bytes l)) 28) as [Hlt|Hge]; [right; eauto|].
  assert (Hc : cap (of_bytes l) = List.length l) by reflexivity.
  assert (Hl : len (of_bytes l) = List.length l) by reflexivity.
  rewrite be16_at_ok by lia. cbn [bind]. dnegb; [|right; eauto].
  rewrite be16_at_ok by lia. cbn [bind]. dnegb; [|right; eauto].
  rewrite idx_ok by lia. cbn [bind]. dnegb; [|right; eauto].
  rewrite idx_ok by lia. cbn [bind]. dnegb; [left; reflexivity|right; eauto].
Qed.

Lemma arp_is_valid_len l : arp_is_valid (of_bytes l) = Ok tt -> (28 <= List.length l)%nat.
Proof.
  unfold arp_is_valid, ARP_LEN.
  destruct (Nat.ltb_spec (len (of_bytes l)) 28) as [Hlt|Hge]; [discriminate|auto].
Qed.

Definition decoded (m : mac) (l : bytes) : arp_pkt :=
  mkPkt (be16 (nth 6 l 0) (nth 7 l 0)) m
        (N_of_bytes (firstn 6 (skipn 8 l))) (N_of_bytes (firstn 4 (skipn 14 l)))
        (N_of_bytes (firstn 6 (skipn 18 l))) (N_of_bytes (firstn 4 (skipn 24 l))).

Lemma arp_decode_ok m l : (28 <= List.length l)%nat -> arp_decode m (of_bytes l) = Ok (decoded m l).
Proof.
  intros H. unfold arp_decode.
  assert (Hc : cap (of_bytes l) = List.length l) by reflexivity.
  rewrite be16_at_ok by lia. cbn [bind].
  rewrite !sl_ok by lia. cbn [bind]. reflexivity.
Qed.

Theorem process_raw_total : forall c s et b,
  (exists e, process_raw c s et b = Err e) \/ (exists p, process_raw c s et b = Ok (rx_arp c s p)).
Proof.
  intros c s et b. unfold process_raw. destruct (negb (et =? ETH_P_ARP)); [left; eauto|].
  destruct (arp_is_valid_shape b) as [Hv|[e Hv]]; rewrite Hv; simpl; [|left; eauto].
  rewrite (arp_decode_ok 0 b (arp_is_valid_len b Hv)). simpl. right; eauto.
Qed.

Corollary process_raw_no_panic : forall c s et b,
  process_raw c s et b <> Panic /\ process_raw c s et b <> Fuel.
Proof.
  intros c s et b. destruct (process_raw_total c s et b) as [[e H]|[p H]]; rewrite H; split; discriminate.
Qed.

Lemma rx_raw_cases c s et b :
  step c s (RxRaw et b) = (s, []) \/ exists p, step c s (RxRaw et b) = rx_arp c s p.
Proof.
  simpl. destruct (process_raw_total c s et b) as [[e H]|[p H]]; rewrite H; [left; auto|right; eauto].
Qed.

(* ---------------------------------------------------------------- *)
(* what each step does to hunt / closed / loops *)

Lemma lookup_state s i : hunt (fst (lookup s i)) = hunt s /\ closed (fst (lookup s i)) = closed s.
Proof.
  unfold lookup. destruct (nth_error (loops s) i) as [lp|]; auto. destruct (lpc lp); auto.
Qed.
Lemma check_state c s i : hunt (fst (check c s i)) = hunt s /\ closed (fst (check c s i)) = closed s.
Proof.
  unfold check. destruct (nth_error (loops s) i) as [lp|]; auto. destruct (lpc lp); auto.
Qed.
Lemma send_state s i : hunt (fst (send s i)) = hunt s /\ closed (fst (send s i)) = closed s.
Proof.
  unfold send. destruct (nth_error (loops s) i) as [lp|]; auto. destruct (lpc lp); auto.
  destruct (wr s f) as [[s1 o] ok] eqn:E. destruct (wr_state _ _ _ _ _ E) as [H1 [_ [H3 _]]]. simpl. auto.
Qed.

(* events that touch neither the hunt list, the loops, closed nor the offers *)
Definition core_event (e : event) : bool :=
  match e with
  | StartHunt _ | StopHunt _ | Close | Lookup _ | Check _ | Send _ | SetOffer _ _ => false
  | _ => true
  end.

Lemma step_core c s e : core_event e = true ->
  hunt (fst (step c s e)) = hunt s /\ loops (fst (step c s e)) = loops s /\
  closed (fst (step c s e)) = closed s /\ offers (fst (step c s e)) = offers s.
Proof.
  destruct e as [a| |m| |i|i|i|p|k|et b|m o|k|ip|dst ip|ip|dst ip|dst sn tg|dst sn tg| |j|j|ip n| ];
    try discriminate; intros _; simpl; auto.
  - apply rx_arp_state.
  - destruct (rx_reply_spec s k) as [_ [H1 [H2 [H3 [H4 _]]]]]; auto.
  - destruct (rx_raw_cases c s et b) as [E|[p E]]; simpl in E; rewrite E; auto. apply rx_arp_state.
  - apply wr2_state. - apply wr2_state. - apply wr2_state. - apply wr2_state. - apply wr2_state. - apply wr2_state.
  - destruct (scan_check_spec c s j) as [_ [H1 [H2 [H3 [H4 _]]]]]; auto.
  - destruct (scan_send_spec c s j) as [_ [H1 [H2 [H3 [H4 _]]]]]; auto.
  - destruct (whois_go_spec c ip (Nat.min n 3) s) as [_ H]; exact H.
Qed.

Lemma step_hunt_closed c s e :
  match e with StartHunt _ | StopHunt _ | Close => True
  | _ => hunt (fst (step c s e)) = hunt s /\ closed (fst (step c s e)) = closed s end.
Proof.
  destruct (core_event e) eqn:Hce.
  - destruct (step_core c s e Hce) as [H1 [_ [H3 _]]]. destruct e; auto.
  - destruct e; try discriminate; simpl; auto.
    + apply lookup_state. + apply check_state. + apply send_state.
Qed.

Lemma step_closed c s e : is_close e = false -> closed (fst (step c s e)) = closed s.
Proof.
  intros H. pose proof (step_hunt_closed c s e) as G. destruct e; try (apply G); try discriminate; simpl.
  - unfold start_hunt. destruct (hunt_has _ _); auto.
  - reflexivity.
Qed.

Lemma step_closed_mono c s e : closed s = true -> closed (fst (step c s e)) = true.
Proof.
  intros H. destruct (is_close e) eqn:E.
  - destruct e; try discriminate. reflexivity.
  - rewrite step_closed; auto.
Qed.

Lemma step_unhunted c s e m :
  is_start_of m e = false -> hunted s m = false -> hunted (fst (step c s e)) m = false.
Proof.
  unfold hunted. intros H Hh. pose proof (step_hunt_closed c s e) as G.
  destruct e; try (destruct G as [G _]; rewrite G; exact Hh); simpl in *.
  - unfold start_hunt. destruct (hunt_has (amac a) (hunt s)); simpl; auto.
    rewrite hunt_has_app, Hh, H. reflexivity.
  - destruct (N.eq_dec m m0) as [->|Hne].
    + apply hunt_has_del_same.
    + rewrite hunt_has_del_other; auto.
  - exact Hh.
Qed.

(* the loop table: only loop i's own events move loop i; nobody else's events change its address *)
Lemma step_loops_shape c s e :
  (exists i p, is_loop_event i e = true /\ loops (fst (step c s e)) = set_pc i p (loops s)) \/
  (exists a, loops (fst (step c s e)) = loops s ++ [mkLoop a PTop]) \/
  loops (fst (step c s e)) = loops s.
Proof.
  destruct (core_event e) eqn:Hce.
  - destruct (step_core c s e Hce) as [_ [H2 _]]. auto.
  - destruct e; try discriminate; simpl; auto.
    + unfold start_hunt. destruct (hunt_has _ _); simpl; eauto.
    + unfold lookup. destruct (nth_error (loops s) i) as [lp|]; auto. destruct (lpc lp); auto; simpl;
        left; eexists i, _; rewrite Nat.eqb_refl; eauto.
    + unfold check. destruct (nth_error (loops s) i) as [lp|]; auto. destruct (lpc lp); auto; simpl.
      left; eexists i, _; rewrite Nat.eqb_refl; eauto.
    + unfold send. destruct (nth_error (loops s) i) as [lp|]; auto. destruct (lpc lp); auto.
      destruct (wr s f) as [[s1 o] ok] eqn:E. destruct (wr_state _ _ _ _ _ E) as [_ [H2 _]]. simpl.
      left; eexists i, _; rewrite Nat.eqb_refl, H2; eauto.
Qed.

Lemma is_loop_event_inj i j e : is_loop_event i e = true -> is_loop_event j e = true -> i = j.
Proof.
  destruct e; simpl; try discriminate; intros H1 H2; apply Nat.eqb_eq in H1, H2; congruence.
Qed.

Lemma step_loop_kept c s e i lp :
  is_loop_event i e = false -> nth_error (loops s) i = Some lp ->
  nth_error (loops (fst (step c s e))) i = Some lp.
Proof.
  intros H Hl. destruct (step_loops_shape c s e) as [[j [p [Hj E]]]|[[a E]|E]]; rewrite E; auto.
  - rewrite set_pc_other; auto. intro. subst. congruence.
  - apply nth_error_app_l; auto.
Qed.

(* ---------------------------------------------------------------- *)
(* confinement, one step, any state, the public API included *)

Lemma send_out s i s' out f :
  send s i = (s', out) -> In f out ->
  exists lp cont, nth_error (loops s) i = Some lp /\ lpc lp = PSend f cont.
Proof.
  unfold send. intros H Hin. destruct (nth_error (loops s) i) as [lp|] eqn:Hl; [|inversion H; subst; contradiction].
  destruct (lpc lp) eqn:Hp; try (inversion H; subst; contradiction).
  destruct (wr s f0) as [[s1 o] ok] eqn:E. inversion H; subst.
  pose proof (wr_out _ _ _ _ _ _ E Hin). subst. eauto.
Qed.

Ltac apiout Hs Hin :=
  let E := fresh "E" in
  pose proof (f_equal snd Hs) as E; cbn [snd] in E; rewrite <- E in Hin; apply wr2_out in Hin; subst.

(* what a non-loop, non-reply event emits is never forged unless the caller asked for it *)
Lemma core_out_not_forged c s e f :
  cfg_ok c -> core_event e = true -> (forall k, e <> RxReply k) -> caller_forged c e = false ->
  In f (snd (step c s e)) -> forged c f = false.
Proof.
  intros Hc Hce Hnr Hcf Hin.
  destruct e as [a| |m| |i|i|i|p|k|et b|m o|k|ip|dst ip|ip|dst ip|dst sn tg|dst sn tg| |j|j|ip n| ];
    try discriminate; simpl in *; try contradiction.
  - rewrite rx_arp_silent in Hin. contradiction.
  - exfalso. apply (Hnr k). reflexivity.
  - destruct (rx_raw_cases c s et b) as [E|[p E]]; simpl in E; rewrite E in Hin; [contradiction|].
    rewrite rx_arp_silent in Hin. contradiction.
  - apply wr2_out in Hin. subst f. apply request_to_not_forged; auto.
  - apply wr2_out in Hin. subst f. apply request_to_not_forged; auto.
  - apply wr2_out in Hin. subst f. apply probe_frame_not_forged; auto.
  - apply wr2_out in Hin. subst f. unfold forged, announce_ip. simpl. rewrite Hcf. reflexivity.
  - apply wr2_out in Hin. subst f. exact Hcf.
  - apply wr2_out in Hin. subst f. exact Hcf.
  - destruct (scan_check_spec c s j) as [E _]. rewrite E in Hin. contradiction.
  - destruct (scan_send_spec c s j) as [H0 _]. destruct (H0 f Hin) as [ip ->]. apply request_to_not_forged; auto.
  - destruct (whois_go_spec c ip (Nat.min n 3) s) as [H0 _]. rewrite (H0 f Hin). apply request_to_not_forged; auto.
Qed.

Theorem confined_step : forall c s e s' out f,
  cfg_ok c -> step c s e = (s', out) -> In f out -> forged c f = true ->
  caller_forged c e = true \/
  hunted s (fedst f) = true \/
  (exists i lp, e = Send i /\ nth_error (loops s) i = Some lp /\ armed_pc c (fedst f) (lpc lp) = true) \/
  (exists k, e = RxReply k /\ nth_error (rxq s) k = Some f).
Proof.
  intros c s e s' out f Hc Hs Hin Hf.
  destruct (caller_forged c e) eqn:Hcf; [left; reflexivity|].
  destruct (core_event e) eqn:Hce.
  - destruct e as [a| |m| |i|i|i|p|k|et b|m o|k|ip|dst ip|ip|dst ip|dst sn tg|dst sn tg| |j|j|ip n| ];
      try discriminate;
      try (exfalso;
           match type of Hs with step _ _ ?ev = _ =>
             assert (Hnf : forged c f = false)
               by (apply (core_out_not_forged c s ev f Hc eq_refl); [intros k0; discriminate|exact Hcf|rewrite Hs; exact Hin])
           end; congruence).
    right; right; right. exists k. split; auto.
    destruct (rx_reply_spec s k) as [H0 _]. simpl in Hs. rewrite Hs in H0. apply H0. exact Hin.
  - destruct e; try discriminate; simpl in Hs.
    + unfold start_hunt in Hs. destruct (hunt_has _ _); inversion Hs; subst; contradiction.
    + inversion Hs; subst; contradiction.
    + inversion Hs; subst; contradiction.
    + unfold lookup in Hs. destruct (nth_error _ _) as [lp|]; [destruct (lpc lp)|]; inversion Hs; subst; contradiction.
    + unfold check in Hs. destruct (nth_error _ _) as [lp|]; [destruct (lpc lp)|]; inversion Hs; subst; contradiction.
    + destruct (send_out _ _ _ _ _ Hs Hin) as [lp [cont [Hl Hp]]].
      right; right; left. exists i, lp. repeat split; auto. rewrite Hp. simpl. rewrite Hf, N.eqb_refl. reflexivity.
    + inversion Hs; subst; contradiction.
Qed.

(* which public calls can forge at all, and exactly when: for every argument, usable or not *)
Theorem api_forges_iff : forall c s e f,
  cfg_ok c -> is_api_send e = true -> In f (snd (step c s e)) ->
  (forged c f = true <-> caller_forged c e = true).
Proof.
  intros c s e f Hc Ha Hin. split.
  - intros Hf. destruct (caller_forged c e) eqn:Hcf; auto.
    assert (Hce : core_event e = true) by (destruct e; try discriminate; reflexivity).
    assert (Hnr : forall k, e <> RxReply k) by (intros k ->; discriminate).
    rewrite (core_out_not_forged c s e f Hc Hce Hnr Hcf Hin) in Hf. discriminate.
  - intros Hcf. destruct e; try discriminate; simpl in *.
    + apply wr2_out in Hin. subst f. unfold forged, announce_ip. simpl. rewrite Hcf, N.eqb_refl. reflexivity.
    + apply wr2_out in Hin. subst f. exact Hcf.
    + apply wr2_out in Hin. subst f. exact Hcf.
Qed.

(* unusable arguments: the call fails and nothing at all is written *)
Theorem api_invalid_silent : forall c s, step c s ApiInvalid = (s, []).
Proof. reflexivity. Qed.

(* ---------------------------------------------------------------- *)
(* the two queues: replies in flight and scans *)

Lemma whois_go_aux c ip n : forall s,
  rxq (fst (whois_go c s ip n)) = rxq s /\ scans (fst (whois_go c s ip n)) = scans s.
Proof.
  induction n as [|n IH]; intros s; simpl; auto.
  destruct (wr s (request_to c MAC_BCAST ip)) as [[s1 o] ok] eqn:Hw.
  destruct (wr_state2 _ _ _ _ _ Hw) as [W1 W2]. destruct ok; simpl; auto.
  destruct (IH s1) as [I1 I2]. destruct (whois_go c s1 ip n). simpl in *. split; congruence.
Qed.

Lemma wr2_aux s f : rxq (fst (wr2 s f)) = rxq s /\ scans (fst (wr2 s f)) = scans s.
Proof. unfold wr2. destruct (wr s f) as [[s1 o] ok] eqn:E. simpl. eapply wr_state2; eauto. Qed.

Lemma rx_arp_scans c s p : scans (fst (rx_arp c s p)) = scans s.
Proof.
  destruct (rx_arp_cases c s p) as [E|[[_ [_ [_ E]]]|[_ [_ E]]]]; rewrite E; simpl; auto.
Qed.

Ltac loop_cases s :=
  first [ unfold start_hunt; destruct (hunt_has _ _); solve [auto]
        | unfold lookup; destruct (nth_error (loops s) _) as [lp|]; auto; destruct (lpc lp); solve [auto]
        | unfold check; destruct (nth_error (loops s) _) as [lp|]; auto; destruct (lpc lp); solve [auto]
        | unfold send; destruct (nth_error (loops s) _) as [lp|]; auto; destruct (lpc lp) as [| |f cont| |]; auto;
          destruct (wr s f) as [[s1 o] ok] eqn:E; destruct (wr_state2 _ _ _ _ _ E) as [H1 H2]; simpl; solve [auto] ].

Lemma step_rxq c s e :
  match e with RxArp _ | RxRaw _ _ | RxReply _ => True | _ => rxq (fst (step c s e)) = rxq s end.
Proof.
  destruct e as [a| |m| |i|i|i|p|k|et b|m o|k|ip|dst ip|ip|dst ip|dst sn tg|dst sn tg| |j|j|ip n| ]; simpl; auto;
    try apply wr2_aux; try apply whois_go_aux; try loop_cases s.
  - destruct (scan_check_spec c s j) as [_ [_ [_ [_ [_ [H _]]]]]]. exact H.
  - destruct (scan_send_spec c s j) as [_ [_ [_ [_ [_ H]]]]]. exact H.
Qed.

Lemma step_scans c s e :
  match e with ApiScan | ScanCheck _ | ScanSend _ => True | _ => scans (fst (step c s e)) = scans s end.
Proof.
  destruct e as [a| |m| |i|i|i|p|k|et b|m o|k|ip|dst ip|ip|dst ip|dst sn tg|dst sn tg| |j|j|ip n| ]; simpl; auto;
    try apply wr2_aux; try apply whois_go_aux; try loop_cases s.
  - apply rx_arp_scans.
  - unfold rx_reply. destruct (nth_error (rxq s) k); auto.
    destruct (wr s f) as [[s1 o] ok] eqn:E. destruct (wr_state2 _ _ _ _ _ E) as [_ H2]. simpl. auto.
  - destruct (rx_raw_cases c s et b) as [E|[p E]]; simpl in E; rewrite E; auto. apply rx_arp_scans.
Qed.

Lemma count_remove_nth {A} (P : A -> bool) l k x :
  nth_error l k = Some x -> (count P (remove_nth k l) + b2n (P x) = count P l)%nat.
Proof.
  unfold count, remove_nth. revert k. induction l as [|y ys IH]; intros [|k] H; simpl in *; try discriminate.
  - inversion H; subst. destruct (P x); simpl; lia.
  - specialize (IH k H). destruct (P y); simpl in *; lia.
Qed.

Lemma length_remove_nth {A} (l : list A) k x :
  nth_error l k = Some x -> S (List.length (remove_nth k l)) = List.length l.
Proof.
  unfold remove_nth. revert k. induction l as [|y ys IH]; intros [|k] H; simpl in *; try discriminate; auto.
  all: try (f_equal; apply IH; auto).
Qed.
