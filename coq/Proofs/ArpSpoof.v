(* Proofs/ArpSpoof.v — proofs about the event-system model of the ARP spoofer (C13). *)
From PV Require Import Base.Prelude Model.ArpSpoof.
Open Scope N_scope.

(* ---------------------------------------------------------------- *)
(* small facts about the hunt list *)

Lemma hunt_has_spec m h : hunt_has m h = true <-> exists e, In e h /\ amac e = m.
Proof.
  unfold hunt_has. rewrite existsb_exists. split; intros [e [Hin He]]; exists e; split; auto; lia.
Qed.

Lemma hunt_has_false m h : hunt_has m h = false <-> forall e, In e h -> amac e <> m.
Proof.
  split.
  - intros H e Hin Heq. assert (hunt_has m h = true) by (apply hunt_has_spec; eauto). congruence.
  - intros H. destruct (hunt_has m h) eqn:E; auto. apply hunt_has_spec in E as [e [Hin He]].
    exfalso; eapply H; eauto.
Qed.

Lemma find_hunt_by_ip_some hint ip h t :
  find_hunt_by_ip hint ip h = Some t -> In t h /\ aip t = ip.
Proof.
  unfold find_hunt_by_ip. intros H.
  assert (Hin : In t (filter (fun e => aip e =? ip) h)).
  { destruct (find _ _) eqn:F.
    - inversion H; subst. apply find_some in F. tauto.
    - destruct (filter _ h) eqn:G; simpl in H; inversion H; subst. left; reflexivity. }
  apply filter_In in Hin. destruct Hin as [Hin He]. split; auto. lia.
Qed.

Lemma find_hunt_by_ip_none hint ip h :
  find_hunt_by_ip hint ip h = None <-> forall e, In e h -> aip e <> ip.
Proof.
  unfold find_hunt_by_ip. split.
  - intros H e Hin He.
    assert (Hf : In e (filter (fun e => aip e =? ip) h)) by (apply filter_In; split; auto; lia).
    destruct (find _ _); try discriminate.
    destruct (filter _ h); simpl in *; [contradiction | discriminate].
  - intros H.
    assert (Hf : filter (fun e => aip e =? ip) h = []).
    { destruct (filter _ h) as [|x xs] eqn:G; auto.
      assert (Hx : In x (filter (fun e => aip e =? ip) h)) by (rewrite G; left; reflexivity).
      apply filter_In in Hx. destruct Hx as [Hx1 Hx2]. exfalso. apply (H x Hx1). lia. }
    rewrite Hf. reflexivity.
Qed.

Lemma hunt_del_in m h e : In e (hunt_del m h) <-> In e h /\ amac e <> m.
Proof.
  unfold hunt_del. rewrite filter_In. split; intros [H1 H2]; split; auto; lia.
Qed.

Lemma hunt_has_del_same m h : hunt_has m (hunt_del m h) = false.
Proof. apply hunt_has_false. intros e Hin. apply hunt_del_in in Hin. tauto. Qed.

Lemma hunt_has_del_other m m' h : m <> m' -> hunt_has m (hunt_del m' h) = hunt_has m h.
Proof.
  intros Hne. destruct (hunt_has m h) eqn:E.
  - apply hunt_has_spec in E as [e [Hin He]]. apply hunt_has_spec. exists e. split; auto.
    apply hunt_del_in. split; auto. congruence.
  - apply hunt_has_false. intros e Hin. apply hunt_del_in in Hin as [Hin _].
    rewrite hunt_has_false in E. auto.
Qed.

Lemma hunt_has_app m h a : hunt_has m (h ++ [a]) = hunt_has m h || (amac a =? m).
Proof. unfold hunt_has. rewrite existsb_app. simpl. rewrite orb_false_r. reflexivity. Qed.

(* ---------------------------------------------------------------- *)
(* frames *)

Lemma restore_not_forged c m : cfg_ok c -> forged c (restore c m) = false.
Proof.
  unfold cfg_ok, forged, restore. simpl. intros H.
  destruct (router_mac c =? host_mac c) eqn:E; [exfalso; apply H; lia|]. apply andb_false_r.
Qed.

Lemma announce_forged c m : forged c (announce c m) = true.
Proof. unfold forged, announce. simpl. rewrite !N.eqb_refl. reflexivity. Qed.

(* ---------------------------------------------------------------- *)
(* C13_confined: one step, any state *)

Lemma wake_out c s i hint s' out f :
  wake c s i hint = (s', out) -> In f out ->
  exists lp, nth_error (loops s) i = Some lp /\ alive lp = true /\ closed s = false /\
    ((exists t, find_hunt_by_ip hint (aip (laddr lp)) (hunt s) = Some t /\ f = announce c (amac t) /\ s' = s)
     \/ (find_hunt_by_ip hint (aip (laddr lp)) (hunt s) = None /\ f = restore c (amac (laddr lp))
         /\ s' = set_loops s (kill i (loops s)))).
Proof.
  unfold wake. intros H Hin.
  destruct (nth_error (loops s) i) as [lp|] eqn:Hn; [|inversion H; subst; contradiction].
  destruct (alive lp) eqn:Ha; simpl in H; [|inversion H; subst; contradiction].
  exists lp. split; auto. split; auto.
  destruct (find_hunt_by_ip hint (aip (laddr lp)) (hunt s)) as [t|] eqn:Hf;
    destruct (closed s) eqn:Hc; inversion H; subst; try contradiction;
    destruct Hin as [Hin|[]]; subst f; (split; [reflexivity|]).
  - left. exists t. auto.
  - right. auto.
Qed.

Lemma confined_step c s e s' out f :
  cfg_ok c -> step c s e = (s', out) -> In f out -> forged c f = true ->
  known_C13_probe_router c s e = false ->
  hunted s (fedst f) = true.
Proof.
  intros Hc Hs Hin Hf Hk. destruct e; simpl in Hs.
  - unfold start_hunt in Hs. destruct (hunt_has _ _); inversion Hs; subst; contradiction.
  - inversion Hs; subst; contradiction.
  - unfold stop_hunt in Hs. inversion Hs; subst; contradiction.
  - inversion Hs; subst; contradiction.
  - destruct (wake_out _ _ _ _ _ _ _ Hs Hin) as [lp [_ [_ [_ [[t [Ht [Hfe _]]]|[_ [Hfe _]]]]]]].
    + subst f. simpl. apply find_hunt_by_ip_some in Ht as [Ht _].
      unfold hunted. apply hunt_has_spec. exists t. auto.
    + subst f. rewrite restore_not_forged in Hf by auto. discriminate.
  - unfold rx_arp in Hs. unfold known_C13_probe_router in Hk. destruct (classify p) eqn:Hcl;
      try (inversion Hs; subst; contradiction).
    + destruct (hunt_has (psmac p) (hunt s) && (ptip p =? router_ip c)) eqn:Hh;
        inversion Hs; subst; try contradiction.
      destruct Hin as [Hin|[]]; subst f. simpl. unfold hunted.
      apply andb_true_iff in Hh. tauto.
    + destruct (offer_of (psmac p) (offers s)) as [o|] eqn:Ho; [|inversion Hs; subst; contradiction].
      destruct (negb (o =? ptip p) && in_lan c (ptip p)) eqn:Hd; inversion Hs; subst; try contradiction.
      destruct Hin as [Hin|[]]; subst f. simpl.
      unfold forged, probe_reject in Hf. simpl in Hf. apply andb_true_iff in Hf as [Hf1 _].
      rewrite Hf1 in Hk. simpl in Hk. destruct (hunted _ (psmac p)); auto; try discriminate.
  - inversion Hs; subst; contradiction.
Qed.

(* over all event sequences: every position of every run *)
Lemma trace_in c s evs x :
  In x (trace c s evs) -> exists s' , step c (fst (fst x)) (snd (fst x)) = (s', snd x).
Proof.
  revert s. induction evs as [|e r IH]; intros s Hin; simpl in Hin; [contradiction|].
  destruct (step c s e) as [s1 out] eqn:Hs. destruct Hin as [Hin|Hin].
  - subst x. simpl. eauto.
  - eapply IH; eauto.
Qed.

Theorem confined_partial : forall c evs s e out f,
  cfg_ok c ->
  In (s, e, out) (trace c init_state evs) -> In f out -> forged c f = true ->
  known_C13_probe_router c s e = false ->
  hunted s (fedst f) = true.
Proof.
  intros c evs s e out f Hc Hin Hf Hfo Hk.
  apply trace_in in Hin as [s' Hs]. simpl in Hs. eapply confined_step; eauto.
Qed.

(* the full statement is false of the code: witness *)
Definition wit_cfg : cfg := mkCfg 366503875925 439804651110 3232235531 3232235520 24.
  (* host 00:55:55:55:55:55, router 00:66:66:66:66:66 192.168.0.11, LAN 192.168.0.0/24 *)
Definition wit_m3 : mac := 2199023255555.  (* 02:00:00:00:00:03 *)
Definition wit_probe_router : list event :=
  [SetOffer wit_m3 (Some 3232235522);
   RxArp (mkPkt 1 wit_m3 wit_m3 0 0 3232235531)].

Theorem confined_refuted :
  exists c evs s e out f,
    cfg_ok c /\ In (s, e, out) (trace c init_state evs) /\ In f out /\ forged c f = true /\
    hunted s (fedst f) = false.
Proof.
  exists wit_cfg, wit_probe_router.
  eexists; eexists; eexists; eexists.
  split; [unfold cfg_ok, wit_cfg; simpl; lia|].
  split; [vm_compute; right; left; reflexivity|].
  split; [left; reflexivity|]. split; vm_compute; reflexivity.
Qed.

(* non-vacuity of confined_partial: a run with forged frames to hunted hosts outside the known class *)
Definition wit_m1 : mac := 2199023255553.
Definition wit_hunt_run : list event :=
  [StartHunt (mkAddr wit_m1 3232235522); Wake 0 wit_m1;
   RxArp (mkPkt 1 wit_m1 wit_m1 3232235522 0 3232235531)].

Example confined_nonvacuous :
  cfg_ok wit_cfg /\
  outputs wit_cfg init_state wit_hunt_run =
    [[]; [announce wit_cfg wit_m1]; [mkFrame 2 wit_m1 (host_mac wit_cfg) (router_ip wit_cfg) wit_m1 3232235522]] /\
  forallb (fun x => negb (known_C13_probe_router wit_cfg (fst (fst x)) (snd (fst x))))
          (trace wit_cfg init_state wit_hunt_run) = true.
Proof. split; [unfold cfg_ok; simpl; lia|]. split; vm_compute; reflexivity. Qed.

(* ---------------------------------------------------------------- *)
(* C13_start_idempotent *)

Theorem start_idempotent : forall c s a,
  hunted s (amac a) = true -> step c s (StartHunt a) = (s, []).
Proof. intros c s a H. simpl. unfold start_hunt. unfold hunted in H. rewrite H. reflexivity. Qed.

(* and a StartHunt of a MAC that is not hunted starts exactly one loop for it *)
Theorem start_fresh : forall c s a,
  hunted s (amac a) = false ->
  exists s', step c s (StartHunt a) = (s', []) /\ hunted s' (amac a) = true /\
             loops s' = loops s ++ [mkLoop a true] /\ closed s' = closed s.
Proof.
  intros c s a H. simpl. unfold start_hunt. unfold hunted in H. rewrite H.
  eexists. split; [reflexivity|]. simpl. split; auto.
  unfold hunted. simpl. rewrite hunt_has_app, N.eqb_refl. apply orb_true_r.
Qed.
