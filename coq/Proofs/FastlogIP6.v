(* Proofs/FastlogIP6.v — appendIP6 prints the RFC 5952 text of every one of the 2^128
   addresses.  Both the model's output and the reference text factor through
     - which of the eight groups are zero (256 layouts: closed sweep over token lists), and
     - the text of each group (byte-level arithmetic),
   the rest is induction over the emission loop. *)
From PV Require Import Base.Prelude Model.Fastlog Model.FastlogOps Spec.TextSpec Proofs.Fastlog.
Open Scope N_scope.

(* ---------------------------------------------------------------- text of one group *)

(* writeHexNoleadingZeros *)
Definition nlz8 (v : N) : text :=
  if v / 16 =? 0 then [hexd (v mod 16)] else [hexd (v / 16); hexd (v mod 16)].

Lemma emits_write_hex_nlz m v : v < 256 -> emits m (fun l => write_hex_nlz l v) (nlz8 v).
Proof.
  intros H. unfold write_hex_nlz, nlz8. rewrite shr_div, land15. change (2 ^ 4) with 16.
  rewrite (hex_ascii_ok (v mod 16)) by lia. cbn [bind].
  destruct (N.eqb_spec (v / 16) 0) as [E|E].
  - change [hexd (v mod 16)] with ([] ++ [hexd (v mod 16)]).
    apply emits_bind; [apply emits_ok|apply emits_byte].
  - rewrite (hex_ascii_ok (v / 16)) by lia. cbn [bind].
    change [hexd (v / 16); hexd (v mod 16)] with ([hexd (v / 16)] ++ [hexd (v mod 16)]).
    apply emits_bind; apply emits_byte.
Qed.

(* what ip6_body prints for a group with bytes hi, lo *)
Definition mgt (hi lo : N) : text := if negb (hi =? 0) then nlz8 hi ++ hex2 lo else nlz8 lo.

Lemma mgt_hexnl hi lo : hi < 256 -> lo < 256 -> mgt hi lo = hexnl (hi * 256 + lo).
Proof.
  intros Hh Hl. unfold mgt, nlz8, hexnl, hex4, hex2.
  assert (E1 : (hi * 256 + lo) / 4096 = hi / 16) by lia.
  assert (E2 : ((hi * 256 + lo) / 256) mod 16 = hi mod 16) by lia.
  assert (E3 : ((hi * 256 + lo) / 16) mod 16 = lo / 16) by lia.
  assert (E4 : (hi * 256 + lo) mod 16 = lo mod 16) by lia.
  assert (E5 : (hi * 256 + lo) / 256 = hi) by lia.
  assert (E6 : (hi * 256 + lo) / 16 = hi * 16 + lo / 16) by lia.
  rewrite E1, E2, E3, E4, E5.
  destruct (N.eqb_spec hi 0) as [Z|Z]; cbn [negb].
  - subst hi. replace (0 * 256 + lo) with lo in * by lia.
    destruct (N.eqb_spec (lo / 16) 0) as [A|A]; destruct (N.ltb_spec lo 16) as [B|B]; try lia.
    + replace (lo mod 16) with lo by lia. reflexivity.
    + destruct (N.ltb_spec lo 256); [reflexivity|lia].
  - destruct (N.ltb_spec (hi * 256 + lo) 16); [lia|].
    destruct (N.ltb_spec (hi * 256 + lo) 256); [lia|].
    destruct (N.eqb_spec (hi / 16) 0) as [A|A]; destruct (N.ltb_spec (hi * 256 + lo) 4096) as [B|B]; try lia.
    + replace (hi mod 16) with hi by lia. reflexivity.
    + reflexivity.
Qed.

Definition gtext (ip : bytes) (i : nat) : text := mgt (at_ ip (2 * i)) (at_ ip (2 * i + 1)).

Lemma at_ok ip i : bytes_ok ip -> at_ ip i < 256.
Proof. intros H. unfold at_. apply bytes_ok_nth. exact H. Qed.

(* ---------------------------------------------------------------- tokens *)

Inductive tok : Set := G (i : nat) | C.

Definition flat (f : nat -> text) (k : list tok) : text :=
  concat (map (fun t => match t with G i => f i | C => [COLON] end) k).

Lemma flat_app f a b : flat f (a ++ b) = flat f a ++ flat f b.
Proof. unfold flat. rewrite map_app, concat_app. reflexivity. Qed.

Lemma flat_concat f ks : flat f (concat ks) = concat (map (flat f) ks).
Proof.
  induction ks as [|k r IH]; cbn [concat map]; [reflexivity|]. rewrite flat_app, IH. reflexivity.
Qed.

(* what ip6_body emits in iteration i, as tokens *)
Definition piece_tok (sZ eZ : Z) (i : nat) : list tok :=
  let zi := Z.of_nat i in
  if (zi =? sZ)%Z then (if (sZ =? 0)%Z then [C; C] else [C])
  else if (sZ <=? zi)%Z && (zi <=? eZ)%Z then []
  else G i :: (if Nat.ltb i 7 then [C] else []).

Lemma emits_ip6_body m ip sZ eZ i :
  bytes_ok ip -> emits m (ip6_body ip sZ eZ i) (flat (gtext ip) (piece_tok sZ eZ i)).
Proof.
  intros B. unfold ip6_body, piece_tok.
  destruct (Z.of_nat i =? sZ)%Z.
  - destruct (sZ =? 0)%Z.
    + change (flat (gtext ip) [C; C]) with ([COLON] ++ [COLON]). apply emits_bind; apply emits_byte.
    + change (flat (gtext ip) [C]) with ([] ++ [COLON]). apply emits_bind; [apply emits_ok|apply emits_byte].
  - destruct ((sZ <=? Z.of_nat i)%Z && (Z.of_nat i <=? eZ)%Z).
    + apply emits_ok.
    + assert (EG : emits m (fun l =>
                 if negb (at_ ip (2 * i) =? 0)
                 then (l0 <- write_hex_nlz l (at_ ip (2 * i)) ;; write_hex l0 (at_ ip (2 * i + 1)))%res
                 else write_hex_nlz l (at_ ip (2 * i + 1))) (gtext ip i)).
      { unfold gtext, mgt. destruct (negb (at_ ip (2 * i) =? 0)).
        - apply emits_bind; [apply emits_write_hex_nlz|apply emits_write_hex]; apply at_ok; exact B.
        - apply emits_write_hex_nlz. apply at_ok; exact B. }
      destruct (Nat.ltb i 7).
      * change (flat (gtext ip) [G i; C]) with (gtext ip i ++ [COLON] ++ []).
        rewrite app_nil_r. apply emits_bind; [exact EG|apply emits_byte].
      * change (flat (gtext ip) [G i]) with (gtext ip i ++ []).
        apply emits_bind; [exact EG|apply emits_ok].
Qed.

Lemma emits_ip6_emit m ip sZ eZ is :
  bytes_ok ip ->
  emits m (ip6_emit ip sZ eZ is) (flat (gtext ip) (concat (map (piece_tok sZ eZ) is))).
Proof.
  intros B. induction is as [|i r IH]; cbn [ip6_emit map concat].
  - apply emits_ok.
  - rewrite flat_app. apply emits_bind; [apply emits_ip6_body; exact B|exact IH].
Qed.

(* ---------------------------------------------------------------- the search depends on the zero layout only *)

Lemma ip6_inner_ext z z' i js se :
  (forall j, In j js -> z j = z' j) -> ip6_inner z i js se = ip6_inner z' i js se.
Proof.
  revert se. induction js as [|j r IH]; intros se H; cbn [ip6_inner]; [reflexivity|].
  rewrite <- (H j) by (left; reflexivity). destruct (z j); [|reflexivity].
  apply IH. intros k Hk. apply H. right. exact Hk.
Qed.

Lemma ip6_outer_ext z z' is se :
  (forall j, (j < 8)%nat -> z j = z' j) -> (forall i, In i is -> (i < 8)%nat) ->
  ip6_outer z is se = ip6_outer z' is se.
Proof.
  intros H. revert se. induction is as [|i r IH]; intros se Hi; cbn [ip6_outer]; [reflexivity|].
  rewrite (ip6_inner_ext z z').
  - apply IH. intros k Hk. apply Hi. right. exact Hk.
  - intros j Hj. apply H. apply in_seq in Hj. specialize (Hi i (or_introl eq_refl)). lia.
Qed.

Lemma ip6_search_z_ext z z' :
  (forall j, (j < 8)%nat -> z j = z' j) -> ip6_search_z z = ip6_search_z z'.
Proof.
  intros H. unfold ip6_search_z. rewrite (ip6_outer_ext z z'); auto.
  intros i Hi. apply in_seq in Hi. lia.
Qed.

(* the model's output as a function of the zero layout *)
Definition model_toks (mk : list bool) : list tok :=
  let '(sZ, eZ) := ip6_search_z (fun j => nth j mk false) in
  concat (map (piece_tok sZ eZ) (seq 0 8)).

(* the reference as a function of the zero layout: RFC 5952 over group tokens *)
Definition spec_toks (mk : list bool) : list tok :=
  render C mk (map (fun i => [G i]) (seq 0 8)).

(* ---------------------------------------------------------------- closed sweep over the 256 layouts *)

Fixpoint all_bools (n : nat) : list (list bool) :=
  match n with
  | O => [[]]
  | S k => map (cons true) (all_bools k) ++ map (cons false) (all_bools k)
  end.

Lemma all_bools_in m : In m (all_bools (List.length m)).
Proof.
  induction m as [|b r IH]; cbn [all_bools List.length]; [left; reflexivity|].
  apply in_or_app. destruct b; [left|right]; apply in_map; exact IH.
Qed.

Definition tok_eqb (a b : tok) : bool :=
  match a, b with
  | G i, G j => Nat.eqb i j
  | C, C => true
  | _, _ => false
  end.
Fixpoint toks_eqb (a b : list tok) : bool :=
  match a, b with
  | [], [] => true
  | x :: r, y :: s => tok_eqb x y && toks_eqb r s
  | _, _ => false
  end.
Lemma toks_eqb_eq a : forall b, toks_eqb a b = true -> a = b.
Proof.
  induction a as [|x xs IH]; intros [|y ys]; cbn; try discriminate; auto.
  intros E. apply andb_prop in E. destruct E as [E1 E2]. f_equal; [|auto].
  destruct x, y; cbn in E1; try discriminate; auto. apply Nat.eqb_eq in E1. subst. reflexivity.
Qed.

Lemma sweep_layouts :
  forallb (fun mk => toks_eqb (model_toks mk) (spec_toks mk)) (all_bools 8) = true.
Proof. vm_compute. reflexivity. Qed.

Lemma model_toks_spec mk : List.length mk = 8%nat -> model_toks mk = spec_toks mk.
Proof.
  intros H. apply toks_eqb_eq.
  pose proof sweep_layouts as S. rewrite forallb_forall in S. apply S.
  rewrite <- H. apply all_bools_in.
Qed.

(* ---------------------------------------------------------------- tokens back to text *)

Lemma flat_join f is :
  flat f (join [C] (map (fun i => [G i]) is)) = join [COLON] (map f is).
Proof.
  induction is as [|a r IH]; [reflexivity|].
  destruct r as [|b r'].
  - cbn [map join]. unfold flat. cbn [map concat]. apply app_nil_r.
  - change (map (fun i => [G i]) (a :: b :: r')) with ([G a] :: map (fun i => [G i]) (b :: r')).
    change (map f (a :: b :: r')) with (f a :: map f (b :: r')).
    change (join [C] ([G a] :: map (fun i : nat => [G i]) (b :: r')))
      with ([G a] ++ [C] ++ join [C] (map (fun i : nat => [G i]) (b :: r'))).
    change (join [COLON] (f a :: map f (b :: r')))
      with (f a ++ [COLON] ++ join [COLON] (map f (b :: r'))).
    rewrite !flat_app, IH. unfold flat at 1 2. cbn [map concat]. rewrite !app_nil_r. reflexivity.
Qed.

Lemma flat_spec_toks f mk :
  flat f (spec_toks mk) = render COLON mk (map f (seq 0 8)).
Proof.
  unfold spec_toks, render. destruct (best_run mk 0 (0%nat, 0%nat)) as [s n].
  destruct (Nat.ltb n 2).
  - apply flat_join.
  - rewrite !firstn_map, !skipn_map, !flat_app, !flat_join. reflexivity.
Qed.

(* ---------------------------------------------------------------- bytes to groups *)

Lemma gz_group hi lo : ((hi =? 0) && (lo =? 0)) = (0 =? hi * 256 + lo).
Proof.
  destruct (N.eqb_spec hi 0), (N.eqb_spec lo 0), (N.eqb_spec 0 (hi * 256 + lo)); cbn; try reflexivity; lia.
Qed.

Lemma layout_groups ip : List.length ip = 16%nat ->
  map (gz ip) (seq 0 8) = map (N.eqb 0) (groups ip).
Proof.
  intros H.
  do 16 (destruct ip as [|? ip]; [discriminate|]). destruct ip; [|discriminate].
  cbn [seq map groups]. unfold gz, at_. cbn [Nat.mul Nat.add nth]. rewrite !gz_group. reflexivity.
Qed.

Lemma texts_groups ip : List.length ip = 16%nat -> bytes_ok ip ->
  map (gtext ip) (seq 0 8) = map hexnl (groups ip).
Proof.
  intros H B.
  do 16 (destruct ip as [|? ip]; [discriminate|]). destruct ip; [|discriminate].
  unfold bytes_ok in B.
  repeat match goal with H : Forall _ (_ :: _) |- _ => inversion H; clear H; subst end.
  cbn [seq map groups]. unfold gtext, at_. cbn [Nat.mul Nat.add nth].
  rewrite !mgt_hexnl by assumption. reflexivity.
Qed.

(* ---------------------------------------------------------------- appendIP6 = RFC 5952 *)

Theorem emits_append_ip6 m ip :
  List.length ip = 16%nat -> bytes_ok ip ->
  emits m (fun l => append_ip6 l ip) (ip6_plain (groups ip)).
Proof.
  intros H B. unfold append_ip6. rewrite H. cbn [Nat.eqb negb].
  destruct (ip6_search ip) as [sZ eZ] eqn:ES.
  eapply emits_eq; [intros; reflexivity| |apply (emits_ip6_emit m ip sZ eZ (seq 0 8) B)].
  unfold ip6_plain. rewrite <- (layout_groups ip H), <- (texts_groups ip H B).
  rewrite <- flat_spec_toks. f_equal.
  rewrite <- model_toks_spec by (rewrite map_length, seq_length; reflexivity).
  unfold model_toks.
  replace (ip6_search_z (fun j => nth j (map (gz ip) (seq 0 8)) false)) with (ip6_search ip).
  - rewrite ES. reflexivity.
  - unfold ip6_search. apply ip6_search_z_ext. intros j Hj.
    do 8 (destruct j as [|j]; [reflexivity|]). lia.
Qed.

Lemma emits_append_ip6_nil m ip :
  List.length ip <> 16%nat -> emits m (fun l => append_ip6 l ip) NIL.
Proof.
  intros H. unfold append_ip6. destruct (Nat.eqb_spec (List.length ip) 16) as [E|E]; [contradiction|].
  cbn [negb]. apply emits_copy.
Qed.

(* ---------------------------------------------------------------- IPSlice of any net.IP *)

Lemma to4_16 ip : List.length ip = 16%nat ->
  to4 ip = if is4in6 ip then Some (skipn 12 ip) else None.
Proof.
  intros H.
  do 16 (destruct ip as [|? ip]; [discriminate|]). destruct ip; [|discriminate].
  unfold to4, is4in6. cbn [List.length Nat.eqb firstn nth skipn andb forallb].
  rewrite !andb_true_r. reflexivity.
Qed.

Lemma emits_ipslice m name ip :
  bytes_ok ip -> (List.length ip = 4%nat \/ List.length ip = 16%nat) ->
  emits m (fun l => f_ipslice l name (Some ip)) (fld name (netip_text ip)).
Proof.
  intros B [H|H].
  - do 4 (destruct ip as [|? ip]; [discriminate|]). destruct ip; [|discriminate].
    unfold bytes_ok in B.
    repeat match goal with H : Forall _ (_ :: _) |- _ => inversion H; clear H; subst end.
    unfold netip_text. cbn [List.length Nat.eqb]. apply emits_ipslice4; assumption.
  - unfold f_ipslice. apply emits_field. unfold netip_text. rewrite H. cbn [Nat.eqb].
    rewrite (to4_16 ip H). destruct (is4in6 ip) eqn:E4.
    + do 16 (destruct ip as [|? ip]; [discriminate|]). destruct ip; [|discriminate].
      unfold bytes_ok in B.
      repeat match goal with H : Forall _ (_ :: _) |- _ => inversion H; clear H; subst end.
      cbn [skipn]. apply emits_put_ip4; assumption.
    + apply emits_append_ip6; assumption.
Qed.

Lemma emits_ipslice_other m name ip :
  List.length ip <> 4%nat -> List.length ip <> 16%nat ->
  emits m (fun l => f_ipslice l name (Some ip)) (fld name NIL).
Proof.
  intros H4 H16. unfold f_ipslice. apply emits_field.
  assert (T : to4 ip = None).
  { unfold to4.
    do 4 (destruct ip as [|? ip]; [reflexivity|]).
    destruct ip as [|? ip]; [cbn in H4; lia|].
    do 11 (destruct ip as [|? ip]; [reflexivity|]).
    destruct ip as [|? ip]; [cbn in H16; lia|reflexivity]. }
  rewrite T. apply emits_append_ip6_nil. exact H16.
Qed.

(* ---- statements of Properties/C20.v *)
Lemma ip6_all l ip :
  wf l -> bytes_ok ip -> List.length ip = 16%nat -> fits l (ip6_plain (groups ip)) ->
  appended l (ip6_plain (groups ip)) (append_ip6 l ip).
Proof. intros W B H F. apply (emits_appended _ _ (emits_append_ip6 0 ip H B)); auto. Qed.

Definition ex_ip6 : bytes := [32;1; 13;184; 0;0; 0;0; 0;1; 0;0; 0;0; 0;1].
Lemma ip6_nonvacuous :
  wf ex_line /\ bytes_ok ex_ip6 /\ List.length ex_ip6 = 16%nat /\ fits ex_line (ip6_plain (groups ex_ip6)) /\
  ip6_plain (groups ex_ip6) = [50;48;48;49;58;100;98;56;58;58;49;58;48;58;48;58;49].
Proof.
  split; [apply ex_line_wf|]. split; [apply bytes_okb_spec; vm_compute; reflexivity|].
  split; [reflexivity|]. split; [unfold fits; vm_compute; lia|]. vm_compute. reflexivity.
Qed.

Lemma field_ipslice l name ip :
  wf l -> bytes_ok ip -> (List.length ip = 4%nat \/ List.length ip = 16%nat) ->
  fits l (fld name (netip_text ip)) ->
  appended l (fld name (netip_text ip)) (f_ipslice l name (Some ip)).
Proof. intros W B H F. apply (emits_appended _ _ (emits_ipslice 0 name ip B H)); auto. Qed.
