(* Proofs/ArpSpoofMonitor.v — the monitor of Spec/ArpSpoof.v (the property text as a checker of observed
   runs) accepts every run of the model: simulation between model state and monitor state. *)
From PV Require Import Base.Prelude Base.Slice Model.ArpSpoof Spec.ArpSpoof Proofs.ArpSpoof Proofs.ArpSpoofLoops Proofs.ArpSpoofRx.
Open Scope N_scope.

Definition phase_of (p : pc) : sphase :=
  match p with
  | PTop | PWait => SIdle
  | PLooked f => SLooked (match f with Some _ => true | None => false end)
  | PSend _ cont => SChecked cont
  | PDone => SDone
  end.

Definition loop_view (lp : loop) : mac * sphase := (amac (laddr lp), phase_of (lpc lp)).

(* what a loop holds is about its own MAC *)
Definition pc_wf (c : cfg) (lp : loop) : Prop :=
  match lpc lp with
  | PLooked (Some t) => amac t = amac (laddr lp)
  | PSend f true => f = announce c (amac (laddr lp))
  | PSend f false => f = restore c (amac (laddr lp))
  | _ => True
  end.

(* the frame decided for a request / probe in flight *)
Definition reply_of (c : cfg) (p : arp_pkt) : frame :=
  if sp_is_probe p then probe_reject c p else spoof_reply c p.

Record sim (c : cfg) (s : state) (sp : sp_state) : Prop := mkSim {
  sim_hunt : forall m, hunted s m = mem m (sp_hunted sp);
  sim_offer : forall m, offer_of m (offers s) = sp_offer m (sp_hist sp);
  sim_closed : closed s = sp_closed sp;
  sim_fail : sp_failing sp = false -> failn s = O;
  sim_loops : map loop_view (loops s) = sp_loops sp;
  sim_wf : forall i lp, nth_error (loops s) i = Some lp -> pc_wf c lp;
  sim_rxq : rxq s = map (reply_of c) (sp_rxq sp)
}.

Lemma mem_filter_neq x m l : mem x (filter (fun y => negb (y =? m)) l) = negb (x =? m) && mem x l.
Proof.
  unfold mem. induction l as [|y ys IH]; simpl; [rewrite andb_false_r; reflexivity|].
  destruct (y =? m) eqn:E; simpl.
  - rewrite IH. destruct (x =? m) eqn:E2; simpl; auto.
    assert (x =? y = false) by lia. rewrite H. reflexivity.
  - rewrite IH. destruct (x =? y) eqn:E3; simpl.
    + assert (x =? m = false) by lia. rewrite H. reflexivity.
    + reflexivity.
Qed.

Lemma hunt_has_del x m h : hunt_has x (hunt_del m h) = negb (x =? m) && hunt_has x h.
Proof.
  destruct (x =? m) eqn:E; simpl.
  - assert (x = m) by lia. subst. apply hunt_has_del_same.
  - apply hunt_has_del_other. lia.
Qed.

Lemma offer_of_filter_same m o : offer_of m (filter (fun e => negb (fst e =? m)) o) = None.
Proof.
  induction o as [|[m' x] r IH]; simpl; auto.
  destruct (m' =? m) eqn:E; simpl; auto. rewrite E. exact IH.
Qed.

Lemma offer_of_filter_other x m o : x <> m -> offer_of x (filter (fun e => negb (fst e =? m)) o) = offer_of x o.
Proof.
  intros Hne. induction o as [|[m' v] r IH]; simpl; auto.
  destruct (m' =? m) eqn:E; simpl.
  - assert (m' =? x = false) by lia. rewrite H. exact IH.
  - destruct (m' =? x); auto.
Qed.

Lemma offer_of_set x m o offs :
  offer_of x (offers_set m o offs) = if m =? x then o else offer_of x offs.
Proof.
  unfold offers_set. destruct (m =? x) eqn:E.
  - assert (m = x) by lia. subst. destruct o as [v|]; simpl.
    + rewrite N.eqb_refl. reflexivity.
    + apply offer_of_filter_same.
  - destruct o as [v|]; simpl; [rewrite E|]; apply offer_of_filter_other; lia.
Qed.

Lemma map_set_nth {A B} (f : A -> B) i v l : map f (set_nth i v l) = set_nth i (f v) (map f l).
Proof. revert i. induction l as [|x xs IH]; intros [|i]; simpl; auto. rewrite IH. reflexivity. Qed.

Lemma view_set_pc i p l lp :
  nth_error l i = Some lp ->
  map loop_view (set_pc i p l) = set_nth i (amac (laddr lp), phase_of p) (map loop_view l).
Proof. intros H. unfold set_pc. rewrite H. rewrite map_set_nth. reflexivity. Qed.

Lemma wf_set_pc c i p l lp :
  nth_error l i = Some lp -> pc_wf c (mkLoop (laddr lp) p) ->
  (forall j lq, nth_error l j = Some lq -> pc_wf c lq) ->
  forall j lq, nth_error (set_pc i p l) j = Some lq -> pc_wf c lq.
Proof.
  intros Hl Hp Hall j lq Hj. destruct (Nat.eq_dec i j) as [->|Hne].
  - rewrite (set_pc_same _ _ _ _ Hl) in Hj. inversion Hj; subst. exact Hp.
  - rewrite set_pc_other in Hj by auto. eapply Hall; eauto.
Qed.

Lemma hunt_find_is_some m h : (match hunt_find m h with Some _ => true | None => false end) = hunt_has m h.
Proof.
  destruct (hunt_find m h) eqn:E.
  - apply hunt_find_some in E as [H1 H2]. symmetry. apply hunt_has_spec. eauto.
  - apply hunt_find_none in E. auto.
Qed.

(* a connection that is not failing keeps not failing unless the environment says so *)
Lemma wr_failn0 s f : failn s = O -> failn (fst (fst (wr s f))) = O /\ snd (fst (wr s f)) = [f].
Proof. intros H. unfold wr. rewrite H. simpl. auto. Qed.

Lemma wr2_failn0 s f : failn s = O -> failn (fst (wr2 s f)) = O /\ snd (wr2 s f) = [f].
Proof. intros H. unfold wr2. apply wr_failn0; auto. Qed.

Lemma scan_check_failn c s j : failn (fst (scan_check c s j)) = failn s.
Proof. apply (scan_check_spec c s j). Qed.

Lemma scan_send_failn0 c s j : failn s = O -> failn (fst (scan_send c s j)) = O.
Proof.
  intros H. unfold scan_send. destruct (nth_error (scans s) j) as [[ips d]|]; auto. destruct d; auto.
  unfold wr. rewrite H. simpl. exact H.
Qed.

Lemma rx_reply_failn0 s k : failn s = O -> failn (fst (rx_reply s k)) = O.
Proof.
  intros H. unfold rx_reply. destruct (nth_error (rxq s) k); auto. unfold wr. rewrite H. simpl. exact H.
Qed.

Lemma whois_failn0 c ip n : forall s, failn s = O -> failn (fst (whois_go c s ip n)) = O.
Proof.
  induction n as [|n IH]; intros s H; simpl; auto.
  unfold wr. rewrite H. simpl. specialize (IH s H). destruct (whois_go c s ip n); simpl in *; auto.
Qed.

Lemma out_cases s f : snd (wr2 s f) = [f] \/ (snd (wr2 s f) = [] /\ failn s <> O).
Proof.
  unfold wr2. destruct (wr_cases s f) as [[E _]|[k [E0 E]]]; rewrite E; simpl; auto. right. split; auto. lia.
Qed.

Lemma failing_of_failn c s sp : sim c s sp -> failn s <> O -> sp_failing sp = true.
Proof.
  intros R H. destruct (sp_failing sp) eqn:E; auto. exfalso. apply H. apply (sim_fail _ _ _ R). exact E.
Qed.

Lemma check_own_nil c sp : sp_check_own c sp [] = [].
Proof. unfold sp_check_own. simpl. destruct (sp_closed sp); reflexivity. Qed.

Lemma restore_is_restore c m : sp_is_restore c m (restore c m) = true.
Proof. unfold sp_is_restore, restore. simpl. rewrite !N.eqb_refl. reflexivity. Qed.

(* the receive path is accepted *)
Lemma sp_rx_ok c s sp p :
  sim c s sp ->
  exists sp', sp_rx c sp p (snd (step c s (RxArp p))) = (sp', []) /\
    (sp' = sp \/ sp' = sp_set_rxq (sp_rxq sp ++ [p]) sp) /\
    rxq (fst (step c s (RxArp p))) = map (reply_of c) (sp_rxq sp').
Proof.
  intros R. rewrite rx_spec. unfold rx_answer, sp_rx.
  pose proof (sim_closed _ _ _ R) as Hcl. pose proof (sim_rxq _ _ _ R) as Hq.
  destruct (closed s); rewrite <- Hcl; [exists sp; simpl; auto|].
  unfold sp_probe_reject_due. rewrite <- (sim_offer _ _ _ R), <- (sim_hunt _ _ _ R).
  destruct (sp_is_probe p) eqn:Hp.
  - destruct (sp_reject_cond c (offer_of (psmac p) (offers s)) p); [|exists sp; simpl; auto].
    eexists. split; [reflexivity|]. split; [right; reflexivity|]. simpl.
    rewrite map_app. simpl. rewrite Hq. f_equal. unfold reply_of. rewrite Hp. reflexivity.
  - destruct (sp_asks_router c p && hunted s (psmac p)); [|exists sp; simpl; auto].
    eexists. split; [reflexivity|]. split; [right; reflexivity|]. simpl.
    rewrite map_app. simpl. rewrite Hq. f_equal. unfold reply_of. rewrite Hp. reflexivity.
Qed.

Lemma sim_queue c s sp q q' :
  sim c s sp -> q = map (reply_of c) q' -> sim c (set_rxq s q) (sp_set_rxq q' sp).
Proof. intros R H. constructor; simpl; try apply R. exact H. Qed.

(* events that change nothing the monitor tracks except possibly consuming refused writes *)
Lemma sim_same c s s' sp :
  sim c s sp -> hunt s' = hunt s -> loops s' = loops s -> closed s' = closed s -> offers s' = offers s ->
  (failn s = O -> failn s' = O) -> rxq s' = rxq s -> sim c s' sp.
Proof.
  intros R H1 H2 H3 H4 H5 H6. constructor.
  - intros m. unfold hunted. rewrite H1. apply (sim_hunt _ _ _ R).
  - intros m. rewrite H4. apply (sim_offer _ _ _ R).
  - rewrite H3. apply (sim_closed _ _ _ R).
  - intros F. apply H5. apply (sim_fail _ _ _ R F).
  - rewrite H2. apply (sim_loops _ _ _ R).
  - intros i lp. rewrite H2. apply (sim_wf _ _ _ R).
  - rewrite H6. apply (sim_rxq _ _ _ R).
Qed.

Lemma api_ok c s sp e :
  cfg_ok c -> sim c s sp -> is_api_send e = true ->
  (sp_caller_forged c e || forallb (fun f => negb (sp_forged c f)) (snd (step c s e))) = true /\
  sim c (fst (step c s e)) sp.
Proof.
  intros Hc R Ha. split.
  - destruct (sp_caller_forged c e) eqn:Hcf; [reflexivity|]. simpl.
    apply forallb_forall. intros f Hin. apply negb_true_iff.
    destruct (sp_forged c f) eqn:Hf; auto.
    assert (caller_forged c e = true) by (apply (api_forges_iff c s e f Hc Ha Hin); exact Hf).
    assert (caller_forged c e = sp_caller_forged c e) by (destruct e; reflexivity). congruence.
  - assert (Hce : core_event e = true) by (destruct e; try discriminate; reflexivity).
    destruct (step_core c s e Hce) as [H1 [H2 [H3 H4]]]. pose proof (step_rxq c s e) as HQ.
    apply (sim_same c s _ sp R H1 H2 H3 H4).
    + intros F. destruct e; try discriminate; simpl; auto; try (apply wr2_failn0; exact F).
      * rewrite scan_check_failn. exact F.
      * apply scan_send_failn0. exact F.
      * apply whois_failn0. exact F.
    + destruct e; try discriminate; exact HQ.
Qed.

Lemma sim_core c s s' sp sp' :
  sim c s sp -> hunt s' = hunt s -> loops s' = loops s -> closed s' = closed s -> offers s' = offers s ->
  (failn s = O -> failn s' = O) ->
  sp_hunted sp' = sp_hunted sp -> sp_hist sp' = sp_hist sp -> sp_closed sp' = sp_closed sp ->
  sp_failing sp' = sp_failing sp -> sp_loops sp' = sp_loops sp ->
  rxq s' = map (reply_of c) (sp_rxq sp') -> sim c s' sp'.
Proof.
  intros R H1 H2 H3 H4 H5 G1 G2 G3 G4 G5 H6. constructor.
  - intros m. unfold hunted. rewrite H1, G1. apply (sim_hunt _ _ _ R).
  - intros m. rewrite H4, G2. apply (sim_offer _ _ _ R).
  - rewrite H3, G3. apply (sim_closed _ _ _ R).
  - rewrite G4. intros F. apply H5. apply (sim_fail _ _ _ R F).
  - rewrite H2, G5. apply (sim_loops _ _ _ R).
  - intros i lp. rewrite H2. apply (sim_wf _ _ _ R).
  - exact H6.
Qed.

Lemma rx_arp_failn0 c s p : failn s = O -> failn (fst (rx_arp c s p)) = O.
Proof. intros F. rewrite rx_arp_failn. exact F. Qed.

Lemma sim_rx c s sp p :
  sim c s sp ->
  exists sp', sp_rx c sp p (snd (step c s (RxArp p))) = (sp', []) /\ sim c (fst (step c s (RxArp p))) sp'.
Proof.
  intros R. destruct (sp_rx_ok c s sp p R) as [sp' [E [Hsp Hq]]]. exists sp'. split; auto.
  destruct (rx_arp_state c s p) as [H1 [H2 [H3 H4]]].
  apply (sim_core c s _ sp sp' R H1 H2 H3 H4 (rx_arp_failn0 c s p)); auto;
    destruct Hsp as [->| ->]; reflexivity.
Qed.

Lemma nth_error_remove_map {A B} (f : A -> B) k (l : list A) :
  remove_nth k (map f l) = map f (remove_nth k l).
Proof. unfold remove_nth. rewrite map_app, firstn_map, skipn_map. reflexivity. Qed.

Lemma nth_view (l : list loop) i :
  nth_error (map loop_view l) i = option_map loop_view (nth_error l i).
Proof. apply nth_error_map. Qed.

Lemma sim_set_pc c s sp i lp p :
  sim c s sp -> nth_error (loops s) i = Some lp -> pc_wf c (mkLoop (laddr lp) p) ->
  sim c (set_loops s (set_pc i p (loops s))) (sp_set_phase i (amac (laddr lp)) (phase_of p) sp).
Proof.
  intros R Hl Hp. constructor; simpl; try apply R.
  - rewrite (view_set_pc _ _ _ _ Hl). rewrite (sim_loops _ _ _ R). reflexivity.
  - apply (wf_set_pc c i p (loops s) lp Hl Hp). apply (sim_wf _ _ _ R).
Qed.

Lemma sim_step c s sp e s' out :
  cfg_ok c -> sim c s sp -> step c s e = (s', out) ->
  exists sp', sp_step c sp e out = (sp', []) /\ sim c s' sp'.
Proof.
  intros Hc R Hs.
  destruct e; try (
    (* public send API *)
    pose proof (f_equal fst Hs) as Hs1; pose proof (f_equal snd Hs) as Hs2; cbn [fst snd] in Hs1, Hs2; subst s' out;
    match goal with |- context [sp_step c sp ?ev _] =>
      destruct (api_ok c s sp ev Hc R eq_refl) as [Hok Rn] end;
    exists sp; split; [unfold sp_step; rewrite Hok; reflexivity | exact Rn]).
  - (* StartHunt *)
    simpl in Hs. unfold start_hunt in Hs. unfold sp_step. rewrite <- (sim_hunt _ _ _ R). unfold hunted.
    destruct (hunt_has (amac a) (hunt s)) eqn:Hh; inversion Hs; subst; clear Hs; rewrite check_own_nil; simpl.
    + eexists; split; [reflexivity|]. exact R.
    + eexists; split; [reflexivity|]. constructor; simpl; try apply R.
      * intros m. unfold hunted. simpl. rewrite hunt_has_app. rewrite <- (sim_hunt _ _ _ R). unfold hunted.
        unfold mem. simpl. rewrite orb_comm. f_equal. apply N.eqb_sym.
      * rewrite map_app. simpl. rewrite (sim_loops _ _ _ R). reflexivity.
      * intros i lp Hn. destruct (Nat.lt_ge_cases i (List.length (loops s))) as [Hlt|Hge].
        -- rewrite nth_error_app1 in Hn by auto. apply (sim_wf _ _ _ R i lp Hn).
        -- rewrite nth_error_app2 in Hn by auto. destruct (i - List.length (loops s))%nat as [|n]; simpl in Hn.
           ++ inversion Hn; subst. exact I.
           ++ destruct n; discriminate.
  - (* StartHuntInvalid *)
    simpl in Hs. inversion Hs; subst. unfold sp_step. rewrite check_own_nil. eexists; split; [reflexivity|exact R].
  - (* StopHunt *)
    simpl in Hs. unfold stop_hunt in Hs. inversion Hs; subst; clear Hs. unfold sp_step. rewrite check_own_nil.
    eexists; split; [reflexivity|]. constructor; simpl; try apply R.
    intros x. unfold hunted. simpl. rewrite hunt_has_del, mem_filter_neq. f_equal. apply (sim_hunt _ _ _ R).
  - (* Close *)
    simpl in Hs. inversion Hs; subst. unfold sp_step. rewrite check_own_nil.
    eexists; split; [reflexivity|]. constructor; simpl; try apply R. reflexivity.
  - (* Lookup *)
    simpl in Hs. unfold lookup in Hs. unfold sp_step. rewrite <- (sim_loops _ _ _ R), nth_view.
    destruct (nth_error (loops s) i) as [lp|] eqn:Hl; simpl.
    + destruct (lpc lp) as [|found|f cont| |] eqn:Hp; simpl; inversion Hs; subst; clear Hs; simpl;
        try (eexists; split; [reflexivity|exact R]).
      * rewrite <- (sim_closed _ _ _ R). destruct (closed s) eqn:Hcl; (eexists; split; [reflexivity|]).
        -- apply (sim_set_pc c s sp i lp PDone R Hl). exact I.
        -- rewrite <- (sim_hunt _ _ _ R). unfold hunted. rewrite <- hunt_find_is_some.
           apply (sim_set_pc c s sp i lp (PLooked (hunt_find (amac (laddr lp)) (hunt s))) R Hl).
           unfold pc_wf. simpl. destruct (hunt_find _ _) eqn:Hf; auto. apply hunt_find_some in Hf. tauto.
      * rewrite <- (sim_closed _ _ _ R). destruct (closed s) eqn:Hcl; (eexists; split; [reflexivity|]).
        -- apply (sim_set_pc c s sp i lp PDone R Hl). exact I.
        -- rewrite <- (sim_hunt _ _ _ R). unfold hunted. rewrite <- hunt_find_is_some.
           apply (sim_set_pc c s sp i lp (PLooked (hunt_find (amac (laddr lp)) (hunt s))) R Hl).
           unfold pc_wf. simpl. destruct (hunt_find _ _) eqn:Hf; auto. apply hunt_find_some in Hf. tauto.
    + inversion Hs; subst. eexists; split; [reflexivity|exact R].
  - (* Check *)
    simpl in Hs. unfold check in Hs. unfold sp_step. rewrite <- (sim_loops _ _ _ R), nth_view.
    destruct (nth_error (loops s) i) as [lp|] eqn:Hl; simpl.
    + destruct (lpc lp) as [|found|f cont| |] eqn:Hp; simpl; inversion Hs; subst; clear Hs; simpl;
        try (eexists; split; [reflexivity|exact R]).
      pose proof (sim_wf _ _ _ R i lp Hl) as Hwf. unfold pc_wf in Hwf. rewrite Hp in Hwf.
      destruct found as [t|]; (eexists; split; [reflexivity|]).
      * apply (sim_set_pc c s sp i lp (PSend (announce c (amac t)) true) R Hl). unfold pc_wf. simpl. rewrite Hwf. reflexivity.
      * apply (sim_set_pc c s sp i lp (PSend (restore c (amac (laddr lp))) false) R Hl). reflexivity.
    + inversion Hs; subst. eexists; split; [reflexivity|exact R].
  - (* Send *)
    simpl in Hs. unfold send in Hs. unfold sp_step. rewrite <- (sim_loops _ _ _ R), nth_view.
    destruct (nth_error (loops s) i) as [lp|] eqn:Hl; simpl.
    + destruct (lpc lp) as [|found|f cont| |] eqn:Hp; simpl; try (inversion Hs; subst; clear Hs; simpl; eexists; split; [reflexivity|exact R]).
      * pose proof (sim_wf _ _ _ R i lp Hl) as Hwf. unfold pc_wf in Hwf. rewrite Hp in Hwf.
        destruct (wr_cases s f) as [[E F0]|[k [F0 E]]]; rewrite E in Hs; inversion Hs; subst s' out; clear Hs.
        -- (* the frame goes out *)
           destruct cont; subst f.
           ++ change (sp_forged c (announce c (amac (laddr lp)))) with (forged c (announce c (amac (laddr lp)))).
              rewrite announce_forged. simpl. rewrite N.eqb_refl. simpl.
              eexists; split; [reflexivity|]. apply (sim_set_pc c s sp i lp PWait R Hl). exact I.
           ++ rewrite restore_is_restore.
              change (sp_forged c (restore c (amac (laddr lp)))) with (forged c (restore c (amac (laddr lp)))).
              rewrite restore_not_forged by auto. simpl.
              eexists; split; [reflexivity|]. apply (sim_set_pc c s sp i lp PDone R Hl). exact I.
        -- (* the write is refused *)
           assert (Hfl : sp_failing sp = true) by (apply (failing_of_failn c s sp R); lia).
           rewrite Hfl.
           assert (Rk : sim c (set_failn s k) sp).
           { apply (sim_same c s _ sp R); auto. intros F. lia. }
           destruct cont.
           ++ eexists; split; [reflexivity|].
              apply (sim_set_pc c (set_failn s k) sp i lp PWait Rk Hl). exact I.
           ++ eexists; split; [reflexivity|].
              apply (sim_set_pc c (set_failn s k) sp i lp PDone Rk Hl). exact I.
    + inversion Hs; subst. eexists; split; [reflexivity|exact R].
  - (* RxArp *)
    destruct (sim_rx c s sp p R) as [sp' [E Rn]]. rewrite Hs in E, Rn. simpl in E, Rn.
    exists sp'. split; [unfold sp_step; exact E|exact Rn].
  - (* RxReply *)
    simpl in Hs. unfold sp_step.
    pose proof (sim_rxq _ _ _ R) as Hq.
    destruct (nth_error (sp_rxq sp) k) as [p|] eqn:Hk.
    + assert (Hk' : nth_error (rxq s) k = Some (reply_of c p)) by (rewrite Hq, nth_error_map, Hk; reflexivity).
      unfold rx_reply in Hs. rewrite Hk' in Hs.
      destruct (wr s (reply_of c p)) as [[s1 o] ok] eqn:Hw. inversion Hs; subst s' out; clear Hs.
      destruct (wr_state _ _ _ _ _ Hw) as [W1 [W2 [W3 W4]]]. destruct (wr_state2 _ _ _ _ _ Hw) as [W5 _].
      eexists. split.
      * f_equal. destruct (wr_cases s (reply_of c p)) as [[E _]|[k0 [F0 E]]]; rewrite E in Hw; inversion Hw; subst.
        -- unfold sp_reply_ok, sp_is_reply_to, reply_of. destruct (sp_is_probe p); simpl; rewrite !N.eqb_refl; reflexivity.
        -- rewrite (failing_of_failn c s sp R); [reflexivity|lia].
      * apply (sim_core c s _ sp _ R); simpl; auto.
        -- intros F. destruct (wr_cases s (reply_of c p)) as [[E _]|[k0 [F0 E]]]; rewrite E in Hw; inversion Hw; subst; simpl; auto. lia.
        -- rewrite W5, Hq. apply nth_error_remove_map.
    + assert (Hk' : nth_error (rxq s) k = None) by (rewrite Hq, nth_error_map, Hk; reflexivity).
      unfold rx_reply in Hs. rewrite Hk' in Hs. inversion Hs; subst. exists sp. split; [reflexivity|exact R].
  - (* RxRaw *)
    rewrite raw_spec in Hs. unfold sp_step. destruct (sp_decode ethertype payload) as [p|].
    + destruct (sim_rx c s sp p R) as [sp' [E Rn]]. rewrite Hs in E, Rn. simpl in E, Rn.
      exists sp'. split; [exact E|exact Rn].
    + inversion Hs; subst. exists sp. split; [reflexivity|exact R].
  - (* SetOffer *)
    simpl in Hs. inversion Hs; subst; clear Hs. unfold sp_step. rewrite check_own_nil.
    eexists; split; [reflexivity|]. constructor; simpl; try apply R.
    intros x. rewrite offer_of_set. rewrite (sim_offer _ _ _ R). reflexivity.
  - (* FailWrites *)
    simpl in Hs. inversion Hs; subst; clear Hs. unfold sp_step. rewrite check_own_nil.
    eexists; split; [reflexivity|]. constructor; simpl; try apply R.
    destruct k; [reflexivity|discriminate].
  - (* ApiInvalid *)
    simpl in Hs. inversion Hs; subst. exists sp. split; [reflexivity|exact R].
Qed.

Lemma sim_init c : sim c init_state sp_init.
Proof. constructor; simpl; auto. intros i lp H. destruct i; discriminate. Qed.

Definition observed (tr : list (state * event * list frame)) : list (event * list frame) :=
  map (fun x => (snd (fst x), snd x)) tr.

Lemma monitor_accepts_from c evs : forall s sp,
  cfg_ok c -> sim c s sp ->
  Forall (fun v => v = []) (sp_run c sp (observed (trace c s evs))).
Proof.
  induction evs as [|e r IH]; intros s sp Hc R; simpl; [constructor|].
  destruct (step c s e) as [s' out] eqn:Hs. simpl.
  destruct (sim_step c s sp e s' out Hc R Hs) as [sp' [Hsp R']]. rewrite Hsp.
  constructor; auto.
Qed.

Theorem monitor_accepts_model : forall c evs,
  cfg_ok c ->
  Forall (fun v => v = []) (sp_run c sp_init (observed (trace c init_state evs))).
Proof. intros c evs Hc. apply monitor_accepts_from; auto. apply sim_init. Qed.
