(* Proofs/ArpSpoofMonitor.v — the monitor of Spec/ArpSpoof.v (the property text as a checker of observed
   runs) accepts every run of the model: simulation between model state and monitor state. *)
From PV Require Import Base.Prelude Model.ArpSpoof Spec.ArpSpoof Proofs.ArpSpoof.
Open Scope N_scope.

(* ---------------------------------------------------------------- *)
(* The monitor of Spec/ArpSpoof.v accepts every run of the model (all event sequences). *)

Definition loop_view (lp : loop) : mac * bool := (amac (laddr lp), negb (alive lp)).

Record sim (s : state) (sp : sp_state) : Prop := mkSim {
  sim_hunt : forall m, hunted s m = mem m (sp_hunted sp);
  sim_offer : forall m, offer_of m (offers s) = sp_offer m (sp_hist sp);
  sim_closed : closed s = sp_closed sp;
  sim_loops : map loop_view (loops s) = sp_loops sp
}.

Lemma mem_filter_neq x m l : mem x (filter (fun y => negb (y =? m)) l) = negb (x =? m) && mem x l.
Proof.
  unfold mem. induction l as [|y ys IH]; simpl; [rewrite andb_false_r; reflexivity|].
  destruct (y =? m) eqn:E; simpl.
  - rewrite IH. destruct (x =? m) eqn:E2; simpl; auto.
    assert (x =? y = false) by lia. rewrite H. reflexivity.
  - rewrite IH. destruct (x =? y) eqn:E3; simpl.
    + assert (x =? m = false) by lia. rewrite H. reflexivity.
    + reflexivity.
Qed.

Lemma hunt_has_del x m h : hunt_has x (hunt_del m h) = negb (x =? m) && hunt_has x h.
Proof.
  destruct (x =? m) eqn:E; simpl.
  - assert (x = m) by lia. subst. apply hunt_has_del_same.
  - apply hunt_has_del_other. lia.
Qed.

Lemma offer_of_filter_same m o : offer_of m (filter (fun e => negb (fst e =? m)) o) = None.
Proof.
  induction o as [|[m' x] r IH]; simpl; auto.
  destruct (m' =? m) eqn:E; simpl; auto. rewrite E. exact IH.
Qed.

Lemma offer_of_filter_other x m o : x <> m -> offer_of x (filter (fun e => negb (fst e =? m)) o) = offer_of x o.
Proof.
  intros Hne. induction o as [|[m' v] r IH]; simpl; auto.
  destruct (m' =? m) eqn:E; simpl.
  - assert (m' =? x = false) by lia. rewrite H. exact IH.
  - destruct (m' =? x); auto.
Qed.

Lemma offer_of_set x m o offs :
  offer_of x (offers_set m o offs) = if m =? x then o else offer_of x offs.
Proof.
  unfold offers_set. destruct (m =? x) eqn:E.
  - assert (m = x) by lia. subst. destruct o as [v|]; simpl.
    + rewrite N.eqb_refl. reflexivity.
    + apply offer_of_filter_same.
  - destruct o as [v|]; simpl; [rewrite E|]; apply offer_of_filter_other; lia.
Qed.

Lemma check_all_ok c s sp e s' out :
  cfg_ok c -> sim s sp -> step c s e = (s', out) -> sp_check_all c sp out = [].
Proof.
  intros Hc R Hs. unfold sp_check_all.
  assert (H1 : forallb (fun f => negb (sp_forged c f) || mem (fedst f) (sp_hunted sp)) out = true).
  { apply forallb_forall. intros f Hin. destruct (sp_forged c f) eqn:Hf; simpl; auto.
    rewrite <- (sim_hunt _ _ R). eapply confined_step; eauto. }
  rewrite H1. simpl.
  destruct (sp_closed sp) eqn:Hcl; simpl; auto.
  rewrite <- (sim_closed _ _ R) in Hcl.
  pose proof (closed_silent c s e Hcl) as H. rewrite Hs in H. simpl in H. subst out. reflexivity.
Qed.

Lemma map_set_nth {A B} (f : A -> B) i v l : map f (set_nth i v l) = set_nth i (f v) (map f l).
Proof. revert i. induction l as [|x xs IH]; intros [|i]; simpl; auto. rewrite IH. reflexivity. Qed.

Lemma sim_kill s sp i lp :
  sim s sp -> nth_error (loops s) i = Some lp ->
  sim (set_loops s (kill i (loops s))) (sp_set_loop i (amac (laddr lp)) sp).
Proof.
  intros R Hl. constructor; simpl; try apply R.
  unfold kill. rewrite Hl. rewrite map_set_nth. rewrite (sim_loops _ _ R). reflexivity.
Qed.

Lemma restore_is_restore c m : sp_is_restore c m (restore c m) = true.
Proof. unfold sp_is_restore, restore. simpl. rewrite !N.eqb_refl. reflexivity. Qed.

Lemma sim_step c s sp e s' out :
  cfg_ok c -> sim s sp -> step c s e = (s', out) ->
  exists sp', sp_step c sp e out = (sp', []) /\ sim s' sp'.
Proof.
  intros Hc R Hs. pose proof (check_all_ok c s sp e s' out Hc R Hs) as Hall.
  destruct e; simpl in Hs; unfold sp_step; rewrite Hall; simpl.
  - (* StartHunt *)
    unfold start_hunt in Hs. rewrite <- (sim_hunt _ _ R). unfold hunted.
    destruct (hunt_has (amac a) (hunt s)) eqn:Hh; inversion Hs; subst; clear Hs.
    + eexists; split; [reflexivity|]. exact R.
    + eexists; split; [reflexivity|]. constructor; simpl; try apply R.
      * intros m. unfold hunted. simpl. rewrite hunt_has_app. rewrite <- (sim_hunt _ _ R). unfold hunted.
        unfold mem. simpl. rewrite orb_comm. f_equal. apply N.eqb_sym.
      * rewrite map_app. simpl. rewrite (sim_loops _ _ R). reflexivity.
  - (* StartHuntInvalid *)
    inversion Hs; subst. eexists; split; [reflexivity|]. exact R.
  - (* StopHunt *)
    unfold stop_hunt in Hs. inversion Hs; subst; clear Hs.
    eexists; split; [reflexivity|]. constructor; simpl; try apply R.
    intros x. unfold hunted. simpl. rewrite hunt_has_del, mem_filter_neq. f_equal. apply (sim_hunt _ _ R).
  - (* Close *)
    inversion Hs; subst. eexists; split; [reflexivity|]. constructor; simpl; try apply R. reflexivity.
  - (* Wake *)
    unfold wake in Hs. rewrite <- (sim_loops _ _ R). rewrite nth_error_map.
    destruct (nth_error (loops s) i) as [lp|] eqn:Hl; simpl.
    + destruct (alive lp) eqn:Ha; simpl in *.
      * rewrite <- (sim_closed _ _ R). rewrite <- (sim_hunt _ _ R). unfold hunted.
        destruct (hunt_find (amac (laddr lp)) (hunt s)) as [t|] eqn:Hf.
        -- apply hunt_find_some in Hf as [Hf1 Hf2].
           assert (Hh : hunt_has (amac (laddr lp)) (hunt s) = true) by (apply hunt_has_spec; eauto).
           destruct (closed s) eqn:Hcl; inversion Hs; subst; clear Hs.
           ++ eexists; split; [reflexivity|]. apply sim_kill; auto.
           ++ rewrite Hh. change (sp_forged c (announce c (amac t))) with (forged c (announce c (amac t))).
              rewrite announce_forged. eexists; split; [reflexivity|]. exact R.
        -- apply hunt_find_none in Hf.
           destruct (closed s) eqn:Hcl; inversion Hs; subst; clear Hs.
           ++ eexists; split; [reflexivity|]. apply sim_kill; auto.
           ++ rewrite Hf. rewrite restore_is_restore.
              change (sp_forged c (restore c (amac (laddr lp)))) with (forged c (restore c (amac (laddr lp)))).
              rewrite restore_not_forged by auto. simpl.
              eexists; split; [reflexivity|]. apply sim_kill; auto.
      * inversion Hs; subst. eexists; split; [reflexivity|]. exact R.
    + inversion Hs; subst. eexists; split; [reflexivity|]. exact R.
  - (* RxArp *)
    pose proof (rx_spec c s p) as Hrx. simpl in Hrx. rewrite Hs in Hrx. inversion Hrx; subst s'. clear Hrx.
    exists sp. split; [|exact R]. f_equal.
    rewrite <- (sim_closed _ _ R).
    destruct (closed s); [subst out; reflexivity|].
    unfold sp_probe_reject_due. rewrite <- (sim_offer _ _ R), <- (sim_hunt _ _ R).
    destruct (sp_is_probe p) eqn:Hp.
    + destruct (sp_reject_cond c (offer_of (psmac p) (offers s)) p); subst out; [|reflexivity].
      unfold sp_is_reply_to, probe_reject. simpl. rewrite !N.eqb_refl. reflexivity.
    + destruct (sp_asks_router c p && hunted s (psmac p)); subst out; [|reflexivity].
      unfold sp_is_reply_to, spoof_reply. simpl. rewrite !N.eqb_refl. reflexivity.
  - (* SetOffer *)
    inversion Hs; subst; clear Hs. eexists; split; [reflexivity|]. constructor; simpl; try apply R.
    intros x. rewrite offer_of_set. rewrite (sim_offer _ _ R). reflexivity.
Qed.

Lemma sim_init : sim init_state sp_init.
Proof. constructor; simpl; auto. Qed.

Definition observed (tr : list (state * event * list frame)) : list (event * list frame) :=
  map (fun x => (snd (fst x), snd x)) tr.

Lemma monitor_accepts_from c evs : forall s sp,
  cfg_ok c -> sim s sp ->
  Forall (fun v => v = []) (sp_run c sp (observed (trace c s evs))).
Proof.
  induction evs as [|e r IH]; intros s sp Hc R; simpl; [constructor|].
  destruct (step c s e) as [s' out] eqn:Hs. simpl.
  destruct (sim_step c s sp e s' out Hc R Hs) as [sp' [Hsp R']]. rewrite Hsp.
  constructor; auto.
Qed.

Theorem monitor_accepts_model : forall c evs,
  cfg_ok c ->
  Forall (fun v => v = []) (sp_run c sp_init (observed (trace c init_state evs))).
Proof. intros c evs Hc. apply monitor_accepts_from; auto. apply sim_init. Qed.
