(* Proofs/TablesC04.v — C04: final statements assembled from TablesRefine.v and TablesPred.v. *)
From PV Require Import Base.Prelude Model.Tables Spec.HostTrackingInv Spec.HostTracking
  Proofs.Tables Proofs.TablesRefine Proofs.TablesPred.
Open Scope N_scope.

Definition op_wf (o : op) : Prop := match o with Rx f _ => fsum_wf f | _ => True end.

(* a history is admissible when every frame summary is well formed and every purge walks the whole table
   (GetHosts returns every indexed host; the order of the walk is arbitrary) *)
Fixpoint hist_wf (c : cfg) (s : state) (ops : list op) : Prop :=
  match ops with
  | [] => True
  | o :: r => order_complete s o /\ op_wf o /\ hist_wf c (fst (step c s o)) r
  end.

Lemma hist_wf_ok c ops : forall s, hist_wf c s ops -> hist_ok c s ops.
Proof.
  induction ops as [|o r IH]; simpl; auto. intros s (A & B & C). repeat split; auto.
  destruct o; simpl in *; auto. apply event_agree. exact B.
Qed.

Theorem C04_step_proof c s o : Inv s -> Inv4 s -> order_complete s o -> op_wf o ->
  forall k, abs (fst (step c s o)) k = ref_step c (abs s) o k.
Proof.
  intros I I4 OC W. apply step_refines; auto.
  - split; auto. apply Inv_InvP. exact I.
  - destruct o; simpl in *; auto. apply event_agree. exact W.
Qed.

Theorem C04_step_inv_proof c s o : Inv s -> Inv4 s -> Inv4 (fst (step c s o)).
Proof.
  intros I I4. apply (step_InvR c s o). split; auto. apply Inv_InvP. exact I.
Qed.

Theorem C04_history_proof c now s0 ops :
  own_mac c <> rt_mac c -> new_session c now = Ok s0 -> hist_wf c s0 ops ->
  forall k, abs (run c s0 ops) k = ref_run c (ref_init c now) ops k.
Proof. intros N H W. apply history_refines; auto. apply hist_wf_ok. exact W. Qed.

Theorem C04_reachable_inv4_proof c now s0 ops :
  own_mac c <> rt_mac c -> new_session c now = Ok s0 -> Inv4 (run c s0 ops).
Proof. intros N H. apply (run_InvR c ops s0). eapply new_session_InvR; eauto. Qed.

(* at most one online IPv4 address per MAC *)
Theorem C04_one_online_ip4_proof s k1 k2 h1 h2 : Inv4 s ->
  hlookup k1 (hosts s) = Some h1 -> hlookup k2 (hosts s) = Some h2 ->
  is4 k1 = true -> is4 k2 = true -> h_online h1 = true -> h_online h2 = true ->
  h_mac h1 = h_mac h2 -> k1 = k2.
Proof.
  intros I4 L1 L2 V1 V2 O1 O2 M.
  destruct (I4 _ _ L1 V1 O1) as (e1 & F1 & E1). destruct (I4 _ _ L2 V2 O2) as (e2 & F2 & E2).
  rewrite M, F2 in F1. inversion F1; subst. reflexivity.
Qed.

(* the walk order of purge is irrelevant for the tracked triples *)
Theorem C04_purge_order_proof c now o1 o2 s : Inv s ->
  (forall k, In k (map fst (hosts s)) -> In k o1) -> (forall k, In k (map fst (hosts s)) -> In k o2) ->
  forall k, abs (purge c now o1 s) k = abs (purge c now o2 s) k.
Proof.
  intros I C1 C2 k. pose proof (Inv_InvP s I) as IP. rewrite !purge_refine; auto.
Qed.

(* a decision procedure for admissibility (used for the non-vacuity example) *)
Definition order_completeb (s : state) (o : op) : bool :=
  match o with
  | Purge _ order => forallb (fun k => existsb (ip_eqb k) order) (map fst (hosts s))
  | _ => true
  end.
Definition op_wfb (o : op) : bool :=
  match o with
  | Rx f _ => match f_class f, f_ip f with
              | FIP4, IP4 _ => true
              | FARP, IP4 _ => true
              | FIP6, IP6 a => a <? 2 ^ 128
              | FIP4, _ | FARP, _ | FIP6, _ => false
              | _, _ => true
              end
  | _ => true
  end.
Fixpoint hist_wfb (c : cfg) (s : state) (ops : list op) : bool :=
  match ops with
  | [] => true
  | o :: r => order_completeb s o && op_wfb o && hist_wfb c (fst (step c s o)) r
  end.

Lemma hist_wfb_sound c ops : forall s, hist_wfb c s ops = true -> hist_wf c s ops.
Proof.
  induction ops as [|o r IH]; simpl; auto. intros s H.
  apply andb_prop in H. destruct H as [H H3]. apply andb_prop in H. destruct H as [H1 H2].
  repeat split; auto.
  - destruct o; simpl in *; auto. intros k Ik. rewrite forallb_forall in H1. specialize (H1 k Ik).
    apply existsb_exists in H1. destruct H1 as (x & Ix & E). apply ip_eqb_eq in E. subst. exact Ix.
  - destruct o; simpl in *; auto. unfold fsum_wf.
    destruct (f_class f); auto; destruct (f_ip f); auto; try discriminate. unfold ip6_ok. lia.
Qed.

Lemma ex_history_wf : hist_wf std_cfg ex_s0 ex_history.
Proof. apply hist_wfb_sound. vm_compute. reflexivity. Qed.

Lemma ex_history_abs :
  let s6 := run std_cfg ex_s0 (firstn 6 ex_history) in
  let s7 := run std_cfg ex_s0 (firstn 7 ex_history) in
  let s8 := run std_cfg ex_s0 ex_history in
  abs s6 (IP4 3232235521) = Some {| a_mac := ex_mac2; a_online := true; a_last := 40 |} /\
  abs s6 (IP4 3232235522) = Some {| a_mac := ex_mac1; a_online := true; a_last := 20 |} /\
  abs s6 (IP4 3232235523) = Some {| a_mac := ex_mac2; a_online := false; a_last := 30 |} /\
  abs s7 (IP4 3232235522) = Some {| a_mac := ex_mac1; a_online := false; a_last := 20 |} /\
  abs s8 (IP4 3232235522) = None /\
  find_mac ex_mac1 (macs s8) = None.
Proof. cbv zeta. repeat split; vm_compute; reflexivity. Qed.

(* ------------------------------------------------------------------ *)
(* the three deadlines.  Every theorem above is for an arbitrary [cfg]: no ordering between OfflineDeadline,
   PurgeDeadline and ProbeDeadline is assumed anywhere (NewSession enforces only Probe <= Offline).  The
   reference is the property text: offline after OfflineDeadline of silence, removed when offline and silent
   longer than PurgeDeadline.  ProbeDeadline is read by no step of the model and of the reference: *)
Theorem probe_independent_proof p c s o : step (set_probe p c) s o = step c s o.
Proof. destruct c; destruct o; reflexivity. Qed.

Theorem probe_independent_ref_proof p c a o k : ref_step (set_probe p c) a o k = ref_step c a o k.
Proof. destruct c; destruct o; reflexivity. Qed.

(* PurgeDeadline < ProbeDeadline <= OfflineDeadline (legal): a MAC seen on .1 at t=10 and on .2 at t=20; .1 is offline
   by supersession with a fresh last-seen time.  A purge at t=75 is past .1's purge deadline (10+60) but not past the
   probe deadline (10+120): .1 is removed, in the reference and in the model; at t=70 it is still tracked. *)
Definition dl_cfg : cfg :=
  {| own_mac := own_mac std_cfg; own_ip4 := own_ip4 std_cfg; own_lla := own_lla std_cfg; rt_mac := rt_mac std_cfg;
     rt_ip4 := rt_ip4 std_cfg; lan_base := lan_base std_cfg; lan_bits := lan_bits std_cfg;
     offline_dl := 300; purge_dl := 60; probe_dl := 120 |}.
Definition dl_s0 : state := match new_session dl_cfg 0 with Ok s => s | _ => empty_state end.
Definition dl_history (t : Z) : list op :=
  [ ex_rx4 ex_mac1 3232235521 10; ex_rx4 ex_mac1 3232235522 20;
    Purge t [IP4 3232235521; IP4 3232235522; IP4 3232235531; IP4 3232235649] ].

Lemma purge_below_probe_example :
  new_session dl_cfg 0 = Ok dl_s0 /\
  hist_wfb dl_cfg dl_s0 (dl_history 75) = true /\
  (* before the purge: .1 offline (superseded), last seen 10; .2 online *)
  option_map (fun e => (a_online e, a_last e)) (abs (run dl_cfg dl_s0 (firstn 2 (dl_history 75))) (IP4 3232235521)) = Some (false, 10%Z) /\
  abs (run dl_cfg dl_s0 (dl_history 70)) (IP4 3232235521) <> None /\
  abs (run dl_cfg dl_s0 (dl_history 75)) (IP4 3232235521) = None /\
  ref_run dl_cfg (ref_init dl_cfg 0) (dl_history 75) (IP4 3232235521) = None /\
  option_map a_online (abs (run dl_cfg dl_s0 (dl_history 75)) (IP4 3232235522)) = Some true.
Proof.
  split; [vm_compute; reflexivity|]. split; [vm_compute; reflexivity|]. split; [vm_compute; reflexivity|].
  split; [vm_compute; discriminate|]. split; [vm_compute; reflexivity|]. split; vm_compute; reflexivity.
Qed.

(* ------------------------------------------------------------------ *)
(* every API call of the statement is a step of the model, each with its own refinement theorem *)
Theorem api_parse_proof c s f now : Inv s -> Inv4 s -> fsum_wf f ->
  forall k, abs (fst (step c s (Rx f now))) k =
            match ref_event c f with Some (m, k0) => sight m k0 now (abs s) k | None => abs s k end.
Proof.
  intros I I4 W k. rewrite (C04_step_proof c s (Rx f now) I I4 Logic.I W k). cbn [ref_step].
  destruct (ref_event c f) as [[m k0]|]; reflexivity.
Qed.

Theorem api_notify_proof c s : Inv s -> Inv4 s -> forall k, abs (fst (step c s Notify)) k = abs s k.
Proof. intros I I4 k. apply (C04_step_proof c s Notify I I4 Logic.I Logic.I k). Qed.

Theorem api_dhcp_update_proof c s m k0 name now : Inv s -> Inv4 s ->
  forall k, abs (fst (step c s (DHCPv4Update m k0 name now))) k =
            if is_valid k0 && negb (is_unspecified k0) then sight m k0 now (abs s) k else abs s k.
Proof.
  intros I I4 k. rewrite (C04_step_proof c s (DHCPv4Update m k0 name now) I I4 Logic.I Logic.I k). cbn [ref_step].
  destruct (is_valid k0 && negb (is_unspecified k0)); reflexivity.
Qed.

Theorem api_set_offer_proof c s m k0 name : Inv s -> Inv4 s -> forall k, abs (fst (step c s (SetOffer m k0 name))) k = abs s k.
Proof. intros I I4 k. apply (C04_step_proof c s (SetOffer m k0 name) I I4 Logic.I Logic.I k). Qed.

Theorem api_capture_proof c s m : Inv s -> Inv4 s -> forall k, abs (fst (step c s (Capture m))) k = abs s k.
Proof. intros I I4 k. apply (C04_step_proof c s (Capture m) I I4 Logic.I Logic.I k). Qed.

Theorem api_release_proof c s m : Inv s -> Inv4 s -> forall k, abs (fst (step c s (Release m))) k = abs s k.
Proof. intros I I4 k. apply (C04_step_proof c s (Release m) I I4 Logic.I Logic.I k). Qed.

Theorem api_purge_proof c s now order : Inv s -> Inv4 s -> order_complete s (Purge now order) ->
  forall k, abs (fst (step c s (Purge now order))) k = age c now (abs s) k.
Proof. intros I I4 OC k. apply (C04_step_proof c s (Purge now order) I I4 OC Logic.I k). Qed.

Theorem api_name_update_proof c s kd k0 name : Inv s -> Inv4 s -> forall k, abs (fst (step c s (NameUpdate kd k0 name))) k = abs s k.
Proof. intros I I4 k. apply (C04_step_proof c s (NameUpdate kd k0 name) I I4 Logic.I Logic.I k). Qed.

(* NewSession's validation of the deadlines (brought into the model: [deadlines_okb]): the only ordering it enforces is
   Probe <= Offline; PurgeDeadline may lie anywhere *)
Theorem deadlines_ok_order p o u : deadlines_okb p o u = true -> (p <> 0 -> o <> 0 -> u <> 0 ->
  0 < p <= max_probe /\ p <= o <= max_offline /\ 0 < u <= max_purge)%Z.
Proof.
  unfold deadlines_okb. intros H P O U.
  apply orb_true_iff in H. destruct H as [H|H].
  - apply orb_true_iff in H. destruct H as [H|H]; [apply orb_true_iff in H; destruct H as [H|H]|]; apply Z.eqb_eq in H; contradiction.
  - repeat (apply andb_prop in H; destruct H as [H ?]).
    repeat match goal with X : (_ <? _)%Z = true |- _ => apply Z.ltb_lt in X | X : (_ <=? _)%Z = true |- _ => apply Z.leb_le in X end.
    lia.
Qed.

Lemma deadlines_purge_free :
  deadlines_okb 120 300 60 = true /\ deadlines_okb 60 300 120 = true /\ deadlines_okb 120 300 3660 = true /\
  deadlines_okb 300 120 3660 = false /\ deadlines_okb default_probe default_offline default_purge = true.
Proof. repeat split; reflexivity. Qed.

(* time enters every rule of the model and of the reference only through comparisons  last + deadline < now  (ageing,
   removal).  Such a verdict is monotone in now - last, so when it is the same at the two extreme assignments of the
   measured intervals (stamp earliest / purge latest, and stamp latest / purge earliest) it is the same for every instant
   inside them: the justification of the real-time kind rt (Model/TablesShow.v, rt_model) *)
Theorem time_bracket_proof (dl last_lo last last_hi now_lo now now_hi : Z) :
  (last_lo <= last <= last_hi)%Z -> (now_lo <= now <= now_hi)%Z ->
  (last_lo + dl <? now_hi)%Z = (last_hi + dl <? now_lo)%Z ->
  (last + dl <? now)%Z = (last_hi + dl <? now_lo)%Z.
Proof.
  intros L N E. destruct (Z.ltb_spec (last_hi + dl) now_lo) as [A|A].
  - apply Z.ltb_lt. lia.
  - apply Z.ltb_ge. apply Z.ltb_ge in E. lia.
Qed.
