(* Proofs/TablesC04.v — C04: final statements assembled from TablesRefine.v and TablesPred.v. *)
From PV Require Import Base.Prelude Model.Tables Spec.HostTrackingInv Spec.HostTracking
  Proofs.Tables Proofs.TablesRefine Proofs.TablesPred.
Open Scope N_scope.

Definition op_wf (o : op) : Prop := match o with Rx f _ => fsum_wf f | _ => True end.

(* a history is admissible when every frame summary is well formed and every purge walks the whole table
   (GetHosts returns every indexed host; the order of the walk is arbitrary) *)
Fixpoint hist_wf (c : cfg) (s : state) (ops : list op) : Prop :=
  match ops with
  | [] => True
  | o :: r => order_complete s o /\ op_wf o /\ hist_wf c (fst (step c s o)) r
  end.

Lemma hist_wf_ok c ops : forall s, hist_wf c s ops -> hist_ok c s ops.
Proof.
  induction ops as [|o r IH]; simpl; auto. intros s (A & B & C). repeat split; auto.
  destruct o; simpl in *; auto. apply event_agree. exact B.
Qed.

Theorem C04_step_proof c s o : Inv s -> Inv4 s -> order_complete s o -> op_wf o ->
  forall k, abs (fst (step c s o)) k = ref_step c (abs s) o k.
Proof.
  intros I I4 OC W. apply step_refines; auto.
  - split; auto. apply Inv_InvP. exact I.
  - destruct o; simpl in *; auto. apply event_agree. exact W.
Qed.

Theorem C04_step_inv_proof c s o : Inv s -> Inv4 s -> Inv4 (fst (step c s o)).
Proof.
  intros I I4. apply (step_InvR c s o). split; auto. apply Inv_InvP. exact I.
Qed.

Theorem C04_history_proof c now s0 ops :
  own_mac c <> rt_mac c -> new_session c now = Ok s0 -> hist_wf c s0 ops ->
  forall k, abs (run c s0 ops) k = ref_run c (ref_init c now) ops k.
Proof. intros N H W. apply history_refines; auto. apply hist_wf_ok. exact W. Qed.

Theorem C04_reachable_inv4_proof c now s0 ops :
  own_mac c <> rt_mac c -> new_session c now = Ok s0 -> Inv4 (run c s0 ops).
Proof. intros N H. apply (run_InvR c ops s0). eapply new_session_InvR; eauto. Qed.

(* at most one online IPv4 address per MAC *)
Theorem C04_one_online_ip4_proof s k1 k2 h1 h2 : Inv4 s ->
  hlookup k1 (hosts s) = Some h1 -> hlookup k2 (hosts s) = Some h2 ->
  is4 k1 = true -> is4 k2 = true -> h_online h1 = true -> h_online h2 = true ->
  h_mac h1 = h_mac h2 -> k1 = k2.
Proof.
  intros I4 L1 L2 V1 V2 O1 O2 M.
  destruct (I4 _ _ L1 V1 O1) as (e1 & F1 & E1). destruct (I4 _ _ L2 V2 O2) as (e2 & F2 & E2).
  rewrite M, F2 in F1. inversion F1; subst. reflexivity.
Qed.

(* the walk order of purge is irrelevant for the tracked triples *)
Theorem C04_purge_order_proof c now o1 o2 s : Inv s ->
  (forall k, In k (map fst (hosts s)) -> In k o1) -> (forall k, In k (map fst (hosts s)) -> In k o2) ->
  forall k, abs (purge c now o1 s) k = abs (purge c now o2 s) k.
Proof.
  intros I C1 C2 k. pose proof (Inv_InvP s I) as IP. rewrite !purge_refine; auto.
Qed.

(* a decision procedure for admissibility (used for the non-vacuity example) *)
Definition order_completeb (s : state) (o : op) : bool :=
  match o with
  | Purge _ order => forallb (fun k => existsb (ip_eqb k) order) (map fst (hosts s))
  | _ => true
  end.
Definition op_wfb (o : op) : bool :=
  match o with
  | Rx f _ => match f_class f, f_ip f with
              | FIP4, IP4 _ => true
              | FARP, IP4 _ => true
              | FIP6, IP6 a => a <? 2 ^ 128
              | FIP4, _ | FARP, _ | FIP6, _ => false
              | _, _ => true
              end
  | _ => true
  end.
Fixpoint hist_wfb (c : cfg) (s : state) (ops : list op) : bool :=
  match ops with
  | [] => true
  | o :: r => order_completeb s o && op_wfb o && hist_wfb c (fst (step c s o)) r
  end.

Lemma hist_wfb_sound c ops : forall s, hist_wfb c s ops = true -> hist_wf c s ops.
Proof.
  induction ops as [|o r IH]; simpl; auto. intros s H.
  apply andb_prop in H. destruct H as [H H3]. apply andb_prop in H. destruct H as [H1 H2].
  repeat split; auto.
  - destruct o; simpl in *; auto. intros k Ik. rewrite forallb_forall in H1. specialize (H1 k Ik).
    apply existsb_exists in H1. destruct H1 as (x & Ix & E). apply ip_eqb_eq in E. subst. exact Ix.
  - destruct o; simpl in *; auto. unfold fsum_wf.
    destruct (f_class f); auto; destruct (f_ip f); auto; try discriminate. unfold ip6_ok. lia.
Qed.

Lemma ex_history_wf : hist_wf std_cfg ex_s0 ex_history.
Proof. apply hist_wfb_sound. vm_compute. reflexivity. Qed.

Lemma ex_history_abs :
  let s6 := run std_cfg ex_s0 (firstn 6 ex_history) in
  let s7 := run std_cfg ex_s0 (firstn 7 ex_history) in
  let s8 := run std_cfg ex_s0 ex_history in
  abs s6 (IP4 3232235521) = Some {| a_mac := ex_mac2; a_online := true; a_last := 40 |} /\
  abs s6 (IP4 3232235522) = Some {| a_mac := ex_mac1; a_online := true; a_last := 20 |} /\
  abs s6 (IP4 3232235523) = Some {| a_mac := ex_mac2; a_online := false; a_last := 30 |} /\
  abs s7 (IP4 3232235522) = Some {| a_mac := ex_mac1; a_online := false; a_last := 20 |} /\
  abs s8 (IP4 3232235522) = None /\
  find_mac ex_mac1 (macs s8) = None.
Proof. cbv zeta. repeat split; vm_compute; reflexivity. Qed.

(* ------------------------------------------------------------------ *)
(* the three deadlines.  Every theorem above is for an arbitrary [cfg]: no ordering between OfflineDeadline,
   PurgeDeadline and ProbeDeadline is assumed anywhere (NewSession enforces only Probe <= Offline).  The
   reference is the property text: offline after OfflineDeadline of silence, removed when offline and silent
   longer than PurgeDeadline.  ProbeDeadline is read by no step of the model and of the reference: *)
Theorem probe_independent_proof p c s o : step (set_probe p c) s o = step c s o.
Proof. destruct c; destruct o; reflexivity. Qed.

Theorem probe_independent_ref_proof p c a o k : ref_step (set_probe p c) a o k = ref_step c a o k.
Proof. destruct c; destruct o; reflexivity. Qed.

(* PurgeDeadline < ProbeDeadline <= OfflineDeadline (legal): a MAC seen on .1 at t=10 and on .2 at t=20; .1 is offline
   by supersession with a fresh last-seen time.  A purge at t=75 is past .1's purge deadline (10+60) but not past the
   probe deadline (10+120): .1 is removed, in the reference and in the model; at t=70 it is still tracked. *)
Definition dl_cfg : cfg :=
  {| own_mac := own_mac std_cfg; own_ip4 := own_ip4 std_cfg; own_lla := own_lla std_cfg; rt_mac := rt_mac std_cfg;
     rt_ip4 := rt_ip4 std_cfg; lan_base := lan_base std_cfg; lan_bits := lan_bits std_cfg;
     offline_dl := 300; purge_dl := 60; probe_dl := 120 |}.
Definition dl_s0 : state := match new_session dl_cfg 0 with Ok s => s | _ => empty_state end.
Definition dl_history (t : Z) : list op :=
  [ ex_rx4 ex_mac1 3232235521 10; ex_rx4 ex_mac1 3232235522 20;
    Purge t [IP4 3232235521; IP4 3232235522; IP4 3232235531; IP4 3232235649] ].

Lemma purge_below_probe_example :
  new_session dl_cfg 0 = Ok dl_s0 /\
  hist_wfb dl_cfg dl_s0 (dl_history 75) = true /\
  (* before the purge: .1 offline (superseded), last seen 10; .2 online *)
  option_map (fun e => (a_online e, a_last e)) (abs (run dl_cfg dl_s0 (firstn 2 (dl_history 75))) (IP4 3232235521)) = Some (false, 10%Z) /\
  abs (run dl_cfg dl_s0 (dl_history 70)) (IP4 3232235521) <> None /\
  abs (run dl_cfg dl_s0 (dl_history 75)) (IP4 3232235521) = None /\
  ref_run dl_cfg (ref_init dl_cfg 0) (dl_history 75) (IP4 3232235521) = None /\
  option_map a_online (abs (run dl_cfg dl_s0 (dl_history 75)) (IP4 3232235522)) = Some true.
Proof.
  split; [vm_compute; reflexivity|]. split; [vm_compute; reflexivity|]. split; [vm_compute; reflexivity|].
  split; [vm_compute; discriminate|]. split; [vm_compute; reflexivity|]. split; vm_compute; reflexivity.
Qed.

(* ------------------------------------------------------------------ *)
(* every API call of the statement is a step of the model, each with its own refinement theorem *)
Theorem api_parse_proof c s f now : Inv s -> Inv4 s -> fsum_wf f ->
  forall k, abs (fst (step c s (Rx f now))) k =
            match ref_event c f with Some (m, k0) => sight m k0 now (abs s) k | None => abs s k end.
Proof.
  intros I I4 W k. rewrite (C04_step_proof c s (Rx f now) I I4 Logic.I W k). cbn [ref_step].
  destruct (ref_event c f) as [[m k0]|]; reflexivity.
Qed.

Theorem api_notify_proof c s : Inv s -> Inv4 s -> forall k, abs (fst (step c s Notify)) k = abs s k.
Proof. intros I I4 k. apply (C04_step_proof c s Notify I I4 Logic.I Logic.I k). Qed.

Theorem api_dhcp_update_proof c s m k0 name now : Inv s -> Inv4 s ->
  forall k, abs (fst (step c s (DHCPv4Update m k0 name now))) k =
            if is_valid k0 && negb (is_unspecified k0) then sight m k0 now (abs s) k else abs s k.
Proof.
  intros I I4 k. rewrite (C04_step_proof c s (DHCPv4Update m k0 name now) I I4 Logic.I Logic.I k). cbn [ref_step].
  destruct (is_valid k0 && negb (is_unspecified k0)); reflexivity.
Qed.

Theorem api_set_offer_proof c s m k0 name : Inv s -> Inv4 s -> forall k, abs (fst (step c s (SetOffer m k0 name))) k = abs s k.
Proof. intros I I4 k. apply (C04_step_proof c s (SetOffer m k0 name) I I4 Logic.I Logic.I k). Qed.

Theorem api_capture_proof c s m : Inv s -> Inv4 s -> forall k, abs (fst (step c s (Capture m))) k = abs s k.
Proof. intros I I4 k. apply (C04_step_proof c s (Capture m) I I4 Logic.I Logic.I k). Qed.

Theorem api_release_proof c s m : Inv s -> Inv4 s -> forall k, abs (fst (step c s (Release m))) k = abs s k.
Proof. intros I I4 k. apply (C04_step_proof c s (Release m) I I4 Logic.I Logic.I k). Qed.

Theorem api_purge_proof c s now order : Inv s -> Inv4 s -> order_complete s (Purge now order) ->
  forall k, abs (fst (step c s (Purge now order))) k = age c now (abs s) k.
Proof. intros I I4 OC k. apply (C04_step_proof c s (Purge now order) I I4 OC Logic.I k). Qed.

Theorem api_name_update_proof c s kd k0 name : Inv s -> Inv4 s -> forall k, abs (fst (step c s (NameUpdate kd k0 name))) k = abs s k.
Proof. intros I I4 k. apply (C04_step_proof c s (NameUpdate kd k0 name) I I4 Logic.I Logic.I k). Qed.

(* NewSession's validation of the deadlines (brought into the model: [deadlines_okb]): the only ordering it enforces is
   Probe <= Offline; PurgeDeadline may lie anywhere *)
Theorem deadlines_ok_order p o u : deadlines_okb p o u = true -> (p <> 0 -> o <> 0 -> u <> 0 ->
  0 < p <= max_probe /\ p <= o <= max_offline /\ 0 < u <= max_purge)%Z.
Proof.
  unfold deadlines_okb. intros H P O U.
  apply orb_true_iff in H. destruct H as [H|H].
  - apply orb_true_iff in H. destruct H as [H|H]; [apply orb_true_iff in H; destruct H as [H|H]|]; apply Z.eqb_eq in H; contradiction.
  - repeat (apply andb_prop in H; destruct H as [H ?]).
    repeat match goal with X : (_ <? _)%Z = true |- _ => apply Z.ltb_lt in X | X : (_ <=? _)%Z = true |- _ => apply Z.leb_le in X end.
    lia.
Qed.

Lemma deadlines_purge_free :
  deadlines_okb 120 300 60 = true /\ deadlines_okb 60 300 120 = true /\ deadlines_okb 120 300 3660 = true /\
  deadlines_okb 300 120 3660 = false /\ deadlines_okb default_probe default_offline default_purge = true.
Proof. repeat split; reflexivity. Qed.

(* time enters every rule of the model and of the reference only through comparisons  last + deadline < now  (ageing,
   removal).  Such a verdict is monotone in now - last, so when it is the same at the two extreme assignments of the
   measured intervals (stamp earliest / purge latest, and stamp latest / purge earliest) it is the same for every instant
   inside them: the justification of the real-time kind rt (Model/TablesShow.v, rt_model) *)
Theorem time_bracket_proof (dl last_lo last last_hi now_lo now now_hi : Z) :
  (last_lo <= last <= last_hi)%Z -> (now_lo <= now <= now_hi)%Z ->
  (last_lo + dl <? now_hi)%Z = (last_hi + dl <? now_lo)%Z ->
  (last + dl <? now)%Z = (last_hi + dl <? now_lo)%Z.
Proof.
  intros L N E. destruct (Z.ltb_spec (last_hi + dl) now_lo) as [A|A].
  - apply Z.ltb_lt. lia.
  - apply Z.ltb_ge. apply Z.ltb_ge in E. lia.
Qed.

(* ------------------------------------------------------------------ *)
(* the creation rule = the table of address classes, for ALL addresses *)
Ltac decide_cmp :=
  repeat match goal with
  | |- context [(?x <=? ?y)] =>
      first [ replace (x <=? y) with true by (symmetry; apply N.leb_le; lia)
            | replace (x <=? y) with false by (symmetry; apply N.leb_gt; lia) ]
  | |- context [(?x <? ?y)] =>
      first [ replace (x <? y) with true by (symmetry; apply N.ltb_lt; lia)
            | replace (x <? y) with false by (symmetry; apply N.ltb_ge; lia) ]
  | |- context [(?x =? ?y)] =>
      first [ replace (x =? y) with true by (symmetry; apply N.eqb_eq; lia)
            | replace (x =? y) with false by (symmetry; apply N.eqb_neq; lia) ]
  end.

Ltac row H := decide_cmp; cbn [andb orb negb option_map verdict_holds]; try (destruct H; reflexivity); try reflexivity.

Lemma rule4m_by_class x r : x < 4294967296 ->
  option_map (fun v => verdict_holds v r) (lookup_class class4m_table x) =
  Some (v4_linklocal x || (negb (mapped_base + x =? 0) && negb (v4_loopback x) && negb (v4_multicast x) && negb (v4_linklocal x) &&
                           negb (true && ((x =? 0) || (x =? 4294967295))) && negb r)).
Proof.
  intros X. unfold class4m_table, lookup_class, v4_linklocal, v4_loopback, v4_multicast, in_range, mapped_base.
  destruct (N.ltb_spec x 1); [row r|].
  destruct (N.ltb_spec x 2130706432); [row r|].
  destruct (N.ltb_spec x 2147483648); [row r|].
  destruct (N.ltb_spec x 2851995648); [row r|].
  destruct (N.ltb_spec x 2852061184); [row r|].
  destruct (N.ltb_spec x 3758096384); [row r|].
  destruct (N.ltb_spec x 4026531840); [row r|].
  destruct (N.ltb_spec x 4294967295); [row r|row r].
Qed.

Lemma rule6_by_class a r : a < 2 ^ 128 ->
  option_map (fun v => verdict_holds v r) (verdict6 a) = Some (v6_linklocal a || (v6_global a && negb r)).
Proof.
  intros B. unfold verdict6, v6_global, v6_linklocal, v6_loopback, v6_multicast.
  destruct (v6_mapped a) eqn:M; cbv iota.
  - unfold v6_mapped, in_range in M. apply andb_prop in M. destruct M as [M1 M2].
    apply N.leb_le in M1. apply N.ltb_lt in M2.
    assert (X : a - mapped_base < 4294967296) by (unfold mapped_base in *; lia).
    rewrite (rule4m_by_class (a - mapped_base) r X).
    replace (mapped_base + (a - mapped_base)) with a by lia. reflexivity.
  - unfold v6_mapped, in_range, mapped_base in M.
    unfold class6_table, lookup_class, in_range, mapped_base.
    change (2 ^ 128) with 340282366920938463463374607431768211456 in *.
    change (65152 * 2 ^ 112) with 338288524927261089654018896841347694592.
    change (65216 * 2 ^ 112) with 338620831926207318622244848606417780736.
    change (65280 * 2 ^ 112) with 338953138925153547590470800371487866880.
    change (281470681743360 + 4294967296) with 281474976710656 in *.
    cbn [andb].
    destruct (N.ltb_spec a 1); [row r|].
    destruct (N.ltb_spec a 2); [row r|].
    destruct (N.ltb_spec a 281470681743360); [row r|].
    destruct (N.ltb_spec a 281474976710656).
    { exfalso. replace (281470681743360 <=? a) with true in M by (symmetry; apply N.leb_le; lia).
      replace (a <? 281474976710656) with true in M by (symmetry; apply N.ltb_lt; lia). discriminate. }
    destruct (N.ltb_spec a 338288524927261089654018896841347694592); [row r|].
    destruct (N.ltb_spec a 338620831926207318622244848606417780736); [row r|].
    destruct (N.ltb_spec a 338953138925153547590470800371487866880); [row r|row r].
Qed.

Theorem creation_rule_by_class_proof c f a : f_class f = FIP6 -> f_ip f = IP6 a -> a < 2 ^ 128 ->
  ref_event c f =
  if unicast_mac (f_src f) && negb (f_src f =? own_mac c) then
    match verdict6 a with
    | Some v => if verdict_holds v (f_src f =? rt_mac c) then Some (f_src f, IP6 a) else None
    | None => None
    end
  else None.
Proof.
  intros C I B. unfold ref_event. rewrite C, I.
  destruct (unicast_mac (f_src f) && negb (f_src f =? own_mac c)); [|reflexivity].
  pose proof (rule6_by_class a (f_src f =? rt_mac c) B) as R.
  destruct (verdict6 a) as [v|]; cbn [option_map] in R; [|discriminate].
  injection R as R. rewrite R. reflexivity.
Qed.

(* every row of the table is inhabited by the representatives the harness sends (ClassIP6 of tables.go), with the
   verdict the row states -- checked on the MODEL's predicate [host_event] for a client MAC and for the router MAC *)
Definition class_examples : list (N * verdict) :=
  [ (0, Never); (1, Never); (2, NotFromRouter); (3232235525, NotFromRouter);                     (* ::, ::1, ::2, ::192.168.0.5 *)
    (281470681743360, Never); (281473913978881, NotFromRouter); (281473533739265, Always);          (* ::ffff:0.0.0.0, ::ffff:192.168.0.1, ::ffff:169.254.1.1 *)
    (281472812449793, Never); (281474439839745, Never); (281474976710655, Never); (281470816487432, NotFromRouter); (* mapped 127.0.0.1, 224.0.0.1, 255.255.255.255, 8.8.8.8 *)
    (524413980667603649783483181446989832, NotFromRouter);                                           (* 64:ff9b::808:808 NAT64 *)
    (42535295865117307932921825928971026433, NotFromRouter); (42540488161975842760550356425300246529, NotFromRouter);   (* 2000::1, 2001::1 Teredo *)
    (42540766411282592856903984951653826565, NotFromRouter); (42549587991810790031128615138434744321, NotFromRouter);   (* 2001:db8::5, 2002:c0a8:1::1 6to4 *)
    (50510663839826803170344668290653093889, NotFromRouter);                                         (* 2600::1 *)
    (334965454937798799971759379190646833153, NotFromRouter); (336294682933583715844663186250927177729, NotFromRouter); (* fc00::1, fd00::1 unique local *)
    (338288524927261089654018896841347694597, Always); (338620831926207318622244848606417780735, Always);   (* fe80::5, febf:ffff:...:ffff *)
    (338620831926207318622244848606417780737, NotFromRouter);                                        (* fec0::1 site-local *)
    (338958331222012082418099330867817086977, Never); (338963523518870617245727861372719464453, Never);     (* ff01::1, ff02::1:ff00:5 *)
    (340282366920938463463374607431768211455, Never) ].

Definition ex_client : mac := ex_mac1.
Definition class_example_ok (c : cfg) (e : N * verdict) : bool :=
  let mk m := {| f_src := m; f_class := FIP6; f_ip := IP6 (fst e); f_arpmac := 0; f_dhcp4 := false |} in
  let created m := match host_event c (mk m) with Some _ => true | None => false end in
  Bool.eqb (created ex_client) (verdict_holds (snd e) false) && Bool.eqb (created (rt_mac c)) (verdict_holds (snd e) true) &&
  match verdict6 (fst e) with Some v => match v, snd e with Never, Never | Always, Always | NotFromRouter, NotFromRouter => true | _, _ => false end | None => false end.

Lemma class_examples_ok : forallb (class_example_ok std_cfg) class_examples = true.
Proof. vm_compute. reflexivity. Qed.
