(* Proofs/EncodeCompose.v — C03: the composed Ether/IPv4/UDP frame decodes layer by layer to the
   supplied values and Session.Parse classifies it by its ports. *)
From PV Require Import Base.Prelude Base.Slice Model.EncodeBase Model.Encode Model.EncodeCompose Model.Checksum
     Spec.EncodeRef Spec.OnesComplement Proofs.EncodeLemmas Proofs.Checksum Proofs.EncodeIP4 Proofs.EncodeEther.
Open Scope N_scope.

Ltac ev_hook ::= rewrite ?be16_hi_lo by (first [assumption | reflexivity]); rewrite ?N.eqb_refl;
  repeat match goal with E : hlen_of_type ?t = _ |- context [hlen_of_type ?t] => rewrite E end.

Lemma ether_payload_encoded dst src ht rest :
  length src = 6%nat -> length dst = 6%nat -> ht < 65536 -> hlen_of_type ht = 14%nat ->
  ether_payload (mkSlice (ether_hdr dst src ht ++ rest) 14) = Ok (mkSlice rest (length rest)).
Proof.
  intros Hs Hd Hht Hhl.
  do 6 (destr_list src Hs). destruct src; [|discriminate].
  do 6 (destr_list dst Hd). destruct dst; [|discriminate].
  unfold ether_hdr. cbn [app].
  unfold ether_payload, ether_hlen, ether_type, be16_at, slfrom, sl, cap. run.
  rewrite Nat.sub_0_r. reflexivity.
Qed.

Ltac ev_hook ::= try change (N.to_nat (69 mod 16) * 4)%nat with 20%nat;
  rewrite ?be16_hi_lo by (first [assumption | reflexivity]).

Lemma ip4_payload_encoded ttl src dst rest :
  length src = 4%nat -> length dst = 4%nat ->
  ip4_payload (mkSlice (ip4_hdr0 20 ttl 0 src dst ++ rest) 20) = Ok (mkSlice rest 0).
Proof.
  intros Hs Hd.
  do 4 (destr_list src Hs). destruct src; [|discriminate].
  do 4 (destr_list dst Hd). destruct dst; [|discriminate].
  unfold ip4_hdr0. cbn [app].
  unfold ip4_payload, ip4_ihl, ip4_totlen, idx, be16_at, sl, cap. run.
  change (N.to_nat 20) with 20%nat. run. reflexivity.
Qed.

Lemma writeback_app (h rest child : bytes) n :
  length child = length rest -> writeback (mkSlice (h ++ rest) n) child = mkSlice (h ++ child) n.
Proof.
  intros H. unfold writeback, cap. cbn [arr len]. rewrite app_length, H.
  replace (length h + length rest - length rest)%nat with (length h) by lia.
  rewrite firstn_app_exact. reflexivity.
Qed.

(* the bytes of the finished frame *)
Definition frame4_bytes (smac dmac : bytes) (ttl : N) (sip dip : bytes) (sp dp : N) (data : bytes) : bytes :=
  ether_hdr dmac smac ETH_P_IP ++
  ip4_store_checksum (ip4_hdr0 (20 + N.of_nat (8 + length data)) ttl 17 sip dip) ++
  udp_hdr sp dp (8 + N.of_nat (length data)) ++ data.

Lemma compose_udp4_bytes b smac dmac ttl sip dip sp dp data :
  (42 + length data <= cap b)%nat -> length smac = 6%nat -> length dmac = 6%nat ->
  is4 sip = true -> is4 dip = true -> 42 + N.of_nat (length data) < 65536 ->
  compose_udp4 b smac dmac ttl sip dip sp dp data =
  Ok (mkSlice (frame4_bytes smac dmac ttl sip dip sp dp data ++ skipn (42 + length data) (arr b)) (42 + length data)).
Proof.
  intros Hc Hsm Hdm Hsi Hdi Hsz.
  assert (Hsi' : length sip = 4%nat) by (apply Nat.eqb_eq; exact Hsi).
  assert (Hdi' : length dip = 4%nat) by (apply Nat.eqb_eq; exact Hdi).
  unfold compose_udp4.
  rewrite encode_ether_bytes by (try assumption; lia). cbn [bind].
  rewrite ether_payload_encoded by (try assumption; reflexivity). cbn [bind].
  set (r14 := skipn 14 (arr b)).
  assert (H14 : length r14 = (cap b - 14)%nat) by (unfold r14, cap; apply skipn_length).
  rewrite encode_ip4_bytes by (try assumption; unfold cap; cbn [len arr]; lia). cbn [bind arr].
  rewrite ip4_payload_encoded by assumption. cbn [bind].
  set (r34 := skipn 20 r14).
  assert (H34 : length r34 = (cap b - 34)%nat) by (unfold r34; rewrite skipn_length; lia).
  rewrite encode_udp_bytes by (unfold cap; cbn [arr]; lia). cbn [bind arr].
  set (r42 := skipn 8 r34).
  assert (H42 : length r42 = (cap b - 42)%nat) by (unfold r42; rewrite skipn_length; lia).
  rewrite udp_append_bytes by lia. cbn [bind arr len].
  rewrite udp_lenfield_small by lia.
  set (U := udp_hdr sp dp (8 + N.of_nat (length data)) ++ data ++ skipn (length data) r42).
  assert (HU : length U = length r34).
  { unfold U. rewrite !app_length, skipn_length. cbn [udp_hdr length]. lia. }
  rewrite writeback_app by exact HU.
  rewrite ip4_set_payload_bytes by (try assumption; lia). cbn [bind arr len].
  set (I := ip4_store_checksum (ip4_hdr0 (20 + N.of_nat (8 + length data)) ttl IPPROTO_UDP sip dip) ++ U).
  assert (HI : length I = length r14).
  { unfold I. rewrite app_length, HU. unfold ip4_store_checksum. rewrite !set_nth_length.
    unfold ip4_hdr0. cbn [app length]. rewrite app_length. lia. }
  rewrite writeback_app by exact HI.
  assert (Hset : ether_set_payload (mkSlice (ether_hdr dmac smac ETH_P_IP ++ I) 14) (20 + (8 + length data))
                 = Ok (mkSlice (ether_hdr dmac smac ETH_P_IP ++ I) (14 + (20 + (8 + length data))))).
  { assert (HIl : (28 + length data <= length I)%nat) by lia. revert HIl. generalize I. intros I' HIl.
    do 6 (destr_list smac Hsm). destruct smac; [|discriminate].
    do 6 (destr_list dmac Hdm). destruct dmac; [|discriminate].
    unfold ether_hdr. cbn [app].
    unfold ether_set_payload, ether_hlen, ether_type, be16_at, reslice, cap.
    ev. cond1. ev. change (hlen_of_type ETH_P_IP) with 14%nat. run. reflexivity. }
  rewrite Hset. f_equal. f_equal; try lia.
  unfold frame4_bytes, I, U, r42, r34, r14. rewrite <- !app_assoc. do 4 f_equal.
  rewrite !skipn_skipn'. f_equal.
Qed.

Ltac ev_hook ::= rewrite ?be16_hi_lo by (first [assumption | reflexivity]); rewrite ?N.eqb_refl;
  repeat match goal with E : hlen_of_type ?t = _ |- context [hlen_of_type ?t] => rewrite E end.

Lemma ether_payload_frame dst src ht X n :
  length src = 6%nat -> length dst = 6%nat -> ht < 65536 -> hlen_of_type ht = 14%nat -> (0 < n)%nat ->
  ether_payload (mkSlice (ether_hdr dst src ht ++ X) (14 + n)) = Ok (mkSlice X n).
Proof.
  intros Hs Hd Hht Hhl Hn.
  do 6 (destr_list src Hs). destruct src; [|discriminate].
  do 6 (destr_list dst Hd). destruct dst; [|discriminate].
  unfold ether_hdr. cbn [app].
  unfold ether_payload, ether_hlen, ether_type, be16_at, slfrom, sl, cap. run.
  rewrite Nat.sub_0_r. reflexivity.
Qed.

Lemma ref_ether_hdr dst src ht P :
  length src = 6%nat -> length dst = 6%nat -> ht < 65536 ->
  ref_ether (ether_hdr dst src ht ++ P) = Some {| re_dst := dst; re_src := src; re_type := ht; re_payload := P |}.
Proof.
  intros Hs Hd Hht.
  do 6 (destr_list src Hs). destruct src; [|discriminate].
  do 6 (destr_list dst Hd). destruct dst; [|discriminate].
  unfold ether_hdr, ref_ether, take, drop, w16. cbn [app length skipn firstn Nat.ltb Nat.leb].
  rewrite w16_hi_lo by assumption. reflexivity.
Qed.

Ltac ev_hook ::= try change (N.to_nat (69 mod 16) * 4)%nat with 20%nat;
   rewrite ?be16_hi_lo by assumption;
   repeat match goal with E : N.to_nat ?t = _ |- context [N.to_nat ?t] => rewrite E end.
Opaque ip4_calc_checksum.

Lemma ip4_payload_frame_padded tl ttl proto src dst (B T : bytes) k :
  length src = 4%nat -> length dst = 4%nat -> tl = 20 + N.of_nat (length B) -> tl < 65536 ->
  (k <= length T)%nat ->
  ip4_payload (mkSlice (ip4_store_checksum (ip4_hdr0 tl ttl proto src dst) ++ B ++ T) (20 + length B + k))
  = Ok (mkSlice (B ++ T) (length B)).
Proof.
  intros Hs Hd Htl Hsz Hk.
  assert (Etl : N.to_nat tl = (20 + length B)%nat) by lia.
  do 4 (destr_list src Hs). destruct src; [|discriminate].
  do 4 (destr_list dst Hd). destruct dst; [|discriminate].
  unfold ip4_store_checksum, ip4_hdr0. cbn [app set_nth].
  unfold ip4_payload, ip4_ihl, ip4_totlen, idx, be16_at, sl, cap. run.
  rewrite Nat.sub_0_r. reflexivity.
Qed.

Lemma ip4_payload_frame tl ttl proto src dst (B T : bytes) :
  length src = 4%nat -> length dst = 4%nat -> tl = 20 + N.of_nat (length B) -> tl < 65536 ->
  ip4_payload (mkSlice (ip4_store_checksum (ip4_hdr0 tl ttl proto src dst) ++ B ++ T) (20 + length B))
  = Ok (mkSlice (B ++ T) (length B)).
Proof.
  intros. rewrite <- (Nat.add_0_r (20 + length B)). apply ip4_payload_frame_padded; try assumption. lia.
Qed.

Ltac ev_hook ::=
  rewrite ?(be16_hi_lo ETH_P_IP) by reflexivity;
  try change (ETH_P_IP <? 1536) with false; try change (hlen_of_type ETH_P_IP) with 14%nat;
  try change (ETH_P_IP =? ETH_P_IP) with true;
  try change (N.to_nat (69 mod 16) * 4)%nat with 20%nat;
  rewrite ?be16_hi_lo by assumption;
  repeat match goal with E : N.to_nat ?t = _ |- context [N.to_nat ?t] => rewrite E end.

(* Session.Parse on the finished frame: classification by ports *)
Lemma parse_class_frame4_padded smac dmac ttl sip dip sp dp data T k :
  length smac = 6%nat -> length dmac = 6%nat -> length sip = 4%nat -> length dip = 4%nat ->
  N.land (nth 0 smac 0) 1 = 0 -> sp < 65536 -> dp < 65536 -> 42 + N.of_nat (length data) < 65536 ->
  (k <= length T)%nat ->
  parse_class (mkSlice (frame4_bytes smac dmac ttl sip dip sp dp data ++ T) (42 + length data + k))
  = Ok (class_of_ports sp dp, false).
Proof.
  intros Hsm Hdm Hsi Hdi Huni Hsp Hdp Hsz Hk.
  do 6 (destr_list smac Hsm). destruct smac; [|discriminate].
  do 6 (destr_list dmac Hdm). destruct dmac; [|discriminate].
  do 4 (destr_list sip Hsi). destruct sip; [|discriminate].
  do 4 (destr_list dip Hdi). destruct dip; [|discriminate].
  cbn [nth] in Huni.
  set (tl := 20 + N.of_nat (8 + length data)).
  assert (Htl : tl < 65536) by (unfold tl; lia).
  assert (Etl : N.to_nat tl = (28 + length data)%nat) by (unfold tl; lia).
  unfold frame4_bytes, ether_hdr, ip4_store_checksum, ip4_hdr0, udp_hdr. fold tl. cbn [app set_nth].
  set (c := ip4_calc_checksum _).
  unfold parse_class, parse_udp_at, ether_is_valid, ether_src, ether_hlen, ether_type, ip4_is_valid, ip4_ihl,
    ip4_totlen, ip4_protocol, udp_is_valid, udp_srcport, udp_dstport, idx, be16_at, sl, slfrom, cap.
  run. rewrite Huni. change (0 =? 0) with true. cbn [negb]. run.
  change (17 =? IPPROTO_UDP) with true. cbn iota. reflexivity.
Qed.

Lemma parse_class_frame4 smac dmac ttl sip dip sp dp data T :
  length smac = 6%nat -> length dmac = 6%nat -> length sip = 4%nat -> length dip = 4%nat ->
  N.land (nth 0 smac 0) 1 = 0 -> sp < 65536 -> dp < 65536 -> 42 + N.of_nat (length data) < 65536 ->
  parse_class (mkSlice (frame4_bytes smac dmac ttl sip dip sp dp data ++ T) (42 + length data))
  = Ok (class_of_ports sp dp, false).
Proof.
  intros. rewrite <- (Nat.add_0_r (42 + length data)). apply parse_class_frame4_padded; try assumption. lia.
Qed.

Ltac ev_hook ::= idtac.

(* the composed frame: bytes, classification, and layer-by-layer decoding by the reference
   decoders and by the library views; the length fields of the three layers are consistent *)
Theorem compose_udp4_rt b smac dmac ttl sip dip sp dp data :
  (42 + length data <= cap b)%nat -> length smac = 6%nat -> length dmac = 6%nat ->
  is4 sip = true -> is4 dip = true -> 42 + N.of_nat (length data) < 65536 ->
  bytes_ok smac -> bytes_ok dmac -> bytes_ok sip -> bytes_ok dip -> bytes_ok data ->
  ttl < 256 -> sp < 65536 -> dp < 65536 -> N.land (nth 0 smac 0) 1 = 0 ->
  let udpb := udp_hdr sp dp (8 + N.of_nat (length data)) ++ data in
  exists f,
    compose_udp4 b smac dmac ttl sip dip sp dp data = Ok f /\
    len f = (42 + length data)%nat /\ cap f = cap b /\
    skipn (42 + length data) (arr f) = skipn (42 + length data) (arr b) /\
    view f = frame4_bytes smac dmac ttl sip dip sp dp data /\
    (* Session.Parse *)
    parse_class f = Ok (class_of_ports sp dp, false) /\
    (* reference decoders, layer by layer *)
    (exists ipb,
       ref_ether (view f) = Some {| re_dst := dmac; re_src := smac; re_type := ETH_P_IP; re_payload := ipb |} /\
       length ipb = (20 + length udpb)%nat /\
       ref_ip4 ipb = Some (ip4_expected_ref ttl 17 sip dip udpb) /\
       ref_udp udpb = Some (udp_expected_ref sp dp data)) /\
    (* library views, layer by layer *)
    (ipv <- ether_payload f ;; ip4_decode_lib ipv)%res = Ok (ip4_expected_view ttl 17 sip dip udpb) /\
    (ipv <- ether_payload f ;; u <- ip4_payload ipv ;; udp_decode_lib u)%res = Ok (udp_expected_view sp dp data).
Proof.
  intros Hc Hsm Hdm Hsi Hdi Hsz Bsm Bdm Bsi Bdi Bd Httl Hsp Hdp Huni udpb.
  assert (Hsi' : length sip = 4%nat) by (apply Nat.eqb_eq; exact Hsi).
  assert (Hdi' : length dip = 4%nat) by (apply Nat.eqb_eq; exact Hdi).
  eexists. split. { apply compose_udp4_bytes; assumption. }
  set (T := skipn (42 + length data) (arr b)).
  set (tl := 20 + N.of_nat (8 + length data)).
  set (CK := ip4_store_checksum (ip4_hdr0 tl ttl 17 sip dip)).
  assert (HCK : length CK = 20%nat).
  { unfold CK, ip4_store_checksum. rewrite !set_nth_length. unfold ip4_hdr0. cbn [app length]. rewrite app_length. lia. }
  assert (HEH : length (ether_hdr dmac smac ETH_P_IP) = 14%nat).
  { unfold ether_hdr. rewrite !app_length. cbn [length]. lia. }
  assert (Hub : length udpb = (8 + length data)%nat) by (unfold udpb; rewrite app_length; reflexivity).
  assert (Hfb : length (frame4_bytes smac dmac ttl sip dip sp dp data) = (42 + length data)%nat).
  { unfold frame4_bytes. fold tl CK udpb. rewrite !app_length, HEH, HCK. fold udpb. rewrite Hub. lia. }
  assert (Hfr : frame4_bytes smac dmac ttl sip dip sp dp data = ether_hdr dmac smac ETH_P_IP ++ CK ++ udpb).
  { reflexivity. }
  split. { reflexivity. }
  split. { unfold cap. cbn [arr]. unfold T. rewrite app_length, skipn_length, Hfb. unfold cap in Hc. lia. }
  split. { cbn [arr]. apply skipn_app_len. exact Hfb. }
  assert (Hv : view (mkSlice (frame4_bytes smac dmac ttl sip dip sp dp data ++ T) (42 + length data))
               = frame4_bytes smac dmac ttl sip dip sp dp data).
  { unfold view. cbn [arr len]. apply firstn_app_len. exact Hfb. }
  split. { exact Hv. }
  split. { apply parse_class_frame4; assumption. }
  (* the IPv4 packet inside, in the form of ip4_frame_decodes *)
  assert (Htl : tl = 20 + N.of_nat (length udpb)) by (unfold tl; rewrite Hub; reflexivity).
  assert (Htl' : tl < 65536) by (unfold tl; lia).
  assert (Bu : bytes_ok udpb).
  { unfold udpb, udp_hdr. cbn [app]. repeat (apply bytes_ok_cons; split; [first [lia | apply hi8_lt | apply lo8_lt]|]). assumption. }
  pose proof (ip4_frame_decodes tl ttl 17 sip dip udpb T Hsi' Hdi' Bsi Bdi Bu Httl ltac:(lia) Htl Htl') as D4.
  cbn zeta in D4. fold CK in D4. destruct D4 as (_ & D4lib & D4ref).
  assert (Hipview : view (mkSlice (CK ++ udpb ++ T) (20 + length udpb)) = CK ++ udpb).
  { unfold view. cbn [arr len]. rewrite app_assoc. apply firstn_app_len. rewrite app_length, HCK. reflexivity. }
  rewrite Hipview in D4ref.
  pose proof (udp_frame_decodes sp dp data T Hsp Hdp Bd ltac:(lia)) as DU.
  cbn zeta in DU. destruct DU as (_ & DUlib & DUref).
  assert (Huview : view (mkSlice (udp_hdr sp dp (8 + N.of_nat (length data)) ++ data ++ T) (8 + length data)) = udpb).
  { unfold view. cbn [arr len]. unfold udpb. rewrite app_assoc. apply firstn_app_len. rewrite app_length. reflexivity. }
  rewrite Huview in DUref.
  split.
  { exists (CK ++ udpb). rewrite Hv, Hfr.
    split. { apply ref_ether_hdr; try assumption. reflexivity. }
    split. { rewrite app_length, HCK. reflexivity. }
    split. { rewrite D4ref. unfold ip4_expected_ref. rewrite <- Htl. reflexivity. }
    exact DUref. }
  assert (Hep : ether_payload (mkSlice (frame4_bytes smac dmac ttl sip dip sp dp data ++ T) (42 + length data))
                = Ok (mkSlice (CK ++ udpb ++ T) (20 + length udpb))).
  { rewrite Hfr, <- !app_assoc.
    replace (42 + length data)%nat with (14 + (20 + length udpb))%nat by lia.
    apply ether_payload_frame; try assumption; try reflexivity. lia. }
  split. { rewrite Hep. cbn [bind]. exact D4lib. }
  rewrite Hep. cbn [bind].
  pose proof (ip4_payload_frame tl ttl 17 sip dip udpb T Hsi' Hdi' Htl Htl') as Hpl. fold CK in Hpl.
  rewrite Hpl. cbn [bind].
  rewrite Hub. unfold udpb. rewrite <- app_assoc. exact DUlib.
Qed.

(* ---------------------------------------------------------------- *)
(* "classified as the protocol that was encoded": for every protocol of the table, a datagram
   sent to (or, where the library classifies by either port, from) one of its well-known
   ports, whose other port is not a well-known port of the table, is classified as that
   protocol.  (When both ports are well known the first match of the cascade wins.) *)
Definition well_known : list N :=
  [443; 67; 68; 546; 547; 53; 5353; 5355; 123; 1900; 3702; 137; 138; 32412; 32414; 10001].
(* (PayloadID, ports, classified by destination port only?) *)
Definition port_table : list (N * list N * bool) :=
  [ (PayloadSSL, [443], false); (PayloadDHCP4, [67; 68], true); (PayloadDHCP6, [546; 547], true);
    (PayloadDNS, [53], false); (PayloadMDNS, [5353], false); (PayloadLLMNR, [5355], false);
    (PayloadNTP, [123], false); (PayloadSSDP, [1900], false); (PayloadWSDP, [3702], false);
    (PayloadNBNS, [137; 138], true); (PayloadPlex, [32412; 32414], true); (PayloadUbiquiti, [10001], false) ].
Definition ephemeral (p : N) : Prop := forall q, In q well_known -> p <> q.

Lemma eph_false p q : ephemeral p -> In q well_known -> (p =? q) = false.
Proof. intros H Hq. apply N.eqb_neq. apply H. exact Hq. Qed.

Ltac eph_rewrite p H :=
  repeat match goal with
  | |- context [p =? ?q] => rewrite (eph_false p q H) by (cbn; tauto)
  end.

Theorem class_of_ports_dst id ports dstonly sp dp :
  In (id, ports, dstonly) port_table -> In dp ports -> ephemeral sp ->
  class_of_ports sp dp = id.
Proof.
  intros Ht Hp He. unfold port_table in Ht. cbn [In] in Ht.
  repeat (destruct Ht as [Ht|Ht]; [injection Ht as <- <- <-; cbn [In] in Hp;
            repeat (destruct Hp as [<-|Hp]; [unfold class_of_ports; eph_rewrite sp He; vm_compute; reflexivity|]);
            contradiction|]).
  contradiction.
Qed.

Theorem class_of_ports_src id ports sp dp :
  In (id, ports, false) port_table -> In sp ports -> ephemeral dp ->
  class_of_ports sp dp = id.
Proof.
  intros Ht Hp He. unfold port_table in Ht. cbn [In] in Ht.
  repeat (destruct Ht as [Ht|Ht]; [first [discriminate Ht | injection Ht as <- <-; cbn [In] in Hp;
            repeat (destruct Hp as [<-|Hp]; [unfold class_of_ports; eph_rewrite dp He; vm_compute; reflexivity|]);
            contradiction]|]).
  contradiction.
Qed.

Theorem class_of_ports_other sp dp : ephemeral sp -> ephemeral dp -> class_of_ports sp dp = PayloadUDP.
Proof. intros Hs Hd. unfold class_of_ports. eph_rewrite sp Hs. eph_rewrite dp Hd. reflexivity. Qed.

Example class_of_ports_ex : class_of_ports 68 67 = PayloadDHCP4 /\ class_of_ports 50000 53 = PayloadDNS /\
                            ephemeral 50000.
Proof. split; [reflexivity|split; [reflexivity|]]. intros q Hq. cbn in Hq. intuition (subst; discriminate). Qed.

Ltac blia := unfold bytes, byte in *; lia.

(* ================================================================ *)
(* A small IPv4/UDP packet built in its own buffer and wrapped by Ether.AppendPayload (60-byte
   minimum padding): the Ethernet payload carries bytes beyond TotalLen. *)
Definition packet4_bytes (ttl proto : N) (sip dip inner : bytes) : bytes :=
  ip4_store_checksum (ip4_hdr0 (20 + N.of_nat (length inner)) ttl proto sip dip) ++ inner.

Lemma packet_udp4_bytes ttl sip dip sp dp data :
  is4 sip = true -> is4 dip = true -> 28 + N.of_nat (length data) < 65536 ->
  packet_udp4 ttl sip dip sp dp data =
  Ok (mkSlice (packet4_bytes ttl 17 sip dip (udp_hdr sp dp (8 + N.of_nat (length data)) ++ data)) (28 + length data)).
Proof.
  intros Hsi Hdi Hsz.
  assert (Hsi' : length sip = 4%nat) by (apply Nat.eqb_eq; exact Hsi).
  assert (Hdi' : length dip = 4%nat) by (apply Nat.eqb_eq; exact Hdi).
  unfold packet_udp4. set (n := (28 + length data)%nat).
  assert (Hnil : skipn (length data) (skipn 8 (skipn 20 (repeat 0 n))) = []).
  { apply length_zero_iff_nil. rewrite !skipn_length, repeat_length. unfold n. blia. }
  rewrite encode_ip4_bytes; [|cbn [len]; unfold n; blia|unfold cap; cbn [arr]; rewrite repeat_length; unfold n; blia|assumption|assumption].
  cbn [bind arr]. rewrite ip4_payload_encoded by assumption. cbn [bind].
  rewrite encode_udp_bytes by (unfold cap; cbn [arr]; rewrite ?skipn_length, ?repeat_length; unfold n; blia). cbn [bind arr].
  rewrite udp_append_bytes by (rewrite ?skipn_length, ?repeat_length; unfold n; blia). cbn [bind arr len].
  rewrite udp_lenfield_small by blia.
  unfold bytes, byte in *. rewrite Hnil.
  rewrite writeback_app by (rewrite !app_length, !skipn_length, repeat_length; cbn [udp_hdr length]; unfold n; blia).
  rewrite ip4_set_payload_bytes by (try assumption; rewrite ?app_length; cbn [udp_hdr length]; blia).
  f_equal. f_equal.
  unfold packet4_bytes. rewrite app_nil_r. rewrite app_length. cbn [udp_hdr length]. reflexivity.
Qed.

Theorem pad4u_rt b smac dmac ttl sip dip sp dp data :
  (60 <= cap b)%nat -> (42 + length data <= cap b)%nat -> length smac = 6%nat -> length dmac = 6%nat ->
  is4 sip = true -> is4 dip = true -> 42 + N.of_nat (length data) < 65536 ->
  bytes_ok smac -> bytes_ok dmac -> bytes_ok sip -> bytes_ok dip -> bytes_ok data ->
  ttl < 256 -> sp < 65536 -> dp < 65536 -> N.land (nth 0 smac 0) 1 = 0 ->
  let udpb := udp_hdr sp dp (8 + N.of_nat (length data)) ++ data in
  let P := packet4_bytes ttl 17 sip dip udpb in
  exists f,
    ether_wrap4 b smac dmac (packet_udp4 ttl sip dip sp dp data) = Ok f /\
    len f = Nat.max 60 (42 + length data) /\ cap f = cap b /\
    view f = ether_hdr dmac smac ETH_P_IP ++ pad46 P /\
    parse_class f = Ok (class_of_ports sp dp, false) /\
    (* reference decoders: the Ethernet payload is the packet plus zero padding; the IPv4
       decoder stops at TotalLen; UDP length = 8 + |data| *)
    ref_ether (view f) = Some {| re_dst := dmac; re_src := smac; re_type := ETH_P_IP; re_payload := pad46 P |} /\
    ref_ip4 (pad46 P) = Some (ip4_expected_ref ttl 17 sip dip udpb) /\
    ref_udp udpb = Some (udp_expected_ref sp dp data) /\
    (* library views, each obtained from the outer one by its Payload() getter *)
    (ipv <- ether_payload f ;; Ok (len ipv))%res = Ok (Nat.max 46 (28 + length data)) /\
    (ipv <- ether_payload f ;; ip4_decode_lib ipv)%res = Ok (ip4_expected_view ttl 17 sip dip udpb) /\
    (ipv <- ether_payload f ;; u <- ip4_payload ipv ;; Ok (len u))%res = Ok (8 + length data)%nat /\
    (ipv <- ether_payload f ;; u <- ip4_payload ipv ;; udp_decode_lib u)%res = Ok (udp_expected_view sp dp data).
Proof.
  intros H60 Hc Hsm Hdm Hsi Hdi Hsz Bsm Bdm Bsi Bdi Bd Httl Hsp Hdp Huni udpb P.
  assert (Hsi' : length sip = 4%nat) by (apply Nat.eqb_eq; exact Hsi).
  assert (Hdi' : length dip = 4%nat) by (apply Nat.eqb_eq; exact Hdi).
  assert (Hub : length udpb = (8 + length data)%nat) by (unfold udpb; rewrite app_length; reflexivity).
  set (tl := 20 + N.of_nat (length udpb)).
  set (CK := ip4_store_checksum (ip4_hdr0 tl ttl 17 sip dip)).
  assert (HCK : length CK = 20%nat).
  { unfold CK, ip4_store_checksum. rewrite !set_nth_length. unfold ip4_hdr0. cbn [app length]. rewrite app_length. blia. }
  assert (HP : P = CK ++ udpb) by reflexivity.
  assert (HPl : length P = (28 + length data)%nat) by (rewrite HP, app_length, HCK, Hub; blia).
  set (Z := repeat 0 (46 - length P)).
  assert (HZ : length Z = (46 - length P)%nat) by apply repeat_length.
  assert (Hpad : pad46 P = CK ++ udpb ++ Z) by (unfold pad46; fold Z; rewrite HP, <- app_assoc; reflexivity).
  assert (Hpl : length (pad46 P) = Nat.max 46 (28 + length data)) by (rewrite pad46_length, HPl; reflexivity).
  assert (HEH : length (ether_hdr dmac smac ETH_P_IP) = 14%nat).
  { unfold ether_hdr. rewrite !app_length. cbn [length]. blia. }
  set (rest := skipn 14 (arr b)).
  assert (Hrest : length rest = (cap b - 14)%nat) by (unfold rest, cap; apply skipn_length).
  set (T := skipn (length (pad46 P)) rest).
  assert (Hwrap : ether_wrap4 b smac dmac (packet_udp4 ttl sip dip sp dp data)
                  = Ok (mkSlice (ether_hdr dmac smac ETH_P_IP ++ pad46 P ++ T) (14 + length (pad46 P)))).
  { unfold ether_wrap4. rewrite encode_ether_bytes by (try assumption; blia). cbn [bind].
    rewrite packet_udp4_bytes by (try assumption; blia). cbn [bind].
    assert (Hview : view (mkSlice (packet4_bytes ttl 17 sip dip udpb) (28 + length data)) = P).
    { unfold view. cbn [arr len]. fold P. rewrite <- HPl. apply firstn_all. }
    fold udpb. rewrite Hview. unfold T. fold rest.
    apply ether_append_bytes; try assumption; try reflexivity; blia. }
  eexists. split. { exact Hwrap. }
  split. { cbn [len]. rewrite Hpl. blia. }
  split. { unfold cap at 1. cbn [arr]. unfold T. rewrite !app_length, skipn_length, HEH, Hrest, Hpl. blia. }
  assert (Hv : view (mkSlice (ether_hdr dmac smac ETH_P_IP ++ pad46 P ++ T) (14 + length (pad46 P)))
               = ether_hdr dmac smac ETH_P_IP ++ pad46 P).
  { unfold view. cbn [arr len]. rewrite app_assoc. apply firstn_app_len. rewrite app_length, HEH. reflexivity. }
  split. { exact Hv. }
  assert (Htl : tl = 20 + N.of_nat (length udpb)) by reflexivity.
  assert (Htl' : tl < 65536) by (unfold tl; blia).
  assert (Bu : bytes_ok udpb).
  { unfold udpb, udp_hdr. cbn [app]. repeat (apply bytes_ok_cons; split; [first [blia | apply hi8_lt | apply lo8_lt]|]). assumption. }
  (* the frame as frame4_bytes ++ (Z ++ T) *)
  assert (Hfr : ether_hdr dmac smac ETH_P_IP ++ pad46 P ++ T
                = frame4_bytes smac dmac ttl sip dip sp dp data ++ (Z ++ T)).
  { rewrite Hpad. unfold frame4_bytes. fold udpb. unfold CK, tl. rewrite Hub. rewrite <- !app_assoc. reflexivity. }
  split.
  { rewrite Hfr. replace (14 + length (pad46 P))%nat with (42 + length data + length Z)%nat by blia.
    apply parse_class_frame4_padded; try assumption. rewrite app_length. blia. }
  split. { rewrite Hv. apply ref_ether_hdr; try assumption. reflexivity. }
  pose proof (ip4_frame_decodes_padded tl ttl 17 sip dip udpb (Z ++ T) (length Z) Hsi' Hdi' Bsi Bdi Bu Httl ltac:(lia) Htl Htl'
                ltac:(rewrite app_length; blia)) as D4.
  cbn zeta in D4. fold CK in D4. destruct D4 as (D4v & D4lib & D4ref).
  rewrite D4v in D4ref. rewrite firstn_app_exact in D4ref.
  split. { rewrite Hpad. rewrite D4ref. reflexivity. }
  pose proof (udp_frame_decodes sp dp data (Z ++ T) Hsp Hdp Bd ltac:(lia)) as DU.
  cbn zeta in DU. destruct DU as (_ & DUlib & DUref).
  assert (Huview : view (mkSlice (udp_hdr sp dp (8 + N.of_nat (length data)) ++ data ++ Z ++ T) (8 + length data)) = udpb).
  { unfold view. cbn [arr len]. unfold udpb. rewrite app_assoc. apply firstn_app_len. rewrite app_length. reflexivity. }
  rewrite Huview in DUref.
  split. { exact DUref. }
  assert (Hep : ether_payload (mkSlice (ether_hdr dmac smac ETH_P_IP ++ pad46 P ++ T) (14 + length (pad46 P)))
                = Ok (mkSlice (CK ++ udpb ++ Z ++ T) (20 + length udpb + length Z))).
  { rewrite ether_payload_frame by (try assumption; try reflexivity; blia).
    replace (length (pad46 P)) with (20 + length udpb + length Z)%nat by blia.
    rewrite Hpad, <- !app_assoc. reflexivity. }
  split. { rewrite Hep. cbn [bind len]. f_equal. blia. }
  split. { rewrite Hep. cbn [bind]. exact D4lib. }
  pose proof (ip4_payload_frame_padded tl ttl 17 sip dip udpb (Z ++ T) (length Z) Hsi' Hdi' Htl Htl'
                ltac:(rewrite app_length; blia)) as Hpl4. fold CK in Hpl4.
  split. { rewrite Hep. cbn [bind]. rewrite Hpl4. cbn [bind len]. rewrite Hub. reflexivity. }
  rewrite Hep. cbn [bind]. rewrite Hpl4. cbn [bind].
  rewrite Hub. unfold udpb. rewrite <- app_assoc. exact DUlib.
Qed.
