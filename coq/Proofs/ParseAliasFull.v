(* Proofs/ParseAliasFull.v — C16, aliasing clause at full strength for the code in force: every view a Frame accessor
   returns is exactly the sub-slice of the input at the offset the reference decoder computes (nil where the reference
   has no such layer), for every frame Parse accepts - every PayloadID class, VLAN-tagged frames, IPv6 with extension
   headers (next header = any protocol number), every session configuration (the host table plays no part). *)
From PV Require Import Base.Prelude Base.Slice Model.Parse Model.ParseFixes Spec.RFC Model.ParseKnown Model.ParseAlias
  Proofs.Parse Proofs.ParseAcc Proofs.ParseRef Proofs.ParseRefEq Proofs.ParseAlias.
Open Scope N_scope.
Open Scope res_scope.

(* the payload offset is at least the Ethernet header *)
Lemma parse_proto_offP fx s f proto : post (fun f' => (f_offP f <= f_offP f')%nat) (parse_proto fx s f proto).
Proof. rewrite parse_proto_chain_eq. unfold parse_proto_chain. blind; cbn [post]; cbn; lia. Qed.

Theorem parse_offP_pos c s : post (fun f => (14 <= f_offP f)%nat) (parse c s).
Proof.
  rewrite parse_chain_eq. unfold parse_chain.
  apply post_bind; intros _ _. apply post_bind; intros smac _. apply post_bind; intros dmac _.
  apply post_bind; intros hl Hhl. apply header_len_pos in Hhl.
  destruct (Nat.ltb (len s) hl); [exact I|].
  destruct (negb (is_unicast_mac smac)); [cbn; lia|].
  apply post_bind; intros et _.
  destruct (et <? 1536); [cbn; lia|].
  destruct (et =? 2048).
  { unfold parse_ip4. apply post_bind; intros p _. apply post_bind; intros _ _. apply post_bind; intros ihl _.
    apply post_bind; intros proto _. apply post_bind; intros sip _. apply post_bind; intros dip _.
    eapply post_weaken; [|apply parse_proto_offP]. cbn [f_offP set_id]. intros; lia. }
  destruct (et =? 34525).
  { unfold parse_ip6. apply post_bind; intros p _. apply post_bind; intros _ _.
    apply post_bind; intros proto _. apply post_bind; intros sip _. apply post_bind; intros dip _.
    eapply post_weaken; [|apply parse_proto_offP]. cbn [f_offP set_id]. intros; lia. }
  destruct (et =? 2054).
  { unfold parse_arp. apply post_bind; intros p _. apply post_bind; intros bad _. destruct bad; [exact I|].
    apply post_bind; intros sip _. apply post_bind; intros h _. cbn. lia. }
  repeat match goal with |- context [if ?c then _ else _] => destruct c end; try (cbn; lia);
  unfold parse_leaf; apply post_bind; intros hl' Hh'; apply header_len_pos in Hh'; cbn; lia.
Qed.

(* what an accessor must return for a reference offset: nil, or the input's storage from [off] to the end of the frame *)
Definition ref_view (s : slice) (o : option nat) : res (option slice) :=
  match o with
  | Some off => Ok (Some (view_at (arr s) off (len s - off)))
  | None => Ok None
  end.

Lemma acc_at_ref_view s off : (off <= len s)%nat -> acc_at s off = ref_view s (opt_off off).
Proof.
  intros H. unfold acc_at, opt_off, ref_view. destruct (Nat.eqb off 0); [reflexivity|].
  rewrite slfrom_ok by lia. reflexivity.
Qed.

Theorem views_alias_full c s f :
  c_fx c = current_fixes -> wf s -> bytes_ok (view s) -> parse c s = Ok f ->
  exists r, ref_decode (view s) = ROk r /\
    view_get s f VE = ref_view s (Some 0%nat) /\
    view_get s f V4 = ref_view s (r_ip4 r) /\
    view_get s f V6 = ref_view s (r_ip6 r) /\
    view_get s f VU = ref_view s (r_udp r) /\
    view_get s f VT = ref_view s (r_tcp r) /\
    view_get s f VP = ref_view s (Some (r_pay r)) /\
    view_get s f VS = Ok (Some (view_at (arr s) 6 6)) /\
    view_get s f VD = Ok (Some (view_at (arr s) 0 6)) /\
    (* all inside the frame *)
    (14 <= r_pay r <= len s)%nat /\
    (forall o, r_ip4 r = Some o \/ r_ip6 r = Some o \/ r_udp r = Some o \/ r_tcp r = Some o -> (0 < o <= len s)%nat).
Proof.
  intros Hf Hwf Hb Hp.
  pose proof (parse_eq_ref_full c s Hf Hwf Hb) as HA. rewrite Hp in HA. cbn [agrees] in HA.
  pose proof (parse_offsets c s Hwf) as HO. rewrite Hp in HO. cbn [post] in HO. destruct HO as (H4 & H6 & HU & HT & HP).
  pose proof (parse_offP_pos c s) as HPP. rewrite Hp in HPP. cbn [post] in HPP.
  pose proof (parse_ok_len _ _ _ Hp) as Hlen.
  exists (proj f). split; [exact HA|]. unfold proj; cbn [r_ip4 r_ip6 r_udp r_tcp r_pay view_get].
  split. { unfold frame_ether, ref_view, view_at. cbn [skipn]. rewrite Nat.sub_0_r. destruct s; reflexivity. }
  split; [apply acc_at_ref_view; assumption|]. split; [apply acc_at_ref_view; assumption|].
  split; [apply acc_at_ref_view; assumption|]. split; [apply acc_at_ref_view; assumption|].
  split. { unfold frame_payload. rewrite acc_at_ref_view by assumption. unfold opt_off.
           destruct (Nat.eqb_spec (f_offP f) 0); [lia|reflexivity]. }
  split. { unfold lift_some. rewrite sl_ok by (unfold wf in Hwf; lia). reflexivity. }
  split. { unfold lift_some. rewrite sl_ok by (unfold wf in Hwf; lia). reflexivity. }
  split; [lia|].
  assert (HO : forall off o, opt_off off = Some o -> (off <= len s)%nat -> (0 < o <= len s)%nat).
  { intros off o E Hle. unfold opt_off in E. destruct (Nat.eqb_spec off 0); [discriminate|]. injection E as <-. lia. }
  intros o [E|[E|[E|E]]]; eapply HO; eauto.
Qed.

(* ---- the classes the quantifier names, as concrete instances of the theorem ---- *)
Definition cfg_cur : cfg := mkCfg [0;85;85;85;85;85] [0;102;102;102;102;102] [192;168;0;0] 24 current_fixes.

(* 802.1Q-tagged frame (TPID 0x8100): PayloadEther, every IP/transport view nil, payload after the 4-byte tag *)
Definition ex_vlan : bytes := ([0;102;102;102;102;102; 2;17;17;17;17;17; 129;0; 0;5; 8;0] ++ repeat 7 30)%list.
(* IPv6 with a hop-by-hop extension header (next header 0): PayloadIP6, IP6 view at 14, payload at 54 = the
   extension header (reading (v): no extension-header walk) *)
Definition ex_hbh : bytes :=
  ([0;102;102;102;102;102; 2;17;17;17;17;17; 134;221] ++ [96;0;0;0; 0;16; 0;64] ++
   [254;128;0;0;0;0;0;0;0;0;0;0;0;0;0;1] ++ [255;2;0;0;0;0;0;0;0;0;0;0;0;0;0;1] ++ [58;0;5;2;0;0;1;0] ++ repeat 0 8)%list.

Example alias_examples :
  (exists f, parse cfg_cur (of_bytes ex_vlan) = Ok f /\ f_id f = PayloadEther /\
     view_get (of_bytes ex_vlan) f V4 = Ok None /\ view_get (of_bytes ex_vlan) f VU = Ok None /\
     view_get (of_bytes ex_vlan) f VP = Ok (Some (view_at ex_vlan 18 30))) /\
  (exists f, parse cfg_cur (of_bytes ex_hbh) = Ok f /\ f_id f = PayloadIP6 /\
     view_get (of_bytes ex_hbh) f V6 = Ok (Some (view_at ex_hbh 14 56)) /\
     view_get (of_bytes ex_hbh) f VP = Ok (Some (view_at ex_hbh 54 16)) /\
     f_host f = Some ([2;17;17;17;17;17], [254;128;0;0;0;0;0;0;0;0;0;0;0;0;0;1])).
Proof. split; eexists; repeat split; vm_compute; reflexivity. Qed.
