(* Proofs/Parse.v — proofs about the Session.Parse model (Model/Parse.v, the code after the repairs of
   layer_frame.go:240 and of the short tagged header): totality for every slice, the former refutation
   witnesses as regression examples, and the slice facts later files use. *)
From PV Require Import Base.Prelude Base.Slice Model.Parse Spec.RFC Model.ParseKnown.
Open Scope N_scope.
Open Scope res_scope.

(* ---------- the list-driven classification of the model, unfolded into explicit chains ----------
   Model/Parse.v selects the cases of the three switches through the row lists ethertype_rows, ipproto_rows,
   udp_port_rows.  The proofs below walk the equivalent if-chains. *)
Definition udp_class_chain (sp dp : N) : option N :=
  if (sp =? 443) || (dp =? 443) then Some PayloadSSL
  else if (dp =? 67) || (dp =? 68) then Some PayloadDHCP4
  else if (dp =? 546) || (dp =? 547) then Some PayloadDHCP6
  else if (sp =? 53) || (dp =? 53) then Some PayloadDNS
  else if (sp =? 5353) || (dp =? 5353) then Some PayloadMDNS
  else if (sp =? 5355) || (dp =? 5355) then Some PayloadLLMNR
  else if (sp =? 123) || (dp =? 123) then Some PayloadNTP
  else if (sp =? 1900) || (dp =? 1900) then Some PayloadSSDP
  else if (sp =? 3702) || (dp =? 3702) then Some PayloadWSDP
  else if (dp =? 137) || (dp =? 138) then Some PayloadNBNS
  else if (dp =? 32412) || (dp =? 32414) then Some PayloadPlex
  else if (sp =? 10001) || (dp =? 10001) then Some PayloadUbiquiti
  else None.


Lemma udp_class_chain_eq sp dp : udp_class sp dp = udp_class_chain sp dp.
Proof.
  unfold udp_class, udp_class_chain, udp_port_rows, first_row, row_matches, existsb.
  repeat (match goal with |- context [?a =? ?b] => destruct (a =? b) end; cbn [orb]; try reflexivity).
Qed.

Definition parse_proto_chain (fx : fixes) (s : slice) (f : frame) (proto : N) : res frame :=
  if proto =? 17 then                                   (* IPPROTO_UDP *)
    let f := set_id f PayloadUDP in
    p <- payload_view s f ;;
    _ <- udp_is_valid p ;;
    sp <- src_port p ;;
    dp <- dst_port p ;;
    let f := set_ports (set_offU f (f_offP f)) sp dp in
    match udp_class sp dp with
    | None => Ok f
    | Some id => Ok (set_offP (set_id f id) (f_offP f + 8))
    end
  else if proto =? 6 then                               (* IPPROTO_TCP *)
    let f := set_id f PayloadTCP in
    p <- payload_view s f ;;
    _ <- tcp_is_valid fx p ;;
    sp <- src_port p ;;
    dp <- dst_port p ;;
    Ok (set_ports (set_offT f (f_offP f)) sp dp)
  else if proto =? 1 then                               (* IPPROTO_ICMP *)
    p <- payload_view s f ;;
    _ <- icmp_is_valid p ;;
    t <- icmp_type p ;;
    f <- (if (t =? 0) && echo_gate s f PayloadICMP4 then                                (* ICMP4TypeEchoReply *)
            _ <- icmp_is_valid p ;;                     (* ICMPEcho.IsValid: same test *)
            e <- echo_id p ;; Ok (set_echo f (Some e))
          else Ok f) ;;
    Ok (set_id f PayloadICMP4)
  else if proto =? 58 then                              (* IPPROTO_ICMPV6 *)
    p <- payload_view s f ;;
    _ <- icmp_is_valid p ;;
    t <- icmp_type p ;;
    f <- (if (t =? 129) && echo_gate s f PayloadICMP6 then                              (* ICMP6TypeEchoReply *)
            _ <- icmp_is_valid p ;;
            e <- echo_id p ;; Ok (set_echo f (Some e))
          else Ok f) ;;
    Ok (set_id f PayloadICMP6)
  else if proto =? 2 then                               (* IPPROTO_IGMP *)
    Ok (set_id f PayloadIGMP)
  else Ok f.


Lemma parse_proto_chain_eq fx s f proto : parse_proto fx s f proto = parse_proto_chain fx s f proto.
Proof.
  unfold parse_proto, parse_proto_chain, ipproto_rows, lookup_row.
  repeat (match goal with |- context [proto =? ?k] => destruct (proto =? k) end; try reflexivity).
Qed.

Definition parse_chain (c : cfg) (s : slice) : res frame :=
  _ <- ether_is_valid s ;;
  smac <- ether_src s ;;
  dmac <- ether_dst s ;;
  hl <- ether_header_len s ;;
  if Nat.ltb (len s) hl then Err EFrameLen else        (* tagged header longer than the frame: ErrFrameLen (sentinel) *)
  let f := mkFrame 0 0 0 0 hl PayloadEther (mkAddr smac [] 0) (mkAddr dmac [] 0) None None in
  if negb (is_unicast_mac smac) then Ok f else
  et <- ether_type s ;;
  if et <? 1536 then Ok (set_id f Payload8023) else
  if et =? 2048 then parse_ip4 c s f                      (* ETH_P_IP *)
  else if et =? 34525 then parse_ip6 c s f                (* ETH_P_IPV6 0x86dd *)
  else if et =? 2054 then parse_arp c s f                 (* ETH_P_ARP 0x0806 *)
  else if et =? 34824 then parse_leaf s f PayloadEthernetPause   (* 0x8808 *)
  else if et =? 34969 then parse_leaf s f PayloadRRCP            (* 0x8899 *)
  else if et =? 35020 then parse_leaf s f PayloadLLDP            (* 0x88cc *)
  else if et =? 35085 then parse_leaf s f Payload802_11r         (* 0x890d *)
  else if et =? 35130 then parse_leaf s f PayloadIEEE1905        (* 0x893a *)
  else if et =? 26992 then parse_leaf s f PayloadSonos           (* 0x6970 *)
  else if et =? 34826 then parse_leaf s f Payload880a            (* 0x880a *)
  else Ok f.

Lemma parse_chain_eq c s : parse c s = parse_chain c s.
Proof.
  unfold parse, parse_chain.
  destruct (ether_is_valid s); cbn [bind]; try reflexivity.
  destruct (ether_src s); cbn [bind]; try reflexivity.
  destruct (ether_dst s); cbn [bind]; try reflexivity.
  destruct (ether_header_len s); cbn [bind]; try reflexivity.
  destruct (Nat.ltb (len s) a2); try reflexivity.
  destruct (negb (is_unicast_mac a0)); try reflexivity.
  destruct (ether_type s) as [et| | |]; cbn [bind]; try reflexivity.
  destruct (et <? 1536); try reflexivity.
  unfold ethertype_rows, lookup_row.
  repeat (match goal with |- context [et =? ?k] => destruct (et =? k) end; try reflexivity).
Qed.

(* ---------- slice facts ---------- *)
Lemma cap_mk a n : cap (mkSlice a n) = List.length a.
Proof. reflexivity. Qed.

Ltac sl_norm := unfold wf, cap in *; cbn [arr len] in *; rewrite ?skipn_length in *.

Lemma safe_bind {A B} (r : res A) (f : A -> res B) :
  safe r -> (forall a, r = Ok a -> safe (f a)) -> safe (bind r f).
Proof.
  intros [H1 H2] H. destruct r; cbn [bind]; try (split; discriminate); try congruence.
  apply H; reflexivity.
Qed.

Lemma payload_view_pos s f :
  (0 < f_offP f)%nat -> (f_offP f <= len s)%nat ->
  payload_view s f = Ok (mkSlice (skipn (f_offP f) (arr s)) (len s - f_offP f)).
Proof.
  intros H0 H1. unfold payload_view, frame_payload, acc_at.
  destruct (Nat.eqb_spec (f_offP f) 0); [lia|].
  rewrite slfrom_ok by lia. reflexivity.
Qed.

Ltac rd := first
  [ rewrite idx_ok by (sl_norm; lia)
  | rewrite be16_at_ok by (sl_norm; lia)
  | rewrite sl_ok by (sl_norm; lia)
  | rewrite slfrom_ok by (sl_norm; lia) ].

Lemma parse_proto_safe fx s f proto :
  wf s -> (0 < f_offP f)%nat -> (f_offP f <= len s)%nat -> safe (parse_proto fx s f proto).
Proof.
  intros Hwf H0 H1. rewrite parse_proto_chain_eq. unfold parse_proto_chain.
  repeat match goal with |- context [if ?c then _ else _] => destruct c end;
  try apply safe_Ok;
  (rewrite payload_view_pos by (cbn; lia)); cbn [bind];
  unfold udp_is_valid, tcp_is_valid, icmp_is_valid, src_port, dst_port, icmp_type, echo_id; cbn [len f_offP set_id];
  repeat match goal with |- context [if Nat.leb ?a ?b then _ else _] => destruct (Nat.leb_spec a b) end;
  cbn [bind]; try apply safe_Err; repeat (rd; cbn [bind]);
  repeat match goal with |- context [if ?c then _ else _] => destruct c end; cbn [bind]; repeat (rd; cbn [bind]); try apply safe_Ok; try apply safe_Err.
all: destruct (udp_class _ _); apply safe_Ok.
Qed.

Ltac dleb := repeat match goal with |- context [if Nat.leb ?a ?b then _ else _] => destruct (Nat.leb_spec a b) end.

(* [if c && Nat.leb a b then _ else _]: split, keep both conjuncts (the second as a Prop) *)
Ltac dcond :=
  match goal with |- context [if ?c && Nat.leb ?a ?b then _ else _] =>
    let E := fresh "E" in let Ea := fresh "Ea" in
    destruct (c && Nat.leb a b) eqn:E;
    [apply Bool.andb_true_iff in E; destruct E as [Ea E]; apply Nat.leb_le in E|] end.

Lemma parse_ip4_safe c s f :
  wf s -> f_offP f = 14%nat -> (14 <= len s)%nat -> safe (parse_ip4 c s f).
Proof.
  intros Hwf H0 H1. unfold parse_ip4.
  rewrite payload_view_pos by (cbn; lia). cbn [bind f_offP set_id]. rewrite H0.
  unfold ip4_is_valid, ip4_ihl, ip4_totallen, ip4_protocol, ip4_src, ip4_dst, bytes_at. cbn [len].
  destruct (Nat.leb_spec 20 (len s - 14)); cbn [bind]; [|apply safe_Err].
  repeat (rd; cbn [bind]).
  dcond; cbn [bind]; [|apply safe_Err].
  repeat (rd; cbn [bind]).
  dcond; cbn [bind]; [|apply safe_Err].
  repeat (rd; cbn [bind]).
  apply parse_proto_safe; cbn [f_offP]; try assumption; lia.
Qed.

Lemma parse_ip6_safe c s f :
  wf s -> f_offP f = 14%nat -> (14 <= len s)%nat -> safe (parse_ip6 c s f).
Proof.
  intros Hwf H0 H1. unfold parse_ip6.
  rewrite payload_view_pos by (cbn; lia). cbn [bind f_offP set_id]. rewrite H0.
  unfold ip6_is_valid, ip6_next_header, ip6_src, ip6_dst, bytes_at. cbn [len].
  destruct (Nat.leb_spec 40 (len s - 14)); cbn [bind]; [|apply safe_Err].
  repeat (rd; cbn [bind]).
  match goal with |- context [if ?c then _ else _] => destruct c end; cbn [bind]; [|apply safe_Err].
  repeat (rd; cbn [bind]).
  apply parse_proto_safe; cbn [f_offP]; try assumption; lia.
Qed.

Lemma parse_leaf_safe s f id : wf s -> (14 <= len s)%nat -> safe (parse_leaf s f id).
Proof.
  intros Hwf H. unfold parse_leaf, ether_header_len, ether_type. rd. cbn [bind]. apply safe_Ok.
Qed.

Lemma nth_skipn_add {A} (l : list A) a i d : nth i (skipn a l) d = nth (a + i) l d.
Proof.
  revert l. induction a as [|a IH]; intros l; [reflexivity|].
  destruct l as [|x xs]; [destruct i; reflexivity|]. cbn [skipn Nat.add nth]. apply IH.
Qed.

Lemma parse_arp_safe c s f :
  wf s -> f_offP f = 14%nat -> (14 <= len s)%nat -> safe (parse_arp c s f).
Proof.
  intros Hwf H0 H1. unfold parse_arp.
  rewrite payload_view_pos by (cbn; lia). cbn [bind f_offP set_id]. rewrite H0.
  cbn [len]. unfold bytes_at.
  destruct (Nat.ltb_spec (len s - 14) 28) as [Hlt|Hge]; cbn [bind]; [apply safe_Err|].
  repeat (rd; cbn [bind]).
  match goal with |- context [if ?c then _ else _] => destruct c end; [apply safe_Err|].
  repeat (rd; cbn [bind]). destruct (gate4 _ _ _); cbn [bind]; repeat (rd; cbn [bind]); apply safe_Ok.
Qed.

Theorem parse_no_panic c s : wf s -> safe (parse c s).
Proof.
  intros Hwf. rewrite parse_chain_eq. unfold parse_chain, ether_is_valid.
  destruct (Nat.leb_spec 14 (len s)) as [Hlen|Hlen]; cbn [bind]; [|apply safe_Err].
  unfold ether_src, ether_dst, ether_header_len, ether_type, bytes_at.
  repeat (rd; cbn [bind]). change (12 + 1)%nat with 13%nat.
  set (et := be16 (nth 12 (arr s) 0) (nth 13 (arr s) 0)) in *.
  match goal with |- context [if Nat.ltb ?a ?b then _ else _] => destruct (Nat.ltb_spec a b) end; [apply safe_Err|].
  destruct (is_unicast_mac _) eqn:Hu; cbn [negb]; [|apply safe_Ok].
  destruct (et <? 1536); [apply safe_Ok|].
  destruct (N.eqb_spec et 2048) as [E1|E1].
  { apply parse_ip4_safe; auto. }
  destruct (N.eqb_spec et 34525) as [E2|E2].
  { apply parse_ip6_safe; auto. }
  destruct (N.eqb_spec et 2054) as [E3|E3].
  { apply parse_arp_safe; auto. }
  repeat match goal with |- context [if ?c then _ else _] => destruct c end;
    try apply safe_Ok; apply parse_leaf_safe; auto.
Qed.

(* standard configuration; validators as they were before the VIEWS repairs / after them *)
Definition fx_old : fixes := mkFixes false false false.
Definition fx_new : fixes := mkFixes true true true.
Definition cfg0 : cfg := mkCfg [0;85;85;85;85;85] [0;102;102;102;102;102] [192;168;0;0] 24 fx_old.
Definition cfg1 : cfg := mkCfg [0;85;85;85;85;85] [0;102;102;102;102;102] [192;168;0;0] 24 fx_new.

(* 19-byte ARP frame (hardware length 6): arp[14:18] beyond the capacity *)
Definition w_arp19 : bytes := (repeat 0 12 ++ [8;6] ++ [0;1;8;0;6])%list.
(* 14-byte ARP frame: arp[4] on an empty body *)
Definition w_arp14 : bytes := (repeat 0 12 ++ [8;6])%list.

(* the inputs that refuted the property before the repair now return an error *)
Example parse_arp19_fixed : parse cfg0 (of_bytes w_arp19) = Err EParseFrame.
Proof. vm_compute. reflexivity. Qed.
Example parse_arp14_fixed : parse cfg0 (of_bytes w_arp14) = Err EParseFrame.
Proof. vm_compute. reflexivity. Qed.

Definition ex_arp28 : bytes :=
  ([255;255;255;255;255;255; 2;17;17;17;17;17; 8;6] ++
  [0;1;8;0;6;4;0;1; 2;17;17;17;17;17; 192;168;0;7; 0;0;0;0;0;0; 192;168;0;1])%list.
Example parse_no_panic_nonvacuous :
  wf (of_bytes ex_arp28) /\
  exists f, parse cfg0 (of_bytes ex_arp28) = Ok f /\ f_id f = PayloadARP /\
            f_host f = Some ([2;17;17;17;17;17], [192;168;0;7]).
Proof.
  split; [vm_compute; lia|].
  eexists. split; [vm_compute; reflexivity|]. split; reflexivity.
Qed.

(* 31-byte ARP frame (17-byte body, hlen 6): before the repair the sender address was completed from the
   spare capacity; now an error whatever the capacity *)
Definition w_arp31 : bytes :=
  ([255;255;255;255;255;255; 2;17;17;17;17;17; 8;6] ++
  [0;1;8;0;6;4;0;1; 2;34;34;34;34;34; 192;168;0])%list.
Example parse_arp31_fixed :
  parse cfg0 (of_bytes_cap w_arp31 [1]) = Err EParseFrame /\ parse cfg0 (of_bytes w_arp31) = Err EParseFrame.
Proof. split; vm_compute; reflexivity. Qed.

(* 16-byte 802.1Q frame: before the repair nil error and Frame.Payload() panicked; now ErrFrameLen *)
Definition w_vlan16 : bytes := (repeat 0 12 ++ [129;0] ++ [0;1])%list.
Example parse_vlan16_fixed : parse cfg0 (of_bytes w_vlan16) = Err EFrameLen.
Proof. vm_compute. reflexivity. Qed.
