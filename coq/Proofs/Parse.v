(* Proofs/Parse.v — proofs about the Session.Parse model (Model/Parse.v): totality outside the
   recorded ARP class, the refutation witnesses of C01, and the slice facts later files use. *)
From PV Require Import Base.Prelude Base.Slice Model.Parse Spec.RFC Model.ParseKnown.
Open Scope N_scope.
Open Scope res_scope.

(* ---------- slice facts ---------- *)
Lemma cap_mk a n : cap (mkSlice a n) = List.length a.
Proof. reflexivity. Qed.

Ltac sl_norm := unfold wf, cap in *; cbn [arr len] in *; rewrite ?skipn_length in *.

Lemma safe_bind {A B} (r : res A) (f : A -> res B) :
  safe r -> (forall a, r = Ok a -> safe (f a)) -> safe (bind r f).
Proof.
  intros [H1 H2] H. destruct r; cbn [bind]; try (split; discriminate); try congruence.
  apply H; reflexivity.
Qed.

Lemma payload_view_pos s f :
  (0 < f_offP f)%nat -> (f_offP f <= len s)%nat ->
  payload_view s f = Ok (mkSlice (skipn (f_offP f) (arr s)) (len s - f_offP f)).
Proof.
  intros H0 H1. unfold payload_view, frame_payload, acc_at.
  destruct (Nat.eqb_spec (f_offP f) 0); [lia|].
  rewrite slfrom_ok by lia. reflexivity.
Qed.

Ltac rd := first
  [ rewrite idx_ok by (sl_norm; lia)
  | rewrite be16_at_ok by (sl_norm; lia)
  | rewrite sl_ok by (sl_norm; lia)
  | rewrite slfrom_ok by (sl_norm; lia) ].

Lemma parse_proto_safe s f proto :
  wf s -> (0 < f_offP f)%nat -> (f_offP f <= len s)%nat -> safe (parse_proto s f proto).
Proof.
  intros Hwf H0 H1. unfold parse_proto.
  repeat match goal with |- context [if ?c then _ else _] => destruct c end;
  try apply safe_Ok;
  (rewrite payload_view_pos by (cbn; lia)); cbn [bind];
  unfold udp_is_valid, tcp_is_valid, icmp_is_valid, src_port, dst_port, icmp_type, echo_id; cbn [len f_offP set_id];
  repeat match goal with |- context [if Nat.leb ?a ?b then _ else _] => destruct (Nat.leb_spec a b) end;
  cbn [bind]; try apply safe_Err; repeat (rd; cbn [bind]);
  repeat match goal with |- context [if ?c then _ else _] => destruct c end; cbn [bind]; repeat (rd; cbn [bind]); try apply safe_Ok; try apply safe_Err.
all: destruct (udp_class _ _); apply safe_Ok.
Qed.

Ltac dleb := repeat match goal with |- context [if Nat.leb ?a ?b then _ else _] => destruct (Nat.leb_spec a b) end.

Lemma parse_ip4_safe c s f :
  wf s -> f_offP f = 14%nat -> (14 <= len s)%nat -> safe (parse_ip4 c s f).
Proof.
  intros Hwf H0 H1. unfold parse_ip4.
  rewrite payload_view_pos by (cbn; lia). cbn [bind f_offP set_id]. rewrite H0.
  unfold ip4_is_valid, ip4_ihl, ip4_totallen, ip4_protocol, ip4_src, ip4_dst, bytes_at. cbn [len].
  destruct (Nat.leb_spec 20 (len s - 14)); cbn [bind]; [|apply safe_Err].
  repeat (rd; cbn [bind]).
  match goal with |- context [if Nat.leb ?a ?b then _ else _] => destruct (Nat.leb_spec a b) end; cbn [bind]; [|apply safe_Err].
  repeat (rd; cbn [bind]).
  match goal with |- context [if Nat.leb ?a ?b then _ else _] => destruct (Nat.leb_spec a b) end; cbn [bind]; [|apply safe_Err].
  repeat (rd; cbn [bind]).
  apply parse_proto_safe; cbn [f_offP]; try assumption; lia.
Qed.

Lemma parse_ip6_safe c s f :
  wf s -> f_offP f = 14%nat -> (14 <= len s)%nat -> safe (parse_ip6 c s f).
Proof.
  intros Hwf H0 H1. unfold parse_ip6.
  rewrite payload_view_pos by (cbn; lia). cbn [bind f_offP set_id]. rewrite H0.
  unfold ip6_is_valid, ip6_next_header, ip6_src, ip6_dst, bytes_at. cbn [len].
  destruct (Nat.leb_spec 40 (len s - 14)); cbn [bind]; [|apply safe_Err].
  repeat (rd; cbn [bind]).
  match goal with |- context [if ?c then _ else _] => destruct c end; cbn [bind]; [|apply safe_Err].
  repeat (rd; cbn [bind]).
  apply parse_proto_safe; cbn [f_offP]; try assumption; lia.
Qed.

Lemma parse_leaf_safe s f id : wf s -> (14 <= len s)%nat -> safe (parse_leaf s f id).
Proof.
  intros Hwf H. unfold parse_leaf, ether_header_len, ether_type. rd. cbn [bind]. apply safe_Ok.
Qed.

Lemma nth_skipn_add {A} (l : list A) a i d : nth i (skipn a l) d = nth (a + i) l d.
Proof.
  revert l. induction a as [|a IH]; intros l; [reflexivity|].
  destruct l as [|x xs]; [destruct i; reflexivity|]. cbn [skipn Nat.add nth]. apply IH.
Qed.

Definition arp_ok (s : slice) : Prop :=
  (18 <= len s - 14)%nat \/ ((5 <= len s - 14)%nat /\ nth 18 (arr s) 0 <> 6).

Lemma parse_arp_safe c s f :
  wf s -> f_offP f = 14%nat -> (14 <= len s)%nat -> arp_ok s -> safe (parse_arp c s f).
Proof.
  intros Hwf H0 H1 Hk. unfold parse_arp.
  rewrite payload_view_pos by (cbn; lia). cbn [bind f_offP set_id]. rewrite H0.
  cbn [len]. unfold bytes_at.
  destruct (Nat.ltb_spec (len s - 14) 28) as [Hlt|Hge]; cbn [bind].
  - rewrite idx_ok by (cbn [len]; destruct Hk as [?|[? _]]; lia). cbn [bind arr].
    rewrite nth_skipn_add. change (14 + 4)%nat with 18%nat.
    destruct (N.eqb_spec (nth 18 (arr s) 0) 6) as [E|E]; cbn [negb]; [|apply safe_Err].
    destruct Hk as [Hk|[_ Hk]]; [|congruence].
    repeat (rd; cbn [bind]). destruct (gate4 _ _ _); cbn [bind]; repeat (rd; cbn [bind]); apply safe_Ok.
  - repeat (rd; cbn [bind]). destruct (gate4 _ _ _); cbn [bind]; repeat (rd; cbn [bind]); apply safe_Ok.
Qed.

Lemma known_arp_ok s :
  wf s -> (14 <= len s)%nat ->
  is_unicast_mac (view (mkSlice (skipn 6 (arr s)) 6)) = true ->
  be16 (nth 12 (arr s) 0) (nth 13 (arr s) 0) = 2054 ->
  k_arp_unsafe (view s) = false -> arp_ok s.
Proof.
  intros Hwf Hlen Hu Het Hk. unfold arp_ok.
  unfold k_arp_unsafe, k_arp_trunc in Hk.
  rewrite (view_length s Hwf) in Hk.
  unfold word_at, byte_at in Hk.
  rewrite !view_nth in Hk by lia.
  change (12 + 1)%nat with 13%nat in Hk. rewrite Het in Hk.
  assert (Hu' : negb (N.odd (nth 6 (arr s) 0)) = true).
  { unfold is_unicast_mac, view in Hu. cbn [arr len] in Hu.
    assert (E : nth 0 (firstn 6 (skipn 6 (arr s))) 0 = nth 6 (arr s) 0).
    { unfold wf, cap in Hwf. destruct (arr s) as [|a0 [|a1 [|a2 [|a3 [|a4 [|a5 [|a6 r]]]]]]]; cbn in *; try lia; reflexivity. }
    rewrite E in Hu. clear E.
    destruct (N.eqb_spec (N.land (nth 6 (arr s) 0) 1) 0) as [E|E]; [|discriminate].
    change 1 with (N.ones 1) in E. rewrite N.land_ones in E. change (2^1) with 2 in E.
    rewrite <- N.bit0_mod in E. rewrite N.bit0_odd in E.
    destruct (N.odd (nth 6 (arr s) 0)); [discriminate|reflexivity]. }
  rewrite Hu' in Hk.
  destruct (Nat.lt_ge_cases (len s - 14) 18) as [Hs|Hs]; [|left; lia]. right.
  destruct (Nat.leb_spec 14 (len s)); [|lia].
  change (2054 =? 2054) with true in Hk. cbn [andb] in Hk.
  destruct (Nat.ltb_spec (len s - 14) 28); [|lia]. cbn [andb] in Hk.
  destruct (Nat.ltb_spec (len s - 14) 18); [|lia]. rewrite Bool.andb_true_r in Hk.
  apply Bool.orb_false_iff in Hk. destruct Hk as [Ha Hb].
  destruct (Nat.leb_spec (len s - 14) 4); [discriminate|].
  split; [lia|]. destruct (Nat.lt_ge_cases 18 (len s)).
  - rewrite view_nth in Hb by lia. destruct (N.eqb_spec (nth 18 (arr s) 0) 6); [discriminate|assumption].
  - lia.
Qed.

Theorem parse_no_panic_partial c s :
  wf s -> k_arp_unsafe (view s) = false -> safe (parse c s).
Proof.
  intros Hwf Hk. unfold parse, ether_is_valid.
  destruct (Nat.leb_spec 14 (len s)) as [Hlen|Hlen]; cbn [bind]; [|apply safe_Err].
  unfold ether_src, ether_dst, ether_header_len, ether_type, bytes_at.
  repeat (rd; cbn [bind]). change (12 + 1)%nat with 13%nat.
  set (et := be16 (nth 12 (arr s) 0) (nth 13 (arr s) 0)) in *.
  destruct (is_unicast_mac _) eqn:Hu; cbn [negb]; [|apply safe_Ok].
  destruct (et <? 1536); [apply safe_Ok|].
  destruct (N.eqb_spec et 2048) as [E1|E1].
  { apply parse_ip4_safe; auto. }
  destruct (N.eqb_spec et 34525) as [E2|E2].
  { apply parse_ip6_safe; auto. }
  destruct (N.eqb_spec et 2054) as [E3|E3].
  { apply parse_arp_safe; auto. apply known_arp_ok; auto. }
  repeat match goal with |- context [if ?c then _ else _] => destruct c end;
    try apply safe_Ok; apply parse_leaf_safe; auto.
Qed.

Definition cfg0 : cfg := mkCfg [0;85;85;85;85;85] [0;102;102;102;102;102] [192;168;0;0] 24.

(* 19-byte ARP frame (hardware length 6): arp[14:18] beyond the capacity *)
Definition w_arp19 : bytes := (repeat 0 12 ++ [8;6] ++ [0;1;8;0;6])%list.
(* 14-byte ARP frame: arp[4] on an empty body *)
Definition w_arp14 : bytes := (repeat 0 12 ++ [8;6])%list.

Lemma parse_no_panic_refuted :
  exists c s, wf s /\ bytes_ok (arr s) /\ parse c s = Panic.
Proof.
  exists cfg0, (of_bytes w_arp19). split; [|split].
  - vm_compute. lia.
  - apply bytes_okb_spec. vm_compute. reflexivity.
  - vm_compute. reflexivity.
Qed.

Lemma parse_no_panic_refuted_14 :
  exists c s, wf s /\ bytes_ok (arr s) /\ parse c s = Panic.
Proof.
  exists cfg0, (of_bytes w_arp14). split; [|split].
  - vm_compute. lia.
  - apply bytes_okb_spec. vm_compute. reflexivity.
  - vm_compute. reflexivity.
Qed.

(* the witnesses lie in the recorded class, a well-formed ARP request does not *)
Example w_arp19_known : k_arp_unsafe w_arp19 = true.
Proof. vm_compute. reflexivity. Qed.

Definition ex_arp28 : bytes :=
  ([255;255;255;255;255;255; 2;17;17;17;17;17; 8;6] ++
  [0;1;8;0;6;4;0;1; 2;17;17;17;17;17; 192;168;0;7; 0;0;0;0;0;0; 192;168;0;1])%list.
Example parse_no_panic_nonvacuous :
  wf (of_bytes ex_arp28) /\ k_arp_unsafe (view (of_bytes ex_arp28)) = false /\
  exists f, parse cfg0 (of_bytes ex_arp28) = Ok f /\ f_id f = PayloadARP /\
            f_host f = Some ([2;17;17;17;17;17], [192;168;0;7]).
Proof.
  split; [vm_compute; lia|]. split; [vm_compute; reflexivity|].
  eexists. split; [vm_compute; reflexivity|]. split; reflexivity.
Qed.

(* spare capacity changes the result: 31-byte ARP frame (17-byte body, hlen 6) whose sender
   address 192.168.0.x is completed by the first spare byte *)
Definition w_arp31 : bytes :=
  ([255;255;255;255;255;255; 2;17;17;17;17;17; 8;6] ++
  [0;1;8;0;6;4;0;1; 2;34;34;34;34;34; 192;168;0])%list.
Lemma parse_len_only_refuted :
  exists c s s', wf s /\ wf s' /\ len s = len s' /\ view s = view s' /\ parse c s <> parse c s'.
Proof.
  exists cfg0, (of_bytes_cap w_arp31 [1]), (of_bytes_cap w_arp31 [2]).
  repeat split; try (vm_compute; lia); try reflexivity.
  vm_compute. discriminate.
Qed.
Lemma parse_len_only_refuted_panic :
  exists c s s', wf s /\ wf s' /\ view s = view s' /\ parse c s = Panic /\ is_ok (parse c s') = true.
Proof.
  exists cfg0, (of_bytes w_arp31), (of_bytes_cap w_arp31 [2]).
  repeat split; try (vm_compute; lia); try reflexivity.
Qed.

(* 16-byte 802.1Q frame: Parse returns nil, Frame.Payload() panics *)
Definition w_vlan16 : bytes := (repeat 0 12 ++ [129;0] ++ [0;1])%list.
Lemma frame_accessors_safe_refuted :
  exists c s f, wf s /\ bytes_ok (arr s) /\ parse c s = Ok f /\ frame_payload s f = Panic.
Proof.
  exists cfg0, (of_bytes w_vlan16). eexists. split; [|split;[|split]].
  - vm_compute. lia.
  - apply bytes_okb_spec. vm_compute. reflexivity.
  - vm_compute. reflexivity.
  - vm_compute. reflexivity.
Qed.
Example w_vlan16_known : k_vlan_short w_vlan16 = true.
Proof. vm_compute. reflexivity. Qed.
