(* Proofs/Icmp6SpoofGlue.v — glue between the C14 event system and the other clusters' models of
   the same Go functions.
   Part 1 (SEND): the forged neighbour advertisement that the event system emits as a RECORD is, as
   BYTES on the wire (SEND's model of ICMP6SendNeighborAdvertisement / icmp6SendPacket, any previous
   contents of the pooled buffer), a frame that SEND's independent reference decoder reads back as
   exactly that record. *)
From PV Require Import Base.Prelude Model.Icmp6SpoofRA Model.Icmp6Spoof Proofs.Icmp6SpoofRA Proofs.Icmp6Spoof.
From PV Require Model.SendBase Model.Send Spec.SendRef Proofs.SendBase Proofs.Send.
Open Scope N_scope.

Module S := PV.Model.SendBase.
Module SS := PV.Model.Send.
Module R := PV.Spec.SendRef.
Module PB := PV.Proofs.SendBase.

(* the NICInfo fields the NA path reads are the two of the C14 configuration *)
Definition send_cfg (c : config) : S.cfg := S.mkCfg (host_mac c) [] (host_lla c) [] [] 0.

Definition na_flags (n : na) : N :=
  (if na_router n then 128 else 0) + (if na_solicited n then 64 else 0) + (if na_override n then 32 else 0).

(* what SEND's reference decoder must read back from the frame: Ethernet destination and source,
   IPv6 source and destination, hop limit 255, type 136 code 0, the
   R/S/O flag octet, the target address, exactly one target link-layer address option, valid checksum *)
Definition on_wire (n : na) (fr : bytes) : bool :=
  R.wf_na (na_eth_src n) (na_eth_dst n) (na_ip_src n) (na_ip_dst n) (na_flags n) (na_target n) (na_tlla n) fr.

(* spoofLoop: fakeRouter = {host MAC, router IP}, dstAddr, targetAddr = {host MAC, router IP} *)
Theorem forged_on_wire c dst rip junk :
  PB.mac_ok (host_mac c) -> PB.mac_ok (a_mac dst) -> PB.ip6_ok (a_ip dst) -> PB.ip6_ok rip ->
  List.length junk = S.EthMaxSize ->
  exists fr, SS.send_na (send_cfg c) (host_mac c, rip) (a_mac dst, a_ip dst) (host_mac c, rip) junk = Ok [fr] /\
    on_wire (forge c dst rip) fr = true.
Proof.
  intros H1 H2 H3 H4 HJ.
  destruct (PV.Proofs.Send.na_wf (send_cfg c) (host_mac c) rip (a_mac dst) (a_ip dst) (host_mac c) rip junk H1 H2 H4 H3 H1 H4 HJ)
    as [fr [Hs Hw]].
  exists fr. split; [exact Hs|]. unfold on_wire, forge, na_flags. cbn [na_eth_src na_eth_dst na_ip_src na_ip_dst na_target na_tlla
    na_router na_solicited na_override]. exact Hw.
Qed.

(* link-local destinations in the sense of the two models and of SEND's spec *)
Lemma llu_bytes b0 b1 : b0 < 256 -> b1 < 256 ->
  (N.land (be16 b0 b1) 65472 =? 65152) = ((b0 =? 254) && (b1 / 64 =? 2)).
Proof.
  intros H0 H1.
  assert (H : forallb (fun b0 => forallb (fun b1 => Bool.eqb (N.land (be16 b0 b1) 65472 =? 65152) ((b0 =? 254) && (b1 / 64 =? 2))) bytes256) bytes256 = true)
    by (vm_compute; reflexivity).
  rewrite forallb_forall in H.
  assert (Hin : In b0 bytes256) by (unfold bytes256; apply in_map_iff; exists (N.to_nat b0); split; [lia|apply in_seq; lia]).
  specialize (H b0 Hin). apply (byte_sweep _ H) in H1. apply Bool.eqb_prop in H1. exact H1.
Qed.
Lemma llm_bytes b0 b1 : b0 < 256 -> b1 < 256 ->
  (N.land (be16 b0 b1) 65295 =? 65282) = ((b0 =? 255) && (b1 mod 16 =? 2)).
Proof.
  intros H0 H1.
  assert (H : forallb (fun b0 => forallb (fun b1 => Bool.eqb (N.land (be16 b0 b1) 65295 =? 65282) ((b0 =? 255) && (b1 mod 16 =? 2))) bytes256) bytes256 = true)
    by (vm_compute; reflexivity).
  rewrite forallb_forall in H.
  assert (Hin : In b0 bytes256) by (unfold bytes256; apply in_map_iff; exists (N.to_nat b0); split; [lia|apply in_seq; lia]).
  specialize (H b0 Hin). apply (byte_sweep _ H) in H1. apply Bool.eqb_prop in H1. exact H1.
Qed.

(* a destination accepted by StartHunt (fe80::/10) or substituted by spoofLoop (ff02::1) is link-local
   for SEND's spec as well, so the decoded hop limit is 255 *)
Lemma dst_linklocal ip : PB.ip6_ok ip -> is4in6 ip = false -> is_llu ip || is_llm ip = true ->
  R.ip6_is_linklocal ip = true.
Proof.
  intros [Hl Hok] H46 H. unfold is_llu, is_llm in H. rewrite H46 in H.
  assert (H4 : Icmp6Spoof.is4 ip = false) by (unfold Icmp6Spoof.is4; rewrite Hl; reflexivity).
  assert (H6 : Icmp6Spoof.is6 ip = true) by (unfold Icmp6Spoof.is6; rewrite Hl; reflexivity).
  rewrite H4, H6 in H. unfold be16_at, at_ in H.
  pose proof (bytes_ok_nth ip 0 Hok) as B0. pose proof (bytes_ok_nth ip 1 Hok) as B1.
  cbn [Nat.add] in H. rewrite llu_bytes, llm_bytes in H by assumption.
  unfold R.ip6_is_linklocal. exact H.
Qed.

Lemma beq_eq a b : R.beq a b = true -> a = b.
Proof.
  revert b; induction a as [|x a IH]; intros [|y b] H; cbn in H; try discriminate; [reflexivity|].
  apply andb_true_iff in H as [H1 H2]. apply N.eqb_eq in H1. subst. f_equal. auto.
Qed.

(* reading the hop limit and the Ethernet destination off the decoded frame *)
Lemma on_wire_fields n fr : on_wire n fr = true ->
  match R.ref_decode fr with
  | Some (R.mkFrame d s et (R.L3Ip6 _ nh hop a b (R.L4Icmp typ code rest))) =>
      d = na_eth_dst n /\ s = na_eth_src n /\ a = na_ip_src n /\ b = na_ip_dst n /\
      typ = 136 /\ nth 0 rest 0 = na_flags n /\ PV.Base.Prelude.sub rest 4 16 = na_target n /\
      hop = 255
  | _ => False
  end.
Proof.
  unfold on_wire, R.wf_na. destruct (R.ref_decode fr) as [[d s et l3]|]; [|discriminate].
  destruct l3 as [| |tc nh hop a b l4]; try discriminate. destruct l4 as [typ code rest| |]; try discriminate.
  intros H. repeat (apply andb_true_iff in H; destruct H as [H ?]).
  repeat match goal with
  | Hb : R.beq _ _ = true |- _ => apply beq_eq in Hb
  | Hb : (_ =? _) = true |- _ => apply N.eqb_eq in Hb
  end. subst.
  repeat split; auto.
  match goal with Hh : R.nd_hop_ok _ = true |- _ => unfold R.nd_hop_ok in Hh; apply N.eqb_eq in Hh; exact Hh end.
Qed.

(* C14_confined on the wire: the advertisement a Send step emits (any history), written by SEND's
   byte-level model into any pooled buffer, decodes to: Ethernet destination = the loop's (hunted)
   MAC, source = our MAC, target = the learned router's address, flags = override only, TLLA = our
   MAC (inside on_wire), hop limit 255 *)
Theorem sent_on_wire c st i lp ip rest junk :
  nth_error (loops st) i = Some lp -> l_pending lp = ip :: rest ->
  PB.mac_ok (host_mac c) -> PB.mac_ok (a_mac (l_dst lp)) -> PB.ip6_ok (a_ip (l_dst lp)) -> PB.ip6_ok ip ->
  List.length junk = S.EthMaxSize ->
  exists n fr, snd (step c st (Send i)) = ONAs [n] /\
    SS.send_na (send_cfg c) (na_eth_src n, na_ip_src n) (na_eth_dst n, na_ip_dst n) (na_tlla n, na_target n) junk = Ok [fr] /\
    on_wire n fr = true /\ na_eth_dst n = a_mac (l_dst lp) /\ na_target n = ip /\ na_flags n = 32.
Proof.
  intros En Ep H1 H2 H3 H4 HJ.
  destruct (forged_on_wire c (l_dst lp) ip junk H1 H2 H3 H4 HJ) as [fr [Hs Hw]].
  exists (forge c (l_dst lp) ip), fr. cbn [step]. unfold send. rewrite En, Ep. cbn [snd].
  split; [reflexivity|]. split; [exact Hs|]. split; [exact Hw|]. repeat split; reflexivity.
Qed.
