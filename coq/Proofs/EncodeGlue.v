(* Proofs/EncodeGlue.v — C03/C07 glue: the encoding steps of the send-path model (Model/Send*.v,
   owned by SEND: in-place writes at an offset of a 1522-byte pooled buffer with arbitrary junk)
   produce exactly the bytes of the C03 encoder model (Model/Encode.v: Go slices with length,
   capacity and panic rules) applied to the sub-slice at that offset.  Hence every C03 round-trip
   theorem applies verbatim to the frames C07 talks about. *)
From PV Require Import Base.Prelude Base.Slice Model.EncodeBase Model.Encode Model.Checksum Proofs.EncodeLemmas
     Proofs.Encode Proofs.EncodeMisc Proofs.EncodeRound3.
From PV Require Model.SendBase Model.Send Model.SendUdp Model.SendNdp.
Open Scope N_scope.
Ltac blia := unfold bytes, byte in *; lia.

(* the sub-slice b[o:] of a buffer whose length is its capacity *)
Definition at_off (o : nat) (b : bytes) : slice := mkSlice (skipn o b) (length b - o).
(* b[o:o+n] with the capacity reaching the end of the buffer (EncodeIP4's result, udp header, ...) *)
Definition at_off_len (o n : nat) (b : bytes) : slice := mkSlice (skipn o b) n.

(* ---- pushing a write at offset o + k through the prefix of length o ---- *)
Lemma set_nth_pre (pre X : bytes) o k v : length pre = o -> set_nth (o + k) v (pre ++ X) = pre ++ set_nth k v X.
Proof. intros <-. induction pre as [|x pre IH]; cbn; auto. f_equal. apply IH. Qed.
Lemma blit_pre (pre X : bytes) o k src : length pre = o -> blit (o + k) src (pre ++ X) = pre ++ blit k src X.
Proof. intros <-. apply blit_app_r. Qed.
Lemma put16_pre (pre X : bytes) o k v : length pre = o ->
  SendBase.put16 (o + k) v (pre ++ X) = pre ++ SendBase.put16 k v X.
Proof.
  intros H. unfold SendBase.put16. rewrite plus_n_Sm. rewrite !set_nth_pre by exact H. reflexivity.
Qed.
Lemma cpy_pre (pre X : bytes) o k n src : length pre = o ->
  SendBase.cpy (o + k) n src (pre ++ X) = pre ++ SendBase.cpy k n src X.
Proof. intros H. unfold SendBase.cpy. apply blit_pre. exact H. Qed.

Ltac push_pre Hp := repeat first [rewrite set_nth_pre by exact Hp | rewrite put16_pre by exact Hp | rewrite cpy_pre by exact Hp | rewrite blit_pre by exact Hp].
Ltac norm0 o := replace o with (o + 0)%nat by apply Nat.add_0_r.

(* conditions of the slice-level model, without unfolding list operations *)
Ltac lensw := cbn [len arr cap] in *; unfold cap in *; cbn [len arr] in *;
  repeat first [rewrite set_nth_length in * | rewrite blit_length in * | rewrite skipn_length in *
               | rewrite app_length in * | rewrite repeat_length in *]; blia.
Ltac stepw :=
  repeat (cbn [bind len arr andb];
    match goal with
    | |- context [Nat.ltb ?a ?b] => let H := fresh in destruct (Nat.ltb_spec a b) as [H|H]; [try (exfalso; lensw)|try (exfalso; lensw)]; clear H
    | |- context [Nat.leb ?a ?b] => let H := fresh in destruct (Nat.leb_spec a b) as [H|H]; [try (exfalso; lensw)|try (exfalso; lensw)]; clear H
    end); cbn [bind len arr andb].

(* ================================================================ *)
(* Ethernet header: for all arguments *)
Theorem glue_ether b et src dst :
  (14 <= length b)%nat ->
  exists r, encode_ether (mkSlice b (length b)) et src dst = Ok r /\ len r = 14%nat /\
            arr r = SendBase.enc_ether b et src dst.
Proof.
  intros Hb. eexists. split.
  { unfold encode_ether, reslice, copyto, put16, cap. stepw. reflexivity. }
  split; reflexivity.
Qed.

(* ================================================================ *)
(* IPv4 header at offset o *)
Theorem glue_ip4 o b ttl src dst :
  (o + 20 <= length b)%nat -> ttl < 256 ->
  exists r, encode_ip4 (at_off o b) ttl src dst = Ok r /\ len r = 20%nat /\
            firstn o b ++ arr r = Send.enc_ip4 o b ttl src dst.
Proof.
  intros Hb Httl.
  assert (Hu : u8 ttl = ttl) by (unfold u8; apply N.mod_small; exact Httl).
  eexists. split.
  { unfold encode_ip4, at_off, seti, put16, copyto, reslice, cap. stepw. reflexivity. }
  split; [reflexivity|].
  cbn [arr].
  rewrite <- (firstn_skipn o b) at 3.
  assert (Hp : length (firstn o b) = o) by (rewrite firstn_length; blia).
  generalize dependent (skipn o b). generalize dependent (firstn o b). intros pre Hp X.
  unfold Send.enc_ip4. rewrite Hu.
  norm0 o. rewrite <- ?Nat.add_assoc. cbn [Nat.add].
  push_pre Hp. reflexivity.
Qed.

(* a tactic for the common shape: split the buffer at o and push SEND's writes through the prefix *)
Ltac split_at_off o b Hp pre X :=
  rewrite <- (firstn_skipn o b) at 3;
  assert (Hp : length (firstn o b) = o) by (rewrite firstn_length; blia);
  generalize dependent (skipn o b); generalize dependent (firstn o b); intros pre Hp X.

(* ================================================================ *)
(* IPv6 header at offset o *)
Theorem glue_ip6 o b hop src dst :
  (o + 40 <= length b)%nat -> hop < 256 ->
  exists r, encode_ip6 (at_off o b) hop src dst = Ok (r, false) /\ len r = 40%nat /\
            firstn o b ++ arr r = Send.enc_ip6 o b hop src dst.
Proof.
  intros Hb Hhop.
  assert (Hu : u8 hop = hop) by (unfold u8; apply N.mod_small; exact Hhop).
  eexists. split.
  { unfold encode_ip6, at_off, cap. cbn [arr]. rewrite skipn_length.
    destruct (Nat.ltb_spec (length b - o) 40) as [C|_]; [blia|].
    unfold encode_ip6_on, seti, put16, copyto, reslice, cap. stepw. reflexivity. }
  split; [reflexivity|]. cbn [arr].
  rewrite <- (firstn_skipn o b) at 3.
  assert (Hp : length (firstn o b) = o) by (rewrite firstn_length; blia).
  generalize dependent (skipn o b). generalize dependent (firstn o b). intros pre Hp X.
  unfold Send.enc_ip6. rewrite Hu.
  norm0 o. rewrite <- ?Nat.add_assoc. cbn [Nat.add].
  push_pre Hp. reflexivity.
Qed.

(* ================================================================ *)
(* UDP header at offset o; AppendPayload / SetPayload on it *)
Theorem glue_udp o b sp dp :
  (o + 8 <= length b)%nat ->
  exists r, encode_udp (at_off o b) sp dp = Ok r /\ len r = 8%nat /\
            firstn o b ++ arr r = SendUdp.enc_udp o b sp dp.
Proof.
  intros Hb. eexists. split.
  { unfold encode_udp, at_off, cap. cbn [arr]. rewrite skipn_length.
    destruct (Nat.ltb_spec (length b - o) 8) as [C|_]; [blia|].
    unfold put16, reslice, cap. stepw. reflexivity. }
  split; [reflexivity|]. cbn [arr].
  rewrite <- (firstn_skipn o b) at 3.
  assert (Hp : length (firstn o b) = o) by (rewrite firstn_length; blia).
  generalize dependent (skipn o b). generalize dependent (firstn o b). intros pre Hp X.
  unfold SendUdp.enc_udp.
  norm0 o. rewrite <- ?Nat.add_assoc. cbn [Nat.add].
  push_pre Hp. reflexivity.
Qed.

Theorem glue_udp_append o b payload :
  length b = SendBase.EthMaxSize -> (o + 8 <= length b)%nat ->
  match SendUdp.udp_append_payload o b payload with
  | None => udp_append (at_off_len o 8 b) payload = Err EPayloadTooBig
  | Some b' => exists r, udp_append (at_off_len o 8 b) payload = Ok r /\ len r = (8 + length payload)%nat /\
                         firstn o b ++ arr r = b'
  end.
Proof.
  intros HL Hb. unfold SendUdp.udp_append_payload, udp_append, at_off_len, cap. cbn [arr len].
  rewrite skipn_length, HL.
  replace (SendBase.EthMaxSize - o - 8)%nat with (SendBase.EthMaxSize - o - 8)%nat by reflexivity.
  destruct (Nat.ltb_spec (SendBase.EthMaxSize - o - 8) (length payload)) as [C|C].
  { destruct (Nat.ltb_spec (SendBase.EthMaxSize - o) (8 + length payload)) as [_|C']; [reflexivity|unfold SendBase.EthMaxSize in *; blia]. }
  destruct (Nat.ltb_spec (SendBase.EthMaxSize - o) (8 + length payload)) as [C'|_]; [unfold SendBase.EthMaxSize in *; blia|].
  eexists. split.
  { unfold copyfrom, put16, reslice, cap. stepw. reflexivity. }
  split; [reflexivity|]. cbn [arr].
  rewrite <- (firstn_skipn o b) at 3.
  assert (Hp : length (firstn o b) = o) by (rewrite firstn_length; blia).
  assert (HX : length (skipn o b) = (SendBase.EthMaxSize - o)%nat) by (rewrite skipn_length; blia).
  generalize dependent (skipn o b). generalize dependent (firstn o b). intros pre Hp X HX.
  norm0 o. rewrite <- ?Nat.add_assoc. cbn [Nat.add].
  push_pre Hp. f_equal. unfold SendBase.cpy, SendBase.put16, udp_lenfield.
  rewrite !firstn_all2 by blia. reflexivity.
Qed.

Theorem glue_udp_set_payload o b n :
  (o + 8 + n <= length b)%nat ->
  exists r, udp_set_payload (at_off_len o 8 b) n = Ok r /\ len r = (8 + n)%nat /\
            firstn o b ++ arr r = SendUdp.udp_set_payload o b n.
Proof.
  intros Hb. eexists. split.
  { unfold udp_set_payload, at_off_len, put16, reslice, cap. stepw. reflexivity. }
  split; [reflexivity|]. cbn [arr].
  rewrite <- (firstn_skipn o b) at 3.
  assert (Hp : length (firstn o b) = o) by (rewrite firstn_length; blia).
  generalize dependent (skipn o b). generalize dependent (firstn o b). intros pre Hp X.
  unfold SendUdp.udp_set_payload.
  rewrite <- ?Nat.add_assoc. cbn [Nat.add]. push_pre Hp. reflexivity.
Qed.

(* ================================================================ *)
(* IPv6 AppendPayload / SetPayload on the 40-byte header at offset o *)
Lemma blit_set_nth_comm (l : bytes) off src i v : (i < off)%nat -> blit off src (set_nth i v l) = set_nth i v (blit off src l).
Proof.
  revert off i. induction l as [|x l IH]; intros off i H; [destruct off, i; reflexivity|].
  destruct off as [|off]; [lia|]. destruct i as [|i]; cbn [set_nth blit]; [reflexivity|]. f_equal. apply IH. lia.
Qed.

Theorem glue_ip6_append o b payload nh :
  length b = SendBase.EthMaxSize -> (o + 40 <= length b)%nat -> nh < 256 ->
  match Send.ip6_append_payload o b payload nh with
  | None => ip6_append (at_off_len o 40 b) payload false nh = Err EPayloadTooBig
  | Some b' => exists r, ip6_append (at_off_len o 40 b) payload false nh = Ok r /\
                         len r = (40 + length payload)%nat /\ firstn o b ++ arr r = b'
  end.
Proof.
  intros HL Hb Hnh.
  assert (Hu : u8 nh = nh) by (unfold u8; apply N.mod_small; exact Hnh).
  unfold Send.ip6_append_payload, ip6_append, at_off_len, cap. cbn [arr len orb].
  rewrite skipn_length, HL.
  destruct (Nat.ltb_spec (SendBase.EthMaxSize - o - 40) (length payload)) as [C|C].
  { destruct (Nat.ltb_spec (SendBase.EthMaxSize - o) (40 + length payload)) as [_|C']; [reflexivity|unfold SendBase.EthMaxSize in *; blia]. }
  destruct (Nat.ltb_spec (SendBase.EthMaxSize - o) (40 + length payload)) as [C'|_]; [unfold SendBase.EthMaxSize in *; blia|].
  set (n := length payload) in *.
  assert (Hn : N.of_nat n < 65536) by (unfold SendBase.EthMaxSize in *; lia).
  assert (Eu : u16 (N.of_nat n) = N.of_nat n) by (unfold u16; apply N.mod_small; exact Hn).
  pose proof (firstn_skipn o b) as Hsplit.
  assert (Hp : length (firstn o b) = o) by (rewrite firstn_length; blia).
  assert (HX : (40 + n <= length (skipn o b))%nat) by (rewrite skipn_length; unfold SendBase.EthMaxSize in *; blia).
  set (pre := firstn o b) in *. set (X := skipn o b) in *. clearbody pre X.
  rewrite <- Hsplit. clear Hsplit HL Hb b.
  set (A := set_nth 4 (hi8 (N.of_nat n)) (set_nth (4 + 1) (lo8 (N.of_nat n)) X)).
  assert (LA : length A = length X) by (unfold A; rewrite !set_nth_length; reflexivity).
  assert (E4 : nth 4 A 0 = hi8 (N.of_nat n)) by (unfold A; apply nth_set_nth_eq; rewrite set_nth_length; blia).
  assert (E5 : nth (4 + 1) A 0 = lo8 (N.of_nat n)).
  { unfold A. rewrite nth_set_nth_neq by lia. apply nth_set_nth_eq. blia. }
  eexists. split.
  { unfold reslice, put16, cap. cbn [arr len]. rewrite Eu.
    destruct (Nat.leb_spec (40 + n) (length X)) as [_|C']; [|blia]. cbn [bind arr len].
    destruct (Nat.leb_spec (4 + 2) (length X)) as [_|C']; [|blia]. cbn [bind arr len]. fold A.
    unfold ip6_payloadlen, be16_at, cap. cbn [arr]. rewrite LA.
    destruct (Nat.leb_spec (4 + 2) (length X)) as [_|C']; [|blia]. cbn [bind].
    rewrite E4, E5, be16_hi_lo by exact Hn. rewrite Nat2N.id.
    unfold copyto, seti, cap. cbn [arr len]. rewrite LA.
    destruct (Nat.leb_spec 40 (40 + n)) as [_|C']; [|blia].
    destruct (Nat.leb_spec (40 + n) (length X)) as [_|C']; [|blia]. cbn [andb bind arr len].
    destruct (Nat.ltb_spec 6 (40 + n)) as [_|C']; [|blia]. reflexivity. }
  split; [reflexivity|]. cbn [arr].
  rewrite Hu. rewrite <- ?Nat.add_assoc. cbn [Nat.add].
  push_pre Hp. f_equal. unfold A, SendBase.cpy, SendBase.put16.
  replace (40 + n - 40)%nat with n by blia. rewrite !firstn_all2 by (unfold n; blia).
  rewrite !blit_set_nth_comm by lia. rewrite Eu. reflexivity.
Qed.

Theorem glue_ip6_set_payload o b n nh :
  (o + 40 + n <= length b)%nat -> nh < 256 ->
  exists r, ip6_set_payload (at_off_len o 40 b) n nh = Ok r /\ len r = (40 + n)%nat /\
            firstn o b ++ arr r = Send.ip6_set_payload o b n nh.
Proof.
  intros Hb Hnh.
  assert (Hu : u8 nh = nh) by (unfold u8; apply N.mod_small; exact Hnh).
  eexists. split.
  { unfold ip6_set_payload, at_off_len, put16, seti, reslice, cap. stepw. reflexivity. }
  split; [reflexivity|]. cbn [arr].
  rewrite <- (firstn_skipn o b) at 3.
  assert (Hp : length (firstn o b) = o) by (rewrite firstn_length; blia).
  generalize dependent (skipn o b). generalize dependent (firstn o b). intros pre Hp X.
  unfold Send.ip6_set_payload. rewrite Hu.
  rewrite <- ?Nat.add_assoc. cbn [Nat.add]. push_pre Hp. reflexivity.
Qed.

(* ================================================================ *)
(* IPv4 SetPayload / AppendPayload (with the header checksum) *)
Lemma calc_checksum_prefix (l : bytes) : (20 <= length l)%nat -> ip4_calc_checksum l = ip4_calc_checksum (firstn 20 l).
Proof.
  intros H. unfold ip4_calc_checksum, sub.
  rewrite firstn_firstn. replace (Nat.min 10 20) with 10%nat by reflexivity.
  rewrite skipn_firstn_comm. rewrite firstn_firstn. reflexivity.
Qed.

Lemma send_checksum_pre (pre X : bytes) o : length pre = o -> (20 <= length X)%nat ->
  Send.ip4_write_checksum o (pre ++ X) =
  pre ++ set_nth 10 (u8 (ip4_calc_checksum X)) (set_nth 11 (u8 (N.shiftr (ip4_calc_checksum X) 8)) X).
Proof.
  intros Hp HX. unfold Send.ip4_write_checksum.
  assert (Hs : sub (pre ++ X) o 20 = firstn 20 X) by (unfold sub; rewrite skipn_app_len by exact Hp; reflexivity).
  rewrite Hs, <- calc_checksum_prefix by exact HX.
  rewrite !set_nth_pre by exact Hp. reflexivity.
Qed.

Theorem glue_ip4_set_payload o b n proto :
  (o + 20 + n <= length b)%nat -> proto < 256 -> 20 + N.of_nat n < 65536 ->
  exists r, ip4_set_payload (at_off_len o 20 b) n proto = Ok r /\ len r = (20 + n)%nat /\
            firstn o b ++ arr r = Send.ip4_set_payload o b n proto.
Proof.
  intros Hb Hpr Hsz.
  assert (Hu : u8 proto = proto) by (unfold u8; apply N.mod_small; exact Hpr).
  assert (Etl : N.to_nat (u16 (20 + N.of_nat n)) = (20 + n)%nat) by (unfold u16; rewrite N.mod_small by lia; lia).
  eexists. split.
  { unfold ip4_set_payload, ip4_write_checksum, at_off_len, put16, seti, reslice, cap. rewrite Etl. stepw. reflexivity. }
  split; [reflexivity|]. cbn [arr].
  rewrite <- (firstn_skipn o b) at 5.
  assert (Hp : length (firstn o b) = o) by (rewrite firstn_length; blia).
  assert (HX : (20 <= length (skipn o b))%nat) by (rewrite skipn_length; blia).
  generalize dependent (skipn o b). generalize dependent (firstn o b). intros pre Hp X HX.
  unfold Send.ip4_set_payload. rewrite Hu.
  rewrite <- ?Nat.add_assoc. cbn [Nat.add]. push_pre Hp.
  rewrite send_checksum_pre by (try exact Hp; unfold SendBase.put16; rewrite !set_nth_length; exact HX).
  reflexivity.
Qed.

Lemma nth_skipn0 {A} o (l : list A) d : nth 0 (skipn o l) d = nth o l d.
Proof. revert l. induction o as [|o IH]; intros [|x l]; cbn; auto. Qed.

Theorem glue_ip4_append o (b : bytes) payload proto :
  length b = SendBase.EthMaxSize -> (o + 20 <= length b)%nat -> proto < 256 ->
  nth o b 0 = 69 ->      (* the version/IHL byte EncodeIP4 wrote *)
  match Send.ip4_append_payload o b payload proto with
  | None => ip4_append (at_off_len o 20 b) payload proto = Err EPayloadTooBig
  | Some b' => exists r, ip4_append (at_off_len o 20 b) payload proto = Ok r /\
                         len r = (20 + length payload)%nat /\ firstn o b ++ arr r = b'
  end.
Proof.
  intros HL Hb Hpr H69.
  assert (Hu : u8 proto = proto) by (unfold u8; apply N.mod_small; exact Hpr).
  unfold Send.ip4_append_payload, ip4_append, at_off_len, cap. cbn [arr len].
  rewrite skipn_length, HL.
  destruct (Nat.ltb_spec (SendBase.EthMaxSize - o - 20) (length payload)) as [C|C].
  { destruct (Nat.ltb_spec (SendBase.EthMaxSize - o) (20 + length payload)) as [_|C']; [reflexivity|unfold SendBase.EthMaxSize in *; blia]. }
  destruct (Nat.ltb_spec (SendBase.EthMaxSize - o) (20 + length payload)) as [C'|_]; [unfold SendBase.EthMaxSize in *; blia|].
  set (n := length payload) in *.
  assert (Hn : 20 + N.of_nat n < 65536) by (unfold SendBase.EthMaxSize in *; lia).
  set (tl := u16 (20 + N.of_nat n)).
  assert (Etl : tl = 20 + N.of_nat n) by (unfold tl, u16; apply N.mod_small; lia).
  assert (HX : length (skipn o b) = (SendBase.EthMaxSize - o)%nat) by (rewrite skipn_length; blia).
  assert (H69' : nth 0 (skipn o b) 0 = 69).
  { rewrite nth_skipn0. exact H69. }
  pose proof (firstn_skipn o b) as Hsplit.
  assert (Hp : length (firstn o b) = o) by (rewrite firstn_length; blia).
  set (pre := firstn o b) in *. set (X := skipn o b) in *. clearbody pre X.
  assert (HX20 : (20 + n <= length X)%nat) by (unfold SendBase.EthMaxSize in *; blia).
  rewrite <- Hsplit. clear Hsplit HL Hb H69 b.
  set (A2 := set_nth 2 (hi8 tl) (set_nth (2 + 1) (lo8 tl) X)).
  assert (LA2 : length A2 = length X) by (unfold A2; rewrite !set_nth_length; reflexivity).
  assert (E0 : nth 0 A2 0 = 69).
  { unfold A2. rewrite !nth_set_nth_neq by lia. exact H69'. }
  assert (E2 : nth 2 A2 0 = hi8 tl).
  { unfold A2. apply nth_set_nth_eq. rewrite set_nth_length. unfold SendBase.EthMaxSize in *. blia. }
  assert (E3 : nth (2 + 1) A2 0 = lo8 tl).
  { unfold A2. rewrite nth_set_nth_neq by lia. apply nth_set_nth_eq. unfold SendBase.EthMaxSize in *. blia. }
  eexists. split.
  { unfold reslice, put16, cap. cbn [arr len].
    destruct (Nat.leb_spec (20 + n) (length X)) as [_|C']; [|unfold SendBase.EthMaxSize in *; blia]. cbn [bind arr len].
    destruct (Nat.leb_spec (2 + 2) (length X)) as [_|C']; [|unfold SendBase.EthMaxSize in *; blia]. cbn [bind arr len].
    fold A2.
    unfold ip4_ihl, ip4_totlen, idx, be16_at, cap. cbn [arr len].
    destruct (Nat.ltb_spec 0 (20 + n)) as [_|C']; [|blia]. cbn [bind]. rewrite E0.
    change (N.to_nat (69 mod 16) * 4)%nat with 20%nat.
    rewrite LA2. destruct (Nat.leb_spec (2 + 2) (length X)) as [_|C']; [|unfold SendBase.EthMaxSize in *; blia]. cbn [bind].
    rewrite E2, E3, be16_hi_lo by (unfold tl, u16; lia).
    replace (N.to_nat tl) with (20 + n)%nat by lia.
    unfold copyto, seti, ip4_write_checksum, cap. cbn [arr len]. rewrite LA2.
    destruct (Nat.leb_spec 20 (20 + n)) as [_|C']; [|blia].
    destruct (Nat.leb_spec (20 + n) (length X)) as [_|C']; [|unfold SendBase.EthMaxSize in *; blia]. cbn [andb bind arr len].
    destruct (Nat.ltb_spec 9 (20 + n)) as [_|C']; [|blia]. cbn [bind arr len].
    rewrite !set_nth_length, !blit_length, LA2.
    destruct (Nat.ltb_spec (length X) 20) as [C'|_]; [unfold SendBase.EthMaxSize in *; blia|].
    destruct (Nat.ltb_spec 11 (20 + n)) as [_|C']; [|blia]. cbn [bind arr len].
    destruct (Nat.ltb_spec 10 (20 + n)) as [_|C']; [|blia]. cbn [bind arr len].
    reflexivity. }
  split; [reflexivity|]. cbn [arr].
  rewrite Hu. rewrite <- ?Nat.add_assoc. cbn [Nat.add]. push_pre Hp.
  rewrite send_checksum_pre.
  - f_equal. unfold A2, SendBase.cpy, SendBase.put16. fold tl.
    replace (20 + n - 20)%nat with n by blia. rewrite !firstn_all2 by (unfold n; blia). reflexivity.
  - exact Hp.
  - unfold SendBase.cpy, SendBase.put16. rewrite !set_nth_length, blit_length, !set_nth_length.
    unfold SendBase.EthMaxSize in *. blia.
Qed.

Lemma set_nth_ge (a l : bytes) k v : (length a <= k)%nat -> set_nth k v (a ++ l) = a ++ set_nth (k - length a) v l.
Proof.
  revert k. induction a as [|x a IH]; intros k H; cbn [app length].
  - rewrite Nat.sub_0_r. reflexivity.
  - destruct k as [|k]; [cbn in H; lia|]. cbn [set_nth Nat.sub]. f_equal. apply IH. cbn in H. lia.
Qed.
Lemma blit_ge (a l : bytes) k src : (length a <= k)%nat -> blit k src (a ++ l) = a ++ blit (k - length a) src l.
Proof.
  intros H. replace k with (length a + (k - length a))%nat at 1 by lia. apply blit_app_r.
Qed.

(* ================================================================ *)
(* ARP at offset 14 (EncodeARP panics on a MAC slice shorter than 6 bytes: MAC[:6]) *)
Theorem glue_arp b op (sender target : SendBase.addr) :
  (14 + 28 <= length b)%nat -> (6 <= length (SendBase.a_mac sender))%nat -> (6 <= length (SendBase.a_mac target))%nat ->
  exists r, encode_arp (at_off 14 b) op (SendBase.a_mac sender) (SendBase.a_ip sender)
                       (SendBase.a_mac target) (SendBase.a_ip target) = Ok r /\ len r = 28%nat /\
            firstn 14 b ++ arr r = SendNdp.enc_arp b op sender target.
Proof.
  intros Hb Hs Ht. destruct sender as [sm si], target as [tm ti]. cbn [SendBase.a_mac SendBase.a_ip fst snd] in *.
  eexists. split.
  { unfold encode_arp, at_off, seti, put16, copyto, reslice, cap. stepw. reflexivity. }
  split; [reflexivity|]. cbn [arr].
  rewrite <- (firstn_skipn 14 b) at 3.
  assert (Hp : length (firstn 14 b) = 14%nat) by (rewrite firstn_length; blia).
  generalize dependent (skipn 14 b). generalize dependent (firstn 14 b). intros pre Hp X.
  unfold SendNdp.enc_arp, SendBase.cpy, SendBase.put16. cbn [SendBase.a_mac SendBase.a_ip fst snd].
  repeat first [rewrite set_nth_ge by (rewrite Hp; lia) | rewrite blit_ge by (rewrite Hp; lia)].
  rewrite Hp. cbn [Nat.sub]. f_equal. unfold ETH_P_IP. rewrite !firstn_firstn. reflexivity.
Qed.

(* ================================================================ *)
(* ICMP echo: SEND builds the message as a fresh byte string; it is the view of EncodeICMPEcho's result *)
Theorem glue_icmp_echo b t code id sq data :
  (8 + length data <= cap b)%nat -> t < 256 -> code < 256 ->
  exists r, encode_icmp_echo b t code id sq data = Ok r /\ view r = Send.enc_icmp_echo t code id sq data.
Proof.
  intros Hc Ht Hcode.
  assert (Hu1 : u8 t = t) by (unfold u8; apply N.mod_small; exact Ht).
  assert (Hu2 : u8 code = code) by (unfold u8; apply N.mod_small; exact Hcode).
  eexists. split. { apply Proofs.EncodeRound3.encode_icmp_echo_bytes. exact Hc. }
  unfold view. cbn [arr len]. rewrite firstn_app_len by reflexivity.
  unfold echo_bytes, Send.enc_icmp_echo. rewrite Hu1, Hu2. reflexivity.
Qed.

(* ================================================================ *)
(* NDP marshal functions: for all arguments *)
Theorem glue_ns target lla :
  exists r, ns_marshal target lla = Ok r /\ len r = 32%nat /\ arr r = Send.ns_marshal target lla.
Proof.
  eexists. split.
  { unfold ns_marshal, ns_marshal_ty, seti, copyfrom, cap. stepw. reflexivity. }
  split; reflexivity.
Qed.

Theorem glue_na ro so ov (target : SendBase.addr) :
  exists r, na_marshal ro so ov (SendBase.a_ip target) (SendBase.a_mac target) = Ok r /\ len r = 32%nat /\
            arr r = Send.na_marshal ro so ov target.
Proof.
  eexists. split.
  { unfold na_marshal, seti, copyfrom, cap. stepw. reflexivity. }
  split; [reflexivity|]. cbn [arr]. unfold Send.na_marshal, SendBase.cpy, bflag.
  destruct ro, so, ov; reflexivity.
Qed.
