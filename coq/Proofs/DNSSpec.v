(* Proofs/DNSSpec.v — DecodeQuestion and decodeRRs against the RFC 1035 reference
   (question, RR layout, A / AAAA / CNAME learning with insert-if-absent). *)
From PV Require Import Base.Prelude Base.Slice Model.DNS Model.DNSMerge Model.DNSRecords
     Spec.RFC1035 Proofs.RFC1035 Proofs.DNS Proofs.DNSMerge Proofs.DNSRecords.
Open Scope N_scope.

Lemma u16_at_view p a v : wf p -> u16_at (view p) a = Some v ->
  (a + 2 <= len p)%nat /\ be16 (nth a (arr p) 0) (nth (a + 1) (arr p) 0) = v.
Proof.
  intros Hwf H. unfold u16_at in H.
  destruct (nth_error (view p) a) as [x|] eqn:E1; [|discriminate].
  destruct (nth_error (view p) (S a)) as [y|] eqn:E2; [|discriminate].
  assert (S a < len p)%nat as Hlt.
  { destruct (Nat.lt_ge_cases (S a) (len p)); auto. rewrite nth_error_view_none in E2 by auto. discriminate. }
  rewrite nth_error_view in E1 by (auto; lia). rewrite nth_error_view in E2 by auto.
  inversion E1; inversion E2; inversion H; subst. split; [lia|].
  unfold be16. replace (a + 1)%nat with (S a) by lia. reflexivity.
Qed.

Lemma u16_at_view_some p a : wf p -> (a + 2 <= len p)%nat ->
  u16_at (view p) a = Some (be16 (nth a (arr p) 0) (nth (a + 1) (arr p) 0)).
Proof.
  intros Hwf H. unfold u16_at. rewrite !nth_error_view by (auto; lia).
  replace (a + 1)%nat with (S a) by lia. reflexivity.
Qed.

Lemma u32_at_view p a v : wf p -> u32_at (view p) a = Some v ->
  (a + 4 <= len p)%nat /\
  be32 (nth a (arr p) 0) (nth (a + 1) (arr p) 0) (nth (a + 2) (arr p) 0) (nth (a + 3) (arr p) 0) = v.
Proof.
  intros Hwf H. unfold u32_at in H.
  destruct (u16_at (view p) a) as [x|] eqn:E1; [|discriminate].
  destruct (u16_at (view p) (a + 2)) as [y|] eqn:E2; [|discriminate].
  apply u16_at_view in E1 as [L1 E1]; auto. apply u16_at_view in E2 as [L2 E2]; auto.
  inversion H; subst. split; [lia|]. unfold be32, be16.
  replace (a + 2 + 1)%nat with (a + 3)%nat by lia. lia.
Qed.

(* ------------------------------------------------------------------ *)
(* DecodeQuestion *)

Theorem question_sound p index buffer q off : wf p -> bytes_ok (arr p) -> (12 <= len p)%nat ->
  decodeQuestion p index buffer = Ok (q, off) ->
  (0 <= index)%Z /\
  exists ls n, name_at (view p) (Z.to_nat index) ls n /\ q_name q = dotted ls /\
               u16_at (view p) n = Some (q_type q) /\ u16_at (view p) (n + 2) = Some (q_class q) /\
               off = (n + 4)%nat.
Proof.
  intros Hwf Hok H12 H. unfold decodeQuestion in H. pose proof Hwf as Hwf'. unfold wf in Hwf'.
  rewrite be16_at_ok in H by lia. cbn [bind] in H.
  destruct (negb _); [discriminate|]. destruct (Z.ltb _ _); [discriminate|].
  apply bind_ok_inv in H as ([[n endq] b] & Hn & H). cbn [fst snd] in H.
  unfold decodeNameZ in Hn. destruct (Z.leb _ _); [discriminate|].
  destruct (Z.ltb_spec index 0); [discriminate|].
  apply name_sound in Hn as (ls & Hna & Hd); auto.
  destruct (Nat.ltb_spec (len p) (endq + 4)); [discriminate|].
  rewrite !be16_at_ok in H by lia. cbn [bind] in H. inversion H; subst. cbn [q_name q_type q_class].
  split; [lia|]. exists ls, endq. repeat split; auto.
  - rewrite u16_at_view_some by (auto; lia). reflexivity.
  - rewrite u16_at_view_some by (auto; lia). replace (endq + 2 + 1)%nat with (endq + 3)%nat by lia.
    replace (endq + 2 + 1)%nat with (endq + 3)%nat by lia. reflexivity.
Qed.

(* every question the reference reads (name of at most 256 octets, at most 254 pointers, QDCOUNT 1,
   at least one label) is decoded with the same name, type, class and end offset *)
(* the end of a name lies behind its start: 1 byte for the root, at least 2 for anything else *)
Lemma name_at_d_next msg d off ls n : name_at_d msg d off ls n -> (off + 1 <= n)%nat /\ (ls <> [] -> off + 2 <= n)%nat.
Proof.
  induction 1 as [off H | d off c ls next H H1 H2 H3 _ [IH1 IH2] | d off c1 c2 ls next' H H1 H2 _ IH].
  - split; [lia|]. intros Hne; contradiction.
  - split; [lia|]. intros _. lia.
  - split; [lia|]. intros _. lia.
Qed.

Theorem question_complete_gen p index buffer d ls n t c : wf p -> bytes_ok (arr p) -> (12 <= len p)%nat ->
  u16_at (view p) 4 = Some 1 ->
  name_at_d (view p) d index ls n -> (d <= 254)%nat -> (wire_len ls <= 255)%nat -> Forall dotfree ls ->
  u16_at (view p) n = Some t -> u16_at (view p) (n + 2) = Some c ->
  decodeQuestion p (Z.of_nat index) buffer = Ok (mkQ (dotted ls) t c, (n + 4)%nat).
Proof.
  intros Hwf Hok H12 Hqd Hna Hd Hw Hdf Ht Hc.
  destruct (name_at_d_next _ _ _ _ _ Hna) as [Hn1 _]. unfold decodeQuestion. pose proof Hwf as Hwf'. unfold wf in Hwf'.
  rewrite be16_at_ok by lia. cbn [bind].
  apply u16_at_view in Hqd as [_ Hqd]; auto. rewrite Hqd. cbn [negb N.eqb Pos.eqb].
  apply u16_at_view in Ht as [Lt Ht]; auto. apply u16_at_view in Hc as [Lc Hc]; auto.
  destruct (Z.ltb_spec (Z.of_nat (len p)) (Z.of_nat index + 5)); [lia|].
  unfold decodeNameZ. destruct (Z.leb_spec (Z.of_nat (len p)) (Z.of_nat index)); [lia|].
  destruct (Z.ltb_spec (Z.of_nat index) 0); [lia|]. rewrite Nat2Z.id.
  destruct (name_complete p d index ls n (buf_of buffer) Hwf Hok Hna Hd Hw Hdf) as (b' & Hr). rewrite Hr.
  cbn [bind fst snd]. destruct (Nat.ltb_spec (len p) (n + 4)); [lia|].
  rewrite !be16_at_ok by lia. cbn [bind]. rewrite Ht.
  replace (n + 2 + 1)%nat with (n + 3)%nat in Hc by lia.
  replace (n + 2 + 1)%nat with (n + 3)%nat by lia. rewrite Hc. reflexivity.
Qed.

(* kept under its first name: the hypothesis "at least one label" is no longer needed since the
   root-name question is decoded too (repair of DecodeQuestion's 6-byte pre-check) *)
Theorem question_complete p index buffer d ls n t c : wf p -> bytes_ok (arr p) -> (12 <= len p)%nat ->
  u16_at (view p) 4 = Some 1 ->
  name_at_d (view p) d index ls n -> (d <= 254)%nat -> (wire_len ls <= 255)%nat -> Forall dotfree ls ->
  u16_at (view p) n = Some t -> u16_at (view p) (n + 2) = Some c ->
  decodeQuestion p (Z.of_nat index) buffer = Ok (mkQ (dotted ls) t c, (n + 4)%nat).
Proof. exact (question_complete_gen p index buffer d ls n t c). Qed.

(* ------------------------------------------------------------------ *)
(* decodeRRs against the reference: RR layout and what is learned from A / AAAA / CNAME
   records (and ignored for other types) with insert-if-absent. *)

Definition cache_of_entry (e : dns_entry) : cache :=
  mkCache (map (fun r => (ir_ip r, ir_name r, ir_ttl r)) (de_ip4 e))
          (map (fun r => (ir_ip r, ir_name r, ir_ttl r)) (de_ip6 e))
          (map (fun r => (nr_name r, nr_cname r, nr_ttl r)) (de_cname e))
          (map (fun r => (ir_name r, ir_ip r, ir_ttl r)) (de_ptr e)).

Lemma lab_eqb_bytes_eqb a b : lab_eqb a b = bytes_eqb a b.
Proof. revert b; induction a as [|x a IH]; intros [|y b]; simpl; auto; try (rewrite IH; reflexivity). Qed.

Lemma existsb_ext' {A} (f g : A -> bool) l : (forall x, f x = g x) -> existsb f l = existsb g l.
Proof. intros H. induction l; simpl; auto. rewrite H, IHl. reflexivity. Qed.

Lemma existsb_map {A B} (f : A -> B) g l : existsb g (map f l) = existsb (fun x => g (f x)) l.
Proof. induction l; simpl; auto. rewrite IHl. reflexivity. Qed.

Lemma ins_ip_spec name ip ttl l :
  let f := fun r => (ir_ip r, ir_name r, ir_ttl r) in
  add_absent ip name ttl (map f l) =
  (map f (fst (ins_ip ir_ip (mkIPRR name ip ttl) l)), snd (ins_ip ir_ip (mkIPRR name ip ttl) l)).
Proof.
  intros f. unfold add_absent, ins_ip. rewrite existsb_map. cbn [fst ir_ip].
  assert (E : existsb (fun x => lab_eqb (fst (fst (f x))) ip) l = existsb (fun x => bytes_eqb (ir_ip x) ip) l).
  { apply existsb_ext'. intros x. apply lab_eqb_bytes_eqb. } 
  rewrite E. destruct (existsb _ l); cbn [fst snd]; [reflexivity|]. rewrite map_app. reflexivity.
Qed.

Lemma ins_name_spec name cname ttl l :
  let f := fun r => (nr_name r, nr_cname r, nr_ttl r) in
  add_absent name cname ttl (map f l) =
  (map f (fst (ins_name (mkNRR name cname ttl) l)), snd (ins_name (mkNRR name cname ttl) l)).
Proof.
  intros f. unfold add_absent, ins_name. rewrite existsb_map. cbn [fst nr_name].
  assert (E : existsb (fun x => lab_eqb (fst (fst (f x))) name) l = existsb (fun x => bytes_eqb (nr_name x) name) l).
  { apply existsb_ext'. intros x. apply lab_eqb_bytes_eqb. }
  rewrite E. destruct (existsb _ l); cbn [fst snd]; [reflexivity|]. rewrite map_app. reflexivity.
Qed.

Lemma ins_ptr_spec target ip ttl l :
  let f := fun r => (ir_name r, ir_ip r, ir_ttl r) in
  add_absent target ip ttl (map f l) =
  (map f (fst (ins_ip ir_name (mkIPRR target ip ttl) l)), snd (ins_ip ir_name (mkIPRR target ip ttl) l)).
Proof.
  intros f. unfold add_absent, ins_ip. rewrite existsb_map. cbn [fst ir_name].
  assert (E : existsb (fun x => lab_eqb (fst (fst (f x))) target) l = existsb (fun x => bytes_eqb (ir_name x) target) l).
  { apply existsb_ext'. intros x. apply lab_eqb_bytes_eqb. }
  rewrite E. destruct (existsb _ l); cbn [fst snd]; [reflexivity|]. rewrite map_app. reflexivity.
Qed.

Lemma reverse_v4_shape ls ip : reverse_v4 ls = Some ip -> exists a b c d, ip = [a; b; c; d].
Proof.
  unfold reverse_v4. destruct ls as [|d [|c [|b [|a [|l1 [|l2 [|x xs]]]]]]]; try discriminate.
  destruct (_ && _); [|discriminate].
  destruct (dec_octet a), (dec_octet b), (dec_octet c), (dec_octet d); try discriminate.
  intros H; inversion H; eauto.
Qed.

(* ------------------------------------------------------------------ *)
(* PTR owner: the library reads the dotted text (TrimSuffix + netip.ParseAddr), the reference the
   labels.  They agree whenever no label of the owner contains a '.' octet. *)

Lemma presentable_dotfree ls : presentable ls = true -> Forall dotfree ls.
Proof.
  unfold presentable. rewrite forallb_forall, Forall_forall. intros H l Hl. specialize (H l Hl).
  apply negb_true_iff in H. apply existsb_dot. exact H.
Qed.

Lemma name_ok_inv lim ls : name_ok lim ls = true -> (wire_len ls <= lim)%nat /\ Forall dotfree ls.
Proof. unfold name_ok. intros H. apply andb_true_iff in H as [H1 H2]. apply Nat.leb_le in H1. split; [exact H1|apply presentable_dotfree; exact H2]. Qed.

Lemma split_dots_nonempty s : split_dots s <> [].
Proof.
  induction s as [|c r IH]; cbn [split_dots]; [discriminate|].
  destruct (c =? 46); [discriminate|]. destruct (split_dots r); discriminate.
Qed.

Lemma split_dots_app a b : split_dots (a ++ 46 :: b) = split_dots a ++ split_dots b.
Proof.
  induction a as [|c a IH]; [reflexivity|].
  cbn [app split_dots]. destruct (c =? 46); [rewrite IH; reflexivity|].
  rewrite IH. pose proof (split_dots_nonempty a) as Hn.
  destruct (split_dots a) as [|f fs]; [contradiction|]. reflexivity.
Qed.

Lemma split_dots_dotfree s : dotfree s -> split_dots s = [s].
Proof.
  unfold dotfree. induction s as [|c r IH]; intros H; [reflexivity|].
  cbn [split_dots]. destruct (N.eqb_spec c 46) as [->|Hc]; [exfalso; apply H; left; reflexivity|].
  rewrite IH by (intros Hin; apply H; right; exact Hin). reflexivity.
Qed.

Lemma dotted_cons l r : r <> [] -> dotted (l :: r) = l ++ 46 :: dotted r.
Proof. destruct r; [contradiction|reflexivity]. Qed.

Lemma split_dotted ls : Forall dotfree ls -> ls <> [] -> split_dots (dotted ls) = ls.
Proof.
  induction ls as [|l r IH]; intros Hf Hne; [contradiction|].
  inversion Hf as [|? ? Hl Hr]; subst. destruct r as [|l2 r'].
  - cbn [dotted]. apply split_dots_dotfree. exact Hl.
  - rewrite dotted_cons by discriminate. rewrite split_dots_app, split_dots_dotfree by exact Hl.
    rewrite IH by (auto; discriminate). reflexivity.
Qed.

Lemma digits_val_dec s acc : digits_val s acc = dec_octet_aux s acc.
Proof. revert acc; induction s as [|c r IH]; intros acc; cbn [digits_val dec_octet_aux]; auto; try (destruct (_ && _); auto). Qed.

Lemma ip4_octet_dec s : ip4_octet s = dec_octet s.
Proof.
  destruct s as [|c [|c2 r]]; cbn [ip4_octet dec_octet]; auto; try apply digits_val_dec;
    try (destruct (c =? 48); auto; destruct (Nat.ltb _ _); auto; rewrite digits_val_dec; reflexivity).
Qed.

Lemma dec_octet_aux_dotfree s : forall acc v, dec_octet_aux s acc = Some v -> dotfree s.
Proof.
  unfold dotfree. induction s as [|c r IH]; intros acc v H Hin; [destruct Hin|].
  cbn [dec_octet_aux] in H. destruct ((48 <=? c) && (c <=? 57)) eqn:E; [|discriminate].
  destruct Hin as [->|Hin]; [cbn in E; discriminate|]. eapply IH; eauto.
Qed.

Lemma dec_octet_dotfree s v : dec_octet s = Some v -> dotfree s.
Proof.
  destruct s as [|c [|c2 r]]; cbn [dec_octet]; intros H; try discriminate.
  - eapply dec_octet_aux_dotfree; eauto.
  - destruct (c =? 48); [discriminate|]. destruct (Nat.ltb _ _); [discriminate|].
    destruct (dec_octet_aux (c :: c2 :: r) 0) eqn:E; [|discriminate]. eapply dec_octet_aux_dotfree; eauto.
Qed.

Lemma lab_eqb_eq a b : lab_eqb a b = true <-> a = b.
Proof. rewrite lab_eqb_bytes_eqb. apply bytes_eqb_eq. Qed.

Lemma trim_suffix_app x suf : suf <> [] ->
  trim_suffix (x ++ suf) suf = x /\ length x <> length (x ++ suf).
Proof.
  intros Hs. unfold trim_suffix. rewrite app_length.
  replace (length x + length suf - length suf)%nat with (length x) by lia.
  destruct (Nat.leb_spec (length suf) (length x + length suf)); [|lia].
  rewrite skipn_app, skipn_all, Nat.sub_diag. cbn [app skipn]. rewrite bytes_eqb_refl. cbn [andb].
  rewrite firstn_app, firstn_all, Nat.sub_diag. cbn [firstn]. rewrite app_nil_r.
  split; [reflexivity|]. destruct suf; [contradiction|]. cbn [length]. lia.
Qed.

Lemma trim_suffix_inv s suf : length (trim_suffix s suf) <> length s ->
  s = trim_suffix s suf ++ suf.
Proof.
  unfold trim_suffix. destruct (Nat.leb_spec (length suf) (length s)); cbn [andb]; [|contradiction].
  destruct (bytes_eqb _ suf) eqn:E; [|contradiction]. intros _.
  apply bytes_eqb_eq in E. rewrite <- E at 2. symmetry. apply firstn_skipn.
Qed.

Lemma in_addr_arpa_eq : IN_ADDR_ARPA = 46 :: dotted [IN_ADDR; ARPA].
Proof. reflexivity. Qed.

Lemma dotted_snoc2 ls : ls <> [] -> dotted (ls ++ [IN_ADDR; ARPA]) = dotted ls ++ IN_ADDR_ARPA.
Proof.
  induction ls as [|l r IH]; intros H; [contradiction|]. destruct r as [|l2 r'].
  - reflexivity.
  - change ((l :: l2 :: r') ++ [IN_ADDR; ARPA]) with (l :: ((l2 :: r') ++ [IN_ADDR; ARPA])).
    rewrite dotted_cons by (destruct r'; discriminate). rewrite IH by discriminate.
    rewrite (dotted_cons l (l2 :: r')) by discriminate. rewrite <- app_assoc. reflexivity.
Qed.

Lemma dotfree_in_addr : dotfree IN_ADDR /\ dotfree ARPA.
Proof. split; intros H; cbn in H; repeat (destruct H as [H|H]; [discriminate|]); exact H. Qed.

(* the model's reading, in text order a.b.c.d, is the reference's (address order) reversed *)
Lemma ptr_owner_spec ls : Forall dotfree ls ->
  parse_ptr_owner (dotted ls) = option_map (@rev N) (reverse_v4 ls).
Proof.
  intros Hf. unfold parse_ptr_owner.
  destruct (Nat.eqb_spec (length (trim_suffix (dotted ls) IN_ADDR_ARPA)) (length (dotted ls))) as [E|E].
  - (* no suffix: the reference cannot read a reverse name either *)
    destruct (reverse_v4 ls) as [ip|] eqn:R; [|reflexivity]. exfalso.
    unfold reverse_v4 in R.
    destruct ls as [|d [|c [|b [|a [|l1 [|l2 [|x xs]]]]]]]; try discriminate.
    destruct (lab_eqb l1 IN_ADDR) eqn:E1; [|discriminate]. destruct (lab_eqb l2 ARPA) eqn:E2; [|discriminate].
    apply lab_eqb_eq in E1, E2. subst l1 l2.
    change [d; c; b; a; IN_ADDR; ARPA] with ([d; c; b; a] ++ [IN_ADDR; ARPA]) in E.
    rewrite dotted_snoc2 in E by discriminate.
    destruct (trim_suffix_app (dotted [d; c; b; a]) IN_ADDR_ARPA ltac:(discriminate)) as [T L].
    rewrite T in E. contradiction.
  - pose proof (trim_suffix_inv _ _ E) as Hs. set (X := trim_suffix (dotted ls) IN_ADDR_ARPA) in *.
    assert (ls <> []) as Hne by (intros ->; cbn in Hs; destruct X; discriminate).
    assert (Hsp : ls = split_dots X ++ [IN_ADDR; ARPA]).
    { rewrite <- (split_dotted ls Hf Hne). rewrite Hs. rewrite in_addr_arpa_eq, split_dots_app.
      reflexivity. }
    unfold parse_ipv4. rewrite Hsp. unfold reverse_v4.
    destruct (split_dots X) as [|f1 [|f2 [|f3 [|f4 [|f5 r]]]]]; cbn [app]; try reflexivity.
    { rewrite (ip4_octet_dec f1), (ip4_octet_dec f2), (ip4_octet_dec f3), (ip4_octet_dec f4). replace (lab_eqb IN_ADDR IN_ADDR) with true by reflexivity.
      replace (lab_eqb ARPA ARPA) with true by reflexivity. cbn [andb].
      destruct (dec_octet f1), (dec_octet f2), (dec_octet f3), (dec_octet f4); reflexivity. }
    destruct r as [|x [|y r']]; reflexivity.
Qed.

Definition depth_at (msg : bytes) (off : nat) : nat := ref_depth (S (length msg)) msg off.

Lemma rr_name_complete p off buffer ls n : wf p -> bytes_ok (arr p) ->
  ref_decode (view p) off = Some (ls, n) -> (wire_len ls <= 255)%nat -> Forall dotfree ls -> (depth_at (view p) off <= 254)%nat ->
  rr_decode_name p off buffer = Ok (dotted ls, n).
Proof.
  intros Hwf Hok H Hw Hdf Hd. apply ref_decode_depth in H; [|apply bytes_ok_view; exact Hok].
  destruct (name_complete p _ off ls n (buf_of buffer) Hwf Hok H Hd Hw Hdf) as (b' & Hr).
  unfold rr_decode_name. rewrite Hr. reflexivity.
Qed.

Lemma rr_step_spec p buffer off e r nx lim :
  wf p -> bytes_ok (arr p) -> (lim <= 255)%nat ->
  ref_rr_at lim (view p) off = Some (r, nx) ->
  (depth_at (view p) off <= 254)%nat ->
  (rr_type r = 5 \/ rr_type r = 12 -> (depth_at (view p) (rr_rdoff r) <= 254)%nat) ->
  learn lim (view p) r <> LBad ->
  exists u e', rr_step p buffer off e = (Ok (nx, u, e'), e') /\
               learn_into (cache_of_entry e) (learn lim (view p) r) = (cache_of_entry e', u) /\
               de_name e' = de_name e.
Proof.
  intros Hwf Hok Hlim H Hd Hd5 Hbad. pose proof Hwf as Hwf'. unfold wf in Hwf'.
  unfold ref_rr_at in H.
  destruct (ref_decode (view p) off) as [[ls n]|] eqn:Hdec; [|discriminate].
  destruct (name_ok lim ls) eqn:Hnok; [|discriminate]. apply name_ok_inv in Hnok as [Hw Hdot].
  destruct (u16_at (view p) n) as [t|] eqn:Ht; [|discriminate].
  destruct (u16_at (view p) (n + 2)) as [c|] eqn:Hc; [|discriminate].
  destruct (u32_at (view p) (n + 4)) as [ttl|] eqn:Httl; [|discriminate].
  destruct (u16_at (view p) (n + 8)) as [rdl|] eqn:Hrdl; [|discriminate].
  rewrite view_length in H by exact Hwf.
  destruct (Nat.leb_spec (n + 10 + N.to_nat rdl) (len p)) as [Hnx|]; [|discriminate].
  inversion H; subst r nx; clear H. cbn [rr_type rr_rdoff] in *.
  apply u16_at_view in Ht as [Lt Ht]; auto. apply u32_at_view in Httl as [Lttl Httl]; auto.
  apply u16_at_view in Hrdl as [Lrdl Hrdl]; auto.
  unfold rr_step. rewrite (rr_name_complete p off buffer ls n) by (auto; lia).
  destruct (Nat.ltb_spec (len p) (n + 10)); [lia|].
  rewrite !be16_at_ok by lia. rewrite be32_at_ok by lia. cbn [bind].
  replace (n + 4 + 1)%nat with (n + 5)%nat in Httl by lia.
  replace (n + 4 + 2)%nat with (n + 6)%nat in Httl by lia.
  replace (n + 4 + 3)%nat with (n + 7)%nat in Httl by lia.
  replace (n + 4 + 1)%nat with (n + 5)%nat by lia.
  replace (n + 4 + 2)%nat with (n + 6)%nat by lia.
  replace (n + 4 + 3)%nat with (n + 7)%nat by lia.
  replace (n + 8 + 1)%nat with (n + 9)%nat in * by lia.
  rewrite Ht, Httl, Hrdl.
  destruct (Nat.ltb_spec (len p) (n + 10 + N.to_nat rdl)); [lia|].
  unfold learn in *. cbn [rr_type rr_rdlen rr_rdoff rr_owner rr_ttl] in *.
  destruct (N.eqb_spec t 1) as [->|T1].
  { destruct (Nat.eqb_spec (N.to_nat rdl) 4) as [E4|]; [|contradiction].
    assert (rdl = 4) as -> by lia. cbn [negb N.eqb Pos.eqb].
    rewrite <- sub_view by lia.
    pose proof (ins_ip_spec (dotted ls) (sub (view p) (n + 10) 4) ttl (de_ip4 e)) as Hs. cbv zeta in Hs.
    destruct (ins_ip ir_ip _ (de_ip4 e)) as [l u] eqn:Hi. cbn [fst snd] in Hs.
    exists u. eexists. split; [reflexivity|]. split; [|reflexivity]. cbn [learn_into]. unfold cache_of_entry at 1. cbn [c_a].
    rewrite Hs. reflexivity. }
  destruct (N.eqb_spec t 28) as [->|T28].
  { destruct (Nat.eqb_spec (N.to_nat rdl) 16) as [E16|]; [|contradiction].
    assert (rdl = 16) as -> by lia. cbn [negb N.eqb Pos.eqb].
    rewrite <- sub_view by lia.
    pose proof (ins_ip_spec (dotted ls) (sub (view p) (n + 10) 16) ttl (de_ip6 e)) as Hs. cbv zeta in Hs.
    destruct (ins_ip ir_ip _ (de_ip6 e)) as [l u] eqn:Hi. cbn [fst snd] in Hs.
    exists u. eexists. split; [reflexivity|]. split; [|reflexivity]. cbn [learn_into]. unfold cache_of_entry at 1. cbn [c_aaaa].
    rewrite Hs. reflexivity. }
  destruct (N.eqb_spec t 5) as [->|T5].
  { destruct (ref_decode (view p) (n + 10)) as [[cls cn]|] eqn:Hc5; [|contradiction].
    destruct (name_ok lim cls) eqn:Hcok; [|contradiction]. apply name_ok_inv in Hcok as [Hwc Hcdf].
    rewrite (rr_name_complete p (n + 10) buffer cls cn) by (auto; try lia; apply Hd5; auto).
    pose proof (ins_name_spec (dotted ls) (dotted cls) ttl (de_cname e)) as Hs. cbv zeta in Hs.
    destruct (ins_name _ (de_cname e)) as [l u] eqn:Hi. cbn [fst snd] in Hs.
    exists u. eexists. split; [reflexivity|]. split; [|reflexivity]. cbn [learn_into]. unfold cache_of_entry at 1. cbn [c_cname].
    rewrite Hs. reflexivity. }
  destruct (N.eqb_spec t 12) as [->|T12].
  { rewrite ptr_owner_spec by exact Hdot.
    destruct (reverse_v4 ls) as [ip|] eqn:R; cbn [option_map].
    - destruct (reverse_v4_shape _ _ R) as (a4 & b4 & c4 & d4 & ->). cbn [rev app].
      destruct (ref_decode (view p) (n + 10)) as [[pls pn]|] eqn:Hp12; [|contradiction].
      destruct (name_ok lim pls) eqn:Hpok; [|contradiction]. apply name_ok_inv in Hpok as [Hwp Hpdf].
      rewrite (rr_name_complete p (n + 10) buffer pls pn) by (auto; try lia; apply Hd5; auto).
      pose proof (ins_ptr_spec (dotted pls) [a4; b4; c4; d4] ttl (de_ptr e)) as Hs. cbv zeta in Hs.
      destruct (ins_ip ir_name _ (de_ptr e)) as [l u] eqn:Hi. cbn [fst snd] in Hs.
      exists u. eexists. split; [reflexivity|]. split; [|reflexivity]. cbn [learn_into]. unfold cache_of_entry at 1. cbn [c_ptr].
      rewrite Hs. reflexivity.
    - exists false, e. repeat split; reflexivity. }
  exists false, e. repeat split; reflexivity.
Qed.

(* the names the answers use are within the decoder's bounds (at most 254 pointers each), and no
   label of a PTR owner contains a '.' octet (such names are rejected by dnsmessage; the library
   reads the dotted text: accepted leniency) *)
Fixpoint rrs_within (lim : nat) (count : nat) (msg : bytes) (off : nat) : Prop :=
  match count with
  | O => True
  | S c =>
      match ref_rr_at lim msg off with
      | Some (r, nx) =>
          (depth_at msg off <= 254)%nat /\
          (rr_type r = 5 \/ rr_type r = 12 -> (depth_at msg (rr_rdoff r) <= 254)%nat) /\
          rrs_within lim c msg nx
      | None => True
      end
  end.

Lemma decodeRRs_loop_spec p buffer lim : wf p -> bytes_ok (arr p) -> (lim <= 255)%nat ->
  forall count off u e rrs endoff,
    ref_rrs lim count (view p) off = Some (rrs, endoff) ->
    rrs_within lim count (view p) off ->
    Forall (fun r => learn lim (view p) r <> LBad) rrs ->
    exists u' e', decodeRRs_loop count p buffer off u e = (Ok (Z.of_nat endoff, u'), e') /\
                  learn_all (cache_of_entry e) u (map (learn lim (view p)) rrs) = (cache_of_entry e', u') /\
                  de_name e' = de_name e.
Proof.
  intros Hwf Hok Hlim. induction count as [|c IH]; intros off u e rrs endoff H Hsh Hbad; cbn [ref_rrs decodeRRs_loop] in *.
  - inversion H; subst. exists u, e. repeat split; reflexivity.
  - destruct (ref_rr_at lim (view p) off) as [[r nx]|] eqn:Hr; [|discriminate].
    destruct (ref_rrs lim c (view p) nx) as [[l e2]|] eqn:Hrest; [|discriminate].
    inversion H; subst rrs endoff; clear H. cbn [rrs_within] in Hsh. rewrite Hr in Hsh.
    destruct Hsh as (Hd & Hd5 & Hsh).
    inversion Hbad as [|? ? Hba Hbb]; subst.
    destruct (rr_step_spec p buffer off e r nx lim Hwf Hok Hlim Hr Hd Hd5 Hba) as (u1 & e1 & Hstep & Hlearn & Hn1).
    rewrite Hstep.
    destruct (IH nx (u || u1) e1 l e2 Hrest Hsh Hbb) as (u' & e' & Hloop & Hall & Hn').
    exists u', e'. split; [exact Hloop|]. split; [|congruence]. cbn [map learn_all]. rewrite Hlearn. exact Hall.
Qed.

(* C17_records: DecodeAnswers(p, off, buffer) on an entry e.  When the reference reads ANCOUNT
   well-formed records at off (A, AAAA, CNAME, PTR, any other type) and every name is within the
   decoder's bounds, the call succeeds, returns the end of the answer section, and the entry holds
   exactly what the reference learns, merged first-wins into what it held, the flag telling
   whether anything was added. *)
Theorem answers_spec p off buffer e lim an rrs endoff :
  wf p -> bytes_ok (arr p) -> (12 <= len p)%nat -> (lim <= 255)%nat ->
  u16_at (view p) 6 = Some an ->
  ref_rrs lim (N.to_nat an) (view p) off = Some (rrs, endoff) ->
  rrs_within lim (N.to_nat an) (view p) off ->
  Forall (fun r => learn lim (view p) r <> LBad) rrs ->
  exists u e', decodeAnswers p (Z.of_nat off) buffer e = (Ok (Z.of_nat endoff, u), e') /\
               learn_all (cache_of_entry e) false (map (learn lim (view p)) rrs) = (cache_of_entry e', u) /\
               de_name e' = de_name e.
Proof.
  intros Hwf Hok H12 Hlim Han Hr Hsh Hbad. unfold decodeAnswers.
  pose proof Hwf as Hwf'. unfold wf in Hwf'. rewrite be16_at_ok by lia.
  apply u16_at_view in Han as [_ Han]; auto. rewrite Han. unfold decodeRRs.
  destruct (N.to_nat an) as [|c] eqn:Ec.
  - cbn [ref_rrs] in Hr. inversion Hr; subst. exists false, e. repeat split; reflexivity.
  - destruct (Z.ltb_spec (Z.of_nat off) 0); [lia|]. rewrite Nat2Z.id.
    destruct (decodeRRs_loop_spec p buffer lim Hwf Hok Hlim (S c) off false e rrs endoff Hr Hsh Hbad)
      as (u' & e' & Hl & Ha & Hn).
    exists u', e'. repeat split; assumption.
Qed.

(* non-vacuity: www.example.com CNAME cdn.example.com (compressed), cdn.example.com A 10.0.0.1
   (owner = pointer into the CNAME RDATA), 4.3.2.1.in-addr.arpa PTR (pointer to the question name) *)
Definition example_response : bytes :=
  [0;1;129;128;0;1;0;3;0;0;0;0] ++
  [3;119;119;119;7;101;120;97;109;112;108;101;3;99;111;109;0;0;1;0;1] ++
  [192;12;0;5;0;1;0;0;0;60;0;6;3;99;100;110;192;16] ++
  [192;45;0;1;0;1;0;0;0;60;0;4;10;0;0;1] ++
  [1;52;1;51;1;50;1;49;7;105;110;45;97;100;100;114;4;97;114;112;97;0;0;12;0;1;0;0;0;9;0;2;192;12].

Example answers_spec_nonvacuous :
  let p := of_bytes example_response in
  wf p /\ bytes_okb (arr p) = true /\ (12 <= len p)%nat /\ u16_at (view p) 6 = Some 3 /\
  exists rrs, ref_rrs NAME_LIMIT 3 (view p) 33 = Some (rrs, 101%nat) /\
    rrs_within NAME_LIMIT 3 (view p) 33 /\
    Forall (fun r => learn NAME_LIMIT (view p) r <> LBad) rrs /\
    map (learn NAME_LIMIT (view p)) rrs =
      [LCNAME [119;119;119;46;101;120;97;109;112;108;101;46;99;111;109]
              [99;100;110;46;101;120;97;109;112;108;101;46;99;111;109] 60;
       LA [99;100;110;46;101;120;97;109;112;108;101;46;99;111;109] [10;0;0;1] 60;
       LPTR [119;119;119;46;101;120;97;109;112;108;101;46;99;111;109] [1;2;3;4] 9] /\
    fst (decodeAnswers p 33 (mkSlice (repeat 0 64) 0) (new_entry [])) = Ok (101%Z, true).
Proof.
  cbv zeta. split; [unfold wf, cap; vm_compute; lia|]. split; [vm_compute; reflexivity|].
  split; [vm_compute; lia|]. split; [vm_compute; reflexivity|].
  eexists. split; [vm_compute; reflexivity|].
  split.
  { cbn [rrs_within]. unfold dotfree.
    repeat (match goal with |- context [ref_rr_at ?l ?m ?o] =>
              let v := eval vm_compute in (ref_rr_at l m o) in change (ref_rr_at l m o) with v end; cbv iota beta);
    repeat split; try (vm_compute; lia); try (intros; vm_compute; lia);
      try (intros [H|H]; vm_compute in H; discriminate);
      try (intros H; vm_compute in H; discriminate).
    all: try (intros; vm_compute; lia). }
  split; [repeat constructor; vm_compute; discriminate|].
  split; vm_compute; reflexivity.
Qed.

(* ------------------------------------------------------------------ *)
(* ProcessDNS and the DNSTable *)

Definition ctable_of (t : dns_table) : ctable := map (fun e => (de_name e, cache_of_entry e)) t.
Definition named_of (e : dns_entry) : bytes * cache := (de_name e, cache_of_entry e).

Lemma tfind_ctable name t : tfind name (ctable_of t) = option_map cache_of_entry (tbl_find name t).
Proof.
  induction t as [|e r IH]; [reflexivity|]. cbn [ctable_of map tfind tbl_find fst snd].
  pose proof (lab_eqb_bytes_eqb (de_name e) name) as E.
  destruct (bytes_eqb (de_name e) name); rewrite E; [reflexivity|exact IH].
Qed.

Lemma tbl_find_name name t e : tbl_find name t = Some e -> de_name e = name.
Proof.
  induction t as [|x r IH]; [discriminate|]. cbn [tbl_find].
  destruct (bytes_eqb (de_name x) name) eqn:E; [|exact IH].
  intros H; inversion H; subst. apply bytes_eqb_eq. exact E.
Qed.

Lemma ctable_put e t : ctable_of (tbl_put e t) = tput (de_name e) (cache_of_entry e) (ctable_of t).
Proof.
  induction t as [|x r IH]; [reflexivity|]. cbn [ctable_of map tput tbl_put fst snd].
  pose proof (lab_eqb_bytes_eqb (de_name x) (de_name e)) as E.
  destruct (bytes_eqb (de_name x) (de_name e)); rewrite E; cbn [map]; [reflexivity|].
  f_equal. exact IH.
Qed.

Lemma tput_same k c t : tfind k t = Some c -> tput k c t = t.
Proof.
  induction t as [|x r IH]; [discriminate|]. cbn [tfind tput].
  destruct (lab_eqb (fst x) k) eqn:E.
  - intros H; inversion H; subst. apply lab_eqb_eq in E. subst k. destruct x; reflexivity.
  - intros H. f_equal. apply IH. exact H.
Qed.

Lemma learn_into_false c l c' : learn_into c l = (c', false) -> c' = c.
Proof.
  destruct c as [a b cn pt]. destruct l; cbn [learn_into c_a c_aaaa c_cname c_ptr]; unfold add_absent;
    try (destruct (existsb _ _); intros H; inversion H; reflexivity); intros H; inversion H; reflexivity.
Qed.

Lemma learn_all_false ls : forall c u c', learn_all c u ls = (c', false) -> c' = c /\ u = false.
Proof.
  induction ls as [|l r IH]; intros c u c' H; cbn [learn_all] in H.
  - inversion H; auto.
  - destruct (learn_into c l) as [c1 u1] eqn:E. apply IH in H as [-> Hu].
    apply orb_false_iff in Hu as [-> ->]. apply learn_into_false in E. auto.
Qed.

Lemma not_bad_forall lim msg rrs : existsb is_bad (map (learn lim msg) rrs) = false ->
  Forall (fun r => learn lim msg r <> LBad) rrs.
Proof.
  induction rrs as [|r l IH]; intros H; [constructor|]. cbn [map existsb] in H.
  apply orb_false_iff in H as [H1 H2]. constructor; [|apply IH; exact H2].
  intros E. rewrite E in H1. discriminate.
Qed.

(* every name of the message is within the decoder's bounds *)
Definition msg_within (lim : nat) (msg : bytes) : Prop :=
  (depth_at msg 12 <= 254)%nat /\
  forall q off an, ref_question_at lim msg 12 = Some (q, off) -> u16_at msg 6 = Some an ->
                   rrs_within lim (N.to_nat an) msg off.

(* C17_processdns_table: for every previous table and every message the reference reads as a
   well-formed response (header, one question, ANCOUNT answers; names of at most lim <= 256 octets
   within the decoder's bounds), ProcessDNS succeeds, hands back exactly what the reference hands
   back (the merged entry when something was added, nothing otherwise), and the table afterwards is
   the reference table: reference learning merged insert-if-absent into the previous table. *)
Theorem processdns_table t p lim rm :
  wf p -> bytes_ok (arr p) -> (lim <= 255)%nat ->
  ref_message lim (view p) = Some rm -> msg_within lim (view p) ->
  exists re, fst (processDNS t p) = Ok re /\
             option_map named_of re = fst (ref_process (ctable_of t) rm) /\
             ctable_of (snd (processDNS t p)) = snd (ref_process (ctable_of t) rm).
Proof.
  intros Hwf Hok Hlim Hm [Hdq Hwithin]. unfold ref_message in Hm.
  destruct (u16_at (view p) 4) as [qd|] eqn:Hqd; [|discriminate].
  destruct (u16_at (view p) 6) as [an|] eqn:Han; [|discriminate].
  destruct (N.eqb_spec qd 1) as [->|]; [|discriminate]. cbn [andb] in Hm.
  destruct (Nat.leb_spec 12 (length (view p))) as [H12|]; [|discriminate]. rewrite view_length in H12 by exact Hwf.
  destruct (ref_question_at lim (view p) 12) as [[q off]|] eqn:Hq; [|discriminate].
  specialize (Hwithin q off an eq_refl eq_refl).
  destruct (ref_rrs lim (N.to_nat an) (view p) off) as [[rrs endoff]|] eqn:Hrr; [|discriminate].
  destruct (existsb is_bad (map (learn lim (view p)) rrs)) eqn:Hbad; [discriminate|].
  inversion Hm; subst rm; clear Hm. apply not_bad_forall in Hbad.
  unfold ref_question_at in Hq.
  destruct (ref_decode (view p) 12) as [[ls n]|] eqn:Hdec; [|discriminate].
  destruct (name_ok lim ls) eqn:Hnok; [|discriminate]. apply name_ok_inv in Hnok as [Hw Hqdf].
  destruct (u16_at (view p) n) as [ty|] eqn:Hty; [|discriminate].
  destruct (u16_at (view p) (n + 2)) as [cl|] eqn:Hcl; [|discriminate].
  inversion Hq; subst q off; clear Hq. cbn [rq_name].
  apply ref_decode_depth in Hdec; [|apply bytes_ok_view; exact Hok].
  unfold processDNS, processDNS_buf. destruct (Nat.ltb_spec (len p) 12); [lia|].
  change 12%Z with (Z.of_nat 12).
  rewrite (question_complete_gen p 12 _ _ ls n ty cl Hwf Hok ltac:(lia) Hqd Hdec Hdq ltac:(lia) Hqdf Hty Hcl).
  cbn [q_name]. unfold ref_process. cbn [rm_qname rm_learned]. rewrite tfind_ctable.
  set (e0 := match tbl_find (dotted ls) t with Some e => e | None => new_entry (dotted ls) end).
  assert (He0 : de_name e0 = dotted ls).
  { subst e0. destruct (tbl_find (dotted ls) t) eqn:F; [eapply tbl_find_name; eauto|reflexivity]. }
  assert (Hc0 : match option_map cache_of_entry (tbl_find (dotted ls) t) with Some c => c | None => cache_empty end
                = cache_of_entry e0).
  { subst e0. destruct (tbl_find (dotted ls) t); reflexivity. }
  rewrite Hc0.
  destruct (answers_spec p (n + 4) (mkSlice (repeat 0 64) 0) e0 lim an rrs endoff Hwf Hok ltac:(lia) Hlim Han Hrr Hwithin Hbad)
    as (u & e' & Hans & Hlearn & Hname).
  rewrite Hans, Hlearn. destruct u.
  - exists (Some e'). cbn [fst snd]. split; [reflexivity|]. unfold named_of. cbn [option_map]. rewrite Hname, He0.
    split; [reflexivity|]. rewrite ctable_put, Hname, He0. reflexivity.
  - exists None. cbn [fst snd]. split; [reflexivity|]. split; [reflexivity|].
    apply learn_all_false in Hlearn as [Hc _].
    destruct (tbl_find (dotted ls) t) as [ef|] eqn:F; [|reflexivity].
    rewrite ctable_put, Hname, He0, Hc. apply tput_same. rewrite tfind_ctable, F. subst e0. reflexivity.
Qed.

Example processdns_table_nonvacuous :
  let p := of_bytes example_response in
  wf p /\ bytes_okb (arr p) = true /\
  (exists rm, ref_message NAME_LIMIT (view p) = Some rm /\ List.length (rm_learned rm) = 3%nat) /\
  msg_within NAME_LIMIT (view p).
Proof.
  cbv zeta. split; [unfold wf, cap; vm_compute; lia|]. split; [vm_compute; reflexivity|].
  split; [eexists; split; vm_compute; reflexivity|].
  split; [vm_compute; lia|].
  intros q off an Hq Han. vm_compute in Hq. vm_compute in Han. inversion Hq; inversion Han; subst.
  destruct answers_spec_nonvacuous as (_ & _ & _ & _ & rrs & _ & Hw & _).
  exact Hw.
Qed.
