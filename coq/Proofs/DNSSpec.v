(* Proofs/DNSSpec.v — DecodeQuestion and decodeRRs against the RFC 1035 reference
   (question, RR layout, A / AAAA / CNAME learning with insert-if-absent). *)
From PV Require Import Base.Prelude Base.Slice Model.DNS Model.DNSMerge Model.DNSRecords
     Spec.RFC1035 Proofs.RFC1035 Proofs.DNS Proofs.DNSMerge Proofs.DNSRecords.
Open Scope N_scope.

Lemma u16_at_view p a v : wf p -> u16_at (view p) a = Some v ->
  (a + 2 <= len p)%nat /\ be16 (nth a (arr p) 0) (nth (a + 1) (arr p) 0) = v.
Proof.
  intros Hwf H. unfold u16_at in H.
  destruct (nth_error (view p) a) as [x|] eqn:E1; [|discriminate].
  destruct (nth_error (view p) (S a)) as [y|] eqn:E2; [|discriminate].
  assert (S a < len p)%nat as Hlt.
  { destruct (Nat.lt_ge_cases (S a) (len p)); auto. rewrite nth_error_view_none in E2 by auto. discriminate. }
  rewrite nth_error_view in E1 by (auto; lia). rewrite nth_error_view in E2 by auto.
  inversion E1; inversion E2; inversion H; subst. split; [lia|].
  unfold be16. replace (a + 1)%nat with (S a) by lia. reflexivity.
Qed.

Lemma u16_at_view_some p a : wf p -> (a + 2 <= len p)%nat ->
  u16_at (view p) a = Some (be16 (nth a (arr p) 0) (nth (a + 1) (arr p) 0)).
Proof.
  intros Hwf H. unfold u16_at. rewrite !nth_error_view by (auto; lia).
  replace (a + 1)%nat with (S a) by lia. reflexivity.
Qed.

Lemma u32_at_view p a v : wf p -> u32_at (view p) a = Some v ->
  (a + 4 <= len p)%nat /\
  be32 (nth a (arr p) 0) (nth (a + 1) (arr p) 0) (nth (a + 2) (arr p) 0) (nth (a + 3) (arr p) 0) = v.
Proof.
  intros Hwf H. unfold u32_at in H.
  destruct (u16_at (view p) a) as [x|] eqn:E1; [|discriminate].
  destruct (u16_at (view p) (a + 2)) as [y|] eqn:E2; [|discriminate].
  apply u16_at_view in E1 as [L1 E1]; auto. apply u16_at_view in E2 as [L2 E2]; auto.
  inversion H; subst. split; [lia|]. unfold be32, be16.
  replace (a + 2 + 1)%nat with (a + 3)%nat by lia. lia.
Qed.

(* ------------------------------------------------------------------ *)
(* DecodeQuestion *)

Theorem question_sound p index buffer q off : wf p -> bytes_ok (arr p) -> (12 <= len p)%nat ->
  decodeQuestion p index buffer = Ok (q, off) ->
  (0 <= index)%Z /\
  exists ls n, name_at (view p) (Z.to_nat index) ls n /\ q_name q = dotted ls /\
               u16_at (view p) n = Some (q_type q) /\ u16_at (view p) (n + 2) = Some (q_class q) /\
               off = (n + 4)%nat.
Proof.
  intros Hwf Hok H12 H. unfold decodeQuestion in H. pose proof Hwf as Hwf'. unfold wf in Hwf'.
  rewrite be16_at_ok in H by lia. cbn [bind] in H.
  destruct (negb _); [discriminate|]. destruct (Z.ltb _ _); [discriminate|].
  apply bind_ok_inv in H as ([[n endq] b] & Hn & H). cbn [fst snd] in H.
  unfold decodeNameZ in Hn. destruct (Z.leb _ _); [discriminate|].
  destruct (Z.ltb_spec index 0); [discriminate|].
  apply name_sound in Hn as (ls & Hna & Hd); auto.
  destruct (Nat.ltb_spec (len p) (endq + 4)); [discriminate|].
  rewrite !be16_at_ok in H by lia. cbn [bind] in H. inversion H; subst. cbn [q_name q_type q_class].
  split; [lia|]. exists ls, endq. repeat split; auto.
  - rewrite u16_at_view_some by (auto; lia). reflexivity.
  - rewrite u16_at_view_some by (auto; lia). replace (endq + 2 + 1)%nat with (endq + 3)%nat by lia.
    replace (endq + 2 + 1)%nat with (endq + 3)%nat by lia. reflexivity.
Qed.

(* every question the reference reads (name of at most 256 octets, at most 254 pointers, QDCOUNT 1,
   at least one label) is decoded with the same name, type, class and end offset *)
Theorem question_complete p index buffer d ls n t c : wf p -> bytes_ok (arr p) -> (12 <= len p)%nat ->
  u16_at (view p) 4 = Some 1 ->
  name_at_d (view p) d index ls n -> (d <= 254)%nat -> (wire_len ls <= 256)%nat -> ls <> [] ->
  u16_at (view p) n = Some t -> u16_at (view p) (n + 2) = Some c ->
  decodeQuestion p (Z.of_nat index) buffer = Ok (mkQ (dotted ls) t c, (n + 4)%nat).
Proof.
  intros Hwf Hok H12 Hqd Hna Hd Hw Hne Ht Hc. unfold decodeQuestion. pose proof Hwf as Hwf'. unfold wf in Hwf'.
  rewrite be16_at_ok by lia. cbn [bind].
  apply u16_at_view in Hqd as [_ Hqd]; auto. rewrite Hqd. cbn [negb N.eqb Pos.eqb].
  apply u16_at_view in Ht as [Lt Ht]; auto. apply u16_at_view in Hc as [Lc Hc]; auto.
  (* a name with at least one label occupies at least 2 bytes before n *)
  assert (index + 2 <= n)%nat as Hn2.
  { inversion Hna; subst; try contradiction; try lia.
    assert (index + 1 + N.to_nat c0 <= n)%nat; [|lia].
    clear - H3. remember (index + 1 + N.to_nat c0)%nat as o.
    clear Heqo. induction H3; lia. }
  destruct (Z.ltb_spec (Z.of_nat (len p)) (Z.of_nat index + 6)); [lia|].
  unfold decodeNameZ. destruct (Z.leb_spec (Z.of_nat (len p)) (Z.of_nat index)); [lia|].
  destruct (Z.ltb_spec (Z.of_nat index) 0); [lia|]. rewrite Nat2Z.id.
  destruct (name_complete p d index ls n (buf_of buffer) Hwf Hok Hna Hd Hw) as (b' & Hr). rewrite Hr.
  cbn [bind fst snd]. destruct (Nat.ltb_spec (len p) (n + 4)); [lia|].
  rewrite !be16_at_ok by lia. cbn [bind]. rewrite Ht.
  replace (n + 2 + 1)%nat with (n + 3)%nat in Hc by lia.
  replace (n + 2 + 1)%nat with (n + 3)%nat by lia. rewrite Hc. reflexivity.
Qed.

(* ------------------------------------------------------------------ *)
(* decodeRRs against the reference: RR layout and what is learned from A / AAAA / CNAME
   records (and ignored for other types) with insert-if-absent. *)

Definition cache_of_entry (e : dns_entry) : cache :=
  mkCache (map (fun r => (ir_ip r, ir_name r, ir_ttl r)) (de_ip4 e))
          (map (fun r => (ir_ip r, ir_name r, ir_ttl r)) (de_ip6 e))
          (map (fun r => (nr_name r, nr_cname r, nr_ttl r)) (de_cname e))
          (map (fun r => (ir_name r, ir_ip r, ir_ttl r)) (de_ptr e)).

Lemma lab_eqb_bytes_eqb a b : lab_eqb a b = bytes_eqb a b.
Proof. revert b; induction a as [|x a IH]; intros [|y b]; simpl; auto; try (rewrite IH; reflexivity). Qed.

Lemma existsb_ext' {A} (f g : A -> bool) l : (forall x, f x = g x) -> existsb f l = existsb g l.
Proof. intros H. induction l; simpl; auto. rewrite H, IHl. reflexivity. Qed.

Lemma existsb_map {A B} (f : A -> B) g l : existsb g (map f l) = existsb (fun x => g (f x)) l.
Proof. induction l; simpl; auto. rewrite IHl. reflexivity. Qed.

Lemma ins_ip_spec name ip ttl l :
  let f := fun r => (ir_ip r, ir_name r, ir_ttl r) in
  add_absent ip name ttl (map f l) =
  (map f (fst (ins_ip ir_ip (mkIPRR name ip ttl) l)), snd (ins_ip ir_ip (mkIPRR name ip ttl) l)).
Proof.
  intros f. unfold add_absent, ins_ip. rewrite existsb_map. cbn [fst ir_ip].
  assert (E : existsb (fun x => lab_eqb (fst (fst (f x))) ip) l = existsb (fun x => bytes_eqb (ir_ip x) ip) l).
  { apply existsb_ext'. intros x. apply lab_eqb_bytes_eqb. } 
  rewrite E. destruct (existsb _ l); cbn [fst snd]; [reflexivity|]. rewrite map_app. reflexivity.
Qed.

Lemma ins_name_spec name cname ttl l :
  let f := fun r => (nr_name r, nr_cname r, nr_ttl r) in
  add_absent name cname ttl (map f l) =
  (map f (fst (ins_name (mkNRR name cname ttl) l)), snd (ins_name (mkNRR name cname ttl) l)).
Proof.
  intros f. unfold add_absent, ins_name. rewrite existsb_map. cbn [fst nr_name].
  assert (E : existsb (fun x => lab_eqb (fst (fst (f x))) name) l = existsb (fun x => bytes_eqb (nr_name x) name) l).
  { apply existsb_ext'. intros x. apply lab_eqb_bytes_eqb. }
  rewrite E. destruct (existsb _ l); cbn [fst snd]; [reflexivity|]. rewrite map_app. reflexivity.
Qed.

Definition depth_at (msg : bytes) (off : nat) : nat := ref_depth (S (length msg)) msg off.

Lemma rr_name_complete p off buffer ls n : wf p -> bytes_ok (arr p) ->
  ref_decode (view p) off = Some (ls, n) -> (wire_len ls <= 256)%nat -> (depth_at (view p) off <= 254)%nat ->
  rr_decode_name p off buffer = Ok (dotted ls, n).
Proof.
  intros Hwf Hok H Hw Hd. apply ref_decode_depth in H; [|apply bytes_ok_view; exact Hok].
  destruct (name_complete p _ off ls n (buf_of buffer) Hwf Hok H Hd Hw) as (b' & Hr).
  unfold rr_decode_name. rewrite Hr. reflexivity.
Qed.

Lemma rr_step_spec p buffer off e r nx lim :
  wf p -> bytes_ok (arr p) -> (lim <= 256)%nat ->
  ref_rr_at lim (view p) off = Some (r, nx) ->
  (depth_at (view p) off <= 254)%nat ->
  rr_type r <> 12 ->
  (rr_type r = 5 -> (depth_at (view p) (rr_rdoff r) <= 254)%nat) ->
  learn lim (view p) r <> LBad ->
  exists u e', rr_step p buffer off e = (Ok (nx, u, e'), e') /\
               learn_into (cache_of_entry e) (learn lim (view p) r) = (cache_of_entry e', u).
Proof.
  intros Hwf Hok Hlim H Hd H12 Hd5 Hbad. pose proof Hwf as Hwf'. unfold wf in Hwf'.
  unfold ref_rr_at in H.
  destruct (ref_decode (view p) off) as [[ls n]|] eqn:Hdec; [|discriminate].
  destruct (Nat.leb_spec (wire_len ls) lim) as [Hw|]; [|discriminate].
  destruct (u16_at (view p) n) as [t|] eqn:Ht; [|discriminate].
  destruct (u16_at (view p) (n + 2)) as [c|] eqn:Hc; [|discriminate].
  destruct (u32_at (view p) (n + 4)) as [ttl|] eqn:Httl; [|discriminate].
  destruct (u16_at (view p) (n + 8)) as [rdl|] eqn:Hrdl; [|discriminate].
  rewrite view_length in H by exact Hwf.
  destruct (Nat.leb_spec (n + 10 + N.to_nat rdl) (len p)) as [Hnx|]; [|discriminate].
  inversion H; subst r nx; clear H. cbn [rr_type rr_rdoff] in *.
  apply u16_at_view in Ht as [Lt Ht]; auto. apply u32_at_view in Httl as [Lttl Httl]; auto.
  apply u16_at_view in Hrdl as [Lrdl Hrdl]; auto.
  unfold rr_step. rewrite (rr_name_complete p off buffer ls n) by (auto; lia).
  destruct (Nat.ltb_spec (len p) (n + 10)); [lia|].
  rewrite !be16_at_ok by lia. rewrite be32_at_ok by lia. cbn [bind].
  replace (n + 4 + 1)%nat with (n + 5)%nat in Httl by lia.
  replace (n + 4 + 2)%nat with (n + 6)%nat in Httl by lia.
  replace (n + 4 + 3)%nat with (n + 7)%nat in Httl by lia.
  replace (n + 4 + 1)%nat with (n + 5)%nat by lia.
  replace (n + 4 + 2)%nat with (n + 6)%nat by lia.
  replace (n + 4 + 3)%nat with (n + 7)%nat by lia.
  replace (n + 8 + 1)%nat with (n + 9)%nat in * by lia.
  rewrite Ht, Httl, Hrdl.
  destruct (Nat.ltb_spec (len p) (n + 10 + N.to_nat rdl)); [lia|].
  unfold learn in *. cbn [rr_type rr_rdlen rr_rdoff rr_owner rr_ttl] in *.
  destruct (N.eqb_spec t 1) as [->|T1].
  { destruct (Nat.eqb_spec (N.to_nat rdl) 4) as [E4|]; [|contradiction].
    assert (rdl = 4) as -> by lia. cbn [negb N.eqb Pos.eqb].
    rewrite <- sub_view by lia.
    pose proof (ins_ip_spec (dotted ls) (sub (view p) (n + 10) 4) ttl (de_ip4 e)) as Hs. cbv zeta in Hs.
    destruct (ins_ip ir_ip _ (de_ip4 e)) as [l u] eqn:Hi. cbn [fst snd] in Hs.
    exists u. eexists. split; [reflexivity|]. cbn [learn_into]. unfold cache_of_entry at 1. cbn [c_a].
    rewrite Hs. reflexivity. }
  destruct (N.eqb_spec t 28) as [->|T28].
  { destruct (Nat.eqb_spec (N.to_nat rdl) 16) as [E16|]; [|contradiction].
    assert (rdl = 16) as -> by lia. cbn [negb N.eqb Pos.eqb].
    rewrite <- sub_view by lia.
    pose proof (ins_ip_spec (dotted ls) (sub (view p) (n + 10) 16) ttl (de_ip6 e)) as Hs. cbv zeta in Hs.
    destruct (ins_ip ir_ip _ (de_ip6 e)) as [l u] eqn:Hi. cbn [fst snd] in Hs.
    exists u. eexists. split; [reflexivity|]. cbn [learn_into]. unfold cache_of_entry at 1. cbn [c_aaaa].
    rewrite Hs. reflexivity. }
  destruct (N.eqb_spec t 5) as [->|T5].
  { destruct (ref_decode (view p) (n + 10)) as [[cls cn]|] eqn:Hc5; [|contradiction].
    destruct (Nat.leb_spec (wire_len cls) lim) as [Hwc|]; [|contradiction].
    rewrite (rr_name_complete p (n + 10) buffer cls cn) by (auto; lia).
    pose proof (ins_name_spec (dotted ls) (dotted cls) ttl (de_cname e)) as Hs. cbv zeta in Hs.
    destruct (ins_name _ (de_cname e)) as [l u] eqn:Hi. cbn [fst snd] in Hs.
    exists u. eexists. split; [reflexivity|]. cbn [learn_into]. unfold cache_of_entry at 1. cbn [c_cname].
    rewrite Hs. reflexivity. }
  destruct (N.eqb_spec t 12) as [->|T12]; [contradiction|].
  exists false, e. split; reflexivity.
Qed.

(* depth condition on every name the answers use *)
Fixpoint rrs_shallow (lim : nat) (count : nat) (msg : bytes) (off : nat) : Prop :=
  match count with
  | O => True
  | S c =>
      match ref_rr_at lim msg off with
      | Some (r, nx) =>
          (depth_at msg off <= 254)%nat /\
          (rr_type r = 5 -> (depth_at msg (rr_rdoff r) <= 254)%nat) /\
          rrs_shallow lim c msg nx
      | None => True
      end
  end.

Lemma decodeRRs_loop_spec p buffer lim : wf p -> bytes_ok (arr p) -> (lim <= 256)%nat ->
  forall count off u e rrs endoff,
    ref_rrs lim count (view p) off = Some (rrs, endoff) ->
    rrs_shallow lim count (view p) off ->
    Forall (fun r => rr_type r <> 12) rrs ->
    Forall (fun r => learn lim (view p) r <> LBad) rrs ->
    exists u' e', decodeRRs_loop count p buffer off u e = (Ok (Z.of_nat endoff, u'), e') /\
                  learn_all (cache_of_entry e) u (map (learn lim (view p)) rrs) = (cache_of_entry e', u').
Proof.
  intros Hwf Hok Hlim. induction count as [|c IH]; intros off u e rrs endoff H Hsh H12 Hbad; cbn [ref_rrs decodeRRs_loop] in *.
  - inversion H; subst. exists u, e. split; reflexivity.
  - destruct (ref_rr_at lim (view p) off) as [[r nx]|] eqn:Hr; [|discriminate].
    destruct (ref_rrs lim c (view p) nx) as [[l e2]|] eqn:Hrest; [|discriminate].
    inversion H; subst rrs endoff; clear H. cbn [rrs_shallow] in Hsh. rewrite Hr in Hsh. destruct Hsh as (Hd & Hd5 & Hsh).
    inversion H12 as [|? ? H12a H12b]; subst. inversion Hbad as [|? ? Hba Hbb]; subst.
    destruct (rr_step_spec p buffer off e r nx lim Hwf Hok Hlim Hr Hd H12a Hd5 Hba) as (u1 & e1 & Hstep & Hlearn).
    rewrite Hstep.
    destruct (IH nx (u || u1) e1 l e2 Hrest Hsh H12b Hbb) as (u' & e' & Hloop & Hall).
    exists u', e'. split; [exact Hloop|]. cbn [map learn_all]. rewrite Hlearn. exact Hall.
Qed.

(* DecodeAnswers(p, off, buffer) on an entry e: when the reference reads ANCOUNT well-formed
   records at off, none of them a PTR record, every name within the decoder's bounds, then the
   call succeeds, returns the end of the answer section, and the entry holds exactly what the
   reference learns (first record per key wins), the flag telling whether anything was added. *)
Theorem answers_spec p off buffer e lim an rrs endoff :
  wf p -> bytes_ok (arr p) -> (12 <= len p)%nat -> (lim <= 256)%nat ->
  u16_at (view p) 6 = Some an ->
  ref_rrs lim (N.to_nat an) (view p) off = Some (rrs, endoff) ->
  rrs_shallow lim (N.to_nat an) (view p) off ->
  Forall (fun r => rr_type r <> 12) rrs ->
  Forall (fun r => learn lim (view p) r <> LBad) rrs ->
  exists u e', decodeAnswers p (Z.of_nat off) buffer e = (Ok (Z.of_nat endoff, u), e') /\
               learn_all (cache_of_entry e) false (map (learn lim (view p)) rrs) = (cache_of_entry e', u).
Proof.
  intros Hwf Hok H12 Hlim Han Hr Hsh Hn12 Hbad. unfold decodeAnswers.
  pose proof Hwf as Hwf'. unfold wf in Hwf'. rewrite be16_at_ok by lia.
  apply u16_at_view in Han as [_ Han]; auto. rewrite Han. unfold decodeRRs.
  destruct (N.to_nat an) as [|c] eqn:Ec.
  - cbn [ref_rrs] in Hr. inversion Hr; subst. exists false, e. split; reflexivity.
  - destruct (Z.ltb_spec (Z.of_nat off) 0); [lia|]. rewrite Nat2Z.id.
    destruct (decodeRRs_loop_spec p buffer lim Hwf Hok Hlim (S c) off false e rrs endoff Hr Hsh Hn12 Hbad)
      as (u' & e' & Hl & Ha).
    exists u', e'. split; assumption.
Qed.

(* non-vacuity: www.example.com CNAME cdn.example.com (compressed), cdn.example.com A 10.0.0.1
   (owner = pointer into the CNAME RDATA) *)
Definition example_response : bytes :=
  [0;1;129;128;0;1;0;2;0;0;0;0] ++
  [3;119;119;119;7;101;120;97;109;112;108;101;3;99;111;109;0;0;1;0;1] ++
  [192;12;0;5;0;1;0;0;0;60;0;6;3;99;100;110;192;16] ++
  [192;45;0;1;0;1;0;0;0;60;0;4;10;0;0;1].

Example answers_spec_nonvacuous :
  let p := of_bytes example_response in
  wf p /\ bytes_okb (arr p) = true /\ (12 <= len p)%nat /\ u16_at (view p) 6 = Some 2 /\
  exists rrs, ref_rrs NAME_LIMIT 2 (view p) 33 = Some (rrs, 67%nat) /\
    rrs_shallow NAME_LIMIT 2 (view p) 33 /\
    Forall (fun r => rr_type r <> 12) rrs /\
    Forall (fun r => learn NAME_LIMIT (view p) r <> LBad) rrs /\
    map (learn NAME_LIMIT (view p)) rrs =
      [LCNAME [119;119;119;46;101;120;97;109;112;108;101;46;99;111;109]
              [99;100;110;46;101;120;97;109;112;108;101;46;99;111;109] 60;
       LA [99;100;110;46;101;120;97;109;112;108;101;46;99;111;109] [10;0;0;1] 60] /\
    fst (decodeAnswers p 33 (mkSlice (repeat 0 64) 0) (new_entry [])) = Ok (67%Z, true).
Proof.
  cbv zeta. split; [unfold wf, cap; vm_compute; lia|]. split; [vm_compute; reflexivity|].
  split; [vm_compute; lia|]. split; [vm_compute; reflexivity|].
  eexists. split; [vm_compute; reflexivity|].
  split; [vm_compute; repeat split; try lia; intros; lia|].
  split; [repeat constructor; vm_compute; discriminate|].
  split; [repeat constructor; vm_compute; discriminate|].
  split; vm_compute; reflexivity.
Qed.
