(* Proofs/DNSNbns.v — the name ProcessNBNS extracts from a NODE STATUS answer equals the
   RFC 1002 reference (first unique name, presentation trimmed). *)
From PV Require Import Base.Prelude Base.Slice Model.DNSNbns Spec.RFC1035 Proofs.DNS.
Open Scope N_scope.

Definition l256 : list N := map N.of_nat (seq 0 256).

Definition gbit_ok (hi lo : N) : bool :=
  Bool.eqb (N.land (be16 hi lo) 32768 =? 0) (negb (128 <=? hi)).

Lemma gbit_all : forallb (fun hi => forallb (gbit_ok hi) l256) l256 = true.
Proof. vm_compute. reflexivity. Qed.

Lemma in_l256 b : b < 256 -> In b l256.
Proof. intros H. apply in_map_iff. exists (N.to_nat b). split; [lia|]. apply in_seq. lia. Qed.

Lemma gbit hi lo : hi < 256 -> lo < 256 -> (N.land (be16 hi lo) 32768 =? 0) = negb (128 <=? hi).
Proof.
  intros H1 H2. pose proof gbit_all as H. rewrite forallb_forall in H.
  specialize (H hi (in_l256 hi H1)). rewrite forallb_forall in H. specialize (H lo (in_l256 lo H2)).
  apply Bool.eqb_prop in H. exact H.
Qed.

Lemma trim_right_rev_strip c r : trim_right_rev c r = strip_right c r.
Proof. induction r as [|x r IH]; simpl; auto; try (destruct (x =? c); auto). Qed.

Lemma present_name_trim raw : trim_right 32 (trim_right 0 raw) = present_name raw.
Proof.
  unfold trim_right, present_name. rewrite rev_involutive, !trim_right_rev_strip. reflexivity.
Qed.

(* the loop collects the presented names of the unique entries i .. i+todo-1 *)
Lemma nna_loop_spec b : wf b -> bytes_ok (arr b) -> forall todo i names,
  (18 * (i + todo) <= len b)%nat ->
  nna_loop b todo i names =
  Ok (names ++ map (fun x => present_name (fst x))
                   (filter (fun x => negb (snd x)) (node_names (view b) todo (18 * i)))).
Proof.
  intros Hwf Hok. pose proof Hwf as Hwf'. unfold wf in Hwf'.
  induction todo as [|t IH]; intros i names H; cbn [nna_loop node_names].
  - cbn. rewrite app_nil_r. reflexivity.
  - rewrite be16_at_ok by lia. cbn [bind].
    rewrite gbit by (apply bytes_ok_nth; exact Hok).
    rewrite view_nth by lia.
    replace (18 * i + 16)%nat with (18 * i + 16)%nat by lia.
    destruct (128 <=? nth (18 * i + 16) (arr b) 0) eqn:G; cbn [negb filter snd].
    + rewrite IH by lia. replace (18 * S i)%nat with (18 * i + 18)%nat by lia. reflexivity.
    + rewrite sl_ok by lia. cbn [bind]. rewrite IH by lia.
      replace (18 * S i)%nat with (18 * i + 18)%nat by lia.
      cbn [map fst]. rewrite <- app_assoc. cbn [app]. f_equal. f_equal. f_equal.
      unfold view at 1. cbn [arr len]. replace (18 * i + 16 - 18 * i)%nat with 16%nat by lia.
      fold (sub (arr b) (18 * i) 16). rewrite <- sub_view by lia. apply present_name_trim.
Qed.

Lemma node_names_shift x l n : forall off, node_names (x :: l) n (S off) = node_names l n off.
Proof.
  induction n as [|n IH]; intros off; cbn [node_names]; [reflexivity|].
  f_equal. apply (IH (off + 18)%nat).
Qed.

Theorem nbns_name_spec full : bytes_ok full ->
  nbns_answer_name (of_bytes full) = Ok (node_status_name full).
Proof.
  intros Hok. unfold nbns_answer_name, processNBNSNodeStatusResponse, of_bytes. cbn [len].
  destruct (Nat.ltb_spec (length full) 3) as [Hs|Hl].
  { (* shorter than 3 bytes: nothing extracted; the reference finds no unique name either *)
    unfold node_status_name, node_status_wf.
    destruct full as [|n [|x [|y r]]]; cbn [length] in *; try lia; try reflexivity.
    - destruct (Nat.leb_spec (1 + 18 * N.to_nat n) 1); [|reflexivity].
      assert (N.to_nat n = 0%nat) as E by lia. cbn [nth]. rewrite E. reflexivity.
    - destruct (Nat.leb_spec (1 + 18 * N.to_nat n) 2); [|reflexivity].
      assert (N.to_nat n = 0%nat) as E by lia. cbn [nth]. rewrite E. reflexivity. }
  destruct full as [|n rest]; [cbn in Hl; lia|].
  unfold parseNodeNameArray.
  destruct (Nat.ltb_spec (len {| arr := n :: rest; len := length (n :: rest) |}) 1) as [Hx|_];
    [cbn [len length] in Hx; lia|].
  rewrite idx_ok by (cbn [len length]; lia). cbn [bind].
  rewrite slfrom_ok by (cbn [len length]; lia). cbn [bind].
  cbn [arr len length nth skipn].
  replace (S (length rest) - 1)%nat with (length rest) by lia.
  unfold node_status_name, node_status_wf. cbn [nth length].
  destruct (Nat.ltb_spec (length rest) (N.to_nat n * 18)) as [Hshort|Hfit].
  { destruct (Nat.leb_spec (1 + 18 * N.to_nat n) (S (length rest))); [lia|reflexivity]. }
  destruct (Nat.leb_spec (1 + 18 * N.to_nat n) (S (length rest))); [|lia].
  rewrite nna_loop_spec.
  - cbn [app]. rewrite node_names_shift.
    assert (view {| arr := rest; len := length rest |} = rest) as ->.
    { unfold view. cbn [arr len]. apply firstn_all. }
    replace (18 * 0)%nat with 0%nat by lia.
    destruct (filter _ (node_names rest (N.to_nat n) 0)) as [|[raw g] l]; reflexivity.
  - unfold wf, cap. cbn [arr len]. lia.
  - cbn [arr]. inversion Hok; auto.
  - cbn [len]. lia.
Qed.

(* ------------------------------------------------------------------ *)
(* RFC 1001 first-level encoding: encodeNBNSName / decodeNBNSName *)

Lemma nb_chars_safe buf : forall todo i acc, (i + 2 * todo <= len buf)%nat -> safe (nb_chars buf i todo acc).
Proof.
  induction todo as [|t IH]; intros i acc H; cbn [nb_chars]; [apply safe_Ok|].
  rewrite !idx_ok by lia. cbn [bind]. apply IH. lia.
Qed.

Theorem decodeNBNSName_total buf : wf buf -> safe (decodeNBNSName buf).
Proof.
  intros Hwf. unfold decodeNBNSName. destruct (Nat.ltb_spec (len buf) 34); [apply safe_Err|].
  rewrite idx_ok by lia. cbn [bind]. destruct (negb _); [apply safe_Err|].
  rewrite idx_ok by lia. cbn [bind]. destruct (negb _); [apply safe_Err|].
  rewrite slfrom_ok by lia. cbn [bind].
  apply safe_bind_ok; [apply nb_chars_safe; cbn [len]; lia|]. intros; apply safe_Ok.
Qed.

Definition nibbles : list N := map N.of_nat (seq 65 16).

Lemma in_nibbles a : is_nibble_char a = true -> In a nibbles.
Proof.
  unfold is_nibble_char. intros H. apply andb_true_iff in H as [H1 H2].
  apply in_map_iff. exists (N.to_nat a). split; [lia|]. apply in_seq. lia.
Qed.

Lemma nb_char_all : forallb (fun a => forallb (fun b => nb_char a b =? (a - 65) * 16 + (b - 65)) nibbles) nibbles = true.
Proof. vm_compute. reflexivity. Qed.

Lemma nb_char_nibble a b : is_nibble_char a = true -> is_nibble_char b = true ->
  nb_char a b = (a - 65) * 16 + (b - 65).
Proof.
  intros Ha Hb. pose proof nb_char_all as H. rewrite forallb_forall in H.
  specialize (H a (in_nibbles a Ha)). rewrite forallb_forall in H. specialize (H b (in_nibbles b Hb)).
  apply N.eqb_eq in H. exact H.
Qed.

Lemma sub_cons (l : bytes) i n : (i < length l)%nat -> sub l i (S n) = nth i l 0 :: sub l (S i) n.
Proof.
  unfold sub. revert i. induction l as [|x xs IH]; intros i H; cbn [length] in H; [lia|].
  destruct i; [reflexivity|]. cbn [skipn nth]. apply IH. lia.
Qed.

Lemma nb_chars_pairs buf : forall todo i acc raw, (i + 2 * todo <= len buf)%nat -> wf buf ->
  nb_decode_pairs (sub (arr buf) i (2 * todo)) = Some raw ->
  nb_chars buf i todo acc = Ok (acc ++ raw).
Proof.
  induction todo as [|t IH]; intros i acc raw H Hwf Hp.
  - cbn in Hp. inversion Hp. cbn [nb_chars]. rewrite app_nil_r. reflexivity.
  - unfold wf, cap in Hwf. replace (2 * S t)%nat with (S (S (2 * t))) in Hp by lia.
    rewrite sub_cons in Hp by lia. rewrite sub_cons in Hp by lia. cbn [nb_decode_pairs] in Hp.
    destruct (is_nibble_char (nth i (arr buf) 0)) eqn:Ea; [|discriminate].
    destruct (is_nibble_char (nth (S i) (arr buf) 0)) eqn:Eb; [|discriminate]. cbn [andb] in Hp.
    destruct (nb_decode_pairs (sub (arr buf) (S (S i)) (2 * t))) as [x|] eqn:Er; [|discriminate].
    inversion Hp; subst raw. cbn [nb_chars]. rewrite !idx_ok by lia. cbn [bind].
    replace (i + 1)%nat with (S i) by lia. rewrite nb_char_nibble by assumption.
    replace (i + 2)%nat with (S (S i)) by lia.
    rewrite (IH (S (S i)) _ x) by (auto; unfold wf, cap; lia). rewrite <- app_assoc. reflexivity.
Qed.

(* decodeNBNSName on a scope-less RFC 1001 name (any spare capacity): the 16 octets of the
   reference, trailing spaces removed; 33 = bytes after the length octet *)
Theorem decodeNBNSName_ref enc spare raw : nb_decode enc = Some raw ->
  decodeNBNSName (of_bytes_cap enc spare) = Ok (33%nat, present_spaces raw).
Proof.
  unfold nb_decode. destruct enc as [|c r]; [discriminate|].
  destruct (N.eqb_spec c 32) as [->|]; [|discriminate]. cbn [andb].
  destruct (Nat.eqb_spec (length r) 33) as [L|]; [|discriminate]. cbn [andb].
  destruct (N.eqb_spec (nth 32 r 1) 0) as [Z|]; [|discriminate]. intros Hp.
  unfold decodeNBNSName, of_bytes_cap. cbn [len length]. rewrite L. cbn [Nat.ltb Nat.leb].
  rewrite idx_ok by (cbn [len]; lia). cbn [bind arr Nat.sub nth app].
  assert (nth 32 (r ++ spare) 0 = 0) as ->.
  { rewrite app_nth1 by lia. rewrite (nth_indep r 0 1) by lia. exact Z. }
  cbn [negb N.eqb]. rewrite idx_ok by (cbn [len]; lia). cbn [bind arr nth negb N.eqb Pos.eqb].
  rewrite slfrom_ok by (cbn [len]; lia). cbn [bind arr len skipn Nat.sub].
  rewrite (nb_chars_pairs _ 16 0 [] raw).
  - cbn [bind app len]. unfold present_spaces, trim_right. rewrite trim_right_rev_strip. reflexivity.
  - cbn [len]. lia.
  - unfold wf, cap. cbn [arr len]. rewrite app_length. lia.
  - cbn [arr]. unfold sub. cbn [skipn]. replace (2 * 16)%nat with 32%nat by lia.
    rewrite firstn_app. replace (32 - length r)%nat with 0%nat by lia. cbn [firstn]. rewrite app_nil_r. exact Hp.
Qed.

Lemma flat_map_length2 {A} (f : A -> bytes) l : (forall x, length (f x) = 2%nat) -> length (flat_map f l) = (2 * length l)%nat.
Proof. intros H. induction l as [|x r IH]; [reflexivity|]. cbn [flat_map]. rewrite app_length, H, IH. cbn [length]. lia. Qed.

Lemma nb_decode_pairs_encode l : bytes_ok l ->
  nb_decode_pairs (flat_map (fun c => [65 + c / 16; 65 + c mod 16]) l) = Some l.
Proof.
  induction l as [|c r IH]; intros H; [reflexivity|]. inversion H as [|? ? Hc Hr]; subst. cbv beta in Hc.
  cbn [flat_map app nb_decode_pairs]. unfold is_nibble_char.
  replace ((65 <=? 65 + c / 16) && (65 + c / 16 <=? 80)) with true by lia.
  replace ((65 <=? 65 + c mod 16) && (65 + c mod 16 <=? 80)) with true by lia. cbn [andb].
  rewrite IH by exact Hr. f_equal. f_equal. lia.
Qed.

(* the reference decoding inverts the reference encoding on every 16-octet name *)
Theorem nb_decode_encode n16 : length n16 = 16%nat -> bytes_ok n16 -> nb_decode (nb_encode n16) = Some n16.
Proof.
  intros L Hok. unfold nb_decode, nb_encode.
  set (X := flat_map (fun c => [65 + c / 16; 65 + c mod 16]) n16).
  assert (length X = 32%nat) as LX.
  { subst X. rewrite flat_map_length2 by reflexivity. unfold byte in *. lia. }
  cbv beta iota. unfold bytes, byte in *. replace (32 =? 32) with true by reflexivity.
  assert (length (X ++ [0]) = 33%nat) as -> by (rewrite app_length, LX; reflexivity).
  assert (nth 32 (X ++ [0]) 1 = 0) as -> by (rewrite app_nth2 by lia; rewrite LX; reflexivity).
  assert (firstn 32 (X ++ [0]) = X) as ->.
  { rewrite firstn_app, LX, Nat.sub_diag, firstn_O, app_nil_r. rewrite <- LX. apply firstn_all. }
  cbn [Nat.eqb andb N.eqb]. subst X. apply nb_decode_pairs_encode. exact Hok.
Qed.

(* encodeNBNSName is the reference encoding of the space-padded name *)
Theorem encodeNBNSName_ref n : (length n <= 16)%nat -> encodeNBNSName n = nb_encode (nb_pad16 n).
Proof.
  intros L. unfold encodeNBNSName, nb_encode, nb_pad16.
  destruct (Nat.ltb_spec 16 (length n)); [lia|].
  assert (E : (if Nat.ltb (length n) 16 then n ++ repeat 32 (16 - length n) else n) = n ++ repeat 32 (16 - length n)).
  { destruct (Nat.ltb_spec (length n) 16); [reflexivity|].
    replace (16 - length n)%nat with 0%nat by lia. cbn [repeat]. rewrite app_nil_r. reflexivity. }
  rewrite E. f_equal. f_equal. apply flat_map_ext. intros c.
  rewrite N.shiftr_div_pow2. change 15 with (N.ones 4). rewrite N.land_ones. reflexivity.
Qed.

(* inverse: decoding the encoding of any 16-octet name gives the name back (trailing spaces removed) *)
Theorem decode_encode_NBNSName n spare : length n = 16%nat -> bytes_ok n ->
  decodeNBNSName (of_bytes_cap (encodeNBNSName n) spare) = Ok (33%nat, present_spaces n).
Proof.
  intros L Hok. rewrite encodeNBNSName_ref by lia.
  assert (nb_pad16 n = n) as ->.
  { unfold nb_pad16. rewrite L. cbn [Nat.sub repeat]. apply app_nil_r. }
  apply decodeNBNSName_ref. apply nb_decode_encode; assumption.
Qed.

(* the whole list parseNodeNameArray returns is the reference list of unique names *)
Theorem parseNodeNameArray_spec full : bytes_ok full ->
  parseNodeNameArray (of_bytes full) =
  match node_status_names full with Some l => Ok l | None => Err EFrameLen end.
Proof.
  intros Hok. unfold node_status_names, node_status_wf.
  destruct full as [|n rest]; [reflexivity|].
  unfold parseNodeNameArray, of_bytes.
  destruct (Nat.ltb_spec (len {| arr := n :: rest; len := length (n :: rest) |}) 1) as [Hx|_];
    [cbn [len length] in Hx; lia|].
  rewrite idx_ok by (cbn [len length]; lia). cbn [bind].
  rewrite slfrom_ok by (cbn [len length]; lia). cbn [bind].
  cbn [arr len length nth skipn].
  replace (S (length rest) - 1)%nat with (length rest) by lia.
  destruct (Nat.ltb_spec (length rest) (N.to_nat n * 18)) as [Hshort|Hfit].
  { destruct (Nat.leb_spec (1 + 18 * N.to_nat n) (S (length rest))); [lia|reflexivity]. }
  destruct (Nat.leb_spec (1 + 18 * N.to_nat n) (S (length rest))); [|lia].
  rewrite nna_loop_spec.
  - cbn [app]. rewrite node_names_shift.
    assert (view {| arr := rest; len := length rest |} = rest) as ->.
    { unfold view. cbn [arr len]. apply firstn_all. }
    replace (18 * 0)%nat with 0%nat by lia. reflexivity.
  - unfold wf, cap. cbn [arr len]. lia.
  - cbn [arr]. inversion Hok; auto.
  - cbn [len]. lia.
Qed.
