(* Proofs/DNSNbns.v — the name ProcessNBNS extracts from a NODE STATUS answer equals the
   RFC 1002 reference (first unique name, presentation trimmed). *)
From PV Require Import Base.Prelude Base.Slice Model.DNSNbns Spec.RFC1035 Proofs.DNS.
Open Scope N_scope.

Definition l256 : list N := map N.of_nat (seq 0 256).

Definition gbit_ok (hi lo : N) : bool :=
  Bool.eqb (N.land (be16 hi lo) 32768 =? 0) (negb (128 <=? hi)).

Lemma gbit_all : forallb (fun hi => forallb (gbit_ok hi) l256) l256 = true.
Proof. vm_compute. reflexivity. Qed.

Lemma in_l256 b : b < 256 -> In b l256.
Proof. intros H. apply in_map_iff. exists (N.to_nat b). split; [lia|]. apply in_seq. lia. Qed.

Lemma gbit hi lo : hi < 256 -> lo < 256 -> (N.land (be16 hi lo) 32768 =? 0) = negb (128 <=? hi).
Proof.
  intros H1 H2. pose proof gbit_all as H. rewrite forallb_forall in H.
  specialize (H hi (in_l256 hi H1)). rewrite forallb_forall in H. specialize (H lo (in_l256 lo H2)).
  apply Bool.eqb_prop in H. exact H.
Qed.

Lemma trim_right_rev_strip c r : trim_right_rev c r = strip_right c r.
Proof. induction r as [|x r IH]; simpl; auto; try (destruct (x =? c); auto). Qed.

Lemma present_name_trim raw : trim_right 32 (trim_right 0 raw) = present_name raw.
Proof.
  unfold trim_right, present_name. rewrite rev_involutive, !trim_right_rev_strip. reflexivity.
Qed.

(* the loop collects the presented names of the unique entries i .. i+todo-1 *)
Lemma nna_loop_spec b : wf b -> bytes_ok (arr b) -> forall todo i names,
  (18 * (i + todo) <= len b)%nat ->
  nna_loop b todo i names =
  Ok (names ++ map (fun x => present_name (fst x))
                   (filter (fun x => negb (snd x)) (node_names (view b) todo (18 * i)))).
Proof.
  intros Hwf Hok. pose proof Hwf as Hwf'. unfold wf in Hwf'.
  induction todo as [|t IH]; intros i names H; cbn [nna_loop node_names].
  - cbn. rewrite app_nil_r. reflexivity.
  - rewrite be16_at_ok by lia. cbn [bind].
    rewrite gbit by (apply bytes_ok_nth; exact Hok).
    rewrite view_nth by lia.
    replace (18 * i + 16)%nat with (18 * i + 16)%nat by lia.
    destruct (128 <=? nth (18 * i + 16) (arr b) 0) eqn:G; cbn [negb filter snd].
    + rewrite IH by lia. replace (18 * S i)%nat with (18 * i + 18)%nat by lia. reflexivity.
    + rewrite sl_ok by lia. cbn [bind]. rewrite IH by lia.
      replace (18 * S i)%nat with (18 * i + 18)%nat by lia.
      cbn [map fst]. rewrite <- app_assoc. cbn [app]. f_equal. f_equal. f_equal.
      unfold view at 1. cbn [arr len]. replace (18 * i + 16 - 18 * i)%nat with 16%nat by lia.
      fold (sub (arr b) (18 * i) 16). rewrite <- sub_view by lia. apply present_name_trim.
Qed.

Lemma node_names_shift x l n : forall off, node_names (x :: l) n (S off) = node_names l n off.
Proof.
  induction n as [|n IH]; intros off; cbn [node_names]; [reflexivity|].
  f_equal. apply (IH (off + 18)%nat).
Qed.

Theorem nbns_name_spec full : bytes_ok full ->
  nbns_answer_name (of_bytes full) = Ok (node_status_name full).
Proof.
  intros Hok. unfold nbns_answer_name, processNBNSNodeStatusResponse, of_bytes. cbn [len].
  destruct (Nat.ltb_spec (length full) 3) as [Hs|Hl].
  { (* shorter than 3 bytes: nothing extracted; the reference finds no unique name either *)
    unfold node_status_name, node_status_wf.
    destruct full as [|n [|x [|y r]]]; cbn [length] in *; try lia; try reflexivity.
    - destruct (Nat.leb_spec (1 + 18 * N.to_nat n) 1); [|reflexivity].
      assert (N.to_nat n = 0%nat) as E by lia. cbn [nth]. rewrite E. reflexivity.
    - destruct (Nat.leb_spec (1 + 18 * N.to_nat n) 2); [|reflexivity].
      assert (N.to_nat n = 0%nat) as E by lia. cbn [nth]. rewrite E. reflexivity. }
  destruct full as [|n rest]; [cbn in Hl; lia|].
  unfold parseNodeNameArray.
  destruct (Nat.ltb_spec (len {| arr := n :: rest; len := length (n :: rest) |}) 1) as [Hx|_];
    [cbn [len length] in Hx; lia|].
  rewrite idx_ok by (cbn [len length]; lia). cbn [bind].
  rewrite slfrom_ok by (cbn [len length]; lia). cbn [bind].
  cbn [arr len length nth skipn].
  replace (S (length rest) - 1)%nat with (length rest) by lia.
  unfold node_status_name, node_status_wf. cbn [nth length].
  destruct (Nat.ltb_spec (length rest) (N.to_nat n * 18)) as [Hshort|Hfit].
  { destruct (Nat.leb_spec (1 + 18 * N.to_nat n) (S (length rest))); [lia|reflexivity]. }
  destruct (Nat.leb_spec (1 + 18 * N.to_nat n) (S (length rest))); [|lia].
  rewrite nna_loop_spec.
  - cbn [app]. rewrite node_names_shift.
    assert (view {| arr := rest; len := length rest |} = rest) as ->.
    { unfold view. cbn [arr len]. apply firstn_all. }
    replace (18 * 0)%nat with 0%nat by lia.
    destruct (filter _ (node_names rest (N.to_nat n) 0)) as [|[raw g] l]; reflexivity.
  - unfold wf, cap. cbn [arr len]. lia.
  - cbn [arr]. inversion Hok; auto.
  - cbn [len]. lia.
Qed.
