(* Proofs/TablesRefine.v — C04: the table model refines the reference model of
   Spec/HostTracking.v, step by step, under the C05 invariant and the
   auxiliary invariant "an online IPv4 host is its MAC entry's current IP4". *)
From PV Require Import Base.Prelude Model.Tables Spec.HostTrackingInv Spec.HostTracking Proofs.Tables.
From Coq Require Import Permutation.
Open Scope N_scope.

(* ------------------------------------------------------------------ *)
(* the auxiliary invariant *)

Definition Inv4 (s : state) : Prop :=
  forall k h, hlookup k (hosts s) = Some h -> is4 k = true -> h_online h = true ->
  exists e, find_mac (h_mac h) (macs s) = Some e /\ m_ip4 e = k.

Definition InvR (s : state) : Prop := InvP s /\ Inv4 s.

Lemma upd_host_Inv4 k f s : keeps f -> Inv4 s ->
  (forall h, hlookup k (hosts s) = Some h -> is4 k = true -> h_online (f h) = true ->
     exists e, find_mac (h_mac h) (macs s) = Some e /\ m_ip4 e = k) ->
  Inv4 (upd_host k f s).
Proof.
  intros K I4 C k' h L V O. unfold upd_host in *. simpl in *. rewrite hlookup_hupd in L.
  destruct (ip_eqb k k') eqn:E.
  - ipeq. subst k'. destruct (hlookup k (hosts s)) as [h0|] eqn:L0; [|discriminate].
    simpl in L. inversion L; subst h. destruct (K h0) as [_ ->]. apply C; auto.
  - apply I4; auto.
Qed.

Lemma upd_host_Inv4_mono k f s : keeps f -> Inv4 s ->
  (forall h, h_online (f h) = true -> h_online h = true) -> Inv4 (upd_host k f s).
Proof. intros K I4 M. apply upd_host_Inv4; auto. Qed.

Lemma upd_mac_Inv4 m f s : mkeeps f -> Inv4 s ->
  (forall e, find_mac m (macs s) = Some e -> m_ip4 (f e) = m_ip4 e \/
     (forall k h, hlookup k (hosts s) = Some h -> h_mac h = m -> is4 k = true -> h_online h = true -> m_ip4 (f e) = k)) ->
  Inv4 (upd_mac m f s).
Proof.
  intros K I4 C k h L V O. unfold upd_mac in *. simpl in *.
  destruct (I4 k h L V O) as (e & F & E4).
  rewrite find_mac_mupd by (intros x; apply K).
  destruct (m =? h_mac h) eqn:E.
  - ipeq. subst m. rewrite F. simpl. exists (f e). split; auto.
    destruct (C e F) as [A|A]; [congruence|]. apply (A k h); auto.
  - exists e. auto.
Qed.

Lemma upd_mac_Inv4_same m f s : mkeeps f -> Inv4 s -> (forall e, m_ip4 (f e) = m_ip4 e) -> Inv4 (upd_mac m f s).
Proof. intros K I4 S. apply upd_mac_Inv4; auto. Qed.

Lemma Inv4_ext s s' : hosts s' = hosts s -> macs s' = macs s -> Inv4 s -> Inv4 s'.
Proof. unfold Inv4. intros -> ->. auto. Qed.

Lemma mfoc_Inv4 m s : Inv4 s -> Inv4 (mac_find_or_create m s).
Proof.
  intros I4. unfold mac_find_or_create. destruct (find_mac m (macs s)) eqn:F; auto.
  intros k h L V O. simpl in *. destruct (I4 k h L V O) as (e & Fe & E4).
  exists e. rewrite find_mac_app, Fe. auto.
Qed.

Lemma create_host_Inv4 m k now s : Inv4 s -> hlookup k (hosts s) = None -> Inv4 (create_host m k now s).
Proof.
  intros I4 L. unfold create_host.
  pose proof (mfoc_Inv4 m s I4) as I1.
  assert (L1 : hlookup k (hosts (mac_find_or_create m s)) = None) by (rewrite mfoc_hosts; exact L).
  set (s1 := mac_find_or_create m s) in *. clearbody s1.
  intros k' h L' V O. unfold upd_mac, hput in *. simpl in L' |- *. rewrite (hdel_absent _ _ L1) in L'. simpl in L'.
  destruct (ip_eqb k k') eqn:E.
  - inversion L'; subst h. simpl in O. discriminate.
  - destruct (I1 k' h L' V O) as (e & F & E4). rewrite find_mac_mupd by auto.
    destruct (m =? h_mac h); [rewrite F; simpl; eexists; split; [reflexivity|]; exact E4 | exists e; auto].
Qed.

Lemma mdel_empty_Inv4 m s : InvP s -> Inv4 s -> mac_hosts m s = [] -> Inv4 (set_macs (mdel m (macs s)) s).
Proof.
  intros I I4 MH. unfold mac_hosts in MH. destruct (find_mac m (macs s)) as [e|] eqn:F.
  - pose proof I as [(P & NK & NM) IO]. intros k h L V O. simpl in L |- *.
    destruct (I4 k h L V O) as (e' & F' & E4).
    rewrite find_mac_mdel by exact NM. destruct (m =? h_mac h) eqn:E.
    + ipeq. subst m. destruct (InvS_host _ _ _ (proj1 I) L) as (_ & e2 & F2 & I2).
      rewrite F in F2. inversion F2; subst e2. rewrite MH in I2. destruct I2.
    + exists e'. auto.
  - apply find_mac_None in F. rewrite (mdel_notin _ _ F). revert I4. apply Inv4_ext; reflexivity.
Qed.

Lemma delete_host_InvR k s : InvR s -> InvR (delete_host k s).
Proof.
  intros [I I4]. split; [apply delete_host_InvP; exact I|].
  unfold delete_host. destruct (hlookup k (hosts s)) as [h|] eqn:L; auto.
  eapply Inv4_ext; [apply clear_lastf_hosts|apply clear_lastf_hosts|].
  destruct (InvS_host _ _ _ (proj1 I) L) as (Hip & e & F & Ik). rewrite Hip.
  set (f := fun e => set_mhosts (remove_first k (m_hosts e)) e).
  set (s2 := set_hosts (hdel k (hosts (upd_mac (h_mac h) f s))) (upd_mac (h_mac h) f s)).
  assert (I2 : InvP s2 /\ Inv4 s2).
  { split.
    - (* re-use the C05 proof: s2 followed by the conditional mdel is delete_host up to lastf *)
      destruct I as [(P & NK & NM) IO]. split; [split; [|split]|]; simpl.
      + apply Permutation_cons_inv with (a := (k, h_ip h, h_mac h)).
        eapply Permutation_trans; [apply Permutation_sym; apply hshape_hdel_perm; auto; apply hlookup_In; auto|].
        eapply Permutation_trans; [exact P|]. rewrite Hip. apply flat_unlink with e; auto.
      + apply hdel_NoDup; auto.
      + rewrite mupd_macs; auto.
      + intros k' h' L' O. simpl in L' |- *. rewrite hlookup_hdel in L'. destruct (ip_eqb k k'); [discriminate|].
        destruct (IO k' h' L' O) as (e' & F' & OE). rewrite find_mac_mupd by auto.
        destruct (h_mac h =? h_mac h'); [rewrite F'; simpl; eexists; split; [reflexivity|]; exact OE | exists e'; auto].
    - intros k' h' L' V O. simpl in L' |- *. rewrite hlookup_hdel in L'. destruct (ip_eqb k k'); [discriminate|].
      destruct (I4 k' h' L' V O) as (e' & F' & E4). rewrite find_mac_mupd by auto.
      destruct (h_mac h =? h_mac h'); [rewrite F'; simpl; eexists; split; [reflexivity|]; exact E4 | exists e'; auto]. }
  destruct I2 as [I2 I24].
  destruct (mac_hosts (h_mac h) s2) eqn:MH; auto.
  apply mdel_empty_Inv4; auto.
Qed.

Lemma fold_left_InvR {A} (g : state -> A -> state) l :
  (forall s a, InvR s -> InvR (g s a)) -> forall s, InvR s -> InvR (fold_left g l s).
Proof. intros G. induction l as [|a r IH]; simpl; auto. Qed.

Lemma upd_host_InvR_mono k f s : keeps f ->
  (forall h, h_online (f h) = true -> h_online h = true) -> InvR s -> InvR (upd_host k f s).
Proof. intros K M [A B]. split; [apply upd_host_InvP_mono | apply upd_host_Inv4_mono]; auto. Qed.

Lemma upd_mac_InvR_same m f s : mkeeps f ->
  (forall e, m_online e = true -> m_online (f e) = true) -> (forall e, m_ip4 (f e) = m_ip4 e) ->
  InvR s -> InvR (upd_mac m f s).
Proof. intros K M S [A B]. split; [apply upd_mac_InvP_mono | apply upd_mac_Inv4_same]; auto. Qed.

Lemma find_or_create_InvR m k now s s' b :
  find_or_create m k now s = Ok (s', b) -> InvR s -> InvR s'.
Proof.
  intros H [I I4]. split; [eapply find_or_create_InvP; eauto|].
  unfold find_or_create in H. destruct (hlookup k (hosts s)) as [h|] eqn:L.
  - destruct (h_mac h =? m).
    + inversion H; subst. apply upd_host_Inv4_mono; auto; keeps_tac.
    + destruct (print_table s); simpl in H; try discriminate. inversion H; subst.
      apply create_host_Inv4; [apply delete_host_InvR; split; auto|].
      rewrite delete_host_hosts, hlookup_hdel, ip_eqb_refl. reflexivity.
  - inversion H; subst. apply create_host_Inv4; auto.
Qed.

(* ------------------------------------------------------------------ *)
(* onlineTransition, characterised by lookups *)

Definition sup_cond (k : ip) (l : list ip) (k' : ip) : bool :=
  existsb (fun v => is4 v && negb (ip_eqb v k) && ip_eqb v k') l.

Lemma supersede_idem h : supersede (supersede h) = supersede h.
Proof. unfold supersede. destruct (h_online h) eqn:E; simpl; [reflexivity|]. rewrite E. reflexivity. Qed.

Lemma fold_sup_macs k l : forall s,
  macs (fold_left (fun st v => if is4 v && negb (ip_eqb v k) then upd_host v supersede st else st) l s) = macs s.
Proof.
  induction l as [|v r IH]; simpl; auto. intros s. rewrite IH. destruct (is4 v && negb (ip_eqb v k)); reflexivity.
Qed.

Lemma fold_sup_chan k l : forall s,
  chan (fold_left (fun st v => if is4 v && negb (ip_eqb v k) then upd_host v supersede st else st) l s) = chan s /\
  lastf (fold_left (fun st v => if is4 v && negb (ip_eqb v k) then upd_host v supersede st else st) l s) = lastf s.
Proof.
  induction l as [|v r IH]; simpl; auto. intros s. destruct (IH (if is4 v && negb (ip_eqb v k) then upd_host v supersede s else s)) as [-> ->].
  destruct (is4 v && negb (ip_eqb v k)); auto.
Qed.

Lemma fold_sup_lookup k l k' : forall s,
  hlookup k' (hosts (fold_left (fun st v => if is4 v && negb (ip_eqb v k) then upd_host v supersede st else st) l s)) =
  if sup_cond k l k' then option_map supersede (hlookup k' (hosts s)) else hlookup k' (hosts s).
Proof.
  unfold sup_cond. induction l as [|v r IH]; simpl; auto. intros s. rewrite IH.
  destruct (is4 v && negb (ip_eqb v k)) eqn:P; simpl.
  - unfold upd_host. simpl. rewrite hlookup_hupd. destruct (ip_eqb v k') eqn:E; simpl.
    + destruct (existsb _ r); destruct (hlookup k' (hosts s)); simpl; rewrite ?supersede_idem; reflexivity.
    + reflexivity.
  - reflexivity.
Qed.

Lemma sup_cond_true k l k' : sup_cond k l k' = true <-> In k' l /\ is4 k' = true /\ k' <> k.
Proof.
  unfold sup_cond. rewrite existsb_exists. split.
  - intros (v & Iv & H). apply andb_prop in H. destruct H as [H E]. apply andb_prop in H. destruct H as [V N].
    ipeq. subst v. apply negb_true_iff in N. ipeq. auto.
  - intros (I & V & N). exists k'. split; auto. rewrite V, ip_eqb_refl. simpl.
    rewrite andb_true_r. apply negb_true_iff. apply ip_eqb_neq. exact N.
Qed.

Lemma mupd_mupd m f g l : (forall e, m_mac (g e) = m_mac e) ->
  mupd m f (mupd m g l) = mupd m (fun e => f (g e)) l.
Proof.
  intros K. unfold mupd. rewrite map_map. apply map_ext. intros e.
  destruct (m_mac e =? m) eqn:E; [rewrite K, E; reflexivity | rewrite E; reflexivity].
Qed.

(* what onlineTransition does, for a host that is indexed, offline, under the invariant *)
Lemma online_transition_char k s h e :
  InvP s -> hlookup k (hosts s) = Some h -> h_online h = false ->
  find_mac (h_mac h) (macs s) = Some e ->
  let s' := online_transition k s in
  (forall k', hlookup k' (hosts s') =
     if ip_eqb k k' then Some (set_dirty true (set_online true h))
     else if is4 k && negb (ip_eqb k (m_ip4 e)) && sup_cond k (m_hosts e) k'
          then option_map supersede (hlookup k' (hosts s)) else hlookup k' (hosts s)) /\
  (exists g, mkeeps g /\ m_online (g e) = true /\ m_ip4 (g e) = (if is4 k then k else m_ip4 e) /\
             (forall x, m_online x = true -> m_online (g x) = true) /\
             macs s' = mupd (h_mac h) g (macs s)) /\
  chan s' = chan s /\ lastf s' = lastf s.
Proof.
  intros I L O F. destruct (InvS_host _ _ _ (proj1 I) L) as (Hip & _).
  unfold online_transition. rewrite L, O. rewrite Hip.
  assert (F2 : find_mac (h_mac h) (macs (upd_host k (fun x => set_dirty true (set_online true x))
                 (upd_mac (h_mac h) (set_monline true) s))) = Some (set_monline true e)).
  { simpl. rewrite find_mac_mupd by auto. rewrite N.eqb_refl, F. reflexivity. }
  rewrite F2. cbn [m_ip4 set_monline m_hosts m_gua m_lla].
  assert (LK : forall k', hlookup k' (hupd k (fun x => set_dirty true (set_online true x)) (hosts s)) =
                     if ip_eqb k k' then Some (set_dirty true (set_online true h)) else hlookup k' (hosts s)).
  { intros k'. rewrite hlookup_hupd. destruct (ip_eqb k k') eqn:E; auto. ipeq. subst k'. rewrite L. reflexivity. }
  destruct (is4 k) eqn:V.
  - destruct (negb (ip_eqb k (m_ip4 e))) eqn:NE; simpl.
    + split; [|split; [|split]].
      * intros k'. rewrite fold_sup_lookup. simpl. rewrite LK.
        destruct (ip_eqb k k') eqn:E.
        -- ipeq. subst k'. destruct (sup_cond k (m_hosts e) k) eqn:SC; auto.
           apply sup_cond_true in SC. destruct SC as (_ & _ & N). congruence.
        -- reflexivity.
      * exists (fun x => set_mip4 k (set_monline true x)). repeat split; auto.
        rewrite fold_sup_macs. simpl. apply mupd_mupd. auto.
      * rewrite (proj1 (fold_sup_chan _ _ _)). reflexivity.
      * rewrite (proj2 (fold_sup_chan _ _ _)). reflexivity.
    + split; [|split; [|split]]; [ | | reflexivity | reflexivity].
      * intros k'. simpl. rewrite LK. destruct (ip_eqb k k'); reflexivity.
      * exists (set_monline true). repeat split; auto. simpl.
        apply negb_false_iff in NE. ipeq. auto.
  - simpl.
    set (c1 := is_gua k && negb (ip_eqb k (m_gua e))). set (c2 := is_llu k && negb (ip_eqb k (m_lla e))).
    split; [|split; [|split]].
    + intros k'. destruct c1, c2; simpl; rewrite LK; destruct (ip_eqb k k'); reflexivity.
    + exists (fun x => (if c2 then set_mlla k else fun y => y) ((if c1 then set_mgua k else fun y => y) (set_monline true x))).
      split; [intros x; destruct c1, c2; split; reflexivity|].
      split; [destruct c1, c2; reflexivity|]. split; [destruct c1, c2; reflexivity|].
      split; [intros x; destruct c1, c2; simpl; auto|].
      destruct c1, c2; simpl; rewrite ?mupd_mupd by auto; reflexivity.
    + destruct c1, c2; reflexivity.
    + destruct c1, c2; reflexivity.
Qed.

Lemma supersede_offline h : h_online (supersede h) = false.
Proof. unfold supersede. destruct (h_online h) eqn:E; simpl; auto. Qed.

Lemma online_transition_InvR k s : InvR s -> InvR (online_transition k s).
Proof.
  intros [I I4]. split; [apply online_transition_InvP; exact I|].
  destruct (hlookup k (hosts s)) as [h|] eqn:L; [|unfold online_transition; rewrite L; exact I4].
  destruct (h_online h) eqn:O; [unfold online_transition; rewrite L, O; exact I4|].
  destruct (InvS_host _ _ _ (proj1 I) L) as (Hip & e & F & Ik).
  destruct (online_transition_char k s h e I L O F) as (LK & (g & Kg & Og & G4 & _ & MS) & _).
  intros k' h' L' V' O'. rewrite LK in L'. rewrite MS. rewrite find_mac_mupd by (intros x; apply Kg).
  destruct (ip_eqb k k') eqn:E.
  - ipeq. subst k'. inversion L'; subst h'. simpl. rewrite N.eqb_refl, F. simpl.
    eexists; split; [reflexivity|]. rewrite G4, V'. reflexivity.
  - destruct (is4 k && negb (ip_eqb k (m_ip4 e)) && sup_cond k (m_hosts e) k') eqn:C.
    + destruct (hlookup k' (hosts s)) as [h0|]; [|discriminate]. simpl in L'. inversion L'; subst h'.
      rewrite supersede_offline in O'. discriminate.
    + destruct (I4 k' h' L' V' O') as (e' & F' & E4).
      destruct (h_mac h =? h_mac h') eqn:EM.
      * ipeq. rewrite <- EM in F'. rewrite F in F'. inversion F'; subst e'. rewrite <- EM, F. simpl.
        eexists; split; [reflexivity|]. rewrite G4.
        destruct (is4 k) eqn:V; auto. exfalso.
        destruct (InvS_host _ _ _ (proj1 I) L') as (_ & e2 & F2 & I2). rewrite <- EM, F in F2. inversion F2; subst e2.
        assert (SC : sup_cond k (m_hosts e) k' = true).
        { apply sup_cond_true. repeat split; auto. }
        rewrite SC in C. simpl in C. rewrite andb_true_r in C. apply negb_false_iff in C. ipeq.
        apply E. rewrite C. exact E4.
      * exists e'. auto.
Qed.

Lemma send_InvR n s : InvR s -> InvR (send n s).
Proof. unfold send. destruct (Nat.ltb _ _); auto. Qed.

Lemma make_offline_InvR k s : InvR s -> InvR (make_offline k s).
Proof.
  intros [I I4]. split; [apply make_offline_InvP; exact I|].
  unfold make_offline. destruct (hlookup k (hosts s)) as [h0|] eqn:L; auto.
  set (s1 := upd_host k (fun x => set_dirty false (set_online false x)) s).
  assert (I1 : Inv4 s1) by (apply upd_host_Inv4_mono; auto; keeps_tac; intros ? ?; discriminate).
  cbn [h_mac set_dirty set_online].
  set (mo := existsb (fun v => host_online v s1) (mac_hosts (h_mac h0) s1)).
  assert (I2 : Inv4 (upd_mac (h_mac h0) (set_monline mo) s1)) by (apply upd_mac_Inv4_same; auto; keeps_tac).
  destruct (Nat.ltb _ _); [|exact I2]. unfold send. destruct (Nat.ltb _ _); exact I2.
Qed.

Lemma notify_host_InvR k fl s : InvR s -> InvR (notify_host k fl s).
Proof.
  intros I. unfold notify_host. destruct (hlookup k (hosts s)) as [h|] eqn:L; auto.
  destruct (negb (h_dirty h)); auto.
  match goal with |- context [fold_left ?g ?l s] => set (s1 := fold_left g l s) end.
  assert (I1 : InvR s1).
  { apply fold_left_InvR; auto. intros. apply make_offline_InvR. auto. }
  destruct (hlookup k (hosts s1)); auto.
  apply send_InvR. apply upd_host_InvR_mono; auto; keeps_tac.
Qed.

Lemma notify_InvR f s : InvR s -> InvR (notify f s).
Proof.
  intros I. unfold notify. destruct (fr_host f).
  - apply notify_host_InvR; auto.
  - destruct (negb (fr_dhcp4 f)); auto.
    destruct (negb (is_valid _)); auto.
    destruct (hlookup _ (hosts s)); auto. apply notify_host_InvR; auto.
Qed.

Lemma update_name_InvR kd k name s : InvR s -> InvR (update_name kd k name s).
Proof.
  intros I. unfold update_name. destruct (hlookup k (hosts s)); auto.
  destruct (merge _ _) as [nm [|]]; auto.
  apply upd_mac_InvR_same; keeps_tac. apply upd_host_InvR_mono; auto; keeps_tac.
Qed.

Lemma rx_InvR c f now s s' fr : rx c f now s = Ok (s', fr) -> InvR s -> InvR s'.
Proof.
  unfold rx. intros H I. destruct (host_event c f) as [[m k]|].
  - destruct (find_or_create m k now s) as [[s1 b]| | |] eqn:F; simpl in H; try discriminate.
    pose proof (find_or_create_InvR _ _ _ _ _ _ F I) as I1.
    destruct (negb (host_online k s1)); inversion H; subst; auto.
    apply online_transition_InvR. exact I1.
  - inversion H; subst. exact I.
Qed.

Lemma dhcp4_update_InvR m k name now s s' e :
  dhcp4_update m k name now s = Ok (s', e) -> InvR s -> InvR s'.
Proof.
  unfold dhcp4_update. intros H I. destruct (negb (is_valid k) || is_unspecified k).
  - inversion H; subst. exact I.
  - destruct (find_or_create m k now s) as [[s1 b]| | |] eqn:F; simpl in H; try discriminate.
    pose proof (find_or_create_InvR _ _ _ _ _ _ F I) as I1.
    assert (I2 : InvR (upd_mac m (set_moffer k) (update_name KDhcp k name s1))).
    { apply upd_mac_InvR_same; keeps_tac. apply update_name_InvR. exact I1. }
    inversion H; subst. destruct (negb (host_online k _)); auto.
    apply online_transition_InvR. exact I2.
Qed.

Lemma mfoc_InvR m s : InvR s -> InvR (mac_find_or_create m s).
Proof. intros [A B]. split; [apply mfoc_InvP | apply mfoc_Inv4]; auto. Qed.

Lemma set_offer_InvR m k name s : InvR s -> InvR (set_offer m k name s).
Proof. intros I. unfold set_offer. apply upd_mac_InvR_same; keeps_tac. apply mfoc_InvR. exact I. Qed.

Lemma capture_InvR m s : InvR s -> InvR (fst (capture m s)).
Proof.
  intros I. unfold capture. pose proof (mfoc_InvR m s I) as I1.
  destruct (find_mac m (macs (mac_find_or_create m s))) as [e|]; simpl; auto.
  destruct (m_captured e); simpl; auto. destruct (m_router e); simpl; auto.
  apply upd_mac_InvR_same; auto; keeps_tac.
Qed.

Lemma release_InvR m s : InvR s -> InvR (release m s).
Proof. intros I. unfold release. apply upd_mac_InvR_same; auto; keeps_tac. Qed.

Lemma purge_InvR c now order s : InvR s -> InvR (purge c now order s).
Proof.
  intros I. unfold purge. apply fold_left_InvR; [intros; apply delete_host_InvR; auto|].
  apply fold_left_InvR; [intros; apply make_offline_InvR; auto|]. exact I.
Qed.

Theorem step_InvR c s o : InvR s -> InvR (fst (step c s o)).
Proof.
  intros I. destruct o; simpl.
  - destruct (rx c f now s) as [[s' fr]| | |] eqn:R; simpl; auto.
    exact (rx_InvR _ _ _ _ _ _ R I).
  - destruct (lastf s); simpl; auto. apply notify_InvR. exact I.
  - destruct (dhcp4_update m k name now s) as [[s' [e|]]| | |] eqn:R; simpl; auto;
      eapply dhcp4_update_InvR; eauto.
  - apply set_offer_InvR. exact I.
  - pose proof (capture_InvR m s I) as C. destruct (capture m s) as [s' [e|]]; exact C.
  - apply release_InvR. exact I.
  - apply purge_InvR. exact I.
  - apply update_name_InvR. exact I.
  - exact I.
Qed.

Theorem run_InvR c ops : forall s, InvR s -> InvR (run c s ops).
Proof. induction ops as [|o r IH]; simpl; auto. intros s I. apply IH. apply step_InvR. exact I. Qed.

Lemma empty_Inv4 : Inv4 empty_state.
Proof. intros k h L. discriminate. Qed.

Lemma mark_online_Inv4 k m f g s : InvR s -> keeps f -> mkeeps g ->
  (forall e, m_ip4 (g e) = k) ->
  (forall h, hlookup k (hosts s) = Some h -> h_mac h = m) ->
  (forall k' h', hlookup k' (hosts s) = Some h' -> h_mac h' = m -> k' <> k -> h_online h' = false) ->
  Inv4 (upd_host k f (upd_mac m g s)).
Proof.
  intros [I I4] Kf Kg G M OTH k' h' L' V' O'. simpl in L' |- *. rewrite hlookup_hupd in L'.
  rewrite find_mac_mupd by (intros x; apply Kg).
  destruct (ip_eqb k k') eqn:E.
  - ipeq. subst k'. destruct (hlookup k (hosts s)) as [h0|] eqn:L0; [|discriminate]. simpl in L'. inversion L'; subst h'.
    destruct (Kf h0) as [_ ->]. rewrite (M h0 eq_refl), N.eqb_refl.
    destruct (InvS_host _ _ _ (proj1 I) L0) as (_ & e & F & _). rewrite (M h0 eq_refl) in F. rewrite F. simpl.
    eexists; split; [reflexivity|]. apply G.
  - destruct (m =? h_mac h') eqn:EM.
    + ipeq. rewrite (OTH k' h' L' (eq_sym EM)) in O'; [discriminate|]. intros X. subst k'. apply E. reflexivity.
    + apply I4; auto.
Qed.

(* ------------------------------------------------------------------ *)
(* lookups after the structural primitives *)

Lemma hlookup_hupd_absent k f l : hlookup k l = None -> hupd k f l = l.
Proof.
  induction l as [|[k0 h0] r IH]; simpl; auto. destruct (ip_eqb k0 k) eqn:E; [discriminate|].
  intros H. rewrite IH; auto.
Qed.

Lemma find_or_create_char m k now s s' b :
  find_or_create m k now s = Ok (s', b) ->
  forall k', hlookup k' (hosts s') =
    if ip_eqb k k' then
      Some (match hlookup k (hosts s) with
            | Some h => if h_mac h =? m then set_last now h else new_host m k now
            | None => new_host m k now end)
    else hlookup k' (hosts s).
Proof.
  unfold find_or_create. intros H k'. destruct (hlookup k (hosts s)) as [h|] eqn:L.
  - destruct (h_mac h =? m) eqn:E.
    + inversion H; subst. simpl. rewrite hlookup_hupd. destruct (ip_eqb k k') eqn:E'; auto.
      ipeq. subst k'. rewrite L. reflexivity.
    + destruct (print_table s); simpl in H; try discriminate. inversion H; subst.
      unfold create_host, upd_mac, hput. simpl. rewrite mfoc_hosts, delete_host_hosts.
      destruct (ip_eqb k k') eqn:E'; auto.
      rewrite !hlookup_hdel, E'. reflexivity.
  - inversion H; subst. unfold create_host, upd_mac, hput. simpl. rewrite mfoc_hosts.
    destruct (ip_eqb k k') eqn:E'; auto. rewrite hlookup_hdel, E'. reflexivity.
Qed.

Lemma make_offline_lookup k s k' :
  hlookup k' (hosts (make_offline k s)) =
  if ip_eqb k k' then option_map (fun x => set_dirty false (set_online false x)) (hlookup k' (hosts s))
  else hlookup k' (hosts s).
Proof.
  unfold make_offline. destruct (hlookup k (hosts s)) as [h0|] eqn:L.
  - assert (H : hosts (if Nat.ltb (List.length (chan (upd_mac (h_mac (set_dirty false (set_online false h0)))
                 (set_monline (existsb (fun v => host_online v (upd_host k (fun x => set_dirty false (set_online false x)) s))
                    (mac_hosts (h_mac (set_dirty false (set_online false h0))) (upd_host k (fun x => set_dirty false (set_online false x)) s))))
                 (upd_host k (fun x => set_dirty false (set_online false x)) s)))) chan_cap
              then send (to_notif (set_dirty false (set_online false h0)) (upd_host k (fun x => set_dirty false (set_online false x)) s))
                   (upd_mac (h_mac (set_dirty false (set_online false h0)))
                      (set_monline (existsb (fun v => host_online v (upd_host k (fun x => set_dirty false (set_online false x)) s))
                         (mac_hosts (h_mac (set_dirty false (set_online false h0))) (upd_host k (fun x => set_dirty false (set_online false x)) s))))
                      (upd_host k (fun x => set_dirty false (set_online false x)) s))
              else upd_mac (h_mac (set_dirty false (set_online false h0)))
                      (set_monline (existsb (fun v => host_online v (upd_host k (fun x => set_dirty false (set_online false x)) s))
                         (mac_hosts (h_mac (set_dirty false (set_online false h0))) (upd_host k (fun x => set_dirty false (set_online false x)) s))))
                      (upd_host k (fun x => set_dirty false (set_online false x)) s))
             = hupd k (fun x => set_dirty false (set_online false x)) (hosts s)).
    { destruct (Nat.ltb _ _); [unfold send; destruct (Nat.ltb _ _)|]; reflexivity. }
    rewrite H. apply hlookup_hupd.
  - destruct (ip_eqb k k') eqn:E; auto. ipeq. subst k'. rewrite L. reflexivity.
Qed.

(* ------------------------------------------------------------------ *)
(* refinement: abs (step s o) = ref_step (abs s) o, pointwise *)

Lemma abs_upd_host_same k f s k' : (forall h, aof (f h) = aof h) -> abs (upd_host k f s) k' = abs s k'.
Proof.
  intros A. unfold abs, upd_host. simpl. rewrite hlookup_hupd. destruct (ip_eqb k k'); auto.
  destruct (hlookup k' (hosts s)); simpl; auto. rewrite A. reflexivity.
Qed.

Lemma aof_supersede h : aof (supersede h) = a_offline (aof h).
Proof. unfold supersede, aof, a_offline. destruct (h_online h) eqn:E; simpl; rewrite ?E; reflexivity. Qed.

(* the IP-change rule, applied to an address that is not the MAC's current online address *)
Definition mark (m : mac) (k : ip) (now : Z) (a : amap) : amap :=
  fun k' =>
    if ip_eqb k' k then Some {| a_mac := m; a_online := true; a_last := now |}
    else match a k' with
         | Some e => if is4 k && is4 k' && (a_mac e =? m) then Some (a_offline e) else Some e
         | None => None
         end.

Lemma online_transition_refine k s h :
  InvR s -> hlookup k (hosts s) = Some h -> h_online h = false ->
  forall k', abs (online_transition k s) k' = mark (h_mac h) k (h_last h) (abs s) k'.
Proof.
  intros [I I4] L O k'.
  destruct (InvS_host _ _ _ (proj1 I) L) as (Hip & e & F & Ik).
  destruct (online_transition_char k s h e I L O F) as (LK & _).
  unfold abs, mark. rewrite LK. rewrite (ip_eqb_sym k' k).
  destruct (ip_eqb k k') eqn:E; [reflexivity|].
  destruct (hlookup k' (hosts s)) as [h0|] eqn:L0; simpl;
    [|destruct (is4 k && negb (ip_eqb k (m_ip4 e)) && sup_cond k (m_hosts e) k'); reflexivity].
  destruct (InvS_host _ _ _ (proj1 I) L0) as (_ & e0 & F0 & Ik0).
  destruct (is4 k && negb (ip_eqb k (m_ip4 e)) && sup_cond k (m_hosts e) k') eqn:C; simpl.
  - (* the model marks k': so does the reference *)
    apply andb_prop in C. destruct C as [C SC]. apply andb_prop in C. destruct C as [V NE].
    apply sup_cond_true in SC. destruct SC as (Ik' & V' & N).
    destruct (InvS_listed _ _ _ _ (proj1 I) F Ik') as (h1 & L1 & M1 & _). rewrite L0 in L1. inversion L1; subst h1.
    rewrite V, V', M1, N.eqb_refl. simpl. rewrite aof_supersede. reflexivity.
  - (* the model does not mark k': either the reference does not, or k' is offline already *)
    destruct (is4 k && is4 k' && (h_mac h0 =? h_mac h)) eqn:C2; [|reflexivity].
    apply andb_prop in C2. destruct C2 as [C2 EM]. apply andb_prop in C2. destruct C2 as [V V']. ipeq.
    rewrite EM in F0. rewrite F in F0. inversion F0; subst e0.
    assert (SC : sup_cond k (m_hosts e) k' = true).
    { apply sup_cond_true. repeat split; auto. }
    rewrite V, SC in C. simpl in C. rewrite andb_true_r in C. apply negb_false_iff in C. ipeq.
    destruct (h_online h0) eqn:O0.
    + exfalso. destruct (I4 k' h0 L0 V' O0) as (e1 & F1 & E1). rewrite EM, F in F1. inversion F1; subst e1.
      apply E. rewrite C. exact E1.
    + unfold aof, a_offline. simpl. rewrite O0. reflexivity.
Qed.

(* seeing (m, k): findOrCreate followed by the conditional onlineTransition *)
Lemma sight_mark m k now a k' :
  sight m k now a k' =
  if match a k with Some e => (a_mac e =? m) && a_online e | None => false end
  then (if ip_eqb k' k then Some {| a_mac := m; a_online := true; a_last := now |} else a k')
  else mark m k now a k'.
Proof.
  unfold sight, mark. destruct (match a k with Some e => (a_mac e =? m) && a_online e | None => false end); simpl; auto.
  destruct (ip_eqb k' k); auto. destruct (a k'); auto.
Qed.

Lemma mark_ext m k now a a' k' : (forall x, x <> k -> a x = a' x) -> mark m k now a k' = mark m k now a' k'.
Proof.
  intros H. unfold mark. destruct (ip_eqb k' k) eqn:E; auto. ipeq. rewrite H; auto.
Qed.

(* a state s2 in which (m,k) has just been registered by findOrCreate (possibly followed by
   flag-only updates): completing it with the conditional onlineTransition yields [sight] *)
Lemma sight_refine m k now s s2 h2 :
  InvR s2 -> hlookup k (hosts s2) = Some h2 -> h_mac h2 = m -> h_last h2 = now ->
  (forall x, x <> k -> abs s2 x = abs s x) ->
  h_online h2 = match abs s k with Some e => (a_mac e =? m) && a_online e | None => false end ->
  forall k', abs (if negb (host_online k s2) then online_transition k s2 else s2) k' = sight m k now (abs s) k'.
Proof.
  intros I2 L2 M2 T2 OTH CUR k'. rewrite sight_mark. rewrite <- CUR.
  unfold host_online. rewrite L2. destruct (h_online h2) eqn:O2; simpl.
  - destruct (ip_eqb k' k) eqn:E.
    + ipeq. subst k'. unfold abs. rewrite L2. simpl. unfold aof. rewrite M2, T2, O2. reflexivity.
    + ipeq. apply OTH. exact E.
  - rewrite (online_transition_refine k s2 h2 I2 L2 O2). rewrite M2, T2. apply mark_ext. exact OTH.
Qed.

Lemma foc_current m k now s :
  h_online (match hlookup k (hosts s) with
            | Some h => if h_mac h =? m then set_last now h else new_host m k now
            | None => new_host m k now end) =
  match abs s k with Some e => (a_mac e =? m) && a_online e | None => false end.
Proof.
  unfold abs. destruct (hlookup k (hosts s)) as [h|]; simpl; auto.
  destruct (h_mac h =? m); simpl; auto.
Qed.

Lemma rx_refine c f now s s' fr m k :
  InvR s -> host_event c f = Some (m, k) -> rx c f now s = Ok (s', fr) ->
  forall k', abs s' k' = sight m k now (abs s) k'.
Proof.
  intros I HE R k'. unfold rx in R. rewrite HE in R.
  destruct (find_or_create m k now s) as [[s1 b]| | |] eqn:F; simpl in R; try discriminate.
  pose proof (find_or_create_InvR _ _ _ _ _ _ F I) as I1.
  pose proof (find_or_create_char _ _ _ _ _ _ F) as CH.
  assert (E : s' = if negb (host_online k s1) then online_transition k s1 else s1).
  { destruct (negb (host_online k s1)); inversion R; reflexivity. }
  rewrite E. eapply sight_refine; eauto.
  - rewrite CH, ip_eqb_refl. reflexivity.
  - destruct (hlookup k (hosts s)) as [h|]; [destruct (h_mac h =? m) eqn:EM; ipeq; auto|]; reflexivity.
  - destruct (hlookup k (hosts s)) as [h|]; [destruct (h_mac h =? m)|]; reflexivity.
  - intros x N. unfold abs. rewrite CH. destruct (ip_eqb k x) eqn:EX; auto. ipeq. congruence.
  - apply foc_current.
Qed.

Lemma update_name_lookup kd k name s k' :
  exists f, (forall h, aof (f h) = aof h) /\ (forall h, h_mac (f h) = h_mac h) /\
    hlookup k' (hosts (update_name kd k name s)) = option_map f (hlookup k' (hosts s)).
Proof.
  unfold update_name. destruct (hlookup k (hosts s)) as [h|] eqn:L.
  - destruct (merge _ _) as [nm [|]].
    + simpl. rewrite hlookup_hupd. destruct (ip_eqb k k').
      * eexists; split; [|split; [|reflexivity]]; reflexivity.
      * exists (fun h => h). split; [reflexivity|]. split; [reflexivity|]. destruct (hlookup k' (hosts s)); reflexivity.
    + exists (fun h => h). split; [reflexivity|]. split; [reflexivity|]. destruct (hlookup k' (hosts s)); reflexivity.
  - exists (fun h => h). split; [reflexivity|]. split; [reflexivity|]. destruct (hlookup k' (hosts s)); reflexivity.
Qed.

Lemma abs_update_name kd k name s k' : abs (update_name kd k name s) k' = abs s k'.
Proof.
  unfold abs. destruct (update_name_lookup kd k name s k') as (f & A & _ & ->).
  destruct (hlookup k' (hosts s)); simpl; auto. rewrite A. reflexivity.
Qed.

Lemma dhcp4_update_refine m k name now s s' e :
  InvR s -> is_valid k && negb (is_unspecified k) = true ->
  dhcp4_update m k name now s = Ok (s', e) ->
  forall k', abs s' k' = sight m k now (abs s) k'.
Proof.
  intros I V R k'. unfold dhcp4_update in R.
  assert (V' : negb (is_valid k) || is_unspecified k = false).
  { destruct (is_valid k), (is_unspecified k); simpl in *; congruence. }
  rewrite V' in R.
  destruct (find_or_create m k now s) as [[s1 b]| | |] eqn:F; simpl in R; try discriminate.
  pose proof (find_or_create_InvR _ _ _ _ _ _ F I) as I1.
  pose proof (find_or_create_char _ _ _ _ _ _ F) as CH.
  set (s2 := upd_mac m (set_moffer k) (update_name KDhcp k name s1)) in *.
  assert (I2 : InvR s2).
  { apply upd_mac_InvR_same; keeps_tac. apply update_name_InvR. exact I1. }
  assert (E : s' = if negb (host_online k s2) then online_transition k s2 else s2).
  { destruct (negb (host_online k s2)); inversion R; reflexivity. }
  rewrite E.
  destruct (update_name_lookup KDhcp k name s1 k) as (f & A & FM & LU).
  set (h1 := match hlookup k (hosts s) with
             | Some h => if h_mac h =? m then set_last now h else new_host m k now
             | None => new_host m k now end) in *.
  assert (L1 : hlookup k (hosts s1) = Some h1) by (rewrite CH, ip_eqb_refl; reflexivity).
  assert (L2 : hlookup k (hosts s2) = Some (f h1)) by (simpl; rewrite LU, L1; reflexivity).
  assert (A1 : aof (f h1) = aof h1) by apply A.
  eapply sight_refine; eauto.
  - rewrite FM. unfold h1. destruct (hlookup k (hosts s)) as [h|]; [destruct (h_mac h =? m) eqn:EM; ipeq; auto|]; reflexivity.
  - change (a_last (aof (f h1)) = now). rewrite A1. unfold h1.
    destruct (hlookup k (hosts s)) as [h|]; [destruct (h_mac h =? m)|]; reflexivity.
  - intros x N. transitivity (abs s1 x).
    + unfold s2. change (abs (update_name KDhcp k name s1) x = abs s1 x). apply abs_update_name.
    + unfold abs. rewrite CH. destruct (ip_eqb k x) eqn:EX; auto. ipeq. congruence.
  - change (a_online (aof (f h1)) = match abs s k with Some e0 => (a_mac e0 =? m) && a_online e0 | None => false end).
    rewrite A1. apply foc_current.
Qed.

(* ---- purge ---- *)

Definition offl (x : host) : host := set_dirty false (set_online false x).

Lemma fold_make_offline_lookup (l : list host) k' : forall s,
  hlookup k' (hosts (fold_left (fun st h => make_offline (h_ip h) st) l s)) =
  if existsb (fun h => ip_eqb (h_ip h) k') l then option_map offl (hlookup k' (hosts s)) else hlookup k' (hosts s).
Proof.
  induction l as [|h r IH]; simpl; auto. intros s. rewrite IH. rewrite make_offline_lookup. fold offl.
  destruct (ip_eqb (h_ip h) k'); simpl; auto.
  destruct (existsb _ r); auto. destruct (hlookup k' (hosts s)); reflexivity.
Qed.

Lemma fold_delete_lookup (l : list host) k' : forall s,
  hlookup k' (hosts (fold_left (fun st h => delete_host (h_ip h) st) l s)) =
  if existsb (fun h => ip_eqb (h_ip h) k') l then None else hlookup k' (hosts s).
Proof.
  induction l as [|h r IH]; simpl; auto. intros s. rewrite IH. rewrite delete_host_hosts, hlookup_hdel.
  destruct (ip_eqb (h_ip h) k'); simpl; auto. destruct (existsb _ r); auto.
Qed.

Lemma snapshot_member s order (P : host -> bool) k' h0 :
  InvP s -> hlookup k' (hosts s) = Some h0 -> In k' order ->
  existsb (fun h => ip_eqb (h_ip h) k') (filter P (snapshot order s)) = P h0.
Proof.
  intros I L0 Io. destruct (P h0) eqn:PH.
  - apply existsb_exists. exists h0. split.
    + apply filter_In. split; auto. unfold snapshot. apply in_flat_map. exists k'. split; auto. rewrite L0. simpl. auto.
    + destruct (InvS_host _ _ _ (proj1 I) L0) as (-> & _). apply ip_eqb_refl.
  - destruct (existsb _ _) eqn:EX; auto. apply existsb_exists in EX. destruct EX as (h & Ih & Eh).
    apply filter_In in Ih. destruct Ih as [Ih Ph]. unfold snapshot in Ih. apply in_flat_map in Ih.
    destruct Ih as (k2 & _ & Ih). destruct (hlookup k2 (hosts s)) as [h2|] eqn:L2; [|destruct Ih].
    destruct Ih as [<-|[]]. destruct (InvS_host _ _ _ (proj1 I) L2) as (Hip & _). ipeq.
    rewrite Hip in Eh. subst k2. rewrite L0 in L2. inversion L2; subst. congruence.
Qed.

Lemma purge_refine c now order s :
  InvP s -> (forall k, In k (map fst (hosts s)) -> In k order) ->
  forall k', abs (purge c now order s) k' = age c now (abs s) k'.
Proof.
  intros I CO k'. unfold purge, abs, age. rewrite fold_delete_lookup, fold_make_offline_lookup.
  destruct (hlookup k' (hosts s)) as [h0|] eqn:L0.
  - assert (Io : In k' order).
    { apply CO. apply hlookup_In in L0. apply in_map_iff. exists (k', h0). auto. }
    rewrite !(snapshot_member s order _ k' h0 I L0 Io). simpl.
    destruct (h_online h0) eqn:O; simpl.
    + replace (h_last h0 + offline_dl c <? now)%Z with (h_last h0 <? now - offline_dl c)%Z by lia.
      destruct (h_last h0 <? now - offline_dl c)%Z; reflexivity.
    + replace (h_last h0 + purge_dl c <? now)%Z with (h_last h0 <? now - purge_dl c)%Z by lia.
      destruct (h_last h0 <? now - purge_dl c)%Z; reflexivity.
  - simpl. destruct (existsb _ _); [reflexivity|]. destruct (existsb _ _); reflexivity.
Qed.

(* ---- operations that leave the abstraction unchanged ---- *)

Lemma abs_make_offline k s k' :
  abs (make_offline k s) k' = if ip_eqb k k' then option_map a_offline (abs s k') else abs s k'.
Proof.
  unfold abs. rewrite make_offline_lookup. destruct (ip_eqb k k'); auto.
  destruct (hlookup k' (hosts s)); reflexivity.
Qed.

Lemma abs_fold_make_offline_offline (l : list ip) : forall s,
  (forall v, In v l -> match abs s v with Some e => a_online e = false | None => True end) ->
  forall k', abs (fold_left (fun st v => make_offline v st) l s) k' = abs s k'.
Proof.
  induction l as [|v r IH]; simpl; auto. intros s H k'.
  assert (E : forall x, abs (make_offline v s) x = abs s x).
  { intros x. rewrite abs_make_offline. destruct (ip_eqb v x) eqn:EX; auto. ipeq. subst x.
    pose proof (H v (or_introl eq_refl)) as Hv. destruct (abs s v) as [e|]; simpl; auto.
    destruct e as [em eo el]. simpl in Hv. subst eo. reflexivity. }
  rewrite IH; auto. intros x Ix. rewrite E. apply H. auto.
Qed.

Lemma abs_send n s k' : abs (send n s) k' = abs s k'.
Proof. unfold send. destruct (Nat.ltb _ _); reflexivity. Qed.

Lemma abs_notify_host k fl s k' : abs (notify_host k fl s) k' = abs s k'.
Proof.
  unfold notify_host. destruct (hlookup k (hosts s)) as [h|] eqn:L; auto.
  destruct (negb (h_dirty h)); auto.
  match goal with |- context [fold_left ?g ?l s] => set (l0 := l); set (s1 := fold_left g l0 s) end.
  assert (E : forall x, abs s1 x = abs s x).
  { apply abs_fold_make_offline_offline. intros v Iv. unfold l0 in Iv.
    destruct (fl && is4 (h_ip h)); [|destruct Iv]. apply filter_In in Iv. destruct Iv as [_ Pv].
    apply andb_prop in Pv. destruct Pv as [_ Pv].
    unfold abs. destruct (hlookup v (hosts s)) as [x|]; simpl; auto.
    apply andb_prop in Pv. destruct Pv as [Pv _]. apply negb_true_iff in Pv. exact Pv. }
  destruct (hlookup k (hosts s1)); [|apply E].
  rewrite abs_send. rewrite abs_upd_host_same by reflexivity. apply E.
Qed.

Lemma abs_notify f s k' : abs (notify f s) k' = abs s k'.
Proof.
  unfold notify. destruct (fr_host f); [apply abs_notify_host|].
  destruct (negb (fr_dhcp4 f)); auto. destruct (negb (is_valid _)); auto.
  destruct (hlookup _ (hosts s)); auto. apply abs_notify_host.
Qed.

Lemma abs_capture m s k' : abs (fst (capture m s)) k' = abs s k'.
Proof.
  unfold capture, abs. destruct (find_mac m (macs (mac_find_or_create m s))) as [e|]; simpl; [|rewrite mfoc_hosts; reflexivity].
  destruct (m_captured e); simpl; [rewrite mfoc_hosts; reflexivity|].
  destruct (m_router e); simpl; rewrite mfoc_hosts; reflexivity.
Qed.

Lemma find_or_create_total_rx c f now s : InvP s -> exists r, rx c f now s = Ok r.
Proof.
  intros I. unfold rx. destruct (host_event c f) as [[m k]|]; [|eexists; reflexivity].
  destruct (find_or_create_total m k now s I) as ([s1 b] & ->). simpl.
  destruct (negb (host_online k s1)); eexists; reflexivity.
Qed.

Lemma dhcp4_update_total m k name now s : InvP s -> exists r, dhcp4_update m k name now s = Ok r.
Proof.
  intros I. unfold dhcp4_update. destruct (negb (is_valid k) || is_unspecified k); [eexists; reflexivity|].
  destruct (find_or_create_total m k now s I) as ([s1 b] & ->). simpl. eexists; reflexivity.
Qed.

(* ---- the step theorem ---- *)

Definition order_complete (s : state) (o : op) : Prop :=
  match o with
  | Purge _ order => forall k, In k (map fst (hosts s)) -> In k order
  | _ => True
  end.

Definition event_agrees (c : cfg) (o : op) : Prop :=
  match o with Rx f _ => host_event c f = ref_event c f | _ => True end.

Theorem step_refines c s o :
  InvR s -> order_complete s o -> event_agrees c o ->
  forall k, abs (fst (step c s o)) k = ref_step c (abs s) o k.
Proof.
  intros I OC EA k. destruct o; simpl in *.
  - rewrite <- EA.
    destruct (find_or_create_total_rx c f now s (proj1 I)) as ([s' fr] & R). rewrite R. simpl.
    change (abs s' k = match host_event c f with Some (m, k0) => sight m k0 now (abs s) | None => abs s end k).
    destruct (host_event c f) as [[m k0]|] eqn:HE.
    + eapply rx_refine; eauto.
    + unfold rx in R. rewrite HE in R. inversion R; subst. reflexivity.
  - destruct (lastf s); simpl; auto. apply abs_notify.
  - destruct (is_valid k0 && negb (is_unspecified k0)) eqn:V.
    + destruct (dhcp4_update_total m k0 name now s (proj1 I)) as ([s' e] & R). rewrite R.
      assert (E : abs (fst (let (s'0, o) := (s', e) in match o with Some e0 => (s'0, OErr e0) | None => (s'0, ONone) end)) k = abs s' k)
        by (destruct e; reflexivity).
      destruct e; simpl; eapply dhcp4_update_refine; eauto.
    + unfold dhcp4_update.
      assert (V' : negb (is_valid k0) || is_unspecified k0 = true).
      { destruct (is_valid k0), (is_unspecified k0); simpl in *; congruence. }
      rewrite V'. reflexivity.
  - unfold set_offer, abs. simpl. rewrite mfoc_hosts. reflexivity.
  - pose proof (abs_capture m s k) as C. destruct (capture m s) as [s' [e|]]; exact C.
  - reflexivity.
  - apply purge_refine; auto. apply I.
  - apply abs_update_name.
  - reflexivity.
Qed.

(* ------------------------------------------------------------------ *)
(* NewSession *)

Lemma hosts_um_uh m g k f s : hosts (upd_mac m g (upd_host k f s)) = hupd k f (hosts s).
Proof. reflexivity. Qed.

Lemma foc_empty m k now : find_or_create m k now empty_state = Ok (create_host m k now empty_state, false).
Proof. reflexivity. Qed.

Lemma empty_InvR : InvR empty_state.
Proof. split; [apply empty_InvP | apply empty_Inv4]. Qed.

Theorem new_session_InvR c now s : own_mac c <> rt_mac c -> new_session c now = Ok s -> InvR s.
Proof.
  intros NEQ H. split; [eapply new_session_InvP; eauto|].
  unfold new_session in H. rewrite foc_empty in H. simpl bind in H. cbn [fst] in H.
  set (s1 := create_host (own_mac c) (own_ip4 c) now empty_state) in *.
  assert (I1 : InvR s1) by (eapply find_or_create_InvR; [apply foc_empty | apply empty_InvR]).
  assert (L1 : forall k', hlookup k' (hosts s1) = if ip_eqb (own_ip4 c) k' then Some (new_host (own_mac c) (own_ip4 c) now) else None).
  { intros k'. unfold s1, create_host, upd_mac, hput. simpl. reflexivity. }
  match type of H with context [find_or_create (rt_mac c) (rt_ip4 c) now ?x] => set (s3 := x) in * end.
  assert (I3 : InvR s3).
  { split.
    - unfold s3. change (InvP (upd_host (own_ip4 c) (fun h => set_online true (set_last (now + year)%Z h))
        (upd_mac (own_mac c) (fun e => set_monline true (set_mlla (own_lla c) (set_mip4 (own_ip4 c) e))) s1))).
      apply mark_online_InvP; auto; keeps_tac; [apply I1|].
      intros h L. rewrite L1, ip_eqb_refl in L. inversion L; reflexivity.
    - unfold s3. change (Inv4 (upd_host (own_ip4 c) (fun h => set_online true (set_last (now + year)%Z h))
        (upd_mac (own_mac c) (fun e => set_monline true (set_mlla (own_lla c) (set_mip4 (own_ip4 c) e))) s1))).
      apply mark_online_Inv4; auto; keeps_tac.
      + intros h L. rewrite L1, ip_eqb_refl in L. inversion L; reflexivity.
      + intros k' h' L' _ N. rewrite L1 in L'. destruct (ip_eqb (own_ip4 c) k') eqn:E; [|discriminate]. ipeq. congruence. }
  assert (L3 : forall k' h', hlookup k' (hosts s3) = Some h' -> h_mac h' = own_mac c).
  { intros k' h' L'. unfold s3 in L'. rewrite hosts_um_uh, hlookup_hupd, L1 in L'.
    destruct (ip_eqb (own_ip4 c) k'); simpl in L'; inversion L'; reflexivity. }
  destruct (find_or_create (rt_mac c) (rt_ip4 c) now s3) as [[s4 b4]| | |] eqn:F4; simpl in H; try discriminate.
  pose proof (find_or_create_InvR _ _ _ _ _ _ F4 I3) as I4.
  pose proof (find_or_create_char _ _ _ _ _ _ F4) as CH4.
  destruct (find_or_create_post _ _ _ _ _ _ F4) as (h4 & L4 & M4).
  inversion H; subst s.
  change (Inv4 (upd_host (rt_ip4 c) (set_online true)
       (upd_mac (rt_mac c) (fun e => set_monline true (set_mip4 (rt_ip4 c) (set_mrouter true e))) s4))).
  apply mark_online_Inv4; auto; keeps_tac.
  - intros h L. rewrite L4 in L. inversion L; subst. exact M4.
  - intros k' h' L' M' N. rewrite CH4 in L'. destruct (ip_eqb (rt_ip4 c) k') eqn:E; [ipeq; congruence|].
    apply L3 in L'. congruence.
Qed.

Theorem new_session_abs c now s : new_session c now = Ok s -> forall k, abs s k = ref_init c now k.
Proof.
  intros H k. unfold new_session in H. rewrite foc_empty in H. simpl bind in H. cbn [fst] in H.
  set (s1 := create_host (own_mac c) (own_ip4 c) now empty_state) in *.
  assert (L1 : forall k', hlookup k' (hosts s1) = if ip_eqb (own_ip4 c) k' then Some (new_host (own_mac c) (own_ip4 c) now) else None).
  { intros k'. unfold s1, create_host, upd_mac, hput. simpl. reflexivity. }
  match type of H with context [find_or_create (rt_mac c) (rt_ip4 c) now ?x] => set (s3 := x) in * end.
  assert (L3 : forall k', hlookup k' (hosts s3) =
     if ip_eqb (own_ip4 c) k' then Some (set_online true (set_last (now + year)%Z (new_host (own_mac c) (own_ip4 c) now))) else None).
  { intros k'. unfold s3. rewrite hosts_um_uh, hlookup_hupd, L1. destruct (ip_eqb (own_ip4 c) k'); reflexivity. }
  destruct (find_or_create (rt_mac c) (rt_ip4 c) now s3) as [[s4 b4]| | |] eqn:F4; simpl in H; try discriminate.
  pose proof (find_or_create_char _ _ _ _ _ _ F4) as CH4.
  inversion H; subst s. unfold abs, ref_init, a_put. simpl. rewrite hlookup_hupd, CH4, !L3.
  rewrite (ip_eqb_sym k (rt_ip4 c)), (ip_eqb_sym k (own_ip4 c)).
  destruct (ip_eqb (rt_ip4 c) k) eqn:E; simpl.
  - destruct (ip_eqb (own_ip4 c) (rt_ip4 c)); simpl.
    + destruct (own_mac c =? rt_mac c) eqn:EM; simpl; [ipeq; rewrite EM|]; reflexivity.
    + reflexivity.
  - destruct (ip_eqb (own_ip4 c) k); reflexivity.
Qed.

(* ------------------------------------------------------------------ *)
(* histories *)

Fixpoint hist_ok (c : cfg) (s : state) (ops : list op) : Prop :=
  match ops with
  | [] => True
  | o :: r => order_complete s o /\ event_agrees c o /\ hist_ok c (fst (step c s o)) r
  end.

Lemma sight_ext m k now a a' : (forall x, a x = a' x) -> forall x, sight m k now a x = sight m k now a' x.
Proof. intros H x. unfold sight. rewrite !H. reflexivity. Qed.

Lemma ref_step_ext c o a a' : (forall x, a x = a' x) -> forall x, ref_step c a o x = ref_step c a' o x.
Proof.
  intros H x. destruct o; simpl; auto.
  - destruct (ref_event c f) as [[m k]|]; auto. apply sight_ext. exact H.
  - destruct (is_valid k && negb (is_unspecified k)); auto. apply sight_ext. exact H.
  - unfold age. rewrite H. reflexivity.
Qed.

Lemma ref_run_ext c ops : forall a a', (forall x, a x = a' x) -> forall x, ref_run c a ops x = ref_run c a' ops x.
Proof.
  induction ops as [|o r IH]; simpl; auto. intros a a' H x. apply IH. apply ref_step_ext. exact H.
Qed.

Theorem run_refines c ops : forall s, InvR s -> hist_ok c s ops ->
  forall k, abs (run c s ops) k = ref_run c (abs s) ops k.
Proof.
  induction ops as [|o r IH]; simpl; auto. intros s I (OC & EA & HO) k.
  rewrite IH; auto; [|apply step_InvR; exact I].
  apply ref_run_ext. intros x. apply step_refines; auto.
Qed.

Theorem history_refines c now s0 ops :
  own_mac c <> rt_mac c -> new_session c now = Ok s0 -> hist_ok c s0 ops ->
  forall k, abs (run c s0 ops) k = ref_run c (ref_init c now) ops k.
Proof.
  intros NEQ H HO k. rewrite run_refines; auto; [|eapply new_session_InvR; eauto].
  apply ref_run_ext. intros x. eapply new_session_abs; eauto.
Qed.

(* ------------------------------------------------------------------ *)
(* the read-only API agrees with the abstraction *)

Definition triple (h : host) : mac * ip * bool := (h_mac h, h_ip h, h_online h).
Definition atriple (k : ip) (e : aent) : mac * ip * bool := (a_mac e, k, a_online e).

Theorem view_find_ip s k : Inv s ->
  option_map triple (find_ip k s) = option_map (atriple k) (abs s k).
Proof.
  intros I. unfold find_ip, abs. destruct (hlookup k (hosts s)) as [h|] eqn:L; simpl; auto.
  unfold triple, atriple. simpl. apply hlookup_In in L. rewrite (inv_own_ip s I _ _ L). reflexivity.
Qed.

Theorem view_get_hosts s t : Inv s ->
  In t (map triple (get_hosts s)) <-> exists k e, abs s k = Some e /\ t = atriple k e.
Proof.
  intros I. unfold get_hosts, abs. rewrite map_map. split.
  - intros H. apply in_map_iff in H. destruct H as ([k h] & <- & H). simpl.
    exists k, (aof h). rewrite (In_hlookup _ _ _ (inv_keys s I) H). simpl. split; auto.
    unfold triple, atriple. simpl. rewrite (inv_own_ip s I _ _ H). reflexivity.
  - intros (k & e & A & ->). destruct (hlookup k (hosts s)) as [h|] eqn:L; [|discriminate].
    simpl in A. inversion A; subst e. apply in_map_iff. exists (k, h). simpl. split; [|apply hlookup_In; auto].
    apply hlookup_In in L. unfold triple, atriple. simpl. rewrite (inv_own_ip s I _ _ L). reflexivity.
Qed.

Theorem view_get_hosts_nodup s : Inv s -> NoDup (map h_ip (get_hosts s)).
Proof.
  intros I. unfold get_hosts. rewrite map_map.
  replace (map (fun x => h_ip (snd x)) (hosts s)) with (map fst (hosts s)); [apply (inv_keys s I)|].
  apply map_ext_in. intros [k h] H. simpl. symmetry. apply (inv_own_ip s I _ _ H).
Qed.

Theorem view_find_by_mac s m k : Inv s ->
  In (m, k) (find_by_mac m s) <-> exists e, abs s k = Some e /\ a_mac e = m.
Proof.
  intros I. unfold find_by_mac, abs. split.
  - intros H. apply in_flat_map in H. destruct H as ([k0 h] & H & Hm). simpl in Hm.
    destruct (h_mac h =? m) eqn:E; [|destruct Hm]. destruct Hm as [Hm|[]]. inversion Hm; subst.
    rewrite (inv_own_ip s I _ _ H) in *. rewrite (In_hlookup _ _ _ (inv_keys s I) H). simpl. eexists; split; eauto.
  - intros (e & A & M). destruct (hlookup k (hosts s)) as [h|] eqn:L; [|discriminate]. simpl in A. inversion A; subst e.
    simpl in M. apply hlookup_In in L. apply in_flat_map. exists (k, h). split; auto. simpl.
    rewrite M, N.eqb_refl. rewrite (inv_own_ip s I _ _ L). left. reflexivity.
Qed.

Theorem view_ip_addrs s m : Inv s ->
  match ip_addrs m s with
  | Some l => NoDup l /\ forall k, In (m, k) l <-> exists e, abs s k = Some e /\ a_mac e = m
  | None => forall k e, abs s k = Some e -> a_mac e <> m
  end.
Proof.
  intros I. pose proof (Inv_InvP s I) as IP. unfold ip_addrs. destruct (find_mac m (macs s)) as [e|] eqn:F.
  - assert (EQ : forall l, (forall k, In k l -> exists h, hlookup k (hosts s) = Some h /\ h_mac h = m /\ h_ip h = k) ->
                 flat_map (fun k => match hlookup k (hosts s) with Some h => [(h_mac h, h_ip h)] | None => [] end) l
                 = map (fun k => (m, k)) l).
    { induction l as [|x r IH]; simpl; auto. intros Hl.
      destruct (Hl x (or_introl eq_refl)) as (h & L & M & Hip). rewrite L, M, Hip. simpl. rewrite IH; auto. }
    rewrite EQ by (intros k Ik; apply (InvS_listed _ _ _ _ (proj1 IP) F Ik)). clear EQ.
    split.
    + apply find_mac_Some in F. destruct F as [Ie _].
      pose proof (inv_listed_once s I e Ie) as ND. clear -ND. induction ND; simpl; constructor; auto.
      intros H1. apply in_map_iff in H1. destruct H1 as (y & E & Iy). inversion E; subst. contradiction.
    + intros k. unfold abs. split.
      * intros H. apply in_map_iff in H. destruct H as (k0 & E & Ik). inversion E; subst k0.
        destruct (InvS_listed _ _ _ _ (proj1 IP) F Ik) as (h & L & M & _). rewrite L. simpl. eexists; split; eauto.
      * intros (a & A & M). destruct (hlookup k (hosts s)) as [h|] eqn:L; [|discriminate]. simpl in A. inversion A; subst a.
        simpl in M. destruct (InvS_host _ _ _ (proj1 IP) L) as (_ & e2 & F2 & I2). rewrite M, F in F2. inversion F2; subst e2.
        apply in_map_iff. exists k. auto.
  - intros k a A M. unfold abs in A. destruct (hlookup k (hosts s)) as [h|] eqn:L; [|discriminate]. simpl in A. inversion A; subst a.
    simpl in M. destruct (InvS_host _ _ _ (proj1 IP) L) as (_ & e2 & F2 & _). rewrite M, F in F2. discriminate.
Qed.

Theorem view_find_mac_entry s m : Inv s ->
  (exists k e, abs s k = Some e /\ a_mac e = m) <->
  (exists e, find_mac_entry m s = Some e /\ m_hosts e <> []).
Proof.
  intros I. pose proof (Inv_InvP s I) as IP. unfold find_mac_entry, abs. split.
  - intros (k & a & A & M). destruct (hlookup k (hosts s)) as [h|] eqn:L; [|discriminate]. simpl in A. inversion A; subst a.
    simpl in M. destruct (InvS_host _ _ _ (proj1 IP) L) as (_ & e & F & Ik). rewrite M in F. exists e. split; auto.
    intros Z. rewrite Z in Ik. destruct Ik.
  - intros (e & F & NZ). destruct (m_hosts e) as [|k r] eqn:HL; [congruence|].
    destruct (InvS_listed _ _ _ k (proj1 IP) F) as (h & L & M & _); [rewrite HL; simpl; auto|].
    exists k, (aof h). rewrite L. simpl. auto.
Qed.

(* the MAC entry goes with its last host *)
Theorem mac_removed_with_last_host s k h : Inv s ->
  hlookup k (hosts s) = Some h ->
  (forall k' h', hlookup k' (hosts s) = Some h' -> h_mac h' = h_mac h -> k' = k) ->
  find_mac (h_mac h) (macs (delete_host k s)) = None /\ hlookup k (hosts (delete_host k s)) = None.
Proof.
  intros I L U. pose proof (Inv_InvP s I) as IP. split.
  2:{ rewrite delete_host_hosts, hlookup_hdel, ip_eqb_refl. reflexivity. }
  destruct (InvS_host _ _ _ (proj1 IP) L) as (Hip & e & F & Ik).
  pose proof IP as [(P & NK & NM) IO].
  unfold delete_host. rewrite L. rewrite (proj2 (clear_lastf_hosts _ _)). rewrite Hip.
  assert (HL : m_hosts e = [k]).
  { pose proof (find_mac_Some _ _ _ F) as [Ie _]. pose proof (inv_listed_once s I e Ie) as ND.
    destruct (m_hosts e) as [|x r] eqn:HE; [destruct Ik|].
    assert (X : x = k).
    { destruct (InvS_listed _ _ _ x (proj1 IP) F) as (h1 & L1 & M1 & _); [rewrite HE; simpl; auto|]. eapply U; eauto. }
    subst x. destruct r as [|y r]; auto. exfalso.
    assert (Y : y = k).
    { destruct (InvS_listed _ _ _ y (proj1 IP) F) as (h1 & L1 & M1 & _); [rewrite HE; simpl; auto|]. eapply U; eauto. }
    subst y. inversion ND; subst. apply H1. simpl. auto. }
  assert (MH : mac_hosts (h_mac h) (set_hosts (hdel k (hosts (upd_mac (h_mac h) (fun e0 => set_mhosts (remove_first k (m_hosts e0)) e0) s)))
                 (upd_mac (h_mac h) (fun e0 => set_mhosts (remove_first k (m_hosts e0)) e0) s)) = []).
  { unfold mac_hosts. simpl. rewrite find_mac_mupd by auto. rewrite N.eqb_refl, F. simpl. rewrite HL. simpl.
    rewrite ip_eqb_refl. reflexivity. }
  rewrite MH. simpl. rewrite find_mac_mdel; [rewrite N.eqb_refl; reflexivity|].
  rewrite mupd_macs; auto.
Qed.
