(* Proofs/HandlersProgress.v — PROGRESS of every option / TLV / record walker of the C08 models:
   one loop iteration either ends the walk (its result does not depend on the remaining fuel) or
   continues strictly further into the input — by at least one byte (8 for NDP options, 2 for DHCP
   options and LLDP TLVs), for EVERY input.  This is the property whose failure was every
   non-termination defect found (zero-length NDP option, NBNS/mDNS records never consumed). *)
From PV Require Import Base.Prelude Base.Slice.
From PV Require Import Model.NDPOptions Model.MiscHopByHop Model.MiscDecoders Model.HandlersLoop Model.HandlersDnsMsg.
From PV Require Import Proofs.HandlersTac Proofs.NDPOptions Proofs.MiscHopByHop Proofs.MiscDecoders Proofs.HandlersDnsMsg.
Open Scope N_scope.

(* an iteration from fuel (S f) ends with a result independent of f, or equals the walk continued
   at a state [next] related to the current one by [adv] *)
Definition iteration {S A} (run : nat -> S -> res A) (adv : S -> S -> Prop) (s : S) : Prop :=
  (exists r, forall f, run (Datatypes.S f) s = r) \/
  (exists s', adv s s' /\ forall f, run (Datatypes.S f) s = run f s').

(* ---- NDP options: newParseOptions advances by l = 8*b[i+1] >= 8 bytes *)
Theorem progress_parse_opts lbl_ok b i : wf b -> (i <= len b)%nat ->
  iteration (fun f i => parse_opts lbl_ok f b i) (fun i i' => (i + 8 <= i')%nat /\ (i' <= len b)%nat) i.
Proof.
  intros Hw Hi. unfold iteration. cbn [parse_opts].
  rewrite slfrom_ok by lia. cbn [bind len].
  destruct (Nat.eqb_spec (len b - i) 0); [left; eexists; reflexivity|].
  destruct (Nat.ltb_spec (len b - i) 2); [left; eexists; reflexivity|].
  rewrite !idx_ok by lia. cbn [bind].
  set (l := (N.to_nat (nth (i + 1) (arr b) 0%N) * 8)%nat).
  destruct (Nat.eqb_spec l 0); [left; eexists; reflexivity|].
  destruct (Nat.ltb_spec (len b - i) l); [left; eexists; reflexivity|].
  rewrite sl_ok by (unfold wf in Hw; lia). cbn [bind].
  destruct (opt_step lbl_ok (len b) (nth i (arr b) 0) _) as [[]| | |]; cbn [bind];
    try (left; eexists; reflexivity).
  right. exists (i + l)%nat. split; [unfold l in *; lia|reflexivity].
Qed.

(* ---- DNSSL label loop: i grows by 1 + label length >= 2 *)
Theorem progress_dnssl_loop lbl_ok v have i : cap v = len v -> (i <= len v)%nat ->
  (exists r, forall f, dnssl_loop lbl_ok (S f) v i have = r) \/
  (exists i' have', (i + 2 <= i')%nat /\ (i' <= len v)%nat /\
                    forall f, dnssl_loop lbl_ok (S f) v i have = dnssl_loop lbl_ok f v i' have').
Proof.
  intros Hc Hi. cbn [dnssl_loop]. rewrite slfrom_ok by lia. cbn [bind len].
  destruct (Nat.ltb_spec (len v - i) 2); [left; eexists; reflexivity|].
  rewrite idx_ok by lia. cbn [bind].
  set (n := nth i (arr v) 0).
  destruct (Z.leb_spec (Z.of_nat (len v - i) - 1) (Z.of_N n)); [left; eexists; reflexivity|].
  destruct (n =? 0) eqn:En; [left; eexists; reflexivity|].
  rewrite sl_ok by lia. cbn [bind].
  destruct (negb (lbl_ok _)); [left; eexists; reflexivity|].
  rewrite idx_ok by lia. cbn [bind].
  destruct (nth (S i + N.to_nat n) (arr v) 0 =? 0).
  - rewrite slfrom_ok by lia. cbn [bind len].
    destruct (Nat.eqb (len v - S (S i + N.to_nat n)) 0); [left; eexists; reflexivity|].
    destruct (Nat.eqb_spec (len v - S (S i + N.to_nat n)) 1).
    + rewrite idx_ok by lia. cbn [bind].
      destruct (nth (S (S i + N.to_nat n)) (arr v) 0 =? 0); [left; eexists; reflexivity|].
      right. exists (S (S i + N.to_nat n)), true. repeat split; lia.
    + right. exists (S (S i + N.to_nat n)), true. repeat split; lia.
  - right. exists (S i + N.to_nat n)%nat, have. repeat split; lia.
Qed.

(* ---- hop-by-hop options: pos grows by >= 1 and stays inside the area *)
Theorem progress_hbh_loop data pos : wf data -> (pos <= len data)%nat ->
  iteration (fun f pos => hbh_loop f data pos) (fun pos pos' => (pos < pos')%nat /\ (pos' < len data)%nat) pos.
Proof.
  intros Hw Hp. unfold iteration. cbn [hbh_loop]. rewrite slfrom_ok by lia. cbn [bind len].
  destruct (Nat.ltb_spec (len data - pos) 1); [left; eexists; reflexivity|].
  set (buffer := mkSlice (skipn pos (arr data)) (len data - pos)).
  assert (Hwb : wf buffer) by (unfold buffer; slen).
  destruct (hbh_option_adv buffer pos Hwb ltac:(unfold buffer; cbn [len]; lia)) as [_ Hadv].
  destruct (hbh_option buffer pos) as [pos'| | |] eqn:E; cbn [bind]; try (left; eexists; reflexivity).
  specialize (Hadv pos' eq_refl).
  destruct (Nat.ltb_spec (len data) pos'); [left; eexists; reflexivity|].
  destruct (Nat.eqb_spec pos' (len data)); [left; eexists; reflexivity|].
  right. exists pos'. split; [lia|reflexivity].
Qed.

(* ---- DHCP options (validateOptions / ParseOptions): the remaining slice shrinks by >= 1 (pad)
        or >= 2 (option) *)
Theorem progress_dhcp_walk strict opts : wf opts ->
  iteration (fun f o => dhcp_walk strict f o) (fun o o' => wf o' /\ (len o' < len o)%nat) opts.
Proof.
  intros Hw. unfold iteration. cbn [dhcp_walk].
  destruct (Nat.ltb_spec (len opts) 2); [left; eexists; reflexivity|].
  rewrite idx_ok by lia. cbn [bind].
  destruct (nth 0 (arr opts) 0 =? 255); [left; eexists; reflexivity|].
  destruct (nth 0 (arr opts) 0 =? 0).
  - rewrite slfrom_ok by lia. cbn [bind]. right. eexists. split; [|reflexivity]. split; [slen|cbn [len]; lia].
  - rewrite idx_ok by lia. cbn [bind].
    destruct (Nat.ltb_spec (len opts) (2 + N.to_nat (nth 1 (arr opts) 0))); [left; destruct strict; eexists; reflexivity|].
    destruct strict; cbn [bind].
    + rewrite slfrom_ok by lia. cbn [bind]. right. eexists. split; [|reflexivity]. split; [slen|cbn [len]; lia].
    + rewrite sl_ok by (unfold wf in Hw; lia). cbn [bind]. rewrite slfrom_ok by lia. cbn [bind].
      right. eexists. split; [|reflexivity]. split; [slen|cbn [len]; lia].
Qed.

(* ---- LLDP TLVs (GetPDU): pos grows by l + 2 >= 2 *)
Theorem progress_lldp_get_pdu p pdu pos : wf p ->
  iteration (fun f pos => lldp_get_pdu f p pdu pos) (fun pos pos' => (pos + 2 <= pos')%nat /\ (pos' <= len p)%nat) pos.
Proof.
  intros Hw. unfold iteration. cbn [lldp_get_pdu]. unfold lldp_get_tlv.
  destruct (Nat.leb_spec (len p) (pos + 2)); [left; exists (Ok tt); reflexivity|].
  rewrite !idx_ok by lia. cbn [bind].
  set (t := N.to_nat (N.shiftr (nth pos (arr p) 0) 1)).
  set (l := N.to_nat (N.shiftl (N.land (nth pos (arr p) 0) 1) 8 + nth (pos + 1) (arr p) 0)).
  destruct (Nat.eqb t 0 && Nat.eqb l 0); [left; exists (Ok tt); reflexivity|].
  destruct (Nat.leb_spec (pos + 2 + l) (len p)); [|left; exists (Ok tt); reflexivity].
  rewrite sl_ok by (unfold wf in Hw; lia). cbn [bind].
  destruct (Nat.eqb t pdu || Nat.eqb t 0); [left; eexists; reflexivity|].
  right. exists (pos + l + 2)%nat. split; [lia|reflexivity].
Qed.

(* ---- mDNS / NBNS record loops: every continuing iteration consumes a record or leaves a section:
        the measure (records left, sections left, pending header) strictly decreases *)
Theorem progress_mdns_step m x x' : mdns_inv x -> mdns_step m x = Cont x' ->
  mdns_inv x' /\ (mdns_mu m x' < mdns_mu m x)%nat.
Proof. apply mdns_step_progress. Qed.

Theorem progress_nbns_step m st st' : nbns_inv st -> nbns_step m st = Cont st' ->
  nbns_inv st' /\ (pmu m st' < pmu m st)%nat.
Proof. apply nbns_step_progress. Qed.

(* ---- mDNS TXT strings *)
Theorem parse_txt_total txt : safe (parse_txt txt).
Proof.
  unfold parse_txt. destruct (Nat.leb _ 2); [sdone|].
  induction txt as [|v rest IH]; cbn [parse_txt_loop]; [sdone|].
  destruct (Nat.ltb_spec (List.length (split_eq v [])) 2); [exact IH|].
  destruct (split_eq v []) as [|k [|w r]]; cbn [List.length] in *; try lia.
  cbn [nth_error]. destruct (existsb _ txt_keys); [sdone|exact IH].
Qed.
