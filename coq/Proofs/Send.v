(* Proofs/Send.v — well-formedness of the frames emitted by the Session send
   paths (arpRequest, ICMPv4/ICMPv6 echo, NS, NA), for every configuration,
   every argument and every previous content of the pooled buffer. *)
From PV Require Import Proofs.SendBase Model.Send Spec.SendRef.
Open Scope N_scope.

(* ---------------------------------------------------------------- *)
(* byte sweeps *)
Lemma byte_sweep (P : N -> bool) :
  forallb P (map N.of_nat (seq 0 256)) = true -> forall x, x < 256 -> P x = true.
Proof.
  intros H x Hx. rewrite forallb_forall in H. apply H.
  apply in_map_iff. exists (N.to_nat x). split; [lia|]. apply in_seq. lia.
Qed.

Lemma land192 x : x < 256 -> (N.land x 192 =? 128) = (x / 64 =? 2).
Proof.
  intros Hx. apply Bool.eqb_prop.
  apply (byte_sweep (fun x => Bool.eqb (N.land x 192 =? 128) (x / 64 =? 2))); [vm_compute; reflexivity | exact Hx].
Qed.
Lemma land15 x : x < 256 -> (N.land x 15 =? 2) = (x mod 16 =? 2).
Proof.
  intros Hx. apply Bool.eqb_prop.
  apply (byte_sweep (fun x => Bool.eqb (N.land x 15 =? 2) (x mod 16 =? 2))); [vm_compute; reflexivity | exact Hx].
Qed.

(* the model's netip predicates agree with the spec's link-local classes on 16-byte addresses *)
Lemma linklocal_agree d : ip6_ok d -> ip6_is_linklocal d = true -> ll_unicast d || ll_multicast d = true.
Proof.
  intros H HL. explode_ok d H. unfold ip6_is_linklocal in HL. cbn [nth] in HL.
  apply orb_true_iff in HL. destruct HL as [HL|HL]; apply andb_true_iff in HL; destruct HL as [H0 H1];
    apply N.eqb_eq in H0; subst b;
    unfold ll_unicast, ll_multicast, unmap, is4in6, is4, is6; cbn;
    rewrite ?land192, ?land15 by assumption; rewrite H1; cbn; auto using orb_true_r.
Qed.

(* ---------------------------------------------------------------- *)
(* session.go arpRequest (purge probe); hlen/plen written to the ARP header since fix 9359b10 *)
Lemma arp_request_wf c dst sm si tm ti junk :
  mac_ok (host_mac c) -> mac_ok dst -> mac_ok sm -> ip4_ok si -> mac_ok tm -> ip4_ok ti ->
  (42 <= length junk)%nat ->
  exists fr, send_arp_request c dst (sm, si) (tm, ti) junk = Ok [fr] /\
    wf_arp (host_mac c) dst 1 sm si tm ti fr = true.
Proof.
  intros H1 H2 H3 H4 H5 H6 HJ.
  destruct (split_at 42 junk HJ) as (j & rest & -> & Hj).
  unfold send_arp_request. destruct c as [hm hip hlla rm rip mtu]. cbn [host_mac a_mac a_ip fst snd] in *.
  explode_ok hm H1. explode_ok dst H2. explode_ok sm H3. explode_ok si H4. explode_ok tm H5. explode_ok ti H6.
  explode j Hj.
  eexists. split; [cbn; reflexivity|].
  unfold wf_arp. cbn. eqbs.
Qed.

(* the probe purge sends for an IPv4 host: broadcast, sender = host, target MAC broadcast, target IP = the host probed *)
Lemma purge_arp_wf c ip junk :
  mac_ok (host_mac c) -> ip4_ok (host_ip4 c) -> ip4_ok ip -> (42 <= length junk)%nat ->
  exists fr, send_purge_arp c ip junk = Ok [fr] /\
    wf_arp (host_mac c) eth_bcast 1 (host_mac c) (host_ip4 c) eth_bcast ip fr = true.
Proof.
  intros H1 H2 H3 HJ. unfold send_purge_arp.
  apply arp_request_wf; auto; split; try reflexivity; oks.
Qed.

Definition cfg0 : cfg :=
  mkCfg [0;85;85;85;85;85] [192;168;0;129] [254;128;0;0;0;0;0;0;0;0;0;0;0;1;1;41] [0;102;102;102;102;102] [192;168;0;11] 1500.

(* ---------------------------------------------------------------- *)
(* ICMP4SendEchoRequest *)
Lemma echo4_wf c sm si dm di id seq junk :
  mac_ok (host_mac c) -> mac_ok dm -> ip4_ok si -> ip4_ok di -> id < 65536 -> seq < 65536 ->
  length junk = EthMaxSize ->
  exists fr, send_echo4 c (sm, si) (dm, di) id seq junk = Ok [fr] /\
    wf_echo4 (host_mac c) dm si di id seq fr = true.
Proof.
  intros H1 H2 H3 H4 Hid Hseq HJ.
  assert (HJ' : (57 <= length junk)%nat) by (rewrite HJ; unfold EthMaxSize; lia).
  destruct (split_at 57 junk HJ') as (j & rest & -> & Hj). clear HJ HJ'.
  unfold send_echo4, icmp4_send_packet. destruct c as [hm hip hlla rm rip mtu]. cbn [host_mac a_ip a_mac fst snd] in *.
  unfold is4. rewrite (proj1 H3), (proj1 H4). cbn [Nat.eqb negb orb].
  explode_ok hm H1. explode_ok dm H2. explode_ok si H3. explode_ok di H4.
  explode j Hj.
  eexists. split; [cbn; reflexivity|]. abs_cks.
  unfold wf_echo4. run. eqbs.
  repeat (apply andb_true_intro; split).
  - w16_ok.
  - w16_ok.
  - ip4_cks.
  - icmp4_cks.
Qed.

(* wrong address family: nothing is sent *)
Lemma echo4_refuses c src dst id seq junk :
  is4 (a_ip src) = false \/ is4 (a_ip dst) = false -> send_echo4 c src dst id seq junk = Ok [].
Proof. unfold send_echo4. intros [->| ->]; cbn; auto using orb_true_r. rewrite orb_true_r. reflexivity. Qed.

(* ---------------------------------------------------------------- *)
(* ICMP6SendEchoRequest *)
Lemma echo6_wf c sm si dm di id seq junk :
  mac_ok (host_mac c) -> mac_ok dm -> ip6_ok si -> ip6_ok di -> id < 65536 -> seq < 65536 ->
  length junk = EthMaxSize ->
  exists fr, send_echo6 c (sm, si) (dm, di) id seq junk = Ok [fr] /\
    wf_echo6 (host_mac c) dm si di id seq fr = true.
Proof.
  intros H1 H2 H3 H4 Hid Hseq HJ.
  assert (HJ' : (77 <= length junk)%nat) by (rewrite HJ; unfold EthMaxSize; lia).
  destruct (split_at 77 junk HJ') as (j & rest & -> & Hj). clear HJ HJ'.
  unfold send_echo6, icmp6_send_packet. destruct c as [hm hip hlla rm rip mtu]. cbn [host_mac a_ip a_mac fst snd] in *.
  unfold is6. rewrite (proj1 H3), (proj1 H4). cbn [Nat.eqb negb orb].
  replace (nd_message (enc_icmp_echo 128 0 id seq hello)) with false by reflexivity. rewrite orb_false_r.
  destruct (ll_unicast di || ll_multicast di);
  explode_ok hm H1; explode_ok dm H2; explode_ok si H3; explode_ok di H4;
  explode j Hj;
  (eexists; split; [cbn; reflexivity|]); abs_cks;
  unfold wf_echo6; run; eqbs;
  (repeat (apply andb_true_intro; split)); [w16_ok | w16_ok | icmp6_cks | w16_ok | w16_ok | icmp6_cks].
Qed.

(* ---------------------------------------------------------------- *)
(* ICMP6SendNeighbourSolicitation (option type 1 since fix 6b9f9d7) *)
Lemma ns_wf c sm si dm di tg junk :
  mac_ok (host_mac c) -> mac_ok dm -> ip6_ok si -> ip6_ok di -> ip6_ok tg ->
  length junk = EthMaxSize ->
  exists fr, send_ns c (sm, si) (dm, di) tg junk = Ok [fr] /\
    wf_ns (host_mac c) dm si di tg fr = true.
Proof.
  intros H1 H2 H3 H4 H5 HJ.
  assert (HJ' : (86 <= length junk)%nat) by (rewrite HJ; unfold EthMaxSize; lia).
  destruct (split_at 86 junk HJ') as (j & rest & -> & Hj). clear HJ HJ'.
  unfold send_ns, icmp6_send_packet. destruct c as [hm hip hlla rm rip mtu]. cbn [host_mac a_ip a_mac fst snd] in *.
  replace (nd_message (ns_marshal tg hm)) with true by reflexivity. rewrite orb_true_r.
  unfold wf_ns, wf_ns_gen.
  explode_ok hm H1; explode_ok dm H2; explode_ok si H3; explode_ok di H4; explode_ok tg H5.
  explode j Hj.
  eexists; split; [cbn; reflexivity|]. abs_cks.
  run; eqbs. icmp6_cks.
Qed.

(* ---------------------------------------------------------------- *)
(* ICMP6SendNeighborAdvertisement (override flag only) *)
Lemma na_wf c sm si dm di tm ti junk :
  mac_ok (host_mac c) -> mac_ok dm -> ip6_ok si -> ip6_ok di -> mac_ok tm -> ip6_ok ti ->
  length junk = EthMaxSize ->
  exists fr, send_na c (sm, si) (dm, di) (tm, ti) junk = Ok [fr] /\
    wf_na (host_mac c) dm si di 32 ti tm fr = true.
Proof.
  intros H1 H2 H3 H4 H5 H6 HJ.
  assert (HJ' : (86 <= length junk)%nat) by (rewrite HJ; unfold EthMaxSize; lia).
  destruct (split_at 86 junk HJ') as (j & rest & -> & Hj). clear HJ HJ'.
  unfold send_na. cbn [a_mac fst]. rewrite (proj1 H5). cbn [Nat.eqb negb].
  unfold icmp6_send_packet. destruct c as [hm hip hlla rm rip mtu]. cbn [host_mac a_ip a_mac fst snd] in *.
  replace (nd_message (na_marshal false false true (tm, ti))) with true by reflexivity. rewrite orb_true_r.
  unfold wf_na.
  explode_ok hm H1; explode_ok dm H2; explode_ok si H3; explode_ok di H4; explode_ok tm H5; explode_ok ti H6.
  explode j Hj.
  eexists; split; [cbn; reflexivity|]. abs_cks.
  run; eqbs. icmp6_cks.
Qed.

(* a target MAC that cannot be the 6-byte target link-layer address is refused (since fix 1cf31e2) *)
Lemma na_refuses c src dst tm ti junk : Nat.eqb (length tm) 6 = false -> send_na c src dst (tm, ti) junk = Ok [].
Proof. unfold send_na. cbn [a_mac fst]. intros ->. reflexivity. Qed.

(* the source Addr's MAC plays no role in echo / NS / NA: the Ethernet source is the NIC MAC *)
Lemma src_mac_irrelevant c sm sm' si dst id seq tg tgt junk :
  send_echo4 c (sm, si) dst id seq junk = send_echo4 c (sm', si) dst id seq junk /\
  send_echo6 c (sm, si) dst id seq junk = send_echo6 c (sm', si) dst id seq junk /\
  send_ns c (sm, si) dst tg junk = send_ns c (sm', si) dst tg junk /\
  send_na c (sm, si) dst tgt junk = send_na c (sm', si) dst tgt junk.
Proof. repeat split; reflexivity. Qed.
