(* Proofs/DHCPGrant.v — "still acknowledged" judged by the granted lease time: the ghost record of the
   ACKs the clients hold never conflicts with an OFFER/ACK (the spec column ghost_fails is empty along
   every history). *)
From PV Require Import Base.Prelude Base.Text Model.DHCP Model.DHCPShow Spec.DHCP Spec.DHCPCheck
  Proofs.DHCP Proofs.DHCPInv Proofs.DHCPReply.
Open Scope list_scope.
Open Scope N_scope.

(* a message of client id k leaves the leases of every other client id in the table *)
Definition keeps (k : cid) (t0 t1 : list lease) : Prop :=
  forall l, In l t0 -> l_cid l <> k -> In l t1.

Lemma keeps_refl k t : keeps k t t.
Proof. intros l H _. exact H. Qed.
Lemma keeps_trans k a b c : keeps k a b -> keeps k b c -> keeps k a c.
Proof. intros H1 H2 l Hl N. apply H2; auto. Qed.
Lemma keeps_tset k l' t : l_cid l' = k -> keeps k t (tset l' t).
Proof. intros Hk l Hl N. apply in_tset. right. split; auto. congruence. Qed.
Lemma keeps_tdel k t : keeps k t (tdel k t).
Proof. intros l Hl N. apply in_tdel. auto. Qed.

Lemma foc_keeps c s k mc s1 l : findOrCreate c s k mc = (s1, l) -> keeps k (tbl s) (tbl s1) /\ l_cid l = k.
Proof.
  intros H. apply foc_spec in H as [_ [_ [_ [Hk [_ [_ [[E _]|[E1 E2]]]]]]]].
  - subst. split; auto. apply keeps_refl.
  - subst s1. split; auto. unfold put, set_tbl. cbn [tbl]. apply keeps_tset. exact Hk.
Qed.

Lemma alloc_tbl' c ch s l req : tbl (snd (allocIPOffer c ch s l req)) = tbl s.
Proof.
  unfold allocIPOffer. destruct (phase1 c ch s l req); simpl; auto.
  destruct (scan _ _ _ _); simpl; [apply set_next_same|].
  destruct (scan _ _ _ _); simpl; apply set_next_same.
Qed.

Lemma tbl_put s l : tbl (put s l) = tset l (tbl s).
Proof. reflexivity. Qed.

Lemma discover_keeps c ch now s0 m :
  keeps (getcid m) (tbl s0) (tbl (fst (handleDiscover c ch now s0 m))).
Proof.
  unfold handleDiscover.
  destruct (findOrCreate c s0 (getcid m) (m_chaddr m)) as [s1 l] eqn:F.
  destruct (foc_keeps _ _ _ _ _ _ F) as [K1 Hk].
  destruct (reset_props now l m) as [Rk _].
  set (l0 := discover_reset now l m) in *.
  set (l1 := match l_offer l0 with Some x => if taken s1 l0 x then set_offer l0 None else l0 | None => l0 end).
  assert (Pk : l_cid l1 = getcid m).
  { unfold l1. destruct (l_offer l0) as [x|]; [destruct (taken s1 l0 x)|]; simpl; congruence. }
  assert (K2 : keeps (getcid m) (tbl s0) (tbl (put s1 l1))).
  { eapply keeps_trans; [exact K1|]. unfold put, set_tbl. cbn [tbl]. apply keeps_tset. exact Pk. }
  assert (G : forall s2 x, tbl s2 = tbl (put s1 l1) ->
          keeps (getcid m) (tbl s0) (tbl (put s2 (set_xid (set_state (set_offer l1 (Some x)) SDiscover) (Some (m_xid m)))))).
  { intros s2 x T. eapply keeps_trans; [exact K2|]. rewrite (tbl_put s2), T.
    apply keeps_tset. simpl. exact Pk. }
  destruct (l_offer l1) as [x|].
  - cbn [fst]. apply (G (put s1 l1) x eq_refl).
  - pose proof (alloc_tbl' c ch (put s1 l1) l1 (m_req m)) as T.
    destruct (allocIPOffer c ch (put s1 l1) l1 (m_req m)) as [[x|] s2]; cbn [snd] in T; cbn [fst].
    + apply (G s2 x T).
    + unfold set_tbl. cbn [tbl]. rewrite T. eapply keeps_trans; [exact K2|]. apply keeps_tdel.
Qed.

Lemma do_ack_keeps c now m s l : keeps (l_cid l) (tbl s) (tbl (fst (do_ack c now m s l))).
Proof.
  unfold do_ack. simpl. apply keeps_tset. destruct (l_state l); reflexivity.
Qed.

Lemma request_keeps c now s0 m :
  keeps (getcid m) (tbl s0) (tbl (fst (handleRequest c now s0 m))).
Proof.
  unfold handleRequest.
  destruct (classify m) as [oper req].
  destruct (req =? 0); [apply keeps_refl|].
  destruct (findOrCreate c s0 (getcid m) (m_chaddr m)) as [s1 l] eqn:F.
  destruct (foc_keeps _ _ _ _ _ _ F) as [K1 Hk].
  assert (A : forall s2, tbl s2 = tbl s1 -> keeps (getcid m) (tbl s0) (tbl (fst (do_ack c now m s2 l)))).
  { intros s2 T. eapply keeps_trans; [exact K1|]. rewrite <- T, <- Hk. apply do_ack_keeps. }
  assert (P : forall l', l_cid l' = getcid m -> keeps (getcid m) (tbl s0) (tbl (put s1 l'))).
  { intros l' E. eapply keeps_trans; [exact K1|]. unfold put, set_tbl. cbn [tbl]. apply keeps_tset. exact E. }
  destruct oper;
    repeat match goal with
           | |- context [if ?b then _ else _] => destruct b
           end;
    simpl; try exact K1; try (apply A; reflexivity); try (apply P; simpl; auto).
Qed.

Lemma decline_keeps c s0 m : keeps (getcid m) (tbl s0) (tbl (fst (handleDecline c s0 m))).
Proof.
  unfold handleDecline.
  destruct (findOrCreate c s0 (getcid m) (m_chaddr m)) as [s1 l] eqn:F.
  destruct (foc_keeps _ _ _ _ _ _ F) as [K1 Hk].
  destruct (negb _); simpl; auto. destruct (_ || _); simpl; auto.
  eapply keeps_trans; [exact K1|]. apply keeps_tset. simpl. exact Hk.
Qed.

Lemma release_keeps c s0 m : keeps (getcid m) (tbl s0) (tbl (fst (handleRelease c s0 m))).
Proof.
  unfold handleRelease. destruct (findOrCreate c s0 (getcid m) (m_chaddr m)) as [s1 l] eqn:F.
  destruct (foc_keeps _ _ _ _ _ _ F) as [K1 _]. simpl. exact K1.
Qed.

Lemma step_keeps c ch s o m :
  op_msg o = Some m -> keeps (getcid m) (tbl s) (tbl (fst (step c ch s o))).
Proof.
  destruct o as [now m'|now m'|m'|m'|x|x|now|k te]; simpl; intros H; inversion H; subst m'.
  - rewrite <- (parse_tbl c s m) at 1. apply discover_keeps.
  - rewrite <- (parse_tbl c s m) at 1. apply request_keeps.
  - rewrite <- (parse_tbl c s m) at 1. apply decline_keeps.
  - rewrite <- (parse_tbl c s m) at 1. apply release_keeps.
Qed.

(* ---------------------------------------------------------------- *)
(* the ghost grants are backed by the server's records *)

Definition grant_backed (clock : Z) (gs : list grant) (s : dstate) : Prop :=
  forall g, In g gs -> (clock < g_until g)%Z ->
    exists l, In l (tbl s) /\ l_cid l = g_cid g /\ l_state l = SAllocated /\
              l_ip l = Some (g_ip g) /\ (g_until g <= l_exp l)%Z.

Lemma free_keeps_unexpired now t l :
  In l t -> (l_exp l <? now)%Z = false -> In l (freeLeases now t).
Proof.
  intros Hl He. unfold freeLeases. apply in_map_iff. exists l. split; auto.
  rewrite He. rewrite andb_false_r. reflexivity.
Qed.

Lemma running_other_false clock gs k x :
  (forall g, In g gs -> g_cid g <> k -> g_ip g = x -> (clock < g_until g)%Z -> False) ->
  running_other clock gs k x = false.
Proof.
  intros H. unfold running_other. destruct (existsb _ gs) eqn:E; auto.
  apply existsb_exists in E as [g [Hg E]]. apply andb_true_iff in E as [E E3]. apply andb_true_iff in E as [E1 E2].
  exfalso. apply (H g Hg).
  - apply negb_true_iff in E1. apply N.eqb_neq. exact E1.
  - apply N.eqb_eq. exact E2.
  - apply Z.ltb_lt. exact E3.
Qed.

Lemma ghost_step_ok c ch s o s' rp clock gs :
  Inv c s -> step c ch s o = (s', rp) -> grant_backed clock gs s ->
  let '(clock', gs', f) := ghost_step clock gs (mkT s ch o rp s') in
  f = [] /\ grant_backed clock' gs' s' /\ (clock <= clock')%Z.
Proof.
  intros HI E K. unfold ghost_step. cbn [t_op t_reply t_post t_pre].
  set (clock' := match op_clock o with Some n => Z.max clock n | None => clock end).
  assert (Hc : (clock <= clock')%Z) by (unfold clock'; destruct (op_clock o); lia).
  destruct (step_ok c ch s o s' rp HI E) as [HI' G].
  destruct o as [now m|now m|m|m|x|x|now|k te].
  (* the four message ops share the argument *)
  1-4: cbn [op_msg];
    (assert (KP : keeps (getcid m) (tbl s) (tbl s')) by
       (first [ replace s' with (fst (step c ch s (ODiscover now m))) by (rewrite E; reflexivity); apply step_keeps; reflexivity
              | replace s' with (fst (step c ch s (ORequest now m))) by (rewrite E; reflexivity); apply step_keeps; reflexivity
              | replace s' with (fst (step c ch s (ODecline m))) by (rewrite E; reflexivity); apply step_keeps; reflexivity
              | replace s' with (fst (step c ch s (ORelease m))) by (rewrite E; reflexivity); apply step_keeps; reflexivity ]));
    (assert (K1 : grant_backed clock' (filter (fun g => negb (g_cid g =? getcid m)) gs) s') by
       (intros g Hg Hr; apply filter_In in Hg as [Hg Hn]; apply negb_true_iff, N.eqb_neq in Hn;
        destruct (K g Hg ltac:(lia)) as [l [Hl [Ck [S [I X]]]]];
        exists l; repeat split; auto; apply KP; auto; congruence)).
  - (* DISCOVER *)
    destruct rp as [r|]; [|repeat split; auto].
    assert (Hoff : is_ack r = false /\ is_lease_reply r = true /\
                   acked_to_other (tbl s') (getcid m) (r_yi r) = false).
    { destruct (G r eq_refl) as [m' [Hm' GG]]. simpl in Hm'. inversion Hm'; subst m'.
      destruct GG as [[y [Er [_ [_ A]]]]|[Hreq _]]; [|discriminate].
      subst r. simpl. auto. }
    destruct Hoff as [Ha [Hl A]]. rewrite Ha, Hl. cbn [andb].
    rewrite running_other_false; [repeat split; auto|].
    intros g Hg Nk Ix Hr. apply filter_In in Hg as [Hg _].
    destruct (K g Hg ltac:(lia)) as [l [Hin [Ck [S [I X]]]]].
    assert (T : acked_to_other (tbl s') (getcid m) (r_yi r) = true).
    { apply acked_to_other_spec. exists l. repeat split; auto; [apply KP; auto; congruence|congruence|congruence]. }
    congruence.
  - (* REQUEST *)
    destruct rp as [r|]; [|repeat split; auto].
    destruct (G r eq_refl) as [m' [Hm' GG]]. simpl in Hm'. inversion Hm'; subst m'.
    destruct GG as [[y [Er _]]|[_ [Er|[y [Er [[Aok [_ A]] _]]]]]].
    + (* an OFFER cannot answer a REQUEST *)
      simpl in E. apply request_shape in E as [E|[z E]]; subst r; discriminate.
    + subst r. cbn [is_ack is_lease_reply is_offer r_type mk_reply orb andb]. repeat split; auto.
    + assert (Ha : is_ack r = true) by (subst r; reflexivity).
      assert (Hl : is_lease_reply r = true) by (subst r; reflexivity).
      assert (Hy : r_yi r = y) by (subst r; reflexivity).
      rewrite Ha, Hl. cbn [andb]. rewrite Hy.
      rewrite running_other_false.
      * split; [reflexivity|split; [|exact Hc]].
        intros g Hg Hr. destruct Hg as [Hg|Hg]; [|apply K1; auto].
        subst g. cbn [g_cid g_ip g_until] in *.
        simpl in E. destruct (request_ack_record c now _ m s' r E Ha) as [l3 [T [S3 [X3 [Gs Yi]]]]].
        exists l3. apply tget_in in T as [T1 T2].
        assert (I3 : l_ip l3 = Some y).
        { rewrite Hy in Yi. destruct (l_ip l3) as [z|]; [congruence|].
          exfalso. apply (addr_ok_nonzero c _ y Aok). exact Yi. }
        repeat split; auto. cbn [op_now]. rewrite X3, Gs. lia.
      * intros g Hg Nk Ix Hr. apply filter_In in Hg as [Hg _].
        destruct (K g Hg ltac:(lia)) as [l [Hin [Ck [S [I X]]]]].
        assert (T : acked_to_other (tbl s') (getcid m) y = true).
        { apply acked_to_other_spec. exists l. repeat split; auto; [apply KP; auto; congruence|congruence|congruence]. }
        congruence.
  - (* DECLINE: no reply *)
    destruct (decline_ok c (parse_effect c s m) m (inv_parse c s m HI)) as [_ D]. simpl in E. rewrite E in D. simpl in D. subst rp.
    repeat split; auto.
  - (* RELEASE: no reply *)
    destruct (release_ok c (parse_effect c s m) m (inv_parse c s m HI)) as [_ D]. simpl in E. rewrite E in D. simpl in D. subst rp.
    repeat split; auto.
  - (* Capture *)
    simpl in E. apply pair_equal_spec in E as [E _]. subst s'. cbn [op_msg]. repeat split; auto.
  - simpl in E. apply pair_equal_spec in E as [E _]. subst s'. cbn [op_msg]. repeat split; auto.
  - (* MinuteTicker *)
    simpl in E. apply pair_equal_spec in E as [E _]. subst s'. cbn [op_msg]. repeat split; auto.
    intros g Hg Hr. unfold clock' in Hr. simpl in Hr.
    destruct (K g Hg ltac:(lia)) as [l [Hin [Ck [S [I X]]]]].
    exists l. repeat split; auto. cbn [tbl set_tbl]. apply free_keeps_unexpired; auto.
    apply Z.ltb_ge. lia.
  - (* expiry hook *)
    simpl in E. apply pair_equal_spec in E as [E _]. subst s'. repeat split; auto.
    intros g Hg Hr. apply in_map_iff in Hg as [g0 [Eg Hg0]].
    unfold clock' in *. simpl in *.
    destruct ((g_cid g0 =? k) && (clock <? g_until g0)%Z) eqn:C.
    + apply andb_true_iff in C as [C1 C2]. apply N.eqb_eq in C1. apply Z.ltb_lt in C2.
      destruct (K g0 Hg0 C2) as [l [Hin [Ck [S [I X]]]]].
      assert (T : tget k (tbl s) = Some l).
      { rewrite <- C1, <- Ck. apply tget_of_in; auto. apply (inv_wf c s HI). }
      rewrite T. subst g. cbn [g_cid g_ip g_until] in *.
      exists (set_exp l te). repeat split; auto; try (simpl; congruence).
      * unfold put, set_tbl. cbn [tbl]. apply in_tset. left. reflexivity.
      * simpl. lia.
    + subst g. destruct (K g0 Hg0 Hr) as [l [Hin [Ck [S [I X]]]]].
      destruct (tget k (tbl s)) as [lk|] eqn:T; [|exists l; auto].
      apply andb_false_iff in C as [C|C]; [|apply Z.ltb_ge in C; lia].
      apply N.eqb_neq in C. exists l. repeat split; auto.
      unfold put, set_tbl. cbn [tbl]. apply in_tset. right. split; auto.
      simpl. apply tget_in in T as [_ T]. congruence.
Qed.

Lemma ghost_fails_nil c h : forall s clock gs,
  Inv c s -> grant_backed clock gs s -> all_nil (ghost_fails clock gs (trace c s h)) = true.
Proof.
  induction h as [|[ch o] r IH]; intros s clock gs HI K; [reflexivity|].
  simpl. destruct (step c ch s o) as [s1 rp] eqn:E. simpl.
  pose proof (ghost_step_ok c ch s o s1 rp clock gs HI E K) as G.
  destruct (ghost_step clock gs (mkT s ch o rp s1)) as [[clock' gs'] f].
  destruct G as [Gf [Gk _]]. subst f. simpl.
  apply IH; auto. apply (step_ok c ch s o s1 rp HI E).
Qed.

(* Along every history no OFFER/ACK names an address for which another client id holds an ACK whose
   granted lease time is still running (time = the largest clock value seen), and every running grant
   is backed by an acknowledged lease recorded at least as long. *)
Theorem granted_never_conflicts : forall c h,
  all_nil (ghost_fails 0 [] (trace c (init c) h)) = true.
Proof.
  intros c h. apply ghost_fails_nil; [apply inv_init|]. intros g Hg. destruct Hg.
Qed.
