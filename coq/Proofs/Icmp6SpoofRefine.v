(* Proofs/Icmp6SpoofRefine.v — "routers are learned exactly" as a refinement: the router table of the
   handler, abstracted to the map  source address -> {MAC, header fields, source LLA, MTU, prefixes,
   routes, RDNSS, DNSSL},  evolves under EVERY event exactly as the abstract table that applies the
   independent RFC 4861 decoder to the processed advertisements:  abs (step st e) = spec_step (abs st) e.
   An update REPLACES the options of the entry (nothing accumulates across advertisements), a router
   lifetime of 0 is recorded as such (the entry is kept and marked, RFC 4861 6.3.4 leaves removal to
   the host's default-router list, which this handler does not keep), the MAC is the one learned when the
   entry was created, options may come in any order and number, unknown ones are skipped. *)
From PV Require Import Base.Prelude Base.Text Model.Icmp6SpoofRA Model.Icmp6Spoof Spec.RFC4861 Model.Icmp6SpoofKnown
  Proofs.Icmp6SpoofRA Proofs.Icmp6SpoofDnssl Proofs.Icmp6Spoof.
Open Scope N_scope.

(* ---- the abstract table (specification side) ---- *)
Record abs_router := mkAbs {
  ab_mac : bytes;
  ab_hop : N; ab_managed : bool; ab_other : bool; ab_prf : N; ab_life : N; ab_reach : N; ab_retrans : N;
  ab_slla : bytes; ab_mtu : N;
  ab_prefixes : list prefix_info; ab_routes : list route_info; ab_rdnss : list rdnss; ab_dnssl : list dnssl
}.
Definition abs_table := list (bytes * abs_router).

Fixpoint tb_find (l : abs_table) (k : bytes) : option abs_router :=
  match l with [] => None | (k0, a) :: t => if bytes_eqb k0 k then Some a else tb_find t k end.
Fixpoint tb_set (l : abs_table) (k : bytes) (a : abs_router) : abs_table :=
  match l with
  | [] => [(k, a)]
  | (k0, a0) :: t => if bytes_eqb k0 k then (k0, a) :: t else (k0, a0) :: tb_set t k a
  end.

(* what the reference decoder reads from one advertisement *)
Definition entry_of (mac : bytes) (d : ra_info) : abs_router :=
  let os := ra_opts d in
  mkAbs mac (ra_hop d) (ra_managed d) (ra_other d) (ra_prf d) (ra_life d) (ra_reach d) (ra_retrans d)
        (last (sllas os) []) (last (mtus os) 0)
        (map pi_of (prefixes os)) (map ri_of (routes os)) (map rd_of (rdnsses os)) (map ds_of (dnssls os)).

(* one processed advertisement: rejected -> nothing; accepted -> the entry of its source is REPLACED by
   what this advertisement says; the MAC of an existing entry stays, a new entry takes the advertised
   source link-layer address or, without one, the Ethernet source *)
Definition spec_learn (tb : abs_table) (src eth p : bytes) : abs_table :=
  match ra_decode_lenient p with
  | None => tb
  | Some d =>
      let mac := match tb_find tb src with Some a => ab_mac a | None => learned_mac d eth end in
      tb_set tb src (entry_of mac d)
  end.

(* the specification's state: the table, the process-wide RA counter (a package-level variable shared
   by every Handler6 of the process) and the default router *)
Record spec_state := mkSpec { sp_table : abs_table; sp_rep : Z; sp_default : option bytes }.

(* the default router (the one whose existence enables the attack) is the most recently CREATED entry:
   it does not change when an entry is updated, when its lifetime goes to 0 or when another router
   advertises a higher preference; a rejected advertisement creates nothing *)
Definition spec_default (tb : abs_table) (dflt : option bytes) (src p : bytes) : option bytes :=
  match ra_decode_lenient p with
  | None => dflt
  | Some _ => match tb_find tb src with Some _ => dflt | None => Some src end
  end.

Definition spec_step (s : spec_state) (e : event) : spec_state :=
  match e with
  | RxRA src eth p hk =>
      if blen p <? 16 then s else
      let rep := (sp_rep s + 1)%Z in
      if negb (Z.rem rep 4 =? 0)%Z || negb hk then mkSpec (sp_table s) rep (sp_default s)
      else mkSpec (spec_learn (sp_table s) src eth p) rep (spec_default (sp_table s) (sp_default s) src p)
  | Tick => mkSpec (sp_table s) (sp_rep s + 1)%Z (sp_default s)     (* an RA seen by another handler of the process *)
  | _ => s
  end.

(* ---- the abstraction of the handler's state ---- *)
Definition abs_router_of (r : router) : abs_router :=
  mkAbs (r_mac r) (r_hop r) (r_managed r) (r_other r) (r_prf r) (r_life r) (r_reach r) (r_retrans r)
        (o_slla (r_opts r)) (r_mtu r) (r_prefixes r)
        (o_routes (r_opts r)) (o_rdnss_all (r_opts r)) (o_dnssl_all (r_opts r)).
Definition abs_table_of (l : list (bytes * router)) : abs_table := map (fun kr => (fst kr, abs_router_of (snd kr))) l.
Definition abs (st : state) : spec_state := mkSpec (abs_table_of (routers st)) (repeat_ st) (defrouter st).

Lemma abs_find l k : tb_find (abs_table_of l) k = option_map abs_router_of (rt_find l k).
Proof. induction l as [|[k0 r0] t IH]; [reflexivity|]. cbn. destruct (bytes_eqb k0 k); [reflexivity|exact IH]. Qed.
Lemma abs_set l k r : abs_table_of (rt_set l k r) = tb_set (abs_table_of l) k (abs_router_of r).
Proof.
  induction l as [|[k0 r0] t IH]; [reflexivity|]. cbn [rt_set abs_table_of map tb_set fst snd].
  destruct (bytes_eqb k0 k); cbn [map fst snd]; [reflexivity|]. f_equal. exact IH.
Qed.

(* the record written by ProcessPacket is the reference decoder's entry *)
Lemma update_entry r0 p d : bytes_ok p -> ra_decode_lenient p = Some d ->
  abs_router_of (router_update r0 p (fold_left apply1 (ra_opts d) opts_zero)) = entry_of (r_mac r0) d.
Proof.
  intros Hok Hd. unfold ra_decode_lenient in Hd.
  destruct p as [|a0 [|a1 [|a2 [|a3 [|a4 [|a5 [|a6 [|a7 [|a8 [|a9 [|a10 [|a11 [|a12 [|a13 [|a14 [|a15 optb]]]]]]]]]]]]]]]];
    try discriminate.
  destruct (split_tlv _ _) as [tl|]; [|discriminate].
  destruct (decode_lenient tl) as [os|]; [|discriminate]. inversion Hd; subst d. clear Hd.
  do 16 (apply bytes_ok_cons' in Hok; destruct Hok as [? Hok]).
  unfold abs_router_of, entry_of, router_update.
  cbn [r_mac r_hop r_managed r_other r_prf r_life r_reach r_retrans r_opts r_mtu r_prefixes
       ra_hop ra_managed ra_other ra_prf ra_life ra_reach ra_retrans ra_opts].
  unfold be32_at, be16_at, at_. cbn [nth Nat.add].
  rewrite bit7, bit6, prf_bits, !be32_w32 by assumption.
  rewrite fold_slla, fold_mtu, fold_prefixes, fold_routes, fold_rdnss_all, fold_dnssl_all.
  cbn [opts_zero o_slla o_mtu o_prefixes o_routes o_rdnss_all o_dnssl_all app]. unfold be16. reflexivity.
Qed.

Lemma fold_slla_len d : o_slla (fold_left apply1 (ra_opts d) opts_zero) = last (sllas (ra_opts d)) [].
Proof. rewrite fold_slla. reflexivity. Qed.

(* ---- the refinement: every event ---- *)
Definition ev_ok (e : event) : Prop := match e with RxRA _ _ p _ => bytes_ok p | _ => True end.

Theorem refinement c st e : ev_ok e -> abs (fst (step c st e)) = spec_step (abs st) e.
Proof.
  intros Hev. destruct e as [a|a| |i order|i|src eth p hk|q| ]; cbn [step spec_step].
  - unfold start_hunt. destruct (is4 (a_ip a)); [reflexivity|]. destruct (is6 _ && _); [reflexivity|].
    destruct (al_has _ _); reflexivity.
  - unfold stop_hunt. destruct (_ && _); reflexivity.
  - unfold close. destruct (closed st); reflexivity.
  - unfold abs. destruct (lookup_frame st i order) as [_ [Fr [Fd [_ Fp]]]]. rewrite Fr, Fp, Fd. reflexivity.
  - unfold abs. destruct (send_frame c st i) as [_ [Fr [Fd [_ Fp]]]]. rewrite Fr, Fp, Fd. reflexivity.
  - cbn [ev_ok] in Hev. unfold rx_ra. cbn [abs sp_rep sp_table sp_default].
    destruct (blen p <? 16) eqn:E16; [reflexivity|].
    destruct (negb (Z.rem (repeat_ st + 1) 4 =? 0)%Z) eqn:Er; cbn [orb]; [reflexivity|].
    destruct (negb hk) eqn:Eh; [reflexivity|].
    assert (Hlen : (16 <= List.length p)%nat) by (unfold blen in E16; lia).
    rewrite (ra_options_total p Hev Hlen). unfold spec_learn, spec_default.
    destruct (ra_decode_lenient p) as [d|] eqn:Ed; [|reflexivity].
    unfold abs. cbn [fst snd]. rewrite abs_find.
    destruct (rt_find (routers st) src) as [r0|] eqn:Ef; cbn [option_map routers repeat_ defrouter fst snd].
    + rewrite abs_set, (update_entry r0 p d Hev Ed). reflexivity.
    + rewrite abs_set, (update_entry _ p d Hev Ed). cbn [router_new r_mac].
      rewrite fold_slla_len. reflexivity.
  - reflexivity.
  - reflexivity.
Qed.

(* over whole histories *)
Fixpoint spec_run (s : spec_state) (evs : list event) : spec_state :=
  match evs with [] => s | e :: r => spec_run (spec_step s e) r end.

Theorem refinement_run c : forall evs st, Forall ev_ok evs ->
  abs (snd (run c st evs)) = spec_run (abs st) evs.
Proof.
  induction evs as [|e r IH]; intros st H; [reflexivity|]. inversion H; subst.
  cbn [run spec_run]. destruct (step c st e) as [st' o] eqn:Hs. destruct (run c st' r) as [tr fin] eqn:Hr.
  cbn [snd]. replace fin with (snd (run c st' r)) by (rewrite Hr; reflexivity). rewrite IH by assumption.
  f_equal. replace st' with (fst (step c st e)) by (rewrite Hs; reflexivity). apply refinement. assumption.
Qed.

(* consequences spelled out: an update replaces, a zero lifetime is recorded and the entry kept *)
Corollary update_replaces tb src eth p d : ra_decode_lenient p = Some d ->
  exists a, tb_find (spec_learn tb src eth p) src = Some a /\
    ab_prefixes a = map pi_of (prefixes (ra_opts d)) /\ ab_rdnss a = map rd_of (rdnsses (ra_opts d)) /\
    ab_routes a = map ri_of (routes (ra_opts d)) /\ ab_dnssl a = map ds_of (dnssls (ra_opts d)) /\
    ab_mtu a = last (mtus (ra_opts d)) 0 /\ ab_life a = ra_life d.
Proof.
  intros Hd. unfold spec_learn. rewrite Hd. eexists. split.
  - assert (H : forall l k a, tb_find (tb_set l k a) k = Some a).
    { induction l as [|[k0 a0] t IH]; intros k a; cbn; [rewrite bytes_eqb_refl; reflexivity|].
      destruct (bytes_eqb k0 k) eqn:E; cbn; rewrite E; [reflexivity|apply IH]. }
    apply H.
  - repeat split; reflexivity.
Qed.

Definition ex_eth : bytes := [0;102;102;102;102;102].

(* ---- the default router ---- *)
(* it only gates the attack: what a pass decides to send does not depend on WHICH router is the default *)
Theorem default_only_gates st i order k k' :
  defrouter st = Some k ->
  lookup (mkSt (hunt st) (loops st) (routers st) (Some k') (repeat_ st) (closed st)) i order =
  (let '(s, o) := lookup st i order in
   (mkSt (hunt s) (loops s) (routers s) (Some k') (repeat_ s) (closed s), o)).
Proof.
  intros Hd. unfold lookup. cbn [loops hunt closed defrouter routers].
  destruct (nth_error (loops st) i) as [l|]; [|destruct st; cbn in *; subst; reflexivity].
  destruct (negb (l_alive l)); [destruct st; cbn in *; subst; reflexivity|].
  destruct (l_pending l); [|destruct st; cbn in *; subst; reflexivity].
  destruct (negb (al_has (hunt st) (a_mac (l_dst l))) || closed st); [reflexivity|]. rewrite Hd. reflexivity.
Qed.

(* the chosen default neither follows a router lifetime of 0 nor a higher preference: two routers, the
   second created later stays the default whatever the first one advertises afterwards *)
Definition ra_hdr (flags : N) (life : N) : bytes := [134;0;0;0;64;flags;life / 256;life mod 256;0;0;0;0;0;0;0;0].
Definition ex_src2 : bytes := [254;128;0;0;0;0;0;0;0;0;0;0;0;1;0;18].
Example default_is_last_created :
  let evs := [RxRA ex_src ex_eth (ra_hdr 0 1800) true; Tick; Tick; Tick;
              RxRA ex_src2 ex_eth (ra_hdr 0 1800) true; Tick; Tick; Tick;
              RxRA ex_src2 ex_eth (ra_hdr 0 0) true; Tick; Tick; Tick;        (* the default's lifetime goes to 0 *)
              RxRA ex_src ex_eth (ra_hdr 8 9000) true] in                      (* the other one turns high preference *)
  sp_default (spec_run (abs (init 3)) evs) = Some ex_src2 /\
  exists a, tb_find (sp_table (spec_run (abs (init 3)) evs)) ex_src2 = Some a /\ ab_life a = 0.
Proof.
  cbv zeta. split; [vm_compute; reflexivity|].
  eexists. split; vm_compute; reflexivity.
Qed.

(* ---- the rate limiter is process-wide ---- *)
(* which of a handler's advertisements are processed depends on the advertisements OTHER handlers of the
   process receive: the same two RAs from the same router leave different tables with and without one
   foreign RA in between.  The property's "records ... exactly" is about processed advertisements
   (refinement above); that a handler's learning is independent of other handlers is false. *)
Theorem limiter_private_refuted : exists c p1 p2,
  let own := [RxRA ex_src ex_eth p1 true; RxRA ex_src ex_eth p2 true] in
  let shared := [RxRA ex_src ex_eth p1 true; Tick; Tick; Tick; RxRA ex_src ex_eth p2 true] in
  sp_table (abs (snd (run c (init 3) own))) <> sp_table (abs (snd (run c (init 3) shared))).
Proof.
  exists ex_cfg, (ra_hdr 0 1800), (ra_hdr 0 600). cbv zeta. vm_compute. discriminate.
Qed.

(* non-vacuity: three advertisements of one router (full options; an update without MTU and with a
   zero router lifetime; a rejected one) and one of a second router, interleaved with other events *)
Definition ex_life0 : bytes := hexb "86000000400000000000000000000000030440c000015180000038400000000020010db8000100020000000000000000"%string.
Definition ex_refine_hist : list event :=
  [RxRA ex_src ex_eth wit_all true; StartHunt (mkAddr ex_mac []); Lookup 0 [0%nat]; Send 0;
   RxRA ex_src ex_eth wit_all true; RxRA ex_src ex_eth wit_all true; RxRA ex_src ex_eth wit_all true;
   RxRA ex_src [0;119;119;119;119;119] ex_life0 true;
   RxOther [135;0;0;0]; Close].

Example refinement_nonvacuous :
  Forall ev_ok ex_refine_hist /\
  exists a, tb_find (sp_table (spec_run (abs (init 3)) ex_refine_hist)) ex_src = Some a /\
    ab_life a = 0 /\ ab_mtu a = 0 /\ List.length (ab_prefixes a) = 1%nat /\ ab_rdnss a = [] /\
    ab_mac a = [170;187;204;221;238;255].
Proof.
  split.
  - repeat constructor; apply bytes_okb_spec; vm_compute; reflexivity.
  - destruct (tb_find (sp_table (spec_run (abs (init 3)) ex_refine_hist)) ex_src) as [a|] eqn:E; [|vm_compute in E; discriminate].
    exists a. split; [reflexivity|]. vm_compute in E. inversion E; subst a. repeat split; reflexivity.
Qed.
